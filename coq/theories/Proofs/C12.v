(* Proofs/C12.v — decoding what the encoder wrote gives back the sorted entries. *)
From Coq Require Import List NArith ZArith Arith Lia ZifyBool ZifyNat ZifyN Bool.
From GoGit Require Import Base.Out Model.IndexFile Gen.C12.
Import ListNotations.
Local Open Scope N_scope.

Ltac Zify.zify_post_hook ::= Z.div_mod_to_equations.

(* ---- fixed-width integers ---- *)
Lemma get_u32_u32 n r : n < 4294967296 -> get_u32 (u32 n ++ r) = Some (n, r).
Proof. intros H. unfold get_u32, u32. cbn [app]. f_equal. f_equal. lia. Qed.

Lemma get_u16_u16 n r : n < 65536 -> get_u16 (u16 n ++ r) = Some (n, r).
Proof. intros H. unfold get_u16, u16. cbn [app]. f_equal. f_equal. lia. Qed.

Lemma u32_length n : List.length (u32 n) = 4%nat. Proof. reflexivity. Qed.
Lemma u16_length n : List.length (u16 n) = 2%nat. Proof. reflexivity. Qed.

Lemma take_app (a r : bytes) : take (List.length a) (a ++ r) = Some (a, r).
Proof.
  unfold take. rewrite app_length.
  replace (List.length a <=? List.length a + List.length r)%nat with true by (symmetry; apply Nat.leb_le; lia).
  rewrite firstn_app, Nat.sub_diag, firstn_all, firstn_O, app_nil_r.
  rewrite skipn_app, Nat.sub_diag, skipn_all. reflexivity.
Qed.

Lemma take_app_n n (a r : bytes) : List.length a = n -> take n (a ++ r) = Some (a, r).
Proof. intros <-. apply take_app. Qed.

Lemma zeros_length n : List.length (zeros n) = n.
Proof. apply repeat_length. Qed.

(* ---- NUL-terminated strings ---- *)
Definition nonul (s : bytes) : bool := forallb (fun c => negb (c =? 0)) s.

Lemma read_until_app s r : nonul s = true -> read_until 0 (s ++ 0 :: r) = Some (s, r).
Proof.
  induction s as [|c s IH]; intros H; cbn [app read_until].
  - reflexivity.
  - cbn in H. apply andb_true_iff in H as [Hc Hs]. apply negb_true_iff in Hc. rewrite Hc, IH by assumption. reflexivity.
Qed.

Lemma nonul_skipn k s : nonul s = true -> nonul (skipn k s) = true.
Proof.
  revert k. induction s as [|c s IH]; intros k H; destruct k; cbn [skipn]; auto.
  cbn in H. apply andb_true_iff in H as [_ Hs]. now apply IH.
Qed.

(* ---- git's offset varint ---- *)
Fixpoint pre (fuel : nat) (m : N) : bytes :=
  match fuel with
  | O => []
  | S f => if m =? 0 then [] else pre f ((m - 1) / 128) ++ [128 + (m - 1) mod 128]
  end.

Lemma varint_more_pre f : forall m acc, varint_more f m acc = pre f m ++ acc.
Proof.
  induction f as [|f IH]; intros m acc; cbn [varint_more pre]; [reflexivity|].
  destruct (m =? 0); [reflexivity|]. rewrite IH, <- app_assoc. reflexivity.
Qed.

Lemma pre_zero f : pre f 0 = [].
Proof. destruct f; reflexivity. Qed.

Lemma read_pre f : forall m t,
  1 <= m -> m < 128 ^ N.of_nat f -> m <= 1000000000000 ->
  exists c, 128 <= c /\ read_varint (pre f m ++ t) = read_varint_loop (List.length t) (m - 1) c t.
Proof.
  induction f as [|f IH]; intros m t H1 Hf Hlim.
  - cbn in Hf. lia.
  - cbn [pre]. replace (m =? 0) with false by (symmetry; apply N.eqb_neq; lia).
    set (m' := (m - 1) / 128). set (x := 128 + (m - 1) mod 128).
    rewrite <- app_assoc. cbn [app].
    assert (Hpow : 128 ^ N.of_nat (S f) = 128 * 128 ^ N.of_nat f).
    { rewrite Nat2N.inj_succ, N.pow_succ_r'. reflexivity. }
    destruct (N.eq_dec m' 0) as [E0|E0].
    + rewrite E0, pre_zero. cbn [app read_varint]. exists x. split; [unfold x; lia|].
      f_equal. unfold x, m' in *. lia.
    + assert (Hm' : m' < 128 ^ N.of_nat f).
      { unfold m'. apply N.div_lt_upper_bound; [lia|]. rewrite Hpow in Hf. lia. }
      destruct (IH m' (x :: t)) as [c' [Hc' Hr]]; [lia|exact Hm'|unfold m'; lia|].
      rewrite Hr. cbn [List.length read_varint_loop].
      replace (c' <? 128) with false by (symmetry; apply N.ltb_ge; lia).
      replace (varint_limit <=? m' - 1) with false by (symmetry; apply N.leb_gt; unfold varint_limit, m'; lia).
      exists x. split; [unfold x; lia|]. f_equal. unfold x, m'. lia.
Qed.

Lemma read_varint_varint n rest : n < 4294967296 -> read_varint (varint n ++ rest) = Ok (n, rest).
Proof.
  intros Hn. unfold varint. rewrite varint_more_pre, <- app_assoc. cbn [app].
  destruct (N.eq_dec (n / 128) 0) as [E0|E0].
  - rewrite E0, pre_zero. cbn [app read_varint read_varint_loop].
    assert (Hlt : n mod 128 <? 128 = true) by (apply N.ltb_lt; lia).
    destruct (List.length rest); cbn [read_varint_loop]; rewrite Hlt; f_equal; f_equal; lia.
  - destruct (read_pre 10 (n / 128) (n mod 128 :: rest)) as [c [Hc Hr]]; [lia| |lia|].
    { change (128 ^ N.of_nat 10) with 1180591620717411303424. lia. }
    rewrite Hr. cbn [List.length read_varint_loop].
    replace (c <? 128) with false by (symmetry; apply N.ltb_ge; lia).
    replace (varint_limit <=? n / 128 - 1) with false by (symmetry; apply N.leb_gt; unfold varint_limit; lia).
    assert (Hlt : n mod 128 <? 128 = true) by (apply N.ltb_lt; lia).
    destruct (List.length rest); cbn [read_varint_loop]; rewrite Hlt; f_equal; f_equal; lia.
Qed.

(* ---- times ---- *)
Definition wf_time (t : gtime) : bool :=
  match t with
  | TZero => true
  | TUnix s n => ((0 <=? s)%Z && (s <? 4294967296)%Z && (n <? 1000000000) && negb ((s =? 0)%Z && (n =? 0)))%bool
  end.

Lemma time_roundtrip t : wf_time t = true ->
  exists a b, time_to_u32 t = Ok (a, b) /\ a < 4294967296 /\ b < 4294967296 /\ mk_time a b = t.
Proof.
  destruct t as [|s n]; intros Hw.
  - exists 0, 0. cbn. repeat split; lia.
  - cbn in Hw. apply andb_true_iff in Hw as [Hw Hnz]. apply andb_true_iff in Hw as [Hw Hn].
    apply andb_true_iff in Hw as [Hs0 Hs1]. apply negb_true_iff in Hnz.
    exists (Z.to_N s), n. unfold time_to_u32.
    assert (E : ((s <? 0) || (wrap64s (s * 1000000000 + Z.of_N n) <? 0))%Z = false).
    { apply orb_false_iff. split; [lia|]. unfold wrap64s.
      replace ((s * 1000000000 + Z.of_N n) mod 18446744073709551616)%Z with (s * 1000000000 + Z.of_N n)%Z
        by (symmetry; apply Z.mod_small; lia).
      replace (s * 1000000000 + Z.of_N n <? 9223372036854775808)%Z with true by (symmetry; apply Z.ltb_lt; lia). lia. }
    rewrite E. split; [|split; [lia|split; [lia|]]].
    + f_equal. f_equal; [f_equal; apply Z.mod_small; lia|apply N.mod_small; lia].
    + unfold mk_time. replace ((Z.to_N s =? 0) && (n =? 0))%bool with false.
      * f_equal; [|apply N.mod_small; lia].
        replace (n / 1000000000) with 0 by (symmetry; apply N.div_small; lia). lia.
      * symmetry. apply andb_false_iff. apply andb_false_iff in Hnz. destruct Hnz as [Hz|Hz]; [left|right]; lia.
Qed.

Section RoundTrip.
Variable hs : nat.
Variable H : bytes -> bytes.

Definition u32ok (n : N) : bool := n <? 4294967296.

Definition wf_entry (e : entry) : bool :=
  (nonul (e_name e) && (e_stage e <? 4) && wf_time (e_ctime e) && wf_time (e_mtime e) &&
   u32ok (e_dev e) && u32ok (e_ino e) && u32ok (e_mode e) && u32ok (e_uid e) && u32ok (e_gid e) && u32ok (e_size e) &&
   (List.length (e_hash e) =? hs)%nat && (N.of_nat (List.length (e_name e)) <? 4294967296))%bool.

Definition enc_fixed (f : fixedf) : bytes :=
  u32 (f_sec f) ++ u32 (f_nsec f) ++ u32 (f_msec f) ++ u32 (f_mnsec f) ++ u32 (f_dev f) ++ u32 (f_ino f) ++
  u32 (f_mode f) ++ u32 (f_uid f) ++ u32 (f_gid f) ++ u32 (f_size f) ++ f_hash f ++ u16 (f_flags f).

Lemma read_fixed_enc f r :
  f_sec f < 4294967296 -> f_nsec f < 4294967296 -> f_msec f < 4294967296 -> f_mnsec f < 4294967296 ->
  f_dev f < 4294967296 -> f_ino f < 4294967296 -> f_mode f < 4294967296 -> f_uid f < 4294967296 ->
  f_gid f < 4294967296 -> f_size f < 4294967296 -> List.length (f_hash f) = hs -> f_flags f < 65536 ->
  read_fixed hs (enc_fixed f ++ r) = Some (f, r).
Proof.
  intros. unfold read_fixed, enc_fixed. repeat rewrite <- app_assoc.
  do 10 (rewrite get_u32_u32 by assumption).
  rewrite (take_app_n hs) by assumption. rewrite get_u16_u16 by assumption.
  destruct f. reflexivity.
Qed.

(* the flags word *)
Lemma flags_fields s m : s < 4 -> m < 4096 ->
  ((s * 4096 + m) / 4096) mod 4 = s /\ (s * 4096 + m) mod 4096 = m /\ N.testbit (s * 4096 + m) 14 = false /\
  ((s * 4096 + m + 16384) / 4096) mod 4 = s /\ (s * 4096 + m + 16384) mod 4096 = m /\ N.testbit (s * 4096 + m + 16384) 14 = true.
Proof. intros. rewrite !N.testbit_eqb. change (2 ^ 14) with 16384. repeat split; lia. Qed.

Lemma ext_bits (ita skip : bool) :
  let x := (if ita then intentToAddMask else 0) + (if skip then skipWorkTreeMask else 0) in
  N.testbit x 13 = ita /\ N.testbit x 14 = skip /\ x < 65536.
Proof. destruct ita, skip; vm_compute; repeat split; reflexivity. Qed.
End RoundTrip.

(* ---- entry names ---- *)
Lemma zeros_S n : zeros (S n) = 0 :: zeros n. Proof. reflexivity. Qed.

Lemma take_zeros n r : take n (zeros n ++ r) = Some (zeros n, r).
Proof. apply take_app_n. apply zeros_length. Qed.

Lemma read_name23_ok flags rd name rest :
  nonul name = true ->
  flags mod 4096 = (if N.of_nat (List.length name) <? 4095 then N.of_nat (List.length name) else 4095) ->
  read_name23 flags rd (name ++ zeros (8 - (rd + List.length name) mod 8) ++ rest) = Ok (name, rest).
Proof.
  intros Hn Hf. unfold read_name23. rewrite Hf. unfold nameMask.
  assert (Hmod : ((rd + List.length name) mod 8 < 8)%nat) by (apply Nat.mod_upper_bound; lia).
  destruct (N.of_nat (List.length name) <? 4095) eqn:El.
  - apply N.ltb_lt in El.
    replace (N.of_nat (List.length name) =? 4095) with false by (symmetry; apply N.eqb_neq; lia).
    rewrite Nat2N.id, take_app. rewrite Nat.sub_diag, Nat.sub_0_r, take_zeros. reflexivity.
  - cbn [N.eqb Pos.eqb].
    set (pad := (8 - (rd + List.length name) mod 8)%nat) in *.
    destruct pad as [|pad'] eqn:Ep; [lia|].
    rewrite zeros_S. cbn [app]. rewrite read_until_app by assumption.
    replace (8 - (rd + List.length name) mod 8 - (S (List.length name) - List.length name))%nat with pad' by (unfold pad in Ep; lia).
    rewrite take_zeros. reflexivity.
Qed.

Lemma cpl_le a b : (common_prefix_len a b <= List.length a)%nat.
Proof. revert b. induction a as [|x a IH]; intros [|y b]; cbn; try lia. destruct (x =? y); cbn; [specialize (IH b)|]; lia. Qed.

Lemma cpl_firstn a b : firstn (common_prefix_len a b) a = firstn (common_prefix_len a b) b.
Proof.
  revert b. induction a as [|x a IH]; intros [|y b]; cbn; try reflexivity.
  destruct (x =? y) eqn:E; cbn; [|reflexivity]. apply N.eqb_eq in E. subst. f_equal. apply IH.
Qed.

Lemma read_name4_ok last name rest :
  nonul name = true ->
  match last with Some ln => N.of_nat (List.length ln) < 4294967296 | None => True end ->
  let prefix := match last with Some ln => common_prefix_len ln name | None => O end in
  let strip := match last with Some ln => (List.length ln - prefix)%nat | None => O end in
  read_name4 last (varint (N.of_nat strip) ++ skipn prefix name ++ [0] ++ rest) = Ok (name, rest).
Proof.
  intros Hn Hl prefix strip. unfold read_name4.
  rewrite read_varint_varint.
  2:{ unfold strip. destruct last as [ln|]; [|cbn; lia]. lia. }
  cbn [app]. rewrite read_until_app by (apply nonul_skipn; exact Hn).
  destruct last as [ln|].
  - unfold strip, prefix. pose proof (cpl_le ln name) as Hle.
    replace (N.of_nat (List.length ln) <? N.of_nat (List.length ln - common_prefix_len ln name)) with false
      by (symmetry; apply N.ltb_ge; lia).
    rewrite Nat2N.id. replace (List.length ln - (List.length ln - common_prefix_len ln name))%nat with (common_prefix_len ln name) by lia.
    rewrite cpl_firstn, firstn_skipn. reflexivity.
  - unfold strip, prefix. cbn. reflexivity.
Qed.

(* ---- one entry ---- *)
Definition last_ok (last : option bytes) : Prop :=
  match last with Some ln => N.of_nat (List.length ln) < 4294967296 | None => True end.

Lemma entry_roundtrip hs ver last e rest :
  wf_entry hs e = true -> ver = 2 \/ ver = 3 \/ ver = 4 -> last_ok last ->
  exists b, encode_entry hs ver last e = Ok b /\ read_entry hs ver last (b ++ rest) = Ok (e, rest) /\ (1 <= List.length b)%nat.
Proof.
  intros Hw Hver Hlast. unfold wf_entry in Hw.
  repeat (apply andb_true_iff in Hw; let H := fresh "W" in destruct Hw as [Hw H]).
  rename Hw into Wname.
  unfold u32ok in *. apply N.ltb_lt in W, W1, W2, W3, W4, W5, W6, W9. apply Nat.eqb_eq in W0.
  destruct (time_roundtrip _ W8) as (sec & nsec & Ec & Hsec & Hnsec & Mc).
  destruct (time_roundtrip _ W7) as (msec & mnsec & Em & Hmsec & Hmnsec & Mm).
  unfold encode_entry. rewrite Ec, Em.
  set (l := N.of_nat (List.length (e_name e))).
  set (m := if l <? nameMask then l else nameMask).
  assert (Hm : m < 4096) by (unfold m, nameMask; destruct (l <? 4095) eqn:E; [apply N.ltb_lt in E|]; lia).
  assert (Hst : e_stage e mod 4 = e_stage e) by (apply N.mod_small; lia).
  rewrite Hst.
  set (flags := e_stage e * 4096 + m).
  set (ext := (e_ita e || e_skip e)%bool).
  set (x := (if e_ita e then intentToAddMask else 0) + (if e_skip e then skipWorkTreeMask else 0)).
  destruct (flags_fields (e_stage e) m W9 Hm) as (F1 & F2 & F3 & F4 & F5 & F6).
  destruct (ext_bits (e_ita e) (e_skip e)) as (X1 & X2 & X3). fold x in X1, X2, X3.
  set (fw := if ext then flags + entryExtended else flags).
  set (f := mkF sec nsec msec mnsec (e_dev e) (e_ino e) (e_mode e) (e_uid e) (e_gid e) (e_size e) (e_hash e) fw).
  set (extbytes := if ext then u16 x else []).
  (* the bytes written before the name *)
  assert (Hfixed : forall tail,
    (u32 sec ++ u32 nsec ++ u32 msec ++ u32 mnsec ++ u32 (e_dev e) ++ u32 (e_ino e) ++ u32 (e_mode e) ++ u32 (e_uid e) ++
     u32 (e_gid e) ++ u32 (e_size e) ++ e_hash e ++ (if ext then u16 (flags + entryExtended) ++ u16 x else u16 flags)) ++ tail
    = enc_fixed f ++ extbytes ++ tail).
  { intros tail. unfold enc_fixed, f, fw, extbytes. cbn [f_sec f_nsec f_msec f_mnsec f_dev f_ino f_mode f_uid f_gid f_size f_hash f_flags].
    destruct ext; repeat rewrite <- app_assoc; reflexivity. }
  assert (Hfw : fw < 65536) by (unfold fw, flags, entryExtended; destruct ext; lia).
  assert (Hread : forall tail, read_fixed hs (enc_fixed f ++ tail) = Some (f, tail)).
  { intros tail. apply read_fixed_enc; assumption. }
  assert (Hstage : (fw / 4096) mod 4 = e_stage e) by (unfold fw, flags, entryExtended; destruct ext; assumption).
  assert (Hlen : fw mod 4096 = m) by (unfold fw, flags, entryExtended; destruct ext; assumption).
  assert (Hbit : N.testbit fw 14 = ext) by (unfold fw, flags, entryExtended; destruct ext; assumption).
  assert (Hflagsdec : forall tail,
     (if ext then match get_u16 (extbytes ++ tail) with None => Err EEof | Some (x0, b') => Ok (N.testbit x0 13, N.testbit x0 14, b') end
      else Ok (false, false, extbytes ++ tail)) = Ok (e_ita e, e_skip e, tail)).
  { intros tail. unfold extbytes. destruct ext eqn:Eext.
    - rewrite get_u16_u16 by exact X3. rewrite X1, X2. reflexivity.
    - cbn [app]. unfold ext in Eext. apply orb_false_iff in Eext as [-> ->]. reflexivity. }
  assert (Hentry : forall name, name = e_name e ->
     mkEntry name (e_stage e) (mk_time sec nsec) (mk_time msec mnsec) (e_dev e) (e_ino e) (e_mode e) (e_uid e) (e_gid e)
             (e_size e) (e_hash e) (e_skip e) (e_ita e) = e).
  { intros name ->. rewrite Mc, Mm. destruct e; reflexivity. }
  destruct Hver as [-> | [-> | ->]].
  - (* V2 *)
    cbn [N.eqb Pos.eqb orb].
    eexists. split; [reflexivity|]. split.
    + rewrite <- (app_assoc _ _ rest). rewrite Hfixed. unfold read_entry. rewrite Hread. cbn [f_flags f]. rewrite Hbit, Hflagsdec. rewrite Hstage.
      cbn [N.eqb Pos.eqb orb].
      repeat rewrite <- app_assoc.
      rewrite read_name23_ok; [|exact Wname|rewrite Hlen; reflexivity].
      cbn [f_sec f_nsec f_msec f_mnsec f_dev f_ino f_mode f_uid f_gid f_size f_hash]. now rewrite Hentry.
    + rewrite !app_length, u32_length. lia.
  - (* V3 *)
    cbn [N.eqb Pos.eqb orb].
    eexists. split; [reflexivity|]. split.
    + rewrite <- (app_assoc _ _ rest). rewrite Hfixed. unfold read_entry. rewrite Hread. cbn [f_flags f]. rewrite Hbit, Hflagsdec. rewrite Hstage.
      cbn [N.eqb Pos.eqb orb].
      repeat rewrite <- app_assoc.
      rewrite read_name23_ok; [|exact Wname|rewrite Hlen; reflexivity].
      cbn [f_sec f_nsec f_msec f_mnsec f_dev f_ino f_mode f_uid f_gid f_size f_hash]. now rewrite Hentry.
    + rewrite !app_length, u32_length. lia.
  - (* V4 *)
    cbn [N.eqb Pos.eqb orb].
    eexists. split; [reflexivity|]. split.
    + rewrite <- (app_assoc _ _ rest). rewrite Hfixed. unfold read_entry. rewrite Hread. cbn [f_flags f]. rewrite Hbit, Hflagsdec. rewrite Hstage.
      cbn [N.eqb Pos.eqb orb].
      repeat rewrite <- app_assoc.
      rewrite read_name4_ok; [|exact Wname|exact Hlast].
      cbn [f_sec f_nsec f_msec f_mnsec f_dev f_ino f_mode f_uid f_gid f_size f_hash]. now rewrite Hentry.
    + rewrite !app_length, u32_length. lia.
Qed.

(* ---- all entries ---- *)
Lemma wf_entry_name_len hs e : wf_entry hs e = true -> N.of_nat (List.length (e_name e)) < 4294967296.
Proof. unfold wf_entry. intros Hw. apply andb_true_iff in Hw as [_ Hw]. now apply N.ltb_lt. Qed.

Lemma entries_roundtrip hs ver : ver = 2 \/ ver = 3 \/ ver = 4 ->
  forall l last rest acc fuel,
  forallb (wf_entry hs) l = true -> last_ok last -> (List.length l < fuel)%nat ->
  exists b, encode_entries hs ver last l = Ok b /\
            read_entries hs fuel ver (N.of_nat (List.length l)) last (b ++ rest) acc = Ok (rev acc ++ l, rest) /\
            (List.length l <= List.length b)%nat.
Proof.
  intros Hver. induction l as [|e l IH]; intros last rest acc fuel Hw Hlast Hfuel.
  - exists []. cbn [encode_entries List.length app]. split; [reflexivity|]. split; [|lia].
    destruct fuel; cbn [read_entries N.of_nat N.eqb]; now rewrite app_nil_r.
  - cbn [forallb] in Hw. apply andb_true_iff in Hw as [He Hl].
    destruct fuel as [|fuel]; [cbn in Hfuel; lia|].
    destruct (entry_roundtrip hs ver last e (match encode_entries hs ver (Some (e_name e)) l with Ok b' => b' ++ rest | Err _ => rest end) He Hver Hlast)
      as (b & Eb & Rb & Lb).
    destruct (IH (Some (e_name e)) rest (e :: acc) fuel Hl) as (b' & Eb' & Rb' & Lb').
    { cbn. now apply wf_entry_name_len with hs. }
    { cbn [List.length] in Hfuel. lia. }
    rewrite Eb' in Rb.
    exists (b ++ b'). cbn [encode_entries]. rewrite Eb, Eb'. split; [reflexivity|]. split.
    + cbn [read_entries List.length].
      replace (N.of_nat (S (List.length l)) =? 0) with false by (symmetry; apply N.eqb_neq; lia).
      rewrite <- app_assoc, Rb.
      replace (N.of_nat (S (List.length l)) - 1) with (N.of_nat (List.length l)) by lia.
      rewrite Rb'. cbn [rev]. rewrite <- app_assoc. reflexivity.
    + rewrite app_length. cbn [List.length]. lia.
Qed.

(* ---- sorting keeps well-formedness and length ---- *)
Lemma insert_entry_forallb (P : entry -> bool) x l :
  P x = true -> forallb P l = true -> forallb P (insert_entry x l) = true.
Proof.
  intros Hx. induction l as [|y l IH]; cbn; intros Hl; [now rewrite Hx|].
  apply andb_true_iff in Hl as [Hy Hl]. destruct (entry_less y x); cbn; [rewrite Hy, IH by assumption|rewrite Hx, Hy, Hl]; reflexivity.
Qed.

Lemma sort_entries_forallb P l : forallb P l = true -> forallb P (sort_entries l) = true.
Proof.
  unfold sort_entries. induction l as [|x l IH]; cbn; intros Hl; [reflexivity|].
  apply andb_true_iff in Hl as [Hx Hl]. apply insert_entry_forallb; auto.
Qed.

Lemma insert_entry_length x l : List.length (insert_entry x l) = S (List.length l).
Proof. induction l as [|y l IH]; cbn; [reflexivity|]. destruct (entry_less y x); cbn; now rewrite ?IH. Qed.

Lemma sort_entries_length l : List.length (sort_entries l) = List.length l.
Proof. unfold sort_entries. induction l as [|x l IH]; cbn; [reflexivity|]. now rewrite insert_entry_length, IH. Qed.

(* ---- the file ---- *)
Lemma bytes_eqb_refl a : bytes_eqb a a = true.
Proof. induction a; cbn; [reflexivity|]. now rewrite N.eqb_refl. Qed.

Lemma fit_length hs x : List.length (fit hs x) = hs.
Proof. unfold fit. rewrite firstn_length, app_length, zeros_length. lia. Qed.

Lemma is_zero_zeros n : is_zero (zeros n) = true.
Proof. induction n; cbn; auto. Qed.

Theorem roundtrip hs H skip sk ver entries :
  ver = 2 \/ ver = 3 \/ ver = 4 ->
  forallb (wf_entry hs) entries = true ->
  N.of_nat (List.length entries) < 4294967296 ->
  exists file, encode hs H skip ver entries = Ok file /\
               decode hs H sk file = Ok (mkIndex ver (sort_entries entries) None None None).
Proof.
  intros Hver Hw Hcount.
  pose proof (sort_entries_forallb _ _ Hw) as Hws.
  destruct (entries_roundtrip hs ver Hver (sort_entries entries) None [] [] (S (List.length (sort_entries entries))) Hws I)
    as (b & Eb & _ & Lb); [lia|].
  set (trailer := if skip then zeros hs else fit hs (H (DIRC ++ u32 (ver mod 4294967296) ++
                     u32 (N.of_nat (List.length entries) mod 4294967296) ++ b))).
  destruct (entries_roundtrip hs ver Hver (sort_entries entries) None trailer [] (S (List.length (b ++ trailer))) Hws I)
    as (b' & Eb' & Rb & _); [rewrite app_length; lia|].
  rewrite Eb in Eb'. injection Eb' as <-.
  assert (Hv : ver < 4294967296) by (destruct Hver as [-> | [-> | ->]]; lia).
  assert (H4 : (4 <? ver) = false) by (destruct Hver as [-> | [-> | ->]]; reflexivity).
  assert (Hrange : ((ver <? 2) || (4 <? ver))%bool = false) by (destruct Hver as [-> | [-> | ->]]; reflexivity).
  set (body := DIRC ++ u32 (ver mod 4294967296) ++ u32 (N.of_nat (List.length entries) mod 4294967296) ++ b) in *.
  assert (Htl : List.length trailer = hs) by (unfold trailer; destruct skip; [apply zeros_length|apply fit_length]).
  exists (body ++ trailer). split.
  - unfold encode, encode_body. rewrite H4, Eb. fold body. unfold trailer. destruct skip; reflexivity.
  - unfold decode. unfold body at 1. repeat rewrite <- app_assoc.
    change (DIRC ++ ?x) with ([68; 73; 82; 67] ++ x).
    rewrite (take_app_n 4) by reflexivity. cbn [negb]. change (bytes_eqb [68; 73; 82; 67] DIRC) with true. cbn [negb].
    rewrite N.mod_small by exact Hv. rewrite get_u32_u32 by exact Hv. rewrite Hrange.
    rewrite N.mod_small by exact Hcount. rewrite get_u32_u32 by exact Hcount.
    rewrite sort_entries_length in Rb. rewrite Rb. cbn [rev app].
    (* no extension: only the trailer is left *)
    cbn [read_extensions].
    replace (List.length trailer <? 8 + hs)%nat with true by (symmetry; apply Nat.ltb_lt; lia).
    replace trailer with (trailer ++ []) at 1 by apply app_nil_r.
    rewrite (take_app_n hs) by exact Htl.
    destruct (is_zero trailer || sk)%bool eqn:Ez; [reflexivity|].
    apply orb_false_iff in Ez as [Ez _].
    assert (Hpre : firstn (List.length (body ++ trailer) - List.length trailer) (body ++ trailer) = body).
    { rewrite app_length, Nat.add_sub. rewrite firstn_app, Nat.sub_diag, firstn_all, firstn_O, app_nil_r. reflexivity. }
    rewrite Hpre.
    assert (Htr : trailer = fit hs (H body)).
    { unfold trailer. destruct skip.
      - unfold trailer in Ez. rewrite is_zero_zeros in Ez. discriminate.
      - reflexivity. }
    rewrite <- Htr, bytes_eqb_refl. reflexivity.
Qed.

(* ---- resolve-undo: stage order vs map order ---- *)
(* the decoder before the repair ranged over a Go map: the order in which the present
   stages receive the stored object names was arbitrary.  [order] is that iteration order. *)
Fixpoint sort_stages (l : list (N * bytes)) : list (N * bytes) :=
  match l with
  | [] => []
  | x :: r => (fix ins (y : N * bytes) (s : list (N * bytes)) :=
                 match s with [] => [y] | z :: t => if fst y <=? fst z then y :: s else z :: ins y t end) x (sort_stages r)
  end.
Definition reuc_hashes_maporder (hs : nat) (order : list N) (b : bytes) : option (res (list (N * bytes) * bytes)) :=
  match read_reuc_hashes hs order b [] with
  | Some (Ok (l, r)) => Some (Ok (sort_stages l, r))
  | x => x
  end.

Lemma reuc_maporder_refuted :
  exists order1 order2 data,
    reuc_hashes_maporder 2 order1 data <> reuc_hashes_maporder 2 order2 data /\
    reuc_hashes_maporder 2 order1 data = read_reuc_hashes 2 [1; 2] data [].
Proof. exists [1; 2], [2; 1], [10; 11; 20; 21]. split; vm_compute; [discriminate|reflexivity]. Qed.

(* in stage order the k-th present stage gets the k-th stored name *)
Lemma reuc_stage_order hs : forall present (names : list bytes) rest acc,
  List.length present = List.length names -> (0 < hs)%nat ->
  Forall (fun n => List.length n = hs) names ->
  read_reuc_hashes hs present (concat names ++ rest) acc = Some (Ok (rev acc ++ combine present names, rest)).
Proof.
  induction present as [|s present IH]; intros names rest acc Hlen Hhs Hn.
  - destruct names; [|discriminate]. cbn. now rewrite app_nil_r.
  - destruct names as [|n names]; [discriminate|]. inversion Hn as [|? ? Hn1 Hn2]; subst.
    cbn [concat read_reuc_hashes]. rewrite <- app_assoc.
    destruct (n ++ concat names ++ rest) as [|c t] eqn:E.
    + destruct n; [cbn in Hhs; lia|discriminate].
    + rewrite <- E. rewrite take_app.
      rewrite IH; [|cbn in Hlen; lia|lia|assumption].
      cbn [rev combine]. rewrite <- app_assoc. reflexivity.
Qed.

(* ---- the constants of the model are the constants of the source (Gen/C12.v is regenerated
   from plumbing/format/index/decoder.go and utils/binary/read.go on every run) ---- *)
Lemma gen_constants :
  index_entryHeaderLength = Z.of_N entryHeaderLength /\ index_entryHeaderLength = 42%Z /\
  index_entryExtended = Z.of_N entryExtended /\ index_entryExtended = (2 ^ 14)%Z /\
  index_nameMask = Z.of_N nameMask /\ (index_nameMask + 1 = 4096)%Z /\
  index_intentToAddMask = Z.of_N intentToAddMask /\ index_intentToAddMask = (2 ^ 13)%Z /\
  index_skipWorkTreeMask = Z.of_N skipWorkTreeMask /\ index_skipWorkTreeMask = (2 ^ 14)%Z /\
  binary_maskContinue = 128%Z /\ binary_maskLength = 127%Z /\ (2 ^ binary_lengthBits = 128)%Z.
Proof. vm_compute. repeat split; reflexivity. Qed.
