(* Proofs/C28Add.v — add (file / directory / All / any set of names), rm of a
   directory and clean without Dir against git's, under explicit boolean guards.
   Index equality is stated per path and up to the cached stat data (size,
   mtime), which neither `git ls-files -s` nor a tree shows: go-git leaves the
   entry of an unchanged file alone, git refreshes its stat fields. *)
From Coq Require Import List NArith Arith Lia Bool ZifyBool ZifyN.
From GoGit Require Import Base.Out Model.Status Model.IndexOps Spec.GitStatus Spec.GitIndexOps Proofs.C27 Proofs.C28.
Import ListNotations.
Local Open Scope N_scope.

(* two convertible copies exist (Proofs.C27, Model.IndexOps); the operations use the latter *)
Local Notation is_some := IndexOps.is_some (only parsing).

(* ------------------------------------------------------------ lookups *)

Lemma find_i_set i n : forall q,
  find_i (idx_set i n) q = if bytes_eqb (ie_path n) q then Some n else find_i i q.
Proof.
  induction i as [|e r IH]; intros q; [reflexivity|].
  cbn [idx_set]. destruct (bytes_eqb (ie_path e) (ie_path n)) eqn:E.
  - apply bytes_eqb_eq in E. cbn [find_i]. rewrite E. destruct (bytes_eqb (ie_path n) q); reflexivity.
  - cbn [find_i]. rewrite IH. destruct (bytes_eqb (ie_path e) q) eqn:E2; [|reflexivity].
    apply bytes_eqb_eq in E2. subst q. rewrite bytes_eqb_sym, E. reflexivity.
Qed.

Lemma find_i_remove i p : forall q,
  find_i (idx_remove i p) q = if bytes_eqb p q then None else find_i i q.
Proof.
  induction i as [|e r IH]; intros q; [cbn; destruct (bytes_eqb p q); reflexivity|].
  cbn [idx_remove]. destruct (bytes_eqb (ie_path e) p) eqn:E.
  - apply bytes_eqb_eq in E. rewrite IH. cbn [find_i]. rewrite E. destruct (bytes_eqb p q); reflexivity.
  - cbn [find_i]. rewrite IH. destruct (bytes_eqb (ie_path e) q) eqn:E2; [|reflexivity].
    apply bytes_eqb_eq in E2. subst q. rewrite bytes_eqb_sym, E. reflexivity.
Qed.

Lemma find_i_filter (g : path -> bool) i : forall q,
  find_i (filter (fun e => g (ie_path e)) i) q = if g q then find_i i q else None.
Proof.
  induction i as [|e r IH]; intros q; [cbn; destruct (g q); reflexivity|].
  cbn [filter]. destruct (g (ie_path e)) eqn:G.
  - cbn [find_i]. destruct (bytes_eqb (ie_path e) q) eqn:E.
    + apply bytes_eqb_eq in E. subst q. rewrite G. reflexivity.
    + apply IH.
  - rewrite IH. cbn [find_i]. destruct (bytes_eqb (ie_path e) q) eqn:E; [|reflexivity].
    apply bytes_eqb_eq in E. subst q. rewrite G. reflexivity.
Qed.

Lemma find_i_path l p e : find_i l p = Some e -> ie_path e = p.
Proof.
  induction l as [|x l IH]; [discriminate|]. cbn [find_i].
  destruct (bytes_eqb (ie_path x) p) eqn:E; [|exact IH].
  intros H. inversion H; subst. now apply bytes_eqb_eq.
Qed.

Lemma find_i_in l p e : find_i l p = Some e -> In e l.
Proof.
  induction l as [|x l IH]; [discriminate|]. cbn [find_i].
  destruct (bytes_eqb (ie_path x) p); intros H; [inversion H; now left|right; now apply IH].
Qed.

Lemma mem_path_in p l : mem_path p l = true <-> In p l.
Proof.
  induction l as [|q l IH]; cbn [mem_path In]; [split; [discriminate|tauto]|].
  rewrite orb_true_iff, IH, bytes_eqb_eq. reflexivity.
Qed.

Lemma mem_path_filter (g : path -> bool) q l : mem_path q (filter g l) = g q && mem_path q l.
Proof.
  induction l as [|x l IH]; [now rewrite andb_false_r|].
  cbn [filter]. destruct (g x) eqn:G; cbn [mem_path]; rewrite IH.
  - destruct (bytes_eqb x q) eqn:E; [|reflexivity]. apply bytes_eqb_eq in E. subst. now rewrite G.
  - destruct (bytes_eqb x q) eqn:E; [|reflexivity]. apply bytes_eqb_eq in E. subst. now rewrite G.
Qed.

Lemma mem_idx_paths q i : mem_path q (map ie_path i) = is_some (find_i i q).
Proof.
  induction i as [|e r IH]; [reflexivity|]. cbn [map mem_path find_i].
  destruct (bytes_eqb (ie_path e) q); [reflexivity|exact IH].
Qed.

Lemma mem_wt_paths q w : mem_path q (map wf_path w) = is_some (find_w w q).
Proof.
  induction w as [|e r IH]; [reflexivity|]. cbn [map mem_path find_w].
  destruct (bytes_eqb (wf_path e) q); [reflexivity|exact IH].
Qed.

(* ------------------------------------------------------------ rm of a directory *)

Lemma fold_idx_remove vs : forall i,
  fold_left idx_remove vs i = filter (fun e => negb (mem_path (ie_path e) vs)) i.
Proof.
  induction vs as [|v vs IH]; intros i.
  - cbn [fold_left mem_path negb]. induction i as [|e r IHr]; [reflexivity|]. cbn [filter]. now rewrite <- IHr.
  - cbn [fold_left]. rewrite IH. induction i as [|e r IHr]; [reflexivity|].
    cbn [idx_remove filter mem_path]. rewrite (bytes_eqb_sym v).
    destruct (bytes_eqb (ie_path e) v); cbn [orb negb filter]; [exact IHr|].
    destruct (mem_path (ie_path e) vs); cbn [negb]; [exact IHr|now rewrite IHr].
Qed.

Lemma fold_wt_remove vs : forall w,
  fold_left wt_remove vs w = filter (fun f => negb (mem_path (wf_path f) vs)) w.
Proof.
  induction vs as [|v vs IH]; intros w.
  - cbn [fold_left mem_path negb]. induction w as [|e r IHr]; [reflexivity|]. cbn [filter]. now rewrite <- IHr.
  - cbn [fold_left]. rewrite IH. induction w as [|e r IHr]; [reflexivity|].
    cbn [wt_remove filter mem_path]. rewrite (bytes_eqb_sym v).
    destruct (bytes_eqb (wf_path e) v); cbn [orb negb filter]; [exact IHr|].
    destruct (mem_path (wf_path e) vs); cbn [negb]; [exact IHr|now rewrite IHr].
Qed.

(* p is a directory of the worktree that is not itself an index entry, some
   entry lies below it, and every entry below it still has its file *)
Definition rm_dir_guard (s : state) (p : path) : bool :=
  negb (existsb (fun f => under (wf_path f) p) (st_wt s)) &&
  is_dir_wt s p && negb (has_file s p) &&
  negb (is_some (find_i (st_index s) p)) &&
  existsb (fun e => under p (ie_path e)) (st_index s) &&
  forallb (fun e => negb (under p (ie_path e)) || has_file s (ie_path e)) (st_index s).

Lemma filter_under_nonempty p i :
  existsb (fun e => under p (ie_path e)) i = true -> filter (under p) (map ie_path i) <> [].
Proof.
  induction i as [|e r IH]; [discriminate|]. cbn [existsb map filter].
  destruct (under p (ie_path e)); [discriminate|]. cbn [orb]. exact IH.
Qed.

Lemma rm_dir_eq s p : rm_dir_guard s p = true -> g_rm s p = s_rm s p.
Proof.
  unfold rm_dir_guard. intros G.
  apply andb_true_iff in G as [G G6]. apply andb_true_iff in G as [G G5].
  apply andb_true_iff in G as [G G4]. apply andb_true_iff in G as [G G3].
  apply andb_true_iff in G as [G1 G2]. apply negb_true_iff in G1, G4.
  unfold g_rm, s_rm. rewrite G1, G2, G3. cbn [andb].
  destruct (find_i (st_index s) p) as [e|] eqn:Ei; [discriminate|].
  destruct (filter (under p) (map ie_path (st_index s))) as [|v0 vr] eqn:Ev.
  { exfalso. now apply (filter_under_nonempty p (st_index s)). }
  rewrite <- Ev. clear Ev v0 vr.
  assert (Hd : existsb (fun v => is_dir_wt s v && negb (has_file s v)) (filter (under p) (map ie_path (st_index s))) = false).
  { apply not_true_is_false. intros C. apply existsb_exists in C as [v [Hv Hc]].
    apply filter_In in Hv as [Hv Hu]. apply in_map_iff in Hv as [e [<- He]].
    rewrite forallb_forall in G6. specialize (G6 e He). rewrite Hu in G6. cbn [negb orb] in G6.
    rewrite G6 in Hc. now rewrite andb_false_r in Hc. }
  assert (Hff : first_fails s (filter (under p) (map ie_path (st_index s))) = false).
  { unfold first_fails. destruct (filter (under p) (map ie_path (st_index s))) as [|v r]; [reflexivity|].
    cbn [existsb] in Hd. now apply orb_false_iff in Hd as [Hd _]. }
  rewrite Hff.
  rewrite !fold_idx_remove, !fold_wt_remove. f_equal. f_equal.
  - apply filter_ext_in. intros e He. f_equal.
    rewrite !mem_path_filter, mem_idx_paths, mem_wt_paths.
    rewrite forallb_forall in G6. specialize (G6 e He).
    assert (Hi : is_some (find_i (st_index s) (ie_path e)) = true).
    { rewrite <- mem_idx_paths. apply mem_path_in. now apply in_map. }
    rewrite Hi. unfold has_file in G6.
    destruct (under p (ie_path e)); cbn [andb negb orb] in *; [|reflexivity].
    destruct (find_w (st_wt s) (ie_path e)); [reflexivity|discriminate].
  - apply filter_ext_in. intros f Hf. f_equal.
    rewrite !mem_path_filter, mem_idx_paths, mem_wt_paths.
    assert (Hw : is_some (find_w (st_wt s) (wf_path f)) = true).
    { rewrite <- mem_wt_paths. apply mem_path_in. now apply in_map. }
    rewrite Hw. destruct (under p (wf_path f)), (is_some (find_i (st_index s) (wf_path f))); reflexivity.
Qed.

(* ------------------------------------------------------------ clean without Dir *)

Lemma dir_prefixes_noslash p : forall cur, existsb (fun c => c =? SLASH) p = false -> dir_prefixes p cur = [].
Proof.
  induction p as [|c r IH]; intros cur H; [reflexivity|].
  cbn [existsb] in H. apply orb_false_iff in H as [Hc H]. cbn [dir_prefixes]. rewrite Hc. now apply IH.
Qed.

Lemma at_root_tracked_dirs s q : at_root q = true -> in_tracked_dirs s q = true.
Proof.
  unfold at_root, in_tracked_dirs. intros H. apply negb_true_iff in H.
  rewrite dir_prefixes_noslash by exact H. reflexivity.
Qed.

(* clean_guard, and no untracked file lies in a directory that git enters
   without -d (one all of whose ancestors hold tracked files) *)
Definition clean_nod_guard (s : state) : bool :=
  clean_guard s &&
  forallb (fun f => negb (git_untracked s (wf_path f)) || at_root (wf_path f) || negb (in_tracked_dirs s (wf_path f))) (st_wt s).

Lemma clean_nod_eq s : clean_nod_guard s = true -> g_clean s false = s_clean s false.
Proof.
  unfold clean_nod_guard. intros G. apply andb_true_iff in G as [G G3].
  unfold clean_guard in G. apply andb_true_iff in G as [G1 G2].
  unfold g_clean, s_clean. cbv zeta. f_equal. f_equal. f_equal.
  rewrite forallb_forall in G2, G3.
  apply filter_ext_in. intros q Hq. apply in_map_iff in Hq as [f [<- Hf]].
  rewrite clean_cond, (right_ins s _ G1), (G2 f Hf). cbn [orb]. rewrite andb_true_r.
  specialize (G3 f Hf).
  destruct (git_untracked s (wf_path f)); cbn [andb negb orb] in *; [|reflexivity].
  destruct (at_root (wf_path f)) eqn:A.
  - now rewrite at_root_tracked_dirs.
  - cbn [orb] in G3. apply negb_true_iff in G3. now rewrite G3.
Qed.

(* ------------------------------------------------------------ add *)

(* what the index shows of an entry: everything but the cached stat data *)
Definition sem (e : ientry) : path * fmode * hash * bool := (ie_path e, ie_mode e, ie_hash e, ie_ita e).
Definition idx_sem_eq (i1 i2 : list ientry) : Prop :=
  forall q, option_map sem (find_i i1 q) = option_map sem (find_i i2 q).

Definition res_equiv (a b : res) : Prop :=
  match a, b with
  | ROk s1, ROk s2 =>
    idx_sem_eq (st_index s1) (st_index s2) /\ st_wt s1 = st_wt s2 /\ st_head s1 = st_head s2 /\
    st_fmt s1 = st_fmt s2 /\ st_filemode s1 = st_filemode s2 /\ st_idxtime s1 = st_idxtime s2
  | RErr s1, RErr s2 => s1 = s2
  | _, _ => False
  end.

(* the effect of one name on a lookup *)
Definition after1 (a : add1) (old : option ientry) : option ientry :=
  match a with ASkip | AErr => old | ASet e => Some e | ADel => None end.

Lemma find_apply_add1 i p a q :
  (forall e, a = ASet e -> ie_path e = p) ->
  find_i (apply_add1 i p a) q = if bytes_eqb p q then after1 a (find_i i q) else find_i i q.
Proof.
  intros Hp. destruct a as [|e| |]; cbn [apply_add1 after1].
  - destruct (bytes_eqb p q); reflexivity.
  - rewrite find_i_set, (Hp e eq_refl). reflexivity.
  - rewrite find_i_remove. reflexivity.
  - destruct (bytes_eqb p q); reflexivity.
Qed.

Lemma fold_add (A : path -> add1) names : forall i q,
  (forall p e, A p = ASet e -> ie_path e = p) ->
  nodup_b names = true ->
  find_i (fold_left (fun i p => apply_add1 i p (A p)) names i) q =
  if mem_path q names then after1 (A q) (find_i i q) else find_i i q.
Proof.
  induction names as [|n names IH]; intros i q HA Hn; [reflexivity|].
  cbn [nodup_b] in Hn. apply andb_true_iff in Hn as [Hn1 Hn]. apply negb_true_iff in Hn1.
  cbn [fold_left mem_path]. rewrite IH by assumption.
  rewrite find_apply_add1 by (intros e; apply HA).
  destruct (bytes_eqb n q) eqn:E.
  - apply bytes_eqb_eq in E. subst q. rewrite Hn1. reflexivity.
  - cbn [orb]. reflexivity.
Qed.

(* --- git's side: staging a scope without directory/file conflicts *)

Definition stepS (s : state) (sc : path -> bool) (i : list ientry) (f : wfile) : list ientry :=
  if sc (wf_path f) && negb (git_skips s f)
  then idx_set (drop_conflicts i (wf_path f)) (git_entry s (st_index s) f) else i.
Definition stepS' (s : state) (sc : path -> bool) (i : list ientry) (f : wfile) : list ientry :=
  if sc (wf_path f) && negb (git_skips s f) then idx_set i (git_entry s (st_index s) f) else i.

(* no path of the worktree is a directory of, or lies below, an index entry or another file *)
Definition noconf (s : state) : bool :=
  forallb (fun f => forallb (fun e => negb (df_conflict (wf_path f) (ie_path e))) (st_index s) &&
                    forallb (fun f' => negb (df_conflict (wf_path f) (wf_path f'))) (st_wt s)) (st_wt s).

(* every entry's path is the path of an index entry or of a worktree file *)
Definition known_paths (s : state) (i : list ientry) : Prop :=
  forall e, In e i -> (exists e0, In e0 (st_index s) /\ ie_path e = ie_path e0) \/
                      (exists f, In f (st_wt s) /\ ie_path e = wf_path f).

Lemma drop_conflicts_id s i f :
  noconf s = true -> In f (st_wt s) -> known_paths s i -> drop_conflicts i (wf_path f) = i.
Proof.
  unfold noconf. rewrite forallb_forall. intros N Hf K. specialize (N f Hf).
  apply andb_true_iff in N as [N1 N2]. rewrite forallb_forall in N1, N2.
  unfold drop_conflicts. induction i as [|e r IH]; [reflexivity|].
  cbn [filter].
  assert (Hc : negb (df_conflict (wf_path f) (ie_path e)) = true).
  { destruct (K e (or_introl eq_refl)) as [[e0 [H0 ->]]|[f' [H' ->]]]; [now apply N1|now apply N2]. }
  rewrite Hc. f_equal. apply IH. intros e' He'. apply K. now right.
Qed.

Lemma known_set s i f : In f (st_wt s) -> known_paths s i -> known_paths s (idx_set i (git_entry s (st_index s) f)).
Proof.
  intros Hf K. induction i as [|e r IH]; intros e' He'.
  - cbn [idx_set] in He'. destruct He' as [<-|[]]. right. exists f. split; [exact Hf|reflexivity].
  - cbn [idx_set] in He'. destruct (bytes_eqb (ie_path e) (ie_path (git_entry s (st_index s) f))).
    + destruct He' as [<-|He']; [right; exists f; split; [exact Hf|reflexivity]|]. apply K. now right.
    + destruct He' as [<-|He']; [apply K; now left|]. apply IH; [|exact He']. intros x Hx. apply K. now right.
Qed.

Lemma stepS_fold s sc w : forall i,
  noconf s = true -> (forall f, In f w -> In f (st_wt s)) -> known_paths s i ->
  fold_left (stepS s sc) w i = fold_left (stepS' s sc) w i.
Proof.
  induction w as [|f w IH]; intros i N Hw K; [reflexivity|].
  cbn [fold_left]. assert (Hf : In f (st_wt s)) by (apply Hw; now left).
  assert (E : stepS s sc i f = stepS' s sc i f).
  { unfold stepS, stepS'. destruct (sc (wf_path f) && negb (git_skips s f)); [|reflexivity].
    now rewrite (drop_conflicts_id s i f). }
  rewrite E. apply IH; [exact N|intros x Hx; apply Hw; now right|].
  unfold stepS'. destruct (sc (wf_path f) && negb (git_skips s f)); [now apply known_set|exact K].
Qed.

Fixpoint nodup_w (w : list wfile) : bool :=
  match w with [] => true | f :: r => negb (is_some (find_w r (wf_path f))) && nodup_w r end.

Lemma stepS'_find s sc w : forall i q,
  nodup_w w = true ->
  find_i (fold_left (stepS' s sc) w i) q =
  match find_w w q with
  | Some f => if sc q && negb (git_skips s f) then Some (git_entry s (st_index s) f) else find_i i q
  | None => find_i i q
  end.
Proof.
  induction w as [|f w IH]; intros i q Hn; [reflexivity|].
  cbn [nodup_w] in Hn. apply andb_true_iff in Hn as [Hn1 Hn]. apply negb_true_iff in Hn1.
  cbn [fold_left find_w]. rewrite IH by exact Hn.
  destruct (bytes_eqb (wf_path f) q) eqn:E.
  - apply bytes_eqb_eq in E. subst q. destruct (find_w w (wf_path f)); [discriminate|].
    unfold stepS'. destruct (sc (wf_path f) && negb (git_skips s f)); [|reflexivity].
    rewrite find_i_set. cbn [git_entry ie_path]. now rewrite bytes_eqb_refl.
  - assert (Hs : find_i (stepS' s sc i f) q = find_i i q).
    { unfold stepS'. destruct (sc (wf_path f) && negb (git_skips s f)); [|reflexivity].
      rewrite find_i_set. cbn [git_entry ie_path]. now rewrite E. }
    rewrite Hs. reflexivity.
Qed.

Lemma known_kept s (g : ientry -> bool) : known_paths s (filter g (st_index s)).
Proof. intros e He. apply filter_In in He as [He _]. left. exists e. split; [exact He|reflexivity]. Qed.

Lemma git_scope_find s sc q :
  noconf s = true -> nodup_w (st_wt s) = true ->
  find_i (git_add_scope s sc) q =
  match find_w (st_wt s) q with
  | Some f => if sc q && negb (git_skips s f) then Some (git_entry s (st_index s) f)
              else find_i (st_index s) q
  | None => if sc q then None else find_i (st_index s) q
  end.
Proof.
  intros N Hn. unfold git_add_scope. fold (stepS s sc).
  rewrite (stepS_fold s sc (st_wt s)) by (try exact N; try (intros; assumption); apply known_kept).
  rewrite stepS'_find by exact Hn.
  rewrite (find_i_filter (fun p => negb (sc p) || has_file s p)).
  unfold has_file. destruct (find_w (st_wt s) q) as [f|] eqn:Ew.
  - rewrite orb_true_r. reflexivity.
  - rewrite orb_false_r. destruct (sc q); reflexivity.
Qed.

(* --- go-git's side: the verdict of doAddFile for one name *)

Definition wcode (s : state) (q : path) : code := snd (sfile (status_map s) q).

Lemma wcode_unmod s q :
  code_eqb (wcode s q) CUnmod = match left_change s q, right_change s q with Some _, None => true | _, _ => false end.
Proof.
  unfold wcode, sfile. rewrite status_map_get.
  destruct (left_change s q) as [[]|], (right_change s q) as [[]|]; reflexivity.
Qed.

(* the per-entry conditions under which an entry and its unchanged file agree with what git stages *)
Definition entry_ok (s : state) (e : ientry) (f : wfile) : bool :=
  (h_fmt (ie_hash e) =? st_fmt s) && negb (ie_ita e) &&
  (negb (metadata_matches s e f) || (h_cid (ie_hash e) =? wf_cid f)).

Definition add_guard (s : state) : bool :=
  st_filemode s && noconf s && nodup_w (st_wt s) &&
  forallb (fun f => match find_i (st_index s) (wf_path f) with
                    | Some e => entry_ok s e f
                    | None => Bool.eqb (wf_ignored f) (wf_ignored_git f)
                    end) (st_wt s).

(* a name given to doAddFile: it exists (as a file or as an entry), and an untracked file is not ignored *)
Definition name_ok (s : state) (q : path) : bool :=
  match find_i (st_index s) q, find_w (st_wt s) q with
  | None, Some f => (negb (wf_ignored f) && negb (wf_ignored_git f)) ||
                    (wf_ignored f && wf_ignored_git f && is_some (left_change s q))
  | None, None => is_some (left_change s q)
  | _, _ => true
  end.

Lemma hash_eta h : mkHash (h_fmt h) (h_cid h) = h.
Proof. destruct h; reflexivity. Qed.

Lemma hash_eqb_eq a b : hash_eqb a b = true -> a = b.
Proof.
  destruct a, b. unfold hash_eqb. simpl. intros H. apply andb_true_iff in H as [H1 H2].
  apply N.eqb_eq in H1, H2. now subst.
Qed.

(* an unchanged tracked file: the entry is, up to the stat data, what git stages *)
Lemma unchanged_sem s e f :
  st_filemode s = true -> entry_ok s e f = true -> ie_path e = wf_path f ->
  find_i (st_index s) (wf_path f) = Some e ->
  nhash_eqb (inode_hash (st_filemode s) e) (wnode_hash s f) = true ->
  sem e = sem (git_entry s (st_index s) f).
Proof.
  intros Hfm Hok Hp Hfi Hh. unfold entry_ok in Hok.
  apply andb_true_iff in Hok as [Hok H3]. apply andb_true_iff in Hok as [H1 H2].
  apply N.eqb_eq in H1. apply negb_true_iff in H2.
  unfold wnode_hash in Hh. rewrite Hfi in Hh. rewrite Hfm in Hh.
  unfold sem, git_entry, git_mode. cbn [ie_path ie_mode ie_hash ie_ita]. rewrite Hfm, H2, Hp.
  unfold nhash_eqb, inode_hash in Hh. cbn [fst snd] in Hh.
  destruct (metadata_matches s e f) eqn:M; cbn [fst snd negb orb] in *.
  - apply andb_true_iff in Hh as [_ Hm].
    assert (Em : ie_mode e = wf_mode f).
    { destruct (ie_mode e), (wf_mode f); cbn in Hm; try discriminate; reflexivity. }
    apply N.eqb_eq in H3. rewrite Em, <- H1, <- H3, hash_eta. reflexivity.
  - apply andb_true_iff in Hh as [Hh Hm]. apply hash_eqb_eq in Hh.
    assert (Em : ie_mode e = wf_mode f).
    { destruct (ie_mode e), (wf_mode f); cbn in Hm; try discriminate; reflexivity. }
    rewrite Em, <- H1, Hh. reflexivity.
Qed.

Lemma entry_of_file_sem s f : st_filemode s = true -> sem (entry_of_file s f) = sem (git_entry s (st_index s) f).
Proof. intros H. unfold sem, entry_of_file, git_entry, git_mode. cbn [ie_path ie_mode ie_hash ie_ita]. now rewrite H. Qed.

Lemma noconf_not_dir s q e :
  noconf s = true -> find_i (st_index s) q = Some e -> is_dir_wt s q = false.
Proof.
  unfold noconf, is_dir_wt. rewrite forallb_forall. intros N Hq.
  apply not_true_is_false. intros C. apply existsb_exists in C as [f [Hf Hu]].
  specialize (N f Hf). apply andb_true_iff in N as [N _]. rewrite forallb_forall in N.
  specialize (N e (find_i_in _ _ _ Hq)). rewrite (find_i_path _ _ _ Hq) in N.
  unfold df_conflict in N. rewrite Hu in N. rewrite orb_true_r in N. discriminate.
Qed.

Lemma noconf_not_below s q e :
  noconf s = true -> find_i (st_index s) q = Some e -> existsb (fun f => under (wf_path f) q) (st_wt s) = false.
Proof.
  unfold noconf. rewrite forallb_forall. intros N Hq.
  apply not_true_is_false. intros C. apply existsb_exists in C as [f [Hf Hu]].
  specialize (N f Hf). apply andb_true_iff in N as [N _]. rewrite forallb_forall in N.
  specialize (N e (find_i_in _ _ _ Hq)). rewrite (find_i_path _ _ _ Hq) in N.
  unfold df_conflict in N. rewrite Hu in N. discriminate.
Qed.

(* the lookup after doAddFile(q), against git's, for a name in scope *)
Lemma name_in_scope s q :
  add_guard s = true -> name_ok s q = true ->
  is_aerr (add_file1 s (status_map s) q) = false /\
  option_map sem (after1 (add_file1 s (status_map s) q) (find_i (st_index s) q)) =
  option_map sem (match find_w (st_wt s) q with
                  | Some f => if negb (git_skips s f) then Some (git_entry s (st_index s) f) else find_i (st_index s) q
                  | None => None
                  end).
Proof.
  unfold add_guard, name_ok. intros G Hn.
  apply andb_true_iff in G as [G G4]. apply andb_true_iff in G as [G G3]. apply andb_true_iff in G as [G1 G2].
  rewrite forallb_forall in G4.
  unfold add_file1. fold (wcode s q). rewrite wcode_unmod.
  destruct (find_i (st_index s) q) as [e|] eqn:Ei; destruct (find_w (st_wt s) q) as [f|] eqn:Ew.
  - (* tracked, file present *)
    pose proof (find_w_path _ _ _ Ew) as Pf. pose proof (find_i_path _ _ _ Ei) as Pe.
    specialize (G4 f (find_w_in _ _ _ Ew)). rewrite Pf, Ei in G4.
    assert (Sk : git_skips s f = false) by (unfold git_skips; rewrite Pf, Ei; reflexivity).
    rewrite Sk. cbn [negb].
    destruct (left_change s q) as [a|] eqn:L; destruct (right_change s q) as [b|] eqn:R;
      cbn [is_aerr after1 option_map]; try (split; [reflexivity|]; f_equal; now apply entry_of_file_sem).
    split; [reflexivity|]. f_equal.
    unfold right_change in R. rewrite Ei, Ew in R. unfold wt_visible in R. rewrite Pf, Ei in R. cbn [option_map change1] in R.
    destruct (nhash_eqb (inode_hash (st_filemode s) e) (wnode_hash s f)) eqn:H; [|discriminate].
    apply unchanged_sem; try assumption; [congruence|now rewrite Pf].
  - (* tracked, file gone *)
    assert (R : right_change s q = Some Del) by (unfold right_change; rewrite Ei, Ew; reflexivity).
    rewrite R. destruct (left_change s q); cbn [negb];
      rewrite (noconf_not_below s q e G2 Ei), (noconf_not_dir s q e G2 Ei); cbn [is_aerr after1 option_map]; split; reflexivity.
  - (* untracked file: not ignored, or ignored with a staged deletion (Worktree = Unmodified) *)
    pose proof (find_w_path _ _ _ Ew) as Pf.
    apply orb_true_iff in Hn as [Hn|Hn].
    + apply andb_true_iff in Hn as [Hn1 Hn2]. apply negb_true_iff in Hn1, Hn2.
      assert (R : right_change s q = Some Ins).
      { unfold right_change. rewrite Ei, Ew. unfold wt_visible. rewrite Pf, Ei, Hn1. reflexivity. }
      assert (Sk : git_skips s f = false) by (unfold git_skips; now rewrite Hn2, andb_false_r).
      rewrite R, Sk. destruct (left_change s q); cbn [negb is_aerr after1 option_map];
        (split; [reflexivity|]; f_equal; now apply entry_of_file_sem).
    + apply andb_true_iff in Hn as [Hn Hn3]. apply andb_true_iff in Hn as [Hn1 Hn2].
      assert (R : right_change s q = None).
      { unfold right_change. rewrite Ei, Ew. unfold wt_visible. rewrite Pf, Ei, Hn1. reflexivity. }
      assert (Sk : git_skips s f = true) by (unfold git_skips; now rewrite Pf, Ei, Hn2).
      rewrite R, Sk. destruct (left_change s q); [|discriminate]. cbn [negb is_aerr after1 option_map]. split; reflexivity.
  - (* neither: a staged deletion, Worktree = Unmodified *)
    assert (R : right_change s q = None) by (unfold right_change; rewrite Ei, Ew; reflexivity).
    rewrite R. destruct (left_change s q); [|discriminate]. cbn [is_aerr after1 option_map]. split; reflexivity.
Qed.

(* a path in scope that doAddFile is NOT called for, and whose worktree side shows no change *)
Lemma unnamed_in_scope s q :
  add_guard s = true -> right_change s q = None ->
  option_map sem (find_i (st_index s) q) =
  option_map sem (match find_w (st_wt s) q with
                  | Some f => if negb (git_skips s f) then Some (git_entry s (st_index s) f) else find_i (st_index s) q
                  | None => None
                  end).
Proof.
  unfold add_guard. intros G R.
  apply andb_true_iff in G as [G G4]. apply andb_true_iff in G as [G G3]. apply andb_true_iff in G as [G1 G2].
  rewrite forallb_forall in G4. unfold right_change in R.
  destruct (find_i (st_index s) q) as [e|] eqn:Ei; destruct (find_w (st_wt s) q) as [f|] eqn:Ew; cbn [option_map change1] in R.
  - pose proof (find_w_path _ _ _ Ew) as Pf. pose proof (find_i_path _ _ _ Ei) as Pe.
    specialize (G4 f (find_w_in _ _ _ Ew)). rewrite Pf, Ei in G4.
    assert (Sk : git_skips s f = false) by (unfold git_skips; rewrite Pf, Ei; reflexivity).
    rewrite Sk. cbn [negb option_map]. f_equal.
    unfold wt_visible in R. rewrite Pf, Ei in R.
    destruct (nhash_eqb (inode_hash (st_filemode s) e) (wnode_hash s f)) eqn:H; [|discriminate].
    apply unchanged_sem; try assumption; [congruence|now rewrite Pf].
  - discriminate.
  - pose proof (find_w_path _ _ _ Ew) as Pf.
    specialize (G4 f (find_w_in _ _ _ Ew)). rewrite Pf, Ei in G4. apply eqb_prop in G4.
    unfold wt_visible in R. rewrite Pf, Ei in R.
    destruct (wf_ignored f) eqn:Ig; [|discriminate].
    assert (Sk : git_skips s f = true) by (unfold git_skips; now rewrite Pf, Ei, <- G4).
    rewrite Sk. reflexivity.
  - reflexivity.
Qed.

(* THE add theorem: go-git calls doAddFile for [names]; git stages the scope [sc].
   When the names lie in the scope, include every path of the scope whose
   worktree side shows a change, and are acceptable, the two indexes agree. *)
Lemma add_scope_eq s sc names :
  add_guard s = true ->
  nodup_b names = true ->
  (forall q, mem_path q names = true -> sc q = true /\ name_ok s q = true) ->
  (forall q, sc q = true -> is_some (right_change s q) = true -> mem_path q names = true) ->
  res_equiv (add_names s names) (ROk (with_index s (git_add_scope s sc))).
Proof.
  intros G Hnd Hin Hall.
  assert (G' := G). unfold add_guard in G'.
  apply andb_true_iff in G' as [G' G4]. apply andb_true_iff in G' as [G' G3]. apply andb_true_iff in G' as [G1 G2].
  unfold add_names. cbv zeta.
  assert (Hne : existsb (fun p => is_aerr (add_file1 s (status_map s) p)) names = false).
  { apply not_true_is_false. intros C. apply existsb_exists in C as [p [Hp He]].
    apply mem_path_in in Hp. destruct (Hin p Hp) as [_ Hok].
    destruct (name_in_scope s p G Hok) as [Hf _]. congruence. }
  rewrite Hne. unfold res_equiv, with_index. cbn [st_index st_wt st_head st_fmt st_filemode st_idxtime].
  repeat split. intros q.
  rewrite fold_add; [|intros p e; unfold add_file1;
    destruct (code_eqb _ _); [discriminate|]; destruct (find_w (st_wt s) p) as [f|] eqn:Ew;
    [intros H; inversion H; subst; cbn [entry_of_file ie_path]; now apply find_w_path in Ew|
     repeat (match goal with |- context [if ?c then _ else _] => destruct c end; try discriminate);
     destruct (find_i (st_index s) p); discriminate]|exact Hnd].
  rewrite git_scope_find by assumption.
  destruct (mem_path q names) eqn:M.
  - destruct (Hin q M) as [Hsc Hok]. rewrite Hsc. cbn [andb].
    destruct (name_in_scope s q G Hok) as [_ ->].
    destruct (find_w (st_wt s) q); reflexivity.
  - destruct (sc q) eqn:Hsc.
    + assert (R : right_change s q = None).
      { destruct (right_change s q) eqn:R; [|reflexivity]. rewrite (Hall q Hsc) in M; [discriminate|now rewrite R]. }
      cbn [andb]. rewrite (unnamed_in_scope s q G R). destruct (find_w (st_wt s) q); reflexivity.
    + cbn [andb]. destruct (find_w (st_wt s) q); reflexivity.
Qed.
