(* Proofs/C43Bfs.v — the BFS walker yields commits in level order: labelling the
   start 0 and every other commit 1 + the label of the (earlier yielded) commit
   through which it was discovered, labels never decrease along the output. *)
From Coq Require Import List Arith ZArith Bool Lia.
From GoGit Require Import Spec.Dag Model.CommitWalk.
Import ListNotations.

Definition lnode := (node * nat)%type.

Fixpoint bfsL (g : dag) (fuel : nat) (q : list lnode) (seen : list node) (acc : list lnode) : list lnode * wend :=
  match fuel with
  | O => (rev acc, WFuel)
  | S f =>
    match q with
    | [] => (rev acc, WEof)
    | (c, d) :: q' =>
      if mem c seen then bfsL g f q' seen acc
      else
        let seen' := c :: seen in
        let add := unseen_parents g seen' c in
        if negb (forallb (present g) add) then (rev acc, WFail)
        else bfsL g f (q' ++ map (fun p => (p, S d)) add) seen' ((c, d) :: acc)
    end
  end.

(* the labelled run is the BFS walker with a ghost label *)
Lemma bfsL_proj : forall g fuel q seen acc,
  bfs_loop g nostop fuel (map fst q) seen (map fst acc)
  = (map fst (fst (bfsL g fuel q seen acc)), snd (bfsL g fuel q seen acc)).
Proof.
  intros g. induction fuel as [|f IH]; intros q seen acc.
  - simpl. now rewrite map_rev.
  - destruct q as [|[c d] q']; [simpl; now rewrite map_rev|].
    cbn [bfs_loop bfsL map fst]. destruct (mem c seen); [apply IH|].
    destruct (negb (forallb (present g) (unseen_parents g (c :: seen) c))); [simpl; now rewrite map_rev|].
    change (nostop c) with false. cbv iota.
    specialize (IH (q' ++ map (fun p => (p, S d)) (unseen_parents g (c :: seen) c)) (c :: seen) ((c, d) :: acc)).
    rewrite map_app, map_map in IH. simpl in IH. rewrite map_id in IH. exact IH.
Qed.

Fixpoint nondecr (l : list lnode) : Prop :=
  match l with [] => True | p :: r => (forall p', In p' r -> snd p <= snd p') /\ nondecr r end.
Fixpoint nonincr (l : list lnode) : Prop :=
  match l with [] => True | p :: r => (forall p', In p' r -> snd p' <= snd p) /\ nonincr r end.

Lemma nondecr_app : forall l1 l2, nondecr l1 -> nondecr l2 ->
  (forall a b, In a l1 -> In b l2 -> snd a <= snd b) -> nondecr (l1 ++ l2).
Proof.
  induction l1 as [|p r IH]; intros l2 H1 H2 H; [exact H2|]. simpl in *. destruct H1 as [Ha Hb]. split.
  - intros p' Hp'. apply in_app_or in Hp'. destruct Hp' as [Hp'|Hp']; [now apply Ha | apply H; auto].
  - apply IH; auto.
Qed.

Lemma nonincr_rev : forall l, nonincr l -> nondecr (rev l).
Proof.
  induction l as [|p r IH]; intros H; [exact I|]. simpl in *. destruct H as [Ha Hb].
  apply nondecr_app; [now apply IH | simpl; split; [intros p' [] | exact I] |].
  intros a b' Hin [Hb'|[]]. subst b'. apply Ha. now apply in_rev.
Qed.

Section Level.
  Variable g : dag.
  Variable s : node.

  (* (x, d): x is the start with label 0, or was pushed by an already emitted (y, d-1) with x among y's parents *)
  Definition justified (before : list lnode) (p : lnode) : Prop :=
    (p = (s, 0)) \/ exists y dy, In (y, dy) before /\ In (fst p) (parents g y) /\ snd p = S dy.

  Definition disc_l (acc : list lnode) : Prop :=
    forall a1 p a2, acc = a1 ++ p :: a2 -> justified a2 p.

  Record LI (q : list lnode) (acc : list lnode) : Prop := mkLI {
    l_qsorted : nondecr q;
    l_band : exists m, forall p, In p q -> m <= snd p <= S m;
    l_acc : nonincr acc;
    l_cross : forall a p, In a acc -> In p q -> snd a <= snd p;
    l_qjust : forall p, In p q -> justified acc p;
    l_disc : disc_l acc
  }.

  Definition level_ordered (l : list lnode) : Prop :=
    nondecr l /\ forall l1 p l2, l = l1 ++ p :: l2 -> justified l1 p.

  Lemma justified_more : forall a b p, (forall x, In x a -> In x b) -> justified a p -> justified b p.
  Proof.
    intros a b' p H [J|[y [dy [J1 [J2 J3]]]]]; [now left|]. right. exists y, dy. auto.
  Qed.

  Lemma disc_l_rev : forall acc, disc_l acc -> forall l1 p l2, rev acc = l1 ++ p :: l2 -> justified l1 p.
  Proof.
    intros acc H l1 p l2 E.
    assert (E' : acc = rev l2 ++ p :: rev l1).
    { rewrite <- (rev_involutive acc), E, rev_app_distr. simpl. now rewrite <- app_assoc. }
    apply (justified_more (rev l1)); [intros x Hx; now apply in_rev | now apply (H _ _ _ E')].
  Qed.

  Lemma bfsL_level : forall fuel q seen acc, LI q acc ->
    level_ordered (fst (bfsL g fuel q seen acc)).
  Proof.
    induction fuel as [|f IH]; intros q seen acc H.
    - simpl. split; [apply nonincr_rev, (l_acc _ _ H) | apply disc_l_rev, (l_disc _ _ H)].
    - destruct q as [|[c d] q'].
      + simpl. split; [apply nonincr_rev, (l_acc _ _ H) | apply disc_l_rev, (l_disc _ _ H)].
      + cbn [bfsL]. destruct H as [h1 [m h2] h3 h4 h5 h6]. simpl in h1. destruct h1 as [h1a h1b].
        destruct (mem c seen).
        * apply IH. constructor; auto.
          -- exists m. intros p Hp. apply h2. now right.
          -- intros a p Ha Hp. apply h4; [exact Ha | now right].
          -- intros p Hp. apply h5. now right.
        * destruct (negb (forallb (present g) (unseen_parents g (c :: seen) c))).
          { simpl. split; [now apply nonincr_rev | now apply disc_l_rev]. }
          set (add := unseen_parents g (c :: seen) c).
          assert (Hd : m <= d <= S m) by (apply (h2 (c, d)); now left).
          apply IH. constructor.
          -- apply nondecr_app; [exact h1b | |].
             ++ clear. induction add as [|x r IHr]; simpl; [exact I|]. split; [|exact IHr].
                intros p' Hp'. apply in_map_iff in Hp'. destruct Hp' as [y [Ey _]]. subst p'. simpl. lia.
             ++ intros a b' Ha Hb. apply in_map_iff in Hb. destruct Hb as [y [Ey _]]. subst b'. simpl.
                pose proof (h2 a (or_intror Ha)). lia.
          -- exists d. intros p Hp. apply in_app_or in Hp. destruct Hp as [Hp|Hp].
             ++ pose proof (h1a p Hp). pose proof (h2 p (or_intror Hp)). simpl in *. lia.
             ++ apply in_map_iff in Hp. destruct Hp as [y [Ey _]]. subst p. simpl. lia.
          -- simpl. split; [|exact h3]. intros p' Hp'. apply (h4 p' (c, d) Hp'). now left.
          -- intros a p [Ha|Ha] Hp; apply in_app_or in Hp; destruct Hp as [Hp|Hp].
             ++ subst a. now apply h1a.
             ++ subst a. apply in_map_iff in Hp. destruct Hp as [y [Ey _]]. subst p. simpl. lia.
             ++ apply h4; [exact Ha | now right].
             ++ apply in_map_iff in Hp. destruct Hp as [y [Ey _]]. subst p. simpl.
                pose proof (h4 a (c, d) Ha (or_introl eq_refl)). simpl in *. lia.
          -- intros p Hp. apply in_app_or in Hp. destruct Hp as [Hp|Hp].
             ++ apply (justified_more acc); [intros x Hx; now right | apply h5; now right].
             ++ apply in_map_iff in Hp. destruct Hp as [y [Ey Hy]]. subst p. right. exists c, d.
                split; [now left|]. split; [|reflexivity]. simpl.
                unfold add, unseen_parents in Hy. apply filter_In in Hy. tauto.
          -- intros a1 p a2 E. destruct a1 as [|a a1]; simpl in E.
             ++ injection E as E1 E2. subst p a2. apply h5. now left.
             ++ injection E as E1 E2. subst a. now apply (h6 _ _ _ E2).
  Qed.

  Theorem bfs_level_order : forall fuel,
    exists ll, fst (bfs_walk g nostop fuel s []) = map fst ll /\ level_ordered ll.
  Proof.
    intros fuel. exists (fst (bfsL g fuel [(s, 0)] [] [])). split.
    - unfold bfs_walk. pose proof (bfsL_proj g fuel [(s, 0)] [] []) as P. simpl in P. now rewrite P.
    - apply bfsL_level. constructor.
      + simpl. split; [intros p' [] | exact I].
      + exists 0. intros p [Hp|[]]. subst p. simpl. lia.
      + exact I.
      + intros a p [].
      + intros p [Hp|[]]. subst p. now left.
      + intros a1 p a2 E. destruct a1; discriminate.
  Qed.
End Level.
