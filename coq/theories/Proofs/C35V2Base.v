(* Proofs/C35V2Base.v — what the protocol-v2 decoders (which call pktline.ReadLine
   themselves) see of an encoded packet stream, for every chunking of the
   bytes: the packets in order, then io.EOF; and how many bytes are left in the
   reader after each of them. *)
From Coq Require Import List Arith NArith ZArith Bool Lia.
From GoGit Require Import Base.Out Base.GoInt Gen.C34 Model.PktLine Model.C35Utf8 Model.Packp Model.PackpV2
  Proofs.C34Stream Proofs.C34Hex Proofs.C34Pkt Proofs.C35Base Proofs.C35Msgs.
Import ListNotations.

Arguments MaxSizeN : simpl never.
Opaque MaxSizeN.

(* the ReadLine result for packet p (when it fits a pkt-line and is no ERR line) *)
Definition rdp (p : pkt) : rd := mkrd (fst (item_of p)) (snd (item_of p)) None.

Lemma rd_of_pkt_rdp p : pkt_ok p = true -> no_errline p = true -> rd_of_pkt MaxSizeN p = rdp p.
Proof.
  intros Hok Hne. destruct (rd_of_pkt_max p Hok Hne) as [_ ->]. unfold rdp.
  destruct p as [b| | |]; try reflexivity. destruct b; reflexivity.
Qed.

Lemma rdp_err p : rd_err (rdp p) = None.
Proof. reflexivity. Qed.

Definition enc_len (ps : list pkt) : nat := match enc_pkts ps with Some s => List.length s | None => O end.

(* the packets with the number of bytes that follow each of them (t more bytes after the last) *)
Fixpoint tagged (ps : list pkt) (t : nat) : list (rd * nat) :=
  match ps with
  | [] => []
  | p :: r => (rdp p, (enc_len r + t)%nat) :: tagged r t
  end.

Lemma map_fst_tagged ps t : map fst (tagged ps t) = map rdp ps.
Proof. induction ps as [|p ps IH]; [reflexivity|]. cbn [tagged map fst]. now rewrite IH. Qed.

Lemma tagged_length ps t : List.length (tagged ps t) = List.length ps.
Proof. induction ps as [|p ps IH]; [reflexivity|]. cbn [tagged List.length]. now rewrite IH. Qed.

Lemma rl_all_go_enc : forall ps fuel r s t,
  enc_pkts ps = Some s -> forallb no_errline ps = true -> concat r = s ++ t ->
  exists r', concat r' = t /\ rl_all_go (List.length ps + fuel) r = tagged ps (List.length t) ++ rl_all_go fuel r'.
Proof.
  assert (4 <= MaxSizeN)%nat as Hb by (pose proof MaxSizeN_Z; lia).
  induction ps as [|p ps IH]; intros fuel r s t He Hne Hr.
  - cbn in He. injection He as <-. exists r. split; [exact Hr|reflexivity].
  - apply enc_pkts_cons in He. destruct He as (e & s' & Hp & Hps & ->).
    cbn [forallb] in Hne. apply andb_prop in Hne. destruct Hne as [Hn1 Hn2].
    rewrite <- app_assoc in Hr.
    destruct (pkt_read_enc MaxSizeN r p e (s' ++ t) Hb Hp Hr) as [Hd Hrest].
    rewrite (rd_of_pkt_rdp p (enc_pkt_some_ok _ _ Hp) Hn1) in Hd.
    destruct (IH fuel (snd (pkt_read MaxSizeN r)) s' t Hps Hn2 Hrest) as (r' & Hr' & Hgo).
    exists r'. split; [exact Hr'|].
    cbn [List.length plus rl_all_go]. unfold read_line.
    destruct (pkt_read MaxSizeN r) as [d r1]. cbn [fst snd] in Hd, Hrest, Hgo. subst d.
    rewrite rdp_err. cbn [tagged app]. rewrite Hgo. f_equal. f_equal.
    unfold rlen. rewrite Hrest, app_length. unfold enc_len. now rewrite Hps.
Qed.

Lemma rl_all_go_eof fuel r : concat r = [] -> rl_all_go (S fuel) r = [(rd_fail PEeof, O)].
Proof.
  assert (4 <= MaxSizeN)%nat as Hb by (pose proof MaxSizeN_Z; lia).
  intros Hr. cbn [rl_all_go]. unfold read_line.
  pose proof (pkt_read_empty MaxSizeN r Hb Hr) as Hd. pose proof (pkt_read_rlen MaxSizeN r) as Hl.
  destruct (pkt_read MaxSizeN r) as [d r1]. cbn [fst snd] in Hd, Hl. subst d. cbn [rd_err rd_fail].
  assert (rlen r = O) as E by (unfold rlen; now rewrite Hr). rewrite E in Hl. f_equal. f_equal. lia.
Qed.

(* every chunking r of the encoded packets followed by t: the ReadLine results begin with the packets *)
Theorem rl_all_tail ps s t r :
  enc_pkts ps = Some s -> forallb no_errline ps = true -> concat r = s ++ t ->
  exists rest, rl_all r = tagged ps (List.length t) ++ rest /\ (t = [] -> rest = [(rd_fail PEeof, O)]).
Proof.
  intros He Hne Hr. pose proof (enc_pkts_length _ _ He) as Hl.
  assert (rlen r = List.length s + List.length t)%nat as Hrl by (unfold rlen; now rewrite Hr, app_length).
  unfold rl_all.
  assert (exists f, S (S (rlen r)) = List.length ps + S f)%nat as (f & Ef) by (exists (S (rlen r) - List.length ps)%nat; lia).
  rewrite Ef. destruct (rl_all_go_enc ps (S f) r s t He Hne Hr) as (r' & Hr' & Hgo).
  rewrite Hgo. eexists. split; [reflexivity|]. intros ->. now apply rl_all_go_eof.
Qed.

(* ... and without anything after them, exactly the packets and then io.EOF *)
Theorem rl_all_fst ps s r :
  enc_pkts ps = Some s -> forallb no_errline ps = true -> concat r = s ->
  map fst (rl_all r) = map rdp ps ++ [rd_fail PEeof].
Proof.
  intros He Hne Hr. assert (concat r = s ++ []) as Hr' by (now rewrite app_nil_r).
  destruct (rl_all_tail ps s [] r He Hne Hr') as (rest & -> & Hrest).
  rewrite (Hrest eq_refl), map_app, map_fst_tagged. reflexivity.
Qed.

(* the result of a decoder without the unread lines *)
Definition val {A} (x : (A * lines) + v2err) : A + v2err :=
  match x with inl (a, _) => inl a | inr e => inr e end.

(* rdp of a data line *)
Lemma rdp_data b : (0 < List.length b)%nat -> rdp (PData b) = mkrd (zlen b + 4) b None.
Proof. intros H. unfold rdp. now rewrite item_of_ne. Qed.

Lemma rdp_line b : rdp (PData (b ++ [NL])) = mkrd (zlen (b ++ [NL]) + 4) (b ++ [NL]) None.
Proof. apply rdp_data. rewrite app_length. cbn. lia. Qed.

Lemma special_data b : is_special (zlen b + 4) = false.
Proof. unfold is_special, zlen. destruct (Z.eqb_spec (Z.of_nat (List.length b) + 4) 0), (Z.eqb_spec (Z.of_nat (List.length b) + 4) 1),
  (Z.eqb_spec (Z.of_nat (List.length b) + 4) 2); first [lia | reflexivity]. Qed.

Lemma len_data_nz b k : (k < 4)%Z -> ((zlen b + 4 =? k)%Z) = false.
Proof. intros H. unfold zlen. destruct (Z.eqb_spec (Z.of_nat (List.length b) + 4) k); [lia|reflexivity]. Qed.
