(* Proofs/C31Flows.v — the callers (checkout, add, status hashing) against
   git's convert.c, for every chunking of the copy. *)
From Coq Require Import List NArith Arith Lia Bool ZifyBool ZifyNat ZifyN.
From GoGit Require Import Base.Out Model.Eol Spec.GitConvert Proofs.C31Stat Proofs.C31Writers.
Import ListNotations.
Local Open Scope N_scope.

(* ------------------------------------------------------------ statistics vs structure *)

Lemma git_gather_cons2 a b l :
  git_gather (a :: b :: l) =
  if a =? CR then (if b =? LF then sadd (mkStat 0 0 0 1 0 0) (git_gather l)
                   else sadd (mkStat 0 1 0 0 0 0) (git_gather (b :: l)))
  else if a =? LF then sadd (mkStat 0 0 1 0 0 0) (git_gather (b :: l))
  else sadd (git_class a) (git_gather (b :: l)).
Proof. reflexivity. Qed.

Lemma git_gather_noncr a l :
  (a =? CR) = false ->
  git_gather (a :: l) =
  if a =? LF then sadd (mkStat 0 0 1 0 0 0) (git_gather l) else sadd (git_class a) (git_gather l).
Proof. intros E. cbn [git_gather]. rewrite E. reflexivity. Qed.

Lemma stats_lonecr bs : s_lonecr (git_stats bs) = s_lonecr (git_gather bs).
Proof. unfold git_stats. destruct (last bs 0 =? SUB); reflexivity. Qed.
Lemma stats_crlf bs : s_crlf (git_stats bs) = s_crlf (git_gather bs).
Proof. unfold git_stats. destruct (last bs 0 =? SUB); reflexivity. Qed.
Lemma stats_lonelf bs : s_lonelf (git_stats bs) = s_lonelf (git_gather bs).
Proof. unfold git_stats. destruct (last bs 0 =? SUB); reflexivity. Qed.

Ltac sfields := cbn [sadd s_nul s_lonecr s_lonelf s_crlf s_print s_nonprint] in *.

Lemma lonecr0_lcf bs : s_lonecr (git_gather bs) = 0 -> lcf bs = true.
Proof.
  induction bs as [| a | a b l IH1 IH2] using list_ind2; intros H.
  - reflexivity.
  - cbn [git_gather] in H. cbn [lcf]. destruct (a =? CR); [cbn in H; lia|reflexivity].
  - rewrite git_gather_cons2 in H. rewrite lcf_cons2.
    destruct (a =? CR).
    + destruct (b =? LF) eqn:EB; sfields; [|lia].
      cbn [andb]. cbn [lcf]. assert (b = LF) by now apply N.eqb_eq. subst b.
      change (LF =? CR) with false. cbn iota. apply IH1. lia.
    + destruct (a =? LF); sfields; apply IH2; lia.
Qed.

Lemma nocr_stats bs : has_cr bs = false -> s_lonecr (git_gather bs) = 0 /\ s_crlf (git_gather bs) = 0.
Proof.
  induction bs as [|a l IH]; intros H; [split; reflexivity|].
  cbn [has_cr existsb] in H. apply orb_false_iff in H as [Ha H].
  rewrite git_gather_noncr by assumption. destruct (IH H) as [I1 I2].
  assert (s_lonecr (git_class a) = 0 /\ s_crlf (git_class a) = 0).
  { unfold git_class. repeat match goal with |- context [if ?x then _ else _] => destruct x end; split; reflexivity. }
  destruct (a =? LF); sfields; lia.
Qed.

Lemma stats_nocr bs : s_lonecr (git_gather bs) = 0 -> s_crlf (git_gather bs) = 0 -> has_cr bs = false.
Proof.
  induction bs as [| a | a b l IH1 IH2] using list_ind2; intros H1 H2.
  - reflexivity.
  - cbn [git_gather] in H1. cbn [has_cr existsb]. destruct (a =? CR); [cbn in H1; lia|reflexivity].
  - rewrite git_gather_cons2 in H1, H2. unfold has_cr. cbn [existsb].
    destruct (a =? CR).
    + destruct (b =? LF); sfields; lia.
    + cbn [orb]. destruct (a =? LF); sfields; apply IH2; lia.
Qed.

Lemma alf_mono bs : alf false bs = true -> alf true bs = true.
Proof. destruct bs as [|c r]; [reflexivity|]. cbn [alf]. destruct (c =? LF); [discriminate|auto]. Qed.

Lemma lonelf0_alf bs : s_lonelf (git_gather bs) = 0 -> alf false bs = true.
Proof.
  induction bs as [| a | a b l IH1 IH2] using list_ind2; intros H.
  - reflexivity.
  - cbn [git_gather] in H. cbn [alf]. destruct (a =? CR) eqn:EC.
    + assert (a = CR) by now apply N.eqb_eq. subst. reflexivity.
    + destruct (a =? LF); [cbn in H; lia|reflexivity].
  - rewrite git_gather_cons2 in H. cbn [alf].
    destruct (a =? CR) eqn:EC.
    + assert (a = CR) by now apply N.eqb_eq. subst a. change (CR =? LF) with false. cbn iota.
      destruct (b =? LF) eqn:EB; sfields.
      * cbn [andb]. apply IH1. lia.
      * apply alf_mono in IH2; [|lia]. cbn [alf] in IH2. rewrite EB in IH2. exact IH2.
    + destruct (a =? LF); sfields; [lia|]. apply IH2. lia.
Qed.

Lemma strip_nocr bs : has_cr bs = false -> strip_cr bs = bs.
Proof.
  induction bs as [|a l IH]; intros H; [reflexivity|].
  cbn [has_cr existsb] in H. apply orb_false_iff in H as [Ha H].
  unfold strip_cr. cbn [filter]. rewrite Ha. cbn [negb]. f_equal. apply IH. exact H.
Qed.

Lemma strip_length bs :
  s_lonecr (git_gather bs) = 0 ->
  N.of_nat (List.length (strip_cr bs)) + s_crlf (git_gather bs) = N.of_nat (List.length bs).
Proof.
  induction bs as [| a | a b l IH1 IH2] using list_ind2; intros H.
  - reflexivity.
  - cbn [git_gather] in *. unfold strip_cr. cbn [filter]. destruct (a =? CR); [cbn in H; lia|].
    destruct (a =? LF); cbn; try lia.
    unfold git_class. repeat match goal with |- context [if ?x then _ else _] => destruct x end; cbn; lia.
  - rewrite git_gather_cons2 in *. unfold strip_cr in *. cbn [filter].
    destruct (a =? CR).
    + destruct (b =? LF) eqn:EB; sfields; [|lia].
      assert (b = LF) by now apply N.eqb_eq. subst b. change (LF =? CR) with false. cbn [negb].
      cbn [List.length]. specialize (IH1 ltac:(lia)). lia.
    + cbn [negb]. cbn [filter] in IH2.
      assert (s_crlf (git_class a) = 0).
      { unfold git_class. repeat match goal with |- context [if ?x then _ else _] => destruct x end; reflexivity. }
      destruct (a =? LF); sfields; specialize (IH2 ltac:(lia)); cbn [List.length] in *; lia.
Qed.

Lemma not_binary_lonecr s : git_is_binary s = false -> s_lonecr s = 0.
Proof. unfold git_is_binary. destruct (0 <? s_lonecr s) eqn:E; [discriminate|lia]. Qed.

Lemma will_convert_binary s : git_is_binary s = true -> git_will_convert s = false.
Proof.
  intros H. unfold git_will_convert. destruct (s_lonelf s =? 0); [reflexivity|].
  destruct ((0 <? s_lonecr s) || (0 <? s_crlf s)); [reflexivity|]. rewrite H. reflexivity.
Qed.

(* ------------------------------------------------------------ checkout *)

Lemma crlf_stream_nocr chunks :
  has_cr (List.concat chunks) = false ->
  crlf_stream false chunks = git_lf_to_crlf false (List.concat chunks).
Proof.
  intros H. pose proof (crlf_writer_nocr chunks H) as E. rewrite crlf_writer_spec in E.
  inversion E. reflexivity.
Qed.

Lemma get_stat_crlf bs : short bs = true -> s_crlf (get_stat bs) = s_crlf (git_gather bs).
Proof. intros H. rewrite <- stats_crlf, <- get_stat_git by assumption. reflexivity. Qed.

Lemma checkout_eq_git ac chunks :
  short (List.concat chunks) = true ->
  checkout_conv ac chunks = Some (git_checkout ac (List.concat chunks)).
Proof.
  intros Hs. destruct ac; try reflexivity.
  unfold checkout_conv. cbv zeta. rewrite is_binary_get_stat, get_stat_crlf by assumption.
  set (blob := List.concat chunks) in *.
  destruct (git_is_binary (git_stats blob)) eqn:B.
  - cbn [orb]. f_equal. unfold git_checkout. destruct blob; [reflexivity|].
    rewrite will_convert_binary by assumption. reflexivity.
  - cbn [orb].
    pose proof (not_binary_lonecr _ B) as Hl. rewrite stats_lonecr in Hl.
    destruct (s_crlf (git_gather blob) =? 0) eqn:EC; cbn [negb].
    + rewrite crlf_writer_spec. cbn [option_map fst]. f_equal.
      assert (Hn : has_cr blob = false) by (apply stats_nocr; lia).
      unfold blob. rewrite crlf_stream_nocr by exact Hn. fold blob.
      unfold git_checkout. destruct blob as [|b0 r] eqn:EB; [reflexivity|]. rewrite <- EB in *.
      unfold git_will_convert. rewrite stats_lonelf, stats_lonecr, stats_crlf, B.
      destruct (s_lonelf (git_gather blob) =? 0) eqn:EL.
      * apply git_lf_to_crlf_alf, lonelf0_alf. lia.
      * replace (0 <? s_lonecr (git_gather blob)) with false by lia.
        replace (0 <? s_crlf (git_gather blob)) with false by lia. reflexivity.
    + f_equal. unfold git_checkout. destruct blob as [|b0 r] eqn:EB; [reflexivity|]. rewrite <- EB in *.
      unfold git_will_convert. rewrite stats_lonelf, stats_lonecr, stats_crlf.
      destruct (s_lonelf (git_gather blob) =? 0); [reflexivity|].
      replace (0 <? s_crlf (git_gather blob)) with true by lia. rewrite orb_true_r. reflexivity.
Qed.

(* ------------------------------------------------------------ add *)

Definition text_crlf (bs : bytes) : bool :=
  let s := git_stats bs in negb (git_is_binary s) && (0 <? s_crlf s).

Lemma add_eq_git ac prior chunks :
  short (List.concat chunks) = true ->
  has_crlf_in_index prior && text_crlf (List.concat chunks) = false ->
  add_conv ac chunks = Some (git_add ac prior (List.concat chunks)).
Proof.
  intros Hs Hg.
  assert (Main : (if is_binary (get_stat (List.concat chunks)) then Some (List.concat chunks)
                  else option_map fst (lf_writer chunks))
                 = Some (match List.concat chunks with
                         | [] => []
                         | _ => let s := git_stats (List.concat chunks) in
                                if s_crlf s =? 0 then List.concat chunks
                                else if git_is_binary s then List.concat chunks
                                else if has_crlf_in_index prior then List.concat chunks
                                else strip_cr (List.concat chunks)
                         end)).
  { rewrite is_binary_get_stat by assumption.
    set (file := List.concat chunks) in *. unfold text_crlf in Hg.
    destruct (git_is_binary (git_stats file)) eqn:B.
    - f_equal. destruct file; [reflexivity|]. cbv zeta. destruct (s_crlf _ =? 0); [reflexivity|rewrite B; reflexivity].
    - pose proof (not_binary_lonecr _ B) as Hl. rewrite stats_lonecr in Hl.
      unfold file at 1. rewrite lf_writer_chunk_free by (apply lonecr0_lcf; exact Hl). fold file.
      cbn [option_map fst]. f_equal.
      destruct file as [|b0 r] eqn:EB; [reflexivity|]. rewrite <- EB in *. cbv zeta.
      rewrite stats_crlf in *. cbn [negb andb] in Hg.
      destruct (s_crlf (git_gather file) =? 0) eqn:EC.
      + apply strip_nocr, stats_nocr; lia.
      + replace (0 <? s_crlf (git_gather file)) with true in Hg by lia.
        rewrite andb_true_r in Hg. rewrite Hg, B. reflexivity. }
  destruct ac; [reflexivity|exact Main|exact Main].
Qed.

(* ------------------------------------------------------------ LF -> CRLF on CR-free content *)

Lemma conv_nocr_cons c r :
  (c =? CR) = false ->
  git_lf_to_crlf false (c :: r) = (if c =? LF then [CR; LF] else [c]) ++ git_lf_to_crlf false r.
Proof. intros E. cbn [git_lf_to_crlf]. rewrite E. destruct (c =? LF); reflexivity. Qed.

Lemma conv_strip b : has_cr b = false -> strip_cr (git_lf_to_crlf false b) = b.
Proof.
  induction b as [|c r IH]; intros H; [reflexivity|].
  cbn [has_cr existsb] in H. apply orb_false_iff in H as [Hc H].
  rewrite conv_nocr_cons by assumption. rewrite strip_cr_app, IH by assumption.
  destruct (c =? LF) eqn:E.
  - assert (c = LF) by now apply N.eqb_eq. subst. reflexivity.
  - unfold strip_cr. cbn [filter]. rewrite Hc. reflexivity.
Qed.

Lemma conv_lcf b : has_cr b = false -> lcf (git_lf_to_crlf false b) = true.
Proof.
  induction b as [|c r IH]; intros H; [reflexivity|].
  cbn [has_cr existsb] in H. apply orb_false_iff in H as [Hc H].
  rewrite conv_nocr_cons by assumption. destruct (c =? LF) eqn:E.
  - cbn [app]. rewrite lcf_cons2. change (CR =? CR) with true. change (LF =? LF) with true.
    cbn [andb lcf]. change (LF =? CR) with false. cbn iota. now apply IH.
  - cbn [app lcf]. rewrite Hc. now apply IH.
Qed.

Definition swap_lf (g : stat) : stat :=
  mkStat (s_nul g) (s_lonecr g) 0 (s_crlf g + s_lonelf g) (s_print g) (s_nonprint g).

Lemma conv_gather b : has_cr b = false -> git_gather (git_lf_to_crlf false b) = swap_lf (git_gather b).
Proof.
  induction b as [|c r IH]; intros H; [reflexivity|].
  cbn [has_cr existsb] in H. apply orb_false_iff in H as [Hc H].
  rewrite conv_nocr_cons, (git_gather_noncr c r) by assumption.
  destruct (c =? LF) eqn:E.
  - cbn [app]. rewrite git_gather_cons2. change (CR =? CR) with true. change (LF =? LF) with true.
    cbn iota. rewrite IH by assumption. apply stat_eq; cbn [swap_lf sadd s_nul s_lonecr s_lonelf s_crlf s_print s_nonprint]; lia.
  - cbn [app]. rewrite git_gather_noncr by assumption. rewrite E, IH by assumption.
    assert (s_lonelf (git_class c) = 0).
    { unfold git_class. repeat match goal with |- context [if ?x then _ else _] => destruct x end; reflexivity. }
    apply stat_eq; cbn [swap_lf sadd s_nul s_lonecr s_lonelf s_crlf s_print s_nonprint]; lia.
Qed.

Lemma conv_nil b : git_lf_to_crlf false b = [] -> b = [].
Proof. destruct b as [|c r]; [reflexivity|]. cbn [git_lf_to_crlf]. destruct (c =? LF); discriminate. Qed.

Lemma conv_last b : has_cr b = false -> last (git_lf_to_crlf false b) 0 = last b 0.
Proof.
  induction b as [|c r IH]; intros H; [reflexivity|].
  cbn [has_cr existsb] in H. apply orb_false_iff in H as [Hc H].
  rewrite conv_nocr_cons by assumption.
  destruct r as [|d r].
  - cbn [git_lf_to_crlf]. rewrite app_nil_r. destruct (c =? LF) eqn:E; [|reflexivity].
    assert (c = LF) by now apply N.eqb_eq. subst. reflexivity.
  - assert (Hne : git_lf_to_crlf false (d :: r) <> []) by (intros E; apply conv_nil in E; discriminate).
    rewrite last_app_ne by assumption. rewrite IH by assumption.
    symmetry. apply last_cons_ne. discriminate.
Qed.

Lemma conv_length b : (List.length (git_lf_to_crlf false b) <= 2 * List.length b)%nat.
Proof.
  assert (G : forall p, (List.length (git_lf_to_crlf p b) <= 2 * List.length b)%nat).
  { induction b as [|c r IH]; intros p; [cbn; lia|].
    cbn [git_lf_to_crlf]. destruct (c =? LF).
    - rewrite app_length. specialize (IH false). destruct p; cbn [List.length] in *; lia.
    - specialize (IH (c =? CR)). cbn [List.length]. lia. }
  apply G.
Qed.

Lemma conv_binary b :
  has_cr b = false ->
  git_is_binary (git_stats (git_lf_to_crlf false b)) = git_is_binary (git_stats b).
Proof.
  intros H. unfold git_stats. rewrite conv_last, conv_gather by assumption.
  destruct (last b 0 =? SUB); reflexivity.
Qed.

(* ------------------------------------------------------------ round trips *)

Definition short2 (bs : bytes) : bool := 2 * N.of_nat (List.length bs) <? 2 ^ 64.

Lemma short2_short bs : short2 bs = true -> short bs = true.
Proof. unfold short2, short. lia. Qed.

Lemma add_text_nocrlf ac chunks :
  short (List.concat chunks) = true -> text_crlf (List.concat chunks) = false ->
  add_conv ac chunks = Some (List.concat chunks).
Proof.
  intros Hs Ht. rewrite (add_eq_git ac None chunks Hs) by reflexivity. f_equal.
  unfold text_crlf in Ht. unfold git_add. destruct ac; try reflexivity;
    (destruct (List.concat chunks) as [|b0 r] eqn:EB; [reflexivity|]; rewrite <- EB in *; cbv zeta;
     destruct (s_crlf _ =? 0) eqn:E1; [reflexivity|];
     destruct (git_is_binary _) eqn:E2; [reflexivity|];
     cbn [negb andb] in Ht; lia).
Qed.

Lemma roundtrip ac c1 c2 f :
  short2 (List.concat c1) = true -> text_crlf (List.concat c1) = false ->
  checkout_conv ac c1 = Some f -> List.concat c2 = f ->
  add_conv ac c2 = Some (List.concat c1).
Proof.
  intros Hs2 Ht Hc Hf. pose proof (short2_short _ Hs2) as Hs.
  set (blob := List.concat c1) in *.
  assert (Hid : f = blob -> add_conv ac c2 = Some blob).
  { intros ->. rewrite <- Hf. apply add_text_nocrlf; rewrite Hf; assumption. }
  destruct ac; try (apply Hid; cbn in Hc; now inversion Hc).
  unfold checkout_conv in Hc. cbv zeta in Hc. fold blob in Hc.
  rewrite is_binary_get_stat, get_stat_crlf in Hc by assumption.
  destruct (git_is_binary (git_stats blob)) eqn:B; [apply Hid; now inversion Hc|].
  unfold text_crlf in Ht. rewrite B in Ht. cbn [negb andb] in Ht.
  pose proof (not_binary_lonecr _ B) as Hl. rewrite stats_lonecr in Hl. rewrite stats_crlf in Ht.
  assert (Hn : has_cr blob = false) by (apply stats_nocr; lia).
  replace (s_crlf (git_gather blob) =? 0) with true in Hc by lia. cbn [orb negb] in Hc.
  rewrite crlf_writer_spec in Hc. cbn [option_map fst] in Hc. unfold blob in Hn.
  rewrite crlf_stream_nocr in Hc by exact Hn. fold blob in Hc, Hn. inversion Hc as [Ef]. clear Hc.
  (* re-add of the converted file *)
  assert (Hsf : short f = true).
  { subst f. unfold short. unfold short2 in Hs2. pose proof (conv_length blob) as Hlen. rewrite <- Ef. lia. }
  unfold add_conv. rewrite Hf. rewrite is_binary_get_stat by assumption.
  rewrite <- Ef, conv_binary, B by assumption.
  rewrite lf_writer_chunk_free by (rewrite Hf, <- Ef; now apply conv_lcf).
  cbn [option_map fst]. rewrite Hf, <- Ef, conv_strip by assumption. reflexivity.
Qed.

(* git itself: checkout then add of the unchanged file stores the same blob *)
Lemma git_roundtrip ac blob : git_add ac (Some blob) (git_checkout ac blob) = blob.
Proof.
  assert (Same : forall a, a <> ACFalse -> git_add a (Some blob) blob = blob).
  { intros a Ha. unfold git_add. destruct a; [congruence| |];
      (destruct blob as [|b0 r] eqn:EB; [reflexivity|]; rewrite <- EB; cbv zeta;
       destruct (s_crlf (git_stats blob) =? 0) eqn:E1; [reflexivity|];
       destruct (git_is_binary (git_stats blob)) eqn:E2; [reflexivity|];
       unfold has_crlf_in_index; rewrite E2; cbn [negb];
       assert (Hc : has_cr blob = true) by
         (destruct (has_cr blob) eqn:Hh; [reflexivity|]; apply nocr_stats in Hh; rewrite stats_crlf in E1; lia);
       fold (has_cr blob); rewrite Hc; replace (0 <? s_crlf (git_stats blob)) with true by lia; reflexivity). }
  destruct ac; [reflexivity|apply Same; discriminate|].
  destruct blob as [|b0 r]; [reflexivity|].
  unfold git_checkout at 1. cbv iota. set (blob := b0 :: r) in *.
  assert (EB : blob = b0 :: r) by reflexivity.
  destruct (git_will_convert (git_stats blob)) eqn:W; [|apply Same; discriminate].
  unfold git_will_convert in W. rewrite stats_lonelf, stats_lonecr, stats_crlf in W.
  destruct (s_lonelf (git_gather blob) =? 0) eqn:EL; [discriminate|].
  destruct ((0 <? s_lonecr (git_gather blob)) || (0 <? s_crlf (git_gather blob))) eqn:EC; [discriminate|].
  apply negb_true_iff in W.
  assert (Hn : has_cr blob = false) by (apply stats_nocr; lia).
  unfold git_add.
  destruct (git_lf_to_crlf false blob) as [|f0 fr] eqn:EF.
  { apply conv_nil in EF. rewrite EB in EF. discriminate. }
  rewrite <- EF. cbv zeta. rewrite conv_binary, W by assumption.
  rewrite stats_crlf, conv_gather by assumption. cbn [swap_lf s_crlf].
  replace (s_crlf (git_gather blob) + s_lonelf (git_gather blob) =? 0) with false by lia.
  unfold has_crlf_in_index. fold (has_cr blob). rewrite Hn. cbn [andb].
  now apply conv_strip.
Qed.

(* ------------------------------------------------------------ status hashing *)

Lemma node_size ac chunks sz content :
  short (List.concat chunks) = true ->
  node_hash_input ac chunks = Some (sz, content) ->
  sz = N.of_nat (List.length content).
Proof.
  intros Hs H. unfold node_hash_input in H.
  set (data := List.concat chunks) in *.
  assert (Main : (if is_binary (get_stat data) then Some (N.of_nat (List.length data), data)
                  else option_map (fun r => (N.of_nat (List.length data) - s_crlf (get_stat data), fst r)) (lf_writer chunks))
                 = Some (sz, content) -> sz = N.of_nat (List.length content)).
  { clear H. rewrite is_binary_get_stat by assumption.
    destruct (git_is_binary (git_stats data)) eqn:B; intros H; [now inversion H|].
    pose proof (not_binary_lonecr _ B) as Hl. rewrite stats_lonecr in Hl.
    rewrite lf_writer_chunk_free in H by (apply lonecr0_lcf; exact Hl).
    cbn [option_map fst] in H. inversion H. fold data.
    assert (Ec : s_crlf (get_stat data) = s_crlf (git_gather data)).
    { rewrite <- stats_crlf, <- get_stat_git by assumption. reflexivity. }
    rewrite Ec. pose proof (strip_length data Hl). lia. }
  destruct ac; [now inversion H|now apply Main|now apply Main].
Qed.
