(* Proofs/C04Utf8.v — facts about git's pick_one_utf8_char (Spec/GitTree.pick_cp) on byte
   strings: what it consumes, which sequences it calls ignored code points, and
   the fuel-free unfolding of wf_utf8.  N.land facts come from finite tables. *)
From Coq Require Import List NArith ZArith Bool Lia ZifyBool ZifyNat ZifyN.
From GoGit Require Import Base.Out Gen.C04 Model.TreeObj Spec.GitTree.
Import ListNotations.
Local Open Scope N_scope.

(* ================================================================ ranges and tables *)
Definition nrange (lo : N) (n : nat) : list N := map (fun k => lo + N.of_nat k) (seq 0 n).

Lemma in_nrange lo n c : lo <= c -> c < lo + N.of_nat n -> In c (nrange lo n).
Proof.
  intros H1 H2. unfold nrange. apply in_map_iff. exists (N.to_nat (c - lo)). split; [lia|].
  apply in_seq. lia.
Qed.

Lemma table1 (P : N -> bool) lo n : forallb P (nrange lo n) = true ->
  forall c, lo <= c -> c < lo + N.of_nat n -> P c = true.
Proof. intros H c H1 H2. rewrite forallb_forall in H. apply H. now apply in_nrange. Qed.

Lemma table2 (P : N -> N -> bool) lo1 n1 lo2 n2 :
  forallb (fun a => forallb (P a) (nrange lo2 n2)) (nrange lo1 n1) = true ->
  forall a b, lo1 <= a -> a < lo1 + N.of_nat n1 -> lo2 <= b -> b < lo2 + N.of_nat n2 -> P a b = true.
Proof.
  intros H a b A1 A2 B1 B2. pose proof (table1 _ _ _ H a A1 A2) as Ha. cbv beta in Ha.
  exact (table1 _ _ _ Ha b B1 B2).
Qed.

Lemma table3 (P : N -> N -> N -> bool) lo1 n1 lo2 n2 lo3 n3 :
  forallb (fun a => forallb (fun b => forallb (P a b) (nrange lo3 n3)) (nrange lo2 n2)) (nrange lo1 n1) = true ->
  forall a b c, lo1 <= a -> a < lo1 + N.of_nat n1 -> lo2 <= b -> b < lo2 + N.of_nat n2 ->
                lo3 <= c -> c < lo3 + N.of_nat n3 -> P a b c = true.
Proof.
  intros H a b c A1 A2 B1 B2 C1 C2. pose proof (table2 _ _ _ _ _ H a b A1 A2 B1 B2) as Hab. cbv beta in Hab.
  exact (table1 _ _ _ Hab c C1 C2).
Qed.

(* the lead-byte classes and the continuation test, as ranges *)
Definition lead_facts (a : N) : bool :=
  Bool.eqb (N.land a 224 =? 192) ((192 <=? a) && (a <=? 223)) &&
  Bool.eqb (N.land a 240 =? 224) ((224 <=? a) && (a <=? 239)) &&
  Bool.eqb (N.land a 248 =? 240) ((240 <=? a) && (a <=? 247)) &&
  Bool.eqb (cont a) ((128 <=? a) && (a <=? 191)) &&
  Bool.eqb (N.land a 128 =? 0) (a <? 128).

Lemma lead_table : forallb lead_facts (nrange 0 256) = true.
Proof. vm_compute. reflexivity. Qed.

Lemma lead_byte a : a < 256 ->
  (N.land a 224 =? 192) = ((192 <=? a) && (a <=? 223)) /\
  (N.land a 240 =? 224) = ((224 <=? a) && (a <=? 239)) /\
  (N.land a 248 =? 240) = ((240 <=? a) && (a <=? 247)) /\
  cont a = ((128 <=? a) && (a <=? 191)) /\
  (N.land a 128 =? 0) = (a <? 128).
Proof.
  intros H. pose proof (table1 _ _ _ lead_table a ltac:(lia) ltac:(lia)) as T. unfold lead_facts in T.
  repeat (apply andb_true_iff in T as [T ?]).
  repeat split; now apply Bool.eqb_prop.
Qed.

(* two-byte sequences that pass the checks decode to a non-ASCII, non-ignored code point *)
Definition two_facts (a b : N) : bool :=
  implb (negb (N.land a 254 =? 192))
        (let cp := N.land a 31 * 64 + N.land b 63 in (128 <=? cp) && negb (hfs_ignored_cp cp)).
Lemma two_table : forallb (fun a => forallb (two_facts a) (nrange 128 64)) (nrange 192 32) = true.
Proof. vm_compute. reflexivity. Qed.

(* three-byte sequences: never ASCII; ignored exactly for go-git's 16 byte triples *)
Definition three_facts (a b c : N) : bool :=
  implb (negb ((a =? 224) && (N.land b 224 =? 128)))
        (let cp := N.land a 15 * 4096 + N.land b 63 * 64 + N.land c 63 in
         (128 <=? cp) && Bool.eqb (hfs_ignored_cp cp) (is_ign a b c)).
Lemma three_table :
  forallb (fun a => forallb (fun b => forallb (three_facts a b) (nrange 128 64)) (nrange 128 64)) (nrange 224 16) = true.
Proof. vm_compute. reflexivity. Qed.

(* four-byte sequences: the two leading bytes already put the code point above U+FFFF *)
Definition four_facts (a b : N) : bool :=
  implb (negb ((a =? 240) && (N.land b 240 =? 128))) (65536 <=? N.land a 7 * 262144 + N.land b 63 * 4096).
Lemma four_table : forallb (fun a => forallb (four_facts a) (nrange 128 64)) (nrange 240 8) = true.
Proof. vm_compute. reflexivity. Qed.

Lemma ignored_small cp : hfs_ignored_cp cp = true -> 8204 <= cp <= 65279.
Proof. unfold hfs_ignored_cp. lia. Qed.

(* ================================================================ is_bytes / tlacks plumbing *)
Lemma is_bytes_cons c s : is_bytes (c :: s) = true <-> c < 256 /\ is_bytes s = true.
Proof. unfold is_bytes. cbn [forallb]. rewrite andb_true_iff. split; intros [A B]; split; auto; lia. Qed.

Lemma is_bytes_skipn n s : is_bytes s = true -> is_bytes (skipn n s) = true.
Proof.
  revert s; induction n as [|n IH]; intros s H; [exact H|]. destruct s as [|c s]; [exact H|].
  cbn [skipn]. apply IH. now apply is_bytes_cons in H.
Qed.

(* ================================================================ what pick_cp consumes *)
Lemma pick_cp_len s cp n : pick_cp s = PChar cp n -> (1 <= n <= List.length s)%nat.
Proof.
  unfold pick_cp. destruct s as [|a r]; [discriminate|].
  destruct (a <? 128). { intros [= <- <-]. cbn [List.length]. lia. }
  destruct (N.land a 224 =? 192).
  { destruct r as [|b r]; [discriminate|]. destruct (negb (cont b) || (N.land a 254 =? 192)); [discriminate|].
    intros [= <- <-]. cbn [List.length]. lia. }
  destruct (N.land a 240 =? 224).
  { destruct r as [|b [|c r]]; try discriminate.
    match goal with |- (if ?x then _ else _) = _ -> _ => destruct x end; [discriminate|].
    intros [= <- <-]. cbn [List.length]. lia. }
  destruct (N.land a 248 =? 240); [|discriminate].
  destruct r as [|b [|c [|d r]]]; try discriminate.
  match goal with |- (if ?x then _ else _) = _ -> _ => destruct x end; [discriminate|].
  intros [= <- <-]. cbn [List.length]. lia.
Qed.

(* an ASCII byte is picked as itself *)
Lemma pick_cp_ascii a r : a < 128 -> pick_cp (a :: r) = PChar a 1.
Proof. intros H. unfold pick_cp. assert (E : (a <? 128) = true) by lia. now rewrite E. Qed.

(* a non-ASCII lead byte never yields an ASCII code point, and yields an ignored
   one exactly on go-git's byte triples *)
Lemma pick_cp_high a r cp n : is_bytes (a :: r) = true -> 128 <= a -> pick_cp (a :: r) = PChar cp n ->
  128 <= cp /\
  (hfs_ignored_cp cp = true ->
   exists b c r', r = b :: c :: r' /\ is_ign a b c = true /\ n = 3%nat).
Proof.
  intros HB Ha. apply is_bytes_cons in HB as [Ba HB].
  destruct (lead_byte a Ba) as (L2 & L3 & L4 & _ & _).
  unfold pick_cp. assert (E : (a <? 128) = false) by lia. rewrite E, L2, L3, L4. clear E L2 L3 L4.
  destruct ((192 <=? a) && (a <=? 223)) eqn:R2.
  { destruct r as [|b r]; [discriminate|]. apply is_bytes_cons in HB as [Bb _].
    destruct (lead_byte b Bb) as (_ & _ & _ & Cb & _). rewrite Cb.
    destruct ((128 <=? b) && (b <=? 191)) eqn:Rb; [|discriminate]. cbn [negb orb].
    destruct (N.land a 254 =? 192) eqn:OV; [discriminate|]. intros [= <- <-].
    pose proof (table2 _ _ _ _ _ two_table a b ltac:(lia) ltac:(lia) ltac:(lia) ltac:(lia)) as T.
    unfold two_facts in T. rewrite OV in T. cbn [negb implb] in T. cbv zeta in T.
    apply andb_true_iff in T as [T1 T2]. split; [lia|]. intros K. rewrite K in T2. discriminate. }
  destruct ((224 <=? a) && (a <=? 239)) eqn:R3.
  { destruct r as [|b [|c r]]; try discriminate.
    apply is_bytes_cons in HB as [Bb HB]. apply is_bytes_cons in HB as [Bc _].
    destruct (lead_byte b Bb) as (_ & _ & _ & Cb & _). destruct (lead_byte c Bc) as (_ & _ & _ & Cc & _).
    rewrite Cb, Cc.
    destruct ((128 <=? b) && (b <=? 191)) eqn:Rb; [|discriminate].
    destruct ((128 <=? c) && (c <=? 191)) eqn:Rc; [|discriminate]. cbn [negb orb].
    destruct ((a =? 224) && (N.land b 224 =? 128)) eqn:OV; [discriminate|]. cbn [orb].
    match goal with |- (if ?x then _ else _) = _ -> _ => destruct x end; [discriminate|].
    intros [= <- <-].
    pose proof (table3 _ _ _ _ _ _ _ three_table a b c ltac:(lia) ltac:(lia) ltac:(lia) ltac:(lia) ltac:(lia) ltac:(lia)) as T.
    unfold three_facts in T. rewrite OV in T. cbn [negb implb] in T. cbv zeta in T.
    apply andb_true_iff in T as [T1 T2]. apply Bool.eqb_prop in T2. split; [lia|].
    intros K. exists b, c, r. rewrite <- T2. auto. }
  destruct ((240 <=? a) && (a <=? 247)) eqn:R4; [|discriminate].
  destruct r as [|b [|c [|d r]]]; try discriminate.
  apply is_bytes_cons in HB as [Bb _].
  destruct (lead_byte b Bb) as (_ & _ & _ & Cb & _). rewrite Cb.
  destruct ((128 <=? b) && (b <=? 191)) eqn:Rb; [|discriminate]. cbn [negb orb].
  destruct (negb (cont c)); [discriminate|]. destruct (negb (cont d)); [discriminate|]. cbn [orb].
  destruct ((a =? 240) && (N.land b 240 =? 128)) eqn:OV; [discriminate|]. cbn [orb].
  match goal with |- (if ?x then _ else _) = _ -> _ => destruct x end; [discriminate|].
  intros [= <- <-].
  pose proof (table2 _ _ _ _ _ four_table a b ltac:(lia) ltac:(lia) ltac:(lia) ltac:(lia)) as T.
  unfold four_facts in T. rewrite OV in T. cbn [negb implb] in T.
  assert (G : 65536 <= N.land a 7 * 262144 + N.land b 63 * 4096 + N.land c 63 * 64 + N.land d 63).
  { clear -T. generalize dependent (N.land a 7 * 262144 + N.land b 63 * 4096). intros x T. lia. }
  split; [clear -G; lia|]. intros K. apply ignored_small in K. clear -G K. lia.
Qed.

(* go-git's 16 ignored byte triples are git's 16 ignored code points *)
Lemma is_ign_cases a b c : is_ign a b c = true ->
  (a = 226 /\ b = 128 /\ (c = 140 \/ c = 141 \/ c = 142 \/ c = 143 \/ c = 170 \/ c = 171 \/ c = 172 \/ c = 173 \/ c = 174)) \/
  (a = 226 /\ b = 129 /\ (c = 170 \/ c = 171 \/ c = 172 \/ c = 173 \/ c = 174 \/ c = 175)) \/
  (a = 239 /\ b = 187 /\ c = 191).
Proof. unfold is_ign. lia. Qed.

Lemma pick_cp_ign a b c r : is_ign a b c = true ->
  exists cp, pick_cp (a :: b :: c :: r) = PChar cp 3 /\ hfs_ignored_cp cp = true.
Proof.
  intros H. apply is_ign_cases in H.
  destruct H as [(-> & -> & H)|[(-> & -> & H)|(-> & -> & ->)]].
  - repeat (destruct H as [-> | H]; [eexists; split; vm_compute; reflexivity|]). subst. eexists; split; vm_compute; reflexivity.
  - repeat (destruct H as [-> | H]; [eexists; split; vm_compute; reflexivity|]). subst. eexists; split; vm_compute; reflexivity.
  - eexists; split; vm_compute; reflexivity.
Qed.

(* ================================================================ pick_utf8, classified *)
Lemma pick_utf8_ign a b c r : is_ign a b c = true -> pick_utf8 (a :: b :: c :: r) = (UIgnored, 3%nat).
Proof. intros H. destruct (pick_cp_ign a b c r H) as (cp & E & I). unfold pick_utf8. now rewrite E, I. Qed.

Lemma pick_utf8_ascii a r : a < 128 -> pick_utf8 (a :: r) = (UAscii a, 1%nat).
Proof.
  intros H. unfold pick_utf8. rewrite (pick_cp_ascii a r H).
  assert (I : hfs_ignored_cp a = false) by (unfold hfs_ignored_cp; lia). rewrite I.
  assert (E : (a <? 128) = true) by lia. now rewrite E.
Qed.

Lemma pick_cp_not_end a r : pick_cp (a :: r) <> PEnd.
Proof.
  unfold pick_cp.
  repeat match goal with
         | |- (if ?x then _ else _) <> _ => destruct x
         | |- (match ?l with [] => _ | _ :: _ => _ end) <> _ => destruct l
         end; discriminate.
Qed.

Definition head_ign (s : bytes) : bool :=
  match s with a :: b :: c :: _ => is_ign a b c | _ => false end.

(* a non-ASCII head that is not an ignored triple: git sees a malformed
   sequence or some other non-ASCII code point *)
Lemma pick_utf8_high a r : is_bytes (a :: r) = true -> 128 <= a -> head_ign (a :: r) = false ->
  (pick_utf8 (a :: r) = (UInvalid, O) /\ pick_cp (a :: r) = PInvalid) \/
  (exists n, pick_utf8 (a :: r) = (UOther, n) /\ exists cp, pick_cp (a :: r) = PChar cp n).
Proof.
  intros HB Ha HI. unfold pick_utf8. destruct (pick_cp (a :: r)) as [| |cp n] eqn:P.
  - now apply pick_cp_not_end in P.
  - now left.
  - right. destruct (pick_cp_high a r cp n HB Ha P) as [G I].
    destruct (hfs_ignored_cp cp) eqn:K.
    + destruct (I eq_refl) as (b & c & r' & -> & J & _). cbn [head_ign] in HI. congruence.
    + assert (E : (cp <? 128) = false) by lia. rewrite E. exists n. split; [reflexivity|now exists cp].
Qed.

(* ================================================================ wf_utf8 without fuel *)
Lemma wf_go_irrel : forall f f' s, (List.length s < f)%nat -> (List.length s < f')%nat ->
  wf_utf8_go f s = wf_utf8_go f' s.
Proof.
  induction f as [|f IH]; intros f' s H H'; [lia|]. destruct f' as [|f']; [lia|].
  cbn [wf_utf8_go]. destruct (pick_cp s) as [| |cp n] eqn:P; try reflexivity.
  apply pick_cp_len in P. apply IH; rewrite skipn_length; lia.
Qed.

Lemma wf_utf8_step s :
  wf_utf8 s = match pick_cp s with PEnd => true | PInvalid => false | PChar _ n => wf_utf8 (skipn n s) end.
Proof.
  unfold wf_utf8 at 1. cbn [wf_utf8_go]. destruct (pick_cp s) as [| |cp n] eqn:P; try reflexivity.
  apply pick_cp_len in P. unfold wf_utf8. apply wf_go_irrel; rewrite skipn_length; lia.
Qed.

Lemma wf_utf8_ascii a r : a < 128 -> wf_utf8 (a :: r) = wf_utf8 r.
Proof. intros H. rewrite wf_utf8_step, (pick_cp_ascii a r H). reflexivity. Qed.

Lemma wf_utf8_ign a b c r : is_ign a b c = true -> wf_utf8 (a :: b :: c :: r) = wf_utf8 r.
Proof. intros H. rewrite wf_utf8_step. destruct (pick_cp_ign a b c r H) as (cp & -> & _). reflexivity. Qed.

Lemma wf_utf8_valid s : wf_utf8 s = true -> pick_cp s <> PInvalid.
Proof. rewrite wf_utf8_step. intros H E. rewrite E in H. discriminate. Qed.
