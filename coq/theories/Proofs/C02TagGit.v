(* Proofs/C02TagGit.v — tags: the fields go-git's Tag.Decode yields are the
   ones `git for-each-ref` reports (Spec/GitFields.git_tag_fields): object,
   type, tag always; tagger name / e-mail / raw date under the boolean clauses
   of Spec/ObjWf.tag_agree_of; the contents (message ++ signature, leading
   LFs skipped) always. *)
From Coq Require Import String.
From Coq Require Import List NArith ZArith Bool Lia ZifyBool ZifyNat ZifyN.
From GoGit Require Import Base.Out Model.ObjLines Model.Ident Model.Commit Model.Tag Spec.GitFields Spec.ObjWf
     Proofs.ObjLinesFacts Proofs.C02Dec Proofs.C02Ident Proofs.C03CommitSig Proofs.C02Lines Proofs.C03TagSig.
Import ListNotations.
Local Open Scope N_scope.

(* what go-git's tagger fields print as, in git's raw date format; "" for the zero time *)
Definition go_date_t (i : ident) : bytes :=
  if ((id_ts i =? zero_ts) && (id_tz i =? 0))%Z then []
  else print_dec (Z.to_N (id_ts i)) ++ [SPC] ++ fmt_zone (id_tz i).

(* ---- generic list facts ---- *)
Lemma tg_take_drop (f : N -> bool) b : b = take_while f b ++ skipn (List.length (take_while f b)) b.
Proof. induction b as [|c r IH]; [reflexivity|]. cbn [take_while]. destruct (f c); [|reflexivity]. cbn [List.length skipn app]. now rewrite <- IH. Qed.

Lemma tg_take_while_all (f : N -> bool) b : forallb f (take_while f b) = true.
Proof. induction b as [|c r IH]; [reflexivity|]. cbn [take_while]. destruct (f c) eqn:E; [|reflexivity]. cbn [forallb]. rewrite E. exact IH. Qed.

Lemma tg_take_while_app (f : N -> bool) a b : forallb f a = true -> (match b with c :: _ => f c = false | [] => True end) ->
  take_while f (a ++ b) = a.
Proof.
  intros Ha Hb. induction a as [|x a IH]; cbn [app take_while].
  - destruct b as [|c b]; [reflexivity|]. cbn [take_while]. now rewrite Hb.
  - cbn [forallb] in Ha. apply andb_true_iff in Ha as [H1 H2]. now rewrite H1, (IH H2).
Qed.

Lemma tg_count_app c a b : count_byte c (a ++ b) = (count_byte c a + count_byte c b)%nat.
Proof. unfold count_byte. now rewrite filter_app, app_length. Qed.

Lemma tg_count_zero c b : has_byte c b = false -> count_byte c b = 0%nat.
Proof.
  unfold count_byte, has_byte. induction b as [|x b IH]; [reflexivity|]. cbn [existsb filter]. intros H.
  apply orb_false_iff in H as [H1 H2]. rewrite H1. now apply IH.
Qed.

Lemma tg_has_of_count c b : count_byte c b = 0%nat -> has_byte c b = false.
Proof.
  unfold count_byte, has_byte. induction b as [|x b IH]; [reflexivity|]. cbn [existsb filter].
  destruct (c =? x); cbn [List.length orb]; [discriminate|exact IH].
Qed.

Lemma tg_count_unique c v : count_byte c v = 1%nat ->
  exists x y, v = x ++ c :: y /\ has_byte c x = false /\ has_byte c y = false.
Proof.
  induction v as [|a v IH]; [discriminate|].
  change (a :: v) with ([a] ++ v). rewrite tg_count_app. unfold count_byte at 1. cbn [filter].
  destruct (c =? a) eqn:E; cbn [List.length Nat.add].
  - intros H. apply N.eqb_eq in E. subst a. exists [], v. repeat split.
    apply tg_has_of_count. lia.
  - intros H. destruct (IH H) as [x [y [-> [Hx Hy]]]]. exists (a :: x), y. repeat split; [|exact Hy].
    rewrite has_byte_cons, E, Hx. reflexivity.
Qed.

Lemma tg_index_of_split c b : forall n, index_of c b = Some n ->
  b = firstn n b ++ c :: skipn (S n) b /\ has_byte c (firstn n b) = false /\ List.length (firstn n b) = n.
Proof.
  induction b as [|x r IH]; intros n H; [discriminate|]. cbn [index_of] in H.
  destruct (x =? c) eqn:E.
  - apply N.eqb_eq in E. subst x. assert (n = 0%nat) by congruence. subst n. repeat split.
  - destruct (index_of c r) as [i|]; [|discriminate]. assert (n = S i) by congruence. subst n.
    destruct (IH i eq_refl) as [I1 [I2 I3]]. cbn [firstn skipn app List.length]. repeat split.
    + f_equal. exact I1.
    + rewrite has_byte_cons, N.eqb_sym, E, I2. reflexivity.
    + now rewrite I3.
Qed.

Lemma tg_nth_skipn (d c : N) : forall n l, nth n l d = c -> c <> d -> skipn n l = c :: skipn (S n) l.
Proof.
  induction n as [|n IH]; intros [|x l] H Hn; cbn [nth] in H; try congruence.
  - cbn [skipn]. now subst.
  - cbn [skipn]. now apply IH.
Qed.

Lemma tg_nth_middle (d : N) x c y : nth (List.length x) (x ++ c :: y) d = c.
Proof. induction x as [|a x IH]; [reflexivity|exact IH]. Qed.

Lemma tg_last_split (b : bytes) : b <> [] -> exists x c, b = x ++ [c].
Proof. intros H. destruct (exists_last H) as [x [c E]]. now exists x, c. Qed.

(* ---- the scanner: what a step can change ---- *)
Lemma tg_on_theaders_keeps t l :
  let r := on_theaders t l in
  t_target (fst r) = t_target t /\ t_type (fst r) = t_type t /\ t_name (fst r) = t_name t /\
  t_tagger (fst r) = t_tagger t /\ snd r <> TTagger.
Proof.
  unfold on_theaders. destruct (is_blank l); [cbn; repeat split; discriminate|].
  destruct (split_header l) as [key data]. destruct (beqb key k_gpgsig256); cbn; repeat split; discriminate.
Qed.

Lemma tg_tstep_keeps st t l :
  let r := tstep st t l in
  t_target (fst r) = t_target t /\ t_type (fst r) = t_type t /\ t_name (fst r) = t_name t /\
  (st <> TTagger -> t_tagger (fst r) = t_tagger t /\ snd r <> TTagger).
Proof.
  pose proof (tg_on_theaders_keeps t l) as [O1 [O2 [O3 [O4 O5]]]].
  destruct st; cbn [tstep].
  - destruct (is_blank l); [cbn; repeat split; contradiction|].
    destruct (split_header l) as [key data]. destruct (beqb key k_tagger).
    + cbn. repeat split; contradiction.
    + repeat split; try assumption; contradiction.
  - repeat split; assumption.
  - destruct (first_is SPC l); [cbn; repeat split; discriminate|]. repeat split; assumption.
  - cbn. repeat split; discriminate.
Qed.

Lemma tg_trun_keeps : forall ls st t,
  t_target (trun st t ls) = t_target t /\ t_type (trun st t ls) = t_type t /\ t_name (trun st t ls) = t_name t /\
  (st <> TTagger -> t_tagger (trun st t ls) = t_tagger t).
Proof.
  induction ls as [|l r IH]; intros st t; [cbn [trun]; repeat split|].
  cbn [trun]. pose proof (tg_tstep_keeps st t l) as K. cbv zeta in K.
  destruct (tstep st t l) as [t' st']. cbn [fst snd] in K. destruct K as [K1 [K2 [K3 K4]]].
  destruct (ends_nl l).
  - destruct (IH st' t') as [I1 [I2 [I3 I4]]]. rewrite I1, I2, I3. repeat split; try assumption.
    intros Hst. destruct (K4 Hst) as [K5 K6]. now rewrite (I4 K6).
  - repeat split; try assumption. intros Hst. now destruct (K4 Hst).
Qed.

Lemma tg_split_sig_keeps t :
  t_target (split_tag_sig t) = t_target t /\ t_type (split_tag_sig t) = t_type t /\
  t_name (split_tag_sig t) = t_name t /\ t_tagger (split_tag_sig t) = t_tagger t /\
  t_msg (split_tag_sig t) ++ t_sig (split_tag_sig t) = t_msg t ++ (match parse_signed_bytes (t_msg t) with Some _ => [] | None => t_sig t end).
Proof.
  unfold split_tag_sig. destruct (parse_signed_bytes (t_msg t)) as [sm|]; cbn [t_target t_type t_name t_tagger t_msg t_sig].
  - rewrite firstn_skipn, app_nil_r. repeat split.
  - repeat split.
Qed.

(* ---- object id: hex.DecodeString then hex.EncodeToString lower-cases ---- *)
Lemma tg_hexv_lower x h : hexv x = Some h ->
  h < 16 /\ hexdig h = (if (65 <=? x) && (x <=? 70) then x + 32 else x).
Proof.
  unfold hexv, hexdig. intros H.
  destruct ((48 <=? x) && (x <=? 57)) eqn:E1.
  - assert (h = x - 48) by congruence. subst h. clear H. split; [lia|].
    replace (x - 48 <? 10) with true by lia. replace ((65 <=? x) && (x <=? 70)) with false by lia. lia.
  - destruct ((97 <=? x) && (x <=? 102)) eqn:E2.
    + assert (h = x - 87) by congruence. subst h. clear H. split; [lia|].
      replace (x - 87 <? 10) with false by lia. replace ((65 <=? x) && (x <=? 70)) with false by lia. lia.
    + destruct ((65 <=? x) && (x <=? 70)) eqn:E3; [|discriminate].
      assert (h = x - 55) by congruence. subst h. clear H. split; [lia|].
      replace (x - 55 <? 10) with false by lia. lia.
Qed.

Lemma tg_hex_decode_lower : forall h d, hex_decode d = Some h -> hex_encode h = lower_hex d.
Proof.
  induction h as [|c h IH]; intros d H.
  - destruct d as [|x [|y r]]; [reflexivity|discriminate|]. cbn [hex_decode] in H.
    destruct (hexv x), (hexv y), (hex_decode r); discriminate.
  - destruct d as [|x [|y r]]; [discriminate|discriminate|]. cbn [hex_decode] in H.
    destruct (hexv x) as [hi|] eqn:Ex; [|discriminate]. destruct (hexv y) as [lo|] eqn:Ey; [|discriminate].
    destruct (hex_decode r) as [t|] eqn:Er; [|discriminate].
    assert (Hc : c = 16 * hi + lo) by congruence. assert (Ht : t = h) by congruence. subst t.
    destruct (tg_hexv_lower _ _ Ex) as [Bh Lh]. destruct (tg_hexv_lower _ _ Ey) as [Bl Ll].
    change (hex_encode (c :: h)) with (hexdig (c / 16) :: hexdig (c mod 16) :: hex_encode h).
    change (lower_hex (x :: y :: r)) with
      ((if (65 <=? x) && (x <=? 70) then x + 32 else x) :: (if (65 <=? y) && (y <=? 70) then y + 32 else y) :: lower_hex r).
    rewrite (IH _ Er), <- Lh, <- Ll.
    assert (Q : c / 16 = hi) by (symmetry; apply (N.div_unique c 16 hi lo); [exact Bl|exact Hc]).
    assert (R : c mod 16 = lo) by (symmetry; apply (N.mod_unique c 16 hi lo); [exact Bl|exact Hc]).
    now rewrite Q, R.
Qed.

Lemma tg_all_hex_no_lf b : all_hex b = true -> no_lf b = true.
Proof.
  unfold all_hex, no_lf. induction b as [|a b IH]; cbn [forallb]; [reflexivity|]. intros H.
  apply andb_true_iff in H as [H1 H2]. rewrite (IH H2), andb_true_r.
  destruct (a =? LF) eqn:E; [|reflexivity]. apply N.eqb_eq in E. subst a. vm_compute in H1. discriminate H1.
Qed.

(* ---- contents: after the first "\n\n" = after the first blank line ---- *)
Lemma tg_contents_skip p b : no_lf p = true -> git_contents (p ++ b) = git_contents b.
Proof.
  induction p as [|c p IH]; intros H; [reflexivity|]. rewrite no_lf_cons in H. apply andb_true_iff in H as [H1 H2].
  apply negb_true_iff in H1. cbn [app git_contents]. rewrite H1. cbn [andb]. now apply IH.
Qed.

Lemma tg_first_is_app c (l b : bytes) : l <> [] -> first_is c (l ++ b) = first_is c l.
Proof. destruct l; [contradiction|reflexivity]. Qed.

Lemma tg_blank_eq l : line_ok l -> first_is LF l = true -> l = [LF].
Proof.
  intros Hl H. rewrite (first_is_lf_blank _ Hl) in H. destruct l as [|x [|y l]]; try discriminate.
  cbn in H. apply N.eqb_eq in H. now subst.
Qed.

Definition tg_head_nonblank (ls : list bytes) : Prop :=
  match ls with l :: _ => first_is LF l = false | [] => True end.

Lemma tg_contents_lines : forall ls, Forall line_ok ls -> abl ls = true -> tg_head_nonblank ls ->
  git_contents (List.concat ls) = drop_while (N.eqb LF) (List.concat (body_lines ls)).
Proof.
  induction ls as [|l r IH]; intros Hok Ha Hh; [reflexivity|].
  inversion Hok as [|x0 y0 Hl Hr]. subst x0 y0. destruct (abl_cons _ _ Ha) as [Har Hen].
  cbn [tg_head_nonblank] in Hh. cbn [body_lines List.concat]. rewrite Hh.
  destruct Hl as [Hne [p [Hp [-> | ->]]]].
  - rewrite <- app_assoc. rewrite (tg_contents_skip _ _ Hp). cbn [app git_contents]. rewrite N.eqb_refl. cbn [andb].
    destruct r as [|l2 r'].
    + reflexivity.
    + inversion Hr as [|x0 y0 Hl2 Hr']. subst x0 y0.
      assert (F : first_is LF (List.concat (l2 :: r')) = first_is LF l2)
        by (cbn [List.concat]; apply tg_first_is_app, Hl2).
      rewrite F. destruct (first_is LF l2) eqn:E2.
      * pose proof (tg_blank_eq _ Hl2 E2). subst l2.
        change (body_lines ([LF] :: r')) with r'. change (List.concat ([LF] :: r')) with (LF :: List.concat r').
        cbn [drop_while]. now rewrite N.eqb_refl.
      * exact (IH Hr Har E2).
  - destruct r as [|l2 r'].
    + cbn [List.concat body_lines]. rewrite app_nil_r. rewrite <- (app_nil_r p). now rewrite (tg_contents_skip _ _ Hp).
    + specialize (Hen ltac:(discriminate)). rewrite (ends_nl_no_lf _ Hp) in Hen. discriminate.
Qed.

(* ---- ref-filter.c find_wholine("tagger") ---- *)
Definition tg_stray (l : bytes) : bool := starts_with (str "tagger ") l.

Definition tg_who (ls : list bytes) : bytes :=
  match ls with [] => [] | n :: _ => if first_is LF n then [] else git_find_wholine k_tagger ls end.

Lemma tg_wholine_none : forall ls, tg_head_nonblank ls -> existsb tg_stray (header_of ls) = false ->
  git_find_wholine k_tagger ls = [].
Proof.
  induction ls as [|l r IH]; intros Hh He; [reflexivity|]. cbn [tg_head_nonblank] in Hh.
  cbn [header_of] in He. rewrite Hh in He. cbn [existsb] in He. apply orb_false_iff in He as [E1 E2].
  cbn [git_find_wholine]. change (k_tagger ++ [SPC]) with (str "tagger "). unfold tg_stray in E1. rewrite E1.
  destruct (negb (ends_nl l)); [reflexivity|]. destruct r as [|n r']; [reflexivity|].
  destruct (first_is LF n) eqn:En; [reflexivity|]. apply IH; [exact En|exact E2].
Qed.

Lemma tg_wholine_skip l r : tg_stray l = false -> ends_nl l = true -> git_find_wholine k_tagger (l :: r) = tg_who r.
Proof.
  intros H1 H2. cbn [git_find_wholine]. change (k_tagger ++ [SPC]) with (str "tagger "). unfold tg_stray in H1.
  rewrite H1, H2. reflexivity.
Qed.

Lemma tg_skip7 (x : bytes) : skipn (List.length k_tagger + 1) (str "tagger " ++ x) = x.
Proof. reflexivity. Qed.

(* the clauses of tag_agree_of as a function of the header lines after the third *)
Definition tg_agree_rest (rest : list bytes) : tag_agree :=
  let '(t, rest1) := match rest with
                     | l :: r => if key_is k_tagger l then (Some l, r) else (None, rest)
                     | [] => (None, [])
                     end in
  let stray l := starts_with (str "tagger ") l in
  mk_tagree (negb (existsb stray rest1) && match t with Some l => stray l | None => true end)
            (match t with Some l => person_ok_tag (value_of l) | None => true end)
            (match t with Some l => date_ok_tag (value_of l) | None => true end).

Lemma tg_agree_unfold raw : tag_agree_of raw = tg_agree_rest (skipn 3 (header_of (split_lines raw))).
Proof. reflexivity. Qed.

(* ---- the shape person_ok_tag describes: name SP '<' mail '>' tail ---- *)
Lemma tg_person_shape v : person_ok_tag v = true ->
  exists x m a, v = x ++ SPC :: LT :: m ++ GT :: a /\
    has_byte LT x = false /\ has_byte GT x = false /\ has_byte LT m = false /\ has_byte GT m = false /\
    has_byte LT a = false /\ has_byte GT a = false /\
    first_is SPC x = false /\ last_is SPC x = false.
Proof.
  unfold person_ok_tag, person_ok. intros H. apply andb_true_iff in H as [H Hsp]. apply andb_true_iff in H as [Hp Hc].
  destruct (index_of LT v) as [[|p]|] eqn:Ei; try discriminate.
  destruct (tg_index_of_split _ _ _ Ei) as [Hv [Hb Hlen]].
  apply andb_true_iff in Hp as [Hp Hname]. apply andb_true_iff in Hp as [Hla Hga].
  apply negb_true_iff in Hla. apply Nat.eqb_eq in Hga, Hc.
  apply andb_true_iff in Hsp as [Hsp Hlast]. apply N.eqb_eq in Hsp. apply negb_true_iff in Hlast.
  set (before := firstn (S p) v) in *. set (after := skipn (S (S p)) v) in *. clearbody before after.
  clear Ei. subst v.
  assert (Hbne : before <> []) by (intros E; rewrite E in Hlen; discriminate).
  destruct (tg_last_split _ Hbne) as [x [c Ebef]]. subst before. clear Hbne.
  assert (Hxl : List.length x = p) by (rewrite app_length in Hlen; cbn [List.length] in Hlen; lia).
  rewrite <- app_assoc in Hsp, Hlast, Hc. cbn [app] in Hsp, Hlast, Hc. rewrite <- Hxl in Hsp, Hlast.
  rewrite tg_nth_middle in Hsp. subst c. rewrite firstn_app_exact in Hlast.
  rewrite has_byte_app in Hb. apply orb_false_iff in Hb as [Hbx _].
  change (x ++ SPC :: LT :: after) with (x ++ [SPC; LT] ++ after) in Hc. rewrite !tg_count_app, Hga in Hc.
  change (count_byte GT [SPC; LT]) with 0%nat in Hc.
  assert (Hgx : has_byte GT x = false) by (apply tg_has_of_count; lia).
  destruct (tg_count_unique _ _ Hga) as [m [a [Eaft [Hgm Hga']]]]. subst after.
  rewrite has_byte_app, has_byte_cons in Hla. apply orb_false_iff in Hla as [Hlm Hla]. apply orb_false_iff in Hla as [_ Hla].
  rewrite trim_right_snoc, (trim_right_id _ _ Hlast) in Hname.
  exists x, m, a. split; [now rewrite <- app_assoc|]. repeat split; try assumption.
  destruct x as [|x0 x']; [reflexivity|]. apply andb_true_iff in Hname as [Hname _]. apply negb_true_iff in Hname. exact Hname.
Qed.

(* ---- go-git on that shape ---- *)
Lemma tg_decode_time_ne nm em b : id_name (decode_time nm em b) = nm /\ id_email (decode_time nm em b) = em.
Proof.
  unfold decode_time. destruct (parse_int64 _); [|now split]. destruct (_ || _)%bool; [now split|].
  destruct (parse_int64 _); [|now split]. destruct (parse_int64 _); now split.
Qed.

Lemma tg_skipn_S_tl {A} n : forall l : list A, skipn (S n) l = tl (skipn n l).
Proof. induction n as [|n IH]; intros [|x l]; try reflexivity. cbn [skipn]. destruct n; [now destruct l|apply IH]. Qed.

Lemma tg_decode_ident_shape x m a :
  has_byte LT m = false -> has_byte LT a = false -> has_byte GT a = false ->
  first_is SPC x = false -> last_is SPC x = false ->
  decode_ident (x ++ SPC :: LT :: m ++ GT :: a) =
    if Nat.ltb 1 (List.length a) then decode_time x m (tl a) else mk_ident x m zero_ts 0.
Proof.
  intros Hlm Hla Hga Hfx Hlx.
  assert (A1 : has_byte LT (m ++ GT :: a) = false) by (rewrite has_byte_app, has_byte_cons, Hlm, Hla; reflexivity).
  set (v := x ++ SPC :: LT :: m ++ GT :: a).
  assert (V1 : v = (x ++ [SPC]) ++ LT :: m ++ GT :: a) by (unfold v; now rewrite <- app_assoc).
  assert (V2 : v = (x ++ SPC :: LT :: m) ++ GT :: a) by (unfold v; now rewrite <- app_assoc).
  assert (V3 : v = ((x ++ [SPC]) ++ [LT]) ++ m ++ GT :: a) by (unfold v; now rewrite <- !app_assoc).
  assert (V4 : v = ((x ++ SPC :: LT :: m) ++ [GT]) ++ a) by (unfold v; now rewrite <- !app_assoc).
  assert (Alt : last_index_of LT v = Some (List.length (x ++ [SPC]))) by (rewrite V1; now apply last_index_of_unique).
  assert (Agt : last_index_of GT v = Some (List.length (x ++ SPC :: LT :: m))) by (rewrite V2; now apply last_index_of_unique).
  assert (F1 : firstn (List.length (x ++ [SPC])) v = x ++ [SPC]) by (rewrite V1; apply firstn_app_exact).
  assert (F2 : slice (S (List.length (x ++ [SPC]))) (List.length (x ++ SPC :: LT :: m)) v = m).
  { unfold slice. rewrite V3.
    replace (S (List.length (x ++ [SPC]))) with (List.length ((x ++ [SPC]) ++ [LT]))
      by (rewrite !app_length; cbn [List.length]; lia).
    rewrite skipn_app_exact.
    replace (List.length (x ++ SPC :: LT :: m) - List.length ((x ++ [SPC]) ++ [LT]))%nat with (List.length m)
      by (rewrite !app_length; cbn [List.length]; lia).
    apply firstn_app_exact. }
  assert (F3 : skipn (List.length (x ++ SPC :: LT :: m) + 2) v = tl a).
  { replace (List.length (x ++ SPC :: LT :: m) + 2)%nat with (S (List.length ((x ++ SPC :: LT :: m) ++ [GT])))
      by (rewrite !app_length; cbn [List.length]; lia).
    rewrite tg_skipn_S_tl, V4, skipn_app_exact. reflexivity. }
  assert (F4 : Nat.ltb (List.length (x ++ SPC :: LT :: m)) (List.length (x ++ [SPC])) = false)
    by (apply Nat.ltb_ge; rewrite !app_length; cbn [List.length]; lia).
  assert (F5 : Nat.ltb (List.length (x ++ SPC :: LT :: m) + 2) (List.length v) = Nat.ltb 1 (List.length a)).
  { rewrite V2, !app_length. cbn [List.length].
    destruct (Nat.ltb_spec 1 (List.length a)); [apply Nat.ltb_lt|apply Nat.ltb_ge]; lia. }
  clearbody v. unfold decode_ident. rewrite Alt, Agt, F4, F1, F2, F3, F5.
  unfold trim_both. rewrite trim_right_snoc, (trim_right_id _ _ Hlx), (trim_left_id _ _ Hfx). reflexivity.
Qed.

(* ---- git (ref-filter.c copy_name / copy_email / grab_date) on that shape ---- *)
Lemma tg_copy_name x y : no_lf x = true -> has_byte LT x = false -> copy_name_aux (x ++ SPC :: LT :: y) = Some x.
Proof.
  induction x as [|c x IH]; intros Hlf Hlt; [reflexivity|].
  rewrite no_lf_cons in Hlf. apply andb_true_iff in Hlf as [H1 H2]. apply negb_true_iff in H1.
  rewrite has_byte_cons in Hlt. apply orb_false_iff in Hlt as [H3 H4].
  cbn [app copy_name_aux]. rewrite H1.
  assert (F : first_is 60 (x ++ SPC :: LT :: y) = false).
  { destruct x as [|d x']; [reflexivity|]. cbn [app first_is]. rewrite has_byte_cons in H4.
    apply orb_false_iff in H4 as [H5 _]. rewrite N.eqb_sym. exact H5. }
  rewrite F, andb_false_r, (IH H2 H4). reflexivity.
Qed.

Lemma tg_copy_email x m y : has_byte LT x = false -> has_byte GT m = false ->
  git_copy_email (x ++ LT :: m ++ GT :: y) = LT :: m ++ [GT].
Proof.
  intros Hx Hm. unfold git_copy_email. change 60 with LT. change 62 with GT.
  rewrite (index_of_first _ _ _ Hx), skipn_app_exact.
  assert (Hm' : has_byte GT (LT :: m) = false) by (rewrite has_byte_cons, Hm; reflexivity).
  change (LT :: m ++ GT :: y) with ((LT :: m) ++ GT :: y). rewrite (index_of_first _ _ _ Hm').
  replace (S (List.length (LT :: m))) with (List.length ((LT :: m) ++ [GT])) by (rewrite app_length; cbn [List.length]; lia).
  replace ((LT :: m) ++ GT :: y) with (((LT :: m) ++ [GT]) ++ y) by (now rewrite <- app_assoc).
  rewrite firstn_app_exact. reflexivity.
Qed.

Lemma tg_find_gt_sp y z : has_byte GT y = false -> find_gt_sp (y ++ GT :: SPC :: z) = Some z.
Proof.
  induction y as [|c y IH]; intros H; [reflexivity|]. rewrite has_byte_cons in H. apply orb_false_iff in H as [H1 H2].
  cbn [app find_gt_sp]. replace (c =? 62) with false by (rewrite N.eqb_sym; symmetry; exact H1). cbn [andb]. now apply IH.
Qed.

(* ---- zones: Go's "-0700" of the decoded offset is git's "%+05d" ---- *)
Definition tg_zone_row (hh : N) : bool :=
  forallb (fun k => let mm := N.of_nat k in
            beqb (fmt_zone (Z.of_N (60 * hh + mm))) (fmt_plus05 (Z.of_N (100 * hh + mm))) &&
            beqb (fmt_zone (- Z.of_N (60 * hh + mm))) (fmt_plus05 (- Z.of_N (100 * hh + mm)))) (seq 0 60).
Lemma tg_zone_table : forallb (fun k => tg_zone_row (N.of_nat k)) (seq 0 100) = true.
Proof. vm_compute. reflexivity. Qed.

Lemma tg_zone_agree hh mm : hh < 100 -> mm < 60 ->
  fmt_zone (Z.of_N (60 * hh + mm)) = fmt_plus05 (Z.of_N (100 * hh + mm)) /\
  fmt_zone (- Z.of_N (60 * hh + mm)) = fmt_plus05 (- Z.of_N (100 * hh + mm)).
Proof.
  intros Hh Hm. pose proof tg_zone_table as T. rewrite forallb_forall in T.
  specialize (T (N.to_nat hh) ltac:(apply in_seq; lia)). rewrite N2Nat.id in T. unfold tg_zone_row in T.
  rewrite forallb_forall in T. specialize (T (N.to_nat mm) ltac:(apply in_seq; lia)). cbv zeta in T. rewrite N2Nat.id in T.
  apply andb_true_iff in T as [T1 T2]. now apply beqb_eq in T1, T2.
Qed.

Lemma tg_two_digits_facts a b n : two_digits a b = Some n ->
  is_digit a = true /\ is_digit b = true /\ n = 10 * (a - 48) + (b - 48) /\ n < 100 /\ digits_val [a; b] = Some n.
Proof.
  unfold two_digits. destruct (is_digit a) eqn:Ea, (is_digit b) eqn:Eb; try discriminate. cbn [andb]. intros H.
  assert (Hn : 10 * (a - 48) + (b - 48) = n) by (now injection H). clear H. subst n.
  repeat split; try (unfold is_digit in *; lia).
  unfold digits_val. cbn [digits_acc]. rewrite Ea, Eb. f_equal; lia.
Qed.

Lemma tg_digits_acc_fold l : forall a, forallb is_digit l = true ->
  digits_acc a l = Some (fold_left (fun a c => 10 * a + (c - 48)) l a).
Proof.
  induction l as [|x l IH]; intros a Hd; [reflexivity|].
  cbn [forallb] in Hd. apply andb_true_iff in Hd as [H1 H2]. cbn [digits_acc fold_left]. rewrite H1. now apply IH.
Qed.

Lemma tg_dval_digits ds : forallb is_digit ds = true -> ds <> [] -> digits_val ds = Some (dval ds).
Proof.
  intros Hd Hne. unfold digits_val, dval. destruct ds as [|c r]; [contradiction|]. now apply tg_digits_acc_fold.
Qed.

(* decodeTimeAndTimeZone on "<digits> <sign>hhmm<rest>" *)
Lemma tg_decode_time_canon nm em ds sg h1 h2 m1 m2 rest ts :
  has_byte SPC ds = false -> parse_int64 ds = Some ts ->
  decode_time nm em (ds ++ SPC :: sg :: h1 :: h2 :: m1 :: m2 :: rest) =
  match parse_int64 [sg; h1; h2], parse_int64 [m1; m2] with
  | Some h, Some m => mk_ident nm em ts (h * 60 + (if (h <? 0)%Z then (- m)%Z else m))%Z
  | _, _ => mk_ident nm em ts 0
  end.
Proof.
  intros Hsp Hp. unfold decode_time.
  rewrite (index_of_first _ _ _ Hsp), firstn_app_exact, Hp.
  rewrite app_length. cbn [List.length].
  replace (Nat.leb (List.length ds + S (S (S (S (S (S (List.length rest))))))) (S (List.length ds)) ||
           Nat.ltb (List.length ds + S (S (S (S (S (S (List.length rest))))))) (S (List.length ds) + 5))%bool
    with false by (clear; symmetry; apply orb_false_iff; split; [apply Nat.leb_gt|apply Nat.ltb_ge]; lia).
  unfold slice. replace (S (List.length ds) + 5 - S (List.length ds))%nat with 5%nat by (clear; lia).
  replace (skipn (S (List.length ds)) (ds ++ SPC :: sg :: h1 :: h2 :: m1 :: m2 :: rest)) with (sg :: h1 :: h2 :: m1 :: m2 :: rest).
  - reflexivity.
  - replace (ds ++ SPC :: sg :: h1 :: h2 :: m1 :: m2 :: rest) with ((ds ++ [SPC]) ++ sg :: h1 :: h2 :: m1 :: m2 :: rest)
      by (now rewrite <- app_assoc).
    replace (S (List.length ds)) with (List.length (ds ++ [SPC])) by (clear; rewrite app_length; cbn [List.length]; lia).
    now rewrite skipn_app_exact.
Qed.

(* grab_date after the "> " *)
Definition tg_grab (t : bytes) : option bytes :=
  let ds := take_while is_digit t in
  match ds, skipn (List.length ds) t with
  | _ :: _, sp :: s :: t3 =>
    if (sp =? SPC) && ((s =? 43) || (s =? 45)) then
      match take_while is_digit t3 with
      | [] => None
      | zs =>
        if (2 ^ 63 <=? dval ds) || (Nat.ltb 9 (List.length zs)) then None
        else
          let tzv := Z.of_N (dval zs) in
          Some (print_dec (dval ds) ++ [SPC] ++ fmt_plus05 (if s =? 45 then (- tzv)%Z else tzv))
      end
    else None
  | _, _ => None
  end.

Lemma tg_grab_date_unfold b :
  git_grab_date b = match find_gt_sp b with None => Some [] | Some t => tg_grab t end.
Proof. reflexivity. Qed.

(* the date part: what follows '>' *)
Lemma tg_date_matches nm em a rest : date_canon a = true ->
  (match rest with c :: _ => is_digit c = false | [] => True end) ->
  exists t, a = SPC :: t /\ (1 < List.length a)%nat /\
    tg_grab (t ++ rest) = Some (go_date_t (decode_time nm em t)).
Proof.
  unfold date_canon. destruct a as [|sp t]; [discriminate|]. intros H Hrest0. apply andb_true_iff in H as [Hsp H].
  apply N.eqb_eq in Hsp. subst sp.
  pose proof (tg_take_drop is_digit t) as Ht. pose proof (tg_take_while_all is_digit t) as Hds.
  set (ds := take_while is_digit t) in *.
  destruct ds as [|d0 ds0] eqn:Eds; [discriminate|]. rewrite <- Eds in *.
  assert (Hne : ds <> []) by (rewrite Eds; discriminate). clear Eds d0 ds0.
  destruct (skipn (List.length ds) t) as [|sp2 [|s [|h1 [|h2 [|m1 [|m2 rest1]]]]]] eqn:Esk; try discriminate.
  clear Esk. clearbody ds. subst t.
  apply andb_true_iff in H as [H Hz]. apply andb_true_iff in H as [H Hv]. apply andb_true_iff in H as [Hsp2 Hs].
  apply N.eqb_eq in Hsp2. subst sp2.
  destruct (two_digits h1 h2) as [hh|] eqn:Ehh; [|discriminate]. destruct (two_digits m1 m2) as [mm|] eqn:Emm; [|discriminate].
  apply andb_true_iff in Hz as [Hz Hrest]. apply andb_true_iff in Hz as [Hmm Hneg0].
  destruct (tg_two_digits_facts _ _ _ Ehh) as [Dh1 [Dh2 [Vh [Bh Ph]]]].
  destruct (tg_two_digits_facts _ _ _ Emm) as [Dm1 [Dm2 [Vm [Bm Pm]]]].
  assert (Hspds : has_byte SPC ds = false).
  { apply (has_byte_forall is_digit); [|exact Hds]. intros x Hx. now apply digit_not_sign in Hx. }
  assert (Hv' : dval ds < 2 ^ 63) by (clear - Hv; lia).
  assert (Hpts : parse_int64 ds = Some (Z.of_N (dval ds))).
  { apply parse_int64_digits; [exact Hne|exact Hds|now apply tg_dval_digits|clear - Hv'; lia]. }
  assert (Hmm' : mm < 60) by (clear - Hmm; lia).
  exists (ds ++ SPC :: s :: h1 :: h2 :: m1 :: m2 :: rest1). split; [reflexivity|]. split.
  { cbn [List.length]. rewrite app_length. cbn [List.length]. clear. lia. }
  (* go-git *)
  rewrite (tg_decode_time_canon nm em ds s h1 h2 m1 m2 rest1 _ Hspds Hpts).
  assert (Pmm : parse_int64 [m1; m2] = Some (Z.of_N mm)).
  { apply parse_int64_digits; [discriminate| |exact Pm|clear - Bm; lia]. cbn [forallb]. now rewrite Dm1, Dm2. }
  rewrite Pmm.
  (* git *)
  rewrite <- app_assoc. cbn [app]. unfold tg_grab. cbv zeta.
  assert (Etw : take_while is_digit (ds ++ SPC :: s :: h1 :: h2 :: m1 :: m2 :: rest1 ++ rest) = ds)
    by (apply tg_take_while_app; [exact Hds|reflexivity]).
  rewrite Etw.
  destruct ds as [|d0 ds0] eqn:Eds; [contradiction|]. cbv beta iota. rewrite <- Eds in *. clear Eds d0 ds0.
  rewrite skipn_app_exact. cbv beta iota.
  assert (Ezs : take_while is_digit (h1 :: h2 :: m1 :: m2 :: rest1 ++ rest) = [h1; h2; m1; m2]).
  { change (h1 :: h2 :: m1 :: m2 :: rest1 ++ rest) with ([h1; h2; m1; m2] ++ rest1 ++ rest). apply tg_take_while_app.
    - cbn [forallb]. now rewrite Dh1, Dh2, Dm1, Dm2.
    - destruct rest1 as [|r0 rest1']; [exact Hrest0|]. cbn [app]. now apply negb_true_iff in Hrest. }
  rewrite Ezs. rewrite N.eqb_refl, Hs. cbn [andb]. cbv beta iota.
  replace (2 ^ 63 <=? dval ds) with false by (clear - Hv'; lia).
  change (Nat.ltb 9 (List.length [h1; h2; m1; m2])) with false. cbn [orb]. cbv beta iota.
  assert (Hdz : dval [h1; h2; m1; m2] = 100 * hh + mm).
  { unfold dval. cbn [fold_left]. clear - Vh Vm Dh1 Dh2 Dm1 Dm2. unfold is_digit in *. lia. }
  rewrite Hdz.
  destruct (tg_zone_agree hh mm Bh Hmm') as [Zp Zn].
  f_equal. unfold go_date_t.
  apply orb_true_iff in Hs as [Hs|Hs]; apply N.eqb_eq in Hs; subst s.
  - replace (43 =? 45) with false by reflexivity.
    unfold parse_int64. replace (43 =? 43) with true by reflexivity. rewrite Ph.
    replace ((- 2 ^ 63 <=? Z.of_N hh) && (Z.of_N hh <? 2 ^ 63))%Z with true by (clear - Bh; lia).
    replace (Z.of_N hh <? 0)%Z with false by (clear; lia).
    cbn [id_ts id_tz].
    replace ((Z.of_N (dval ds) =? zero_ts) && (Z.of_N hh * 60 + Z.of_N mm =? 0))%Z with false by (clear; unfold zero_ts; lia).
    rewrite N2Z.id. replace (Z.of_N hh * 60 + Z.of_N mm)%Z with (Z.of_N (60 * hh + mm)) by (clear; lia).
    now rewrite Zp.
  - replace (45 =? 45) with true by reflexivity.
    unfold parse_int64. replace (45 =? 43) with false by reflexivity. replace (45 =? 45) with true by reflexivity. rewrite Ph.
    replace ((- 2 ^ 63 <=? - Z.of_N hh) && (- Z.of_N hh <? 2 ^ 63))%Z with true by (clear - Bh; lia).
    cbn [id_ts id_tz].
    replace (45 =? 45) with true in Hneg0 by reflexivity. cbn [andb] in Hneg0.
    destruct (hh =? 0) eqn:Eh0.
    + (* -00mm: the guard forces mm = 0 *)
      apply N.eqb_eq in Eh0. subst hh. cbn [andb negb] in Hneg0. apply negb_true_iff, negb_false_iff, N.eqb_eq in Hneg0. subst mm.
      replace (- Z.of_N 0 <? 0)%Z with false by reflexivity.
      replace ((Z.of_N (dval ds) =? zero_ts) && (- Z.of_N 0 * 60 + Z.of_N 0 =? 0))%Z with false by (clear; unfold zero_ts; lia).
      rewrite N2Z.id. replace (- Z.of_N 0 * 60 + Z.of_N 0)%Z with (- Z.of_N (60 * 0 + 0))%Z by reflexivity.
      now rewrite Zn.
    + apply N.eqb_neq in Eh0. replace (- Z.of_N hh <? 0)%Z with true by (clear - Eh0; lia).
      replace ((Z.of_N (dval ds) =? zero_ts) && (- Z.of_N hh * 60 + - Z.of_N mm =? 0))%Z with false by (clear; unfold zero_ts; lia).
      rewrite N2Z.id. replace (- Z.of_N hh * 60 + - Z.of_N mm)%Z with (- Z.of_N (60 * hh + mm))%Z by (clear; lia).
      now rewrite Zn.
Qed.

(* ---- one tagger value: v is the text after "tagger " up to the LF, rest what follows in the buffer ---- *)
Lemma tg_ident_tag v rest : no_lf v = true -> (match rest with c :: _ => c = LF | [] => True end) ->
  person_ok_tag v = true ->
  v <> [] /\
  git_copy_name (v ++ rest) = id_name (decode_ident v) /\
  git_copy_email (v ++ rest) = LT :: id_email (decode_ident v) ++ [GT] /\
  (date_ok_tag v = true -> git_grab_date (v ++ rest) = Some (go_date_t (decode_ident v))).
Proof.
  intros Hlf Hrest Hp.
  destruct (tg_person_shape _ Hp) as [x [m [a [Ev [Hlx [Hgx [Hlm [Hgm [Hla [Hga [Hfx Hlastx]]]]]]]]]]].
  pose proof (tg_decode_ident_shape x m a Hlm Hla Hga Hfx Hlastx) as D. rewrite <- Ev in D.
  assert (Hlfx : no_lf x = true) by (rewrite Ev, no_lf_app in Hlf; now apply andb_true_iff in Hlf).
  assert (EW : v ++ rest = x ++ SPC :: LT :: m ++ GT :: a ++ rest).
  { rewrite Ev. rewrite <- app_assoc. cbn [app]. rewrite <- app_assoc. reflexivity. }
  assert (Hne : id_name (decode_ident v) = x /\ id_email (decode_ident v) = m).
  { rewrite D. destruct (Nat.ltb 1 (List.length a)); [apply tg_decode_time_ne|now split]. }
  destruct Hne as [Hn He].
  split; [rewrite Ev; now destruct x|].
  split; [|split].
  - rewrite EW, Hn. unfold git_copy_name. now rewrite (tg_copy_name _ _ Hlfx Hlx).
  - rewrite EW, He.
    replace (x ++ SPC :: LT :: m ++ GT :: a ++ rest) with ((x ++ [SPC]) ++ LT :: m ++ GT :: a ++ rest)
      by (now rewrite <- app_assoc).
    apply tg_copy_email; [|exact Hgm]. rewrite has_byte_app, Hlx. reflexivity.
  - intros Hd. unfold date_ok_tag in Hd.
    assert (Agt : last_index_of GT v = Some (List.length (x ++ SPC :: LT :: m))).
    { rewrite Ev. replace (x ++ SPC :: LT :: m ++ GT :: a) with ((x ++ SPC :: LT :: m) ++ GT :: a) by (now rewrite <- app_assoc).
      now apply last_index_of_unique. }
    rewrite Agt in Hd.
    assert (Sk : skipn (S (List.length (x ++ SPC :: LT :: m))) v = a).
    { rewrite Ev. replace (x ++ SPC :: LT :: m ++ GT :: a) with (((x ++ SPC :: LT :: m) ++ [GT]) ++ a) by (now rewrite <- !app_assoc).
      replace (S (List.length (x ++ SPC :: LT :: m))) with (List.length ((x ++ SPC :: LT :: m) ++ [GT]))
        by (rewrite !app_length; cbn [List.length]; lia).
      apply skipn_app_exact. }
    rewrite Sk in Hd.
    assert (Hrd : match rest with c :: _ => is_digit c = false | [] => True end)
      by (destruct rest as [|c r]; [exact I|subst c; reflexivity]).
    destruct (tg_date_matches x m a rest Hd Hrd) as [t [Ea [Hlen G]]].
    apply Nat.ltb_lt in Hlen. rewrite Hlen in D. rewrite D. clear Sk Agt D. subst a. cbn [tl].
    rewrite tg_grab_date_unfold, EW.
    replace (x ++ SPC :: LT :: m ++ GT :: (SPC :: t) ++ rest) with ((x ++ SPC :: LT :: m) ++ GT :: SPC :: t ++ rest)
      by (now rewrite <- app_assoc).
    rewrite tg_find_gt_sp; [exact G|].
    rewrite has_byte_app, !has_byte_cons, Hgx, Hgm. reflexivity.
Qed.

(* ---- the lines after "tag ...": go-git's scanner and git's find_wholine ---- *)
Lemma tg_starts_chomp k p : no_lf k = true -> starts_with k (p ++ [LF]) = true -> starts_with k p = true.
Proof.
  revert p. induction k as [|x k IH]; intros p Hk H; [reflexivity|].
  rewrite no_lf_cons in Hk. apply andb_true_iff in Hk as [H1 H2]. apply negb_true_iff in H1.
  destruct p as [|y p].
  - cbn in H. apply andb_true_iff in H as [H _]. congruence.
  - cbn [app starts_with] in *. apply andb_true_iff in H as [Ha Hb]. rewrite Ha. cbn [andb]. now apply IH.
Qed.

Lemma tg_tagger_lines r3 t0 : Forall line_ok r3 -> abl r3 = true -> t_tagger t0 = ident_zero ->
  let a := tg_agree_rest (header_of r3) in
  let i := t_tagger (trun TTagger t0 r3) in
  let w := tg_who r3 in
  ta_position a = true -> ta_person a = true ->
  (id_name i = git_copy_name w /\
   (git_copy_email w = LT :: id_email i ++ [GT] \/ (git_copy_email w = [] /\ id_email i = []))) /\
  (ta_date a = true -> match w with [] => Some [] | _ :: _ => git_grab_date w end = Some (go_date_t i)).
Proof.
  intros Hok Ha Hz. cbv zeta.
  assert (Zero : forall i, i = ident_zero ->
    (id_name i = git_copy_name [] /\
     (git_copy_email [] = LT :: id_email i ++ [GT] \/ (git_copy_email [] = [] /\ id_email i = []))) /\
    (true = true -> Some [] = Some (go_date_t i))).
  { intros i ->. split; [split; [reflexivity|right; split; reflexivity]|reflexivity]. }
  destruct r3 as [|l r].
  - intros _ _. apply (Zero (t_tagger (trun TTagger t0 []))). exact Hz.
  - inversion Hok as [|x0 y0 Hl Hr]. subst x0 y0. destruct (abl_cons _ _ Ha) as [Har Hen].
    destruct (first_is LF l) eqn:Elf.
    + (* the blank line right after the tag line *)
      cbn [header_of tg_who]. rewrite Elf. intros _ _.
      assert (Ei : t_tagger (trun TTagger t0 (l :: r)) = ident_zero).
      { cbn [trun]. assert (Hb : is_blank l = true) by now rewrite <- (first_is_lf_blank _ Hl).
        rewrite (tstep_blank' TTagger t0 l ltac:(discriminate) Hb).
        destruct (ends_nl l); [|exact Hz].
        destruct (tg_trun_keeps r TMessage t0) as [_ [_ [_ K]]]. rewrite (K ltac:(discriminate)). exact Hz. }
      apply (Zero _ Ei).
    + assert (Hb : is_blank l = false) by now rewrite <- (first_is_lf_blank _ Hl).
      cbn [header_of tg_who]. rewrite Elf. cbv beta iota. unfold tg_agree_rest.
      destruct (key_is k_tagger l) eqn:Ek.
      * (* the tagger line *)
        cbn [ta_position ta_person ta_date]. intros Hpos Hper. apply andb_true_iff in Hpos as [_ Hst].
        assert (Hform : exists v tail, no_lf v = true /\ (match tail with c :: _ => c = LF | [] => True end) /\
                  split_header l = (k_tagger, v) /\ l ++ List.concat r = (str "tagger " ++ v) ++ tail).
        { destruct Hl as [Hne [p [Hp [El | El]]]]; subst l.
          - apply (tg_starts_chomp (str "tagger ") _ eq_refl) in Hst. apply starts_with_spec in Hst as [v Ev]. subst p.
            exists v, (LF :: List.concat r). split; [exact Hp|]. split; [reflexivity|]. split.
            + rewrite (split_header_line _ Hp). reflexivity.
            + now rewrite <- app_assoc.
          - apply starts_with_spec in Hst as [v Ev]. subst p.
            exists v, []. split; [exact Hp|]. split; [exact I|]. split.
            + unfold split_header. rewrite (trim_right_nolf _ Hp). reflexivity.
            + destruct r as [|l2 r']; [reflexivity|].
              specialize (Hen ltac:(discriminate)). rewrite (ends_nl_no_lf _ Hp) in Hen. discriminate. }
        destruct Hform as [v [tail [Hv [Htail [Esh Ecat]]]]].
        assert (Eval : value_of l = v) by (unfold value_of; now rewrite Esh).
        rewrite Eval in *.
        assert (Ei : t_tagger (trun TTagger t0 (l :: r)) = decode_ident v).
        { cbn [trun tstep]. rewrite Hb, Esh. change (beqb k_tagger k_tagger) with true. cbv beta iota.
          destruct (ends_nl l); [|reflexivity].
          destruct (tg_trun_keeps r THeaders (set_ttagger t0 (decode_ident v))) as [_ [_ [_ K]]].
          rewrite (K ltac:(discriminate)). reflexivity. }
        assert (Ew : git_find_wholine k_tagger (l :: r) = v ++ tail).
        { cbn [git_find_wholine]. change (k_tagger ++ [SPC]) with (str "tagger "). rewrite Hst.
          cbn [List.concat]. rewrite Ecat, <- app_assoc. apply tg_skip7. }
        rewrite Ei, Ew.
        destruct (tg_ident_tag v tail Hv Htail Hper) as [Hne [Gn [Ge Gd]]].
        split; [split; [now rewrite Gn|left; exact Ge]|].
        intros Hdate. rewrite <- (Gd Hdate). destruct (v ++ tail) eqn:Evt; [|reflexivity].
        apply app_eq_nil in Evt as [Evt _]. contradiction.
      * (* some other header line: no tagger at all *)
        cbn [ta_position ta_person ta_date]. intros Hpos _. rewrite andb_true_r in Hpos. apply negb_true_iff in Hpos.
        assert (Ew : git_find_wholine k_tagger (l :: r) = []).
        { apply tg_wholine_none; [exact Elf|]. cbn [header_of]. rewrite Elf. exact Hpos. }
        rewrite Ew. apply Zero.
        cbn [trun]. pose proof (tg_on_theaders_keeps t0 l) as K. cbv zeta in K.
        assert (Es : tstep TTagger t0 l = on_theaders t0 l).
        { cbn [tstep]. rewrite Hb. unfold key_is in Ek. destruct (split_header l) as [key data]. cbn [fst] in Ek. now rewrite Ek. }
        rewrite Es. destruct (on_theaders t0 l) as [t' st']. cbn [fst snd] in K. destruct K as [_ [_ [_ [K1 K2]]]].
        destruct (ends_nl l); [|congruence].
        destruct (tg_trun_keeps r st' t') as [_ [_ [_ K]]]. rewrite (K K2). congruence.
Qed.

(* ---- the three mandatory header lines ---- *)
Lemma tg_need_header_kv key v r stop k : no_lf key = true -> has_byte SPC key = false -> no_lf v = true ->
  need_header key (((key ++ SPC :: v) ++ [LF]) :: r) stop k = k v r.
Proof.
  intros Hk Hs Hv. unfold need_header.
  assert (Hb : is_blank ((key ++ SPC :: v) ++ [LF]) = false).
  { destruct key as [|c key']; cbn [app]; [destruct v; reflexivity|destruct key'; reflexivity]. }
  rewrite Hb. rewrite <- app_assoc. cbn [app]. rewrite (split_header_kv _ _ Hk Hs Hv), beqb_refl. cbn [negb].
  replace (key ++ SPC :: v ++ [LF]) with ((key ++ SPC :: v) ++ [LF]) by (now rewrite <- app_assoc).
  now rewrite ends_nl_app_lf.
Qed.

Lemma tg_gok_inj {A} (x y : A) : GOk x = GOk y -> x = y.
Proof. intros E. now injection E. Qed.

(* what git's parse_tag_buffer accepts *)
Lemma tg_git_shape raw g : git_tag_fields raw = GOk g ->
  exists oh ty nm rest,
    raw = (k_object ++ SPC :: oh) ++ LF :: (k_type ++ SPC :: ty) ++ LF :: (k_tag ++ SPC :: nm) ++ LF :: rest /\
    List.length oh = 40%nat /\ all_hex oh = true /\ no_lf ty = true /\ no_lf nm = true /\
    g = (let w := git_find_wholine k_tagger (split_lines raw) in
         mk_gtag (lower_hex oh) ty nm (git_copy_name w) (git_copy_email w)
                 (match w with [] => Some [] | _ :: _ => git_grab_date w end) (git_contents raw)).
Proof.
  unfold git_tag_fields. intros H. cbv zeta in H.
  destruct (has_nul raw); [discriminate|].
  destruct (Nat.ltb (List.length raw) 64) eqn:Elen; [discriminate|]. apply Nat.ltb_ge in Elen.
  destruct (negb (starts_with (str "object ") raw)) eqn:E1; [discriminate|]. apply negb_false_iff in E1.
  apply starts_with_spec in E1 as [r0 Er0].
  assert (S7 : skipn 7 raw = r0) by (rewrite Er0; reflexivity).
  assert (N47 : nth 47 raw 0 = nth 40 r0 0) by (rewrite Er0; reflexivity).
  assert (S48 : skipn 48 raw = skipn 41 r0) by (rewrite Er0; reflexivity).
  rewrite S7, N47, S48 in H.
  destruct (negb (all_hex (firstn 40 r0) && (nth 40 r0 0 =? LF))) eqn:E2; [discriminate|]. apply negb_false_iff in E2.
  apply andb_true_iff in E2 as [Ehex Elf]. apply N.eqb_eq in Elf.
  assert (Hr0 : r0 = firstn 40 r0 ++ LF :: skipn 41 r0).
  { rewrite <- (firstn_skipn 40 r0) at 1. f_equal. apply tg_nth_skipn with (d := 0); [exact Elf|unfold LF; lia]. }
  assert (Hlen : List.length (firstn 40 r0) = 40%nat).
  { rewrite Er0, app_length in Elen. change (List.length (str "object ")) with 7%nat in Elen.
    rewrite firstn_length. lia. }
  set (oh := firstn 40 r0) in *. set (b1 := skipn 41 r0) in *. clearbody oh b1.
  destruct (negb (starts_with (str "type ") b1)) eqn:E3; [discriminate|]. apply negb_false_iff in E3.
  apply starts_with_spec in E3 as [b2 Eb2].
  assert (S5 : skipn 5 b1 = b2) by (rewrite Eb2; reflexivity). rewrite S5 in H.
  destruct (index_of LF b2) as [n|] eqn:En; [|discriminate].
  destruct (Nat.leb 20 n); [discriminate|].
  destruct (negb (existsb (beqb (firstn n b2)) git_tag_types)); [discriminate|].
  destruct (tg_index_of_split _ _ _ En) as [Hb2 [Hty _]].
  set (ty := firstn n b2) in *. set (b3 := skipn (S n) b2) in *. clearbody ty b3.
  destruct (negb (Nat.ltb 4 (List.length b3) && starts_with (str "tag ") b3)) eqn:E4; [discriminate|].
  apply negb_false_iff in E4. apply andb_true_iff in E4 as [_ E4].
  apply starts_with_spec in E4 as [b4 Eb4].
  assert (S4 : skipn 4 b3 = b4) by (rewrite Eb4; reflexivity). rewrite S4 in H.
  destruct (index_of LF b4) as [m|] eqn:Em; [|discriminate].
  destruct (tg_index_of_split _ _ _ Em) as [Hb4 [Hnm _]].
  set (nm := firstn m b4) in *. set (rest := skipn (S m) b4) in *. clearbody nm rest.
  apply tg_gok_inj in H.
  exists oh, ty, nm, rest.
  split; [|split; [exact Hlen|split; [exact Ehex|split; [|split]]]].
  - rewrite Er0, Hr0, Eb2, Hb2, Eb4, Hb4. reflexivity.
  - now rewrite no_lf_has, Hty.
  - now rewrite no_lf_has, Hnm.
  - symmetry. exact H.
Qed.

Theorem tag_fields_match_git : forall raw t g,
  decode_tag raw = Ok t -> git_tag_fields raw = GOk g ->
  let a := tag_agree_of raw in
  hex_encode (t_target t) = gt_object g /\ t_type t = gt_type g /\ t_name t = gt_tag g /\
  (ta_position a = true -> ta_person a = true ->
     id_name (t_tagger t) = gt_tn g /\
     (gt_te g = LT :: id_email (t_tagger t) ++ [GT] \/ (gt_te g = [] /\ id_email (t_tagger t) = []))) /\
  (ta_position a = true -> ta_person a = true -> ta_date a = true ->
     gt_td g = Some (go_date_t (t_tagger t))) /\
  drop_while (N.eqb LF) (t_msg t ++ t_sig t) = gt_contents g.
Proof.
  intros raw t g Hd Hg a.
  destruct (tg_git_shape _ _ Hg) as [oh [ty [nm [rest [Eraw [Hlen [Hhex [Hty [Hnm Eg]]]]]]]]].
  pose proof (tg_all_hex_no_lf _ Hhex) as Hoh.
  pose proof (split_lines_ok raw) as Hok. pose proof (split_lines_abl' raw) as Habl.
  pose proof (concat_split_lines raw) as Hcat.
  pose proof (split_lines_ok rest) as Hok3. pose proof (split_lines_abl' rest) as Habl3.
  assert (Els : split_lines raw =
                ((k_object ++ SPC :: oh) ++ [LF]) :: ((k_type ++ SPC :: ty) ++ [LF]) :: ((k_tag ++ SPC :: nm) ++ [LF]) ::
                split_lines rest).
  { rewrite Eraw.
    rewrite (split_lines_line (k_object ++ SPC :: oh) _ Hoh).
    rewrite (split_lines_line (k_type ++ SPC :: ty) _ Hty).
    rewrite (split_lines_line (k_tag ++ SPC :: nm) _ Hnm). reflexivity. }
  set (r3 := split_lines rest) in *.
  (* go-git's scan of the three leading lines *)
  unfold decode_tag in Hd. rewrite Els in Hd. unfold decode_tag_lines in Hd.
  rewrite (tg_need_header_kv k_object oh _ _ _ eq_refl eq_refl Hoh) in Hd. cbv beta in Hd.
  destruct (parse_oid oh) as [h|] eqn:Eh; [|discriminate].
  rewrite (tg_need_header_kv k_type ty _ _ _ eq_refl eq_refl Hty) in Hd. cbv beta in Hd.
  destruct (negb (valid_type ty)); [discriminate|].
  rewrite (tg_need_header_kv k_tag nm _ _ _ eq_refl eq_refl Hnm) in Hd. cbv beta in Hd.
  assert (Et : t = split_tag_sig (trun TTagger (tag_init h ty nm) r3)) by congruence. clear Hd.
  unfold parse_oid in Eh. rewrite Hlen in Eh. cbn [Nat.eqb orb] in Eh.
  set (t0 := tag_init h ty nm) in *.
  destruct (tg_split_sig_keeps (trun TTagger t0 r3)) as [K1 [K2 [K3 [K4 K5]]]]. rewrite <- Et in K1, K2, K3, K4, K5.
  destruct (tg_trun_keeps r3 TTagger t0) as [T1 [T2 [T3 _]]].
  destruct (trun_body r3 TTagger t0 ltac:(discriminate) Hok3 Habl3) as [M1 M2].
  (* git's fields *)
  assert (Ew : git_find_wholine k_tagger (split_lines raw) = tg_who r3).
  { rewrite Els. rewrite tg_wholine_skip; [|reflexivity|apply ends_nl_app_lf].
    change (tg_who (((k_type ++ SPC :: ty) ++ [LF]) :: ((k_tag ++ SPC :: nm) ++ [LF]) :: r3))
      with (git_find_wholine k_tagger (((k_type ++ SPC :: ty) ++ [LF]) :: ((k_tag ++ SPC :: nm) ++ [LF]) :: r3)).
    rewrite tg_wholine_skip; [|reflexivity|apply ends_nl_app_lf].
    change (tg_who (((k_tag ++ SPC :: nm) ++ [LF]) :: r3))
      with (git_find_wholine k_tagger (((k_tag ++ SPC :: nm) ++ [LF]) :: r3)).
    rewrite tg_wholine_skip; [reflexivity|reflexivity|apply ends_nl_app_lf]. }
  cbv zeta in Eg. rewrite Ew in Eg.
  assert (Ea : a = tg_agree_rest (header_of r3)).
  { unfold a. rewrite tg_agree_unfold, Els. reflexivity. }
  assert (Ec : git_contents raw = drop_while (N.eqb LF) (List.concat (body_lines r3))).
  { rewrite <- Hcat at 1. rewrite (tg_contents_lines _ Hok Habl); [rewrite Els; reflexivity|rewrite Els; reflexivity]. }
  subst g. cbn [gt_object gt_type gt_tag gt_tn gt_te gt_td gt_contents].
  pose proof (tg_tagger_lines r3 t0 Hok3 Habl3 eq_refl) as TL. cbv zeta in TL. rewrite <- Ea in TL.
  assert (Etag : t_tagger t = t_tagger (trun TTagger t0 r3)) by exact K4. rewrite <- Etag in TL.
  split; [|split; [|split; [|split; [|split]]]].
  - rewrite K1, T1. apply tg_hex_decode_lower. exact Eh.
  - rewrite K2, T2. reflexivity.
  - rewrite K3, T3. reflexivity.
  - intros P1 P2. destruct (TL P1 P2) as [[G1 G2] _]. split; [exact G1|exact G2].
  - intros P1 P2 P3. destruct (TL P1 P2) as [_ G3]. exact (G3 P3).
  - rewrite Ec, K5, M1, M2. unfold t0, tag_init. cbn [t_msg t_sig app].
    destruct (parse_signed_bytes (List.concat (body_lines r3))); rewrite app_nil_r; reflexivity.
Qed.
