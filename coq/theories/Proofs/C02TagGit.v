(* Proofs/C02TagGit.v — tags: the fields go-git's Tag.Decode yields are the
   ones `git for-each-ref` reports (Spec/GitFields.git_tag_fields): object,
   type, tag always; tagger name / e-mail / raw date under the boolean clauses
   of Spec/ObjWf.tag_agree_of; the contents (message ++ signature, leading
   LFs skipped) always. *)
From Coq Require Import String.
From Coq Require Import List NArith ZArith Bool Lia ZifyBool ZifyNat ZifyN.
From GoGit Require Import Base.Out Model.ObjLines Model.Ident Model.Commit Model.Tag Spec.GitFields Spec.ObjWf
     Proofs.ObjLinesFacts Proofs.C02Dec Proofs.C02Ident Proofs.C03CommitSig Proofs.C02Lines Proofs.C03TagSig.
Import ListNotations.
Local Open Scope N_scope.

(* what go-git's tagger fields print as, in git's raw date format; "" for the zero time *)
Definition go_date_t (i : ident) : bytes :=
  if ((id_ts i =? zero_ts) && (id_tz i =? 0))%Z then []
  else print_dec (Z.to_N (id_ts i)) ++ [SPC] ++ fmt_zone (id_tz i).

(* ---- generic list facts ---- *)
Lemma tg_take_drop (f : N -> bool) b : b = take_while f b ++ skipn (List.length (take_while f b)) b.
Proof. induction b as [|c r IH]; [reflexivity|]. cbn [take_while]. destruct (f c); [|reflexivity]. cbn [List.length skipn app]. now rewrite <- IH. Qed.

Lemma tg_take_while_all (f : N -> bool) b : forallb f (take_while f b) = true.
Proof. induction b as [|c r IH]; [reflexivity|]. cbn [take_while]. destruct (f c) eqn:E; [|reflexivity]. cbn [forallb]. rewrite E. exact IH. Qed.

Lemma tg_take_while_app (f : N -> bool) a b : forallb f a = true -> (match b with c :: _ => f c = false | [] => True end) ->
  take_while f (a ++ b) = a.
Proof.
  intros Ha Hb. induction a as [|x a IH]; cbn [app take_while].
  - destruct b as [|c b]; [reflexivity|]. cbn [take_while]. now rewrite Hb.
  - cbn [forallb] in Ha. apply andb_true_iff in Ha as [H1 H2]. now rewrite H1, (IH H2).
Qed.

Lemma tg_count_app c a b : count_byte c (a ++ b) = (count_byte c a + count_byte c b)%nat.
Proof. unfold count_byte. now rewrite filter_app, app_length. Qed.

Lemma tg_count_zero c b : has_byte c b = false -> count_byte c b = 0%nat.
Proof.
  unfold count_byte, has_byte. induction b as [|x b IH]; [reflexivity|]. cbn [existsb filter]. intros H.
  apply orb_false_iff in H as [H1 H2]. rewrite H1. now apply IH.
Qed.

Lemma tg_has_of_count c b : count_byte c b = 0%nat -> has_byte c b = false.
Proof.
  unfold count_byte, has_byte. induction b as [|x b IH]; [reflexivity|]. cbn [existsb filter].
  destruct (c =? x); cbn [List.length orb]; [discriminate|exact IH].
Qed.

Lemma tg_count_unique c v : count_byte c v = 1%nat ->
  exists x y, v = x ++ c :: y /\ has_byte c x = false /\ has_byte c y = false.
Proof.
  induction v as [|a v IH]; [discriminate|].
  change (a :: v) with ([a] ++ v). rewrite tg_count_app. unfold count_byte at 1. cbn [filter].
  destruct (c =? a) eqn:E; cbn [List.length Nat.add].
  - intros H. apply N.eqb_eq in E. subst a. exists [], v. repeat split.
    apply tg_has_of_count. lia.
  - intros H. destruct (IH H) as [x [y [-> [Hx Hy]]]]. exists (a :: x), y. repeat split; [|exact Hy].
    rewrite has_byte_cons, E, Hx. reflexivity.
Qed.

Lemma tg_index_of_split c b : forall n, index_of c b = Some n ->
  b = firstn n b ++ c :: skipn (S n) b /\ has_byte c (firstn n b) = false /\ List.length (firstn n b) = n.
Proof.
  induction b as [|x r IH]; intros n H; [discriminate|]. cbn [index_of] in H.
  destruct (x =? c) eqn:E.
  - apply N.eqb_eq in E. subst x. assert (n = 0%nat) by congruence. subst n. repeat split.
  - destruct (index_of c r) as [i|]; [|discriminate]. assert (n = S i) by congruence. subst n.
    destruct (IH i eq_refl) as [I1 [I2 I3]]. cbn [firstn skipn app List.length]. repeat split.
    + f_equal. exact I1.
    + rewrite has_byte_cons, N.eqb_sym, E, I2. reflexivity.
    + now rewrite I3.
Qed.

Lemma tg_nth_skipn (d c : N) : forall n l, nth n l d = c -> c <> d -> skipn n l = c :: skipn (S n) l.
Proof.
  induction n as [|n IH]; intros [|x l] H Hn; cbn [nth] in H; try congruence.
  - cbn [skipn]. now subst.
  - cbn [skipn]. now apply IH.
Qed.

Lemma tg_nth_middle (d : N) x c y : nth (List.length x) (x ++ c :: y) d = c.
Proof. induction x as [|a x IH]; [reflexivity|exact IH]. Qed.

Lemma tg_last_split (b : bytes) : b <> [] -> exists x c, b = x ++ [c].
Proof. intros H. destruct (exists_last H) as [x [c E]]. now exists x, c. Qed.

(* ---- the scanner: what a step can change ---- *)
Lemma tg_on_theaders_keeps t l :
  let r := on_theaders t l in
  t_target (fst r) = t_target t /\ t_type (fst r) = t_type t /\ t_name (fst r) = t_name t /\
  t_tagger (fst r) = t_tagger t /\ snd r <> TTagger.
Proof.
  unfold on_theaders. destruct (is_blank l); [cbn; repeat split; discriminate|].
  destruct (split_header l) as [key data]. destruct (beqb key k_gpgsig256); cbn; repeat split; discriminate.
Qed.

Lemma tg_tstep_keeps st t l :
  let r := tstep st t l in
  t_target (fst r) = t_target t /\ t_type (fst r) = t_type t /\ t_name (fst r) = t_name t /\
  (st <> TTagger -> t_tagger (fst r) = t_tagger t /\ snd r <> TTagger).
Proof.
  pose proof (tg_on_theaders_keeps t l) as [O1 [O2 [O3 [O4 O5]]]].
  destruct st; cbn [tstep].
  - destruct (is_blank l); [cbn; repeat split; contradiction|].
    destruct (split_header l) as [key data]. destruct (beqb key k_tagger).
    + cbn. repeat split; contradiction.
    + repeat split; try assumption; contradiction.
  - repeat split; assumption.
  - destruct (first_is SPC l); [cbn; repeat split; discriminate|]. repeat split; assumption.
  - cbn. repeat split; discriminate.
Qed.

Lemma tg_trun_keeps : forall ls st t,
  t_target (trun st t ls) = t_target t /\ t_type (trun st t ls) = t_type t /\ t_name (trun st t ls) = t_name t /\
  (st <> TTagger -> t_tagger (trun st t ls) = t_tagger t).
Proof.
  induction ls as [|l r IH]; intros st t; [cbn [trun]; repeat split|].
  cbn [trun]. pose proof (tg_tstep_keeps st t l) as K. cbv zeta in K.
  destruct (tstep st t l) as [t' st']. cbn [fst snd] in K. destruct K as [K1 [K2 [K3 K4]]].
  destruct (ends_nl l).
  - destruct (IH st' t') as [I1 [I2 [I3 I4]]]. rewrite I1, I2, I3. repeat split; try assumption.
    intros Hst. destruct (K4 Hst) as [K5 K6]. now rewrite (I4 K6).
  - repeat split; try assumption. intros Hst. now destruct (K4 Hst).
Qed.

Lemma tg_split_sig_keeps t :
  t_target (split_tag_sig t) = t_target t /\ t_type (split_tag_sig t) = t_type t /\
  t_name (split_tag_sig t) = t_name t /\ t_tagger (split_tag_sig t) = t_tagger t /\
  t_msg (split_tag_sig t) ++ t_sig (split_tag_sig t) = t_msg t ++ (match parse_signed_bytes (t_msg t) with Some _ => [] | None => t_sig t end).
Proof.
  unfold split_tag_sig. destruct (parse_signed_bytes (t_msg t)) as [sm|]; cbn [t_target t_type t_name t_tagger t_msg t_sig].
  - rewrite firstn_skipn, app_nil_r. repeat split.
  - repeat split.
Qed.

(* ---- object id: hex.DecodeString then hex.EncodeToString lower-cases ---- *)
Lemma tg_hexv_lower x h : hexv x = Some h ->
  h < 16 /\ hexdig h = (if (65 <=? x) && (x <=? 70) then x + 32 else x).
Proof.
  unfold hexv, hexdig. intros H.
  destruct ((48 <=? x) && (x <=? 57)) eqn:E1.
  - assert (h = x - 48) by congruence. subst h. clear H. split; [lia|].
    replace (x - 48 <? 10) with true by lia. replace ((65 <=? x) && (x <=? 70)) with false by lia. lia.
  - destruct ((97 <=? x) && (x <=? 102)) eqn:E2.
    + assert (h = x - 87) by congruence. subst h. clear H. split; [lia|].
      replace (x - 87 <? 10) with false by lia. replace ((65 <=? x) && (x <=? 70)) with false by lia. lia.
    + destruct ((65 <=? x) && (x <=? 70)) eqn:E3; [|discriminate].
      assert (h = x - 55) by congruence. subst h. clear H. split; [lia|].
      replace (x - 55 <? 10) with false by lia. lia.
Qed.

Lemma tg_hex_decode_lower : forall h d, hex_decode d = Some h -> hex_encode h = lower_hex d.
Proof.
  induction h as [|c h IH]; intros d H.
  - destruct d as [|x [|y r]]; [reflexivity|discriminate|]. cbn [hex_decode] in H.
    destruct (hexv x), (hexv y), (hex_decode r); discriminate.
  - destruct d as [|x [|y r]]; [discriminate|discriminate|]. cbn [hex_decode] in H.
    destruct (hexv x) as [hi|] eqn:Ex; [|discriminate]. destruct (hexv y) as [lo|] eqn:Ey; [|discriminate].
    destruct (hex_decode r) as [t|] eqn:Er; [|discriminate].
    assert (Hc : c = 16 * hi + lo) by congruence. assert (Ht : t = h) by congruence. subst t.
    destruct (tg_hexv_lower _ _ Ex) as [Bh Lh]. destruct (tg_hexv_lower _ _ Ey) as [Bl Ll].
    change (hex_encode (c :: h)) with (hexdig (c / 16) :: hexdig (c mod 16) :: hex_encode h).
    change (lower_hex (x :: y :: r)) with
      ((if (65 <=? x) && (x <=? 70) then x + 32 else x) :: (if (65 <=? y) && (y <=? 70) then y + 32 else y) :: lower_hex r).
    rewrite (IH _ Er), <- Lh, <- Ll.
    assert (Q : c / 16 = hi) by (symmetry; apply (N.div_unique c 16 hi lo); [exact Bl|exact Hc]).
    assert (R : c mod 16 = lo) by (symmetry; apply (N.mod_unique c 16 hi lo); [exact Bl|exact Hc]).
    now rewrite Q, R.
Qed.

Lemma tg_all_hex_no_lf b : all_hex b = true -> no_lf b = true.
Proof.
  unfold all_hex, no_lf. induction b as [|a b IH]; cbn [forallb]; [reflexivity|]. intros H.
  apply andb_true_iff in H as [H1 H2]. rewrite (IH H2), andb_true_r.
  destruct (a =? LF) eqn:E; [|reflexivity]. apply N.eqb_eq in E. subst a. vm_compute in H1. discriminate H1.
Qed.

(* ---- contents: after the first "\n\n" = after the first blank line ---- *)
Lemma tg_contents_skip p b : no_lf p = true -> git_contents (p ++ b) = git_contents b.
Proof.
  induction p as [|c p IH]; intros H; [reflexivity|]. rewrite no_lf_cons in H. apply andb_true_iff in H as [H1 H2].
  apply negb_true_iff in H1. cbn [app git_contents]. rewrite H1. cbn [andb]. now apply IH.
Qed.

Lemma tg_first_is_app c (l b : bytes) : l <> [] -> first_is c (l ++ b) = first_is c l.
Proof. destruct l; [contradiction|reflexivity]. Qed.

Lemma tg_blank_eq l : line_ok l -> first_is LF l = true -> l = [LF].
Proof.
  intros Hl H. rewrite (first_is_lf_blank _ Hl) in H. destruct l as [|x [|y l]]; try discriminate.
  cbn in H. apply N.eqb_eq in H. now subst.
Qed.

Definition tg_head_nonblank (ls : list bytes) : Prop :=
  match ls with l :: _ => first_is LF l = false | [] => True end.

Lemma tg_contents_lines : forall ls, Forall line_ok ls -> abl ls = true -> tg_head_nonblank ls ->
  git_contents (List.concat ls) = drop_while (N.eqb LF) (List.concat (body_lines ls)).
Proof.
  induction ls as [|l r IH]; intros Hok Ha Hh; [reflexivity|].
  inversion Hok as [|x0 y0 Hl Hr]. subst x0 y0. destruct (abl_cons _ _ Ha) as [Har Hen].
  cbn [tg_head_nonblank] in Hh. cbn [body_lines List.concat]. rewrite Hh.
  destruct Hl as [Hne [p [Hp [-> | ->]]]].
  - rewrite <- app_assoc. rewrite (tg_contents_skip _ _ Hp). cbn [app git_contents]. rewrite N.eqb_refl. cbn [andb].
    destruct r as [|l2 r'].
    + reflexivity.
    + inversion Hr as [|x0 y0 Hl2 Hr']. subst x0 y0.
      assert (F : first_is LF (List.concat (l2 :: r')) = first_is LF l2)
        by (cbn [List.concat]; apply tg_first_is_app, Hl2).
      rewrite F. destruct (first_is LF l2) eqn:E2.
      * pose proof (tg_blank_eq _ Hl2 E2). subst l2.
        change (body_lines ([LF] :: r')) with r'. change (List.concat ([LF] :: r')) with (LF :: List.concat r').
        cbn [drop_while]. now rewrite N.eqb_refl.
      * exact (IH Hr Har E2).
  - destruct r as [|l2 r'].
    + cbn [List.concat body_lines]. rewrite app_nil_r. rewrite <- (app_nil_r p). now rewrite (tg_contents_skip _ _ Hp).
    + specialize (Hen ltac:(discriminate)). rewrite (ends_nl_no_lf _ Hp) in Hen. discriminate.
Qed.

(* ---- ref-filter.c find_wholine("tagger") ---- *)
Definition tg_stray (l : bytes) : bool := starts_with (str "tagger ") l.

Definition tg_who (ls : list bytes) : bytes :=
  match ls with [] => [] | n :: _ => if first_is LF n then [] else git_find_wholine k_tagger ls end.

Lemma tg_wholine_none : forall ls, tg_head_nonblank ls -> existsb tg_stray (header_of ls) = false ->
  git_find_wholine k_tagger ls = [].
Proof.
  induction ls as [|l r IH]; intros Hh He; [reflexivity|]. cbn [tg_head_nonblank] in Hh.
  cbn [header_of] in He. rewrite Hh in He. cbn [existsb] in He. apply orb_false_iff in He as [E1 E2].
  cbn [git_find_wholine]. change (k_tagger ++ [SPC]) with (str "tagger "). unfold tg_stray in E1. rewrite E1.
  destruct (negb (ends_nl l)); [reflexivity|]. destruct r as [|n r']; [reflexivity|].
  destruct (first_is LF n) eqn:En; [reflexivity|]. apply IH; [exact En|exact E2].
Qed.

Lemma tg_wholine_skip l r : tg_stray l = false -> ends_nl l = true -> git_find_wholine k_tagger (l :: r) = tg_who r.
Proof.
  intros H1 H2. cbn [git_find_wholine]. change (k_tagger ++ [SPC]) with (str "tagger "). unfold tg_stray in H1.
  rewrite H1, H2. reflexivity.
Qed.

Lemma tg_skip7 (x : bytes) : skipn (List.length k_tagger + 1) (str "tagger " ++ x) = x.
Proof. reflexivity. Qed.

(* the clauses of tag_agree_of as a function of the header lines after the third *)
Definition tg_agree_rest (rest : list bytes) : tag_agree :=
  let '(t, rest1) := match rest with
                     | l :: r => if key_is k_tagger l then (Some l, r) else (None, rest)
                     | [] => (None, [])
                     end in
  let stray l := starts_with (str "tagger ") l in
  mk_tagree (negb (existsb stray rest1) && match t with Some l => stray l | None => true end)
            (match t with Some l => person_ok_tag (value_of l) | None => true end)
            (match t with Some l => date_ok_tag (value_of l) | None => true end).

Lemma tg_agree_unfold raw : tag_agree_of raw = tg_agree_rest (skipn 3 (header_of (split_lines raw))).
Proof. reflexivity. Qed.
