(* Proofs/C35Msgs.v — round trips of the line-oriented packp messages:
   ShallowUpdate, UploadHaves, PushOptions, ReportStatus, ServerResponse. *)
From Coq Require Import List NArith ZArith Bool Lia Arith String.
From GoGit Require Import Base.Out Base.GoInt Gen.C34 Model.PktLine Model.C35Utf8 Model.Packp
  Proofs.C34Stream Proofs.C34Hex Proofs.C34Pkt Proofs.C35Base Proofs.C35Utf8 Proofs.C35U.
Import ListNotations.

Arguments MaxSizeN : simpl never.
Opaque MaxSizeN.

Lemma item_of_ne b : (0 < List.length b)%nat -> item_of (PData b) = ((zlen b + 4)%Z, b).
Proof. destruct b; [cbn; lia|reflexivity]. Qed.

Lemma item_nz b : ((zlen b + 4 =? 0)%Z) = false.
Proof. unfold zlen. destruct (Z.eqb_spec (Z.of_nat (List.length b) + 4) 0); [lia|reflexivity]. Qed.

Lemma last_app_ne {A} (a b : list A) d : b <> [] -> last (a ++ b) d = last b d.
Proof.
  intros H. induction a as [|x a IH]; [reflexivity|].
  cbn [app]. assert (a ++ b <> []) as Hab by (destruct a; [assumption|discriminate]).
  destruct (a ++ b) as [|y l] eqn:E; [contradiction|].
  change (last (x :: y :: l) d) with (last (y :: l) d). exact IH.
Qed.

Lemma hexchar_last hx : hx <> [] -> forallb hexchar hx = true -> hexchar (last hx 0%N) = true.
Proof.
  intros Hne H. rewrite forallb_forall in H. apply H.
  destruct hx as [|x l]; [contradiction|]. clear. revert x. induction l as [|y l IH]; intros x; [now left|].
  right. apply IH.
Qed.

Lemma hexchar_nonspace c : hexchar c = true -> is_space c = false /\ N.eqb NL c = false /\ N.eqb c SP = false /\ N.eqb c NUL = false.
Proof.
  unfold hexchar. intros H. repeat (apply andb_prop in H; destruct H as [H ?]).
  repeat split; now apply negb_true_iff.
Qed.

(* a line "<prefix><hex>" : trimming a final newline / outer white space gives it back *)
Lemma clean_prefix_hex c pre hx : is_space c = false -> hx <> [] -> forallb hexchar hx = true ->
  clean_text (c :: pre ++ hx) = true.
Proof.
  intros Hc Hne Hh. unfold clean_text. rewrite Hc. cbn [negb andb].
  change (c :: pre ++ hx) with ((c :: pre) ++ hx). rewrite (last_app_ne _ hx _ Hne).
  destruct (hexchar_nonspace _ (hexchar_last hx Hne Hh)) as [-> _]. reflexivity.
Qed.

Lemma hash_str_ne h : hash_ok h = true -> hash_str h <> [].
Proof.
  intros H E. apply (f_equal (@List.length N)) in E. rewrite (hash_str_length h H) in E.
  unfold hash_hexsize, hash_size in E. destruct (h256 h); discriminate.
Qed.

Definition sha1_ok (h : hash) : bool := hash_ok h && negb (h256 h).

Lemma sha1_len h : sha1_ok h = true -> List.length (hash_str h) = 40%nat /\ hash_ok h = true.
Proof.
  unfold sha1_ok. intros H. apply andb_prop in H. destruct H as [H1 H2]. apply negb_true_iff in H2.
  split; [|assumption]. rewrite (hash_str_length h H1). unfold hash_hexsize, hash_size. now rewrite H2.
Qed.

(* ================= ShallowUpdate ================= *)
Lemma su_step (sh : bool) h r fin u : hash_ok h = true ->
  su_decode_go (item_of (PData ((if sh then B "shallow " else B "unshallow ") ++ hash_str h ++ [NL])) :: r) fin u
  = su_decode_go r fin (if sh then mkshupd (su_shallows u ++ [h]) (su_unshallows u)
                        else mkshupd (su_shallows u) (su_unshallows u ++ [h])).
Proof.
  intros Hok. pose proof (hash_str_length h Hok) as L.
  pose proof (hash_str_ne h Hok) as Hne. pose proof (hash_str_asciins h Hok) as Hch.
  rewrite item_of_ne by (rewrite app_length; destruct sh; cbn; lia).
  cbn [su_decode_go fst snd]. rewrite item_nz.
  destruct sh.
  - change (B "shallow " ++ hash_str h ++ [NL]) with ((115%N :: skipn 1 (B "shallow ") ++ hash_str h) ++ [NL]).
    rewrite (trim_u_clean _ (clean_u_prefix_hex 115 _ _ eq_refl Hne Hch)).
    change (115%N :: skipn 1 (B "shallow ") ++ hash_str h) with (B "shallow " ++ hash_str h).
    rewrite has_prefix_app, app_length, L.
    assert (Nat.eqb (List.length (B "shallow ") + hash_hexsize h) 48 || Nat.eqb (List.length (B "shallow ") + hash_hexsize h) 72 = true) as ->
      by (unfold hash_hexsize, hash_size; destruct (h256 h); reflexivity).
    change 8%nat with (List.length (B "shallow ")). rewrite skipn_app_len, (new_hash_str h Hok). reflexivity.
  - change (B "unshallow " ++ hash_str h ++ [NL]) with ((117%N :: skipn 1 (B "unshallow ") ++ hash_str h) ++ [NL]).
    rewrite (trim_u_clean _ (clean_u_prefix_hex 117 _ _ eq_refl Hne Hch)).
    change (117%N :: skipn 1 (B "unshallow ") ++ hash_str h) with (B "unshallow " ++ hash_str h).
    change (has_prefix (B "shallow ") (B "unshallow " ++ hash_str h)) with false. cbv iota.
    rewrite has_prefix_app, app_length, L.
    assert (Nat.eqb (List.length (B "unshallow ") + hash_hexsize h) 50 || Nat.eqb (List.length (B "unshallow ") + hash_hexsize h) 74 = true) as ->
      by (unfold hash_hexsize, hash_size; destruct (h256 h); reflexivity).
    change 10%nat with (List.length (B "unshallow ")). rewrite skipn_app_len, (new_hash_str h Hok). reflexivity.
Qed.

Lemma su_decode_lines (sh : bool) : forall hs r fin u, forallb hash_ok hs = true ->
  su_decode_go (map item_of (map (fun h => PData ((if sh then B "shallow " else B "unshallow ") ++ hash_str h ++ [NL])) hs) ++ r) fin u
  = su_decode_go r fin (if sh then mkshupd (su_shallows u ++ hs) (su_unshallows u)
                        else mkshupd (su_shallows u) (su_unshallows u ++ hs)).
Proof.
  induction hs as [|h hs IH]; intros r fin u H.
  - cbn [map app]. rewrite !app_nil_r. destruct sh, u; reflexivity.
  - cbn [forallb] in H. apply andb_prop in H. destruct H as [H1 H2].
    cbn [map app]. rewrite (su_step sh h _ fin u H1), (IH _ _ _ H2).
    destruct sh; cbn [su_shallows su_unshallows]; rewrite <- app_assoc; reflexivity.
Qed.

Theorem su_roundtrip u : forallb hash_ok (su_shallows u) = true -> forallb hash_ok (su_unshallows u) = true ->
  su_decode (mksrc (map item_of (su_encode u)) None) = inl u.
Proof.
  intros H1 H2. unfold su_decode, su_encode. cbn [s_items s_fin]. rewrite !map_app.
  rewrite (su_decode_lines true _ _ _ _ H1). cbn [su_shallows su_unshallows app].
  rewrite (su_decode_lines false _ _ _ _ H2). cbn [map item_of su_decode_go fst Z.eqb su_shallows su_unshallows app].
  destruct u; reflexivity.
Qed.

Lemma su_no_errline u : forallb no_errline (su_encode u) = true.
Proof.
  unfold su_encode. rewrite !forallb_app. repeat (apply andb_true_intro; split); try reflexivity;
  apply forallb_forall; intros p Hp; apply in_map_iff in Hp; destruct Hp as (h & <- & _); reflexivity.
Qed.

(* ================= sorting / dedup keep the elements ================= *)
Lemma insert_by_Forall {A} (P : A -> Prop) lt x l : P x -> Forall P l -> Forall P (insert_by lt x l).
Proof.
  intros Hx Hl. induction Hl as [|y l Hy Hl IH]; cbn; [now repeat constructor|].
  destruct (lt x y); repeat constructor; auto.
Qed.

Lemma sort_by_Forall {A} (P : A -> Prop) lt l : Forall P l -> Forall P (sort_by lt l).
Proof.
  unfold sort_by. assert (forall acc, Forall P acc -> Forall P l -> Forall P (fold_left (fun a x => insert_by lt x a) l acc)) as K.
  { induction l as [|x l IH]; intros acc Ha Hl; [assumption|]. cbn. apply IH; [|now inversion Hl].
    apply insert_by_Forall; [now inversion Hl|assumption]. }
  intros H. apply K; [constructor|assumption].
Qed.

Lemma dedup_from_Forall (P : hash -> Prop) : forall l last, Forall P l -> Forall P (dedup_from last l).
Proof.
  induction l as [|h l IH]; intros last H; [constructor|]. inversion H; subst. cbn.
  destruct (hash_same last h); [now apply IH|constructor; auto].
Qed.

Lemma forallb_Forall {A} (f : A -> bool) l : forallb f l = true <-> Forall (fun x => f x = true) l.
Proof. rewrite forallb_forall, Forall_forall. reflexivity. Qed.

(* ================= UploadHaves ================= *)
Definition uh_canon (u : uphav) : uphav := mkuphav (dedup_from zero_hash (sort_hashes (uh_haves u))) (uh_done u).

Lemma uh_step h r fin u : hash_ok h = true ->
  uh_decode_go (item_of (PData (B "have " ++ hash_str h ++ [NL])) :: r) fin u
  = uh_decode_go r fin (mkuphav (uh_haves u ++ [h]) (uh_done u)).
Proof.
  intros Hok. pose proof (hash_str_ne h Hok) as Hne. pose proof (hash_str_chars h Hok) as Hch.
  rewrite item_of_ne by (rewrite app_length; cbn; lia).
  cbn [uh_decode_go fst snd]. rewrite item_nz.
  change (has_prefix (B "done") (B "have " ++ hash_str h ++ [NL])) with false. cbv iota.
  rewrite has_prefix_app. cbn [negb]. change 5%nat with (List.length (B "have ")). rewrite skipn_app_len.
  rewrite (trim_u_clean _ (clean_u_hex _ (hash_str_asciins h Hok))), (new_hash_str h Hok). reflexivity.
Qed.

Lemma uh_decode_lines : forall hs r fin u, Forall (fun h => hash_ok h = true) hs ->
  uh_decode_go (map item_of (map (fun h => PData (B "have " ++ hash_str h ++ [NL])) hs) ++ r) fin u
  = uh_decode_go r fin (mkuphav (uh_haves u ++ hs) (uh_done u)).
Proof.
  induction hs as [|h hs IH]; intros r fin u H.
  - cbn [map app]. rewrite app_nil_r. destruct u; reflexivity.
  - inversion H; subst. cbn [map app]. rewrite (uh_step h _ fin u) by assumption. rewrite IH by assumption.
    cbn [uh_haves uh_done]. rewrite <- app_assoc. reflexivity.
Qed.

Theorem uh_roundtrip u : forallb hash_ok (uh_haves u) = true ->
  uh_decode (mksrc (map item_of (uh_encode u)) None) = inl (uh_canon u).
Proof.
  intros H. apply forallb_Forall in H. unfold uh_decode, uh_encode. cbn [s_items s_fin]. rewrite !map_app.
  rewrite uh_decode_lines by (apply dedup_from_Forall, sort_by_Forall; assumption).
  cbn [uh_haves uh_done app map]. unfold uh_canon. destruct (uh_done u); reflexivity.
Qed.

Lemma uh_no_errline u : forallb no_errline (uh_encode u) = true.
Proof.
  unfold uh_encode. rewrite forallb_app. apply andb_true_intro. split; [|destruct (uh_done u); reflexivity].
  apply forallb_forall. intros p Hp. apply in_map_iff in Hp. destruct Hp as (h & <- & _). reflexivity.
Qed.

(* ================= PushOptions ================= *)
Lemma po_decode_lines : forall opts r fin acc, forallb graphic_str opts = true ->
  po_decode_go (map item_of (map PData opts) ++ r) fin acc = po_decode_go r fin (acc ++ opts).
Proof.
  induction opts as [|o opts IH]; intros r fin acc H; [cbn; now rewrite app_nil_r|].
  cbn [forallb] in H. apply andb_prop in H. destruct H as [H1 H2]. cbn [map app].
  assert (item_of (PData o) = ((if Nat.eqb (List.length o) 0 then 4 else zlen o + 4)%Z, o)) as -> by (destruct o; reflexivity).
  cbn [po_decode_go fst snd].
  assert (((if Nat.eqb (List.length o) 0 then 4 else zlen o + 4) =? 0)%Z = false) as ->.
  { destruct (Nat.eqb (List.length o) 0); [reflexivity|apply item_nz]. }
  rewrite H1, IH by assumption. now rewrite <- app_assoc.
Qed.

Theorem po_roundtrip opts ps : po_encode opts = Some ps ->
  po_decode (mksrc (map item_of ps) None) = inl opts.
Proof.
  unfold po_encode. destruct (forallb (fun o => graphic_str o && (zlen o <=? pktline_MaxPayloadSize)%Z) opts) eqn:E; [|discriminate]. intros [= <-].
  unfold po_decode. cbn [s_items s_fin]. rewrite map_app, po_decode_lines; [reflexivity|].
  rewrite forallb_forall in *. intros o Ho. specialize (E o Ho). apply andb_prop in E. apply E.
Qed.

(* ================= ReportStatus ================= *)
Definition rs_ok (s : report) : bool := forallb (fun c => no_byte SP (fst c)) (rs_cmds s).

Lemma split_n2_nospace a b : no_byte SP a = true -> split_n SP 2 (a ++ SP :: b) = [a; b].
Proof. intros H. cbn [split_n]. now rewrite (cut_app SP a b H). Qed.

Lemma rs_cmd_step c r fin acc : no_byte SP (fst c) = true ->
  rs_cmds_decode (item_of (if beq (snd c) OKb then PData (B "ok " ++ fst c ++ [NL])
                           else PData (B "ng " ++ fst c ++ [SP] ++ snd c ++ [NL])) :: r) fin acc
  = rs_cmds_decode r fin (acc ++ [c]).
Proof.
  intros Hn. destruct c as [name st]. cbn [fst snd] in *. destruct (beq st OKb) eqn:E.
  - apply beq_eq in E. subst st.
    rewrite item_of_ne by (rewrite app_length; cbn; lia). cbn [rs_cmds_decode fst snd]. rewrite item_nz.
    change (B "ok " ++ name ++ [NL]) with ((B "ok " ++ name) ++ [NL]). rewrite trim_eol_app.
    change (B "ok " ++ name) with (B "ok" ++ SP :: name).
    cbn [split_n]. rewrite (cut_app SP (B "ok") name eq_refl), (cut_none SP name Hn). cbv iota.
    change (beq (B "ok") (B "ng")) with false. change (beq (B "ok") OKb) with true. reflexivity.
  - rewrite item_of_ne by (rewrite app_length; cbn; lia). cbn [rs_cmds_decode fst snd]. rewrite item_nz.
    assert (B "ng " ++ name ++ [SP] ++ st ++ [NL] = (B "ng" ++ SP :: name ++ SP :: st) ++ [NL]) as ->.
    { rewrite <- app_assoc. cbn [app]. rewrite <- app_assoc. reflexivity. }
    rewrite trim_eol_app. cbn [split_n]. rewrite (cut_app SP (B "ng") _ eq_refl), (cut_app SP name st Hn). cbv iota.
    change (beq (B "ng") (B "ng")) with true. reflexivity.
Qed.

Lemma rs_cmds_lines : forall cs r fin acc, forallb (fun c => no_byte SP (fst c)) cs = true ->
  rs_cmds_decode (map item_of (map (fun c => if beq (snd c) OKb then PData (B "ok " ++ fst c ++ [NL])
                                              else PData (B "ng " ++ fst c ++ [SP] ++ snd c ++ [NL])) cs) ++ r) fin acc
  = rs_cmds_decode r fin (acc ++ cs).
Proof.
  induction cs as [|c cs IH]; intros r fin acc H; [cbn; now rewrite app_nil_r|].
  cbn [forallb] in H. apply andb_prop in H. destruct H as [H1 H2]. cbn [map app].
  rewrite (rs_cmd_step c _ fin acc H1), IH by assumption. now rewrite <- app_assoc.
Qed.

Theorem rs_roundtrip s : rs_ok s = true ->
  rs_decode (mksrc (map item_of (rs_encode s)) None) = inl s.
Proof.
  intros H. unfold rs_decode, rs_encode. cbn [s_items s_fin map].
  rewrite item_of_ne by (rewrite app_length; cbn; lia). cbn [snd].
  remember (B "unpack " ++ rs_unpack s ++ [NL]) as l eqn:El.
  destruct l as [|c l]; [apply (f_equal (@List.length N)) in El; rewrite app_length in El; cbn in El; lia|].
  rewrite El. change (B "unpack " ++ rs_unpack s ++ [NL]) with ((B "unpack" ++ SP :: rs_unpack s) ++ [NL]).
  rewrite trim_eol_app, (split_n2_nospace (B "unpack") _ eq_refl).
  change (beq (B "unpack") (B "unpack")) with true. cbv iota.
  rewrite map_app, rs_cmds_lines by exact H. cbn [map item_of rs_cmds_decode fst Z.eqb app].
  destruct s; reflexivity.
Qed.

Lemma rs_no_errline s : forallb no_errline (rs_encode s) = true.
Proof.
  unfold rs_encode. cbn [forallb]. rewrite forallb_app. cbn [forallb]. rewrite !andb_true_r.
  apply andb_true_intro. split; [reflexivity|].
  apply forallb_forall. intros p Hp. apply in_map_iff in Hp. destruct Hp as (c & <- & _).
  destruct (beq (snd c) OKb); reflexivity.
Qed.

(* ================= ServerResponse ================= *)
(* statuses 1..3 everywhere, except that the last ACK may be a plain one *)
Fixpoint sr_ok (acks : list ack) : bool :=
  match acks with
  | [] => true
  | [(h, st)] => hash_ok h && N.leb st 3
  | (h, st) :: r => hash_ok h && N.leb 1 st && N.leb st 3 && sr_ok r
  end.

Lemma status_str_clean st : (1 <= st <= 3)%N ->
  no_byte SP (status_str st) = true /\ clean_u (status_str st) = true /\
  (let s := status_str st in
   (if beq s (B "continue") then 1%N else if beq s (B "common") then 2%N else if beq s (B "ready") then 3%N else 0%N) = st).
Proof.
  intros H. assert (st = 1 \/ st = 2 \/ st = 3)%N as [-> | [-> | ->]] by lia; repeat split; reflexivity.
Qed.

Lemma hash_str_nospace h : hash_ok h = true -> no_byte SP (hash_str h) = true /\ N.eqb NL (last (hash_str h) 0%N) = false.
Proof.
  intros Hok. pose proof (hash_str_chars h Hok) as Hch. split.
  - unfold no_byte. rewrite forallb_forall in *. intros x Hx. destruct (hexchar_nonspace _ (Hch x Hx)) as (_ & _ & -> & _). reflexivity.
  - destruct (hexchar_nonspace _ (hexchar_last _ (hash_str_ne h Hok) Hch)) as (_ & -> & _). reflexivity.
Qed.

Lemma sr_status_step h st r fin acc : hash_ok h = true -> (1 <= st <= 3)%N ->
  sr_decode_go (item_of (PData (B "ACK " ++ hash_str h ++ [SP] ++ status_str st ++ [NL])) :: r) fin acc
  = sr_decode_go r fin (acc ++ [(h, st)]).
Proof.
  intros Hok Hst. destruct (hash_str_nospace h Hok) as [Hns Hnl]. destruct (status_str_clean st Hst) as (S1 & S2 & S3).
  pose proof (hash_str_length h Hok) as HL.
  rewrite item_of_ne by (rewrite app_length; cbn; lia). cbn [sr_decode_go snd].
  change (B "ACK " ++ hash_str h ++ [SP] ++ status_str st ++ [NL]) with (B "ACK" ++ SP :: hash_str h ++ SP :: status_str st ++ [NL]).
  remember (B "ACK" ++ SP :: hash_str h ++ SP :: status_str st ++ [NL]) as line eqn:El.
  assert (has_prefix (B "ACK") line = true) as Hp by (subst line; apply has_prefix_app).
  assert (split_on SP line = [B "ACK"; hash_str h; status_str st ++ [NL]]) as Hs.
  { subst line. rewrite (split_on_app SP (B "ACK") _ eq_refl), (split_on_app SP (hash_str h) _ Hns).
    rewrite split_on_nobyte; [reflexivity|]. unfold no_byte in *. rewrite forallb_app, S1. reflexivity. }
  assert (44 <= List.length line)%nat as Hlen.
  { subst line. rewrite app_length. cbn [List.length]. rewrite app_length, HL. unfold hash_hexsize, hash_size. destruct (h256 h); cbn; lia. }
  destruct line as [|c0 l0]; [cbn in Hlen; lia|]. rewrite Hp, Hs. cbn [List.length nth].
  destruct (Nat.ltb_spec (S (List.length l0)) 44); [cbn [List.length] in Hlen; lia|]. cbn [Nat.ltb Nat.leb orb].
  rewrite (trim_eol_id _ Hnl), (new_hash_str h Hok), (trim_u_clean _ S2). cbv zeta in S3. rewrite S3. reflexivity.
Qed.

Lemma sr_plain_step h r fin acc : hash_ok h = true ->
  sr_decode_go (item_of (PData (B "ACK " ++ hash_str h ++ [NL])) :: r) fin acc = inl (acc ++ [(h, 0%N)]).
Proof.
  intros Hok. destruct (hash_str_nospace h Hok) as [Hns Hnl]. pose proof (hash_str_length h Hok) as HL.
  rewrite item_of_ne by (rewrite app_length; cbn; lia). cbn [sr_decode_go snd].
  change (B "ACK " ++ hash_str h ++ [NL]) with (B "ACK" ++ SP :: hash_str h ++ [NL]).
  remember (B "ACK" ++ SP :: hash_str h ++ [NL]) as line eqn:El.
  assert (has_prefix (B "ACK") line = true) as Hp by (subst line; apply has_prefix_app).
  assert (split_on SP line = [B "ACK"; hash_str h ++ [NL]]) as Hs.
  { subst line. rewrite (split_on_app SP (B "ACK") _ eq_refl). rewrite split_on_nobyte; [reflexivity|].
    unfold no_byte in *. rewrite forallb_app, Hns. reflexivity. }
  assert (44 <= List.length line)%nat as Hlen.
  { subst line. rewrite app_length. cbn [List.length]. rewrite app_length, HL. unfold hash_hexsize, hash_size. destruct (h256 h); cbn; lia. }
  destruct line as [|c0 l0]; [cbn in Hlen; lia|]. rewrite Hp, Hs. cbn [List.length nth].
  destruct (Nat.ltb_spec (S (List.length l0)) 44); [cbn [List.length] in Hlen; lia|]. cbn [Nat.ltb Nat.leb orb].
  rewrite trim_eol_app, (new_hash_str h Hok). reflexivity.
Qed.

Lemma sr_go_roundtrip : forall acks multi acc, acks <> [] -> sr_ok acks = true ->
  (multi = true \/ acc = []) ->
  sr_decode_go (map item_of (sr_encode_go acks multi)) None acc = inl (acc ++ acks).
Proof.
  induction acks as [|[h st] acks IH]; intros multi acc Hne Hok Hm; [contradiction|].
  destruct acks as [|a2 acks].
  - cbn [sr_ok] in Hok. apply andb_prop in Hok. destruct Hok as [Hh Hs]. apply N.leb_le in Hs.
    cbn [sr_encode_go]. destruct (N.ltb_spec 0 st).
    + cbn [map]. rewrite sr_status_step by (auto; lia). reflexivity.
    + assert (st = 0%N) as -> by lia. destruct multi; cbn [map sr_encode_go]; now rewrite sr_plain_step.
  - change (sr_ok ((h, st) :: a2 :: acks)) with (hash_ok h && N.leb 1 st && N.leb st 3 && sr_ok (a2 :: acks)) in Hok.
    apply andb_prop in Hok. destruct Hok as [Hok H4]. apply andb_prop in Hok. destruct Hok as [Hok H3].
    apply andb_prop in Hok. destruct Hok as [Hh H1]. apply N.leb_le in H1, H3.
    remember (a2 :: acks) as rest eqn:Er.
    cbn [sr_encode_go]. destruct (N.ltb_spec 0 st); [|lia].
    cbn [map]. rewrite sr_status_step by (auto; lia). rewrite IH; [|subst rest; discriminate|assumption|now left].
    now rewrite <- app_assoc.
Qed.

Theorem sr_roundtrip acks : sr_ok acks = true ->
  sr_decode (mksrc (map item_of (sr_encode acks)) None) = inl acks.
Proof.
  intros H. unfold sr_decode, sr_encode. cbn [s_items s_fin]. destruct acks as [|a acks]; [reflexivity|].
  rewrite sr_go_roundtrip; [reflexivity|discriminate|assumption|now right].
Qed.

Lemma sr_no_errline acks : forallb no_errline (sr_encode acks) = true.
Proof.
  unfold sr_encode. destruct acks as [|a acks]; [reflexivity|]. generalize (a :: acks) false. clear.
  induction l as [|[h st] l IH]; intros multi; [reflexivity|]. cbn [sr_encode_go].
  destruct (N.ltb 0 st); cbn [forallb]; [now rewrite IH|]. destruct multi; [now rewrite IH|reflexivity].
Qed.
