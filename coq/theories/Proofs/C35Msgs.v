(* Proofs/C35Msgs.v — round trips of the line-oriented packp messages:
   ShallowUpdate, UploadHaves, PushOptions, ReportStatus, ServerResponse. *)
From Coq Require Import List NArith ZArith Bool Lia Arith String.
From GoGit Require Import Base.Out Base.GoInt Gen.C34 Model.PktLine Model.Packp
  Proofs.C34Stream Proofs.C34Hex Proofs.C34Pkt Proofs.C35Base.
Import ListNotations.

Arguments MaxSizeN : simpl never.
Opaque MaxSizeN.

Lemma item_of_ne b : (0 < List.length b)%nat -> item_of (PData b) = ((zlen b + 4)%Z, b).
Proof. destruct b; [cbn; lia|reflexivity]. Qed.

Lemma item_nz b : ((zlen b + 4 =? 0)%Z) = false.
Proof. unfold zlen. destruct (Z.eqb_spec (Z.of_nat (List.length b) + 4) 0); [lia|reflexivity]. Qed.

Lemma last_app_ne {A} (a b : list A) d : b <> [] -> last (a ++ b) d = last b d.
Proof.
  intros H. induction a as [|x a IH]; [reflexivity|].
  cbn [app]. assert (a ++ b <> []) as Hab by (destruct a; [assumption|discriminate]).
  destruct (a ++ b) as [|y l] eqn:E; [contradiction|].
  change (last (x :: y :: l) d) with (last (y :: l) d). exact IH.
Qed.

Lemma hexchar_last hx : hx <> [] -> forallb hexchar hx = true -> hexchar (last hx 0%N) = true.
Proof.
  intros Hne H. rewrite forallb_forall in H. apply H.
  destruct hx as [|x l]; [contradiction|]. clear. revert x. induction l as [|y l IH]; intros x; [now left|].
  right. apply IH.
Qed.

Lemma hexchar_nonspace c : hexchar c = true -> is_space c = false /\ N.eqb NL c = false /\ N.eqb c SP = false /\ N.eqb c NUL = false.
Proof.
  unfold hexchar. intros H. repeat (apply andb_prop in H; destruct H as [H ?]).
  repeat split; now apply negb_true_iff.
Qed.

(* a line "<prefix><hex>" : trimming a final newline / outer white space gives it back *)
Lemma clean_prefix_hex c pre hx : is_space c = false -> hx <> [] -> forallb hexchar hx = true ->
  clean_text (c :: pre ++ hx) = true.
Proof.
  intros Hc Hne Hh. unfold clean_text. rewrite Hc. cbn [negb andb].
  change (c :: pre ++ hx) with ((c :: pre) ++ hx). rewrite (last_app_ne _ hx _ Hne).
  destruct (hexchar_nonspace _ (hexchar_last hx Hne Hh)) as [-> _]. reflexivity.
Qed.

Lemma hash_str_ne h : hash_ok h = true -> hash_str h <> [].
Proof.
  intros H E. apply (f_equal (@List.length N)) in E. rewrite (hash_str_length h H) in E.
  unfold hash_hexsize, hash_size in E. destruct (h256 h); discriminate.
Qed.

Definition sha1_ok (h : hash) : bool := hash_ok h && negb (h256 h).

Lemma sha1_len h : sha1_ok h = true -> List.length (hash_str h) = 40%nat /\ hash_ok h = true.
Proof.
  unfold sha1_ok. intros H. apply andb_prop in H. destruct H as [H1 H2]. apply negb_true_iff in H2.
  split; [|assumption]. rewrite (hash_str_length h H1). unfold hash_hexsize, hash_size. now rewrite H2.
Qed.

(* ================= ShallowUpdate ================= *)
Lemma su_step (sh : bool) h r fin u : sha1_ok h = true ->
  su_decode_go (item_of (PData ((if sh then B "shallow " else B "unshallow ") ++ hash_str h ++ [NL])) :: r) fin u
  = su_decode_go r fin (if sh then mkshupd (su_shallows u ++ [h]) (su_unshallows u)
                        else mkshupd (su_shallows u) (su_unshallows u ++ [h])).
Proof.
  intros H. destruct (sha1_len h H) as [L Hok].
  pose proof (hash_str_ne h Hok) as Hne. pose proof (hash_str_chars h Hok) as Hch.
  rewrite item_of_ne by (rewrite app_length; destruct sh; cbn; lia).
  cbn [su_decode_go fst snd]. rewrite item_nz.
  destruct sh.
  - change (B "shallow " ++ hash_str h ++ [NL]) with ((115%N :: skipn 1 (B "shallow ") ++ hash_str h) ++ [NL]).
    rewrite (trim_clean _ (clean_prefix_hex 115 _ _ eq_refl Hne Hch)).
    change (115%N :: skipn 1 (B "shallow ") ++ hash_str h) with (B "shallow " ++ hash_str h).
    rewrite has_prefix_app, app_length, L. change (Nat.eqb (List.length (B "shallow ") + 40) 48) with true. cbv iota.
    change 8%nat with (List.length (B "shallow ")). rewrite skipn_app_len, (new_hash_str h Hok). reflexivity.
  - change (B "unshallow " ++ hash_str h ++ [NL]) with ((117%N :: skipn 1 (B "unshallow ") ++ hash_str h) ++ [NL]).
    rewrite (trim_clean _ (clean_prefix_hex 117 _ _ eq_refl Hne Hch)).
    change (117%N :: skipn 1 (B "unshallow ") ++ hash_str h) with (B "unshallow " ++ hash_str h).
    change (has_prefix (B "shallow ") (B "unshallow " ++ hash_str h)) with false. cbv iota.
    rewrite has_prefix_app, app_length, L. change (Nat.eqb (List.length (B "unshallow ") + 40) 50) with true. cbv iota.
    change 10%nat with (List.length (B "unshallow ")). rewrite skipn_app_len, (new_hash_str h Hok). reflexivity.
Qed.

Lemma su_decode_lines (sh : bool) : forall hs r fin u, forallb sha1_ok hs = true ->
  su_decode_go (map item_of (map (fun h => PData ((if sh then B "shallow " else B "unshallow ") ++ hash_str h ++ [NL])) hs) ++ r) fin u
  = su_decode_go r fin (if sh then mkshupd (su_shallows u ++ hs) (su_unshallows u)
                        else mkshupd (su_shallows u) (su_unshallows u ++ hs)).
Proof.
  induction hs as [|h hs IH]; intros r fin u H.
  - cbn [map app]. rewrite !app_nil_r. destruct sh, u; reflexivity.
  - cbn [forallb] in H. apply andb_prop in H. destruct H as [H1 H2].
    cbn [map app]. rewrite (su_step sh h _ fin u H1), (IH _ _ _ H2).
    destruct sh; cbn [su_shallows su_unshallows]; rewrite <- app_assoc; reflexivity.
Qed.

Theorem su_roundtrip u : forallb sha1_ok (su_shallows u) = true -> forallb sha1_ok (su_unshallows u) = true ->
  su_decode (mksrc (map item_of (su_encode u)) None) = inl u.
Proof.
  intros H1 H2. unfold su_decode, su_encode. cbn [s_items s_fin]. rewrite !map_app.
  rewrite (su_decode_lines true _ _ _ _ H1). cbn [su_shallows su_unshallows app].
  rewrite (su_decode_lines false _ _ _ _ H2). cbn [map item_of su_decode_go fst Z.eqb su_shallows su_unshallows app].
  destruct u; reflexivity.
Qed.

Lemma su_no_errline u : forallb no_errline (su_encode u) = true.
Proof.
  unfold su_encode. rewrite !forallb_app. repeat (apply andb_true_intro; split); try reflexivity;
  apply forallb_forall; intros p Hp; apply in_map_iff in Hp; destruct Hp as (h & <- & _); reflexivity.
Qed.
