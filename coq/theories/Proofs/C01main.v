(* Proofs/C01main.v — the statements of Properties/C01.v, proved from the
   lemmas of Proofs/C01.v. *)
From Coq Require Import List NArith ZArith Bool Arith Lia ZifyBool ZifyNat ZifyN.
From GoGit Require Import Base.Out Spec.SHA Gen.C01 Model.ObjFile Spec.LooseGit Proofs.SHA Proofs.C01.
Import ListNotations.
Local Open Scope N_scope.

Definition int64_size (z : Z) : bool := (0 <=? z)%Z && (z <? Z.of_N two63)%Z.

(* ---------- go-git's and git's header / ID are the same function ---------- *)
Lemma hdr_is_git t (c : bytes) : hdr t (blen c) = git_hdr t (nlen c).
Proof. unfold hdr, git_hdr, blen, nlen. now rewrite print_int_of_nat. Qed.

Lemma oid_is_git f t c : oid f t c = git_oid f t c.
Proof. unfold oid, git_oid, git_loose. now rewrite hdr_is_git. Qed.

Lemma compute_is_oid f t c : compute f t c = oid f t c.
Proof. reflexivity. Qed.

(* ---------- every write path, sizes consistent ---------- *)
Definition good_write (f : hfmt) (t : otype) (c : bytes) : wres :=
  mkR (Some (git_oid f t c)) None (Some (git_oid f t c, git_loose t c)).

Lemma path_raw_good f t chunks :
  type_valid t = true -> int64_size (blen (concat chunks)) = true ->
  path_raw f t (blen (concat chunks)) chunks = good_write f t (concat chunks).
Proof.
  intros Hv Hs. unfold int64_size in Hs. unfold path_raw.
  rewrite w_header_ok by (try assumption; lia).
  rewrite w_writes_fit by (cbn [w_pending]; lia). cbn [w_z w_h w_pending].
  unfold good_write, w_hash, hasher_sum. cbn [w_h w_z].
  rewrite <- oid_is_git. unfold oid, git_loose. now rewrite hdr_is_git.
Qed.

Lemma m_hash_fill f t chunks :
  snd (m_hash f (m_fill t (blen (concat chunks)) chunks)) = Some (oid f t (concat chunks)).
Proof.
  destruct (m_fill_spec t (blen (concat chunks)) chunks eq_refl) as (Ht & Hh & Hc & Hs).
  unfold m_hash. rewrite Hh, Hc, Hs, Z.eqb_refl, Ht. reflexivity.
Qed.

Lemma path_set_good f t chunks :
  type_git t = true -> int64_size (blen (concat chunks)) = true ->
  path_set f (m_fill t (blen (concat chunks)) chunks) = Some (good_write f t (concat chunks)).
Proof.
  intros Hg Hs. pose proof (type_git_valid t Hg) as Hv. unfold int64_size in Hs.
  destruct (m_fill_spec t (blen (concat chunks)) chunks eq_refl) as (Ht & Hh & Hc & Hsz).
  unfold path_set, path_set2. rewrite Ht, Hsz, Hc, Hg. cbn [negb].
  rewrite w_header_ok by (try assumption; lia).
  replace [concat chunks] with ([concat chunks] : list bytes) by reflexivity.
  rewrite w_writes_fit by (cbn [w_pending concat]; rewrite app_nil_r; lia).
  cbn [w_z w_h w_pending concat]. rewrite app_nil_r.
  rewrite m_hash_fill. unfold good_write, w_hash, hasher_sum. cbn [w_h w_z].
  rewrite <- oid_is_git. unfold oid, git_loose. now rewrite hdr_is_git.
Qed.

Lemma path_mem_good f t chunks :
  type_git t = true ->
  path_mem f (m_fill t (blen (concat chunks)) chunks) = mkR (Some (git_oid f t (concat chunks))) None None.
Proof.
  intros Hg. unfold path_mem. rewrite m_hash_fill, oid_is_git.
  destruct (m_fill_spec t (blen (concat chunks)) chunks eq_refl) as (Ht & _). now rewrite Ht, Hg.
Qed.

Lemma hasher_chunks : forall chunks h, fold_left hasher_write chunks h = h ++ concat chunks.
Proof.
  induction chunks as [|p chunks IH]; intros h; cbn [fold_left concat]; [now rewrite app_nil_r|].
  rewrite IH. unfold hasher_write. now rewrite app_assoc.
Qed.

Lemma hasher_good f t chunks :
  hasher_sum f (fold_left hasher_write chunks (hasher_new t (blen (concat chunks)))) = git_oid f t (concat chunks).
Proof. rewrite hasher_chunks, <- oid_is_git. reflexivity. Qed.

(* ---------- git reads what go-git writes ---------- *)
Lemma git_parse_hdr t n c :
  type_git t = true -> n < two64 -> git_parse (git_hdr t n ++ c) = Some (t, n, c).
Proof.
  intros Hg Hn. unfold git_parse, git_hdr, MAX_HEADER_LEN.
  pose proof (type_bytes_len_git t Hg) as Ht.
  pose proof (print_dec_length n 20 ltac:(lia) ltac:(pose proof two64_lt; lia)) as Hd.
  replace ((type_bytes t ++ [32] ++ print_dec n ++ [0]) ++ c)
    with ((type_bytes t ++ 32 :: print_dec n) ++ 0 :: c)
    by (rewrite <- !app_assoc; reflexivity).
  rewrite find_nul_app.
  - cbn [rev app]. rewrite split_sp_app by apply type_bytes_no_sp. cbn [rev app].
    now rewrite git_type_bytes, git_size_print.
  - apply Forall_app. split; [apply type_bytes_no_nul|].
    constructor; [discriminate | apply digits_no_nul, print_dec_digits].
  - rewrite app_length. cbn [List.length]. lia.
Qed.

Lemma git_read_loose t c :
  type_git t = true -> nlen c < two64 -> git_read (git_loose t c) = Some (t, c).
Proof.
  intros Hg Hn. unfold git_read, git_loose. rewrite git_parse_hdr by assumption. now rewrite N.eqb_refl.
Qed.

(* ---------- go-git reads what git writes ---------- *)
Lemma read_loose_git f t c :
  type_git t = true -> nlen c < two63 ->
  read_loose f (git_loose t c) = Ok (t, blen c, c, git_oid f t c).
Proof.
  intros Hg Hn. unfold read_loose, git_loose. rewrite <- hdr_is_git.
  rewrite read_header_hdr by (try (now apply type_git_valid); unfold blen, nlen in *; lia).
  unfold hasher_sum, hasher_write, hasher_new. rewrite <- oid_is_git. reflexivity.
Qed.

(* ---------- go-git's reader accepts every header git accepts ---------- *)
Lemma parse_int64_of_git_size sz n :
  git_size sz = Some n -> n < two63 -> parse_int64 sz = Some (Z.of_N n).
Proof.
  unfold git_size, parse_int64. destruct sz as [|c r]; [discriminate|].
  destruct (is_digit c) eqn:Hd; [|discriminate]. cbn [negb].
  assert (H43 : (c =? 43) = false) by (unfold is_digit in Hd; lia).
  assert (H45 : (c =? 45) = false) by (unfold is_digit in Hd; lia).
  rewrite H43, H45. cbn [parse_digits]. rewrite Hd.
  replace (10 * 0 + (c - 48)) with (c - 48) by lia.
  destruct (c =? 48) eqn:E0.
  - destruct r; [|discriminate]. intros [= <-] _. cbn [parse_digits].
    apply N.eqb_eq in E0. subst c. reflexivity.
  - intros Hg Hn. apply parse_of_git_digits in Hg. rewrite Hg.
    replace (two63 <=? n) with false by lia. reflexivity.
Qed.

Lemma read_header_of_git raw t n c :
  git_parse raw = Some (t, n, c) -> n < two63 -> read_header raw = Ok (t, Z.of_N n, c).
Proof.
  unfold git_parse, MAX_HEADER_LEN. intros Hp Hn.
  destruct (find_nul 32 raw []) as [[h content]|] eqn:Ef; [|discriminate].
  destruct (split_sp h []) as [[ty sz]|] eqn:Es; [|discriminate].
  destruct (git_type ty) as [t'|] eqn:Et; [|discriminate].
  destruct (git_size sz) as [n'|] eqn:Ez; [|discriminate].
  injection Hp as -> -> ->.
  apply find_nul_inv in Ef. destruct Ef as (pre & -> & -> & Hnonul & Hlen). cbn [rev app] in *.
  apply split_sp_inv in Es. destruct Es as (pre2 & -> & -> & Hnosp). cbn [rev app] in *.
  apply git_type_parse in Et. destruct Et as [Hpt _].
  rewrite app_length in Hlen. cbn [List.length] in Hlen.
  apply Forall_app in Hnonul. destruct Hnonul as [_ Hnonul]. inversion Hnonul as [|? ? _ Hnonul']; subst.
  unfold read_header. rewrite max_header_len_32. rewrite <- app_assoc. cbn [app].
  rewrite read_until_app by (try assumption; lia). cbn [rev app]. rewrite Hpt.
  rewrite read_until_app by (try assumption; lia). cbn [rev app].
  now rewrite (parse_int64_of_git_size _ _ Ez Hn).
Qed.

(* ---------- declared size differs from what is written ---------- *)
Lemma path_raw_short f t size chunks :
  type_git t = true -> (blen (concat chunks) < size)%Z -> (size < Z.of_N two63)%Z ->
  let raw := hdr t size ++ concat chunks in
  path_raw f t size chunks = mkR (Some (H f raw)) None (Some (H f raw, raw)) /\ git_read raw = None.
Proof.
  intros Hg Hlt Hsz raw. pose proof (blen_nonneg (concat chunks)) as Hb. split.
  - unfold path_raw. rewrite w_header_ok by (try (now apply type_git_valid); lia).
    rewrite w_writes_fit by (cbn [w_pending]; lia). reflexivity.
  - unfold git_read, raw. rewrite hdr_nonneg by lia. fold (git_hdr t (Z.to_N size)).
    replace (type_bytes t ++ 32 :: print_dec (Z.to_N size) ++ [0]) with (git_hdr t (Z.to_N size)) by reflexivity.
    rewrite git_parse_hdr by (try assumption; unfold two63, two64 in *; lia).
    replace (Z.to_N size =? nlen (concat chunks)) with false; [reflexivity|].
    unfold nlen, blen in *. lia.
Qed.

Lemma path_raw_over f t size chunks :
  type_git t = true -> (0 <= size)%Z -> (size < blen (concat chunks))%Z -> (size < Z.of_N two63)%Z ->
  let c' := firstn (Z.to_nat size) (concat chunks) in
  path_raw f t size chunks = mkR (Some (git_oid f t c')) (Some EOverflow) (Some (git_oid f t c', git_loose t c')).
Proof.
  intros Hg H0 Hlt Hsz c'. unfold path_raw.
  rewrite w_header_ok by (try (now apply type_git_valid); lia).
  rewrite w_writes_over by (cbn [w_pending]; lia). cbn [w_pending w_z w_h].
  fold c'. unfold w_hash, hasher_sum. cbn [w_h w_z].
  assert (Hc' : blen c' = size).
  { unfold c', blen. rewrite firstn_length. unfold blen in Hlt. lia. }
  rewrite <- oid_is_git. unfold oid, git_loose. rewrite <- hdr_is_git, Hc'. reflexivity.
Qed.

(* ---------- the lenient reader ---------- *)
Definition lenient_witness : bytes := [98;108;111;98;32;48;51;0;97;98;99].   (* "blob 03\0abc" *)

Lemma reader_lenient :
  read_header lenient_witness = Ok (TBlob, 3%Z, [97;98;99]) /\ git_parse lenient_witness = None.
Proof. split; vm_compute; reflexivity. Qed.

(* ---------- MemoryObject's cached hash ---------- *)
(* Hash(), then one more Write, then SetEncodedObject: the returned ID is the
   cached one, the file is stored under the hash of the real content *)
Definition stale_obj (f : hfmt) (t : otype) (c p : bytes) : memobj :=
  m_write (fst (m_hash f (m_fill t (blen c) [c]))) p.

Lemma memobj_stale :
  let f := FSha1 in let c := [97] in let p := [98] in
  match path_set f (stale_obj f TBlob c p) with
  | Some r => r_id r = Some (git_oid f TBlob c) /\
              r_file r = Some (git_oid f TBlob (c ++ p), git_loose TBlob (c ++ p)) /\
              git_oid f TBlob c <> git_oid f TBlob (c ++ p)
  | None => False
  end.
Proof. vm_compute. repeat split; discriminate. Qed.

(* ---------- statements of Properties/C01.v ---------- *)
Lemma thm_header_roundtrip : forall t z r,
  type_valid t = true -> int64_size z = true -> read_header (hdr t z ++ r) = Ok (t, z, r).
Proof. intros t z r Hv Hs. unfold int64_size in Hs. apply read_header_hdr; [assumption | lia]. Qed.

Lemma thm_budget : forall t z,
  int64_size z = true -> (List.length (hdr t z) <= max_header_len)%nat.
Proof.
  intros t z Hs. unfold int64_size in Hs. rewrite max_header_len_32.
  pose proof (hdr_length t z ltac:(lia)). lia.
Qed.

Lemma thm_writer_accepts : forall t z,
  type_valid t = true -> int64_size z = true -> w_header t z = Ok (mkW (hdr t z) (hdr t z) z).
Proof. intros t z Hv Hs. unfold int64_size in Hs. apply w_header_ok; [assumption | lia]. Qed.

Lemma thm_oid_is_git : forall f t c,
  oid f t c = git_oid f t c /\ compute f t c = git_oid f t c /\ hdr t (blen c) = git_hdr t (nlen c).
Proof. intros. repeat split; [apply oid_is_git | rewrite compute_is_oid; apply oid_is_git | apply hdr_is_git]. Qed.

Lemma thm_paths_agree : forall f t chunks,
  type_git t = true -> int64_size (blen (concat chunks)) = true ->
  let c := concat chunks in let size := blen c in
  path_raw f t size chunks = good_write f t c /\
  path_lazy f t size chunks = good_write f t c /\
  path_set f (m_fill t size chunks) = Some (good_write f t c) /\
  path_set f (m_fill TBlob size [c]) = Some (good_write f TBlob c) /\      (* worktree Add *)
  path_mem f (m_fill t size chunks) = mkR (Some (git_oid f t c)) None None /\
  hasher_sum f (fold_left hasher_write chunks (hasher_new t size)) = git_oid f t c.
Proof.
  intros f t chunks Hg Hs c size. pose proof (type_git_valid t Hg) as Hv.
  repeat split.
  - now apply path_raw_good.
  - now apply path_raw_good.
  - now apply path_set_good.
  - pose proof (path_set_good f TBlob [c] eq_refl) as P. cbn [concat] in P.
    rewrite app_nil_r in P. now apply P.
  - now apply path_mem_good.
  - apply hasher_good.
Qed.

Lemma thm_git_reads : forall f t chunks,
  type_git t = true -> int64_size (blen (concat chunks)) = true ->
  match r_file (path_raw f t (blen (concat chunks)) chunks) with
  | Some (name, raw) => git_read raw = Some (t, concat chunks) /\ name = H f raw
  | None => False
  end.
Proof.
  intros f t chunks Hg Hs. rewrite path_raw_good by (try (now apply type_git_valid); assumption).
  cbn [good_write r_file]. split; [|reflexivity].
  apply git_read_loose; [assumption|]. unfold int64_size, blen, nlen, two63, two64 in *. lia.
Qed.

Lemma thm_reader_lenient_refuted :
  ~ (forall raw x, read_header raw = Ok x -> git_parse raw <> None).
Proof.
  intros Hall. destruct reader_lenient as [Hr Hg]. exact (Hall _ _ Hr Hg).
Qed.

Lemma thm_memobj_fresh : forall f t chunks,
  snd (m_hash f (m_fill t (blen (concat chunks)) chunks)) = Some (git_oid f t (concat chunks)).
Proof. intros. rewrite m_hash_fill. f_equal. apply oid_is_git. Qed.

Lemma thm_memobj_stale_refuted :
  ~ (forall f o r, path_set f o = Some r -> r_err r = None ->
       match r_file r with Some (name, _) => r_id r = Some name | None => True end).
Proof.
  intros Hall. pose proof memobj_stale as W. cbv zeta in W.
  destruct (path_set FSha1 (stale_obj FSha1 TBlob [97] [98])) as [r|] eqn:E; [|contradiction].
  destruct W as (Hid & Hfile & Hne).
  specialize (Hall _ _ _ E). rewrite Hfile, Hid in Hall.
  assert (He : r_err r = None).
  { revert E. vm_compute. intros [= <-]. reflexivity. }
  specialize (Hall He). congruence.
Qed.

Lemma thm_digest_shape : forall f m,
  List.length (H f m) = hsize f /\ Forall (fun b => b < 256) (H f m).
Proof. intros f m. split; [apply H_length | destruct f; [apply sha1_bytes | apply sha256_bytes]]. Qed.

Lemma thm_sha_extend : forall k a1 a2,
  List.length a1 = (64 * k)%nat -> List.length a2 = (64 * k)%nat ->
  (sha1_state a1 = sha1_state a2 -> forall s, sha1 (a1 ++ s) = sha1 (a2 ++ s)) /\
  (sha256_state a1 = sha256_state a2 -> forall s, sha256 (a1 ++ s) = sha256 (a2 ++ s)).
Proof. intros k a1 a2 H1 H2. split; intros E; [now apply (sha1_extend k) | now apply (sha256_extend k)]. Qed.


(* ---------- chunking independence, for every declared size ---------- *)
Lemma w_header_pending t size st : w_header t size = Ok st -> (0 <= w_pending st)%Z.
Proof.
  unfold w_header. destruct (negb (type_valid t)); [discriminate|].
  destruct (size <? 0)%Z eqn:E; [discriminate|].
  destruct (Nat.ltb max_header_len _); [discriminate|]. intros [= <-]. cbn [w_pending]. lia.
Qed.

Lemma thm_chunking_independent f t size c1 c2 :
  concat c1 = concat c2 -> path_raw f t size c1 = path_raw f t size c2.
Proof.
  intros E. unfold path_raw. destruct (w_header t size) as [st|e] eqn:Hh; [|reflexivity].
  pose proof (w_header_pending _ _ _ Hh) as Hp.
  destruct (Z_le_gt_dec (blen (concat c1)) (w_pending st)) as [Hfit|Hover].
  - rewrite (w_writes_fit c1) by assumption. rewrite E in Hfit.
    rewrite (w_writes_fit c2) by assumption. now rewrite E.
  - rewrite (w_writes_over c1) by lia. rewrite E in Hover.
    rewrite (w_writes_over c2) by lia. now rewrite E.
Qed.

(* ---------- what the reader accepts, exactly ---------- *)
Definition header_shape (raw : bytes) (t : otype) (n : Z) (c : bytes) : Prop :=
  exists ty sz,
    raw = ty ++ 32 :: sz ++ 0 :: c /\
    Forall (fun b => b <> 32) ty /\ Forall (fun b => b <> 0) sz /\
    (List.length ty + List.length sz + 2 <= max_header_len)%nat /\
    parse_type ty = Some t /\ parse_int64 sz = Some n.

Lemma thm_read_header_spec raw t n c :
  read_header raw = Ok (t, n, c) <-> header_shape raw t n c.
Proof.
  split.
  - unfold read_header. intros Hr.
    destruct (read_until 32 max_header_len raw []) as [[[ty b] r1]|e] eqn:E1; [|discriminate].
    destruct (parse_type ty) as [t'|] eqn:Et; [|discriminate].
    destruct (read_until 0 b r1 []) as [[[sz b2] r2]|e] eqn:E2; [|discriminate].
    destruct (parse_int64 sz) as [n'|] eqn:En; [|discriminate].
    injection Hr as -> -> ->.
    apply read_until_inv in E1. destruct E1 as (pre1 & -> & -> & Hno1 & Hl1 & ->).
    apply read_until_inv in E2. destruct E2 as (pre2 & -> & -> & Hno2 & Hl2 & _).
    cbn [rev app] in *. exists pre1, pre2. repeat split; try assumption. lia.
  - intros (ty & sz & -> & Hno1 & Hno2 & Hlen & Hpt & Hpi).
    unfold read_header.
    rewrite read_until_app by (try assumption; lia). cbn [rev app]. rewrite Hpt.
    rewrite read_until_app by (try assumption; lia). cbn [rev app]. now rewrite Hpi.
Qed.

(* ---------- the format every write path hashes with ---------- *)
Definition fs_inv (st : fs_state) : Prop :=
  fs_dir st = fs_oh st /\ fs_oh st = fs_opts st /\ (fs_cfg st <> CUnset -> fs_dir st = hfmt_of (fs_cfg st)).

Definition fmt_step (cur of : cfmt) : cfmt := match of with CUnset => cur | _ => of end.

Lemma cfmt_eqb_eq a b : cfmt_eqb a b = true -> a = b.
Proof. destruct a, b; cbn; congruence. Qed.

Lemma fs_new_inv opt file :
  fs_inv (fs_new opt file) /\ fs_dir (fs_new opt file) = hfmt_of (match file with Some c => c | None => opt end).
Proof. destruct file as [c|]; [destruct c | destruct opt]; cbn; repeat split; congruence. Qed.

Lemma fs_set_inv st d of :
  fs_inv st -> fs_dir st = hfmt_of d ->
  fs_inv (fs_set_format st of) /\ fs_dir (fs_set_format st of) = hfmt_of (fmt_step d of).
Proof.
  intros (H1 & H2 & H3) Hd. destruct of; cbn [fs_set_format fmt_step].
  - repeat split; assumption.
  - destruct (cfmt_eqb (fs_cfg st) CSha1) eqn:E.
    + apply cfmt_eqb_eq in E. repeat split; try assumption. rewrite <- E. apply H3. congruence.
    + cbn. repeat split; congruence.
  - destruct (cfmt_eqb (fs_cfg st) CSha256) eqn:E.
    + apply cfmt_eqb_eq in E. repeat split; try assumption. rewrite <- E. apply H3. congruence.
    + cbn. repeat split; congruence.
Qed.

Lemma fs_fold_inv : forall ofs st d,
  fs_inv st -> fs_dir st = hfmt_of d ->
  fs_inv (fold_left fs_set_format ofs st) /\
  fs_dir (fold_left fs_set_format ofs st) = hfmt_of (fold_left fmt_step ofs d).
Proof.
  induction ofs as [|of ofs IH]; intros st d Hi Hd; cbn [fold_left]; [now split|].
  destruct (fs_set_inv st d of Hi Hd) as [Hi' Hd']. now apply IH.
Qed.

Lemma fs_run_format opt file ofs :
  let st := fs_run opt file ofs in
  fs_dir st = repo_format opt file ofs /\ fs_oh st = repo_format opt file ofs /\ fs_opts st = repo_format opt file ofs.
Proof.
  cbv zeta. unfold fs_run, repo_format, last_format.
  destruct (fs_new_inv opt file) as [Hi Hd].
  destruct (fs_fold_inv ofs _ _ Hi Hd) as [(H1 & H2 & _) Hf].
  fold fmt_step. repeat split; congruence.
Qed.

Lemma ms_fold : forall ofs st,
  ms_oh st = hfmt_of (ms_opts st) ->
  ms_oh (fold_left ms_set_format ofs st) = hfmt_of (fold_left fmt_step ofs (ms_opts st)).
Proof.
  induction ofs as [|of ofs IH]; intros st Hs; cbn [fold_left]; [assumption|].
  destruct of; cbn [ms_set_format fmt_step].
  - now apply IH.
  - destruct (cfmt_eqb (ms_opts st) CSha1) eqn:E.
    + apply cfmt_eqb_eq in E. rewrite <- E. now apply IH.
    + apply (IH (mkMS CSha1 (hfmt_of CSha1))). reflexivity.
  - destruct (cfmt_eqb (ms_opts st) CSha256) eqn:E.
    + apply cfmt_eqb_eq in E. rewrite <- E. now apply IH.
    + apply (IH (mkMS CSha256 (hfmt_of CSha256))). reflexivity.
Qed.

Lemma ms_run_format opt ofs : ms_oh (ms_run opt ofs) = hfmt_of (last_format ofs opt).
Proof. unfold ms_run, last_format. fold fmt_step. now rewrite ms_fold. Qed.

Lemma thm_format_current opt file ofs t chunks :
  type_git t = true -> int64_size (blen (concat chunks)) = true ->
  let c := concat chunks in let size := blen c in
  let st := fs_run opt file ofs in let f := repo_format opt file ofs in
  st_raw st t size chunks = good_write f t c /\
  st_set st (m_fill t size chunks) = Some (good_write f t c) /\
  st_set st (m_fill TBlob size [c]) = Some (good_write f TBlob c) /\
  st_mem (ms_run opt ofs) (m_fill t size chunks) = mkR (Some (git_oid (hfmt_of (last_format ofs opt)) t c)) None None.
Proof.
  intros Hg Hs c size st f.
  destruct (fs_run_format opt file ofs) as (Hd & Ho & _). fold st f in Hd, Ho.
  unfold st_raw, st_set, st_mem. rewrite Hd, Ho, ms_run_format.
  repeat split.
  - apply path_raw_good; [now apply type_git_valid | assumption].
  - now apply path_set_good.
  - pose proof (path_set_good f TBlob [c] eq_refl) as P. cbn [concat] in P.
    rewrite app_nil_r in P. now apply P.
  - now apply path_mem_good.
Qed.

(* a storage whose object hasher lags behind the other fields (what an
   out-of-order SetObjectFormat would leave) is NOT harmless: the ID returned
   by SetEncodedObject is not the name the file is stored under *)
Lemma lagging_hasher :
  let st := mkFS CSha256 FSha256 FSha1 FSha256 in
  match st_set st (m_fill TBlob 1 [[97]]) with
  | Some r => r_err r = None /\
              r_id r = Some (git_oid FSha1 TBlob [97]) /\
              r_file r = Some (git_oid FSha256 TBlob [97], git_loose TBlob [97])
  | None => False
  end.
Proof. vm_compute. repeat split. Qed.
