(* Proofs/C37Paint.v — the painted walk: phase 1 (time-ordered queue with
   want/have paint and the early stop), the deferred missing-parent check, and
   phase 2 (per-commit tree diffs). *)
From Coq Require Import List NArith ZArith Bool Lia.
From GoGit Require Import Model.RevList Spec.ObjReach Proofs.C37Queue Proofs.C37Trees Proofs.C37Seed Proofs.C37Full.
Import ListNotations.
Local Open Scope N_scope.

Section Paint.
  Variable st : store.
  Variable sh : list oid.
  Variables wants haves : list oid.
  Hypothesis Hwf : wf_store st = true.

  Notation Had := (Had st sh haves).
  Notation I1 := (I1 st sh haves).
  Notation Wanted := (Wanted st sh wants).
  Notation cok := (cok st).

  Definition in_q (q : list cinfo) (x : oid) : Prop := exists c, In c q /\ c_id c = x.

  (* the phase-1 invariant; [exc] is the commit just popped, whose own
     parents are being painted *)
  Record pinv (exc : option oid) (p : paint) (newc : list cinfo) : Prop := {
    pi_q : forall c, In c (p_q p) -> cok c;
    pi_newc : forall c, In c newc -> cok c /\ In (c_id c) (p_w p);
    pi_w : forall x, In x (p_w p) -> Wanted x;
    pi_h : forall x, In x (p_h p) -> Had x;
    pi_J : forall x t ps tm, In x (p_w p) -> Some x <> exc -> get_commit st x = Some (t, ps, tm) ->
             In x (p_h p) \/ in_q (p_q p) x \/
             (in_q newc x /\ (mem x sh = true \/ forall q, In q ps -> In q (p_w p)));
    pi_M : forall x, In x (p_w p) -> get_commit st x = None ->
             exists c, In (x, c) (p_miss p) /\ child st sh c x }.

  Definition pext (p p' : paint) : Prop :=
    incl (p_w p) (p_w p') /\ incl (p_h p) (p_h p') /\ incl (p_q p) (p_q p') /\ incl (p_miss p) (p_miss p').

  Lemma pext_refl : forall p, pext p p.
  Proof. intros; repeat split; apply incl_refl. Qed.
  Lemma pext_trans : forall a b c, pext a b -> pext b c -> pext a c.
  Proof. intros a b c (A1 & A2 & A3 & A4) (B1 & B2 & B3 & B4); repeat split; eapply incl_tran; eauto. Qed.

  Lemma in_q_incl : forall q q' x, incl q q' -> in_q q x -> in_q q' x.
  Proof. intros q q' x H (c & A & B). exists c. split; [now apply H | exact B]. Qed.

  Lemma propagate_spec : forall fw fh lcid allps ps p newc exc,
    incl ps allps -> (forall q, In q allps -> child st sh lcid q) ->
    (fw = true -> In lcid (p_w p)) -> (fh = true -> In lcid (p_h p)) ->
    pinv exc p newc ->
    let p' := propagate st fw fh lcid ps p in
    pinv exc p' newc /\ pext p p' /\ (fw = true -> forall q, In q ps -> In q (p_w p')).
  Proof.
    intros fw fh lcid allps ps. induction ps as [|ph r IH]; intros p newc exc Hinc Hch Hw Hh Inv; cbn [propagate].
    - split; [exact Inv|]. split; [apply pext_refl | intros _ q []].
    - assert (Hinc' : incl r allps) by (intros x Hx; apply Hinc; now right).
      assert (Hcp : child st sh lcid ph) by (apply Hch, Hinc; now left).
      destruct (implb fw (mem ph (p_w p)) && implb fh (mem ph (p_h p))) eqn:SK.
      + destruct (IH p newc exc Hinc' Hch Hw Hh Inv) as (A & B & C). split; [exact A|]. split; [exact B|].
        intros F q [<-|Hq]; [|now apply C].
        apply andb_true_iff in SK. destruct SK as [SK _]. rewrite F in SK. cbn in SK. apply mem_In in SK.
        apply (proj1 B). exact SK.
      + set (w' := if fw && negb (mem ph (p_w p)) then ph :: p_w p else p_w p).
        set (h' := if fh && negb (mem ph (p_h p)) then ph :: p_h p else p_h p).
        assert (Ww : incl (p_w p) w') by (unfold w'; destruct (fw && negb (mem ph (p_w p))); [apply incl_tl|]; apply incl_refl).
        assert (Wh : incl (p_h p) h') by (unfold h'; destruct (fh && negb (mem ph (p_h p))); [apply incl_tl|]; apply incl_refl).
        assert (Wph : fw = true -> In ph w').
        { intro F. unfold w'. rewrite F. cbn. destruct (mem ph (p_w p)) eqn:M; cbn; [now apply mem_In | now left]. }
        assert (Nw : forall x, In x w' -> In x (p_w p) \/ (x = ph /\ fw = true)).
        { intros x Hx. unfold w' in Hx. destruct fw; cbn in Hx; [|now left].
          destruct (mem ph (p_w p)); cbn in Hx; [now left|]. destruct Hx as [<-|]; [right; auto | now left]. }
        assert (Nh : forall x, In x h' -> In x (p_h p) \/ (x = ph /\ fh = true)).
        { intros x Hx. unfold h' in Hx. destruct fh; cbn in Hx; [|now left].
          destruct (mem ph (p_h p)); cbn in Hx; [now left|]. destruct Hx as [<-|]; [right; auto | now left]. }
        assert (Wwanted : forall x, In x w' -> Wanted x).
        { intros x Hx. destruct (Nw x Hx) as [|[-> F]]; [now apply (pi_w _ _ _ Inv)|].
          eapply Wanted_closed; [apply (pi_w _ _ _ Inv), Hw, F | now apply reach_child]. }
        assert (Hhad : forall x, In x h' -> Had x).
        { intros x Hx. destruct (Nh x Hx) as [|[-> F]]; [now apply (pi_h _ _ _ Inv)|].
          eapply Had_closed; [apply (pi_h _ _ _ Inv), Hh, F | now apply reach_child]. }
        destruct (get_commit st ph) as [[[t pps] tm]|] eqn:G.
        * (* stored parent: queued *)
          set (p1 := mkP w' h' (insert_sorted (p_q p) (mkC ph t pps tm)) (p_miss p)).
          assert (Qi : incl (p_q p) (p_q p1)) by (intros c Hc; cbn; apply insert_sorted_In; now right).
          assert (Inv1 : pinv exc p1 newc).
          { constructor; cbn.
            - intros c Hc. apply insert_sorted_In in Hc. destruct Hc as [->|Hc]; [exact G | now apply (pi_q _ _ _ Inv)].
            - intros c Hc. destruct (pi_newc _ _ _ Inv c Hc). split; [assumption | now apply Ww].
            - exact Wwanted.
            - exact Hhad.
            - intros x t0 ps0 tm0 Hx Hne Gx. destruct (Nw x Hx) as [Hx'|[-> F]].
              + destruct (pi_J _ _ _ Inv x t0 ps0 tm0 Hx' Hne Gx) as [A|[A|[A B]]].
                * left. now apply Wh.
                * right. left. eapply in_q_incl; [exact Qi | exact A].
                * right. right. split; [exact A|]. destruct B as [B|B]; [now left | right; intros q Hq; apply Ww, B, Hq].
              + right. left. exists (mkC ph t pps tm). split; [apply insert_sorted_In; now left | reflexivity].
            - intros x Hx Gx. destruct (Nw x Hx) as [Hx'|[-> F]]; [now apply (pi_M _ _ _ Inv) | congruence]. }
          assert (Hw1 : fw = true -> In lcid (p_w p1)) by (intro F; cbn; apply Ww, Hw, F).
          assert (Hh1 : fh = true -> In lcid (p_h p1)) by (intro F; cbn; apply Wh, Hh, F).
          destruct (IH p1 newc exc Hinc' Hch Hw1 Hh1 Inv1) as (A & B & C). split; [exact A|]. split.
          -- eapply pext_trans; [|exact B]. repeat split; cbn; auto using incl_refl.
          -- intros F q [<-|Hq]; [|now apply C]. apply (proj1 B). cbn. now apply Wph.
        * (* parent not stored: recorded *)
          set (p1 := mkP w' h' (p_q p) (p_miss p ++ [(ph, lcid)])).
          assert (Inv1 : pinv exc p1 newc).
          { constructor; cbn.
            - apply (pi_q _ _ _ Inv).
            - intros c Hc. destruct (pi_newc _ _ _ Inv c Hc). split; [assumption | now apply Ww].
            - exact Wwanted.
            - exact Hhad.
            - intros x t0 ps0 tm0 Hx Hne Gx. destruct (Nw x Hx) as [Hx'|[-> F]]; [|congruence].
              destruct (pi_J _ _ _ Inv x t0 ps0 tm0 Hx' Hne Gx) as [A|[A|[A B]]].
              + left. now apply Wh.
              + right. now left.
              + right. right. split; [exact A|]. destruct B as [B|B]; [now left | right; intros q Hq; apply Ww, B, Hq].
            - intros x Hx Gx. destruct (Nw x Hx) as [Hx'|[-> F]].
              + destruct (pi_M _ _ _ Inv x Hx' Gx) as (c & A & B). exists c. split; [apply in_or_app; now left | exact B].
              + exists lcid. split; [apply in_or_app; right; now left | exact Hcp]. }
          assert (Hw1 : fw = true -> In lcid (p_w p1)) by (intro F; cbn; apply Ww, Hw, F).
          assert (Hh1 : fh = true -> In lcid (p_h p1)) by (intro F; cbn; apply Wh, Hh, F).
          destruct (IH p1 newc exc Hinc' Hch Hw1 Hh1 Inv1) as (A & B & C). split; [exact A|]. split.
          -- eapply pext_trans; [|exact B]. repeat split; cbn; auto using incl_refl. apply incl_appl, incl_refl.
          -- intros F q [<-|Hq]; [|now apply C]. apply (proj1 B). cbn. now apply Wph.
  Qed.

  Lemma propagate_w_false : forall fh c ps p, p_w (propagate st false fh c ps p) = p_w p.
  Proof.
    induction ps as [|ph r IH]; intros p; cbn [propagate]; [reflexivity|].
    destruct (implb false (mem ph (p_w p)) && implb fh (mem ph (p_h p))); [apply IH|].
    cbn [andb]. destruct (get_commit st ph) as [[[t pps] tm]|]; rewrite IH; reflexivity.
  Qed.

  Lemma all_stale_spec : forall q p, all_stale q p = true ->
    forall c, In c q -> In (c_id c) (p_w p) /\ In (c_id c) (p_h p).
  Proof.
    intros q p H c Hc. unfold all_stale in H. rewrite forallb_forall in H. specialize (H c Hc).
    apply andb_true_iff in H. destruct H as [A B]. split; now apply mem_In.
  Qed.

  (* phase 1: on return every want-painted stored commit is have-painted, or is
     a recorded new commit all of whose parents (unless it is shallow) are
     want-painted *)
  Definition settled (p : paint) (newc : list cinfo) : Prop :=
    forall x t ps tm, In x (p_w p) -> get_commit st x = Some (t, ps, tm) ->
      In x (p_h p) \/ (in_q newc x /\ (mem x sh = true \/ forall q, In q ps -> In q (p_w p))).

  Lemma paint_loop_spec : forall fuel p newc p' newc',
    paint_loop fuel st sh p newc = Ok (p', newc') -> pinv None p newc ->
    pinv None p' newc' /\ settled p' newc' /\ incl (p_w p) (p_w p').
  Proof.
    induction fuel as [|f IH]; intros p newc p' newc' H Inv; cbn [paint_loop] in H; [discriminate|].
    destruct (p_q p) as [|lc q] eqn:Q.
    - inversion H; subst. split; [exact Inv|]. split; [|apply incl_refl].
      intros x t ps tm Hx G.
      destruct (pi_J _ _ _ Inv x t ps tm Hx ltac:(discriminate) G) as [A|[(c & Hc & _)|A]]; [now left | | now right].
      rewrite Q in Hc. contradiction.
    - set (fw := mem (c_id lc) (p_w p)) in *. set (fh := mem (c_id lc) (p_h p)) in *.
      set (newc1 := if fw && negb fh then newc ++ [lc] else newc) in *.
      set (p0 := mkP (p_w p) (p_h p) q (p_miss p)) in *.
      assert (Hlc : cok lc) by (apply (pi_q _ _ _ Inv); rewrite Q; now left).
      (* the invariant with lc excepted *)
      assert (Inv0 : pinv (Some (c_id lc)) p0 newc1).
      { constructor; cbn.
        - intros c Hc. apply (pi_q _ _ _ Inv). rewrite Q. now right.
        - intros c Hc. unfold newc1 in Hc. destruct (fw && negb fh) eqn:F.
          + apply in_app_or in Hc. destruct Hc as [Hc|[<-|[]]]; [now apply (pi_newc _ _ _ Inv)|].
            split; [exact Hlc|]. apply andb_true_iff in F. destruct F as [F _]. now apply mem_In.
          + now apply (pi_newc _ _ _ Inv).
        - apply (pi_w _ _ _ Inv).
        - apply (pi_h _ _ _ Inv).
        - intros x t ps tm Hx Hne G.
          assert (Hne0 : Some x <> None) by discriminate.
          destruct (pi_J _ _ _ Inv x t ps tm Hx Hne0 G) as [A|[(c & Hc & E)|[A B]]].
          + now left.
          + rewrite Q in Hc. destruct Hc as [<-|Hc]; [congruence|]. right. left. exists c. auto.
          + right. right. split; [|exact B]. destruct A as (c & Hc & E). exists c. split; [|exact E].
            unfold newc1. destruct (fw && negb fh); [apply in_or_app; now left | exact Hc].
        - apply (pi_M _ _ _ Inv). }
      assert (Hch : forall q0, mem (c_id lc) sh = false -> In q0 (c_parents lc) -> child st sh (c_id lc) q0).
      { intros q0 S Hq0. eapply ch_parent; [apply get_commit_get; exact Hlc | exact S | exact Hq0]. }
      set (p1 := if mem (c_id lc) sh then p0 else propagate st fw fh (c_id lc) (c_parents lc) p0) in *.
      assert (Step : pinv None p1 newc1 /\ pext p0 p1).
      { assert (Hfw : fw = true -> In (c_id lc) (p_w p0)) by (intro F; cbn; now apply mem_In).
        assert (Hfh : fh = true -> In (c_id lc) (p_h p0)) by (intro F; cbn; now apply mem_In).
        assert (Core : pinv (Some (c_id lc)) p1 newc1 /\ pext p0 p1 /\
                       (mem (c_id lc) sh = true \/ (fw = true -> forall q0, In q0 (c_parents lc) -> In q0 (p_w p1)))).
        { unfold p1. destruct (mem (c_id lc) sh) eqn:S.
          - split; [exact Inv0|]. split; [apply pext_refl | now left].
          - destruct (propagate_spec fw fh (c_id lc) (c_parents lc) (c_parents lc) p0 newc1 (Some (c_id lc))
                       (incl_refl _) (fun q0 Hq0 => Hch q0 eq_refl Hq0) Hfw Hfh Inv0) as (A & B & C).
            split; [exact A|]. split; [exact B | right; exact C]. }
        destruct Core as (A & B & C). split; [|exact B].
        destruct A as [a1 a2 a3 a4 a5 a6]. constructor; auto.
        intros x t ps tm Hx _ G. destruct (N.eq_dec x (c_id lc)) as [->|Hne].
        - (* the popped commit itself *)
          unfold cok in Hlc. rewrite Hlc in G. inversion G; subst t ps tm.
          destruct fh eqn:Fh.
          + left. apply (proj1 (proj2 B)). cbn. now apply mem_In.
          + right. right.
            assert (Fw : fw = true).
            { destruct fw eqn:Fw; [reflexivity|]. exfalso.
              assert (E : p_w p1 = p_w p).
              { unfold p1. destruct (mem (c_id lc) sh); [reflexivity|]. now rewrite propagate_w_false. }
              rewrite E in Hx. apply mem_In in Hx. unfold fw in Fw. congruence. }
            split.
            * exists lc. split; [|reflexivity]. unfold newc1. rewrite Fw. cbn. apply in_or_app. right. now left.
            * destruct C as [C|C]; [now left | right; now apply C].
        - apply (a5 x t ps tm); auto. congruence. }
      destruct Step as [Inv1 Ext1].
      assert (Wext : incl (p_w p) (p_w p1)) by (apply (proj1 Ext1)).
      destruct (all_stale (p_q p1) p1) eqn:AS.
      + inversion H; subst. split; [exact Inv1|]. split; [|exact Wext].
        intros x t ps tm Hx G.
        destruct (pi_J _ _ _ Inv1 x t ps tm Hx ltac:(discriminate) G) as [A|[(c & Hc & E)|A]]; [now left | | now right].
        left. subst x. apply (all_stale_spec _ _ AS c Hc).
      + destruct (IH _ _ _ _ H Inv1) as (A & B & C). split; [exact A|]. split; [exact B|].
        eapply incl_tran; eauto.
  Qed.

  (* ---------------- phase 2 ---------------- *)
  Lemma parent_trees_spec : forall ps olds, parent_trees st ps = Ok olds ->
    olds_ok st olds /\
    forall old, In old olds -> exists p pps tm, In p ps /\ get_commit st p = Some (fst old, pps, tm).
  Proof.
    induction ps as [|p ps IH]; intros olds H; cbn [parent_trees] in H.
    - inversion H; subst. split; [intros x [] | intros x []].
    - destruct (get_commit st p) as [[[t pps] tm]|] eqn:G.
      + destruct (get_tree st t) as [es|] eqn:T; [|discriminate].
        destruct (parent_trees st ps) as [l|] eqn:R; [|discriminate]. inversion H; subst.
        destruct (IH _ eq_refl) as [A B]. split.
        * intros x [<-|Hx]; [exact T | now apply A].
        * intros x [<-|Hx]; [exists p, pps, tm; split; [now left | exact G]|].
          destruct (B x Hx) as (p0 & a & b & Hp & E). exists p0, a, b. split; [now right | exact E].
      + destruct (IH _ H) as [A B]. split; [exact A|].
        intros x Hx. destruct (B x Hx) as (p0 & a & b & Hp & E). exists p0, a, b. split; [now right | exact E].
  Qed.

  (* below the tree of a stored parent of c (c not shallow) *)
  Definition par_below (c : cinfo) (o : oid) : Prop :=
    mem (c_id c) sh = false /\
    exists p tp pps tm, In p (c_parents c) /\ get_commit st p = Some (tp, pps, tm) /\ reach st sh tp o.

  Record pc_post (lc : cinfo) (s s' : wstate) : Prop := {
    pc_mono : mono s s';
    pc_I1 : I1 s';
    pc_nd : RS s' /\ NoDup (snd s');
    pc_in : In (c_id lc) (fst s');
    pc_prov : forall x, In x (snd s') -> In x (snd s) \/ x = c_id lc \/ reach st sh (c_tree lc) x;
    pc_cover : forall o, reach st sh (c_tree lc) o -> In o (snd s') \/ Had o \/ par_below lc o }.

  Lemma process_commit_spec : forall lc s s',
    process_commit st sh lc s = Ok s' -> cok lc -> I1 s -> RS s -> NoDup (snd s) -> pc_post lc s s'.
  Proof.
    intros lc s s' H Hok HI HR HN. unfold process_commit in H.
    set (s1 := if mem (c_id lc) (fst s) then s else emit (c_id lc) s) in *.
    destruct (get_tree st (c_tree lc)) as [es|] eqn:T; [|discriminate].
    destruct (parent_trees st (if mem (c_id lc) sh then [] else c_parents lc)) as [olds|] eqn:PT; [|discriminate].
    destruct (parent_trees_spec _ _ PT) as [Ook Opar].
    destruct (collect_changed_spec st sh haves Hwf _ _ _ _ _ _ H T Ook) as [[m fr i1 nd nc] Cov].
    assert (M1 : mono s s1) by (unfold s1; destruct (mem (c_id lc) (fst s)); [apply mono_refl | apply mono_emit]).
    assert (I1s1 : I1 s1) by (unfold s1; destruct (mem (c_id lc) (fst s)); [exact HI | now apply I1_emit]).
    assert (In1 : In (c_id lc) (fst s1)).
    { unfold s1. destruct (mem (c_id lc) (fst s)) eqn:M; [now apply mem_In | cbn; now left]. }
    assert (ND1 : RS s1 /\ NoDup (snd s1)).
    { unfold s1. destruct (mem (c_id lc) (fst s)) eqn:M; [auto|]. split.
      - intros x [<-|Hx]; [cbn; now left | cbn; right; now apply HR].
      - cbn. constructor; [|exact HN]. intro Hin. apply HR in Hin. apply mem_false in M. contradiction. }
    assert (P1 : forall x, In x (snd s1) -> In x (snd s) \/ x = c_id lc).
    { intros x Hx. unfold s1 in Hx. destruct (mem (c_id lc) (fst s)); [now left|].
      destruct Hx as [<-|Hx]; [now right | now left]. }
    constructor.
    - eapply mono_trans; eauto.
    - now apply i1.
    - apply nd; apply ND1.
    - apply (proj1 m). exact In1.
    - intros x Hx. destruct (fr x Hx) as [Hx'|Hr]; [|now right; right].
      destruct (P1 x Hx'); [now left | right; now left].
    - intros o Ho. destruct (Cov I1s1 o Ho) as [A|[A|(old & Hin & Hr)]]; [now left | right; now left|].
      right. right. destruct (mem (c_id lc) sh) eqn:S.
      + cbn in PT. inversion PT; subst. contradiction.
      + split; [exact S|]. destruct (Opar old Hin) as (p & pps & tm & Hp & G). exists p, (fst old), pps, tm. auto.
  Qed.

  Lemma phase2_spec : forall hp newc s s',
    phase2 st sh hp newc s = Ok s' -> (forall c, In c newc -> cok c) -> I1 s -> RS s -> NoDup (snd s) ->
    mono s s' /\ I1 s' /\ (RS s' /\ NoDup (snd s')) /\
    (forall c, In c newc -> ~ In (c_id c) hp ->
       In (c_id c) (fst s') /\ forall o, reach st sh (c_tree c) o -> In o (snd s') \/ Had o \/ par_below c o) /\
    (forall x, In x (snd s') -> In x (snd s) \/
       exists c, In c newc /\ ~ In (c_id c) hp /\ (x = c_id c \/ reach st sh (c_tree c) x)).
  Proof.
    intros hp newc. induction newc as [|lc r IH]; intros s s' H Hok HI HR HN; cbn [phase2] in H.
    - inversion H; subst.
      apply conj5; [apply mono_refl | exact HI | split; assumption | intros c [] | intros x Hx; now left].
    - assert (Hok' : forall c, In c r -> cok c) by (intros; apply Hok; now right).
      destruct (mem (c_id lc) hp) eqn:M.
      + destruct (IH _ _ H Hok' HI HR HN) as (A & B & C & D & E). apply conj5; auto.
        * intros c [<-|Hc] Hn; [apply mem_In in M; contradiction | now apply D].
        * intros x Hx. destruct (E x Hx) as [|(c & Hc & F)]; [now left|]. right. exists c. split; [now right | exact F].
      + destruct (process_commit st sh lc s) as [s1|] eqn:PC; [|discriminate].
        destruct (process_commit_spec _ _ _ PC (Hok lc (or_introl eq_refl)) HI HR HN) as [m i1 nd inn prov cov].
        destruct (IH _ _ H Hok' i1 (proj1 nd) (proj2 nd)) as (A & B & C & D & E). apply conj5; auto.
        * eapply mono_trans; eauto.
        * intros c [<-|Hc] Hn; [|now apply D]. split; [apply (proj1 A), inn|].
          intros o Ho. destruct (cov o Ho) as [X|[X|X]]; [left; now apply (proj2 A) | right; now left | right; now right].
        * intros x Hx. destruct (E x Hx) as [Hx'|(c & Hc & F)].
          -- destruct (prov x Hx') as [|X]; [now left|]. right. exists lc. split; [now left|]. split; [now apply mem_false | exact X].
          -- right. exists c. split; [now right | exact F].
  Qed.
End Paint.
