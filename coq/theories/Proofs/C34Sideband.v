(* Proofs/C34Sideband.v — the sideband multiplexer cuts every write into
   packets below the channel limit, and the demultiplexer returns exactly the
   PackData bytes of ANY valid sideband packet stream, for any chunking of the
   stream and any sequence of read sizes; progress bytes reach the sink in
   order; neither loop ever runs out of fuel. *)
From Coq Require Import List NArith ZArith Bool Lia Arith.
From GoGit Require Import Base.Out Base.GoInt Gen.C34 Model.PktLine Model.Sideband
  Proofs.C34Stream Proofs.C34Hex Proofs.C34Pkt.
Import ListNotations.

Arguments MaxSizeN : simpl never.
Opaque MaxSizeN.

(* ---------- sideband packets ---------- *)
Definition sbpkt := (N * bytes)%type.
Definition enc_sb (q : sbpkt) : bytes := hex16 (zlen (snd q) + 5) ++ fst q :: snd q.
Definition sb_stream (qs : list sbpkt) : bytes := flat_map enc_sb qs.
Definition sb_valid (t : Z) (q : sbpkt) : Prop :=
  (fst q = 1%N \/ fst q = 2%N) /\ (zlen (snd q) + 5 <= sb_max t)%Z.
Definition pack_of (qs : list sbpkt) : bytes :=
  flat_map (fun q => if N.eqb (fst q) 1 then snd q else []) qs.
Definition prog_of (hp : bool) (qs : list sbpkt) : bytes :=
  if hp then flat_map (fun q => if N.eqb (fst q) 2 then snd q else []) qs else [].

Lemma sb_max_cases t : sb_max t = 1000%Z \/ sb_max t = 65520%Z.
Proof. unfold sb_max. destruct (t =? sideband_Sideband)%Z; auto. Qed.

Lemma zlen_cons a (b : bytes) : zlen (a :: b) = (zlen b + 1)%Z.
Proof. unfold zlen. cbn [List.length]. lia. Qed.

Lemma zlen_nonneg b : (0 <= zlen b)%Z.
Proof. unfold zlen. lia. Qed.

(* ---------- the scanner on a sideband stream ---------- *)
Lemma scan_sb t q r rest : sb_valid t q -> concat r = enc_sb q ++ rest ->
  fst (scan r) = mkscan true (zlen (snd q) + 5) (fst q :: snd q) None /\ concat (snd (scan r)) = rest.
Proof.
  intros [Hch Hlen] Hr. destruct q as [ch body]. cbn [fst snd] in *. unfold enc_sb in Hr. cbn [fst snd] in Hr.
  pose proof (zlen_nonneg body) as Hnn. pose proof (sb_max_cases t) as Hm.
  assert (4 <= MaxSizeN)%nat as Hb by (pose proof MaxSizeN_Z; lia).
  destruct (pkt_read_data MaxSizeN r (ch :: body) rest Hb) as [Hd Hrest].
  { rewrite zlen_cons. unfold pktline_MaxPayloadSize. lia. }
  { rewrite zlen_cons. replace (zlen body + 1 + 4)%Z with (zlen body + 5)%Z by lia.
    rewrite <- app_assoc in Hr. exact Hr. }
  unfold scan. destruct (pkt_read MaxSizeN r) as [d r']. cbn [fst snd] in Hd, Hrest. subst d.
  unfold rd_of_pkt. cbn [List.length Nat.eqb].
  rewrite zlen_cons. destruct (Z.gtb_spec (zlen body + 1 + 4) (Z.of_nat MaxSizeN)) as [G|G];
    [rewrite MaxSizeN_Z in G; lia|].
  assert (errline_of (ch :: body) = None) as ->.
  { unfold errline_of. destruct Hch as [-> | ->]; reflexivity. }
  cbn [rd_err rd_len rd_payload fst snd]. split; [|assumption]. f_equal. lia.
Qed.

Lemma scan_flush r rest : concat r = flushPkt ++ rest ->
  fst (scan r) = mkscan true 0 [] None /\ concat (snd (scan r)) = rest.
Proof.
  intros Hr. assert (4 <= MaxSizeN)%nat as Hb by (pose proof MaxSizeN_Z; lia).
  assert (List.length flushPkt = 4%nat) as Hl4 by reflexivity.
  assert (0 = 0 \/ 0 = 1 \/ 0 = 2 \/ 0 = 4)%Z as Hz by (left; reflexivity).
  destruct (pkt_read_special MaxSizeN r flushPkt rest 0%Z Hb Hl4 parse_flush Hz Hr) as [Hd Hrest].
  unfold scan. destruct (pkt_read MaxSizeN r) as [d r']. cbn [fst snd] in Hd, Hrest. subst d. now cbn.
Qed.

Lemma scan_end r : concat r = [] ->
  fst (scan r) = mkscan false (-1) [] None /\ concat (snd (scan r)) = [].
Proof.
  intros Hr. assert (4 <= MaxSizeN)%nat as Hb by (pose proof MaxSizeN_Z; lia).
  pose proof (pkt_read_empty MaxSizeN r Hb Hr) as Hd. pose proof (pkt_read_rlen MaxSizeN r) as Hl.
  unfold scan. destruct (pkt_read MaxSizeN r) as [d r']. cbn [fst snd] in Hd, Hl. subst d. cbn. split; [reflexivity|].
  unfold rlen in Hl. rewrite Hr in Hl. cbn in Hl. destruct (concat r'); [reflexivity|cbn in Hl; lia].
Qed.

(* ---------- list arithmetic for the copy loop ---------- *)
Lemma split_firstn {A} (l1 l2 : list A) n :
  firstn n (l1 ++ l2) = firstn n l1 ++ firstn (n - List.length (firstn n l1)) (skipn n l1 ++ l2).
Proof.
  rewrite firstn_app, firstn_length. destruct (Nat.le_gt_cases n (List.length l1)).
  - rewrite Nat.min_l by lia. replace (n - List.length l1)%nat with 0%nat by lia.
    rewrite Nat.sub_diag. reflexivity.
  - rewrite Nat.min_r by lia. rewrite skipn_all2 by lia. reflexivity.
Qed.

Lemma split_skipn {A} (l1 l2 : list A) n :
  skipn n (l1 ++ l2) = skipn (n - List.length (firstn n l1)) (skipn n l1 ++ l2).
Proof.
  rewrite skipn_app, firstn_length. destruct (Nat.le_gt_cases n (List.length l1)).
  - rewrite Nat.min_l by lia. replace (n - List.length l1)%nat with 0%nat by lia.
    rewrite Nat.sub_diag. reflexivity.
  - rewrite Nat.min_r by lia. rewrite skipn_all2 by lia. reflexivity.
Qed.

Lemma split_leb {A} (l1 l2 : list A) n :
  Nat.leb n (List.length (l1 ++ l2)) =
  Nat.leb (n - List.length (firstn n l1)) (List.length (skipn n l1 ++ l2)).
Proof.
  rewrite !app_length, firstn_length, skipn_length.
  destruct (Nat.leb_spec n (List.length l1 + List.length l2));
  destruct (Nat.leb_spec (n - Nat.min n (List.length l1)) (List.length l1 - n + List.length l2)); lia.
Qed.

(* ---------- Demuxer.Read ---------- *)
Section Demux.
Variable t : Z.
Variable hp : bool.

Definition tail_ok (tail rest : bytes) : Prop := tail = flushPkt ++ rest \/ (tail = [] /\ rest = []).

(* what one Read must achieve from state d in front of packets qs *)
Definition read_post (res : dres) (req : nat) (acc : bytes) (d : dmx) (qs : list sbpkt) (tail rest : bytes) : Prop :=
  let avail := d_pending d ++ pack_of qs in
  exists d',
    if Nat.leb req (List.length avail) then
      res = DRes (acc ++ firstn req avail) None d' /\
      exists qs', Forall (sb_valid t) qs' /\ concat (d_r d') = sb_stream qs' ++ tail /\
                  d_pending d' ++ pack_of qs' = skipn req avail /\
                  d_prog d' ++ prog_of hp qs' = d_prog d ++ prog_of hp qs
    else
      res = DRes (acc ++ avail) (Some DEeof) d' /\
      d_pending d' = [] /\ concat (d_r d') = rest /\ d_prog d' = d_prog d ++ prog_of hp qs.

(* one copy step: content l1 is handed out, the rest of the data is l2 *)
Lemma copy_step fuel req acc (d2 : dmx) (qs2 : list sbpkt) l1 l2 tail rest d qs :
  d_pending d2 = skipn req l1 ->
  d_pending d ++ pack_of qs = l1 ++ l2 -> pack_of qs2 = l2 ->
  d_prog d2 ++ prog_of hp qs2 = d_prog d ++ prog_of hp qs ->
  read_post (demux_loop fuel (sb_max t) hp (req - List.length (firstn req l1)) (acc ++ firstn req l1) d2)
            (req - List.length (firstn req l1)) (acc ++ firstn req l1) d2 qs2 tail rest ->
  read_post (demux_loop fuel (sb_max t) hp (req - List.length (firstn req l1)) (acc ++ firstn req l1) d2)
            req acc d qs tail rest.
Proof.
  intros Hp Hav Hpk Hpr. unfold read_post. rewrite Hp, Hpk, Hav, Hpr.
  intros [d' H]. exists d'. rewrite (split_leb l1 l2 req).
  destruct (Nat.leb (req - List.length (firstn req l1)) (List.length (skipn req l1 ++ l2))).
  - destruct H as [Hres H]. split; [|rewrite (split_skipn l1 l2 req); exact H].
    rewrite Hres, (split_firstn l1 l2 req), <- app_assoc. reflexivity.
  - destruct H as [Hres H]. split; [|exact H].
    rewrite Hres, <- app_assoc. f_equal. f_equal.
    (* all of the data was delivered: firstn req l1 ++ skipn req l1 ++ l2 = l1 ++ l2 *)
    rewrite app_assoc, firstn_skipn. reflexivity.
Qed.

Lemma do_read_fields wanted (content : bytes) d1 :
  d_pending d1 = [] ->
  let d2 := if Nat.ltb wanted (List.length content)
            then mkdmx (d_r d1) (skipn wanted content) (d_prog d1) else d1 in
  d_pending d2 = skipn wanted content /\ d_r d2 = d_r d1 /\ d_prog d2 = d_prog d1.
Proof.
  intros Hp. cbn zeta. destruct (Nat.ltb_spec wanted (List.length content)).
  - cbn. auto.
  - rewrite skipn_all2 by lia. auto.
Qed.

Lemma demux_loop_spec : forall fuel qs req acc d tail rest,
  Forall (sb_valid t) qs -> tail_ok tail rest ->
  concat (d_r d) = sb_stream qs ++ tail ->
  (req + List.length qs < fuel)%nat ->
  read_post (demux_loop fuel (sb_max t) hp req acc d) req acc d qs tail rest.
Proof.
  induction fuel as [|f IH]; intros qs req acc d tail rest Hv Ht Hr Hf; [lia|].
  destruct req as [|req'].
  { (* Read(b) with len(b) = 0 *)
    cbn [demux_loop]. unfold read_post. exists d. cbn [Nat.leb firstn skipn]. rewrite app_nil_r.
    split; [reflexivity|]. exists qs. auto. }
  remember (S req') as req eqn:Ereq.
  assert (demux_loop (S f) (sb_max t) hp req acc d =
          let '(chunk, err, d') := do_read (sb_max t) hp req d in
          match err with
          | Some e => DRes (acc ++ chunk) (Some e) d'
          | None => demux_loop f (sb_max t) hp (req - List.length chunk) (acc ++ chunk) d'
          end) as Hunf by (subst req; reflexivity).
  rewrite Hunf. clear Hunf. unfold do_read, next_pack_data.
  destruct (d_pending d) as [|c p] eqn:Hpend.
  - (* nothing pending: scan the next packet *)
    destruct qs as [|[ch body] qs'].
    + (* no packet left: flush or end of stream *)
      cbn [sb_stream flat_map app] in Hr.
      assert (exists r', scan (d_r d) = (mkscan (match tail with [] => false | _ => true end)
                                           (match tail with [] => -1 | _ => 0 end)%Z [] None, r')
                         /\ concat r' = rest) as (r' & Hs & Hr').
      { destruct Ht as [-> | [-> ->]].
        - destruct (scan_flush _ _ Hr) as [H1 H2]. destruct (scan (d_r d)) as [s r'].
          cbn [fst snd] in *. subst s. exists r'. split; [reflexivity|assumption].
        - destruct (scan_end _ Hr) as [H1 H2]. destruct (scan (d_r d)) as [s r'].
          cbn [fst snd] in *. subst s. exists r'. split; [reflexivity|assumption]. }
      rewrite Hs.
      assert ((let
                 '(content, err, d1) :=
                  if negb (sc_ok (mkscan (match tail with [] => false | _ => true end)
                                         (match tail with [] => -1 | _ => 0 end)%Z [] None))
                  then
                   match sc_err (mkscan (match tail with [] => false | _ => true end)
                                        (match tail with [] => -1 | _ => 0 end)%Z [] None) with
                   | Some e => ([], Some (DEpkt e), mkdmx r' [] (d_prog d))
                   | None => ([], Some DEeof, mkdmx r' [] (d_prog d))
                   end
                  else ([] : bytes, Some DEeof, mkdmx r' [] (d_prog d)) in
                (firstn req content, err,
                 if Nat.ltb req (List.length content)
                 then mkdmx (d_r d1) (skipn req content) (d_prog d1) else d1))
              = ([], Some DEeof, mkdmx r' [] (d_prog d))) as Hstep.
      { destruct tail; cbn; rewrite firstn_nil; destruct req; reflexivity. }
      cbn [sc_ok sc_err sc_len] in Hstep |- *.
      destruct tail as [|t0 tail'].
      * cbn [negb] in *. rewrite firstn_nil. replace (Nat.ltb req (@List.length N [])) with false by (subst req; reflexivity).
        unfold read_post. rewrite Hpend. cbn [pack_of flat_map app List.length].
        exists (mkdmx r' [] (d_prog d)). subst req. cbn [Nat.leb].
        split; [reflexivity|]. cbn [d_pending d_r d_prog]. unfold prog_of. destruct hp; cbn [flat_map]; rewrite ?app_nil_r; auto.
      * cbn [negb]. unfold pktline_Flush. cbn [Z.eqb]. rewrite firstn_nil.
        replace (Nat.ltb req (@List.length N [])) with false by (subst req; reflexivity).
        unfold read_post. rewrite Hpend. cbn [pack_of flat_map app List.length].
        exists (mkdmx r' [] (d_prog d)). subst req. cbn [Nat.leb].
        split; [reflexivity|]. cbn [d_pending d_r d_prog]. unfold prog_of. destruct hp; cbn [flat_map]; rewrite ?app_nil_r; auto.
    + (* a sideband packet *)
      pose proof (Forall_inv Hv) as Hq. pose proof (Forall_inv_tail Hv) as Hv'.
      cbn [sb_stream flat_map] in Hr. rewrite <- app_assoc in Hr.
      destruct (scan_sb t (ch, body) (d_r d) _ Hq Hr) as [Hs Hr'].
      destruct (scan (d_r d)) as [s r']. cbn [fst snd] in Hs, Hr'. subst s.
      cbn [sc_ok sc_err sc_len sc_bytes negb].
      destruct Hq as [Hch Hlen]. cbn [fst snd] in Hch, Hlen.
      pose proof (zlen_nonneg body) as Hnn.
      unfold pktline_Flush, pktline_LenSize.
      destruct (Z.eqb_spec (zlen body + 5) 0); [lia|].
      destruct (Z.gtb_spec (zlen body + 5) (sb_max t)); [lia|].
      destruct (Z.geb_spec (zlen body + 5) 4); [|lia].
      unfold sideband_PackData, sideband_ProgressMessage.
      destruct Hch as [-> | ->]; cbn [Z.of_N Z.eqb Pos.eqb].
      * (* PackData *)
        pose proof (do_read_fields req body (mkdmx r' [] (d_prog d)) eq_refl) as Hd2.
        cbn zeta in Hd2. destruct Hd2 as (Hp2 & Hr2 & Hg2).
        eapply copy_step with (qs2 := qs') (l1 := body) (l2 := pack_of qs').
        -- exact Hp2.
        -- rewrite Hpend. reflexivity.
        -- reflexivity.
        -- rewrite Hg2. cbn [d_prog]. unfold prog_of. destruct hp; reflexivity.
        -- apply IH; auto.
           ++ rewrite Hr2. exact Hr'.
           ++ cbn [List.length] in Hf. lia.
      * (* ProgressMessage *)
        rewrite firstn_nil. replace (Nat.ltb req (@List.length N [])) with false by (subst req; reflexivity).
        rewrite Nat.sub_0_r, app_nil_r.
        set (d1 := if hp then mkdmx r' [] (d_prog d ++ body) else mkdmx r' [] (d_prog d)).
        assert (d_pending d1 = [] /\ d_r d1 = r' /\ d_prog d1 ++ prog_of hp qs' = d_prog d ++ prog_of hp ((2%N, body) :: qs')) as (Hp1 & Hr1 & Hg1).
        { subst d1. unfold prog_of. destruct hp; cbn; rewrite ?app_assoc; auto. }
        assert (read_post (demux_loop f (sb_max t) hp req acc d1) req acc d1 qs' tail rest) as Hpost.
        { apply IH; auto. - rewrite Hr1. exact Hr'. - cbn [List.length] in Hf. lia. }
        revert Hpost. unfold read_post. rewrite Hpend, Hp1.
        change (pack_of ((2%N, body) :: qs')) with (pack_of qs').
        intros [d' HH]. exists d'. destruct (Nat.leb req (List.length ([] ++ pack_of qs'))).
        -- destruct HH as (Hres & qs2 & Hv2 & Hc2 & Hp2' & Hg2'). split; [exact Hres|].
           exists qs2. repeat split; auto. rewrite Hg2'. exact Hg1.
        -- destruct HH as (Hres & Hp & Hc & Hg). repeat split; auto. rewrite Hg. exact Hg1.
  - (* pending bytes first *)
    pose proof (do_read_fields req (c :: p) (mkdmx (d_r d) [] (d_prog d)) eq_refl) as Hd2.
    cbn zeta in Hd2. destruct Hd2 as (Hp2 & Hr2 & Hg2).
    eapply copy_step with (qs2 := qs) (l1 := c :: p) (l2 := pack_of qs).
    + exact Hp2.
    + rewrite Hpend. reflexivity.
    + reflexivity.
    + rewrite Hg2. reflexivity.
    + apply IH; auto.
      * rewrite Hr2. exact Hr.
      * subst req. cbn [firstn List.length]. lia.
Qed.

(* fuel of demux_read is enough for every valid stream *)
Lemma sb_stream_length qs : (5 * List.length qs <= List.length (sb_stream qs))%nat.
Proof.
  induction qs as [|q qs IH]; [cbn; lia|].
  cbn [sb_stream flat_map]. fold (sb_stream qs). rewrite app_length. unfold enc_sb.
  rewrite app_length, hex16_length. cbn [List.length]. lia.
Qed.

Lemma demux_read_spec qs req d tail rest :
  Forall (sb_valid t) qs -> tail_ok tail rest ->
  concat (d_r d) = sb_stream qs ++ tail ->
  read_post (demux_read t hp req d) req [] d qs tail rest.
Proof.
  intros Hv Ht Hr. unfold demux_read. apply demux_loop_spec; auto.
  pose proof (sb_stream_length qs). unfold rlen. rewrite Hr, app_length. lia.
Qed.

End Demux.

(* ---------- a session of Reads ---------- *)
Definition sum (l : list nat) : nat := fold_right Nat.add 0%nat l.

Lemma demux_session_spec t hp : forall sizes d qs tail rest acc,
  Forall (sb_valid t) qs -> tail_ok tail rest -> concat (d_r d) = sb_stream qs ++ tail ->
  exists reads d',
    demux_session t hp sizes d acc = DSess (rev acc ++ reads) d' /\
    let avail := d_pending d ++ pack_of qs in
    concat (map fst reads) = firstn (sum sizes) avail /\
    (sum sizes <= List.length avail ->
       map (fun x => List.length (fst x)) reads = sizes /\ Forall (fun x => snd x = None) reads /\
       exists qs', Forall (sb_valid t) qs' /\ concat (d_r d') = sb_stream qs' ++ tail /\
                   d_pending d' ++ pack_of qs' = skipn (sum sizes) avail /\
                   d_prog d' ++ prog_of hp qs' = d_prog d ++ prog_of hp qs) /\
    (List.length avail < sum sizes ->
       (exists reads0 data, reads = reads0 ++ [(data, Some DEeof)] /\ Forall (fun x => snd x = None) reads0) /\
       d_prog d' = d_prog d ++ prog_of hp qs /\ concat (d_r d') = rest).
Proof.
  induction sizes as [|n sizes IH]; intros d qs tail rest acc Hv Ht Hr.
  - exists [], d. cbn [demux_session sum fold_right]. rewrite app_nil_r. split; [reflexivity|].
    cbn zeta. cbn [map concat firstn skipn]. split; [reflexivity|]. split.
    + intros _. repeat split; auto. exists qs. auto.
    + intros H. lia.
  - cbn [demux_session]. destruct (demux_read_spec t hp qs n d tail rest Hv Ht Hr) as [d1 H1].
    cbn zeta in H1. set (avail := d_pending d ++ pack_of qs) in *.
    destruct (Nat.leb_spec n (List.length avail)) as [Hn|Hn].
    + destruct H1 as (Hres & qs1 & Hv1 & Hr1 & Hav1 & Hpg1). rewrite Hres. cbn [app].
      destruct (IH d1 qs1 tail rest ((firstn n avail, None) :: acc) Hv1 Ht Hr1) as (reads & d' & Hs & Hc & Hle & Hgt).
      cbn zeta in Hc, Hle, Hgt. rewrite Hav1 in Hc, Hle, Hgt. rewrite skipn_length in Hle, Hgt.
      exists ((firstn n avail, None) :: reads), d'. split.
      { etransitivity; [exact Hs|]. cbn [rev]. rewrite <- app_assoc. reflexivity. }
      cbn zeta. fold avail. cbn [sum fold_right map concat fst]. fold (sum sizes). split.
      { rewrite Hc. symmetry. apply firstn_add. }
      split.
      * intros Hsum. destruct Hle as (Hl1 & Hl2 & qs' & Hl3 & Hl4 & Hl5 & Hl6); [lia|].
        split. { cbn [map fst]. rewrite firstn_length, Nat.min_l by lia. now rewrite Hl1. }
        split. { constructor; [reflexivity|assumption]. }
        exists qs'. repeat split; auto.
        -- rewrite Hl5. apply skipn_skipn'.
        -- rewrite Hl6. exact Hpg1.
      * intros Hsum. destruct Hgt as ((reads0 & data & -> & Hf0) & Hg2 & Hg3); [lia|].
        split. { exists ((firstn n avail, None) :: reads0), data. split; [reflexivity|]. constructor; [reflexivity|assumption]. }
        split; [rewrite Hg2; exact Hpg1|assumption].
    + destruct H1 as (Hres & Hp1 & Hr1 & Hpg1). rewrite Hres. cbn [app].
      exists [(avail, Some DEeof)], d1. split; [reflexivity|].
      cbn zeta. fold avail. cbn [sum fold_right map concat fst]. fold (sum sizes). rewrite app_nil_r. split.
      { rewrite firstn_all2 by lia. reflexivity. }
      split; [intros; lia|]. intros _. split; [|auto].
      exists [], avail. split; [reflexivity|constructor].
Qed.

(* ---------- Muxer ---------- *)
Fixpoint chunks_of (fuel max : nat) (p : bytes) : list bytes :=
  match p with
  | [] => []
  | _ :: _ => match fuel with
              | O => []
              | S f => firstn max p :: chunks_of f max (skipn max p)
              end
  end.

Lemma firstn_min {A} (l : list A) n : firstn (Nat.min (List.length l) n) l = firstn n l.
Proof.
  destruct (Nat.le_gt_cases (List.length l) n).
  - rewrite Nat.min_l by lia. rewrite firstn_all, firstn_all2 by lia. reflexivity.
  - rewrite Nat.min_r by lia. reflexivity.
Qed.
Lemma skipn_min {A} (l : list A) n : skipn (Nat.min (List.length l) n) l = skipn n l.
Proof.
  destruct (Nat.le_gt_cases (List.length l) n).
  - rewrite Nat.min_l by lia. rewrite skipn_all, skipn_all2 by lia. reflexivity.
  - rewrite Nat.min_r by lia. reflexivity.
Qed.

Lemma mux_go_spec max ch : (1 <= max)%nat -> (Z.of_nat max + 1 <= pktline_MaxPayloadSize)%Z ->
  forall fuel p acc, (List.length p <= fuel)%nat ->
  mux_go fuel max ch p acc = MOk (acc ++ sb_stream (map (pair ch) (chunks_of fuel max p))).
Proof.
  intros Hm1 Hm2. induction fuel as [|f IH]; intros p acc Hf.
  - destruct p; [cbn; now rewrite app_nil_r|cbn in Hf; lia].
  - destruct p as [|a p]; [cbn; now rewrite app_nil_r|].
    cbn [mux_go chunks_of]. remember (a :: p) as q eqn:Eq.
    rewrite firstn_min, skipn_min.
    assert (1 <= List.length (firstn max q) <= max)%nat as Hl.
    { rewrite firstn_length. subst q. cbn [List.length]. lia. }
    rewrite pkt_write_some by (rewrite zlen_cons; unfold zlen; lia).
    cbn [List.length Nat.eqb]. rewrite IH.
    2:{ rewrite skipn_length. subst q. cbn [List.length] in *. lia. }
    cbn [map sb_stream flat_map]. unfold enc_sb at 2. cbn [fst snd].
    rewrite zlen_cons. replace (zlen (firstn max q) + 1 + 4)%Z with (zlen (firstn max q) + 5)%Z by lia.
    rewrite <- !app_assoc. reflexivity.
Qed.

Lemma chunks_concat max : (1 <= max)%nat -> forall fuel p, (List.length p <= fuel)%nat ->
  concat (chunks_of fuel max p) = p.
Proof.
  intros Hm. induction fuel as [|f IH]; intros p Hf.
  - destruct p; [reflexivity|cbn in Hf; lia].
  - destruct p as [|a p]; [reflexivity|]. cbn [chunks_of concat]. remember (a :: p) as q.
    rewrite IH; [apply firstn_skipn|]. rewrite skipn_length. subst q. cbn [List.length] in *. lia.
Qed.

Lemma chunks_bounds max : (1 <= max)%nat -> forall fuel p,
  Forall (fun c => 1 <= List.length c <= max)%nat (chunks_of fuel max p).
Proof.
  intros Hm. induction fuel as [|f IH]; intros p; destruct p as [|a p]; cbn [chunks_of]; try constructor.
  - rewrite firstn_length. cbn [List.length]. lia.
  - apply IH.
Qed.

(* all chunks but the last are full *)
Lemma chunks_full max : (1 <= max)%nat -> forall fuel p, (List.length p <= fuel)%nat ->
  Forall (fun c => List.length c = max) (removelast (chunks_of fuel max p)).
Proof.
  intros Hm. induction fuel as [|f IH]; intros p Hf.
  - destruct p; constructor.
  - destruct p as [|a p]; [constructor|]. cbn [chunks_of]. remember (a :: p) as q.
    assert (List.length (skipn max q) <= f)%nat as Hs.
    { rewrite skipn_length. subst q. cbn [List.length] in *. lia. }
    specialize (IH (skipn max q) Hs).
    destruct (chunks_of f max (skipn max q)) as [|c cs] eqn:E; [constructor|].
    cbn [removelast]. constructor; [|exact IH].
    (* a further chunk exists, so skipn max q is non-empty, so q has more than max bytes *)
    rewrite firstn_length. destruct (Nat.le_gt_cases max (List.length q)); [lia|].
    rewrite skipn_all2 in E by lia. destruct f; discriminate.
Qed.

Definition mux_max_nat (t : Z) : nat := Z.to_nat (mux_max t).

Lemma mux_max_cases t : mux_max t = 995%Z \/ mux_max t = 65515%Z.
Proof. unfold mux_max. destruct (sb_max_cases t) as [-> | ->]; [left|right]; reflexivity. Qed.

Definition sb_pkts_of (t : Z) (w : N * bytes) : list sbpkt :=
  map (pair (fst w)) (chunks_of (List.length (snd w)) (mux_max_nat t) (snd w)).

Lemma mux_write_spec t ch p : mux_write t ch p = MOk (sb_stream (sb_pkts_of t (ch, p))).
Proof.
  unfold mux_write, sb_pkts_of. cbn [fst snd]. fold (mux_max_nat t).
  rewrite mux_go_spec; [reflexivity| | |lia]; unfold mux_max_nat, pktline_MaxPayloadSize;
    destruct (mux_max_cases t) as [-> | ->]; lia.
Qed.

Lemma mux_max_nat_pos t : (1 <= mux_max_nat t)%nat.
Proof. unfold mux_max_nat. destruct (mux_max_cases t) as [-> | ->]; lia. Qed.

Lemma sb_pkts_valid t ch p : (ch = 1 \/ ch = 2)%N -> Forall (sb_valid t) (sb_pkts_of t (ch, p)).
Proof.
  intros Hch. unfold sb_pkts_of. cbn [fst snd]. apply Forall_map.
  eapply Forall_impl; [|apply (chunks_bounds _ (mux_max_nat_pos t))].
  intros c [_ Hc]. split; [exact Hch|]. cbn [snd]. unfold zlen, mux_max_nat, mux_max, pktline_LenSize, sideband_chLen in *.
  destruct (sb_max_cases t) as [E|E]; rewrite E in *; lia.
Qed.

Lemma pack_of_pkts t ch p : pack_of (sb_pkts_of t (ch, p)) = if N.eqb ch 1 then p else [].
Proof.
  unfold sb_pkts_of, pack_of. cbn [fst snd]. rewrite flat_map_concat_map, map_map. cbn [fst snd].
  destruct (N.eqb ch 1).
  - rewrite map_id. apply chunks_concat; [apply mux_max_nat_pos|lia].
  - induction (chunks_of (List.length p) (mux_max_nat t) p); [reflexivity|assumption].
Qed.

Lemma prog_of_pkts t hp ch p : prog_of hp (sb_pkts_of t (ch, p)) = if hp && N.eqb ch 2 then p else [].
Proof.
  unfold sb_pkts_of, prog_of. destruct hp; [|reflexivity]. cbn [fst snd andb].
  rewrite flat_map_concat_map, map_map. cbn [fst snd].
  destruct (N.eqb ch 2).
  - rewrite map_id. apply chunks_concat; [apply mux_max_nat_pos|lia].
  - induction (chunks_of (List.length p) (mux_max_nat t) p); [reflexivity|assumption].
Qed.

Lemma sb_stream_app a b : sb_stream (a ++ b) = sb_stream a ++ sb_stream b.
Proof. unfold sb_stream. apply flat_map_app. Qed.
Lemma pack_of_app a b : pack_of (a ++ b) = pack_of a ++ pack_of b.
Proof. unfold pack_of. apply flat_map_app. Qed.
Lemma prog_of_app hp a b : prog_of hp (a ++ b) = prog_of hp a ++ prog_of hp b.
Proof. unfold prog_of. destruct hp; [apply flat_map_app|reflexivity]. Qed.

Lemma mux_session_spec t ws : mux_session t ws = MOk (sb_stream (flat_map (sb_pkts_of t) ws)).
Proof.
  induction ws as [|[ch p] ws IH]; [reflexivity|].
  cbn [mux_session flat_map]. rewrite mux_write_spec, IH, sb_stream_app. reflexivity.
Qed.

(* the PackData / progress bytes of a list of writes *)
Definition pack_bytes (ws : list (N * bytes)) : bytes := flat_map (fun w => if N.eqb (fst w) 1 then snd w else []) ws.
Definition prog_bytes (hp : bool) (ws : list (N * bytes)) : bytes :=
  flat_map (fun w => if hp && N.eqb (fst w) 2 then snd w else []) ws.

Lemma session_pkts t hp ws : Forall (fun w => fst w = 1 \/ fst w = 2)%N ws ->
  Forall (sb_valid t) (flat_map (sb_pkts_of t) ws) /\
  pack_of (flat_map (sb_pkts_of t) ws) = pack_bytes ws /\
  prog_of hp (flat_map (sb_pkts_of t) ws) = prog_bytes hp ws.
Proof.
  induction 1 as [|[ch p] ws Hch _ IH]; [destruct hp; repeat split; constructor|].
  destruct IH as (I1 & I2 & I3). cbn [flat_map pack_bytes prog_bytes fst snd].
  rewrite pack_of_app, prog_of_app, pack_of_pkts, prog_of_pkts, I2, I3. repeat split; auto.
  apply Forall_app. split; [now apply sb_pkts_valid|assumption].
Qed.

(* ---------- totality of Demuxer.Read on ANY input ---------- *)
Lemma do_read_progress max hp req d chunk d' :
  (1 <= req)%nat -> do_read max hp req d = (chunk, None, d') ->
  ((req - List.length chunk) + rlen (d_r d') < req + rlen (d_r d))%nat.
Proof.
  intros Hreq. unfold do_read, next_pack_data.
  destruct (d_pending d) as [|c p] eqn:Hp.
  - pose proof (scan_ok_consumes (d_r d)) as C. destruct (scan (d_r d)) as [s r']. cbn [fst snd] in C.
    assert (forall (content : bytes) (d1 : dmx),
              d_r d1 = r' -> sc_ok s = true ->
              (firstn req content, @None derr,
                if Nat.ltb req (List.length content) then mkdmx (d_r d1) (skipn req content) (d_prog d1) else d1)
              = (chunk, None, d') -> (req - List.length chunk + rlen (d_r d') < req + rlen (d_r d))%nat) as K.
    { intros content d1 Hr1 Hok H. injection H as H1 H3. subst chunk d'. specialize (C Hok).
      assert (d_r (if Nat.ltb req (List.length content) then mkdmx (d_r d1) (skipn req content) (d_prog d1) else d1) = r') as ->.
      { destruct (Nat.ltb req (List.length content)); cbn; assumption. }
      lia. }
    destruct (sc_ok s) eqn:Hok; cbn [negb].
    2:{ destruct (sc_err s); intros H; discriminate. }
    destruct (sc_len s =? pktline_Flush)%Z; [intros H; discriminate|].
    destruct (sc_len s >? max)%Z; [intros H; discriminate|].
    destruct (if (sc_len s >=? pktline_LenSize)%Z then sc_bytes s else []) as [|ch body]; [intros H; discriminate|].
    destruct (Z.of_N ch =? sideband_PackData)%Z; [apply K; auto|].
    destruct (Z.of_N ch =? sideband_ProgressMessage)%Z; [|intros H; discriminate].
    apply K; auto. destruct hp; reflexivity.
  - intros H. injection H as H1 H3. subst chunk d'.
    destruct (Nat.ltb req _); cbn [d_r];
      rewrite firstn_length; cbn [List.length]; lia.
Qed.

Lemma demux_loop_total max hp : forall fuel req acc d,
  (req + rlen (d_r d) < fuel)%nat -> demux_loop fuel max hp req acc d <> DFuel.
Proof.
  induction fuel as [|f IH]; intros req acc d Hf; [lia|].
  destruct req as [|req']; [discriminate|]. remember (S req') as req.
  assert (demux_loop (S f) max hp req acc d =
          let '(chunk, err, d') := do_read max hp req d in
          match err with
          | Some e => DRes (acc ++ chunk) (Some e) d'
          | None => demux_loop f max hp (req - List.length chunk) (acc ++ chunk) d'
          end) as -> by (subst req; reflexivity).
  destruct (do_read max hp req d) as [[chunk err] d'] eqn:R.
  destruct err as [e|]; [discriminate|].
  apply IH. apply do_read_progress in R; lia.
Qed.

Theorem demux_read_total t hp req d : demux_read t hp req d <> DFuel.
Proof. unfold demux_read. apply demux_loop_total. lia. Qed.

Theorem demux_session_total t hp : forall sizes d acc, demux_session t hp sizes d acc <> DSFuel.
Proof.
  induction sizes as [|n sizes IH]; intros d acc; [discriminate|].
  cbn [demux_session]. pose proof (demux_read_total t hp n d) as T.
  destruct (demux_read t hp n d) as [data [e|] d'|]; [discriminate|apply IH|contradiction].
Qed.

(* the muxer never runs out of fuel either (max >= 1 for both sideband types) *)
Theorem mux_session_total t ws : mux_session t ws <> MFuel /\ mux_session t ws <> MTooLong.
Proof. rewrite mux_session_spec. split; discriminate. Qed.

(* ---------- mux then demux ---------- *)
Theorem mux_demux t hp ws :
  Forall (fun w => fst w = 1 \/ fst w = 2)%N ws ->
  exists s, mux_session t ws = MOk s /\
  forall (r : reader) (tail rest : bytes) (sizes : list nat),
    tail_ok tail rest -> concat r = s ++ tail ->
    exists reads d',
      demux_session t hp sizes (mkdmx r [] []) [] = DSess reads d' /\
      concat (map fst reads) = firstn (sum sizes) (pack_bytes ws) /\
      (sum sizes <= List.length (pack_bytes ws) ->
         map (fun x => List.length (fst x)) reads = sizes /\ Forall (fun x => snd x = None) reads /\
         exists later, d_prog d' ++ later = prog_bytes hp ws) /\
      (List.length (pack_bytes ws) < sum sizes ->
         (exists reads0 data, reads = reads0 ++ [(data, Some DEeof)] /\ Forall (fun x => snd x = None) reads0) /\
         d_prog d' = prog_bytes hp ws /\ concat (d_r d') = rest).
Proof.
  intros Hws. exists (sb_stream (flat_map (sb_pkts_of t) ws)). split; [apply mux_session_spec|].
  intros r tail rest sizes Ht Hr.
  destruct (session_pkts t hp ws Hws) as (Hv & Hpack & Hprog).
  destruct (demux_session_spec t hp sizes (mkdmx r [] []) _ tail rest [] Hv Ht Hr) as (reads & d' & Hs & Hc & Hle & Hgt).
  cbn zeta in Hc, Hle, Hgt. cbn [d_pending d_prog app rev] in Hs, Hc, Hle, Hgt. rewrite Hpack, Hprog in *.
  exists reads, d'. split; [exact Hs|]. split; [exact Hc|]. split.
  - intros H. destruct (Hle H) as (H1 & H2 & qs' & _ & _ & _ & H3). repeat split; auto. eauto.
  - exact Hgt.
Qed.
