(* Proofs/C12WeReadExt.v — go-git's extension decoders (G) read what git's writers (S) emit:
   cache-tree write_one -> treeExtensionDecoder, resolve_undo_write -> resolveUndoDecoder. *)
From Coq Require Import List NArith ZArith Arith Lia ZifyBool ZifyNat ZifyN Bool.
From GoGit Require Import Base.Out Model.IndexFile Spec.GitIndex Proofs.C12 Proofs.C12Digits.
Import ListNotations.
Local Open Scope N_scope.

Scheme ctree_mind := Induction for ctree Sort Prop
  with cforest_mind := Induction for cforest Sort Prop.
Combined Scheme ctree_cforest_mind from ctree_mind, cforest_mind.

(* ---- what go-git shows of git's cache tree: the valid nodes in pre-order, by their own name ---- *)
Fixpoint ct_flat (name : bytes) (t : ctree) : list tree_entry :=
  match t with
  | CT cnt oid subs => (if (0 <=? cnt)%Z then [mkTE name cnt (Z.of_nat (cf_length subs)) oid] else []) ++ cf_flat subs
  end
with cf_flat (f : cforest) : list tree_entry :=
  match f with CNil => [] | CCons n t r => ct_flat n t ++ cf_flat r end.

Fixpoint ct_size (t : ctree) : nat := match t with CT _ _ subs => S (cf_size subs) end
with cf_size (f : cforest) : nat := match f with CNil => O | CCons _ t r => (ct_size t + cf_size r)%nat end.

(* entry_count and subtree_nr are C ints; valid nodes carry an object name of the hash size; names are C strings *)
Fixpoint wf_ct (hs : nat) (t : ctree) : bool :=
  match t with
  | CT cnt oid subs =>
    (- 2147483648 <=? cnt)%Z && (cnt <? 2147483648)%Z &&
    (if (0 <=? cnt)%Z then (List.length oid =? hs)%nat else true) &&
    (N.of_nat (cf_length subs) <? 2147483648) && wf_cf hs subs
  end
with wf_cf (hs : nat) (f : cforest) : bool :=
  match f with CNil => true | CCons n t r => nonul n && wf_ct hs t && wf_cf hs r end.

Section Ext.
Variable hs : nat.
Hypothesis hs_pos : (0 < hs)%nat.

Lemma tree_ext_reads :
  (forall t name rest acc f, nonul name = true -> wf_ct hs t = true ->
     read_tree_ext hs (ct_size t + f) (g_write_ct name t ++ rest) acc = read_tree_ext hs f rest (rev (ct_flat name t) ++ acc)) /\
  (forall fr rest acc f, wf_cf hs fr = true ->
     read_tree_ext hs (cf_size fr + f) (g_write_cf fr ++ rest) acc = read_tree_ext hs f rest (rev (cf_flat fr) ++ acc)).
Proof.
  apply ctree_cforest_mind.
  - (* a node *)
    intros cnt oid subs IH name rest acc f Hname Hw.
    cbn [wf_ct] in Hw.
    apply andb_true_iff in Hw as [Hw Hsubs]. apply andb_true_iff in Hw as [Hw Hn].
    apply andb_true_iff in Hw as [Hw Hoid]. apply andb_true_iff in Hw as [Hlo Hhi].
    apply Z.leb_le in Hlo. apply Z.ltb_lt in Hhi. apply N.ltb_lt in Hn.
    cbn [ct_size plus read_tree_ext g_write_ct].
    repeat (rewrite <- app_assoc || rewrite <- app_comm_cons).
    rewrite (read_until_delim 0 name) by exact Hname.
    rewrite (read_until_delim 32 (g_print_int cnt)) by (apply print_int_no; reflexivity).
    rewrite parse_print_int by lia.
    rewrite (read_until_delim 10 (g_print_int (Z.of_nat (cf_length subs)))) by (apply print_int_no; reflexivity).
    rewrite parse_print_int by lia.
    cbn [ct_flat].
    destruct (0 <=? cnt)%Z eqn:Ec.
    + replace (cnt <? 0)%Z with false by (symmetry; apply Z.ltb_ge; apply Z.leb_le in Ec; exact Ec).
      apply Nat.eqb_eq in Hoid.
      destruct (oid ++ g_write_cf subs ++ rest) as [|c l] eqn:E.
      { apply (f_equal (@List.length N)) in E. rewrite app_length in E. cbn in E. lia. }
      rewrite <- E. rewrite (take_app_n hs) by exact Hoid.
      rewrite IH by exact Hsubs.
      cbn [app rev]. rewrite <- app_assoc. reflexivity.
    + replace (cnt <? 0)%Z with true by (symmetry; apply Z.ltb_lt; apply Z.leb_gt in Ec; exact Ec).
      cbn [app]. now rewrite IH.
  - intros rest acc f _. reflexivity.
  - intros n t IHt r IHr rest acc f Hw.
    cbn [wf_cf] in Hw. apply andb_true_iff in Hw as [Hw Hr]. apply andb_true_iff in Hw as [Hn Ht].
    cbn [cf_size g_write_cf cf_flat]. rewrite <- Nat.add_assoc, <- app_assoc.
    rewrite IHt by assumption. rewrite IHr by assumption.
    rewrite rev_app_distr, <- app_assoc. reflexivity.
Qed.

Lemma ct_size_le :
  (forall t name, (ct_size t <= List.length (g_write_ct name t))%nat) /\
  (forall fr, (cf_size fr <= List.length (g_write_cf fr))%nat).
Proof.
  apply ctree_cforest_mind.
  - intros cnt oid subs IH name. cbn [ct_size g_write_ct]. rewrite app_length. cbn [List.length].
    rewrite !app_length. cbn [List.length]. rewrite !app_length. cbn [List.length]. rewrite !app_length. lia.
  - cbn. lia.
  - intros n t IHt r IHr. cbn [cf_size g_write_cf]. rewrite app_length. specialize (IHt n). lia.
Qed.

(* treeExtensionDecoder.Decode over the whole extension *)
Lemma tree_ext_whole t : wf_ct hs t = true ->
  read_tree_ext hs (S (List.length (g_write_ct [] t))) (g_write_ct [] t) [] = Ok (ct_flat [] t).
Proof.
  intros Hw. pose proof (proj1 ct_size_le t []) as Hle.
  replace (S (List.length (g_write_ct [] t))) with (ct_size t + S (List.length (g_write_ct [] t) - ct_size t))%nat by lia.
  rewrite <- (app_nil_r (g_write_ct [] t)) at 2.
  rewrite (proj1 tree_ext_reads) by (try reflexivity; exact Hw).
  cbn [read_tree_ext read_until]. rewrite app_nil_r, rev_involutive. reflexivity.
Qed.

(* ---- resolve-undo ---- *)
Definition reuc_view (r : greuc) : reuc_entry :=
  mkRE (gr_path r) ((if gr_m1 r =? 0 then [] else [(1, gr_o1 r)]) ++ (if gr_m2 r =? 0 then [] else [(2, gr_o2 r)]) ++
                    (if gr_m3 r =? 0 then [] else [(3, gr_o3 r)])).

Definition wf_reuc (r : greuc) : bool :=
  nonul (gr_path r) && (gr_m1 r <? 4294967296) && (gr_m2 r <? 4294967296) && (gr_m3 r <? 4294967296) &&
  ((gr_m1 r =? 0) || (List.length (gr_o1 r) =? hs)%nat) && ((gr_m2 r =? 0) || (List.length (gr_o2 r) =? hs)%nat) &&
  ((gr_m3 r =? 0) || (List.length (gr_o3 r) =? hs)%nat).

Lemma reuc_stage_reads m rest : m < 4294967296 ->
  read_reuc_stage (g_print_nat 8 m ++ 0 :: rest) = Some (Ok (negb (m =? 0), rest)).
Proof.
  intros Hm. unfold read_reuc_stage.
  rewrite (read_until_delim 0 (g_print_nat 8 m)) by (apply print_nat_no; [lia|reflexivity]).
  rewrite parse_print_nat by lia.
  replace (Z.of_N m =? 0)%Z with (m =? 0) by (destruct (m =? 0) eqn:E; [apply N.eqb_eq in E|apply N.eqb_neq in E]; symmetry; [apply Z.eqb_eq|apply Z.eqb_neq]; lia).
  reflexivity.
Qed.

Lemma reuc_hash1 s o tail acc present : List.length o = hs ->
  read_reuc_hashes hs (s :: present) (o ++ tail) acc = read_reuc_hashes hs present tail ((s, o) :: acc).
Proof.
  intros Ho. cbn [read_reuc_hashes].
  destruct (o ++ tail) as [|c l] eqn:E.
  { apply (f_equal (@List.length N)) in E. rewrite app_length in E. cbn in E. lia. }
  rewrite <- E. rewrite (take_app_n hs) by exact Ho. reflexivity.
Qed.

Lemma reuc_hashes_reads r rest : wf_reuc r = true ->
  read_reuc_hashes hs ((if negb (gr_m1 r =? 0) then [1] else []) ++ (if negb (gr_m2 r =? 0) then [2] else []) ++
                       (if negb (gr_m3 r =? 0) then [3] else []))
    ((if gr_m1 r =? 0 then [] else gr_o1 r) ++ (if gr_m2 r =? 0 then [] else gr_o2 r) ++ (if gr_m3 r =? 0 then [] else gr_o3 r) ++ rest) []
  = Some (Ok (re_stages (reuc_view r), rest)).
Proof.
  unfold wf_reuc. intros Hw.
  apply andb_true_iff in Hw as [Hw H3]. apply andb_true_iff in Hw as [Hw H2]. apply andb_true_iff in Hw as [Hw H1].
  unfold reuc_view. cbn [re_stages].
  destruct (gr_m1 r =? 0), (gr_m2 r =? 0), (gr_m3 r =? 0); cbn [orb negb app] in *;
    repeat match goal with H : (_ =? _)%nat = true |- _ => apply Nat.eqb_eq in H end;
    repeat rewrite reuc_hash1 by assumption; reflexivity.
Qed.

Lemma reuc_ext_reads : forall l acc f, forallb wf_reuc l = true ->
  read_reuc_ext hs (List.length l + S f) (g_write_reuc l) acc = Ok (rev acc ++ map reuc_view l).
Proof.
  induction l as [|r l IH]; intros acc f Hw.
  - cbn. now rewrite app_nil_r.
  - cbn [forallb] in Hw. apply andb_true_iff in Hw as [Hr Hl].
    pose proof Hr as Hr'. unfold wf_reuc in Hr'.
    apply andb_true_iff in Hr' as [Hr' _]. apply andb_true_iff in Hr' as [Hr' _]. apply andb_true_iff in Hr' as [Hr' _].
    apply andb_true_iff in Hr' as [Hr' M3]. apply andb_true_iff in Hr' as [Hr' M2]. apply andb_true_iff in Hr' as [Hp M1].
    apply N.ltb_lt in M1, M2, M3.
    cbn [List.length plus read_reuc_ext].
    unfold g_write_reuc. cbn [flat_map]. fold (g_write_reuc l).
    unfold g_write_reuc1.
    repeat (rewrite <- app_assoc || rewrite <- app_comm_cons).
    rewrite (read_until_delim 0 (gr_path r)) by exact Hp.
    rewrite reuc_stage_reads by exact M1. rewrite reuc_stage_reads by exact M2. rewrite reuc_stage_reads by exact M3.
    rewrite reuc_hashes_reads by exact Hr.
    rewrite IH by exact Hl. cbn [rev map]. rewrite <- app_assoc. cbn [app].
    destruct r; reflexivity.
Qed.

Lemma reuc_ext_whole l : forallb wf_reuc l = true ->
  read_reuc_ext hs (S (List.length (g_write_reuc l))) (g_write_reuc l) [] = Ok (map reuc_view l).
Proof.
  intros Hw.
  assert (Hle : (List.length l <= List.length (g_write_reuc l))%nat).
  { clear Hw. induction l as [|r l IH]; [cbn; lia|].
    unfold g_write_reuc in *. cbn [flat_map List.length]. rewrite app_length. unfold g_write_reuc1 at 1.
    rewrite app_length. cbn [List.length]. lia. }
  replace (S (List.length (g_write_reuc l))) with (List.length l + S (List.length (g_write_reuc l) - List.length l))%nat by lia.
  now rewrite reuc_ext_reads.
Qed.

End Ext.
