(* Proofs/C21.v — crash safety of the storage operations of Model/Crash.v *)
From Coq Require Import List NArith ZArith Arith Lia Bool String.
From GoGit Require Import Base.Out Gen.C22 Model.Gc Model.Crash Spec.Reach Spec.RepoOk Proofs.C22 Proofs.CrashFacts.
Import ListNotations.
Local Open Scope N_scope.

Definition meta (p : path) : bool :=
  match p with PHead | PRef _ | PPacked | PShallow | PIndex | PConfig => true | _ => false end.

Definition agree_meta (fs fs' : fsmap) : Prop := forall q, meta q = true -> flookup fs' q = flookup fs q.

Lemma meta_packed fs fs' : agree_meta fs fs' -> packed_refs fs' = packed_refs fs.
Proof. intro A. unfold packed_refs. now rewrite A. Qed.
Lemma meta_shallow fs fs' : agree_meta fs fs' -> shallow_of fs' = shallow_of fs.
Proof. intro A. unfold shallow_of. now rewrite A. Qed.

Lemma meta_roots fs fs' x : agree_meta fs fs' -> In x (ref_roots fs') -> In x (ref_roots fs).
Proof.
  intros A Hx. apply in_ref_roots. apply in_ref_roots in Hx.
  rewrite (meta_packed _ _ A) in Hx. rewrite A in Hx by reflexivity.
  destruct Hx as [H|[(n & H)|(l & n & E & Hin & Hl)]].
  - now left.
  - right. left. exists n. now rewrite A in H.
  - right. right. exists l, n. rewrite A in Hl by reflexivity. auto.
Qed.

(* the workhorse: same meta files, every pack file still consistent, nothing
   that was available lost *)
Lemma repo_ok_transfer g fs fs' :
  agree_meta fs fs' ->
  (forall n, pack_file_ok fs' n = true) ->
  (forall o, avail fs o = true -> avail fs' o = true) ->
  repo_ok g fs -> repo_ok g fs'.
Proof.
  intros A P Av [F N]. split.
  - apply files_ok_iff. apply files_ok_iff in F as (H1 & H2 & H3 & H4 & H5 & H6 & H7).
    unfold head_okP, packed_okP, shallow_okP, index_okP, config_okP, ref_file_ok in *.
    rewrite (meta_packed _ _ A), (meta_shallow _ _ A), !A by reflexivity. repeat split; try assumption.
    intro n. rewrite A by reflexivity. apply H2.
  - intros o Hn. unfold shallow_list in Hn. rewrite (meta_shallow _ _ A) in Hn.
    destruct (N o (needed_roots _ _ _ _ _ (fun x => meta_roots fs fs' x A) Hn)) as [Ha Hk]. auto.
Qed.

Lemma agree_meta_of_agree fs fs' : agree fs fs' -> agree_meta fs fs'.
Proof. intros A q Hq. apply A. destruct q; cbn in *; congruence. Qed.

(* ---------- lookups after the mutations of an operation ---------- *)

Ltac split_states := repeat first [apply Forall_nil | apply Forall_cons].

Ltac flk := repeat (rewrite ?flookup_fset, ?flookup_fdel; cbn [path_eqb tkind_eqb pext_eqb andb]).

(* a temp file never matters *)
Lemma agree_set_tmp fs k n c : agree fs (fset fs (PTmp k n) c).
Proof. intros q Hq. flk. destruct q; cbn in Hq; try discriminate; reflexivity. Qed.
Lemma agree_del_tmp fs k n : agree fs (fdel fs (PTmp k n)).
Proof. intros q Hq. flk. destruct q; cbn in Hq; try discriminate; reflexivity. Qed.
Lemma agree_trans a b c : agree a b -> agree b c -> agree a c.
Proof. intros H1 H2 q Hq. now rewrite H2, H1. Qed.
Lemma agree_refl a : agree a a.
Proof. intros q _. reflexivity. Qed.

(* ---------- transfer lemmas ---------- *)

Lemma transfer_objs g fs fs' :
  agree_meta fs fs' ->
  (forall n, pack_file_ok fs' n = true) ->
  (forall x, loose_ok fs x = true -> loose_ok fs' x = true) ->
  (forall x n, in_pack fs x n = true -> in_pack fs' x n = true) ->
  repo_ok g fs -> repo_ok g fs'.
Proof.
  intros A P L K. apply repo_ok_transfer; try assumption.
  intros o Ha. apply avail_iff. apply avail_iff in Ha as [Ha|(n & Ha)]; [left; auto|right; exists n; auto].
Qed.

Lemma repo_ok_files g fs : repo_ok g fs -> forall n, pack_file_ok fs n = true.
Proof. intros [F _]. apply files_ok_iff in F. tauto. Qed.

(* ---------- loose object write ---------- *)

Lemma setobj_state g fs fs' o :
  (forall q, meta q = true -> flookup fs' q = flookup fs q) ->
  (forall n x, flookup fs' (PPackF n x) = flookup fs (PPackF n x)) ->
  (forall x, x <> o -> flookup fs' (PLoose x) = flookup fs (PLoose x)) ->
  (flookup fs' (PLoose o) = flookup fs (PLoose o) \/ flookup fs' (PLoose o) = Some (Whole (DLoose o))) ->
  repo_ok g fs -> repo_ok g fs'.
Proof.
  intros A P L O R. apply (transfer_objs g fs fs'); try assumption.
  - intro n. unfold pack_file_ok, idx_ok. rewrite !P. apply (repo_ok_files _ _ R).
  - intros x Hx. unfold loose_ok in *. destruct (N.eq_dec x o) as [->|Hne].
    + destruct O as [E|E]; rewrite E; [assumption|apply N.eqb_refl].
    + now rewrite L.
  - intros x n H. unfold in_pack, pack_objs, idx_ok in *. now rewrite !P.
Qed.

Lemma setobj_k_safe g fs k o : repo_ok g fs -> crash_safe g fs (op_setobj_k fs k o).
Proof.
  intro R. unfold crash_safe, op_setobj_k.
  destruct (fexists fs (PLoose o)); cbn [app crash_states mid_states apply];
    rewrite ?flookup_fset, ?path_eqb_refl; split_states;
    (apply (setobj_state g fs _ o); [| | | |exact R];
     [intros q Hq; flk; destruct q; cbn in Hq; try discriminate; reflexivity
     |intros n x; flk; reflexivity
     |intros x Hx; flk; try reflexivity; apply N.eqb_neq in Hx; rewrite N.eqb_sym in Hx; now rewrite ?Hx
     |flk; rewrite ?N.eqb_refl; auto]).
Qed.

Lemma setobj_safe g fs o : repo_ok g fs -> crash_safe g fs (op_setobj fs o).
Proof. apply setobj_k_safe. Qed.

(* ---------- pack write ---------- *)

Definition pack_fresh (fs : fsmap) (name : string) : bool :=
  negb (fexists fs (PPackF name XPack) || fexists fs (PPackF name XIdx)
        || fexists fs (PPackF name XRev) || fexists fs (PPackF name XPromisor)).

Lemma packwrite_state g fs fs' name :
  (forall q, meta q = true -> flookup fs' q = flookup fs q) ->
  (forall x, flookup fs' (PLoose x) = flookup fs (PLoose x)) ->
  (forall n x, n <> name -> flookup fs' (PPackF n x) = flookup fs (PPackF n x)) ->
  flookup fs (PPackF name XPack) = None ->
  pack_file_ok fs' name = true ->
  repo_ok g fs -> repo_ok g fs'.
Proof.
  intros A L P F K R. apply (transfer_objs g fs fs'); try assumption.
  - intro n. destruct (string_dec n name) as [->|Hne]; [assumption|].
    unfold pack_file_ok, idx_ok. rewrite !P by assumption. apply (repo_ok_files _ _ R).
  - intros x Hx. unfold loose_ok in *. now rewrite L.
  - intros x n H. destruct (string_dec n name) as [->|Hne].
    + unfold in_pack, pack_objs in H. rewrite F in H. discriminate.
    + unfold in_pack, pack_objs, idx_ok in *. now rewrite !P.
Qed.

Lemma fexists_false fs p : fexists fs p = false -> flookup fs p = None.
Proof. unfold fexists. destruct (flookup fs p); [discriminate|reflexivity]. Qed.

Lemma string_eqb_neq a b : a <> b -> String.eqb b a = false.
Proof. intro H. apply String.eqb_neq. congruence. Qed.

Lemma pack_save_safe g fs0 fs t name os prom :
  (forall q, meta q = true -> flookup fs q = flookup fs0 q) ->
  (forall x, flookup fs (PLoose x) = flookup fs0 (PLoose x)) ->
  (forall n x, flookup fs (PPackF n x) = flookup fs0 (PPackF n x)) ->
  pack_fresh fs0 name = true ->
  (exists k, t = PTmp TPack k) ->
  flookup fs t = Some (Whole (DPack os)) ->
  repo_ok g fs0 ->
  Forall (repo_ok g) (crash_states (pack_save name t os prom) fs).
Proof.
  intros A L P Fr (k & ->) Ht R.
  unfold pack_fresh in Fr. apply negb_true_iff in Fr. repeat (apply orb_false_iff in Fr as [Fr ?]).
  assert (F1 := fexists_false _ _ Fr). assert (F2 := fexists_false _ _ H1).
  unfold pack_save. destruct prom; cbn [app crash_states mid_states apply];
    flk; rewrite ?Nat.eqb_refl, ?Ht; split_states;
    (apply (packwrite_state g fs0 _ name); [| | |exact F1| |exact R];
     [intros q Hq; flk; rewrite <- A by assumption; destruct q; cbn in Hq; try discriminate; reflexivity
     |intros x; flk; apply L
     |intros n x Hne; flk; rewrite (string_eqb_neq _ _ Hne); cbn [andb]; apply P
     |unfold pack_file_ok, idx_ok; flk; rewrite ?String.eqb_refl, ?Nat.eqb_refl; cbn [andb];
      rewrite ?P, ?F1, ?ids_eqb_refl; reflexivity]).
Qed.

Lemma packwrite_safe g fs os prom :
  pack_fresh fs (new_pack_name fs) = true -> repo_ok g fs -> crash_safe g fs (op_packwrite fs os prom).
Proof.
  intros Fr R. unfold crash_safe, op_packwrite.
  cbn [app crash_states mid_states apply].
  repeat (apply Forall_cons; [eapply agree_repo_ok; [|exact R]; intros q Hq; flk; destruct q; cbn in Hq; try discriminate; reflexivity|]).
  apply (pack_save_safe g fs); try assumption.
  - intros q Hq. flk. destruct q; cbn in Hq; try discriminate; reflexivity.
  - intro x. flk. reflexivity.
  - intros n x. flk. reflexivity.
  - now exists 0%nat.
  - flk. reflexivity.
Qed.

(* ---------- the executable checker is sound for repo_ok ---------- *)

Definition cext (g : graph) (fs : fsmap) (sh seen seen' : list oid) : Prop :=
  incl seen seen' /\
  forall x, In x seen' -> ~ In x seen ->
    avail fs x = true /\ assoc g x <> None /\ forall c, kid g sh x c -> In c seen'.

Lemma cext_refl g fs sh s : cext g fs sh s s.
Proof. split; [apply incl_refl|]. intros x H1 H2. contradiction. Qed.

Lemma cext_trans g fs sh a b c : cext g fs sh a b -> cext g fs sh b c -> cext g fs sh a c.
Proof.
  intros [I1 C1] [I2 C2]. split; [eapply incl_tran; eassumption|].
  intros x Hx Hn. destruct (mem x b) eqn:E.
  - apply mem_In in E. destruct (C1 x E Hn) as (A & K & Ch). repeat split; auto.
  - apply mem_nIn in E. now apply (C2 x Hx E).
Qed.

Lemma fold_opt_cext {A} g fs sh (f : list oid -> A -> option (list oid)) (P : A -> Prop) (key : A -> oid) :
  (forall s a s', f s a = Some s' -> cext g fs sh s s' /\ (P a -> In (key a) s')) ->
  forall l s s', fold_opt f l s = Some s' ->
  cext g fs sh s s' /\ forall a, In a l -> P a -> In (key a) s'.
Proof.
  intros Hf l. induction l as [|a l IH]; intros s s' H; cbn in H.
  - inversion H; subst. split; [apply cext_refl|intros a []].
  - destruct (f s a) as [s1|] eqn:E; [|discriminate].
    destruct (Hf _ _ _ E) as [E1 K1]. destruct (IH _ _ H) as [E2 K2].
    split; [eapply cext_trans; eassumption|].
    intros b [->|Hb] Pb; [|now apply K2]. destruct E2 as [I2 _]. apply I2. now apply K1.
Qed.

Lemma cext_add g fs sh o s s' :
  avail fs o = true -> assoc g o <> None ->
  cext g fs sh (o :: s) s' -> (forall c, kid g sh o c -> In c s') -> cext g fs sh s s' /\ In o s'.
Proof.
  intros Ha Hk [I C] Hc. assert (Ho : In o s') by (apply I; now left).
  split; [split|assumption].
  - intros x Hx. apply I. now right.
  - intros x Hx Hn. destruct (N.eq_dec x o) as [->|Hne]; [auto|].
    apply (C x Hx). intros [H|H]; [congruence|contradiction].
Qed.

Lemma check_cext g fs sh fuel : forall s o s',
  check fuel g fs sh s o = Some s' -> cext g fs sh s s' /\ In o s'.
Proof.
  induction fuel as [|f IH]; intros s o s' H; cbn [check] in H;
    destruct (mem o s) eqn:Es;
    try (inversion H; subst; split; [apply cext_refl|now apply mem_In]); try discriminate.
  destruct (avail fs o) eqn:Ea; cbn [negb] in H; [|discriminate].
  destruct (assoc g o) as [ob|] eqn:Eg; [|discriminate].
  assert (Hk : assoc g o <> None) by congruence.
  destruct ob as [|es|t ps|t].
  - inversion H; subst. apply cext_add; try assumption; [apply cext_refl|].
    intros c Hc. unfold kid in Hc. now rewrite Eg in Hc.
  - set (fe := fun (s0 : list oid) (e : Z * oid) => if is_gitlink (fst e) then Some s0 else check f g fs sh s0 (snd e)) in H.
    destruct (fold_opt_cext g fs sh fe (fun e => is_gitlink (fst e) = false) snd) with (l := es) (s := o :: s) (s' := s') as [E K];
      [|exact H|].
    + intros s0 e s1 He. unfold fe in He. destruct (is_gitlink (fst e)) eqn:Eg'.
      * inversion He; subst. split; [apply cext_refl|discriminate].
      * destruct (IH _ _ _ He). split; auto.
    + apply cext_add; try assumption.
      intros c Hc. unfold kid in Hc. rewrite Eg in Hc. destruct Hc as (m & Hin & Hg). apply (K (m, c) Hin Hg).
  - destruct (check f g fs sh (o :: s) t) as [s2|] eqn:Et; [|discriminate].
    destruct (IH _ _ _ Et) as [E1 K1].
    destruct (mem o sh) eqn:Esh.
    + inversion H; subst. apply cext_add; try assumption.
      intros c Hc. unfold kid in Hc. rewrite Eg in Hc. destruct Hc as [->|[Hs _]]; [assumption|congruence].
    + destruct (fold_opt_cext g fs sh (check f g fs sh) (fun _ => True) (fun x => x)) with (l := ps) (s := s2) (s' := s') as [E2 K2];
        [|exact H|].
      * intros s0 a s1 Ha'. destruct (IH _ _ _ Ha'). split; auto.
      * apply cext_add; try assumption; [eapply cext_trans; eassumption|].
        intros c Hc. unfold kid in Hc. rewrite Eg in Hc. destruct Hc as [->|[_ Hin]].
        -- destruct E2 as [I2 _]. now apply I2.
        -- now apply K2.
  - destruct (IH _ _ _ H) as [E1 K1]. apply cext_add; try assumption.
    intros c Hc. unfold kid in Hc. rewrite Eg in Hc. now subst.
Qed.

Lemma repo_okb_sound g fs : repo_okb g fs = true -> repo_ok g fs.
Proof.
  unfold repo_okb. intro H. apply andb_true_iff in H as [F C]. split; [assumption|].
  unfold connected_b in C. unfold shallow_list.
  destruct (shallow_of fs) as [sh|]; [|discriminate].
  destruct (fold_opt (check (S (List.length g)) g fs sh) (ref_roots fs) []) as [s'|] eqn:E; [|discriminate].
  destruct (fold_opt_cext g fs sh (check (S (List.length g)) g fs sh) (fun _ => True) (fun x => x)) with (l := ref_roots fs) (s := @nil oid) (s' := s') as [[_ Cl] K];
    [|exact E|].
  - intros s0 a s1 Ha. destruct (check_cext _ _ _ _ _ _ _ Ha). split; auto.
  - assert (Hin : forall o, needed g (ref_roots fs) sh o -> In o s').
    { intros o N. induction N as [o Hr|o c _ IH Hk]; [now apply K|].
      destruct (Cl o IH) as (_ & _ & Ch); [intros []|]. now apply Ch. }
    intros o N. destruct (Cl o (Hin o N)) as (A & Kn & _); [intros []|]. auto.
Qed.

(* ---------- in-place rewrites: the window in which the file is incomplete ---------- *)

Definition whole_at (s : fsmap) (p : path) : bool :=
  match flookup s p with Some (Whole _) => true | _ => false end.

(* truncating create + write: outside the window the states are the initial
   and the final one *)
Lemma create_write_partial g fs p d s :
  repo_ok g (run [MCreate p; MWrite p d] fs) ->
  In s (crash_states [MCreate p; MWrite p d] fs) -> whole_at s p = true -> repo_ok g s.
Proof.
  intros R Hs Hw. cbn [crash_states mid_states apply app] in Hs.
  destruct Hs as [<-|[<-|[<-|[]]]]; unfold whole_at in Hw; rewrite ?flookup_fset, ?path_eqb_refl in Hw;
    try discriminate. exact R.
Qed.

Lemma setref_partial g fs n v s :
  repo_ok g (run (op_setref fs n v) fs) ->
  In s (crash_states (op_setref fs n v) fs) -> whole_at s (refpath n) = true -> repo_ok g s.
Proof. apply create_write_partial. Qed.

Lemma casref_partial g fs n v s :
  repo_ok g (run (op_casref fs n v) fs) ->
  In s (crash_states (op_casref fs n v) fs) -> whole_at s (refpath n) = true -> repo_ok g s.
Proof.
  unfold op_casref. intros R Hs Hw.
  destruct (fexists fs (refpath n)); cbn [crash_states mid_states apply app] in Hs;
    repeat (destruct Hs as [<-|Hs]; [unfold whole_at in Hw; rewrite ?flookup_fset, ?path_eqb_refl in Hw; try discriminate; exact R|]);
    destruct Hs.
Qed.

Lemma setindex_partial g fs es s :
  repo_ok g (run (op_setindex es) fs) ->
  In s (crash_states (op_setindex es) fs) -> whole_at s PIndex = true -> repo_ok g s.
Proof. apply create_write_partial. Qed.

Lemma setconfig_partial g fs s :
  repo_ok g (run op_setconfig fs) ->
  In s (crash_states op_setconfig fs) -> whole_at s PConfig = true -> repo_ok g s.
Proof. apply create_write_partial. Qed.

Lemma setshallow_partial g fs l s :
  l <> [] -> repo_ok g (run (op_setshallow l) fs) ->
  In s (crash_states (op_setshallow l) fs) -> whole_at s PShallow = true -> repo_ok g s.
Proof.
  intro Hl. unfold op_setshallow. destruct l; [congruence|]. apply create_write_partial.
Qed.

(* witnesses: a two-commit history, everything loose *)
Definition wg : graph := [(0, OBlob); (1, OTree [(33188%Z, 0)]); (2, OCommit 1 []); (3, OCommit 1 [2]); (4, OBlob)].
Definition wfs : fsmap :=
  [(PHead, Whole (DRef (RSym "refs/heads/main"))); (PRef "refs/heads/main", Whole (DRef (RHash 2)));
   (PLoose 0, Whole (DLoose 0)); (PLoose 1, Whole (DLoose 1)); (PLoose 2, Whole (DLoose 2)); (PLoose 3, Whole (DLoose 3));
   (PLoose 4, Whole (DLoose 4)); (PConfig, Whole DConfig); (PIndex, Whole (DIndex [(false, 0)]))].
(* a shallow clone: commit 3 is the shallow root, its parent 2 is not stored *)
Definition wfs_shallow : fsmap :=
  [(PHead, Whole (DRef (RSym "refs/heads/main"))); (PRef "refs/heads/main", Whole (DRef (RHash 3)));
   (PLoose 0, Whole (DLoose 0)); (PLoose 1, Whole (DLoose 1)); (PLoose 3, Whole (DLoose 3));
   (PConfig, Whole DConfig); (PShallow, Whole (DShallow [3]))].

Lemma setref_refuted : exists g fs n v,
  repo_ok g fs /\ repo_ok g (run (op_setref fs n v) fs) /\ ~ crash_safe g fs (op_setref fs n v).
Proof.
  exists wg, wfs, "refs/heads/main"%string, (RHash 3). split; [|split]; try (apply repo_okb_sound; vm_compute; reflexivity).
  intro H. unfold crash_safe in H. cbn [op_setref crash_states mid_states apply app] in H.
  inversion H as [|? ? [H1 _] _]. vm_compute in H1. discriminate.
Qed.

Lemma casref_refuted : exists g fs n v,
  repo_ok g fs /\ repo_ok g (run (op_casref fs n v) fs) /\ ~ crash_safe g fs (op_casref fs n v).
Proof.
  exists wg, wfs, "refs/heads/main"%string, (RHash 3). split; [|split]; try (apply repo_okb_sound; vm_compute; reflexivity).
  intro H. unfold crash_safe in H. vm_compute in H.
  inversion H as [|? ? [H1 _] _]. vm_compute in H1. discriminate.
Qed.

Lemma setindex_refuted : exists g fs es,
  repo_ok g fs /\ repo_ok g (run (op_setindex es) fs) /\ ~ crash_safe g fs (op_setindex es).
Proof.
  exists wg, wfs, [(false, 0); (false, 4)]. split; [|split]; try (apply repo_okb_sound; vm_compute; reflexivity).
  intro H. unfold crash_safe in H. cbn [op_setindex crash_states mid_states apply app] in H.
  inversion H as [|? ? [H1 _] _]. vm_compute in H1. discriminate.
Qed.

(* config: the truncated (empty) file is still readable, a torn write is not *)
Lemma setconfig_refuted : exists g fs,
  repo_ok g fs /\ repo_ok g (run op_setconfig fs) /\ ~ crash_safe g fs op_setconfig.
Proof.
  exists wg, wfs. split; [|split]; try (apply repo_okb_sound; vm_compute; reflexivity).
  intro H. unfold crash_safe in H. cbn [op_setconfig crash_states mid_states apply app] in H.
  inversion H as [|? ? _ H2]. subst. inversion H2 as [|? ? [K1 _] _]. vm_compute in K1. discriminate.
Qed.

(* shallow: while the file is empty the repository is not shallow any more,
   and the parents of the shallow roots are needed but were never there *)
Lemma setshallow_refuted : exists g fs l,
  repo_ok g fs /\ repo_ok g (run (op_setshallow l) fs) /\ ~ crash_safe g fs (op_setshallow l).
Proof.
  exists wg, wfs_shallow, [3]. split; [|split]; try (apply repo_okb_sound; vm_compute; reflexivity).
  intro H. unfold crash_safe in H. cbn [op_setshallow crash_states mid_states apply app] in H.
  inversion H as [|? ? [_ H1] _].
  destruct (H1 2) as [A _]; [|vm_compute in A; discriminate].
  apply needed_step with (o := 3).
  - apply needed_root. vm_compute. now left.
  - unfold kid. cbn. right. split; [reflexivity|now left].
Qed.

(* ---------- reference removal (packed entry first, loose file last) ---------- *)

Lemma repo_ok_refs g fs fs' :
  files_ok fs' = true ->
  shallow_of fs' = shallow_of fs ->
  (forall o, avail fs o = true -> avail fs' o = true) ->
  (forall x, In x (ref_roots fs') -> In x (ref_roots fs)) ->
  repo_ok g fs -> repo_ok g fs'.
Proof.
  intros F S A Rt [_ N]. split; [assumption|].
  intros o Hn. unfold shallow_list in *. rewrite S in Hn.
  destruct (N o (needed_roots _ _ _ _ _ Rt Hn)). auto.
Qed.

(* a state in which only reference files and packed-refs differ from fs *)
Lemma refs_state g fs fs' :
  (forall q, (q = PHead \/ q = PShallow \/ q = PIndex \/ q = PConfig \/ (exists o, q = PLoose o) \/ (exists n x, q = PPackF n x)) ->
             flookup fs' q = flookup fs q) ->
  (forall m, ref_file_ok fs' m = true) ->
  packed_okP fs' = true ->
  (forall m o, flookup fs' (PRef m) = Some (Whole (DRef (RHash o))) -> In o (ref_roots fs)) ->
  (forall l' m o, packed_refs fs' = Some l' -> In (m, o) l' -> flookup fs' (PRef m) = None -> In o (ref_roots fs)) ->
  repo_ok g fs -> repo_ok g fs'.
Proof.
  intros Same RF PK HL HP R.
  assert (Eobj : forall o, avail fs' o = avail fs o).
  { intro o. unfold avail, loose_ok. rewrite Same by (right; right; right; right; left; eauto).
    f_equal. destruct (existsb (in_pack fs' o) (pack_names fs')) eqn:E1, (existsb (in_pack fs o) (pack_names fs)) eqn:E2; try reflexivity.
    - apply existsb_exists in E1 as (n & Hn & Hi). assert (E : existsb (in_pack fs o) (pack_names fs) = true); [|congruence].
      apply existsb_exists. exists n. unfold in_pack, pack_objs, idx_ok in *.
      rewrite !Same in Hi by (right; right; right; right; right; eauto). split; [|assumption].
      apply in_pack_names. destruct (flookup fs (PPackF n XPack)); [congruence|discriminate].
    - apply existsb_exists in E2 as (n & Hn & Hi). assert (E : existsb (in_pack fs' o) (pack_names fs') = true); [|congruence].
      apply existsb_exists. exists n. unfold in_pack, pack_objs, idx_ok in *.
      rewrite <- !Same in Hi by (right; right; right; right; right; eauto). split; [|assumption].
      apply in_pack_names. destruct (flookup fs' (PPackF n XPack)); [congruence|discriminate]. }
  apply (repo_ok_refs g fs fs'); try assumption.
  - destruct R as [F _]. apply files_ok_iff in F as (H1 & H2 & H3 & H4 & H5 & H6 & H7).
    apply files_ok_iff. unfold head_okP, shallow_okP, shallow_of, index_okP, config_okP, pack_file_ok, idx_ok in *.
    rewrite !Same by tauto. repeat split; try assumption.
    intro n. rewrite !Same by (right; right; right; right; right; eauto). apply H5.
  - unfold shallow_of. now rewrite Same by tauto.
  - intros o Ha. now rewrite Eobj.
  - intros x Hx. apply in_ref_roots in Hx as [H|[(n & H)|(l & n & E & Hin & Hl)]].
    + apply in_ref_roots. left. now rewrite Same in H by tauto.
    + eapply HL; eassumption.
    + eapply HP; eassumption.
Qed.

Lemma packed_refs_whole fs l : flookup fs PPacked = Some (Whole (DPackedRefs l)) -> packed_refs fs = Some l.
Proof. unfold packed_refs. now intros ->. Qed.

Lemma in_roots_loose fs m o : flookup fs (PRef m) = Some (Whole (DRef (RHash o))) -> In o (ref_roots fs).
Proof. intro H. apply in_ref_roots. right. left. eauto. Qed.

Lemma in_roots_packed fs l m o :
  packed_refs fs = Some l -> In (m, o) l -> flookup fs (PRef m) = None -> In o (ref_roots fs).
Proof. intros. apply in_ref_roots. right. right. eauto. Qed.

Lemma repo_ok_ref_files g fs : repo_ok g fs -> forall m, ref_file_ok fs m = true.
Proof. intros [F _]. apply files_ok_iff in F. tauto. Qed.

Lemma string_eqb_false_r a b : a <> b -> String.eqb a b = false.
Proof. intro H. now apply String.eqb_neq. Qed.

Lemma flookup_other fs t c q : q <> t -> flookup (fset fs t c) q = flookup fs q.
Proof. intro H. rewrite flookup_fset. replace (path_eqb t q) with false; [reflexivity|]. symmetry. apply path_eqb_neq. congruence. Qed.
Lemma flookup_del_other fs t q : q <> t -> flookup (fdel fs t) q = flookup fs q.
Proof. intro H. rewrite flookup_fdel. replace (path_eqb t q) with false; [reflexivity|]. symmetry. apply path_eqb_neq. congruence. Qed.

Lemma crash_states_app a b fs :
  crash_states (a ++ b) fs = crash_states a fs ++ crash_states b (run a fs).
Proof.
  revert fs. induction a as [|m a IH]; intro fs; [reflexivity|].
  cbn [app crash_states run fold_left]. rewrite IH. rewrite <- app_assoc. reflexivity.
Qed.

Lemma run_in_states a : forall fs, a <> [] -> In (run a fs) (crash_states a fs).
Proof.
  induction a as [|m r IH]; intros fs H; [congruence|].
  cbn [crash_states run fold_left]. apply in_or_app. right.
  destruct r as [|m' r']; [now left|]. right. apply IH. discriminate.
Qed.

Lemma rmref_safe g fs n : repo_ok g fs -> crash_safe g fs (op_rmref fs n).
Proof.
  intro R. unfold crash_safe, op_rmref.
  assert (RF := repo_ok_ref_files _ _ R).
  assert (PK : packed_okP fs = true) by (destruct R as [F _]; apply files_ok_iff in F; tauto).
  (* the final removal of the loose file, from any state whose packed-refs has no entry for n *)
  assert (Final : forall s, repo_ok g s -> (forall l m o, packed_refs s = Some l -> In (m, o) l -> m <> n) ->
            Forall (repo_ok g) (crash_states (if fexists fs (PRef n) then [MRemove (PRef n)] else []) s)).
  { intros s Rs Hn. destruct (fexists fs (PRef n)); cbn [crash_states mid_states apply app]; split_states.
    apply (refs_state g s); try exact Rs.
    - intros q Hq. flk. destruct Hq as [->|[->|[->|[->|[(o & ->)|(m & x & ->)]]]]]; reflexivity.
    - intro m. unfold ref_file_ok. flk. destruct (String.eqb n m); [reflexivity|]. apply (repo_ok_ref_files _ _ Rs).
    - unfold packed_okP, packed_refs. flk. destruct Rs as [F _]. apply files_ok_iff in F. tauto.
    - intros m o. flk. destruct (String.eqb n m); [discriminate|]. apply in_roots_loose.
    - intros l' m o Hp Hin Hl. assert (Hp' : packed_refs s = Some l') by (revert Hp; unfold packed_refs; flk; auto).
      revert Hl. flk. destruct (String.eqb n m) eqn:E.
      + apply String.eqb_eq in E. subst m. exfalso. eapply Hn; eauto.
      + intro Hl. eapply in_roots_packed; eassumption. }
  unfold packed_okP in PK. destruct (packed_refs fs) as [l0|] eqn:Epr; [|discriminate]. clear PK.
  unfold packed_refs in Epr.
  destruct (flookup fs PPacked) as [[d| |]|] eqn:Ep; try discriminate.
  - destruct d; try discriminate. inversion Epr; subst l0. clear Epr.
    (* packed-refs with entries *)
    set (rest := filter (fun e => negb (String.eqb (fst e) n)) l).
    assert (Hrest : forall m o, In (m, o) rest -> In (m, o) l /\ m <> n).
    { intros m o Hin. apply filter_In in Hin as [Hin Hne]. cbn in Hne. apply negb_true_iff, String.eqb_neq in Hne. auto. }
    assert (Hpl : packed_refs fs = Some l) by now apply packed_refs_whole.
    clearbody rest.
    assert (Renamed : forall s c, (c = Empty /\ rest = [] \/ c = Whole (DPackedRefs rest)) ->
              (forall q, q <> PPacked -> q <> (PTmp TPRefs 0) -> flookup s q = flookup fs q) ->
              flookup s (PTmp TPRefs 0) = Some c -> repo_ok g (fset (fdel s (PTmp TPRefs 0)) PPacked c)).
    { intros s c Hc Hs Ht. apply (refs_state g fs); try exact R.
      - intros q Hq. flk. destruct Hq as [->|[->|[->|[->|[(o & ->)|(m & x & ->)]]]]]; cbn [path_eqb]; apply Hs; congruence.
      - intro m. unfold ref_file_ok. flk. rewrite Hs by congruence. apply RF.
      - unfold packed_okP, packed_refs. flk. destruct Hc as [[-> _]| ->]; reflexivity.
      - intros m o. flk. rewrite Hs by congruence. apply in_roots_loose.
      - intros l' m o Hp Hin. flk. rewrite Hs by congruence. intro Hl.
        assert (l' = rest).
        { revert Hp. unfold packed_refs. flk. destruct Hc as [[-> ->]| ->]; intro Hp; inversion Hp; reflexivity. }
        subst l'. destruct (Hrest _ _ Hin) as [Hin' _]. eapply in_roots_packed; eassumption. }
    assert (Ag : forall c, agree fs (fset fs (PTmp TPRefs 0) c)) by (intro; apply agree_set_tmp).
    rewrite crash_states_app.
    match goal with |- Forall _ (?A ++ _) => assert (H1 : Forall (repo_ok g) A) end; [|apply Forall_app; split; [exact H1|]].
    + (* the rewrite of packed-refs *)
      destruct rest as [|e0 rest'] eqn:Er; destruct (existsb (fun e => String.eqb (fst e) n) l) eqn:Ef;
        cbn [app crash_states mid_states apply]; flk; split_states;
        try (eapply agree_repo_ok; [|exact R]; intros q Hq; flk; destruct q; cbn in Hq; try discriminate; reflexivity).
      * apply (Renamed (fset fs (PTmp TPRefs 0) Empty) Empty); [left; auto| |flk; reflexivity].
        intros q Hq Hq2. now rewrite !flookup_other.
      * rewrite ?Nat.eqb_refl. cbn [andb]. apply (Renamed _ (Whole (DPackedRefs (e0 :: rest')))); [right; reflexivity| |flk; reflexivity].
        intros q Hq Hq2. now rewrite !flookup_other.
    + (* the loose file *)
      apply Final.
      * eapply Forall_forall; [exact H1|]. apply run_in_states. discriminate.
      * intros l' m o Hp Hin.
        destruct rest as [|e0 rest'] eqn:Er; destruct (existsb (fun e => String.eqb (fst e) n) l) eqn:Ef;
          cbn [app run fold_left apply] in Hp; revert Hp; unfold packed_refs; flk; rewrite ?Nat.eqb_refl; cbn [andb]; flk;
          rewrite ?Ep; intro Hp; inversion Hp; subst l'.
        -- destruct Hin.
        -- intros ->. assert (Hx : existsb (fun e => String.eqb (fst e) n) l = true); [|congruence].
           apply existsb_exists. exists (n, o). split; [assumption|apply String.eqb_refl].
        -- now apply (Hrest m o).
        -- intros ->. assert (Hx : existsb (fun e => String.eqb (fst e) n) l = true); [|congruence].
           apply existsb_exists. exists (n, o). split; [assumption|apply String.eqb_refl].
  - (* empty packed-refs *)
    rewrite crash_states_app. apply Forall_app. split.
    + cbn [crash_states mid_states apply app]. split_states;
        (eapply agree_repo_ok; [|exact R]; intros q Hq; flk; destruct q; cbn in Hq; try discriminate; reflexivity).
    + apply Final.
      * eapply agree_repo_ok; [|exact R]. intros q Hq. cbn [run fold_left apply]. flk. destruct q; cbn in Hq; try discriminate; reflexivity.
      * intros l' m o Hp. revert Hp. cbn [run fold_left apply]. unfold packed_refs. flk. rewrite Ep. intro Hp; inversion Hp. intros [].
  - (* no packed-refs file *)
    cbn [app]. apply Final; [exact R|].
    intros l' m o Hp. revert Hp. unfold packed_refs. rewrite Ep. intro Hp; inversion Hp. intros [].
Qed.

(* ---------- PackRefs ---------- *)

Lemma flookup_fold_fdel ns : forall fs q,
  flookup (fold_left fdel (map PRef ns) fs) q =
  match q with PRef m => if existsb (String.eqb m) ns then None else flookup fs q | _ => flookup fs q end.
Proof.
  induction ns as [|n ns IH]; intros fs q; cbn [map fold_left existsb].
  - destruct q; reflexivity.
  - rewrite IH. destruct q; try (rewrite flookup_fdel; reflexivity).
    rewrite flookup_fdel. cbn [path_eqb]. rewrite (String.eqb_sym n0 n).
    destruct (String.eqb n n0); cbn [orb]; [destruct (existsb _ ns); reflexivity|reflexivity].
Qed.

Lemma remove_prefixes_spec ps : forall fs s, In s (remove_prefixes ps fs) ->
  exists ps', s = fold_left fdel ps' fs /\ exists r, ps = ps' ++ r.
Proof.
  induction ps as [|p r IH]; intros fs s H; cbn in H; [destruct H|].
  destruct r as [|p' r']; [destruct H|].
  destruct H as [<-|H].
  - exists [p]. split; [reflexivity|]. now exists (p' :: r').
  - destruct (IH _ _ H) as (ps' & -> & r0 & E). exists (p :: ps'). split; [reflexivity|].
    exists r0. cbn. now rewrite E.
Qed.

Lemma in_loose_hash_refs fs m o :
  In (m, o) (loose_hash_refs fs) -> flookup fs (PRef m) = Some (Whole (DRef (RHash o))).
Proof.
  unfold loose_hash_refs. intro H. apply in_flat_map in H as (n & _ & H).
  destruct (flookup fs (PRef n)) as [[[[]| | | | | | | |]| |]|] eqn:E; cbn in H; try contradiction.
  destruct H as [H|[]]. inversion H; subst. assumption.
Qed.

Lemma prefix_map_ref l : forall ps' r, map PRef l = ps' ++ r -> exists l', ps' = map PRef l'.
Proof.
  induction l as [|x l IH]; intros ps' r E.
  - destruct ps'; [now exists []|discriminate].
  - destruct ps' as [|p ps]; [now exists []|].
    cbn in E. inversion E; subst. destruct (IH _ _ H1) as (l' & ->). now exists (x :: l').
Qed.

Lemma packrefs_safe g fs : repo_ok g fs -> crash_safe g fs (op_packrefs fs).
Proof.
  intro R. unfold crash_safe, op_packrefs.
  assert (RF := repo_ok_ref_files _ _ R).
  assert (PK : packed_okP fs = true) by (destruct R as [F _]; apply files_ok_iff in F; tauto).
  unfold packed_okP in PK. destruct (packed_refs fs) as [old|] eqn:Eold; [|discriminate]. clear PK.
  set (all := loose_hash_refs fs ++ filter (fun e => negb (is_loose_name fs (fst e))) old).
  assert (Gen : forall s l',
            (forall q, (q = PHead \/ q = PShallow \/ q = PIndex \/ q = PConfig \/ (exists o, q = PLoose o) \/ (exists n x, q = PPackF n x)) ->
                       flookup s q = flookup fs q) ->
            (forall m, flookup s (PRef m) = flookup fs (PRef m) \/ flookup s (PRef m) = None) ->
            packed_refs s = Some l' ->
            (forall m o, In (m, o) l' -> flookup s (PRef m) = None -> In o (ref_roots fs)) ->
            repo_ok g s).
  { intros s l' Same Refs Pk Hl. apply (refs_state g fs); try exact R; try assumption.
    - intro m. unfold ref_file_ok. destruct (Refs m) as [->| ->]; [apply RF|reflexivity].
    - unfold packed_okP. now rewrite Pk.
    - intros m o H. destruct (Refs m) as [E|E]; rewrite E in H; [now apply in_roots_loose in H|discriminate].
    - intros l'' m o Hp Hin Hn. rewrite Pk in Hp. inversion Hp; subst. eapply Hl; eassumption. }
  assert (Hold : forall m o, In (m, o) old -> flookup fs (PRef m) = None -> In o (ref_roots fs))
    by (intros; eapply in_roots_packed; eassumption).
  assert (Hall : forall m o, In (m, o) all -> In o (ref_roots fs)).
  { intros m o H. apply in_app_or in H as [H|H].
    - apply in_loose_hash_refs in H. now apply in_roots_loose in H.
    - apply filter_In in H as [H Hn]. cbn in Hn. apply negb_true_iff in Hn. unfold is_loose_name in Hn.
      apply fexists_false in Hn. now apply (Hold m o). }
  rewrite crash_states_app. apply Forall_app. split.
  - destruct (fexists fs PPacked) eqn:Ex; cbn [crash_states mid_states apply]; split_states.
    apply fexists_false in Ex.
    apply (Gen _ []); try (intros q Hq; flk; destruct Hq as [->|[->|[->|[->|[(o & ->)|(m & x & ->)]]]]]; reflexivity).
    + intro m. left. flk. reflexivity.
    + unfold packed_refs. flk. reflexivity.
    + intros m o [].
  - destruct (ref_names fs) as [|n0 ns0] eqn:En; [constructor|]. clear En n0 ns0.
    set (s0 := run (if fexists fs PPacked then [] else [MCreate PPacked]) fs).
    assert (S0 : forall q, q <> PPacked -> flookup s0 q = flookup fs q).
    { intros q Hq. unfold s0. destruct (fexists fs PPacked); cbn [run fold_left apply]; [reflexivity|]. now rewrite flookup_other. }
    assert (P0 : packed_refs s0 = Some old).
    { unfold s0. destruct (fexists fs PPacked) eqn:Ex; cbn [run fold_left apply]; [assumption|].
      apply fexists_false in Ex. unfold packed_refs in *. flk. rewrite Ex in Eold. exact Eold. }
    (* states in which only the temp file differs from s0 *)
    assert (Told : forall s, (forall q, q <> PPacked -> q <> PTmp TPRefs 0 -> flookup s q = flookup fs q) ->
                             flookup s PPacked = flookup s0 PPacked -> repo_ok g s).
    { intros s T0 Tp. apply (Gen _ old).
      - intros q Hq. apply T0; destruct Hq as [->|[->|[->|[->|[(o & ->)|(m & x & ->)]]]]]; discriminate.
      - intro m. left. apply T0; discriminate.
      - revert P0. unfold packed_refs. now rewrite Tp.
      - intros m o Hin Hn. rewrite T0 in Hn by discriminate. now apply (Hold m o). }
    (* states after the rename, with any set of loose reference files removed *)
    assert (Tdel : forall sr ns, (forall q, q <> PPacked -> q <> PTmp TPRefs 0 -> flookup sr q = flookup fs q) ->
                                 packed_refs sr = Some all -> repo_ok g (fold_left fdel (map PRef ns) sr)).
    { intros sr ns SR Pr. apply (Gen _ all).
      - intros q Hq. rewrite flookup_fold_fdel.
        destruct Hq as [->|[->|[->|[->|[(o & ->)|(m & x & ->)]]]]]; apply SR; discriminate.
      - intro m. rewrite flookup_fold_fdel. destruct (existsb (String.eqb m) ns); [now right|left; apply SR; discriminate].
      - revert Pr. unfold packed_refs. now rewrite flookup_fold_fdel.
      - intros m o Hin _. now apply (Hall m o). }
    set (W := match all with [] => [] | _ => [MWrite (PTmp TPRefs 0) (DPackedRefs all)] end).
    set (s1 := run ([MTemp (PTmp TPRefs 0)] ++ W) s0).
    assert (S1 : forall q, q <> PPacked -> q <> PTmp TPRefs 0 -> flookup s1 q = flookup fs q).
    { intros q H1 H2. unfold s1, W. destruct all; cbn [app run fold_left apply]; rewrite ?flookup_other by assumption; now apply S0. }
    assert (S1t : exists c, flookup s1 (PTmp TPRefs 0) = Some c /\ packed_refs (fset (fdel s1 (PTmp TPRefs 0)) PPacked c) = Some all).
    { unfold s1, W. destruct all as [|e0 al] eqn:Ea; cbn [app run fold_left apply].
      - exists Empty. split; [flk; reflexivity|unfold packed_refs; flk; reflexivity].
      - exists (Whole (DPackedRefs (e0 :: al))). split; [flk; reflexivity|unfold packed_refs; flk; reflexivity]. }
    destruct S1t as (c1 & Ht1 & Pr1).
    set (sr := fset (fdel s1 (PTmp TPRefs 0)) PPacked c1).
    assert (SR : forall q, q <> PPacked -> q <> PTmp TPRefs 0 -> flookup sr q = flookup fs q).
    { intros q H1 H2. unfold sr. rewrite flookup_other, flookup_del_other by assumption. now apply S1. }
    change (Forall (repo_ok g) (crash_states (([MTemp (PTmp TPRefs 0)] ++ W) ++ [MRename (PTmp TPRefs 0) PPacked]
              ++ match map fst (loose_hash_refs fs) with [] => [] | n :: l => [MRemoveSet (map PRef (n :: l))] end) s0)).
    rewrite crash_states_app. apply Forall_app. split.
    + unfold W. destruct all; cbn [app crash_states mid_states apply]; split_states;
        (apply Told; [intros q H1 H2; rewrite ?flookup_other by assumption; now apply S0|now rewrite ?flookup_other by discriminate]).
    + fold s1. cbn [app crash_states mid_states apply]. rewrite Ht1. fold sr. apply Forall_cons.
      * apply (Tdel sr [] SR Pr1).
      * destruct (map fst (loose_hash_refs fs)) as [|n l] eqn:El; [constructor|]. rewrite <- El. clear El.
        cbn [crash_states mid_states apply]. apply Forall_app. split.
        -- apply Forall_forall. intros s Hs. apply remove_prefixes_spec in Hs as (ps' & -> & r & E).
           destruct (prefix_map_ref _ _ _ E) as (ns' & ->). now apply Tdel.
        -- constructor; [now apply Tdel|constructor].
Qed.

(* ---------- Prune and RepackObjects: the link to the C22 walker ---------- *)

Lemma in_loose_ids fs o : In o (loose_ids fs) <-> loose_ok fs o = true.
Proof.
  unfold loose_ids. rewrite filter_In, In_sort_n. split; [tauto|]. intro H. split; [|assumption].
  unfold loose_keys. apply in_flat_map. exists (PLoose o). split; [|now left].
  apply flookup_keys. unfold loose_ok in H. destruct (flookup fs (PLoose o)); [congruence|discriminate].
Qed.

Lemma stored_to_repo g fs ol op o : stored (to_repo g fs ol op) o = true <-> avail fs o = true.
Proof.
  unfold stored, to_repo. cbn [loose packs]. rewrite orb_true_iff, avail_iff.
  rewrite map_map. cbn [fst]. rewrite map_id, mem_In, in_loose_ids.
  rewrite existsb_exists. split.
  - intros [H|(p & Hp & Hm)]; [now left|right].
    apply in_map_iff in Hp as ([n os] & <- & Hin). cbn [p_objs fst snd] in Hm.
    unfold pack_files in Hin. apply in_flat_map in Hin as (n' & _ & Hin).
    destruct (pack_objs fs n') as [os'|] eqn:E; [|destruct Hin]. destruct Hin as [Hin|[]]. inversion Hin; subst.
    exists n. unfold in_pack. rewrite E. destruct (idx_ok fs n os); [assumption|discriminate].
  - intros [H|(n & H)]; [now left|right].
    unfold in_pack in H. destruct (pack_objs fs n) as [os|] eqn:E; [|discriminate].
    apply andb_true_iff in H as [Hi Hm].
    exists {| p_name := (sort_n os, 0); p_old := existsb (String.eqb n) op; p_promisor := pack_is_promisor fs n; p_objs := if idx_ok fs n os then os else [] |}.
    split; [|cbn; now rewrite Hi].
    apply in_map_iff. exists (n, os). split; [reflexivity|].
    unfold pack_files. apply in_flat_map. exists n. split; [|rewrite E; now left].
    apply in_pack_names. unfold pack_objs in E. destruct (flookup fs (PPackF n XPack)); [congruence|discriminate].
Qed.

Lemma get_to_repo g fs ol op o : avail fs o = true -> get (to_repo g fs ol op) o = assoc g o.
Proof. intro H. unfold get. apply stored_to_repo with (g := g) (ol := ol) (op := op) in H. now rewrite H. Qed.

Lemma gitlink_submodule m : is_gitlink m = false -> m <> filemode_Submodule.
Proof. intros H ->. vm_compute in H. discriminate. Qed.

Lemma reach_roots r rs rs' h : (forall x, In x rs -> In x rs') -> reach r rs h -> reach r rs' h.
Proof. intros H Hr. induction Hr; [apply reach_root; auto|eapply reach_step; eassumption]. Qed.

Lemma needed_live g fs ol op o :
  repo_ok g fs -> needed g (ref_roots fs) (shallow_list fs) o -> live (to_repo g fs ol op) o.
Proof.
  intros [_ N] Hn. unfold live.
  apply reach_roots with (rs := ref_roots fs); [intros; apply in_or_app; now left|].
  induction Hn as [o Hr|o c Hn IH Hk]; [now apply reach_root|].
  apply reach_step with (h := o); [assumption|].
  destruct (N o Hn) as [Ha _]. unfold child. rewrite (get_to_repo _ _ _ _ _ Ha).
  unfold kid in Hk. destruct (assoc g o) as [[|es|t ps|t]|]; try contradiction.
  - destruct Hk as (m & Hin & Hg). exists m. split; [assumption|now apply gitlink_submodule].
  - destruct Hk as [->|[Hs Hin]]; [now left|right]. split; [|assumption].
    cbn [shallow to_repo]. unfold shallow_list in Hs. exact Hs.
  - assumption.
Qed.

Lemma needed_seen g fs ol op fuel st o :
  let r := to_repo g fs ol op in
  wf_modes r = true -> wf_index r = true -> walk_all fuel r = Ok st ->
  repo_ok g fs -> needed g (ref_roots fs) (shallow_list fs) o -> In o st.(seen) /\ ~ In o st.(missing).
Proof.
  intros r Wm Wi Hw R Hn.
  destruct (walk_all_live fuel r st Wm Wi Hw) as [Hl Hm].
  destruct R as [F N]. destruct (N o Hn) as [Ha Hk].
  assert (Hg : get r o = assoc g o) by now apply get_to_repo.
  split.
  - destruct (Hl o (needed_live g fs ol op o (conj F N) Hn)) as [H|H]; [assumption|]. fold r in H. congruence.
  - intro Hmi. apply Hm in Hmi. unfold has in Hmi. rewrite Hg in Hmi. destruct (assoc g o); congruence.
Qed.

Lemma flookup_fold_fdel_loose ds : forall fs q,
  flookup (fold_left fdel (map PLoose ds) fs) q =
  match q with PLoose o => if mem o ds then None else flookup fs q | _ => flookup fs q end.
Proof.
  induction ds as [|d ds IH]; intros fs q; cbn [map fold_left].
  - destruct q; reflexivity.
  - rewrite IH. destruct q; try (rewrite flookup_fdel; reflexivity).
    rewrite flookup_fdel. cbn [path_eqb]. unfold mem. cbn [existsb]. rewrite (N.eqb_sym o d).
    destruct (d =? o); cbn [orb]; [destruct (existsb (N.eqb o) ds); reflexivity|reflexivity].
Qed.

Lemma prefix_map_loose l : forall ps' r, map PLoose l = ps' ++ r -> exists l', ps' = map PLoose l' /\ exists r', l = l' ++ r'.
Proof.
  induction l as [|x l IH]; intros ps' r E.
  - destruct ps'; [exists []; split; [reflexivity|now exists []]|discriminate].
  - destruct ps' as [|p ps]; [exists []; split; [reflexivity|now exists (x :: l)]|].
    cbn in E. inversion E; subst. destruct (IH _ _ H1) as (l' & -> & r' & ->).
    exists (x :: l'). split; [reflexivity|now exists r'].
Qed.

(* removing loose objects that are not needed keeps the repository fine *)
Lemma remove_unneeded_loose g fs ds :
  repo_ok g fs ->
  (forall o, needed g (ref_roots fs) (shallow_list fs) o -> In o ds -> exists n, in_pack fs o n = true) ->
  repo_ok g (fold_left fdel (map PLoose ds) fs).
Proof.
  intros R H. set (s := fold_left fdel (map PLoose ds) fs).
  assert (Am : agree_meta fs s) by (intros q Hq; unfold s; rewrite flookup_fold_fdel_loose; destruct q; cbn in Hq; try discriminate; reflexivity).
  assert (Pk : forall n x, flookup s (PPackF n x) = flookup fs (PPackF n x)) by (intros; unfold s; now rewrite flookup_fold_fdel_loose).
  assert (Ip : forall x n, in_pack s x n = in_pack fs x n) by (intros; unfold in_pack, pack_objs, idx_ok; now rewrite !Pk).
  destruct R as [F N]. split.
  - apply files_ok_iff. apply files_ok_iff in F as (H1 & H2 & H3 & H4 & H5 & H6 & H7).
    unfold head_okP, packed_okP, shallow_okP, index_okP, config_okP, ref_file_ok, pack_file_ok, idx_ok in *.
    rewrite (meta_packed _ _ Am), (meta_shallow _ _ Am), !Am by reflexivity. repeat split; try assumption.
    + intro n. rewrite Am by reflexivity. apply H2.
    + intro n. rewrite !Pk. apply H5.
  - intros o Hn. unfold shallow_list in Hn. rewrite (meta_shallow _ _ Am) in Hn.
    assert (Hn' := needed_roots _ _ _ _ _ (fun x => meta_roots fs s x Am) Hn).
    destruct (N o Hn') as [Ha Hk]. split; [|assumption].
    apply avail_iff. apply avail_iff in Ha as [Ha|(n & Ha)].
    + destruct (mem o ds) eqn:Ed.
      * apply mem_In in Ed. destruct (H o Hn' Ed) as (n & Hp). right. exists n. now rewrite Ip.
      * left. unfold loose_ok, s. rewrite flookup_fold_fdel_loose, Ed. exact Ha.
    + right. exists n. now rewrite Ip.
Qed.

Lemma prune_safe g fs ol lim :
  let r := to_repo g fs ol [] in
  wf_modes r = true -> wf_index r = true ->
  repo_ok g fs -> crash_safe g fs (op_prune g fs ol lim).
Proof.
  intros r Wm Wi R. unfold crash_safe, op_prune. fold r.
  destruct (walk_all (gc_fuel r) r) as [st|e] eqn:Hw; [|constructor].
  set (del := filter (fun o => negb (mem o st.(seen) || (lim && negb (mem o ol)))) (loose_ids fs)).
  assert (Hdel : forall ds, (forall o, In o ds -> In o del) -> repo_ok g (fold_left fdel (map PLoose ds) fs)).
  { intros ds Hds. apply remove_unneeded_loose; [assumption|].
    intros o Hn Hin. exfalso. apply Hds in Hin. unfold del in Hin. apply filter_In in Hin as [_ Hin].
    apply negb_true_iff, orb_false_iff in Hin as [Hs _]. apply mem_nIn in Hs.
    destruct (needed_seen g fs ol [] _ st o Wm Wi Hw R Hn) as [Hseen _]. contradiction. }
  destruct del as [|d0 del'] eqn:Ed; [constructor|]. rewrite <- Ed in *. clear Ed d0 del'.
  cbn [crash_states mid_states apply]. apply Forall_app. split.
  - apply Forall_forall. intros s Hs. apply remove_prefixes_spec in Hs as (ps' & -> & rr & E).
    destruct (prefix_map_loose _ _ _ E) as (l' & -> & r' & E'). apply Hdel.
    intros o Ho. rewrite E'. apply in_or_app. now left.
  - constructor; [|constructor]. apply Hdel. auto.
Qed.

(* ---------- RepackObjects ---------- *)

Lemma flookup_fold_fdel_gen ps : forall fs q,
  flookup (fold_left fdel ps fs) q = if existsb (path_eqb q) ps then None else flookup fs q.
Proof.
  induction ps as [|p ps IH]; intros fs q; cbn [fold_left existsb]; [reflexivity|].
  rewrite IH, flookup_fdel, (path_eqb_sym q p).
  destruct (path_eqb p q); cbn [orb]; [destruct (existsb _ ps); reflexivity|reflexivity].
Qed.

Lemma existsb_path q ps : existsb (path_eqb q) ps = true <-> In q ps.
Proof.
  rewrite existsb_exists. split.
  - intros (x & Hx & E). apply path_eqb_eq in E. now subst.
  - intro H. exists q. split; [assumption|apply path_eqb_refl].
Qed.

Lemma in_pack_exts fs n q : In q (pack_exts fs n) -> exists x, q = PPackF n x.
Proof.
  unfold pack_exts. intro H. apply filter_In in H as [H _].
  cbn in H. destruct H as [<-|[<-|[<-|[<-|[]]]]]; eauto.
Qed.

(* in the list of old pack files to delete, a pack always goes before its idx *)
Lemma pack_before_idx fs (keep : string -> bool) names : forall pre post,
  flat_map (fun n => if keep n then [] else pack_exts fs n) names = pre ++ post ->
  forall n, In (PPackF n XIdx) pre -> In (PPackF n XPack) pre \/ flookup fs (PPackF n XPack) = None.
Proof.
  induction names as [|n0 ns IH]; intros pre post E n Hin; cbn [flat_map] in E.
  - destruct pre; [destruct Hin|discriminate].
  - set (B := if keep n0 then [] else pack_exts fs n0) in E.
    assert (HB : forall q, In q B -> exists x, q = PPackF n0 x).
    { intros q Hq. unfold B in Hq. destruct (keep n0); [destruct Hq|now apply in_pack_exts in Hq]. }
    assert (HP : forall l r, B = l ++ r -> In (PPackF n0 XIdx) l -> In (PPackF n0 XPack) l \/ flookup fs (PPackF n0 XPack) = None).
    { intros l r EB Hl. unfold B in EB. destruct (keep n0); [destruct l; [destruct Hl|discriminate]|].
      unfold pack_exts in EB. cbn [filter] in EB.
      destruct (fexists fs (PPackF n0 XPack)) eqn:Ex; [|right; now apply fexists_false].
      destruct l as [|a l']; [destruct Hl|]. cbn in EB. inversion EB; subst. left. now left. }
    apply app_eq_app in E as (l & [[E1 E2]|[E1 E2]]).
    + (* B = pre ++ l *)
      assert (Hq : In (PPackF n XIdx) B) by (rewrite E1; apply in_or_app; now left).
      destruct (HB _ Hq) as (x & Ex). inversion Ex; subst n. now apply (HP pre l).
    + (* pre = B ++ l *)
      subst pre. apply in_app_or in Hin as [Hin|Hin].
      * destruct (HB _ Hin) as (x & Ex). inversion Ex; subst n.
        destruct (HP B [] (eq_sym (app_nil_r B)) Hin) as [H|H]; [left; apply in_or_app; now left|now right].
      * destruct (IH _ _ E2 n Hin) as [H|H]; [left; apply in_or_app; now right|now right].
Qed.

Lemma repack_safe g fs op lim :
  let r := to_repo g fs [] op in
  wf_modes r = true -> wf_index r = true ->
  pack_fresh fs (new_pack_name fs) = true ->
  repo_ok g fs -> crash_safe g fs (op_repack g fs op lim).
Proof.
  intros r Wm Wi Fr R. unfold crash_safe, op_repack. fold r.
  destruct (walk_all (gc_fuel r) r) as [st|e] eqn:Hw; [|constructor].
  set (os := present st). set (name := new_pack_name fs) in *.
  destruct (forallb (has r) os) eqn:Hhas.
  2:{ cbn [crash_states mid_states apply]. split_states. eapply agree_repo_ok; [apply agree_set_tmp|exact R]. }
  (* everything needed is in the new pack *)
  assert (Hos : forall o, needed g (ref_roots fs) (shallow_list fs) o -> In o os).
  { intros o Hn. destruct (needed_seen g fs [] op _ st o Wm Wi Hw R Hn) as [Hs Hm].
    unfold os, present. apply filter_In. split; [assumption|]. now apply negb_true_iff, mem_nIn. }
  assert (Fr' := Fr). unfold pack_fresh in Fr'. apply negb_true_iff in Fr'. repeat (apply orb_false_iff in Fr' as [Fr' ?]).
  assert (F1 := fexists_false _ _ Fr'). assert (F2 := fexists_false _ _ H1).
  (* a state in which the new pack is in place, loose objects may be gone, old packs may be (partly) gone *)
  assert (After : forall s,
            (forall q, meta q = true -> flookup s q = flookup fs q) ->
            flookup s (PPackF name XPack) = Some (Whole (DPack os)) ->
            flookup s (PPackF name XIdx) = Some (Whole (DIdx os)) ->
            (forall n, n <> name ->
               (flookup s (PPackF n XPack) = flookup fs (PPackF n XPack) /\ flookup s (PPackF n XIdx) = flookup fs (PPackF n XIdx))
               \/ flookup s (PPackF n XPack) = None) ->
            repo_ok g s).
  { intros s Am Hp Hi Hold. destruct R as [F N]. split.
    - apply files_ok_iff. apply files_ok_iff in F as (K1 & K2 & K3 & K4 & K5 & K6 & K7).
      unfold head_okP, packed_okP, shallow_okP, index_okP, config_okP, ref_file_ok in *.
      rewrite (meta_packed _ _ Am), (meta_shallow _ _ Am), !Am by reflexivity. repeat split; try assumption.
      + intro n. rewrite Am by reflexivity. apply K2.
      + intro n. unfold pack_file_ok, idx_ok. destruct (string_dec n name) as [->|Hne].
        * rewrite Hp, Hi. apply ids_eqb_refl.
        * destruct (Hold n Hne) as [[E1 E2]|E1]; [rewrite E1, E2; apply (K5 n)|now rewrite E1].
    - intros o Hn. unfold shallow_list in Hn. rewrite (meta_shallow _ _ Am) in Hn.
      assert (Hn' := needed_roots _ _ _ _ _ (fun x => meta_roots fs s x Am) Hn).
      destruct (N o Hn') as [_ Hk]. split; [|assumption].
      apply avail_iff. right. exists name. unfold in_pack, pack_objs, idx_ok. rewrite Hp, Hi, ids_eqb_refl.
      cbn [andb]. apply mem_In. now apply Hos. }
  set (first := [MTemp (PTmp TPack 0); MWrite (PTmp TPack 0) (DPack os)] ++ pack_save name (PTmp TPack 0) os (promisor r)).
  rewrite app_assoc. fold first. rewrite crash_states_app. apply Forall_app. split.
  - (* writing the pack *)
    unfold first. rewrite crash_states_app. apply Forall_app. split.
    + cbn [crash_states mid_states apply]. split_states;
        (eapply agree_repo_ok; [|exact R]; intros q Hq; flk; destruct q; cbn in Hq; try discriminate; reflexivity).
    + cbn [run fold_left apply]. apply (pack_save_safe g fs); try assumption.
      * intros q Hq. flk. destruct q; cbn in Hq; try discriminate; reflexivity.
      * intro x. flk. reflexivity.
      * intros n x. flk. reflexivity.
      * now exists 0%nat.
      * flk. reflexivity.
  - (* removing what the new pack replaces *)
    set (S := run first fs).
    assert (SL : forall q, (forall x, q <> PPackF name x) -> (forall k, q <> PTmp TPack k) -> flookup S q = flookup fs q).
    { intros q Hq Ht. unfold S, first, pack_save. destruct (promisor r); cbn [app run fold_left apply]; flk;
        rewrite ?Nat.eqb_refl; cbn [andb]; flk;
        destruct q; try reflexivity; try (exfalso; eapply Ht; reflexivity);
        cbn [path_eqb tkind_eqb]; rewrite ?andb_false_r;
        try (destruct (String.eqb name name0) eqn:E; [apply String.eqb_eq in E; subst; exfalso; eapply Hq; reflexivity|]);
        cbn [andb]; try reflexivity; destruct k; try reflexivity; destruct n; try reflexivity; exfalso; eapply Ht; reflexivity. }
    assert (SP : flookup S (PPackF name XPack) = Some (Whole (DPack os)) /\ flookup S (PPackF name XIdx) = Some (Whole (DIdx os))).
    { unfold S, first, pack_save. destruct (promisor r); cbn [app run fold_left apply]; flk;
        rewrite ?Nat.eqb_refl, ?String.eqb_refl; cbn [andb]; flk; rewrite ?String.eqb_refl; cbn [andb]; split; reflexivity. }
    destruct SP as [SP1 SP2].
    (* any set of deletions that keeps the new pack and deletes an old idx only after its pack *)
    assert (Del : forall ps,
              (forall q, In q ps -> (exists o, q = PLoose o) \/ (exists n x, q = PPackF n x /\ n <> name)) ->
              (forall n, In (PPackF n XIdx) ps -> In (PPackF n XPack) ps \/ flookup fs (PPackF n XPack) = None) ->
              repo_ok g (fold_left fdel ps S)).
    { intros ps Hps Hord. apply After.
      - intros q Hq. rewrite flookup_fold_fdel_gen.
        destruct (existsb (path_eqb q) ps) eqn:E.
        + apply existsb_path in E. destruct (Hps _ E) as [(o & ->)|(n & x & -> & _)]; discriminate.
        + apply SL; intros; destruct q; cbn in Hq; discriminate.
      - rewrite flookup_fold_fdel_gen. destruct (existsb _ ps) eqn:E; [|assumption].
        apply existsb_path in E. destruct (Hps _ E) as [(o & Ho)|(n & x & Ho & Hne)]; [discriminate|]. inversion Ho; congruence.
      - rewrite flookup_fold_fdel_gen. destruct (existsb _ ps) eqn:E; [|assumption].
        apply existsb_path in E. destruct (Hps _ E) as [(o & Ho)|(n & x & Ho & Hne)]; [discriminate|]. inversion Ho; congruence.
      - intros n Hne. rewrite !flookup_fold_fdel_gen.
        destruct (existsb (path_eqb (PPackF n XPack)) ps) eqn:E1; [now right|].
        destruct (existsb (path_eqb (PPackF n XIdx)) ps) eqn:E2.
        + apply existsb_path in E2. destruct (Hord n E2) as [K|K].
          * apply existsb_path in K. congruence.
          * right. rewrite SL; [assumption| |]; intros; congruence.
        + left. split; apply SL; intros; congruence. }
    set (Ldel := filter (fun o => mem o st.(seen)) (loose_ids fs)).
    set (keep := fun n => lim && negb (existsb (String.eqb n) op)).
    set (Pdel := flat_map (fun n => if keep n then [] else pack_exts fs n) (ssort (map fst (pack_files fs)))).
    assert (HL : forall q, In q (map PLoose Ldel) -> (exists o, q = PLoose o) \/ (exists n x, q = PPackF n x /\ n <> name)).
    { intros q Hq. apply in_map_iff in Hq as (o & <- & _). left. eauto. }
    assert (HPd : forall q, In q Pdel -> (exists o, q = PLoose o) \/ (exists n x, q = PPackF n x /\ n <> name)).
    { intros q Hq. unfold Pdel in Hq. apply in_flat_map in Hq as (n & _ & Hq). destruct (keep n); [destruct Hq|].
      destruct (in_pack_exts _ _ _ Hq) as (x & ->). right. exists n, x. split; [reflexivity|].
      intros ->. unfold pack_exts in Hq. apply filter_In in Hq as [_ Hq]. unfold fexists in Hq.
      destruct x; [rewrite F1 in Hq|rewrite F2 in Hq|rewrite (fexists_false _ _ H0) in Hq|rewrite (fexists_false _ _ H) in Hq]; discriminate. }
    assert (NoIdxL : forall l' n, In (PPackF n XIdx) (map PLoose l') -> False).
    { intros l' n Hq. apply in_map_iff in Hq as (o & Ho & _). discriminate. }
    (* the two removal runs *)
    assert (RunL : forall l', (forall o, In o l' -> In o Ldel) -> repo_ok g (fold_left fdel (map PLoose l') S)).
    { intros l' Hl. apply Del.
      - intros q Hq. apply in_map_iff in Hq as (o & <- & _). left. eauto.
      - intros n Hq. exfalso. eapply NoIdxL; eassumption. }
    assert (RunP : forall pre post, Pdel = pre ++ post -> repo_ok g (fold_left fdel pre (fold_left fdel (map PLoose Ldel) S))).
    { intros pre post E. rewrite <- fold_left_app. apply Del.
      - intros q Hq. apply in_app_or in Hq as [Hq|Hq]; [now apply HL|]. apply HPd. rewrite E. apply in_or_app. now left.
      - intros n Hq. apply in_app_or in Hq as [Hq|Hq]; [exfalso; eapply NoIdxL; eassumption|].
        destruct (pack_before_idx fs keep _ _ _ E n Hq) as [H2|H2]; [left; apply in_or_app; now right|now right]. }
    fold Ldel. fold keep. fold Pdel.
    assert (StL : Forall (repo_ok g) (crash_states (match Ldel with [] => [] | o :: l => [MRemoveSet (map PLoose (o :: l))] end) S)).
    { destruct Ldel as [|d0 dl] eqn:Ed; [constructor|]. rewrite <- Ed in *.
      cbn [crash_states mid_states apply]. apply Forall_app. split.
      - apply Forall_forall. intros s Hs. apply remove_prefixes_spec in Hs as (ps' & -> & rr & E).
        destruct (prefix_map_loose _ _ _ E) as (l' & -> & r' & E'). apply RunL.
        intros o Ho. rewrite E'. apply in_or_app. now left.
      - constructor; [|constructor]. apply RunL. auto. }
    rewrite crash_states_app. apply Forall_app. split; [exact StL|].
    assert (ES : run (match Ldel with [] => [] | o :: l => [MRemoveSet (map PLoose (o :: l))] end) S = fold_left fdel (map PLoose Ldel) S).
    { destruct Ldel; reflexivity. }
    rewrite ES.
    change (Forall (repo_ok g) (crash_states (match Pdel with [] => [] | p :: l => [MRemoveSet (p :: l)] end) (fold_left fdel (map PLoose Ldel) S))).
    destruct Pdel as [|p0 pl] eqn:Ep; [constructor|]. rewrite <- Ep in *.
    cbn [crash_states mid_states apply]. apply Forall_app. split.
    + apply Forall_forall. intros s Hs. apply remove_prefixes_spec in Hs as (ps' & -> & rr & E). now apply (RunP ps' rr).
    + constructor; [|constructor]. apply (RunP Pdel []). now rewrite app_nil_r.
Qed.

(* ---------- commit: objects first, the reference last ---------- *)

Lemma op_setobj_k_ne fs k o : op_setobj_k fs k o <> [].
Proof. unfold op_setobj_k. discriminate. Qed.

Lemma setobjs_safe g os : forall k fs, repo_ok g fs ->
  crash_safe g fs (op_setobjs k fs os) /\ repo_ok g (run (op_setobjs k fs os) fs).
Proof.
  induction os as [|o r IH]; intros k fs R; cbn [op_setobjs].
  - split; [constructor|exact R].
  - assert (H1 := setobj_k_safe g fs k o R).
    assert (R1 : repo_ok g (run (op_setobj_k fs k o) fs)).
    { eapply Forall_forall; [exact H1|]. apply run_in_states. apply op_setobj_k_ne. }
    destruct (IH (S k) _ R1) as [H2 R2]. split.
    + unfold crash_safe. rewrite crash_states_app. apply Forall_app. now split.
    + unfold run in *. now rewrite fold_left_app.
Qed.

(* every crash state of a commit outside the final reference window is fine *)
Lemma commit_partial g fs os n v s :
  repo_ok g fs -> repo_ok g (run (op_commit fs os n v) fs) ->
  In s (crash_states (op_commit fs os n v) fs) -> whole_at s (refpath n) = true -> repo_ok g s.
Proof.
  intros R Rf Hs Hw. unfold op_commit in *. rewrite crash_states_app in Hs.
  apply in_app_or in Hs as [Hs|Hs].
  - destruct (setobjs_safe g os 0%nat fs R) as [H _]. eapply Forall_forall; eassumption.
  - eapply setref_partial; try eassumption. unfold run in *. now rewrite fold_left_app in Rf.
Qed.

Lemma commit_objects_safe g fs os : repo_ok g fs -> crash_safe g fs (op_setobjs 0 fs os).
Proof. intro R. now destruct (setobjs_safe g os 0%nat fs R). Qed.
