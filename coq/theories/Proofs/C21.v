(* Proofs/C21.v — crash safety of the storage operations of Model/Crash.v *)
From Coq Require Import List NArith ZArith Arith Lia Bool String.
From GoGit Require Import Base.Out Gen.C22 Model.Gc Model.Crash Spec.RepoOk Proofs.C22 Proofs.CrashFacts.
Import ListNotations.
Local Open Scope N_scope.

Definition meta (p : path) : bool :=
  match p with PHead | PRef _ | PPacked | PShallow | PIndex | PConfig => true | _ => false end.

Definition agree_meta (fs fs' : fsmap) : Prop := forall q, meta q = true -> flookup fs' q = flookup fs q.

Lemma meta_packed fs fs' : agree_meta fs fs' -> packed_refs fs' = packed_refs fs.
Proof. intro A. unfold packed_refs. now rewrite A. Qed.
Lemma meta_shallow fs fs' : agree_meta fs fs' -> shallow_of fs' = shallow_of fs.
Proof. intro A. unfold shallow_of. now rewrite A. Qed.

Lemma meta_roots fs fs' x : agree_meta fs fs' -> In x (ref_roots fs') -> In x (ref_roots fs).
Proof.
  intros A Hx. apply in_ref_roots. apply in_ref_roots in Hx.
  rewrite (meta_packed _ _ A) in Hx. rewrite A in Hx by reflexivity.
  destruct Hx as [H|[(n & H)|(l & n & E & Hin & Hl)]].
  - now left.
  - right. left. exists n. now rewrite A in H.
  - right. right. exists l, n. rewrite A in Hl by reflexivity. auto.
Qed.

(* the workhorse: same meta files, every pack file still consistent, nothing
   that was available lost *)
Lemma repo_ok_transfer g fs fs' :
  agree_meta fs fs' ->
  (forall n, pack_file_ok fs' n = true) ->
  (forall o, avail fs o = true -> avail fs' o = true) ->
  repo_ok g fs -> repo_ok g fs'.
Proof.
  intros A P Av [F N]. split.
  - apply files_ok_iff. apply files_ok_iff in F as (H1 & H2 & H3 & H4 & H5 & H6 & H7).
    unfold head_okP, packed_okP, shallow_okP, index_okP, config_okP, ref_file_ok in *.
    rewrite (meta_packed _ _ A), (meta_shallow _ _ A), !A by reflexivity. repeat split; try assumption.
    intro n. rewrite A by reflexivity. apply H2.
  - intros o Hn. unfold shallow_list in Hn. rewrite (meta_shallow _ _ A) in Hn.
    destruct (N o (needed_roots _ _ _ _ _ (fun x => meta_roots fs fs' x A) Hn)) as [Ha Hk]. auto.
Qed.

Lemma agree_meta_of_agree fs fs' : agree fs fs' -> agree_meta fs fs'.
Proof. intros A q Hq. apply A. destruct q; cbn in *; congruence. Qed.

(* ---------- lookups after the mutations of an operation ---------- *)

Ltac split_states := repeat first [apply Forall_nil | apply Forall_cons].

Ltac flk := repeat (rewrite ?flookup_fset, ?flookup_fdel; cbn [path_eqb tkind_eqb pext_eqb andb]).

(* a temp file never matters *)
Lemma agree_set_tmp fs k n c : agree fs (fset fs (PTmp k n) c).
Proof. intros q Hq. flk. destruct q; cbn in Hq; try discriminate; reflexivity. Qed.
Lemma agree_del_tmp fs k n : agree fs (fdel fs (PTmp k n)).
Proof. intros q Hq. flk. destruct q; cbn in Hq; try discriminate; reflexivity. Qed.
Lemma agree_trans a b c : agree a b -> agree b c -> agree a c.
Proof. intros H1 H2 q Hq. now rewrite H2, H1. Qed.
Lemma agree_refl a : agree a a.
Proof. intros q _. reflexivity. Qed.

(* ---------- transfer lemmas ---------- *)

Lemma transfer_objs g fs fs' :
  agree_meta fs fs' ->
  (forall n, pack_file_ok fs' n = true) ->
  (forall x, loose_ok fs x = true -> loose_ok fs' x = true) ->
  (forall x n, in_pack fs x n = true -> in_pack fs' x n = true) ->
  repo_ok g fs -> repo_ok g fs'.
Proof.
  intros A P L K. apply repo_ok_transfer; try assumption.
  intros o Ha. apply avail_iff. apply avail_iff in Ha as [Ha|(n & Ha)]; [left; auto|right; exists n; auto].
Qed.

Lemma ids_eqb_refl l : ids_eqb l l = true.
Proof. induction l; cbn; [reflexivity|]. now rewrite N.eqb_refl. Qed.

Lemma repo_ok_files g fs : repo_ok g fs -> forall n, pack_file_ok fs n = true.
Proof. intros [F _]. apply files_ok_iff in F. tauto. Qed.

(* ---------- loose object write ---------- *)

Lemma setobj_state g fs fs' o :
  (forall q, meta q = true -> flookup fs' q = flookup fs q) ->
  (forall n x, flookup fs' (PPackF n x) = flookup fs (PPackF n x)) ->
  (forall x, x <> o -> flookup fs' (PLoose x) = flookup fs (PLoose x)) ->
  (flookup fs' (PLoose o) = flookup fs (PLoose o) \/ flookup fs' (PLoose o) = Some (Whole (DLoose o))) ->
  repo_ok g fs -> repo_ok g fs'.
Proof.
  intros A P L O R. apply (transfer_objs g fs fs'); try assumption.
  - intro n. unfold pack_file_ok, idx_ok. rewrite !P. apply (repo_ok_files _ _ R).
  - intros x Hx. unfold loose_ok in *. destruct (N.eq_dec x o) as [->|Hne].
    + destruct O as [E|E]; rewrite E; [assumption|apply N.eqb_refl].
    + now rewrite L.
  - intros x n H. unfold in_pack, pack_objs, idx_ok in *. now rewrite !P.
Qed.

Lemma setobj_safe g fs o : repo_ok g fs -> crash_safe g fs (op_setobj fs o).
Proof.
  intro R. unfold crash_safe, op_setobj.
  destruct (fexists fs (PLoose o)); cbn [app crash_states mid_states apply];
    rewrite ?flookup_fset, ?path_eqb_refl; split_states;
    (apply (setobj_state g fs _ o); [| | | |exact R];
     [intros q Hq; flk; destruct q; cbn in Hq; try discriminate; reflexivity
     |intros n x; flk; reflexivity
     |intros x Hx; flk; try reflexivity; apply N.eqb_neq in Hx; rewrite N.eqb_sym in Hx; now rewrite ?Hx
     |flk; rewrite ?N.eqb_refl; auto]).
Qed.

(* ---------- pack write ---------- *)

Definition pack_fresh (fs : fsmap) (name : string) : bool :=
  negb (fexists fs (PPackF name XPack) || fexists fs (PPackF name XIdx)
        || fexists fs (PPackF name XRev) || fexists fs (PPackF name XPromisor)).

Lemma packwrite_state g fs fs' name :
  (forall q, meta q = true -> flookup fs' q = flookup fs q) ->
  (forall x, flookup fs' (PLoose x) = flookup fs (PLoose x)) ->
  (forall n x, n <> name -> flookup fs' (PPackF n x) = flookup fs (PPackF n x)) ->
  flookup fs (PPackF name XPack) = None ->
  pack_file_ok fs' name = true ->
  repo_ok g fs -> repo_ok g fs'.
Proof.
  intros A L P F K R. apply (transfer_objs g fs fs'); try assumption.
  - intro n. destruct (string_dec n name) as [->|Hne]; [assumption|].
    unfold pack_file_ok, idx_ok. rewrite !P by assumption. apply (repo_ok_files _ _ R).
  - intros x Hx. unfold loose_ok in *. now rewrite L.
  - intros x n H. destruct (string_dec n name) as [->|Hne].
    + unfold in_pack, pack_objs in H. rewrite F in H. discriminate.
    + unfold in_pack, pack_objs, idx_ok in *. now rewrite !P.
Qed.

Lemma fexists_false fs p : fexists fs p = false -> flookup fs p = None.
Proof. unfold fexists. destruct (flookup fs p); [discriminate|reflexivity]. Qed.

Lemma string_eqb_neq a b : a <> b -> String.eqb b a = false.
Proof. intro H. apply String.eqb_neq. congruence. Qed.

Lemma pack_save_safe g fs0 fs t name os prom :
  (forall q, meta q = true -> flookup fs q = flookup fs0 q) ->
  (forall x, flookup fs (PLoose x) = flookup fs0 (PLoose x)) ->
  (forall n x, flookup fs (PPackF n x) = flookup fs0 (PPackF n x)) ->
  pack_fresh fs0 name = true ->
  (exists k, t = PTmp TPack k) ->
  flookup fs t = Some (Whole (DPack os)) ->
  repo_ok g fs0 ->
  Forall (repo_ok g) (crash_states (pack_save name t os prom) fs).
Proof.
  intros A L P Fr (k & ->) Ht R.
  unfold pack_fresh in Fr. apply negb_true_iff in Fr. repeat (apply orb_false_iff in Fr as [Fr ?]).
  assert (F1 := fexists_false _ _ Fr). assert (F2 := fexists_false _ _ H1).
  unfold pack_save. destruct prom; cbn [app crash_states mid_states apply];
    flk; rewrite ?Nat.eqb_refl, ?Ht; split_states;
    (apply (packwrite_state g fs0 _ name); [| | |exact F1| |exact R];
     [intros q Hq; flk; rewrite <- A by assumption; destruct q; cbn in Hq; try discriminate; reflexivity
     |intros x; flk; apply L
     |intros n x Hne; flk; rewrite (string_eqb_neq _ _ Hne); cbn [andb]; apply P
     |unfold pack_file_ok, idx_ok; flk; rewrite ?String.eqb_refl, ?Nat.eqb_refl; cbn [andb];
      rewrite ?P, ?F1, ?ids_eqb_refl; reflexivity]).
Qed.

Lemma packwrite_safe g fs os prom :
  pack_fresh fs (new_pack_name fs) = true -> repo_ok g fs -> crash_safe g fs (op_packwrite fs os prom).
Proof.
  intros Fr R. unfold crash_safe, op_packwrite.
  cbn [app crash_states mid_states apply].
  repeat (apply Forall_cons; [eapply agree_repo_ok; [|exact R]; intros q Hq; flk; destruct q; cbn in Hq; try discriminate; reflexivity|]).
  apply (pack_save_safe g fs); try assumption.
  - intros q Hq. flk. destruct q; cbn in Hq; try discriminate; reflexivity.
  - intro x. flk. reflexivity.
  - intros n x. flk. reflexivity.
  - now exists 0%nat.
  - flk. reflexivity.
Qed.

(* ---------- the executable checker is sound for repo_ok ---------- *)

Definition cext (g : graph) (fs : fsmap) (sh seen seen' : list oid) : Prop :=
  incl seen seen' /\
  forall x, In x seen' -> ~ In x seen ->
    avail fs x = true /\ assoc g x <> None /\ forall c, kid g sh x c -> In c seen'.

Lemma cext_refl g fs sh s : cext g fs sh s s.
Proof. split; [apply incl_refl|]. intros x H1 H2. contradiction. Qed.

Lemma cext_trans g fs sh a b c : cext g fs sh a b -> cext g fs sh b c -> cext g fs sh a c.
Proof.
  intros [I1 C1] [I2 C2]. split; [eapply incl_tran; eassumption|].
  intros x Hx Hn. destruct (mem x b) eqn:E.
  - apply mem_In in E. destruct (C1 x E Hn) as (A & K & Ch). repeat split; auto.
  - apply mem_nIn in E. now apply (C2 x Hx E).
Qed.

Lemma fold_opt_cext {A} g fs sh (f : list oid -> A -> option (list oid)) (P : A -> Prop) (key : A -> oid) :
  (forall s a s', f s a = Some s' -> cext g fs sh s s' /\ (P a -> In (key a) s')) ->
  forall l s s', fold_opt f l s = Some s' ->
  cext g fs sh s s' /\ forall a, In a l -> P a -> In (key a) s'.
Proof.
  intros Hf l. induction l as [|a l IH]; intros s s' H; cbn in H.
  - inversion H; subst. split; [apply cext_refl|intros a []].
  - destruct (f s a) as [s1|] eqn:E; [|discriminate].
    destruct (Hf _ _ _ E) as [E1 K1]. destruct (IH _ _ H) as [E2 K2].
    split; [eapply cext_trans; eassumption|].
    intros b [->|Hb] Pb; [|now apply K2]. destruct E2 as [I2 _]. apply I2. now apply K1.
Qed.

Lemma cext_add g fs sh o s s' :
  avail fs o = true -> assoc g o <> None ->
  cext g fs sh (o :: s) s' -> (forall c, kid g sh o c -> In c s') -> cext g fs sh s s' /\ In o s'.
Proof.
  intros Ha Hk [I C] Hc. assert (Ho : In o s') by (apply I; now left).
  split; [split|assumption].
  - intros x Hx. apply I. now right.
  - intros x Hx Hn. destruct (N.eq_dec x o) as [->|Hne]; [auto|].
    apply (C x Hx). intros [H|H]; [congruence|contradiction].
Qed.

Lemma check_cext g fs sh fuel : forall s o s',
  check fuel g fs sh s o = Some s' -> cext g fs sh s s' /\ In o s'.
Proof.
  induction fuel as [|f IH]; intros s o s' H; cbn [check] in H;
    destruct (mem o s) eqn:Es;
    try (inversion H; subst; split; [apply cext_refl|now apply mem_In]); try discriminate.
  destruct (avail fs o) eqn:Ea; cbn [negb] in H; [|discriminate].
  destruct (assoc g o) as [ob|] eqn:Eg; [|discriminate].
  assert (Hk : assoc g o <> None) by congruence.
  destruct ob as [|es|t ps|t].
  - inversion H; subst. apply cext_add; try assumption; [apply cext_refl|].
    intros c Hc. unfold kid in Hc. now rewrite Eg in Hc.
  - set (fe := fun (s0 : list oid) (e : Z * oid) => if is_gitlink (fst e) then Some s0 else check f g fs sh s0 (snd e)) in H.
    destruct (fold_opt_cext g fs sh fe (fun e => is_gitlink (fst e) = false) snd) with (l := es) (s := o :: s) (s' := s') as [E K];
      [|exact H|].
    + intros s0 e s1 He. unfold fe in He. destruct (is_gitlink (fst e)) eqn:Eg'.
      * inversion He; subst. split; [apply cext_refl|discriminate].
      * destruct (IH _ _ _ He). split; auto.
    + apply cext_add; try assumption.
      intros c Hc. unfold kid in Hc. rewrite Eg in Hc. destruct Hc as (m & Hin & Hg). apply (K (m, c) Hin Hg).
  - destruct (check f g fs sh (o :: s) t) as [s2|] eqn:Et; [|discriminate].
    destruct (IH _ _ _ Et) as [E1 K1].
    destruct (mem o sh) eqn:Esh.
    + inversion H; subst. apply cext_add; try assumption.
      intros c Hc. unfold kid in Hc. rewrite Eg in Hc. destruct Hc as [->|[Hs _]]; [assumption|congruence].
    + destruct (fold_opt_cext g fs sh (check f g fs sh) (fun _ => True) (fun x => x)) with (l := ps) (s := s2) (s' := s') as [E2 K2];
        [|exact H|].
      * intros s0 a s1 Ha'. destruct (IH _ _ _ Ha'). split; auto.
      * apply cext_add; try assumption; [eapply cext_trans; eassumption|].
        intros c Hc. unfold kid in Hc. rewrite Eg in Hc. destruct Hc as [->|[_ Hin]].
        -- destruct E2 as [I2 _]. now apply I2.
        -- now apply K2.
  - destruct (IH _ _ _ H) as [E1 K1]. apply cext_add; try assumption.
    intros c Hc. unfold kid in Hc. rewrite Eg in Hc. now subst.
Qed.

Lemma repo_okb_sound g fs : repo_okb g fs = true -> repo_ok g fs.
Proof.
  unfold repo_okb. intro H. apply andb_true_iff in H as [F C]. split; [assumption|].
  unfold connected_b in C. unfold shallow_list.
  destruct (shallow_of fs) as [sh|]; [|discriminate].
  destruct (fold_opt (check (S (List.length g)) g fs sh) (ref_roots fs) []) as [s'|] eqn:E; [|discriminate].
  destruct (fold_opt_cext g fs sh (check (S (List.length g)) g fs sh) (fun _ => True) (fun x => x)) with (l := ref_roots fs) (s := @nil oid) (s' := s') as [[_ Cl] K];
    [|exact E|].
  - intros s0 a s1 Ha. destruct (check_cext _ _ _ _ _ _ _ Ha). split; auto.
  - assert (Hin : forall o, needed g (ref_roots fs) sh o -> In o s').
    { intros o N. induction N as [o Hr|o c _ IH Hk]; [now apply K|].
      destruct (Cl o IH) as (_ & _ & Ch); [intros []|]. now apply Ch. }
    intros o N. destruct (Cl o (Hin o N)) as (A & Kn & _); [intros []|]. auto.
Qed.

(* ---------- in-place rewrites: the window in which the file is incomplete ---------- *)

Definition whole_at (s : fsmap) (p : path) : bool :=
  match flookup s p with Some (Whole _) => true | _ => false end.

(* truncating create + write: outside the window the states are the initial
   and the final one *)
Lemma create_write_partial g fs p d s :
  repo_ok g (run [MCreate p; MWrite p d] fs) ->
  In s (crash_states [MCreate p; MWrite p d] fs) -> whole_at s p = true -> repo_ok g s.
Proof.
  intros R Hs Hw. cbn [crash_states mid_states apply app] in Hs.
  destruct Hs as [<-|[<-|[<-|[]]]]; unfold whole_at in Hw; rewrite ?flookup_fset, ?path_eqb_refl in Hw;
    try discriminate. exact R.
Qed.

Lemma setref_partial g fs n v s :
  repo_ok g (run (op_setref fs n v) fs) ->
  In s (crash_states (op_setref fs n v) fs) -> whole_at s (refpath n) = true -> repo_ok g s.
Proof. apply create_write_partial. Qed.

Lemma casref_partial g fs n v s :
  repo_ok g (run (op_casref fs n v) fs) ->
  In s (crash_states (op_casref fs n v) fs) -> whole_at s (refpath n) = true -> repo_ok g s.
Proof.
  unfold op_casref. intros R Hs Hw.
  destruct (fexists fs (refpath n)); cbn [crash_states mid_states apply app] in Hs;
    repeat (destruct Hs as [<-|Hs]; [unfold whole_at in Hw; rewrite ?flookup_fset, ?path_eqb_refl in Hw; try discriminate; exact R|]);
    destruct Hs.
Qed.

Lemma setindex_partial g fs es s :
  repo_ok g (run (op_setindex es) fs) ->
  In s (crash_states (op_setindex es) fs) -> whole_at s PIndex = true -> repo_ok g s.
Proof. apply create_write_partial. Qed.

Lemma setconfig_partial g fs s :
  repo_ok g (run op_setconfig fs) ->
  In s (crash_states op_setconfig fs) -> whole_at s PConfig = true -> repo_ok g s.
Proof. apply create_write_partial. Qed.

Lemma setshallow_partial g fs l s :
  l <> [] -> repo_ok g (run (op_setshallow l) fs) ->
  In s (crash_states (op_setshallow l) fs) -> whole_at s PShallow = true -> repo_ok g s.
Proof.
  intro Hl. unfold op_setshallow. destruct l; [congruence|]. apply create_write_partial.
Qed.

(* witnesses: a two-commit history, everything loose *)
Definition wg : graph := [(0, OBlob); (1, OTree [(33188%Z, 0)]); (2, OCommit 1 []); (3, OCommit 1 [2]); (4, OBlob)].
Definition wfs : fsmap :=
  [(PHead, Whole (DRef (RSym "refs/heads/main"))); (PRef "refs/heads/main", Whole (DRef (RHash 2)));
   (PLoose 0, Whole (DLoose 0)); (PLoose 1, Whole (DLoose 1)); (PLoose 2, Whole (DLoose 2)); (PLoose 3, Whole (DLoose 3));
   (PLoose 4, Whole (DLoose 4)); (PConfig, Whole DConfig); (PIndex, Whole (DIndex [(false, 0)]))].
(* a shallow clone: commit 3 is the shallow root, its parent 2 is not stored *)
Definition wfs_shallow : fsmap :=
  [(PHead, Whole (DRef (RSym "refs/heads/main"))); (PRef "refs/heads/main", Whole (DRef (RHash 3)));
   (PLoose 0, Whole (DLoose 0)); (PLoose 1, Whole (DLoose 1)); (PLoose 3, Whole (DLoose 3));
   (PConfig, Whole DConfig); (PShallow, Whole (DShallow [3]))].

Lemma setref_refuted : exists g fs n v,
  repo_ok g fs /\ repo_ok g (run (op_setref fs n v) fs) /\ ~ crash_safe g fs (op_setref fs n v).
Proof.
  exists wg, wfs, "refs/heads/main"%string, (RHash 3). split; [|split]; try (apply repo_okb_sound; vm_compute; reflexivity).
  intro H. unfold crash_safe in H. cbn [op_setref crash_states mid_states apply app] in H.
  inversion H as [|? ? [H1 _] _]. vm_compute in H1. discriminate.
Qed.

Lemma casref_refuted : exists g fs n v,
  repo_ok g fs /\ repo_ok g (run (op_casref fs n v) fs) /\ ~ crash_safe g fs (op_casref fs n v).
Proof.
  exists wg, wfs, "refs/heads/main"%string, (RHash 3). split; [|split]; try (apply repo_okb_sound; vm_compute; reflexivity).
  intro H. unfold crash_safe in H. vm_compute in H.
  inversion H as [|? ? [H1 _] _]. vm_compute in H1. discriminate.
Qed.

Lemma setindex_refuted : exists g fs es,
  repo_ok g fs /\ repo_ok g (run (op_setindex es) fs) /\ ~ crash_safe g fs (op_setindex es).
Proof.
  exists wg, wfs, [(false, 0); (false, 4)]. split; [|split]; try (apply repo_okb_sound; vm_compute; reflexivity).
  intro H. unfold crash_safe in H. cbn [op_setindex crash_states mid_states apply app] in H.
  inversion H as [|? ? [H1 _] _]. vm_compute in H1. discriminate.
Qed.

(* config: the truncated (empty) file is still readable, a torn write is not *)
Lemma setconfig_refuted : exists g fs,
  repo_ok g fs /\ repo_ok g (run op_setconfig fs) /\ ~ crash_safe g fs op_setconfig.
Proof.
  exists wg, wfs. split; [|split]; try (apply repo_okb_sound; vm_compute; reflexivity).
  intro H. unfold crash_safe in H. cbn [op_setconfig crash_states mid_states apply app] in H.
  inversion H as [|? ? _ H2]. subst. inversion H2 as [|? ? [K1 _] _]. vm_compute in K1. discriminate.
Qed.

(* shallow: while the file is empty the repository is not shallow any more,
   and the parents of the shallow roots are needed but were never there *)
Lemma setshallow_refuted : exists g fs l,
  repo_ok g fs /\ repo_ok g (run (op_setshallow l) fs) /\ ~ crash_safe g fs (op_setshallow l).
Proof.
  exists wg, wfs_shallow, [3]. split; [|split]; try (apply repo_okb_sound; vm_compute; reflexivity).
  intro H. unfold crash_safe in H. cbn [op_setshallow crash_states mid_states apply app] in H.
  inversion H as [|? ? [_ H1] _].
  destruct (H1 2) as [A _]; [|vm_compute in A; discriminate].
  apply needed_step with (o := 3).
  - apply needed_root. vm_compute. now left.
  - unfold kid. cbn. right. split; [reflexivity|now left].
Qed.

(* ---------- reference removal (packed entry first, loose file last) ---------- *)

Lemma repo_ok_refs g fs fs' :
  files_ok fs' = true ->
  shallow_of fs' = shallow_of fs ->
  (forall o, avail fs o = true -> avail fs' o = true) ->
  (forall x, In x (ref_roots fs') -> In x (ref_roots fs)) ->
  repo_ok g fs -> repo_ok g fs'.
Proof.
  intros F S A Rt [_ N]. split; [assumption|].
  intros o Hn. unfold shallow_list in *. rewrite S in Hn.
  destruct (N o (needed_roots _ _ _ _ _ Rt Hn)). auto.
Qed.

(* a state in which only reference files and packed-refs differ from fs *)
Lemma refs_state g fs fs' :
  (forall q, (q = PHead \/ q = PShallow \/ q = PIndex \/ q = PConfig \/ (exists o, q = PLoose o) \/ (exists n x, q = PPackF n x)) ->
             flookup fs' q = flookup fs q) ->
  (forall m, ref_file_ok fs' m = true) ->
  packed_okP fs' = true ->
  (forall m o, flookup fs' (PRef m) = Some (Whole (DRef (RHash o))) -> In o (ref_roots fs)) ->
  (forall l' m o, packed_refs fs' = Some l' -> In (m, o) l' -> flookup fs' (PRef m) = None -> In o (ref_roots fs)) ->
  repo_ok g fs -> repo_ok g fs'.
Proof.
  intros Same RF PK HL HP R.
  assert (Eobj : forall o, avail fs' o = avail fs o).
  { intro o. unfold avail, loose_ok. rewrite Same by (right; right; right; right; left; eauto).
    f_equal. destruct (existsb (in_pack fs' o) (pack_names fs')) eqn:E1, (existsb (in_pack fs o) (pack_names fs)) eqn:E2; try reflexivity.
    - apply existsb_exists in E1 as (n & Hn & Hi). assert (E : existsb (in_pack fs o) (pack_names fs) = true); [|congruence].
      apply existsb_exists. exists n. unfold in_pack, pack_objs, idx_ok in *.
      rewrite !Same in Hi by (right; right; right; right; right; eauto). split; [|assumption].
      apply in_pack_names. destruct (flookup fs (PPackF n XPack)); [congruence|discriminate].
    - apply existsb_exists in E2 as (n & Hn & Hi). assert (E : existsb (in_pack fs' o) (pack_names fs') = true); [|congruence].
      apply existsb_exists. exists n. unfold in_pack, pack_objs, idx_ok in *.
      rewrite <- !Same in Hi by (right; right; right; right; right; eauto). split; [|assumption].
      apply in_pack_names. destruct (flookup fs' (PPackF n XPack)); [congruence|discriminate]. }
  apply (repo_ok_refs g fs fs'); try assumption.
  - destruct R as [F _]. apply files_ok_iff in F as (H1 & H2 & H3 & H4 & H5 & H6 & H7).
    apply files_ok_iff. unfold head_okP, shallow_okP, shallow_of, index_okP, config_okP, pack_file_ok, idx_ok in *.
    rewrite !Same by tauto. repeat split; try assumption.
    intro n. rewrite !Same by (right; right; right; right; right; eauto). apply H5.
  - unfold shallow_of. now rewrite Same by tauto.
  - intros o Ha. now rewrite Eobj.
  - intros x Hx. apply in_ref_roots in Hx as [H|[(n & H)|(l & n & E & Hin & Hl)]].
    + apply in_ref_roots. left. now rewrite Same in H by tauto.
    + eapply HL; eassumption.
    + eapply HP; eassumption.
Qed.

Lemma packed_refs_whole fs l : flookup fs PPacked = Some (Whole (DPackedRefs l)) -> packed_refs fs = Some l.
Proof. unfold packed_refs. now intros ->. Qed.

Lemma in_roots_loose fs m o : flookup fs (PRef m) = Some (Whole (DRef (RHash o))) -> In o (ref_roots fs).
Proof. intro H. apply in_ref_roots. right. left. eauto. Qed.

Lemma in_roots_packed fs l m o :
  packed_refs fs = Some l -> In (m, o) l -> flookup fs (PRef m) = None -> In o (ref_roots fs).
Proof. intros. apply in_ref_roots. right. right. eauto. Qed.

Lemma repo_ok_ref_files g fs : repo_ok g fs -> forall m, ref_file_ok fs m = true.
Proof. intros [F _]. apply files_ok_iff in F. tauto. Qed.

Lemma string_eqb_false_r a b : a <> b -> String.eqb a b = false.
Proof. intro H. now apply String.eqb_neq. Qed.

Lemma flookup_other fs t c q : q <> t -> flookup (fset fs t c) q = flookup fs q.
Proof. intro H. rewrite flookup_fset. replace (path_eqb t q) with false; [reflexivity|]. symmetry. apply path_eqb_neq. congruence. Qed.
Lemma flookup_del_other fs t q : q <> t -> flookup (fdel fs t) q = flookup fs q.
Proof. intro H. rewrite flookup_fdel. replace (path_eqb t q) with false; [reflexivity|]. symmetry. apply path_eqb_neq. congruence. Qed.

Lemma crash_states_app a b fs :
  crash_states (a ++ b) fs = crash_states a fs ++ crash_states b (run a fs).
Proof.
  revert fs. induction a as [|m a IH]; intro fs; [reflexivity|].
  cbn [app crash_states run fold_left]. rewrite IH. rewrite <- app_assoc. reflexivity.
Qed.

Lemma run_in_states a : forall fs, a <> [] -> In (run a fs) (crash_states a fs).
Proof.
  induction a as [|m r IH]; intros fs H; [congruence|].
  cbn [crash_states run fold_left]. apply in_or_app. right.
  destruct r as [|m' r']; [now left|]. right. apply IH. discriminate.
Qed.

Lemma rmref_safe g fs n : repo_ok g fs -> crash_safe g fs (op_rmref fs n).
Proof.
  intro R. unfold crash_safe, op_rmref.
  assert (RF := repo_ok_ref_files _ _ R).
  assert (PK : packed_okP fs = true) by (destruct R as [F _]; apply files_ok_iff in F; tauto).
  (* the final removal of the loose file, from any state whose packed-refs has no entry for n *)
  assert (Final : forall s, repo_ok g s -> (forall l m o, packed_refs s = Some l -> In (m, o) l -> m <> n) ->
            Forall (repo_ok g) (crash_states (if fexists fs (PRef n) then [MRemove (PRef n)] else []) s)).
  { intros s Rs Hn. destruct (fexists fs (PRef n)); cbn [crash_states mid_states apply app]; split_states.
    apply (refs_state g s); try exact Rs.
    - intros q Hq. flk. destruct Hq as [->|[->|[->|[->|[(o & ->)|(m & x & ->)]]]]]; reflexivity.
    - intro m. unfold ref_file_ok. flk. destruct (String.eqb n m); [reflexivity|]. apply (repo_ok_ref_files _ _ Rs).
    - unfold packed_okP, packed_refs. flk. destruct Rs as [F _]. apply files_ok_iff in F. tauto.
    - intros m o. flk. destruct (String.eqb n m); [discriminate|]. apply in_roots_loose.
    - intros l' m o Hp Hin Hl. assert (Hp' : packed_refs s = Some l') by (revert Hp; unfold packed_refs; flk; auto).
      revert Hl. flk. destruct (String.eqb n m) eqn:E.
      + apply String.eqb_eq in E. subst m. exfalso. eapply Hn; eauto.
      + intro Hl. eapply in_roots_packed; eassumption. }
  unfold packed_okP in PK. destruct (packed_refs fs) as [l0|] eqn:Epr; [|discriminate]. clear PK.
  unfold packed_refs in Epr.
  destruct (flookup fs PPacked) as [[d| |]|] eqn:Ep; try discriminate.
  - destruct d; try discriminate. inversion Epr; subst l0. clear Epr.
    (* packed-refs with entries *)
    set (rest := filter (fun e => negb (String.eqb (fst e) n)) l).
    assert (Hrest : forall m o, In (m, o) rest -> In (m, o) l /\ m <> n).
    { intros m o Hin. apply filter_In in Hin as [Hin Hne]. cbn in Hne. apply negb_true_iff, String.eqb_neq in Hne. auto. }
    assert (Hpl : packed_refs fs = Some l) by now apply packed_refs_whole.
    clearbody rest.
    assert (Renamed : forall s c, (c = Empty /\ rest = [] \/ c = Whole (DPackedRefs rest)) ->
              (forall q, q <> PPacked -> q <> (PTmp TPRefs 0) -> flookup s q = flookup fs q) ->
              flookup s (PTmp TPRefs 0) = Some c -> repo_ok g (fset (fdel s (PTmp TPRefs 0)) PPacked c)).
    { intros s c Hc Hs Ht. apply (refs_state g fs); try exact R.
      - intros q Hq. flk. destruct Hq as [->|[->|[->|[->|[(o & ->)|(m & x & ->)]]]]]; cbn [path_eqb]; apply Hs; congruence.
      - intro m. unfold ref_file_ok. flk. rewrite Hs by congruence. apply RF.
      - unfold packed_okP, packed_refs. flk. destruct Hc as [[-> _]| ->]; reflexivity.
      - intros m o. flk. rewrite Hs by congruence. apply in_roots_loose.
      - intros l' m o Hp Hin. flk. rewrite Hs by congruence. intro Hl.
        assert (l' = rest).
        { revert Hp. unfold packed_refs. flk. destruct Hc as [[-> ->]| ->]; intro Hp; inversion Hp; reflexivity. }
        subst l'. destruct (Hrest _ _ Hin) as [Hin' _]. eapply in_roots_packed; eassumption. }
    assert (Ag : forall c, agree fs (fset fs (PTmp TPRefs 0) c)) by (intro; apply agree_set_tmp).
    rewrite crash_states_app.
    match goal with |- Forall _ (?A ++ _) => assert (H1 : Forall (repo_ok g) A) end; [|apply Forall_app; split; [exact H1|]].
    + (* the rewrite of packed-refs *)
      destruct rest as [|e0 rest'] eqn:Er; destruct (existsb (fun e => String.eqb (fst e) n) l) eqn:Ef;
        cbn [app crash_states mid_states apply]; flk; split_states;
        try (eapply agree_repo_ok; [|exact R]; intros q Hq; flk; destruct q; cbn in Hq; try discriminate; reflexivity).
      * apply (Renamed (fset fs (PTmp TPRefs 0) Empty) Empty); [left; auto| |flk; reflexivity].
        intros q Hq Hq2. now rewrite !flookup_other.
      * rewrite ?Nat.eqb_refl. cbn [andb]. apply (Renamed _ (Whole (DPackedRefs (e0 :: rest')))); [right; reflexivity| |flk; reflexivity].
        intros q Hq Hq2. now rewrite !flookup_other.
    + (* the loose file *)
      apply Final.
      * eapply Forall_forall; [exact H1|]. apply run_in_states. discriminate.
      * intros l' m o Hp Hin.
        destruct rest as [|e0 rest'] eqn:Er; destruct (existsb (fun e => String.eqb (fst e) n) l) eqn:Ef;
          cbn [app run fold_left apply] in Hp; revert Hp; unfold packed_refs; flk; rewrite ?Nat.eqb_refl; cbn [andb]; flk;
          rewrite ?Ep; intro Hp; inversion Hp; subst l'.
        -- destruct Hin.
        -- intros ->. assert (Hx : existsb (fun e => String.eqb (fst e) n) l = true); [|congruence].
           apply existsb_exists. exists (n, o). split; [assumption|apply String.eqb_refl].
        -- now apply (Hrest m o).
        -- intros ->. assert (Hx : existsb (fun e => String.eqb (fst e) n) l = true); [|congruence].
           apply existsb_exists. exists (n, o). split; [assumption|apply String.eqb_refl].
  - (* empty packed-refs *)
    rewrite crash_states_app. apply Forall_app. split.
    + cbn [crash_states mid_states apply app]. split_states;
        (eapply agree_repo_ok; [|exact R]; intros q Hq; flk; destruct q; cbn in Hq; try discriminate; reflexivity).
    + apply Final.
      * eapply agree_repo_ok; [|exact R]. intros q Hq. cbn [run fold_left apply]. flk. destruct q; cbn in Hq; try discriminate; reflexivity.
      * intros l' m o Hp. revert Hp. cbn [run fold_left apply]. unfold packed_refs. flk. rewrite Ep. intro Hp; inversion Hp. intros [].
  - (* no packed-refs file *)
    cbn [app]. apply Final; [exact R|].
    intros l' m o Hp. revert Hp. unfold packed_refs. rewrite Ep. intro Hp; inversion Hp. intros [].
Qed.
