(* Proofs/C29Ops.v — a refused Restore / Add / Commit / Merge / Pull of
   Model/PorcelainOps.v leaves the state as it was; the exceptions (Commit{All},
   Pull on a HEAD that names no branch, the unrepaired Pull) are exhibited. *)
From Coq Require Import List NArith ZArith Bool Lia.
From GoGit Require Import Base.Out Model.Porcelain Model.PorcelainOps Proofs.PorcelainMaps.
Import ListNotations.
Local Open Scope N_scope.
Arguments beqb : simpl never.
Local Arguments is_branch : simpl never.

(* ---------- witness states *)

From Coq Require Import String.
Local Open Scope string_scope.
(* the state on which Commit{All} stores the index and then refuses: a staged
   change, the worktree back at HEAD's version *)
Definition bs (s : string) : bytes := bytes_of_string s.
Definition ca_state : rstate :=
  mkR [mkCmt [(bs "a", (KReg, bs "A0"))] []] [(master, 0%Z)] (HSym master)
      [(bs "a", (KReg, bs "staged"))] [(bs "a", (KReg, bs "A0"))] true.

(* HEAD names a tag: updateHEAD moves the tag, then setHEADCommit refuses *)
Definition tag_t : bytes := bs "refs/tags/t".
Definition pt_state : rstate :=
  mkR [mkCmt [(bs "a", (KReg, bs "A0"))] []; mkCmt [(bs "a", (KReg, bs "A1"))] [0%Z]]
      [(tag_t, 0%Z)] (HSym tag_t) [(bs "a", (KReg, bs "A0"))] [(bs "a", (KReg, bs "A0"))] true.
Definition pt_env : penv := mkPE true true [(master, 1%Z)] (Some master) [].

(* the unrepaired order: the branch has moved when the unstaged changes are noticed *)
Definition pu_state : rstate :=
  mkR [mkCmt [(bs "a", (KReg, bs "A0"))] []; mkCmt [(bs "a", (KReg, bs "A1"))] [0%Z]]
      [(master, 0%Z)] (HSym master) [(bs "a", (KReg, bs "A0"))] [(bs "a", (KReg, bs "dirty"))] true.

Local Close Scope string_scope.

(* ---------- small facts *)

Lemma rstate_eta : forall s, mkR (r_commits s) (r_refs s) (r_head s) (r_idx s) (r_wt s) (r_user s) = s.
Proof. now destruct s. Qed.

Lemma rset_head_commit_err : forall c s e s1, rset_head_commit c s = (Some e, s1) -> s1 = s.
Proof.
  intros c s e s1. unfold rset_head_commit.
  destruct (r_head s); [|intro H; inversion H].
  destruct (lookup b (r_refs s)); [|intro H; now inversion H].
  destruct (is_branch b); intro H; now inversion H.
Qed.

(* the checkoutChange fold succeeds as soon as the index agrees with the tree
   on the paths it visits *)
Lemma checkout_fold_on : forall t l ix w,
  (forall q, In q l -> lookup q ix = lookup q t) ->
  exists ix' w', fold_left (checkout_change t) l (None, (ix, w)) = (None, (ix', w')).
Proof.
  intros t. induction l as [|q l IH]; intros ix w Hag; cbn [fold_left].
  - now exists ix, w.
  - unfold checkout_change at 2. destruct (lookup q ix) eqn:Eq.
    + rewrite (Hag q (or_introl eq_refl)) in Eq. rewrite Eq.
      apply IH. intros p Hp. destruct (beqb p q) eqn:E.
      * apply beqb_true in E. subst. now rewrite lookup_insert_eq.
      * apply beqb_false in E. rewrite lookup_insert_neq, lookup_remove_neq by assumption.
        apply Hag. now right.
    + apply IH. intros p Hp. apply Hag. now right.
Qed.

(* resetIndex restricted to a path list leaves the tree's entry at every listed path *)
Lemma reset_index_files_lookup : forall t files ix p,
  in_files files p = true ->
  lookup p (fold_left (reset_index_step t) (filter (in_files files) (changed_paths ix t)) ix) = lookup p t.
Proof.
  intros t files ix p Hin.
  rewrite (fold_pointwise (fun q => lookup q t) (reset_index_step t)).
  - destruct (mem p (filter (in_files files) (changed_paths ix t))) eqn:E; [reflexivity|].
    apply mem_false in E. rewrite filter_In, in_changed_paths in E.
    destruct (lookup p ix) as [f|] eqn:E1, (lookup p t) as [g|] eqn:E2; try reflexivity;
      try (exfalso; apply E; split; [congruence | exact Hin]).
    destruct (ofent_eqb (Some f) (Some g)) eqn:E3.
    + now apply ofent_eqb_true in E3.
    + exfalso. apply E. split; [|exact Hin]. intro H. rewrite H in E3. cbn in E3.
      now rewrite (proj2 (fent_eqb_true g g) eq_refl) in E3.
  - intros acc q. unfold reset_index_step. destruct (lookup q t) eqn:E.
    + apply lookup_insert_eq.
    + apply lookup_remove_eq.
  - intros acc q p0 Hne. unfold reset_index_step. destruct (lookup q t).
    + rewrite lookup_insert_neq by assumption. now apply lookup_remove_neq.
    + now apply lookup_remove_neq.
Qed.

(* ---------- Restore *)

Lemma restore_err_unchanged : forall st wk files s e s',
  restore st wk files s = (Some e, s') -> s' = s.
Proof.
  intros st wk files s e s'. unfold restore.
  destruct files as [|f0 fs]; [intro H; now inversion H|].
  destruct st; cbn [negb]; [|intro H; now inversion H].
  destruct (rhead_commit s) as [c|]; [|intro H; now inversion H].
  destruct (rtree_of s c) as [t|]; [|intro H; now inversion H].
  destruct (rset_head_commit c s) as [[e1|] s1] eqn:Eh.
  - intro H. inversion H; subst. eapply rset_head_commit_err; eauto.
  - destruct wk; [|intro H; inversion H]. cbv zeta.
    match goal with
    | |- context [fold_left (checkout_change t) ?l (None, (?i, ?w))] =>
      destruct (checkout_fold_on t l i w) as (ix' & w' & Hf);
        [| remember (fold_left (checkout_change t) l (None, (i, w))) as X eqn:EX;
           assert (HX : X = (None, (ix', w'))) by (rewrite EX; exact Hf); clear EX Hf ]
    end.
    { intros q Hq. apply filter_In in Hq. destruct Hq as [_ Hq].
      apply andb_true_iff in Hq. destruct Hq as [Hq _].
      now apply reset_index_files_lookup. }
    rewrite HX. cbn. intro H. inversion H.
Qed.

(* ---------- Add *)

Lemma add_names_err_unchanged : forall hd s names e s',
  add_names hd s names = (Some e, s') -> s' = s.
Proof.
  intros hd s names e s'. unfold add_names.
  destruct (existsb _ names); intro H; now inversion H.
Qed.

Lemma add_path_err_unchanged : forall p s e s', add_path p s = (Some e, s') -> s' = s.
Proof.
  intros p s e s'. unfold add_path.
  destruct (rhead_tree s); try (intro H; now inversion H);
    destruct (is_dir_wt s p && negb (is_some (lookup p (r_wt s)))); apply add_names_err_unchanged.
Qed.

(* ---------- Merge *)

Lemma merge_err_unchanged : forall t ff s e s', merge t ff s = (Some e, s') -> s' = s.
Proof.
  intros t ff s e s'. unfold merge.
  destruct ff; cbn [negb]; [|intro H; now inversion H].
  destruct (rhead_commit s); [|intro H; now inversion H].
  destruct (rcommit s t); [|intro H; now inversion H].
  destruct (is_anc (r_commits s) z t); cbn [negb]; intro H; now inversion H.
Qed.

(* ---------- Commit *)

Lemma commit_tail_err : forall o parents0 s1 e s', commit_tail o parents0 s1 = (Some e, s') -> s' = s1.
Proof.
  intros o parents0 s1 e s'. unfold commit_tail.
  assert (Hfin : forall parents x s2, commit_finish parents s1 = (Some x, s2) -> False).
  { intros parents x s2 H. unfold commit_finish in H. inversion H. }
  destruct (if cm_amend o then _ else _) as [e0|parents]; [intro H; now inversion H|].
  destruct (is_nil parents && is_nil (r_idx s1) && negb (cm_allow_empty o)); [intro H; now inversion H|].
  destruct parents as [|p0 ps]; [intro H; exfalso; eapply Hfin; eauto|].
  destruct (rtree_of s1 p0); [|intro H; now inversion H].
  destruct (fmap_eqb (r_idx s1) f && negb (cm_allow_empty o)); [intro H; now inversion H|].
  intro H; exfalso; eapply Hfin; eauto.
Qed.

(* a refused Commit leaves s, or s with the index Commit{All} stored *)
Lemma commit_err_state : forall o s e s',
  commit o s = (Some e, s') -> s' = if commit_stores_index o s then w_idx s (auto_add s) else s.
Proof.
  intros o s e s'. unfold commit, commit_stores_index.
  destruct (cm_all o && cm_amend o); cbn [negb andb]; [intro H; now inversion H|].
  destruct (negb (cm_author o) && negb (r_user s)); cbn [negb andb]; [intro H; now inversion H|].
  destruct (cm_all o); cbn [andb].
  - destruct (rhead_tree s); cbn [negb]; try (intro H; now inversion H); apply commit_tail_err.
  - apply commit_tail_err.
Qed.

Lemma commit_err_shape : forall o s e s',
  commit o s = (Some e, s') ->
  s' = s \/ (cm_all o = true /\ s' = w_idx s (auto_add s)).
Proof.
  intros o s e s' H. apply commit_err_state in H. revert H. unfold commit_stores_index.
  destruct (cm_all o).
  - destruct (_ && _ && true && _); intro H; [right; now split | now left].
  - rewrite andb_false_r. cbn [andb]. intro H. now left.
Qed.

Lemma commit_err_unchanged_partial : forall o s e s',
  cm_all o = false -> commit o s = (Some e, s') -> s' = s.
Proof.
  intros o s e s' Ha H. destruct (commit_err_shape _ _ _ _ H) as [|[Hc _]]; [assumption|congruence].
Qed.

Lemma commit_err_keeps : forall o s e s',
  commit o s = (Some e, s') ->
  r_commits s' = r_commits s /\ r_refs s' = r_refs s /\ r_head s' = r_head s /\ r_wt s' = r_wt s.
Proof.
  intros o s e s' H. destruct (commit_err_shape _ _ _ _ H) as [->|[_ ->]]; cbn; repeat split.
Qed.

Lemma commit_all_refuted :
  exists o s e s', commit o s = (Some e, s') /\ observable s' <> observable s.
Proof.
  exists (mkCO true false true false), ca_state, XEmptyCommit,
         (w_idx ca_state [(bs "a", (KReg, bs "A0"))]).
  split; [vm_compute; reflexivity | vm_compute; intro H; discriminate].
Qed.

(* ---------- Pull *)

Lemma reset_worktree_ok : forall t files ix w,
  agree ix t -> exists ix' w', reset_worktree t files ix w = (None, (ix', w')).
Proof.
  intros t files ix w Hag. unfold reset_worktree.
  destruct (checkout_fold t (filter (fun p => existsb (beqb p) files) (changed_paths w ix)) ix w Hag)
    as (ix' & w' & H1 & _).
  now exists ix', w'.
Qed.

Lemma reset_merge_err_unchanged : forall c s e s', reset_merge c s = (Some e, s') -> s' = s.
Proof.
  intros c s e s'. unfold reset_merge.
  destruct (rtree_of s c) as [t|]; [|intro H; now inversion H].
  destruct (runstaged s); [intro H; now inversion H|].
  destruct (rset_head_commit c s) as [[e1|] s1] eqn:Eh.
  - intro H. inversion H; subst. eapply rset_head_commit_err; eauto.
  - pose proof (reset_index_lookup t (r_idx s1)) as Hag.
    destruct (snd (reset_index t (r_idx s1))) as [|q0 l0]; [intro H; inversion H|].
    destruct (reset_worktree_ok t (q0 :: l0) (fst (reset_index t (r_idx s1))) (r_wt s1) Hag)
      as (ix' & w' & H1). rewrite H1. cbn. intro H; inversion H.
Qed.

Lemma is_prefix_app : forall a b, is_prefix a (a ++ b) = true.
Proof. induction a as [|x a IH]; intro b; cbn; [reflexivity|]. now rewrite N.eqb_refl, IH. Qed.

Lemma tracking_is_remote : forall n, is_remote_ref (tracking_name n) = true.
Proof. intro n. unfold is_remote_ref, tracking_name. apply is_prefix_app. Qed.

Local Arguments is_remote_ref : simpl never.

Lemma local_refs_insert_remote : forall (m : amap Z) p v,
  is_remote_ref p = true -> local_refs (insert p v m) = local_refs m.
Proof.
  unfold local_refs. induction m as [|[q w] r IH]; intros p v Hp; cbn.
  - now rewrite Hp.
  - destruct (bcmp p q) eqn:E; cbn.
    + apply bcmp_eq in E. subst q. now rewrite Hp.
    + now rewrite Hp.
    + rewrite IH by assumption. reflexivity.
Qed.

Lemma fetch_refs_local : forall adv refs b,
  local_refs (fst (fold_left (fun (acc : amap Z * bool) (nc : bytes * Z) =>
               let ln := tracking_name (fst nc) in
               (insert ln (snd nc) (fst acc),
                snd acc || negb (match lookup ln (fst acc) with Some c => (c =? snd nc)%Z | None => false end)))
            adv (refs, b))) = local_refs refs.
Proof.
  induction adv as [|[n c] adv IH]; intros refs b; cbn [fold_left]; [reflexivity|].
  rewrite IH. cbn [fst snd]. apply local_refs_insert_remote. apply tracking_is_remote.
Qed.

Definition same_but_refs (s1 s : rstate) : Prop :=
  r_commits s1 = r_commits s /\ r_head s1 = r_head s /\ r_idx s1 = r_idx s /\ r_wt s1 = r_wt s /\ r_user s1 = r_user s /\ local_refs (r_refs s1) = local_refs (r_refs s).

Lemma same_but_refs_refl : forall s, same_but_refs s s.
Proof. intro s. repeat split. Qed.

Lemma same_but_refs_obs : forall s1 s, same_but_refs s1 s -> observable s1 = observable s.
Proof. intros s1 s (_ & H2 & H3 & H4 & _ & H6). unfold observable. now rewrite H2, H3, H4, H6. Qed.

Lemma pull_pre_frame : forall e s x rc s1, pull_pre e s = (x, (rc, s1)) -> same_but_refs s1 s.
Proof.
  intros e s x rc s1. unfold pull_pre.
  destruct (negb (pe_conf e)); [intro H; inversion H; apply same_but_refs_refl|].
  destruct (negb (pe_reach e)); [intro H; inversion H; apply same_but_refs_refl|].
  destruct (is_nil (pe_refs e)); [intro H; inversion H; apply same_but_refs_refl|].
  assert (Hs : same_but_refs (w_refs s (fst (fetch_refs (pe_refs e) (r_refs s)))) s).
  { repeat split. cbn. unfold fetch_refs. apply fetch_refs_local. }
  destruct (resolve_remote e) as [r|]; [|intro H; inversion H; subst; exact Hs].
  destruct (rhead_commit _) as [h|]; [|intro H; inversion H; subst; exact Hs].
  destruct (rcommit _ h); [|intro H; inversion H; subst; exact Hs].
  destruct (_ && _); [intro H; inversion H; subst; exact Hs|].
  destruct (negb _); intro H; inversion H; subst; exact Hs.
Qed.

(* what the final Reset of Pull needs: HEAD names a branch (or is detached) and
   the commit pulled is in the object store (the fetch brought it) *)
Definition head_on_branch (s : rstate) : bool :=
  match r_head s with HSym b => is_branch b | HDet _ => true end.

Definition remote_refs_exist (e : penv) (s : rstate) : bool :=
  forallb (fun nc => is_some (rcommit s (snd nc))) (pe_refs e).

Definition pull_guard (e : penv) (s : rstate) : bool := head_on_branch s && remote_refs_exist e s.

Lemma lookup_in : forall (m : amap Z) p v, lookup p m = Some v -> In (p, v) m.
Proof.
  induction m as [|[q w] r IH]; intros p v; cbn; [discriminate|].
  destruct (beqb p q) eqn:E.
  - apply beqb_true in E. subst. intro H. inversion H. now left.
  - intro H. right. now apply IH.
Qed.

Lemma resolve_remote_exists : forall e s rc,
  remote_refs_exist e s = true -> resolve_remote e = Some rc -> is_some (rcommit s rc) = true.
Proof.
  intros e s rc Hex. unfold remote_refs_exist in Hex. rewrite forallb_forall in Hex.
  unfold resolve_remote.
  destruct (is_nil (pe_refname e) || beqb (pe_refname e) HEADNAME).
  - destruct (pe_head e) as [b|]; [|discriminate]. intro H. apply lookup_in in H. apply (Hex _ H).
  - intro H. apply lookup_in in H. apply (Hex _ H).
Qed.

Lemma reset_merge_after_update_ok : forall rc s,
  head_on_branch s = true -> is_some (rcommit s rc) = true -> runstaged s = false ->
  exists s', reset_merge rc (rupdate_head rc s) = (None, s').
Proof.
  intros rc s Hb Hc Hu. unfold reset_merge.
  assert (Ht : rtree_of (rupdate_head rc s) rc = rtree_of s rc).
  { unfold rupdate_head. destruct (r_head s); reflexivity. }
  rewrite Ht. unfold rtree_of. destruct (rcommit s rc) as [k|]; [|discriminate]. cbn [option_map].
  assert (Hu' : runstaged (rupdate_head rc s) = runstaged s).
  { unfold rupdate_head. destruct (r_head s); reflexivity. }
  rewrite Hu', Hu.
  assert (Hh : exists s1, rset_head_commit rc (rupdate_head rc s) = (None, s1)).
  { unfold rset_head_commit, rupdate_head, head_on_branch in *. destruct (r_head s) eqn:Eh; cbn.
    - rewrite Eh. rewrite lookup_insert_eq, Hb. eauto.
    - eauto. }
  destruct Hh as (s1 & Hh). rewrite Hh.
  pose proof (reset_index_lookup (c_tree k) (r_idx s1)) as Hag.
  destruct (snd (reset_index (c_tree k) (r_idx s1))) as [|q0 l0]; [eauto|].
  destruct (reset_worktree_ok (c_tree k) (q0 :: l0) (fst (reset_index (c_tree k) (r_idx s1))) (r_wt s1) Hag)
    as (ix' & w' & H1). rewrite H1. cbn. eauto.
Qed.

Lemma pull_guard_frame : forall e s s1,
  same_but_refs s1 s -> pull_guard e s = true -> head_on_branch s1 = true /\ remote_refs_exist e s1 = true.
Proof.
  intros e s s1 (H1 & H2 & _) Hg. unfold pull_guard in Hg. apply andb_true_iff in Hg. destruct Hg as [Ha Hb].
  split.
  - unfold head_on_branch in *. now rewrite H2.
  - unfold remote_refs_exist, rcommit in *. now rewrite H1.
Qed.

Lemma pull_no_late_refusal : forall e s rc s1,
  pull_guard e s = true -> pull_pre e s = (None, (rc, s1)) -> runstaged s1 = false ->
  exists s', reset_merge rc (rupdate_head rc s1) = (None, s').
Proof.
  intros e s rc s1 Hg Hp Hu.
  pose proof (pull_pre_frame _ _ _ _ _ Hp) as Hf.
  destruct (pull_guard_frame e s s1 Hf Hg) as [Hb Hex].
  apply reset_merge_after_update_ok; [assumption| |assumption].
  apply (resolve_remote_exists e s1 rc Hex).
  revert Hp. unfold pull_pre.
  destruct (negb (pe_conf e)); [discriminate|].
  destruct (negb (pe_reach e)); [discriminate|].
  destruct (is_nil (pe_refs e)); [discriminate|].
  destruct (resolve_remote e) as [r|]; [|discriminate].
  destruct (rhead_commit _) as [h|]; [|intro H; now inversion H].
  destruct (rcommit _ h); [|discriminate].
  destruct (_ && _); [discriminate|].
  destruct (negb _); [discriminate|]. intro H; now inversion H.
Qed.

Lemma pull_err_observable : forall e s x s',
  pull_guard e s = true -> pull e s = (Some x, s') -> observable s' = observable s.
Proof.
  intros e s x s' Hg. unfold pull.
  destruct (pull_pre e s) as [[x0|] [rc s1]] eqn:Hp.
  - intro H. inversion H; subst. apply same_but_refs_obs. eapply pull_pre_frame; eauto.
  - destruct (runstaged s1) eqn:Hu.
    + intro H. inversion H; subst. apply same_but_refs_obs. eapply pull_pre_frame; eauto.
    + destruct (pull_no_late_refusal e s rc s1 Hg Hp Hu) as (s2 & H2). rewrite H2. discriminate.
Qed.

Lemma pull_head_not_branch_refuted :
  exists e s x s', pull e s = (Some x, s') /\ observable s' <> observable s.
Proof.
  exists pt_env, pt_state, XOther,
         (w_refs pt_state [(tracking_name master, 1%Z); (tag_t, 1%Z)]).
  split; [vm_compute; reflexivity | vm_compute; intro H; discriminate].
Qed.

Lemma pull_unrepaired_refuted :
  exists e s s', pull_guard e s = true /\ pull_unrepaired e s = (Some XUnstaged, s') /\ observable s' <> observable s.
Proof.
  exists pt_env, pu_state, (w_refs pu_state [(master, 1%Z); (tracking_name master, 1%Z)]).
  split; [vm_compute; reflexivity|]. split; [vm_compute; reflexivity | vm_compute; intro H; discriminate].
Qed.

Lemma pull_repaired_on_witness :
  pull pt_env pu_state = (Some XUnstaged, w_refs pu_state [(master, 0%Z); (tracking_name master, 1%Z)]).
Proof. vm_compute. reflexivity. Qed.

(* ---------- every operation *)

Definition op_guard (o : xop) (s : rstate) : bool :=
  match o with
  | XCommit c => negb (cm_all c)
  | XPull e => pull_guard e s
  | _ => true
  end.

Lemma xstep_err_observable : forall o s x s',
  op_guard o s = true -> xstep o s = (Some x, s') -> observable s' = observable s.
Proof.
  intros o s x s' Hg H. destruct o; cbn [xstep op_guard] in *.
  - apply restore_err_unchanged in H. now subst.
  - apply add_path_err_unchanged in H. now subst.
  - apply add_path_err_unchanged in H. now subst.
  - unfold add_bad_options in H. inversion H. now subst.
  - apply commit_err_unchanged_partial in H; [now subst|]. now destruct (cm_all o).
  - apply merge_err_unchanged in H. now subst.
  - eapply pull_err_observable; eauto.
  - discriminate.
  - discriminate.
Qed.
