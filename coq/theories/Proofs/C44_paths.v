(* Proofs/C44_paths.v — the object layer prints a path as its components joined with '/'
   (noder.Path.String); for components that are non-empty and free of '/', distinct component
   lists give distinct strings, so the change sets of the merkletrie layer and of the object layer
   correspond one to one. *)
From Coq Require Import List NArith Bool Arith Lia.
From GoGit Require Import Base.Out Model.DiffTree.
Import ListNotations.
Local Open Scope N_scope.

Definition name_ok (n : name) : bool := negb (match n with [] => true | _ => false end) && forallb (fun b => negb (b =? SLASH)) n.
Definition path_ok (p : path) : bool := forallb name_ok p.

Lemma name_ok_nonempty n : name_ok n = true -> n <> [].
Proof. destruct n; cbn; [discriminate|discriminate]. Qed.

Lemma name_ok_noslash n : name_ok n = true -> ~ In SLASH n.
Proof.
  unfold name_ok. intros H Hi. apply andb_true_iff in H as [_ H]. rewrite forallb_forall in H.
  specialize (H _ Hi). rewrite N.eqb_refl in H. discriminate.
Qed.

(* splitting at the first '/' *)
Lemma app_slash_inj (a b : bytes) r s :
  ~ In SLASH a -> ~ In SLASH b -> a ++ SLASH :: r = b ++ SLASH :: s -> a = b /\ r = s.
Proof.
  revert b; induction a as [|x a IH]; intros [|y b] Ha Hb H; cbn in H.
  - inversion H; auto.
  - inversion H; subst. exfalso. apply Hb. now left.
  - inversion H; subst. exfalso. apply Ha. now left.
  - inversion H; subst. destruct (IH b) as [-> ->]; auto.
    + intros Hi. apply Ha. now right.
    + intros Hi. apply Hb. now right.
Qed.

Lemma join_path_cons n p : p <> [] -> join_path (n :: p) = n ++ SLASH :: join_path p.
Proof. destruct p; [congruence|reflexivity]. Qed.

Lemma join_path_inj p : forall q,
  path_ok p = true -> path_ok q = true -> join_path p = join_path q -> p = q.
Proof.
  induction p as [|n p IH]; intros [|m q] Hp Hq H.
  - reflexivity.
  - exfalso. cbn in Hq. apply andb_true_iff in Hq as [Hm _]. apply name_ok_nonempty in Hm.
    destruct q; cbn in H; [congruence|]. destruct m; [congruence|discriminate].
  - exfalso. cbn in Hp. apply andb_true_iff in Hp as [Hn _]. apply name_ok_nonempty in Hn.
    destruct p; cbn in H; [congruence|]. destruct n; [congruence|discriminate].
  - cbn [path_ok forallb] in Hp, Hq. apply andb_true_iff in Hp as [Hn Hp]. apply andb_true_iff in Hq as [Hm Hq].
    pose proof (name_ok_noslash _ Hn) as Sn. pose proof (name_ok_noslash _ Hm) as Sm.
    destruct p as [|n2 p]; destruct q as [|m2 q].
    + cbn in H. congruence.
    + exfalso. rewrite (join_path_cons m (m2 :: q)) in H by discriminate. cbn [join_path] in H.
      apply Sn. rewrite H. apply in_or_app. right. now left.
    + exfalso. rewrite (join_path_cons n (n2 :: p)) in H by discriminate. cbn [join_path] in H.
      apply Sm. rewrite <- H. apply in_or_app. right. now left.
    + rewrite (join_path_cons n (n2 :: p)), (join_path_cons m (m2 :: q)) in H by discriminate.
      destruct (app_slash_inj _ _ _ _ Sn Sm H) as [-> Hr]. f_equal. apply IH; auto.
Qed.

Definition mchange_ok (c : mchange) : bool := match c with MIns p _ | MDel p _ | MMod p _ _ => path_ok p end.

Lemma to_chg_inj a b : mchange_ok a = true -> mchange_ok b = true -> to_chg a = to_chg b -> a = b.
Proof.
  destruct a as [p l|p l|p x y], b as [q m|q m|q u v]; cbn; intros Ha Hb H; inversion H; subst;
    try (f_equal; now apply join_path_inj).
Qed.

(* ---------- all names of a tree are printable components *)
From GoGit Require Import Spec.MapDiff Proofs.C44_order Proofs.C44_diff Proofs.C44_sort Proofs.C44_spec Proofs.C44_nodup.

Fixpoint names_ok_node (x : node) : bool :=
  match x with
  | File _ => true
  | Dir cs => (fix go (cs : list (name * node)) : bool :=
                 match cs with [] => true | c :: r => name_ok (fst c) && names_ok_node (snd c) && go r end) cs
  end.
Definition names_ok (t : tree) : bool := names_ok_node (Dir t).

Lemma names_ok_dir cs :
  names_ok_node (Dir cs) = true <-> Forall (fun c => name_ok (fst c) = true /\ names_ok_node (snd c) = true) cs.
Proof.
  induction cs as [|c r IH]; [split; constructor|].
  change (names_ok_node (Dir (c :: r))) with (name_ok (fst c) && names_ok_node (snd c) && names_ok_node (Dir r)).
  rewrite !andb_true_iff, IH. split.
  - intros [[H1 H2] H3]. constructor; auto.
  - intros H. inversion H; subst. tauto.
Qed.

Lemma files_paths_ok x : names_ok_node x = true -> forall p l, In (p, l) (files x) -> path_ok p = true.
Proof.
  induction x as [l0|cs IH] using node_ind'; intros Hok p l Hi.
  - cbn in Hi. destruct Hi as [He|[]]. injection He as <- <-. reflexivity.
  - apply names_ok_dir in Hok. rewrite files_dir in Hi. apply in_files_l in Hi as (n & x & q & Hin & -> & Hq).
    rewrite Forall_forall in IH, Hok. destruct (Hok _ Hin) as [Hn Hx]. cbn [fst snd] in *.
    cbn [path_ok forallb]. rewrite Hn. cbn. apply (IH _ Hin Hx q l Hq).
Qed.

Lemma flatten_paths_ok t p l : names_ok t = true -> In (p, l) (flatten t) -> path_ok p = true.
Proof. intros Hok Hi. apply (files_paths_ok (Dir t) Hok p l). now rewrite files_dir. Qed.

Theorem difftree_object_layer a b cs :
  tree_ok a = true -> tree_ok b = true -> names_ok a = true -> names_ok b = true ->
  difftree a b = Some cs ->
  NoDup (map to_chg cs) /\ forall c c', In c cs -> In c' cs -> to_chg c = to_chg c' -> c = c'.
Proof.
  intros Ha Hb Na Nb Hd.
  assert (Hok : forall c, In c cs -> mchange_ok c = true).
  { intros c Hc. destruct (difftree_spec a b Ha Hb) as (cs' & Hd' & Hs). rewrite Hd in Hd'. inversion Hd'; subst cs'.
    apply Hs in Hc. destruct c as [p l|p l|p x y]; cbn in Hc |- *.
    - destruct Hc as [Hc _]. exact (flatten_paths_ok b p l Nb Hc).
    - destruct Hc as [Hc _]. exact (flatten_paths_ok a p l Na Hc).
    - destruct Hc as (Hc & _ & _). exact (flatten_paths_ok a p x Na Hc). }
  assert (Hinj : forall c c', In c cs -> In c' cs -> to_chg c = to_chg c' -> c = c').
  { intros c c' Hc Hc' He. apply to_chg_inj; auto. }
  split; [|exact Hinj].
  pose proof (difftree_nodup a b cs Ha Hb Hd) as Hnd. clear Hd Hok.
  induction Hnd as [|c cs Hc _ IH]; cbn; constructor.
  - intros Hi. apply in_map_iff in Hi as (c' & He & Hc'). apply Hc.
    rewrite (Hinj c c'); auto; [now left|now right].
  - apply IH. intros x y Hx Hy. apply Hinj; now right.
Qed.
