(* Proofs/C16.v — the lock holder is the only thread past the read *)
From Coq Require Import List Arith Bool Lia.
From GoGit Require Import Base.Out Model.RefCAS.
Import ListNotations.

Definition cas_or_read (k : kind) : bool := match k with KCas _ _ | KRead => true | _ => false end.
Definition cas_only (kinds : nat -> kind) : Prop := forall t, cas_or_read (kinds t) = true.

Definition reachable (kinds : nat -> kind) (s0 s : st) : Prop := exists sched, run kinds s0 sched = s.

Definition pc_kind_ok (k : kind) (p : pc) : bool :=
  match k, p with
  | (KCas _ _ | KSet _), (W0 | W1 _ | W2 _ | W3 _ | W4 _ _ | W5 _ | W6 _ | W7 _ _ | Done _) => true
  | KRead, (R0 | R1 | R2 _ | R3 | R4 _ | Done _) => true
  | KPack, (P0 | P1 | P2 | P3 | P4 | P5 _ | P6 _ | P7 _ | P8 | P9 _ | Done _) => true
  | _, _ => false
  end.

Definition has_fd (p : pc) : option nat :=
  match p with
  | W1 fd | W2 fd | W3 fd | W4 fd _ | W5 fd | W6 fd | W7 fd _ | R2 fd => Some fd
  | _ => None
  end.

Definition in_cs (p : pc) : option nat :=
  match p with
  | W2 fd | W3 fd | W4 fd _ | W5 fd | W6 fd | W7 fd _ => Some fd
  | _ => None
  end.

Definition of_reg (r : option value) : res := match r with Some v => RFound v | None => RNotFound end.

(* successful updates form a chain: each saw (modulo Hash()) the value the previous one wrote *)
Fixpoint chain_ok (r0 : option value) (l : list (option value * value * value)) : Prop :=
  match l with
  | [] => True
  | (r, o, n) :: rest => r = r0 /\ (exists v, r = Some v /\ same v o = true) /\ chain_ok (Some n) rest
  end.

Fixpoint last_reg (r0 : option value) (l : list (option value * value * value)) : option value :=
  match l with
  | [] => r0
  | (_, _, n) :: rest => last_reg (Some n) rest
  end.

Lemma chain_ok_app : forall l r0 o n v, chain_ok r0 l -> last_reg r0 l = Some v -> same v o = true ->
  chain_ok r0 (l ++ [(Some v, o, n)]) /\ last_reg r0 (l ++ [(Some v, o, n)]) = Some n.
Proof.
  induction l as [|[[r o'] n'] l IH]; cbn; intros r0 o n v Hc Hl Hs.
  - subst. repeat split; eauto.
  - destruct Hc as (-> & Hv & Hc). destruct (IH _ o n v Hc Hl Hs) as [A B]. repeat split; auto.
Qed.

Record J (kinds : nat -> kind) (r0 : option value) (pk0 : option (option value)) (s : st) : Prop := mkJ {
  j_kind : forall t, pc_kind_ok (kinds t) (pc_of kinds s t) = true;
  j_fd : forall t fd, has_fd (pc_of kinds s t) = Some fd -> loose s = Some fd;
  j_lock : forall t fd, in_cs (pc_of kinds s t) = Some fd -> lockh s fd = Some t;
  j_w6 : forall t fd, pc_of kinds s t = W6 fd ->
      win s = true /\ inode s fd = None /\
      exists v old new, kinds t = KCas old new /\ reg s = Some v /\ same v old = true;
  j_win : win s = true -> exists t fd, pc_of kinds s t = W6 fd;
  j_reg : win s = false -> logical s = reg s;
  j_w5 : forall t fd, pc_of kinds s t = W5 fd ->
      exists v old new, kinds t = KCas old new /\ reg s = Some v /\ same v old = true;
  j_w3 : forall t fd, pc_of kinds s t = W3 fd -> inode s fd = None;
  j_w4 : forall t fd pv, pc_of kinds s t = W4 fd pv -> inode s fd = None /\ pfile s = Some pv;
  j_chain : chain_ok r0 (log s) /\ reg s = last_reg r0 (log s);
  j_pk : pfile s = pk0;
  j_r3 : forall t, pc_of kinds s t = R3 -> exists r w, rexp s t = Some (r, w) /\ (w = false -> packed_val s = r);
  j_r4 : forall t pv, pc_of kinds s t = R4 pv -> exists r w, rexp s t = Some (r, w) /\ (w = false -> pv = r);
  j_rd : forall t res, kinds t = KRead -> pc_of kinds s t = Done res ->
      exists r w, rexp s t = Some (r, w) /\ (w = false -> res = of_reg r)
}.

Lemma upd_same : forall A (m : nat -> A) k v, upd m k v k = v.
Proof. intros. unfold upd. now rewrite Nat.eqb_refl. Qed.
Lemma upd_other : forall A (m : nat -> A) k v x, x <> k -> upd m k v x = m x.
Proof. intros. unfold upd. destruct (Nat.eqb_spec x k); congruence. Qed.

Lemma pc_of_set_pc_same : forall kinds s t p, pc_of kinds (set_pc s t p) t = p.
Proof. intros. unfold pc_of, set_pc. cbn. now rewrite upd_same. Qed.
Lemma pc_of_set_pc_other : forall kinds s t p t', t' <> t -> pc_of kinds (set_pc s t p) t' = pc_of kinds s t'.
Proof. intros. unfold pc_of, set_pc. cbn. now rewrite upd_other. Qed.

Lemma J_init : forall kinds lo pk, J kinds (logical (mk_init lo pk)) pk (mk_init lo pk).
Proof.
  intros kinds lo pk.
  assert (Hpc : forall t, pc_of kinds (mk_init lo pk) t = start (kinds t)).
  { intros t. unfold pc_of, mk_init. destruct lo; reflexivity. }
  assert (Hk : forall k, pc_kind_ok k (start k) = true) by (destruct k; reflexivity).
  assert (Hs : forall k, start k = W0 \/ start k = R0 \/ start k = P0) by (destruct k; auto).
  assert (Hno : forall t p, pc_of kinds (mk_init lo pk) t = p -> p = W0 \/ p = R0 \/ p = P0).
  { intros t p <-. rewrite Hpc. apply Hs. }
  assert (Hwin : win (mk_init lo pk) = false) by (unfold mk_init; destruct lo; reflexivity).
  constructor.
  - intros t. rewrite Hpc. auto.
  - intros t fd H. destruct (Hno t _ eq_refl) as [E|[E|E]]; rewrite E in H; discriminate.
  - intros t fd H. destruct (Hno t _ eq_refl) as [E|[E|E]]; rewrite E in H; discriminate.
  - intros t fd H. destruct (Hno t _ H) as [E|[E|E]]; discriminate.
  - rewrite Hwin. discriminate.
  - intros _. unfold mk_init. destruct lo; reflexivity.
  - intros t fd H. destruct (Hno t _ H) as [E|[E|E]]; discriminate.
  - intros t fd H. destruct (Hno t _ H) as [E|[E|E]]; discriminate.
  - intros t fd pv H. destruct (Hno t _ H) as [E|[E|E]]; discriminate.
  - unfold mk_init. destruct lo; cbn; auto.
  - unfold mk_init. destruct lo; reflexivity.
  - intros t H. destruct (Hno t _ H) as [E|[E|E]]; discriminate.
  - intros t pv H. destruct (Hno t _ H) as [E|[E|E]]; discriminate.
  - intros t res _ H. destruct (Hno t _ H) as [E|[E|E]]; discriminate.
Qed.

Definition with_pc_rexp (s : st) (t : nat) (p : pc) (rx : nat -> option (option value * bool)) : st :=
  mkSt (inode s) (loose s) (pfile s) (nexti s) (lockh s) (plock s) (upd (pcs s) t (Some p)) (reg s) (log s) (win s) rx.

Lemma pc_of_with_same : forall kinds s t p rx, pc_of kinds (with_pc_rexp s t p rx) t = p.
Proof. intros. unfold pc_of, with_pc_rexp. cbn. now rewrite upd_same. Qed.
Lemma pc_of_with_other : forall kinds s t p rx t', t' <> t -> pc_of kinds (with_pc_rexp s t p rx) t' = pc_of kinds s t'.
Proof. intros. unfold pc_of, with_pc_rexp. cbn. now rewrite upd_other. Qed.

Lemma J_pc_only : forall kinds r0 pk0 s t p' rx,
  J kinds r0 pk0 s ->
  (forall t', t' <> t -> rx t' = rexp s t') ->
  pc_kind_ok (kinds t) p' = true ->
  (forall fd, has_fd p' = Some fd -> loose s = Some fd) ->
  (forall fd, in_cs p' = Some fd -> lockh s fd = Some t) ->
  (forall fd, p' <> W6 fd) -> (forall fd, pc_of kinds s t <> W6 fd) ->
  (forall fd, p' = W5 fd -> exists v old new, kinds t = KCas old new /\ reg s = Some v /\ same v old = true) ->
  (forall fd, p' = W3 fd -> inode s fd = None) ->
  (forall fd pv, p' = W4 fd pv -> inode s fd = None /\ pfile s = Some pv) ->
  (p' = R3 -> exists r w, rx t = Some (r, w) /\ (w = false -> packed_val s = r)) ->
  (forall pv, p' = R4 pv -> exists r w, rx t = Some (r, w) /\ (w = false -> pv = r)) ->
  (forall res, kinds t = KRead -> p' = Done res -> exists r w, rx t = Some (r, w) /\ (w = false -> res = of_reg r)) ->
  J kinds r0 pk0 (with_pc_rexp s t p' rx).
Proof.
  intros kinds r0 pk0 s t p' rx I Hrx C1 C2 C3 C4 C4' C5 C6 C7 C8 C9 C10.
  destruct I as [jk jfd jl jw6 jwin jreg jw5 jw3 jw4 jch jpk jr3 jr4 jrd].
  assert (PS := pc_of_with_same kinds s t p' rx).
  assert (PO := pc_of_with_other kinds s t p' rx).
  constructor; cbn [inode loose pfile nexti lockh plock reg log win rexp with_pc_rexp];
    try (intros t'; destruct (Nat.eq_dec t' t) as [->|Hne]; [rewrite PS | rewrite (PO _ Hne)]); eauto.
  - intros fd E. exfalso. eapply C4; eauto.
  - intros Hw. destruct (jwin Hw) as (t' & fd & E). exists t', fd.
    destruct (Nat.eq_dec t' t) as [->|Hne]; [exfalso; eapply C4'; eauto | now rewrite (PO _ Hne)].
  - intros E. specialize (jr3 _ E). now rewrite (Hrx _ Hne).
  - intros pv E. specialize (jr4 _ _ E). now rewrite (Hrx _ Hne).
  - intros res Hk E. specialize (jrd _ _ Hk E). now rewrite (Hrx _ Hne).
Qed.

Lemma set_pc_with : forall s t p, set_pc s t p = with_pc_rexp s t p (rexp s).
Proof. reflexivity. Qed.
Lemma set_pc_rexp_with : forall s t p,
  set_pc (set_rexp s t) t p = with_pc_rexp s t p (upd (rexp s) t (Some (reg s, win s))).
Proof. reflexivity. Qed.

Lemma mutex : forall kinds r0 pk0 s t t' fd fd', J kinds r0 pk0 s ->
  in_cs (pc_of kinds s t) = Some fd -> in_cs (pc_of kinds s t') = Some fd' -> t = t'.
Proof.
  intros kinds r0 pk0 s t t' fd fd' I H H'.
  assert (F : forall p x, in_cs p = Some x -> has_fd p = Some x) by (destruct p; cbn; congruence).
  pose proof (j_fd _ _ _ _ I _ _ (F _ _ H)) as E. pose proof (j_fd _ _ _ _ I _ _ (F _ _ H')) as E'.
  rewrite E in E'. inversion E'; subst.
  pose proof (j_lock _ _ _ _ I _ _ H) as L. pose proof (j_lock _ _ _ _ I _ _ H') as L'. congruence.
Qed.

(* a thread inside the critical section excludes a truncate-write window of anyone else *)
Lemma cs_no_other_w6 : forall kinds r0 pk0 s t fd, J kinds r0 pk0 s ->
  in_cs (pc_of kinds s t) = Some fd -> (forall fd', pc_of kinds s t <> W6 fd') -> win s = false.
Proof.
  intros kinds r0 pk0 s t fd I H Hn. destruct (win s) eqn:Hw; auto.
  destruct (j_win _ _ _ _ I Hw) as (t' & fd' & E).
  assert (t = t') by (eapply mutex; eauto; rewrite E; reflexivity). subst. exfalso. eapply Hn; eauto.
Qed.

Ltac tcase t' t := destruct (Nat.eq_dec t' t) as [->|Hne].

Section Steps.
Variable kinds : nat -> kind.
Variable r0 : option value.
Variable pk0 : option (option value).
Hypothesis CO : cas_only kinds.

Lemma kind_of_writer : forall s t, J kinds r0 pk0 s ->
  (match pc_of kinds s t with W0 | W1 _ | W2 _ | W3 _ | W4 _ _ | W5 _ | W6 _ | W7 _ _ => True | _ => False end) ->
  exists old new, kinds t = KCas old new.
Proof.
  intros s t I H. pose proof (j_kind _ _ _ _ I t) as K. pose proof (CO t) as C.
  destruct (kinds t); try discriminate; eauto.
  destruct (pc_of kinds s t); cbn in *; try discriminate; contradiction.
Qed.

Lemma step_W0 : forall s t s', J kinds r0 pk0 s -> pc_of kinds s t = W0 -> step kinds s t = Some s' -> J kinds r0 pk0 s'.
Proof.
  intros s t s' I Hpc H. unfold step in H. rewrite Hpc in H.
  destruct (kind_of_writer s t I) as (old & new & Hk); [now rewrite Hpc|]. rewrite Hk in H.
  destruct (loose s) as [i|] eqn:Hl.
  - inversion H; subst; clear H. rewrite set_pc_with.
    apply J_pc_only; auto; try discriminate; try (rewrite Hpc; discriminate).
    + now rewrite Hk.
    + intros fd E. inversion E; subst. auto.
  - inversion H; subst; clear H.
    destruct I as [jk jfd jl jw6 jwin jreg jw5 jw3 jw4 jch jpk jr3 jr4 jrd].
    assert (Nofd : forall t' fd, has_fd (pc_of kinds s t') = Some fd -> False).
    { intros t' fd E. specialize (jfd _ _ E). congruence. }
    set (s' := set_pc _ t _).
    assert (PS : pc_of kinds s' t = W1 (nexti s)) by (subst s'; unfold pc_of; cbn; now rewrite upd_same).
    assert (PO : forall t', t' <> t -> pc_of kinds s' t' = pc_of kinds s t') by (intros; subst s'; unfold pc_of; cbn; now rewrite upd_other).
    constructor; subst s'; cbn [inode loose pfile nexti lockh plock reg log win rexp set_pc set_loose set_inode].
    + intros t'. tcase t' t; [rewrite PS, Hk; reflexivity | rewrite (PO _ Hne); auto].
    + intros t' fd. tcase t' t; [rewrite PS; cbn; congruence | rewrite (PO _ Hne); intros E; exfalso; eauto].
    + intros t' fd. tcase t' t; [rewrite PS; discriminate | rewrite (PO _ Hne)]. intros E. exfalso.
      eapply (Nofd t' fd). destruct (pc_of kinds s t'); cbn in *; try discriminate; auto.
    + intros t' fd. tcase t' t; [rewrite PS; discriminate | rewrite (PO _ Hne)]. intros E. exfalso.
      eapply (Nofd t'). rewrite E. reflexivity.
    + intros Hw. destruct (jwin Hw) as (t' & fd & E). exfalso. eapply (Nofd t'). rewrite E. reflexivity.
    + intros Hw. rewrite <- (jreg Hw). unfold logical, packed_val. cbn. rewrite Hl. now rewrite upd_same.
    + intros t' fd. tcase t' t; [rewrite PS; discriminate | rewrite (PO _ Hne)]. intros E. exfalso.
      eapply (Nofd t'). rewrite E. reflexivity.
    + intros t' fd. tcase t' t; [rewrite PS; discriminate | rewrite (PO _ Hne)]. intros E. exfalso.
      eapply (Nofd t'). rewrite E. reflexivity.
    + intros t' fd pv. tcase t' t; [rewrite PS; discriminate | rewrite (PO _ Hne)]. intros E. exfalso.
      eapply (Nofd t'). rewrite E. reflexivity.
    + auto.
    + auto.
    + intros t'. tcase t' t; [rewrite PS; discriminate | rewrite (PO _ Hne)]. intros E.
      destruct (jr3 _ E) as (r & w & A & B). exists r, w. split; auto.
    + intros t' pv. tcase t' t; [rewrite PS; discriminate | rewrite (PO _ Hne)]. eauto.
    + intros t' res Hkr. tcase t' t; [rewrite PS; discriminate | rewrite (PO _ Hne)]. eauto.
Qed.

Lemma step_W1 : forall s t fd s', J kinds r0 pk0 s -> pc_of kinds s t = W1 fd -> step kinds s t = Some s' -> J kinds r0 pk0 s'.
Proof.
  intros s t fd s' I Hpc H. unfold step in H. rewrite Hpc in H.
  destruct (kind_of_writer s t I) as (old & new & Hk); [now rewrite Hpc|]. rewrite Hk in H.
  destruct (lockh s fd) eqn:Hl; [discriminate|]. inversion H; subst; clear H.
  assert (Hloose : loose s = Some fd) by (apply (j_fd _ _ _ _ I t); rewrite Hpc; reflexivity).
  assert (Nocs : forall t' fd', in_cs (pc_of kinds s t') = Some fd' -> False).
  { intros t' fd' E. pose proof (j_lock _ _ _ _ I _ _ E) as L.
    assert (has_fd (pc_of kinds s t') = Some fd') by (destruct (pc_of kinds s t'); cbn in *; try discriminate; auto).
    pose proof (j_fd _ _ _ _ I _ _ H) as F. congruence. }
  destruct I as [jk jfd jl jw6 jwin jreg jw5 jw3 jw4 jch jpk jr3 jr4 jrd].
  set (s' := set_pc _ t _).
  assert (PS : pc_of kinds s' t = W2 fd) by (subst s'; unfold pc_of; cbn; now rewrite upd_same).
  assert (PO : forall t', t' <> t -> pc_of kinds s' t' = pc_of kinds s t') by (intros; subst s'; unfold pc_of; cbn; now rewrite upd_other).
  constructor; subst s'; cbn [inode loose pfile nexti lockh plock reg log win rexp set_pc set_lock].
  - intros t'. tcase t' t; [rewrite PS, Hk; reflexivity | rewrite (PO _ Hne); auto].
  - intros t' fd'. tcase t' t; [rewrite PS; cbn; congruence | rewrite (PO _ Hne); eauto].
  - intros t' fd'. tcase t' t; [rewrite PS; cbn; intros E; inversion E; subst; now rewrite upd_same | rewrite (PO _ Hne)].
    intros E. exfalso. eauto.
  - intros t' fd'. tcase t' t; [rewrite PS; discriminate | rewrite (PO _ Hne)]. intros E. exfalso.
    eapply (Nocs t'). rewrite E. reflexivity.
  - intros Hw. destruct (jwin Hw) as (t' & fd' & E). exfalso. eapply (Nocs t'). rewrite E. reflexivity.
  - auto.
  - intros t' fd'. tcase t' t; [rewrite PS; discriminate | rewrite (PO _ Hne)]. intros E. exfalso.
    eapply (Nocs t'). rewrite E. reflexivity.
  - intros t' fd'. tcase t' t; [rewrite PS; discriminate | rewrite (PO _ Hne)]. eauto.
  - intros t' fd' pv. tcase t' t; [rewrite PS; discriminate | rewrite (PO _ Hne)]. eauto.
  - auto.
  - auto.
  - intros t'. tcase t' t; [rewrite PS; discriminate | rewrite (PO _ Hne)]. eauto.
  - intros t' pv. tcase t' t; [rewrite PS; discriminate | rewrite (PO _ Hne)]. eauto.
  - intros t' res Hkr. tcase t' t; [rewrite PS; discriminate | rewrite (PO _ Hne)]. eauto.
Qed.

Lemma step_W5 : forall s t fd s', J kinds r0 pk0 s -> pc_of kinds s t = W5 fd -> step kinds s t = Some s' -> J kinds r0 pk0 s'.
Proof.
  intros s t fd s' I Hpc H. unfold step in H. rewrite Hpc in H. inversion H; subst; clear H.
  assert (Hloose : loose s = Some fd) by (apply (j_fd _ _ _ _ I t); rewrite Hpc; reflexivity).
  assert (Only : forall t' fd', in_cs (pc_of kinds s t') = Some fd' -> t' = t).
  { intros t' fd' E. eapply mutex; eauto. rewrite Hpc. reflexivity. }
  destruct (j_w5 _ _ _ _ I _ _ Hpc) as (v & old & new & Hk & Hreg & Hsame).
  destruct I as [jk jfd jl jw6 jwin jreg jw5 jw3 jw4 jch jpk jr3 jr4 jrd].
  set (s' := set_pc _ t _).
  assert (PS : pc_of kinds s' t = W6 fd) by (subst s'; unfold pc_of; cbn; now rewrite upd_same).
  assert (PO : forall t', t' <> t -> pc_of kinds s' t' = pc_of kinds s t') by (intros; subst s'; unfold pc_of; cbn; now rewrite upd_other).
  constructor; subst s'; cbn [inode loose pfile nexti lockh plock reg log win rexp set_pc set_ghost set_inode].
  - intros t'. tcase t' t; [rewrite PS, Hk; reflexivity | rewrite (PO _ Hne); auto].
  - intros t' fd'. tcase t' t; [rewrite PS; cbn; congruence | rewrite (PO _ Hne); eauto].
  - intros t' fd'. tcase t' t; [rewrite PS; cbn; intros E; inversion E; subst; apply (jl t); rewrite Hpc; reflexivity | rewrite (PO _ Hne); eauto].
  - intros t' fd'. tcase t' t; [rewrite PS | rewrite (PO _ Hne)].
    + intros E. inversion E; subst. split; auto. split; [now rewrite upd_same|]. eauto 8.
    + intros E. exfalso. apply Hne. eapply Only. rewrite E. reflexivity.
  - intros _. exists t, fd. auto.
  - discriminate.
  - intros t' fd'. tcase t' t; [rewrite PS; discriminate | rewrite (PO _ Hne)]. intros E. exfalso.
    apply Hne. eapply Only. rewrite E. reflexivity.
  - intros t' fd'. tcase t' t; [rewrite PS; discriminate | rewrite (PO _ Hne)]. intros E. exfalso.
    apply Hne. eapply Only. rewrite E. reflexivity.
  - intros t' fd' pv. tcase t' t; [rewrite PS; discriminate | rewrite (PO _ Hne)]. intros E. exfalso.
    apply Hne. eapply Only. rewrite E. reflexivity.
  - auto.
  - auto.
  - intros t'. tcase t' t; [rewrite PS; discriminate | rewrite (PO _ Hne)]. eauto.
  - intros t' pv. tcase t' t; [rewrite PS; discriminate | rewrite (PO _ Hne)]. eauto.
  - intros t' res Hkr. tcase t' t; [rewrite PS; discriminate | rewrite (PO _ Hne)]. eauto.
Qed.

Lemma step_W6 : forall s t fd s', J kinds r0 pk0 s -> pc_of kinds s t = W6 fd -> step kinds s t = Some s' -> J kinds r0 pk0 s'.
Proof.
  intros s t fd s' I Hpc H. unfold step in H. rewrite Hpc in H.
  destruct (j_w6 _ _ _ _ I _ _ Hpc) as (Hwin & Hino & v & old & new & Hk & Hreg & Hsame).
  rewrite Hk in H. inversion H; subst; clear H. rewrite Hino. cbn [overwrite].
  assert (Hloose : loose s = Some fd) by (apply (j_fd _ _ _ _ I t); rewrite Hpc; reflexivity).
  assert (Only : forall t' fd', in_cs (pc_of kinds s t') = Some fd' -> t' = t).
  { intros t' fd' E. eapply mutex; eauto. rewrite Hpc. reflexivity. }
  destruct I as [jk jfd jl jw6 jwin jreg jw5 jw3 jw4 jch jpk jr3 jr4 jrd].
  set (s' := set_pc _ t _).
  assert (PS : pc_of kinds s' t = W7 fd ROk) by (subst s'; unfold pc_of; cbn; now rewrite upd_same).
  assert (PO : forall t', t' <> t -> pc_of kinds s' t' = pc_of kinds s t') by (intros; subst s'; unfold pc_of; cbn; now rewrite upd_other).
  constructor; subst s'; cbn [inode loose pfile nexti lockh plock reg log win rexp set_pc set_ghost set_inode].
  - intros t'. tcase t' t; [rewrite PS, Hk; reflexivity | rewrite (PO _ Hne); auto].
  - intros t' fd'. tcase t' t; [rewrite PS; cbn; congruence | rewrite (PO _ Hne); eauto].
  - intros t' fd'. tcase t' t; [rewrite PS; cbn; intros E; inversion E; subst; apply (jl t); rewrite Hpc; reflexivity | rewrite (PO _ Hne); eauto].
  - intros t' fd'. tcase t' t; [rewrite PS; discriminate | rewrite (PO _ Hne)]. intros E. exfalso.
    apply Hne. eapply Only. rewrite E. reflexivity.
  - discriminate.
  - intros _. unfold logical. cbn. rewrite Hloose. now rewrite upd_same.
  - intros t' fd'. tcase t' t; [rewrite PS; discriminate | rewrite (PO _ Hne)]. intros E. exfalso.
    apply Hne. eapply Only. rewrite E. reflexivity.
  - intros t' fd'. tcase t' t; [rewrite PS; discriminate | rewrite (PO _ Hne)]. intros E. exfalso.
    apply Hne. eapply Only. rewrite E. reflexivity.
  - intros t' fd' pv. tcase t' t; [rewrite PS; discriminate | rewrite (PO _ Hne)]. intros E. exfalso.
    apply Hne. eapply Only. rewrite E. reflexivity.
  - destruct jch as [A B]. rewrite Hreg. rewrite Hreg in B. symmetry in B.
    destruct (chain_ok_app (log s) r0 old new v A B Hsame). split; auto.
  - auto.
  - intros t'. tcase t' t; [rewrite PS; discriminate | rewrite (PO _ Hne)]. eauto.
  - intros t' pv. tcase t' t; [rewrite PS; discriminate | rewrite (PO _ Hne)]. eauto.
  - intros t' res Hkr. tcase t' t; [congruence | rewrite (PO _ Hne)]. eauto.
Qed.

Lemma step_W7 : forall s t fd r s', J kinds r0 pk0 s -> pc_of kinds s t = W7 fd r -> step kinds s t = Some s' -> J kinds r0 pk0 s'.
Proof.
  intros s t fd r s' I Hpc H. unfold step in H. rewrite Hpc in H.
  destruct (kind_of_writer s t I) as (old & new & Hk); [now rewrite Hpc|].
  assert (Hl : lockh s fd = Some t) by (apply (j_lock _ _ _ _ I t); rewrite Hpc; reflexivity).
  rewrite Hl, Nat.eqb_refl in H. inversion H; subst; clear H.
  assert (Only : forall t' fd', in_cs (pc_of kinds s t') = Some fd' -> t' = t).
  { intros t' fd' E. eapply mutex; eauto. rewrite Hpc. reflexivity. }
  destruct I as [jk jfd jl jw6 jwin jreg jw5 jw3 jw4 jch jpk jr3 jr4 jrd].
  set (s' := set_pc _ t _).
  assert (PS : pc_of kinds s' t = Done r) by (subst s'; unfold pc_of; cbn; now rewrite upd_same).
  assert (PO : forall t', t' <> t -> pc_of kinds s' t' = pc_of kinds s t') by (intros; subst s'; unfold pc_of; cbn; now rewrite upd_other).
  constructor; subst s'; cbn [inode loose pfile nexti lockh plock reg log win rexp set_pc set_lock].
  - intros t'. tcase t' t; [rewrite PS, Hk; reflexivity | rewrite (PO _ Hne); auto].
  - intros t' fd'. tcase t' t; [rewrite PS; discriminate | rewrite (PO _ Hne); eauto].
  - intros t' fd'. tcase t' t; [rewrite PS; discriminate | rewrite (PO _ Hne)].
    intros E. exfalso. apply Hne. eauto.
  - intros t' fd'. tcase t' t; [rewrite PS; discriminate | rewrite (PO _ Hne)]. eauto.
  - intros Hw. destruct (jwin Hw) as (t' & fd' & E). exists t', fd'.
    tcase t' t; [congruence | now rewrite (PO _ Hne)].
  - auto.
  - intros t' fd'. tcase t' t; [rewrite PS; discriminate | rewrite (PO _ Hne)]. eauto.
  - intros t' fd'. tcase t' t; [rewrite PS; discriminate | rewrite (PO _ Hne)]. eauto.
  - intros t' fd' pv. tcase t' t; [rewrite PS; discriminate | rewrite (PO _ Hne)]. eauto.
  - auto.
  - auto.
  - intros t'. tcase t' t; [rewrite PS; discriminate | rewrite (PO _ Hne)]. eauto.
  - intros t' pv. tcase t' t; [rewrite PS; discriminate | rewrite (PO _ Hne)]. eauto.
  - intros t' res Hkr. tcase t' t; [congruence | rewrite (PO _ Hne)]. eauto.
Qed.

Lemma after_compare_cases : forall fd old cur,
  (exists v, cur = Some v /\ same v old = true /\ after_compare fd old cur = W5 fd)
  \/ (exists r, after_compare fd old cur = W7 fd r).
Proof.
  intros fd old [v|]; cbn; [|right; eauto]. destruct (same v old) eqn:E; [left; eauto | right; eauto].
Qed.

Lemma logical_loose : forall s fd, loose s = Some fd ->
  logical s = match inode s fd with Some v => Some v | None => packed_val s end.
Proof. intros s fd H. unfold logical. now rewrite H. Qed.

Lemma step_pc_only : forall s t s', J kinds r0 pk0 s -> step kinds s t = Some s' ->
  match pc_of kinds s t with
  | W2 _ | W3 _ | W4 _ _ | R0 | R1 | R2 _ | R3 | R4 _ => J kinds r0 pk0 s'
  | _ => True
  end.
Proof.
  intros s t s' I H. destruct (pc_of kinds s t) eqn:Hpc; auto; unfold step in H; rewrite Hpc in H.
  - (* W2 *)
    destruct (kind_of_writer s t I) as (old & new & Hk); [now rewrite Hpc|]. rewrite Hk in H.
    assert (Hloose : loose s = Some fd) by (apply (j_fd _ _ _ _ I t); rewrite Hpc; reflexivity).
    assert (Hl : lockh s fd = Some t) by (apply (j_lock _ _ _ _ I t); rewrite Hpc; reflexivity).
    assert (Hw : win s = false) by (eapply (cs_no_other_w6 kinds r0 pk0 s t fd I); rewrite Hpc; [reflexivity|discriminate]).
    destruct (inode s fd) as [v|] eqn:Hi; inversion H; subst; clear H; rewrite set_pc_with.
    + fold (after_compare fd old (Some v)).
      destruct (after_compare_cases fd old (Some v)) as [(v' & E1 & E2 & E3)|[r E3]]; rewrite E3;
        apply J_pc_only; auto; try discriminate; try (rewrite Hpc; discriminate);
        try (rewrite Hk; reflexivity); try (cbn; congruence).
      intros fd' _. inversion E1; subst. exists v', old, new. repeat split; auto.
      rewrite <- (j_reg _ _ _ _ I Hw). rewrite (logical_loose s fd Hloose). now rewrite Hi.
    + apply J_pc_only; auto; try discriminate; try (rewrite Hpc; discriminate);
        try (rewrite Hk; reflexivity); try (cbn; congruence).
  - (* W3 *)
    destruct (kind_of_writer s t I) as (old & new & Hk); [now rewrite Hpc|]. rewrite Hk in H.
    assert (Hloose : loose s = Some fd) by (apply (j_fd _ _ _ _ I t); rewrite Hpc; reflexivity).
    assert (Hl : lockh s fd = Some t) by (apply (j_lock _ _ _ _ I t); rewrite Hpc; reflexivity).
    pose proof (j_w3 _ _ _ _ I _ _ Hpc) as Hi.
    destruct (pfile s) as [pv|] eqn:Hp; inversion H; subst; clear H; rewrite set_pc_with;
      apply J_pc_only; auto; try discriminate; try (rewrite Hpc; discriminate);
      try (rewrite Hk; reflexivity); try (cbn; congruence).
    intros fd' pv' E. inversion E; subst. auto.
  - (* W4 *)
    destruct (kind_of_writer s t I) as (old & new & Hk); [now rewrite Hpc|]. rewrite Hk in H.
    assert (Hloose : loose s = Some fd) by (apply (j_fd _ _ _ _ I t); rewrite Hpc; reflexivity).
    assert (Hl : lockh s fd = Some t) by (apply (j_lock _ _ _ _ I t); rewrite Hpc; reflexivity).
    assert (Hw : win s = false) by (eapply (cs_no_other_w6 kinds r0 pk0 s t fd I); rewrite Hpc; [reflexivity|discriminate]).
    destruct (j_w4 _ _ _ _ I _ _ _ Hpc) as [Hi Hp].
    inversion H; subst; clear H; rewrite set_pc_with.
    try fold (after_compare fd old pv).
    destruct (after_compare_cases fd old pv) as [(v' & E1 & E2 & E3)|[r E3]]; rewrite E3;
      apply J_pc_only; auto; try discriminate; try (rewrite Hpc; discriminate);
      try (rewrite Hk; reflexivity); try (cbn; congruence).
    intros fd' _. subst pv. exists v', old, new. repeat split; auto.
    rewrite <- (j_reg _ _ _ _ I Hw). rewrite (logical_loose s fd Hloose). rewrite Hi.
    unfold packed_val. now rewrite Hp.
  - (* R0 *)
    assert (Hk : kinds t = KRead).
    { pose proof (j_kind _ _ _ _ I t) as K. rewrite Hpc in K. pose proof (CO t). destruct (kinds t); try discriminate; auto. }
    destruct (loose s) as [i|] eqn:Hl; inversion H; subst; clear H.
    + rewrite set_pc_with. apply J_pc_only; auto; try discriminate; try (rewrite Hpc; discriminate). now rewrite Hk.
    + rewrite set_pc_rexp_with. apply J_pc_only; auto; try discriminate; try (rewrite Hpc; discriminate).
      * intros t' Hne. now rewrite upd_other.
      * now rewrite Hk.
      * intros _. rewrite upd_same. exists (reg s), (win s). split; auto. intros Hw.
        rewrite <- (j_reg _ _ _ _ I Hw). unfold logical. now rewrite Hl.
  - (* R1 *)
    assert (Hk : kinds t = KRead).
    { pose proof (j_kind _ _ _ _ I t) as K. rewrite Hpc in K. pose proof (CO t). destruct (kinds t); try discriminate; auto. }
    destruct (loose s) as [i|] eqn:Hl; inversion H; subst; clear H.
    + rewrite set_pc_with. apply J_pc_only; auto; try discriminate; try (rewrite Hpc; discriminate).
      * now rewrite Hk.
      * cbn. congruence.
    + rewrite set_pc_rexp_with. apply J_pc_only; auto; try discriminate; try (rewrite Hpc; discriminate).
      * intros t' Hne. now rewrite upd_other.
      * now rewrite Hk.
      * intros _. rewrite upd_same. exists (reg s), (win s). split; auto. intros Hw.
        rewrite <- (j_reg _ _ _ _ I Hw). unfold logical. now rewrite Hl.
  - (* R2 *)
    assert (Hk : kinds t = KRead).
    { pose proof (j_kind _ _ _ _ I t) as K. rewrite Hpc in K. pose proof (CO t). destruct (kinds t); try discriminate; auto. }
    assert (Hloose : loose s = Some fd) by (apply (j_fd _ _ _ _ I t); rewrite Hpc; reflexivity).
    destruct (inode s fd) as [v|] eqn:Hi; inversion H; subst; clear H; rewrite set_pc_rexp_with;
      apply J_pc_only; auto; try discriminate; try (rewrite Hpc; discriminate);
      try (intros t' Hne; now rewrite upd_other); try (now rewrite Hk).
    + intros res _ E. inversion E; subst. rewrite upd_same. exists (reg s), (win s). split; auto. intros Hw.
      rewrite <- (j_reg _ _ _ _ I Hw). rewrite (logical_loose s fd Hloose). now rewrite Hi.
    + intros _. rewrite upd_same. exists (reg s), (win s). split; auto. intros Hw.
      rewrite <- (j_reg _ _ _ _ I Hw). rewrite (logical_loose s fd Hloose). now rewrite Hi.
  - (* R3 *)
    assert (Hk : kinds t = KRead).
    { pose proof (j_kind _ _ _ _ I t) as K. rewrite Hpc in K. pose proof (CO t). destruct (kinds t); try discriminate; auto. }
    destruct (j_r3 _ _ _ _ I _ Hpc) as (r & w & Hr & Hw).
    destruct (pfile s) as [pv|] eqn:Hp; inversion H; subst; clear H; rewrite set_pc_with;
      apply J_pc_only; auto; try discriminate; try (rewrite Hpc; discriminate); try (now rewrite Hk).
    + intros pv' E. inversion E; subst. exists r, w. split; auto. intros E'. rewrite <- (Hw E').
      unfold packed_val. now rewrite Hp.
    + intros res _ E. inversion E; subst. exists r, w. split; auto. intros E'. rewrite <- (Hw E').
      unfold packed_val. now rewrite Hp.
  - (* R4 *)
    assert (Hk : kinds t = KRead).
    { pose proof (j_kind _ _ _ _ I t) as K. rewrite Hpc in K. pose proof (CO t). destruct (kinds t); try discriminate; auto. }
    destruct (j_r4 _ _ _ _ I _ _ Hpc) as (r & w & Hr & Hw).
    inversion H; subst; clear H; rewrite set_pc_with;
      apply J_pc_only; auto; try discriminate; try (rewrite Hpc; discriminate); try (now rewrite Hk).
    intros res _ E. inversion E; subst. exists r, w. split; auto. intros E'. rewrite (Hw E'). reflexivity.
Qed.

Lemma J_step : forall s t s', J kinds r0 pk0 s -> step kinds s t = Some s' -> J kinds r0 pk0 s'.
Proof.
  intros s t s' I H. pose proof (step_pc_only s t s' I H) as P.
  pose proof (j_kind _ _ _ _ I t) as K. pose proof (CO t) as C.
  destruct (pc_of kinds s t) eqn:Hpc; auto.
  - eapply step_W0; eauto.
  - eapply step_W1; eauto.
  - eapply step_W5; eauto.
  - eapply step_W6; eauto.
  - eapply step_W7; eauto.
  - destruct (kinds t); discriminate.
  - destruct (kinds t); discriminate.
  - destruct (kinds t); discriminate.
  - destruct (kinds t); discriminate.
  - destruct (kinds t); discriminate.
  - destruct (kinds t); discriminate.
  - destruct (kinds t); discriminate.
  - destruct (kinds t); discriminate.
  - destruct (kinds t); discriminate.
  - destruct (kinds t); discriminate.
  - unfold step in H. rewrite Hpc in H. discriminate.
Qed.

Lemma J_run : forall sched s, J kinds r0 pk0 s -> J kinds r0 pk0 (run kinds s sched).
Proof.
  induction sched as [|t sched IH]; cbn; intros s I; auto.
  destruct (step kinds s t) eqn:E; [apply IH; eapply J_step; eauto | auto].
Qed.
End Steps.

(* ---- consequences ---------------------------------------------------------- *)

Lemma J_reachable : forall kinds lo pk s, cas_only kinds -> reachable kinds (mk_init lo pk) s ->
  J kinds (logical (mk_init lo pk)) pk s.
Proof. intros kinds lo pk s CO [sched <-]. apply J_run; auto. apply J_init. Qed.

Lemma chain_ok_In : forall l r0 r o n, chain_ok r0 l -> In (r, o, n) l -> exists v, r = Some v /\ same v o = true.
Proof.
  induction l as [|[[r' o'] n'] l IH]; cbn; intros r0 r o n Hc Hin; [tauto|].
  destruct Hc as (_ & Hv & Hc). destruct Hin as [E|Hin]; [inversion E; subst; auto | eauto].
Qed.

Lemma same_hash_exact : forall v k, k <> 0 -> same v (VHash k) = true -> v = VHash k.
Proof.
  intros v k Hk H. unfold same in H. apply Nat.eqb_eq in H. destruct v; cbn in H; congruence.
Qed.

(* rexp records (reg, win) of a state the run went through *)
Fixpoint states (kinds : nat -> kind) (s : st) (sched : list nat) : list st :=
  s :: match sched with
       | [] => []
       | t :: r => states kinds (match step kinds s t with Some s' => s' | None => s end) r
       end.

Lemma step_rexp : forall kinds s t0 s1 t, step kinds s t0 = Some s1 ->
  rexp s1 t = rexp s t \/ rexp s1 t = Some (reg s, win s).
Proof.
  intros kinds s t0 s1 t H. unfold step in H.
  destruct (pc_of kinds s t0); destruct (kinds t0);
    repeat match type of H with
           | context [match loose s with _ => _ end] => destruct (loose s)
           | context [match ?x with _ => _ end] => destruct x
           end; try discriminate; inversion H; subst; clear H; cbn; auto;
    unfold upd; destruct (Nat.eqb t t0); auto.
Qed.

Lemma rexp_visited : forall kinds sched s t r w, rexp (run kinds s sched) t = Some (r, w) ->
  rexp s t = Some (r, w) \/ exists s', In s' (states kinds s sched) /\ reg s' = r /\ win s' = w.
Proof.
  induction sched as [|t0 sched IH]; intros s t r w H; cbn in H; [auto|].
  destruct (step kinds s t0) as [s1|] eqn:E.
  - destruct (IH _ _ _ _ H) as [H1|(s' & Hin & Hr & Hw)].
    + destruct (step_rexp kinds s t0 s1 t E) as [E1|E1]; rewrite E1 in H1; [auto|].
      inversion H1; subst. right. exists s. split; [cbn; auto|auto].
    + right. exists s'. split; auto. cbn. rewrite E. auto.
  - destruct (IH _ _ _ _ H) as [H1|(s' & Hin & Hr & Hw)]; auto.
    right. exists s'. split; auto. cbn. rewrite E. auto.
Qed.

Lemma mk_init_rexp : forall lo pk t, rexp (mk_init lo pk) t = None.
Proof. intros. unfold mk_init. destruct lo; reflexivity. Qed.

Lemma value_eqb_refl : forall v, value_eqb v v = true.
Proof. destruct v; cbn; auto using Nat.eqb_refl. Qed.

Lemma regs_never : forall x l, forallb (fun s' => negb (ovalue_eqb (reg s') x)) l = true ->
  forall s', In s' l -> reg s' <> x.
Proof.
  intros x l H s' Hin E. rewrite forallb_forall in H. specialize (H _ Hin). rewrite E in H.
  destruct x; cbn in H; [rewrite value_eqb_refl in H|]; discriminate.
Qed.
