(* Proofs/C43Heap.v — the gods binary heap of the committer-time walker keeps
   its contents (as a set, with the same length) under Push and Pop, so the
   walker is a Worklist instance too. *)
From Coq Require Import List Arith ZArith Bool Lia.
From GoGit Require Import Spec.Dag Model.CommitWalk Proofs.Worklist Proofs.C43.
Import ListNotations.

Lemma swap_length : forall i j (l : list node), length (swap i j l) = length l.
Proof.
  intros. unfold swap. rewrite map_length, combine_length, seq_length. apply Nat.min_id.
Qed.

Lemma swap_nth : forall i j (l : list node) k, k < length l ->
  nth k (swap i j l) O =
  if k =? i then nth j l O else if k =? j then nth i l O else nth k l O.
Proof.
  intros i j l k Hk. unfold swap.
  set (f := fun kx : nat * node => if fst kx =? i then nth j l O else if fst kx =? j then nth i l O else snd kx).
  rewrite (nth_indep _ O (f (O, O))).
  - rewrite map_nth. rewrite combine_nth by (now rewrite seq_length).
    rewrite seq_nth by exact Hk. unfold f. simpl. reflexivity.
  - rewrite map_length, combine_length, seq_length, Nat.min_id. exact Hk.
Qed.

Lemma swap_in : forall i j (l : list node) x, i < length l -> j < length l ->
  (In x (swap i j l) <-> In x l).
Proof.
  intros i j l x Hi Hj. split; intros H.
  - destruct (In_nth _ _ O H) as [k [Hk E]]. rewrite swap_length in Hk.
    rewrite swap_nth in E by exact Hk. subst x.
    destruct (k =? i); [now apply nth_In|]. destruct (k =? j); now apply nth_In.
  - destruct (In_nth _ _ O H) as [k [Hk E]]. subst x.
    assert (G : forall k', k' < length l -> nth k' (swap i j l) O = nth k l O -> In (nth k l O) (swap i j l)).
    { intros k' Hk' E. rewrite <- E. apply nth_In. now rewrite swap_length. }
    destruct (Nat.eq_dec k i) as [Eki|Nki].
    + (* the old element at i now sits at j *)
      subst k. apply (G j Hj). rewrite swap_nth by exact Hj.
      destruct (j =? i) eqn:E; [apply Nat.eqb_eq in E; now subst | now rewrite Nat.eqb_refl].
    + destruct (Nat.eq_dec k j) as [Ekj|Nkj].
      * subst k. apply (G i Hi). rewrite swap_nth by exact Hi. now rewrite Nat.eqb_refl.
      * apply (G k Hk). rewrite swap_nth by exact Hk.
        apply Nat.eqb_neq in Nki. apply Nat.eqb_neq in Nkj. now rewrite Nki, Nkj.
Qed.

Lemma last_removelast_spec : forall (t : list node), t <> [] ->
  length (last t O :: removelast t) = length t /\ forall x, In x (last t O :: removelast t) <-> In x t.
Proof.
  induction t as [|a r IH]; intros Hne; [congruence|].
  destruct r as [|b r'].
  - simpl. split; [reflexivity | tauto].
  - destruct IH as [L M]; [discriminate|].
    change (last (a :: b :: r') O) with (last (b :: r') O).
    change (removelast (a :: b :: r')) with (a :: removelast (b :: r')).
    split.
    + simpl in *. lia.
    + intros x. specialize (M x). simpl in *. tauto.
Qed.

Section Heap.
  Variable g : dag.

  Lemma bubble_up_spec : forall fuel idx (l : list node), idx < length l ->
    length (bubble_up g fuel idx l) = length l /\ forall x, In x (bubble_up g fuel idx l) <-> In x l.
  Proof.
    induction fuel as [|f IH]; intros idx l Hi; cbn [bubble_up]; [split; [reflexivity | tauto]|].
    destruct (idx =? 0) eqn:E0; [split; [reflexivity | tauto]|].
    destruct (hcmp g (nth ((idx - 1) / 2) l O) (nth idx l O) <=? 0)%Z; [split; [reflexivity | tauto]|].
    apply Nat.eqb_neq in E0.
    assert (Hp : (idx - 1) / 2 < length l).
    { apply Nat.le_lt_trans with (idx - 1); [apply Nat.div_le_upper_bound; lia | lia]. }
    destruct (IH ((idx - 1) / 2) (swap idx ((idx - 1) / 2) l)) as [H1 H2].
    { now rewrite swap_length. }
    split.
    - rewrite H1. apply swap_length.
    - intros x. rewrite H2. now apply swap_in.
  Qed.

  Lemma bubble_down_spec : forall fuel idx (l : list node),
    length (bubble_down g fuel idx l) = length l /\ forall x, In x (bubble_down g fuel idx l) <-> In x l.
  Proof.
    induction fuel as [|f IH]; intros idx l; cbn [bubble_down]; [split; [reflexivity | tauto]|].
    destruct (2 * idx + 1 <? length l) eqn:El; [|split; [reflexivity | tauto]].
    apply Nat.ltb_lt in El.
    set (si := if (2 * idx + 2 <? length l) && (0 <? hcmp g (nth (2 * idx + 1) l O) (nth (2 * idx + 2) l O))%Z
               then 2 * idx + 2 else 2 * idx + 1).
    assert (Hsi : si < length l).
    { unfold si. destruct (2 * idx + 2 <? length l) eqn:Er; simpl.
      - apply Nat.ltb_lt in Er. destruct (0 <? hcmp g _ _)%Z; lia.
      - lia. }
    fold si.
    destruct (0 <? hcmp g (nth idx l O) (nth si l O))%Z; [|split; [reflexivity | tauto]].
    destruct (IH si (swap idx si l)) as [H1 H2].
    split.
    - rewrite H1. apply swap_length.
    - intros x. rewrite H2. apply swap_in; lia.
  Qed.

  Lemma heap_push_spec : forall x (l : list node),
    length (heap_push g x l) = S (length l) /\ forall y, In y (heap_push g x l) <-> y = x \/ In y l.
  Proof.
    intros x l. unfold heap_push.
    destruct (bubble_up_spec (length (l ++ [x])) (length (l ++ [x]) - 1) (l ++ [x])) as [H1 H2].
    { rewrite app_length. simpl. lia. }
    split.
    - rewrite H1, app_length. simpl. lia.
    - intros y. rewrite H2, in_app_iff. simpl. intuition.
  Qed.

  Lemma heap_pop_none : forall l, heap_pop g l = None -> l = [].
  Proof. intros l H. destruct l; [reflexivity | discriminate]. Qed.

  Lemma heap_pop_spec : forall (l : list node) c l', heap_pop g l = Some (c, l') ->
    length l = S (length l') /\ forall x, In x l <-> x = c \/ In x l'.
  Proof.
    intros l c l' H. destruct l as [|v t]; [discriminate|]. simpl in H.
    injection H as Hc Hl. subst c.
    set (m := match t with [] => [] | _ :: _ => last t O :: removelast t end) in *.
    destruct (bubble_down_spec (length m) 0 m) as [H1 H2]. rewrite Hl in H1, H2.
    assert (Hm : length m = length t /\ forall x, In x m <-> In x t).
    { unfold m. destruct t as [|a r]; [split; [reflexivity | tauto]|].
      apply last_removelast_spec. discriminate. }
    destruct Hm as [M1 M2]. split.
    - simpl. rewrite H1, M1. reflexivity.
    - intros x. simpl. rewrite H2, M2. intuition.
  Qed.

  Lemma heap_pushes_spec : forall (add h : list node),
    length (fold_left (fun hh p => heap_push g p hh) add h) = length add + length h /\
    forall y, In y (fold_left (fun hh p => heap_push g p hh) add h) <-> In y add \/ In y h.
  Proof.
    induction add as [|p r IH]; intros h; simpl; [split; [reflexivity | tauto]|].
    destruct (IH (heap_push g p h)) as [H1 H2]. destruct (heap_push_spec p h) as [P1 P2].
    split.
    - rewrite H1, P1. lia.
    - intros y. rewrite H2, P2. intuition.
  Qed.

  Hypothesis Hclosed : dag_closed g = true.
  Variable stop : node -> bool.
  Let n := nnodes g.
  Let w := fun c => length (parents g c).

  Definition ct_pushed (c : node) (seen : list node) : list node := unseen_parents g seen c.
  Definition ct_push (c : node) (seen : list node) (h : list node) :=
    fold_left (fun hh p => heap_push g p hh) (ct_pushed c seen) h.
  Definition ct_gloop := gloop (list node) (heap_pop g) ct_push stop.

  Lemma ctime_loop_eq : forall fuel (h seen acc : list node),
    (forall x : node, In x h -> x < n) ->
    ctime_loop g stop fuel h seen acc = ct_gloop fuel h seen acc.
  Proof.
    induction fuel as [|f IH]; intros h seen acc Hlt; [reflexivity|].
    simpl. destruct (heap_pop g h) as [[c h']|] eqn:Ep; [|reflexivity].
    destruct (heap_pop_spec _ _ _ Ep) as [_ Hin].
    assert (Hlt' : forall x : node, In x h' -> x < n) by (intros x Hx; apply Hlt; apply Hin; now right).
    destruct (mem c seen); [now apply IH|].
    assert (Hp : forallb (present g) (unseen_parents g (c :: seen) c) = true).
    { apply forallb_present. intros x Hx. eapply unseen_lt; eauto. }
    rewrite Hp. simpl.
    destruct (stop c); [reflexivity|].
    apply IH. intros x Hx. unfold ct_push in Hx. apply heap_pushes_spec in Hx.
    destruct Hx as [Hx|Hx]; [eapply unseen_lt; eauto | now apply Hlt'].
  Qed.

  Lemma ct_post : forall fuel (I : list node) (s : node) h seen acc,
    Inv (parents g) n (list node) (fun l => l) stop I s h seen acc ->
    length h + budget n w acc < fuel ->
    Post (parents g) stop I s (ct_gloop fuel h seen acc).
  Proof.
    intros. unfold ct_gloop. destruct (unseen_props g stop) as [U1 [U2 U3]].
    eapply (gloop_post (parents g) n w (par_lt g Hclosed) (list node) (fun l => l) (heap_pop g) ct_push ct_pushed); eauto.
    - intros b Hb. now apply heap_pop_none.
    - intros b c b' Hp. now destruct (heap_pop_spec _ _ _ Hp).
    - intros b c b' Hp. now destruct (heap_pop_spec _ _ _ Hp).
    - intros c sn b x. unfold ct_push. now destruct (heap_pushes_spec (ct_pushed c sn) b) as [_ Hq].
    - intros c sn b. unfold ct_push. now destruct (heap_pushes_spec (ct_pushed c sn) b) as [Hq _].
  Qed.

  Theorem ctime_walk_post : forall (I : list node) (s : node), s < n ->
    Post (parents g) stop I s (ctime_walk g stop (walk_fuel g) s I).
  Proof.
    intros I s Hs. unfold ctime_walk.
    assert (Hh : heap_push g s [] = [s]) by reflexivity.
    rewrite Hh. rewrite ctime_loop_eq.
    - apply ct_post.
      + apply (init_inv g stop (parents g) I s (list node) (fun l => l)); [exact Hs | reflexivity].
      + simpl. apply (fuel_ok g). reflexivity.
    - intros x Hx. destruct Hx as [Hx|[]]. now subst.
  Qed.
End Heap.
