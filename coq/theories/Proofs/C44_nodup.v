(* Proofs/C44_nodup.v — DiffTree reports no change twice. *)
From Coq Require Import List NArith Bool Arith Lia.
From GoGit Require Import Base.Out Model.DiffTree Spec.MapDiff Proofs.C44_order Proofs.C44_diff Proofs.C44_sort Proofs.C44_spec.
Import ListNotations.

Lemma pren_inj n a b : pren n a = pren n b -> a = b.
Proof. destruct a, b. unfold pren; cbn. intros H; inversion H; subst. reflexivity. Qed.

Lemma pre_inj n a b : pre n a = pre n b -> a = b.
Proof. destruct a, b; cbn; intros H; inversion H; subst; reflexivity. Qed.

Lemma NoDup_map_inj {A B} (f : A -> B) l : (forall a b, f a = f b -> a = b) -> NoDup l -> NoDup (map f l).
Proof.
  intros Hinj. induction 1 as [|x l Hx _ IH]; cbn; constructor; auto.
  intros Hi. apply in_map_iff in Hi as (y & He & Hy). apply Hinj in He. subst. contradiction.
Qed.

Lemma NoDup_app_intro {A} (a b : list A) :
  NoDup a -> NoDup b -> (forall x, In x a -> In x b -> False) -> NoDup (a ++ b).
Proof.
  induction 1 as [|x a Hx _ IH]; intros Hb Hd; cbn; [exact Hb|]. constructor.
  - intros Hi. apply in_app_iff in Hi as [Hi|Hi]; [contradiction|]. eapply Hd; [now left|exact Hi].
  - apply IH; auto. intros y Hy. apply Hd. now right.
Qed.

(* flattenings of well-formed trees have no repeated entry *)
Lemma files_nodup :
  (forall x, wfn x -> NoDup (files x)) /\ (forall t, wft t -> NoDup (files_l t)).
Proof.
  assert (H : forall x (w : wfn x), NoDup (files x)).
  { apply (wfn_mut (fun x _ => NoDup (files x)) (fun t _ => NoDup (files_l t))).
    - intros l. repeat constructor. intros [].
    - intros cs _ IH. now rewrite files_dir.
    - constructor.
    - intros n x r _ IHx _ IHr Hlt. rewrite files_l_cons. apply NoDup_app_intro; auto.
      + apply NoDup_map_inj; [apply pren_inj|exact IHx].
      + intros [p l] Ha Hb. apply in_pren in Ha as (q & -> & _).
        assert (Hne : hd_ne n (files_l r)) by (apply hd_ne_files_l; intros m Hm; apply ltb_neq; auto).
        destruct (Hne _ _ Hb) as (m & q' & He & Hn). inversion He; congruence. }
  split; [intros x w; exact (H x w)|].
  intros t w. specialize (H (Dir t) (wf_dir t w)). now rewrite files_dir in H.
Qed.

Definition path_of (c : mchange) : path := match c with MIns p _ | MDel p _ | MMod p _ _ => p end.

Lemma del_all_nodup n x : wfn x -> NoDup (del_all n x).
Proof.
  intros w. unfold del_all. apply NoDup_map_inj; [|now apply (proj1 files_nodup)].
  intros [p l] [q m] H. inversion H; subst. reflexivity.
Qed.
Lemma ins_all_nodup n x : wfn x -> NoDup (ins_all n x).
Proof.
  intros w. unfold ins_all. apply NoDup_map_inj; [|now apply (proj1 files_nodup)].
  intros [p l] [q m] H. inversion H; subst. reflexivity.
Qed.

Lemma del_all_head n x c : In c (del_all n x) -> exists q, path_of c = n :: q.
Proof. unfold del_all. intros H. apply in_map_iff in H as ([q l] & <- & _). cbn. eauto. Qed.
Lemma ins_all_head n x c : In c (ins_all n x) -> exists q, path_of c = n :: q.
Proof. unfold ins_all. intros H. apply in_map_iff in H as ([q l] & <- & _). cbn. eauto. Qed.
Lemma del_ins_disjoint n x m y c : In c (del_all n x) -> In c (ins_all m y) -> False.
Proof.
  unfold del_all, ins_all. intros H1 H2.
  apply in_map_iff in H1 as (a & <- & _). apply in_map_iff in H2 as (b & Hb & _). discriminate.
Qed.

(* every change between two trees concerns a path below one of their names *)
Lemma spec_head xs ys c : Spec xs ys c -> exists n q, path_of c = n :: q /\ (In n (map fst xs) \/ In n (map fst ys)).
Proof.
  unfold Spec. destruct c as [p l|p l|p a b]; cbn.
  - intros [H _]. destruct (files_l_head _ _ _ H) as (n & q & -> & Hn). eauto.
  - intros [H _]. destruct (files_l_head _ _ _ H) as (n & q & -> & Hn). eauto.
  - intros (H & _ & _). destruct (files_l_head _ _ _ H) as (n & q & -> & Hn). eauto.
Qed.

Lemma pre_head n c : path_of (pre n c) = n :: path_of c.
Proof. now destruct c. Qed.

Lemma diffl_nodup : forall fuel xs ys cs,
  wft xs -> wft ys -> tree_size xs + tree_size ys < fuel ->
  diffl fuel xs ys = Some cs -> NoDup cs.
Proof.
  induction fuel as [|f IH]; intros xs ys cs Wx Wy Hsz Hd; [lia|].
  (* what the rest of the walk can mention *)
  assert (Hrest : forall xs' ys' cs' n,
            wft xs' -> wft ys' -> tree_size xs' + tree_size ys' < f -> diffl f xs' ys' = Some cs' ->
            (forall m, In m (map fst xs') -> m <> n) -> (forall m, In m (map fst ys') -> m <> n) ->
            forall c q, In c cs' -> path_of c = n :: q -> False).
  { intros xs' ys' cs' n W1 W2 Hs' Hd' Hx Hy c q Hc Hp.
    destruct (diffl_spec f xs' ys' W1 W2 Hs') as (cs2 & Hd2 & Hs2). rewrite Hd' in Hd2. inversion Hd2; subst cs2.
    apply Hs2 in Hc. destruct (spec_head _ _ _ Hc) as (m & q' & Hp' & [Hm|Hm]); rewrite Hp in Hp'; inversion Hp'; subst.
    - exact (Hx _ Hm eq_refl).
    - exact (Hy _ Hm eq_refl). }
  destruct xs as [|[n1 x] xs']; destruct ys as [|[n2 y] ys'].
  - cbn in Hd. inversion Hd. constructor.
  - inversion Wy as [|? ? ? Wyn Wyr Hlt]; subst. rewrite tree_size_cons in Hsz. pose proof (node_size_pos y).
    cbn [diffl] in Hd. destruct (diffl f [] ys') as [r|] eqn:Hr; [|discriminate]. cbn in Hd. inversion Hd; subst cs.
    apply NoDup_app_intro; [now apply ins_all_nodup | apply (IH [] ys' r); auto; cbn in *; lia |].
    intros c Hc1 Hc2. destruct (ins_all_head _ _ _ Hc1) as (q & Hq).
    apply (Hrest [] ys' r n2 Wx Wyr ltac:(cbn in *; lia) Hr ltac:(intros m []) ltac:(intros m Hm; apply ltb_neq; auto) c q Hc2 Hq).
  - inversion Wx as [|? ? ? Wxn Wxr Hlt]; subst. rewrite tree_size_cons in Hsz. pose proof (node_size_pos x).
    cbn [diffl] in Hd. destruct (diffl f xs' []) as [r|] eqn:Hr; [|discriminate]. cbn in Hd. inversion Hd; subst cs.
    apply NoDup_app_intro; [now apply del_all_nodup | apply (IH xs' [] r); auto; cbn in *; lia |].
    intros c Hc1 Hc2. destruct (del_all_head _ _ _ Hc1) as (q & Hq).
    apply (Hrest xs' [] r n1 Wxr Wy ltac:(cbn in *; lia) Hr ltac:(intros m Hm; apply ltb_neq; auto) ltac:(intros m []) c q Hc2 Hq).
  - inversion Wx as [|? ? ? Wxn Wxr Hltx]; subst. inversion Wy as [|? ? ? Wyn Wyr Hlty]; subst.
    rewrite !tree_size_cons in Hsz. pose proof (node_size_pos x). pose proof (node_size_pos y).
    cbn [diffl] in Hd. destruct (bytes_cmp n1 n2) eqn:Hcmp.
    + apply bytes_cmp_eq in Hcmp. subst n2.
      match type of Hd with match ?e with _ => _ end = _ => destruct e as [h|] eqn:Hh; [|discriminate] end.
      destruct (diffl f xs' ys') as [r|] eqn:Hr; [|discriminate]. cbn in Hd. inversion Hd; subst cs.
      assert (Hhead : forall c, In c h -> exists q, path_of c = n1 :: q).
      { intros c Hc. destruct (same_hash x y); [inversion Hh; subst; destruct Hc|].
        destruct x as [a|c1], y as [b|c2].
        - inversion Hh; subst. destruct Hc as [<-|[]]. cbn. eauto.
        - assert (Hh' : h = del_all n1 (File a) ++ ins_all n1 (Dir c2)) by (inversion Hh; reflexivity).
          subst h. apply in_app_iff in Hc as [Hc|Hc]; [eapply del_all_head|eapply ins_all_head]; eauto.
        - assert (Hh' : h = del_all n1 (Dir c1) ++ ins_all n1 (File b)) by (destruct c1; inversion Hh; reflexivity).
          subst h. apply in_app_iff in Hc as [Hc|Hc]; [eapply del_all_head|eapply ins_all_head]; eauto.
        - destruct c1 as [|k1 c1']; [assert (Hh' : h = ins_all n1 (Dir c2)) by (inversion Hh; reflexivity); subst h; eapply ins_all_head; eauto|].
          destruct c2 as [|k2 c2']; [assert (Hh' : h = del_all n1 (Dir (k1 :: c1'))) by (inversion Hh; reflexivity); subst h; eapply del_all_head; eauto|].
          destruct (diffl f (k1 :: c1') (k2 :: c2')) as [r'|]; [|discriminate]. cbn in Hh. inversion Hh; subst.
          apply in_map_iff in Hc as (c' & <- & _). rewrite pre_head. eauto. }
      assert (Hnd : NoDup h).
      { destruct (same_hash x y); [inversion Hh; constructor|].
        destruct x as [a|c1], y as [b|c2].
        - inversion Hh; subst. repeat constructor. intros [].
        - assert (Hh' : h = del_all n1 (File a) ++ ins_all n1 (Dir c2)) by (inversion Hh; reflexivity).
          subst h. apply NoDup_app_intro; [now apply del_all_nodup|now apply ins_all_nodup|apply del_ins_disjoint].
        - assert (Hh' : h = del_all n1 (Dir c1) ++ ins_all n1 (File b)) by (destruct c1; inversion Hh; reflexivity).
          subst h. apply NoDup_app_intro; [now apply del_all_nodup|now apply ins_all_nodup|apply del_ins_disjoint].
        - destruct c1 as [|k1 c1']; [assert (Hh' : h = ins_all n1 (Dir c2)) by (inversion Hh; reflexivity); subst h; now apply ins_all_nodup|].
          destruct c2 as [|k2 c2']; [assert (Hh' : h = del_all n1 (Dir (k1 :: c1'))) by (inversion Hh; reflexivity); subst h; now apply del_all_nodup|].
          destruct (diffl f (k1 :: c1') (k2 :: c2')) as [r'|] eqn:Hr'; [|discriminate]. cbn in Hh. inversion Hh; subst.
          apply NoDup_map_inj; [apply pre_inj|].
          inversion Wxn as [|? Wc1]; subst. inversion Wyn as [|? Wc2]; subst. rewrite !node_size_dir in Hsz.
          apply (IH (k1 :: c1') (k2 :: c2') r'); auto. lia. }
      apply NoDup_app_intro; [exact Hnd | apply (IH xs' ys' r); auto; lia |].
      intros c Hc1 Hc2. destruct (Hhead c Hc1) as (q & Hq).
      apply (Hrest xs' ys' r n1 Wxr Wyr ltac:(lia) Hr ltac:(intros m Hm; apply ltb_neq; auto) ltac:(intros m Hm; apply ltb_neq; auto) c q Hc2 Hq).
    + assert (Hn2 : bytes_ltb n1 n2 = true) by now apply bytes_ltb_lt.
      destruct (diffl f xs' ((n2, y) :: ys')) as [r|] eqn:Hr; [|discriminate]. cbn in Hd. inversion Hd; subst cs.
      apply NoDup_app_intro; [now apply del_all_nodup | apply (IH xs' ((n2, y) :: ys') r); auto; rewrite tree_size_cons; lia |].
      intros c Hc1 Hc2. destruct (del_all_head _ _ _ Hc1) as (q & Hq).
      apply (Hrest xs' ((n2, y) :: ys') r n1 Wxr Wy ltac:(rewrite tree_size_cons; lia) Hr
               ltac:(intros m Hm; apply ltb_neq; auto)
               ltac:(intros m [<-|Hm]; apply ltb_neq; [exact Hn2|]; eapply bytes_ltb_trans; [exact Hn2|auto]) c q Hc2 Hq).
    + assert (Hn2 : bytes_ltb n2 n1 = true) by (apply bytes_ltb_lt; now apply bytes_cmp_gt_lt).
      destruct (diffl f ((n1, x) :: xs') ys') as [r|] eqn:Hr; [|discriminate]. cbn in Hd. inversion Hd; subst cs.
      apply NoDup_app_intro; [now apply ins_all_nodup | apply (IH ((n1, x) :: xs') ys' r); auto; rewrite tree_size_cons; lia |].
      intros c Hc1 Hc2. destruct (ins_all_head _ _ _ Hc1) as (q & Hq).
      apply (Hrest ((n1, x) :: xs') ys' r n2 Wx Wyr ltac:(rewrite tree_size_cons; lia) Hr
               ltac:(intros m [<-|Hm]; apply ltb_neq; [exact Hn2|]; eapply bytes_ltb_trans; [exact Hn2|auto])
               ltac:(intros m Hm; apply ltb_neq; auto) c q Hc2 Hq).
Qed.

Theorem difftree_nodup a b cs :
  tree_ok a = true -> tree_ok b = true -> difftree a b = Some cs -> NoDup cs.
Proof.
  intros Ha Hb Hd. destruct (sort_tree_ok a Ha) as [Hwa _]. destruct (sort_tree_ok b Hb) as [Hwb _].
  unfold difftree in Hd. cbv zeta in Hd.
  apply (diffl_nodup _ _ _ cs Hwa Hwb (Nat.lt_succ_diag_r _) Hd).
Qed.
