(* Proofs/C49Slash.v — patterns with a slash: the sequential parse of the whole
   pattern (git's view) agrees with the parse of its segments (go-git's view);
   match_pathname with its literal-prefix shortcut decides the path glob. *)
From Coq Require Import List NArith Bool Lia PeanoNat.
From GoGit Require Import Base.Out Model.Gitignore Spec.Glob Spec.PathGlob Spec.GitIgnore
     Proofs.C49Total Proofs.C49Wild Proofs.C49Path Proofs.C49Names Proofs.C49Walk Proofs.C49Segs
     Proofs.C49GoGlob Proofs.C49Lines Proofs.C49Trim Proofs.C49Sets.
Import ListNotations.
Local Open Scope N_scope.

Lemma has_slash_cons c r : has_slash (c :: r) = false -> (c =? 47) = false /\ has_slash r = false.
Proof. cbn. unfold cSLASH. intros H. apply orb_false_iff in H. exact H. Qed.

(* ------------------------------------------------------------------ *)
(* fuel                                                                *)

Lemma pparse_fuel : forall f f' b p g, pparse f b p = Some g ->
  (List.length p < f')%nat -> pparse f' b p = Some g.
Proof.
  induction f as [|f IH]; intros f' b p g Hp Hl; [discriminate|].
  destruct f' as [|f'0]; [lia|].
  destruct p as [|c r]; [exact Hp|].
  cbn [pparse] in Hp |- *. cbn in Hl.
  destruct (c =? 92).
  { destruct r as [|e r']; [discriminate|]. destruct (e =? 47); [discriminate|].
    apply ocons_some in Hp. destruct Hp as (g' & Hp & ->).
    rewrite (IH f'0 false r' g' Hp); [reflexivity|cbn in Hl; lia]. }
  destruct (c =? 63).
  { apply ocons_some in Hp. destruct Hp as (g' & Hp & ->).
    rewrite (IH f'0 false r g' Hp); [reflexivity|lia]. }
  destruct (c =? 42).
  { destruct r as [|d r2]; [exact Hp|].
    destruct (d =? 42).
    - destruct b; [|discriminate]. destruct r2 as [|s r3]; [discriminate|].
      destruct (s =? 47); [|discriminate].
      apply ocons_some in Hp. destruct Hp as (g' & Hp & ->).
      rewrite (IH f'0 true r3 g' Hp); [reflexivity|cbn in Hl; lia].
    - apply ocons_some in Hp. destruct Hp as (g' & Hp & ->).
      rewrite (IH f'0 false (d :: r2) g' Hp); [reflexivity|lia]. }
  destruct (c =? 91).
  { destruct (parse_set r) as [[it rest]|] eqn:Hps; [|discriminate].
    apply ocons_some in Hp. destruct Hp as (g' & Hp & ->).
    destruct (parse_set_suffix _ _ _ Hps) as (pre & Epre & Hne).
    rewrite (IH f'0 false rest g' Hp); [reflexivity|].
    rewrite Epre, app_length in Hl. destruct pre; [congruence|cbn in Hl; lia]. }
  destruct (c =? 47).
  { apply ocons_some in Hp. destruct Hp as (g' & Hp & ->).
    rewrite (IH f'0 true r g' Hp); [reflexivity|lia]. }
  apply ocons_some in Hp. destruct Hp as (g' & Hp & ->).
  rewrite (IH f'0 false r g' Hp); [reflexivity|lia].
Qed.

(* the segment-start flag only gates "**" *)
Lemma pparse_bos f p g : pparse f false p = Some g -> pparse f true p = Some g.
Proof.
  destruct f as [|f]; [discriminate|]. destruct p as [|c r]; [tauto|]. cbn [pparse].
  destruct (c =? 92); [tauto|]. destruct (c =? 63); [tauto|].
  destruct (c =? 42); [|tauto].
  destruct r as [|d r2]; [tauto|]. destruct (d =? 42); [discriminate|tauto].
Qed.

Lemma pparse_nil f b g : pparse f b [] = Some g -> g = [].
Proof. destruct f; [discriminate|]. cbn. intros H; inversion H; reflexivity. Qed.

(* ------------------------------------------------------------------ *)
(* one segment inside the whole pattern                                *)

Lemma has_slash_app a b : has_slash (a ++ b) = has_slash a || has_slash b.
Proof. induction a as [|y a IHa]; cbn; [reflexivity|]. now rewrite IHa, orb_assoc. Qed.

Lemma pparse_seg : forall fs s g, parse_glob fs s = Some g -> has_slash s = false ->
  forall f bos tail gp, (bos = true -> beq s dstar = false) ->
    (tail = [] \/ exists r, tail = 47 :: r) ->
    pparse f bos (s ++ tail) = Some gp ->
    exists f' gr, pparse f' (if is_nil s then bos else false) tail = Some gr /\ gp = map PIt g ++ gr.
Proof.
  induction fs as [|fs IH]; intros s g Hg Hs f bos tail gp Hds Htail Hp; [discriminate|].
  destruct s as [|c r].
  { cbn in Hg. inversion Hg; subst. exists f, gp. split; [exact Hp|reflexivity]. }
  destruct f as [|f0]; [discriminate|].
  apply has_slash_cons in Hs. destruct Hs as [Hc47 Hs].
  cbn [app pparse] in Hp. cbn [parse_glob] in Hg. cbn [is_nil].
  destruct (c =? 92).
  { destruct r as [|e r']; [discriminate|]. cbn [app] in Hp.
    apply has_slash_cons in Hs. destruct Hs as [He47 Hs].
    rewrite He47 in Hp.
    destruct (parse_glob fs r') as [g'|] eqn:Hg'; [|discriminate]. inversion Hg; subst.
    apply ocons_some in Hp. destruct Hp as (gp' & Hp & ->).
    destruct (IH r' g' Hg' Hs f0 false tail gp' ltac:(discriminate) Htail Hp) as (f' & gr & Hr & ->).
    exists f', gr. split; [destruct (is_nil r'); exact Hr|reflexivity]. }
  destruct (c =? 63).
  { destruct (parse_glob fs r) as [g'|] eqn:Hg'; [|discriminate]. inversion Hg; subst.
    apply ocons_some in Hp. destruct Hp as (gp' & Hp & ->).
    destruct (IH r g' Hg' Hs f0 false tail gp' ltac:(discriminate) Htail Hp) as (f' & gr & Hr & ->).
    exists f', gr. split; [destruct (is_nil r); exact Hr|reflexivity]. }
  destruct (c =? 42) eqn:E42.
  { apply N.eqb_eq in E42. subst c.
    destruct (parse_glob fs r) as [g'|] eqn:Hg'; [|discriminate]. inversion Hg; subst.
    destruct r as [|d r2].
    - (* the star ends the segment *)
      destruct fs; [discriminate|]. cbn in Hg'. inversion Hg'; subst. cbn [app] in Hp.
      destruct Htail as [->|(rt & ->)].
      + inversion Hp; subst. exists 1%nat, []. split; reflexivity.
      + change (47 =? 42) with false in Hp. cbn iota in Hp.
        apply ocons_some in Hp. destruct Hp as (gp' & Hp & ->).
        exists f0, gp'. split; [exact Hp|reflexivity].
    - cbn [app] in Hp. destruct (d =? 42) eqn:Ed.
      + (* two stars inside a plain segment: not parsed *)
        exfalso. apply N.eqb_eq in Ed. subst d.
        destruct bos; [|discriminate].
        apply has_slash_cons in Hs. destruct Hs as [_ Hs].
        destruct r2 as [|s3 r3].
        * specialize (Hds eq_refl). discriminate.
        * cbn [app] in Hp. apply has_slash_cons in Hs. destruct Hs as [Hs3 _].
          rewrite Hs3 in Hp. discriminate.
      + apply ocons_some in Hp. destruct Hp as (gp' & Hp & ->).
        destruct (IH (d :: r2) g' Hg' Hs f0 false tail gp' ltac:(discriminate) Htail Hp) as (f' & gr & Hr & ->).
        exists f', gr. split; [exact Hr|reflexivity]. }
  destruct (c =? 91).
  { (* a bracket expression lies inside the segment *)
    destruct (parse_set r) as [[it rest_s]|] eqn:Hps; [|discriminate].
    destruct (parse_glob fs rest_s) as [g'|] eqn:Hg'; [|discriminate]. inversion Hg; subst.
    rewrite (parse_set_app _ _ _ tail Hps) in Hp.
    apply ocons_some in Hp. destruct Hp as (gp' & Hp & ->).
    destruct (parse_set_suffix _ _ _ Hps) as (pre & Epre & _).
    assert (Hs' : has_slash rest_s = false).
    { rewrite Epre, has_slash_app in Hs. apply orb_false_iff in Hs. tauto. }
    destruct (IH rest_s g' Hg' Hs' f0 false tail gp' ltac:(discriminate) Htail Hp) as (f' & gr & Hr & ->).
    exists f', gr. split; [destruct (is_nil rest_s); exact Hr|reflexivity]. }
  rewrite Hc47 in Hp.
  destruct (parse_glob fs r) as [g'|] eqn:Hg'; [|discriminate]. inversion Hg; subst.
  apply ocons_some in Hp. destruct Hp as (gp' & Hp & ->).
  destruct (IH r g' Hg' Hs f0 false tail gp' ltac:(discriminate) Htail Hp) as (f' & gr & Hr & ->).
  exists f', gr. split; [destruct (is_nil r); exact Hr|reflexivity].
Qed.

(* ------------------------------------------------------------------ *)
(* all segments                                                        *)

Lemma pparse_join : forall segs F, Forall2 seg_den segs F -> segs <> [] ->
  (forall s, In s segs -> has_slash s = false) ->
  forall f gp, pparse f true (join_slash segs) = Some gp -> gp = flatten F /\ wfF F = true.
Proof.
  induction 1 as [|s x segs' F' Hden HF IH]; intros Hne Hall f gp Hp; [congruence|].
  pose proof (Hall s (or_introl eq_refl)) as Hs.
  assert (Hall' : forall s0, In s0 segs' -> has_slash s0 = false)
    by (intros s0 H0; apply Hall; now right).
  destruct Hden as [[-> ->]|(g & -> & Hg & Hnil & Hds)].
  - (* "**" *)
    destruct segs' as [|s2 segs''].
    + exfalso. cbn in Hp. destruct f; [discriminate|]. cbn in Hp. discriminate.
    + rewrite join_cons in Hp by discriminate.
      destruct f as [|f0]; [discriminate|].
      change (dstar ++ 47 :: join_slash (s2 :: segs'')) with (42 :: 42 :: 47 :: join_slash (s2 :: segs'')) in Hp.
      cbn [pparse] in Hp.
      change (42 =? 92) with false in Hp. change (42 =? 63) with false in Hp.
      change (42 =? 42) with true in Hp. change (47 =? 47) with true in Hp. cbn iota in Hp.
      apply ocons_some in Hp. destruct Hp as (gp' & Hp & ->).
      destruct (IH ltac:(discriminate) Hall' f0 gp' Hp) as [-> Hwf].
      split; [reflexivity|]. rewrite wfF_cons_ne; [exact Hwf|].
      inversion HF; discriminate.
  - destruct segs' as [|s2 segs''].
    + inversion HF; subst. cbn [join_slash] in Hp. rewrite <- (app_nil_r s) in Hp.
      destruct (pparse_seg _ s g Hg Hs f true [] gp (fun _ => Hds) (or_introl eq_refl) Hp)
        as (f' & gr & Hr & ->).
      apply pparse_nil in Hr. subst gr. split; [cbn [flatten]; reflexivity|reflexivity].
    + rewrite join_cons in Hp by discriminate.
      destruct (pparse_seg _ s g Hg Hs f true _ gp (fun _ => Hds)
                  (or_intror (ex_intro _ _ eq_refl)) Hp) as (f' & gr & Hr & ->).
      rewrite Hnil in Hr. destruct f' as [|f'0]; [discriminate|]. cbn [pparse] in Hr.
      change (47 =? 92) with false in Hr. change (47 =? 63) with false in Hr.
      change (47 =? 42) with false in Hr. change (47 =? 91) with false in Hr.
      change (47 =? 47) with true in Hr. cbn iota in Hr.
      apply ocons_some in Hr. destruct Hr as (gp' & Hr & ->).
      destruct (IH ltac:(discriminate) Hall' f'0 gp' Hr) as [-> Hwf].
      assert (HF'ne : F' <> []) by (inversion HF; discriminate).
      split; [|rewrite wfF_cons_ne; assumption].
      destruct F' as [|y F'']; [congruence|]. reflexivity.
Qed.

(* strings.Split and the joined segments *)
Lemma split_slash_join : forall p cur,
  join_slash (split_slash p cur) = rev cur ++ p /\
  (has_slash cur = false -> forall s, In s (split_slash p cur) -> has_slash s = false) /\
  split_slash p cur <> [].
Proof.
  induction p as [|c r IH]; intros cur; cbn [split_slash].
  - split; [cbn; now rewrite app_nil_r|]. split; [|discriminate].
    intros Hc s [<-|[]]. clear - Hc. induction cur as [|x cur IHc]; [reflexivity|].
    cbn [rev]. apply has_slash_cons in Hc. destruct Hc as [Hx Hc].
    assert (Happ : forall a b, has_slash (a ++ b) = has_slash a || has_slash b).
    { induction a as [|y a IHa]; intros b; cbn; [reflexivity|]. now rewrite IHa, orb_assoc. }
    rewrite Happ, (IHc Hc). cbn. unfold cSLASH. now rewrite Hx.
  - unfold cSLASH. destruct (c =? 47) eqn:Ec.
    + apply N.eqb_eq in Ec. subst c.
      destruct (IH []) as (Hj & Hs & Hne). split; [|split; [|discriminate]].
      * rewrite join_cons by assumption. rewrite Hj. reflexivity.
      * intros Hc s [<-|Hin].
        -- clear - Hc. induction cur as [|x cur IHc]; [reflexivity|].
           cbn [rev]. apply has_slash_cons in Hc. destruct Hc as [Hx Hc].
           assert (Happ : forall a b, has_slash (a ++ b) = has_slash a || has_slash b).
           { induction a as [|y a IHa]; intros b; cbn; [reflexivity|]. now rewrite IHa, orb_assoc. }
           rewrite Happ, (IHc Hc). cbn. unfold cSLASH. now rewrite Hx.
        -- now apply Hs.
    + destruct (IH (c :: cur)) as (Hj & Hs & Hne). split; [|split; [|exact Hne]].
      * rewrite Hj. cbn [rev]. now rewrite <- app_assoc.
      * intros Hc. apply Hs. cbn. unfold cSLASH. now rewrite Ec.
Qed.

(* ------------------------------------------------------------------ *)
(* match_pathname: the literal prefix is compared, the rest goes to wildmatch *)

Definition lit_item (c : N) : pitem := if c =? 47 then PSep else PIt (ILit c).

Definition bos_after (bos : bool) (L : bytes) : bool := fold_left (fun _ c => c =? 47) L bos.

Lemma simple_prefix : forall p c, In c (firstn (simple_length p) p) -> is_glob_special c = false.
Proof.
  induction p as [|x r IH]; intros c H; cbn [simple_length] in H; [destruct H|].
  destruct (is_glob_special x) eqn:E; [destruct H|].
  destruct H as [<-|H]; [exact E|now apply IH].
Qed.

Lemma pparse_lits : forall L f bos P' gp, (forall c, In c L -> is_glob_special c = false) ->
  pparse f bos (L ++ P') = Some gp ->
  exists f' gr, pparse f' (bos_after bos L) P' = Some gr /\ gp = map lit_item L ++ gr.
Proof.
  induction L as [|c L IH]; intros f bos P' gp HL Hp.
  - exists f, gp. split; [exact Hp|reflexivity].
  - destruct f as [|f0]; [discriminate|]. cbn [app pparse] in Hp.
    pose proof (HL c (or_introl eq_refl)) as Hc.
    unfold is_glob_special, cSTAR, cQM, cLB, cBSL in Hc. rewrite !orb_false_iff in Hc.
    destruct Hc as [[[C1 C2] C3] C4]. rewrite C4, C2, C1, C3 in Hp.
    destruct (c =? 47) eqn:E47.
    + apply ocons_some in Hp. destruct Hp as (gp' & Hp & ->).
      destruct (IH f0 true P' gp' (fun x Hx => HL x (or_intror Hx)) Hp) as (f' & gr & Hr & ->).
      exists f', gr. split; [unfold bos_after in *; cbn [fold_left]; rewrite E47; exact Hr|].
      cbn [map app]. unfold lit_item. now rewrite E47.
    + apply ocons_some in Hp. destruct Hp as (gp' & Hp & ->).
      destruct (IH f0 false P' gp' (fun x Hx => HL x (or_intror Hx)) Hp) as (f' & gr & Hr & ->).
      exists f', gr. split; [unfold bos_after in *; cbn [fold_left]; rewrite E47; exact Hr|].
      cbn [map app]. unfold lit_item. now rewrite E47.
Qed.

Lemma PM_lits : forall L gr name,
  PMatch (map lit_item L ++ gr) name <->
  (List.length L <= List.length name)%nat /\ firstn (List.length L) name = L /\
  PMatch gr (skipn (List.length L) name).
Proof.
  induction L as [|c L IH]; intros gr name; cbn [map app List.length firstn skipn].
  - split; [intros H; repeat split; [lia|exact H]|tauto].
  - unfold lit_item at 1. destruct (c =? 47) eqn:E.
    + apply N.eqb_eq in E. subst c. split.
      * intros H. apply PM_sep_inv in H. destruct H as (t' & -> & H). apply IH in H.
        destruct H as (H1 & H2 & H3). cbn [List.length firstn skipn]. repeat split; [lia|now rewrite H2|exact H3].
      * intros (H1 & H2 & H3). destruct name as [|x t']; [cbn in H1; lia|].
        cbn [firstn] in H2. injection H2 as Hx H2'. subst x. constructor. apply IH.
        cbn [List.length] in H1. repeat split; [lia|assumption|exact H3].
    + split.
      * intros H. apply PM_item_inv in H; [|reflexivity].
        destruct H as (x & t' & -> & Hok & _ & H). cbn in Hok. apply N.eqb_eq in Hok. subst x.
        apply IH in H. destruct H as (H1 & H2 & H3).
        cbn [List.length firstn skipn]. repeat split; [lia|now rewrite H2|exact H3].
      * intros (H1 & H2 & H3). destruct name as [|x t']; [cbn in H1; lia|].
        cbn [firstn] in H2. injection H2 as Hx H2'. subst x. constructor; [reflexivity|cbn; apply N.eqb_refl|now apply N.eqb_neq|].
        apply IH. cbn [List.length] in H1. repeat split; [lia|assumption|exact H3].
Qed.

(* the body of match_pathname after the base directory was stripped *)
Definition mp_core (pattern name : bytes) : bool :=
  let prefix := simple_length pattern in
  if Nat.eqb prefix 0 then gwildmatch 2 pattern name
  else if Nat.ltb (List.length name) prefix then false
  else if negb (beq (firstn prefix pattern) (firstn prefix name)) then false
  else
    let pattern' := skipn prefix pattern in
    let name' := skipn prefix name in
    if is_nil pattern' && is_nil name' then true
    else gwildmatch 2 pattern' name'.

Lemma mp_core_spec pattern name gp : pglob_of pattern = Some gp ->
  (mp_core pattern name = true <-> PMatch gp name).
Proof.
  intros Hp. unfold mp_core.
  set (n := simple_length pattern).
  destruct (Nat.eqb n 0) eqn:E0; [now apply gwildmatch_path_sound_complete|].
  set (L := firstn n pattern). set (P' := skipn n pattern).
  assert (Epat : pattern = L ++ P') by (symmetry; apply firstn_skipn).
  assert (HL : forall c, In c L -> is_glob_special c = false) by (apply simple_prefix).
  assert (Hlen : List.length L = n).
  { unfold L. apply firstn_length_le. apply simple_length_le. }
  unfold pglob_of in Hp. rewrite Epat in Hp at 2.
  destruct (pparse_lits _ _ _ _ _ HL Hp) as (f' & gr & Hr & ->).
  rewrite PM_lits, Hlen.
  assert (HP' : pglob_of P' = Some gr).
  { unfold pglob_of. eapply pparse_fuel; [|lia].
    destruct (bos_after true L); [exact Hr|now apply pparse_bos]. }
  destruct (Nat.ltb (List.length name) n) eqn:El.
  { apply Nat.ltb_lt in El. split; [discriminate|]. intros (H & _). lia. }
  apply Nat.ltb_ge in El.
  fold L. destruct (beq L (firstn n name)) eqn:Eb; cbn [negb].
  - apply beq_eq in Eb.
    destruct (is_nil P' && is_nil (skipn n name)) eqn:En.
    + apply andb_true_iff in En. destruct En as [En1 En2].
      destruct P' as [|? ?] eqn:EP; [|discriminate]. destruct (skipn n name) as [|? ?] eqn:ES; [|discriminate].
      apply pparse_nil in Hr. subst gr.
      split; [intros _; repeat split; [exact El|now symmetry|constructor]|reflexivity].
    + rewrite (gwildmatch_path_sound_complete _ _ (skipn n name) HP').
      split; [intros H; repeat split; [exact El|now symmetry|exact H]|tauto].
  - split; [discriminate|]. intros (_ & H & _). rewrite H in Eb. rewrite beq_refl in Eb. discriminate.
Qed.

(* ------------------------------------------------------------------ *)
(* a line read by both sides (no "!")                                  *)

Lemma parse_gen l dir : nospace l -> is_bang l = false ->
  parse_pattern l dir = mkPat dir (split_slash (body_of_line l) []) false (ends_slash l)
                              (has_slash (body_of_line l)).
Proof.
  intros Hns Hb. unfold parse_pattern.
  assert (E0 : (match l with c :: r => if c =? cBANG then (true, r) else (false, l) | [] => (false, l) end)
               = (false, l)).
  { destruct l as [|c r]; [reflexivity|]. cbn in Hb. now rewrite Hb. }
  rewrite E0.
  assert (E1 : trim_trailing_spaces l = l).
  { rewrite trim_eq_git. apply (gtrim_id_n (List.length l)); [lia|].
    intros x Hx. exact (proj1 (nospace_sp _ _ Hns Hx)). }
  rewrite E1. unfold body_of_line, ends_slash in *.
  destruct (rev l) as [|c r] eqn:E.
  - cbn. assert (l = []) by (rewrite <- (rev_involutive l), E; reflexivity). subst. reflexivity.
  - destruct (c =? cSLASH).
    + reflexivity.
    + assert (El : rev (c :: r) = l) by (rewrite <- E; apply rev_involutive).
      rewrite El. reflexivity.
Qed.

Lemma gparse_gen l dir : is_bang l = false ->
  gparse l dir = mkG (body_of_line l) false (ends_slash l) (negb (has_slash (body_of_line l)))
                     (match l with c :: r => (c =? cSTAR) && no_wildcard r | [] => false end)
                     (Nat.min (simple_length l) (List.length (body_of_line l))) dir.
Proof.
  intros Hb. unfold gparse.
  destruct l as [|c0 r0]; [reflexivity|].
  cbn in Hb. rewrite Hb. unfold body_of_line, ends_slash in *.
  destruct (rev (c0 :: r0)) as [|c r]; [reflexivity|].
  destruct (c =? cSLASH); reflexivity.
Qed.

Lemma nowild_body l : Nat.min (simple_length l) (List.length (body_of_line l)) = simple_length (body_of_line l).
Proof.
  destruct (body_app l) as (tail & Hl & _ & _).
  set (q := body_of_line l) in *. rewrite Hl at 1. rewrite simple_length_app.
  pose proof (simple_length_le q).
  destruct (Nat.eqb (simple_length q) (List.length q)) eqn:E.
  - apply Nat.eqb_eq in E. lia.
  - lia.
Qed.

(* match_pathname in terms of mp_core *)
Lemma match_pathname_core g dir rel :
  g_base g = dir -> rel <> [] ->
  g_nowild g = simple_length (g_pat g) ->
  match_pathname g (dir ++ rel) =
  mp_core (match g_pat g with c :: r => if c =? cSLASH then r else g_pat g | [] => [] end) (join_slash rel).
Proof.
  intros Hb Hne Hnw. unfold match_pathname. rewrite Hb, strip_domain_app.
  destruct rel as [|e rel']; [congruence|].
  unfold mp_core. rewrite Hnw.
  destruct (g_pat g) as [|c r] eqn:Ep.
  - reflexivity.
  - destruct (c =? cSLASH) eqn:Ec.
    + apply N.eqb_eq in Ec. subst c. cbn [simple_length].
      change (is_glob_special cSLASH) with false. cbn iota. cbn [Nat.pred]. reflexivity.
    + reflexivity.
Qed.
