(* Proofs/C51Derived.v — the commit-graph built from a history (Spec/Dag.v) with git's generation
   numbers reads back as that history: parents, tree, time, level (Dag.generation) and corrected
   commit date (DagGen2.corrected_date). *)
From Coq Require Import List Arith NArith ZArith Bool Lia ZifyBool ZifyN ZifyNat Permutation.
From GoGit Require Import Base.Out Gen.C51 Model.CommitGraph Spec.Dag Spec.DagGen2 Proofs.C51 Proofs.C51Reader
  Proofs.C51Bytes Proofs.C51Records Proofs.C51Roundtrip Proofs.C51Decode.
Import ListNotations.

(* ------------------------------------------------------------ tables built node by node *)
Section Tables.
Variable A : Type.
Variable d : A.
Variable step : nat -> list node -> list A -> A.      (* value of node i from its parents and the values before it *)

Fixpoint table (i : nat) (l : list (list node)) (acc : list A) : list A :=
  match l with
  | [] => acc
  | ps :: r => table (S i) r (acc ++ [step i ps acc])
  end.

Lemma table_length : forall l i acc, List.length (table i l acc) = (List.length acc + List.length l)%nat.
Proof. induction l as [|ps r IH]; intros i acc; simpl; [lia|]. rewrite IH, app_length. simpl. lia. Qed.

Lemma table_prefix : forall l i acc k, (k < List.length acc)%nat -> nth k (table i l acc) d = nth k acc d.
Proof.
  induction l as [|ps r IH]; intros i acc k Hk; [reflexivity|]. simpl.
  rewrite IH by (rewrite app_length; simpl; lia). now rewrite app_nth1.
Qed.

(* an invariant P k v of the value of node k, preserved by every step *)
Variable P : nat -> A -> Prop.

Lemma table_inv : forall l i acc,
  List.length acc = i ->
  (forall k, (k < i)%nat -> P k (nth k acc d)) ->
  (forall k acc', (k < List.length l)%nat -> List.length acc' = (i + k)%nat ->
     (forall j, (j < i + k)%nat -> P j (nth j acc' d)) -> P (i + k) (step (i + k) (nth k l []) acc')) ->
  forall k, (k < i + List.length l)%nat -> P k (nth k (table i l acc) d).
Proof.
  induction l as [|ps r IH]; intros i acc Hlen Hacc Hstep k Hk.
  - simpl in *. apply Hacc. lia.
  - cbn [table]. apply (IH (S i)).
    + rewrite app_length. simpl. lia.
    + intros j Hj. destruct (Nat.eq_dec j i) as [->|Hne].
      * rewrite app_nth2 by lia. rewrite Hlen, Nat.sub_diag. cbn [nth].
        pose proof (Hstep 0%nat acc) as H0. rewrite Nat.add_0_r in H0. apply H0; [simpl; lia | exact Hlen | exact Hacc].
      * rewrite app_nth1 by lia. apply Hacc. lia.
    + intros j acc' Hj Hl' Hacc'. replace (S i + j)%nat with (i + S j)%nat by lia.
      apply (Hstep (S j) acc'); [simpl; lia | lia |]. intros m Hm. apply Hacc'. lia.
    + simpl in Hk. lia.
Qed.
End Tables.

Definition gen_step (i : nat) (ps : list node) (acc : list nat) : nat :=
  S (fold_right (fun p m => Nat.max (nth p acc 0) m) 0 ps).

Lemma gen_table_table : forall l i acc, gen_table i l acc = table nat gen_step i l acc.
Proof. induction l as [|ps r IH]; intros i acc; [reflexivity|]. simpl. now rewrite IH. Qed.

Definition cdate_step (times : list Z) (i : nat) (ps : list node) (acc : list Z) : Z :=
  fold_right (fun p m => Z.max (nth p acc 0%Z + 1) m) (nth i times 0%Z) ps.

Lemma cdate_table_table : forall times l i acc, cdate_table i l times acc = table Z (cdate_step times) i l acc.
Proof. induction l as [|ps r IH]; intros i acc; [reflexivity|]. simpl. now rewrite IH. Qed.

Lemma dag_parent_lt : forall g k p, dag_ok g = true -> dag_closed g = true -> In p (nth k (dpar g) []) -> (p < k)%nat.
Proof. intros g k p Hok Hc Hin. apply (dag_ok_closed_parent g k p Hok Hc). exact Hin. Qed.

(* level of node c is at most c + 1 *)
Lemma generation_le : forall g c, dag_ok g = true -> dag_closed g = true -> (c < nnodes g)%nat ->
  (1 <= generation g c <= c + 1)%nat.
Proof.
  intros g c Hok Hc Hlt. unfold generation. rewrite gen_table_table.
  apply (table_inv nat 0%nat gen_step (fun k v => (1 <= v <= k + 1)%nat) (dpar g) 0 []); try (simpl; lia); [|exact Hlt].
  intros k acc' Hk Hl' Hacc'. cbn [plus] in *. unfold gen_step.
  assert (Hps : forall p, In p (nth k (dpar g) []) -> (p < k)%nat) by (intros p Hp; now apply (dag_parent_lt g)).
  induction (nth k (dpar g) []) as [|p ps IH]; [simpl; lia|].
  cbn [fold_right]. specialize (IH (fun q Hq => Hps q (or_intror Hq))).
  pose proof (Hps p (or_introl eq_refl)) as Hp. specialize (Hacc' p Hp). lia.
Qed.

(* the corrected date lies between the commit's own date and (largest date so far) + c *)
Lemma corrected_date_bounds : forall g c T, dag_ok g = true -> dag_closed g = true -> (c < nnodes g)%nat ->
  (forall k, (k < nnodes g)%nat -> (ctime g k <= T)%Z) ->
  (ctime g c <= corrected_date g c <= T + Z.of_nat c)%Z.
Proof.
  intros g c T Hok Hc Hlt HT. unfold corrected_date. rewrite cdate_table_table.
  assert (G : forall k, (k < 0 + List.length (dpar g))%nat ->
            (fun k v => (k < nnodes g)%nat -> (ctime g k <= v <= T + Z.of_nat k)%Z) k
              (nth k (table Z (cdate_step (dtime g)) 0 (dpar g) []) 0%Z)).
  { apply (table_inv Z 0%Z (cdate_step (dtime g))
             (fun k v => (k < nnodes g)%nat -> (ctime g k <= v <= T + Z.of_nat k)%Z)); try (simpl; lia).
    intros k acc' Hk Hl' Hacc' Hkn. cbn [plus] in *. unfold cdate_step.
    assert (Hps : forall p, In p (nth k (dpar g) []) -> (p < k)%nat) by (intros p Hp; now apply (dag_parent_lt g)).
    fold (ctime g k). pose proof (HT k Hkn) as HTk.
    induction (nth k (dpar g) []) as [|p ps IH]; [simpl; lia|].
    cbn [fold_right]. specialize (IH (fun q Hq => Hps q (or_intror Hq))).
    pose proof (Hps p (or_introl eq_refl)) as Hp. specialize (Hacc' p Hp). lia. }
  apply G; [unfold nnodes in Hlt; simpl; lia | exact Hlt].
Qed.

(* ------------------------------------------------------------ the graph of a history *)
Local Open Scope N_scope.

Section Derived.
Variable g : dag.
Variable hash tree : node -> bytes.

Definition entry_of_node (c : node) : centry :=
  mkEntry (hash c) (tree c) (map hash (parents g c)) (N.of_nat (generation g c))
          (Z.to_N (corrected_date g c)) (ctime g c).

Definition entries_of_dag : list centry := map entry_of_node (nodes g).

Definition history_ok : Prop :=
  dag_ok g = true /\ dag_closed g = true /\
  NoDup (map hash (nodes g)) /\
  (forall c, (c < nnodes g)%nat ->
     List.length (hash c) = 20%nat /\ Forall (fun b => b < 256) (hash c) /\ List.length (tree c) = 20%nat) /\
  (forall c, (c < nnodes g)%nat -> (0 < ctime g c < 17179869184)%Z) /\
  N.of_nat (nnodes g) < 1073741824 /\
  N.of_nat (List.length (List.concat (dpar g))) < 2147483648.

Lemma sum_lengths : forall (l : list (list node)), sum_nat (map (@List.length node) l) = List.length (List.concat l).
Proof. induction l as [|x r IH]; [reflexivity|]. simpl. now rewrite app_length, IH. Qed.

Lemma sum_nat_le : forall (A : Type) (f h : A -> nat) l, (forall x, In x l -> (f x <= h x)%nat) ->
  (sum_nat (map f l) <= sum_nat (map h l))%nat.
Proof.
  intros A f h l H. induction l as [|x r IH]; [simpl; lia|]. simpl.
  pose proof (H x (or_introl eq_refl)). specialize (IH (fun y Hy => H y (or_intror Hy))). lia.
Qed.

Lemma history_graph_ok : history_ok -> graph_ok entries_of_dag /\ Forall (fun e => 0 < e_gen2 e < two64 - 1) entries_of_dag.
Proof.
  intros [Hok [Hc [Hnd [Hsz [Htm [Hn Hedges]]]]]].
  assert (Hnode : forall e, In e entries_of_dag -> exists c, (c < nnodes g)%nat /\ e = entry_of_node c).
  { intros e He. unfold entries_of_dag in He. apply in_map_iff in He. destruct He as [c [<- Hc']].
    exists c. split; [|reflexivity]. unfold nodes in Hc'. apply in_seq in Hc'. lia. }
  assert (Hhashes : map e_hash entries_of_dag = map hash (nodes g)).
  { unfold entries_of_dag. rewrite map_map. reflexivity. }
  assert (Hcd : forall c, (c < nnodes g)%nat -> (0 < corrected_date g c < 17179869184 + 1073741824)%Z).
  { intros c Hlt. pose proof (corrected_date_bounds g c 17179869184 Hok Hc Hlt) as B.
    assert (HT : forall k, (k < nnodes g)%nat -> (ctime g k <= 17179869184)%Z) by (intros k Hk; specialize (Htm k Hk); lia).
    specialize (B HT). specialize (Htm c Hlt). lia. }
  split; [split; [|split; [|split; [|split]]]|].
  - (* wf_entries *)
    split; [rewrite Hhashes; exact Hnd|]. rewrite Forall_forall. intros e He.
    destruct (Hnode e He) as [c [Hlt ->]]. destruct (Hsz c Hlt) as [A [_ B]]. split; assumption.
  - rewrite Forall_forall. intros e He. destruct (Hnode e He) as [c [Hlt ->]]. now destruct (Hsz c Hlt) as [_ [A _]].
  - rewrite Forall_forall. intros e He. destruct (Hnode e He) as [c [Hlt ->]]. rewrite Hhashes.
    split; [|split; [|split]]; cbn [e_parents e_when e_gen e_gen2 entry_of_node].
    + intros p Hp. apply in_map_iff in Hp. destruct Hp as [q [<- Hq]]. apply in_map.
      unfold nodes. apply in_seq. pose proof (dag_closed_parent g c q Hc Hq). lia.
    + specialize (Htm c Hlt). lia.
    + pose proof (generation_le g c Hok Hc Hlt). lia.
    + specialize (Hcd c Hlt). unfold two64. lia.
  - unfold entries_of_dag. rewrite map_length. unfold nodes. rewrite seq_length, const_parentNone. lia.
  - rewrite extra_edges_count_nat.
    assert (H : (sum_nat (map extra_nat entries_of_dag) <= List.length (List.concat (dpar g)))%nat).
    { rewrite <- sum_lengths. unfold entries_of_dag. rewrite map_map.
      rewrite <- (map_nth_seq _ (dpar g) []) at 1. rewrite map_map. fold (nnodes g). fold (nodes g).
      apply sum_nat_le. intros c _. unfold extra_nat. cbn [e_parents entry_of_node]. rewrite map_length. unfold parents.
      destruct (2 <? List.length (nth c (dpar g) []))%nat; lia. }
    lia.
  - rewrite Forall_forall. intros e He. destruct (Hnode e He) as [c [Hlt ->]]. cbn [e_gen2 entry_of_node].
    specialize (Hcd c Hlt). unfold two64. lia.
Qed.

Theorem derived_readback : forall trailer, history_ok -> List.length trailer = 20%nat ->
  exists l, decode (encode entries_of_dag ++ trailer) = Ok (true, l) /\ Permutation l (map entry_of_node (nodes g)).
Proof.
  intros trailer H Htr. destruct (history_graph_ok H) as [Hg Hg2]. pose proof (graph_ok_wf _ Hg) as Hwf.
  exists (sorted_entries entries_of_dag). split.
  - now apply decode_roundtrip_exact.
  - apply sorted_entries_perm. apply (rt_wfe _ Hwf).
Qed.
End Derived.
