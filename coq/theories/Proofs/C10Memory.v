(* Proofs/C10Memory.v — MemoryIndex (Model/Idx.v, the mem_ functions) on the index
   Decoder.Decode builds from git's idx layout ([spec_index], Proofs/C10Decode.v):
   the bucket of each first byte, findHashIndex, getOffset, getCRC32, Contains,
   FindOffset (with its offset cache), FindCRC32, Entries, EntriesByOffset. *)
From Coq Require Import List NArith ZArith Bool Lia ZifyBool ZifyNat ZifyN Sorting.Sorted.
From GoGit Require Import Base.Out Base.GoInt Model.PackBytes Model.Idx Gen.C10 Spec.IdxFormat
  Proofs.C10Search Proofs.C10Order Proofs.C10Bytes Proofs.C10Table Proofs.C10Layout Proofs.C10Lazy
  Proofs.C10Splits Proofs.C10Decode.
Import ListNotations.
Local Open Scope N_scope.
Ltac Zify.zify_post_hook ::= Z.div_mod_to_equations.

(* ---- counts of a non-decreasing fanout ---- *)

Lemma bucket_counts_nth : forall l p k,
  (k < List.length l)%nat ->
  nth_error (bucket_counts l p) k = Some (nth k l 0 - (if Nat.eqb k 0 then p else nth (k - 1) l 0)).
Proof.
  induction l as [|x l IH]; intros p k Hk; cbn in Hk; [lia|].
  destruct k as [|k]; cbn [bucket_counts nth_error nth Nat.eqb]; [reflexivity|].
  rewrite IH by lia. destruct k as [|k]; cbn [Nat.eqb nth Nat.sub]; [reflexivity|].
  now rewrite Nat.sub_0_r.
Qed.

Lemma bucket_counts_prefix : forall l p k,
  nondecN p l -> (k <= List.length l)%nat ->
  fold_right N.add 0 (firstn k (bucket_counts l p)) = (if Nat.eqb k 0 then p else nth (k - 1) l 0) - p.
Proof.
  induction l as [|x l IH]; intros p k Hn Hk; cbn in Hk.
  - replace k with 0%nat by lia. cbn. lia.
  - destruct k as [|k]; [cbn; lia|].
    destruct Hn as [Hp Hn]. cbn [bucket_counts firstn fold_right].
    rewrite (IH x k Hn) by lia.
    replace (Nat.eqb (S k) 0) with false by reflexivity.
    replace (S k - 1)%nat with k by lia.
    destruct k as [|k].
    + cbn. lia.
    + replace (Nat.eqb (S k) 0) with false by reflexivity. replace (S k - 1)%nat with k by lia.
      cbn [nth].
      assert (x <= nth k l 0).
      { assert (Hk' : (k < List.length l)%nat) by lia. clear - Hn Hk'. revert x k Hn Hk'.
        induction l as [|y l IHl]; intros x k Hn Hk'; [cbn in Hk'; lia|].
        destruct Hn as [H1 H2]. destruct k as [|k]; cbn [nth]; [lia|].
        cbn in Hk'. specialize (IHl y k H2 ltac:(lia)). lia. }
      lia.
Qed.

Lemma nth_firstn_skipn {A} (l : list A) p c i d :
  (i < c)%nat -> nth i (firstn c (skipn p l)) d = nth (p + i) l d.
Proof.
  intros Hi. revert p l. induction i as [|i IH] in c, Hi |- *; intros p l.
  - destruct c; [lia|]. rewrite Nat.add_0_r. revert l. induction p as [|p IHp]; intros l.
    + destruct l; reflexivity.
    + destruct l as [|x l]; [reflexivity|]. cbn [skipn nth]. apply IHp.
  - destruct c; [lia|]. revert l. induction p as [|p IHp]; intros l.
    + cbn [skipn plus]. destruct l as [|x l]; [destruct i; reflexivity|]. cbn [firstn nth].
      specialize (IH c ltac:(lia) 0%nat l). cbn [skipn plus] in IH. exact IH.
    + destruct l as [|x l]; [destruct i; reflexivity|]. cbn [skipn plus nth]. apply IHp.
Qed.

Lemma zip_map_nth {A B} (f g : list A -> bytes) (h : list B -> bytes) :
  forall (la : list (list A)) (lb : list (list B)) r,
  List.length la = List.length lb -> (r < List.length la)%nat ->
  nth r (zip_buckets (map f la) (map g la) (map h lb)) emptyB
  = mkB (f (nth r la [])) (h (nth r lb [])) (g (nth r la [])).
Proof.
  induction la as [|a la IH]; intros lb r Hl Hr; cbn in Hr; [lia|].
  destruct lb as [|b lb]; [discriminate|]. destruct r as [|r]; cbn [map zip_buckets nth]; [reflexivity|].
  apply IH; cbn in *; lia.
Qed.

Lemma zip_map_length {A B} (f g : list A -> bytes) (h : list B -> bytes) :
  forall (la : list (list A)) (lb : list (list B)),
  List.length la = List.length lb -> List.length (zip_buckets (map f la) (map g la) (map h lb)) = List.length la.
Proof.
  induction la as [|a la IH]; intros lb Hl; [reflexivity|].
  destruct lb as [|b lb]; [discriminate|]. cbn [map zip_buckets List.length]. f_equal. apply IH. cbn in Hl. lia.
Qed.

Section Memory.
Variable hs : nat.
Variable Hsz : nat -> bytes -> bytes.
Variable tbl : list entry.
Variable pack sum : bytes.
Hypothesis WF : wf_tbl hs tbl.
Hypothesis Hpack : List.length pack = hs.

Let H := Hsz hs.
Let n : N := N.of_nat (List.length tbl).
Let HS : N := N.of_nat hs.
Let m := spec_index tbl pack sum.
Set Default Proof Using "hs Hsz tbl pack sum WF Hpack".

Let FanNth := fanout_nth hs H tbl pack WF Hpack.
Let FanLen := fanout_length hs H tbl pack WF Hpack.
Let CountAll := count_all hs H tbl pack WF Hpack.
Let HashNe := hash_nonempty hs H tbl pack WF Hpack.
Let CodeLt := code_lt hs H tbl pack WF Hpack.
Let CodeSmall := code_small hs H tbl pack WF Hpack.
Let CodeBig := code_big hs H tbl pack WF Hpack.
Let BO64 := blen_O64 hs H tbl pack WF Hpack.

Definition Fp (k : nat) : N := if Nat.eqb k 0 then 0 else F tbl (k - 1).
Definition cnt (k : nat) : N := F tbl k - Fp k.

Lemma F_mono k : Fp k <= F tbl k.
Proof. unfold Fp, F. destruct (Nat.eqb k 0) eqn:E; [lia|]. apply count_le_mono. lia. Qed.

Lemma F_le k : F tbl k <= n.
Proof. apply count_le_le. Qed.

Lemma fan_nondecN : nondecN 0 (fanout_of tbl).
Proof. apply nondec_N. unfold fanout_of. apply nondec_map_seq; [lia|]. intros i. apply count_le_mono. lia. Qed.

Lemma counts_nth k : (k < 256)%nat -> nth_error (counts tbl) k = Some (cnt k).
Proof.
  intros Hk. unfold counts. rewrite bucket_counts_nth by (rewrite FanLen; exact Hk).
  rewrite FanNth by exact Hk. unfold cnt, Fp, F. destruct (Nat.eqb k 0) eqn:E; [reflexivity|].
  apply Nat.eqb_neq in E. now rewrite FanNth by lia.
Qed.

Lemma counts_prefix k : (k < 256)%nat -> fold_right N.add 0 (firstn k (counts tbl)) = Fp k.
Proof.
  intros Hk. unfold counts. rewrite bucket_counts_prefix by (try apply fan_nondecN; rewrite FanLen; lia).
  unfold Fp, F. destruct (Nat.eqb k 0) eqn:E; [reflexivity|]. apply Nat.eqb_neq in E.
  rewrite FanNth by lia. lia.
Qed.

Lemma sizes_sum' : nsum (sizes tbl) = List.length tbl.
Proof.
  pose proof (nz_sizes_sum (counts tbl)) as E. unfold sizes. unfold counts in E at 2.
  rewrite bucket_counts_sum in E by apply fan_nondecN.
  assert (L : last (fanout_of tbl) 0 = n).
  { unfold fanout_of. change 256%nat with (255 + 1)%nat. rewrite seq_app, map_app. cbn [seq map plus].
    rewrite last_last. change (N.of_nat 255) with 255. exact CountAll. }
  rewrite L in E. unfold n in E. lia.
Qed.

Lemma bk_lengths :
  List.length (map (flat_map e_hash) (splits (sizes tbl) tbl)) = List.length (sizes tbl) /\
  List.length (map (flat_map (fun e => be32 (e_crc e))) (splits (sizes tbl) tbl)) = List.length (sizes tbl) /\
  List.length (map (flat_map be32) (splits (sizes tbl) (codes tbl))) = List.length (sizes tbl).
Proof. rewrite !map_length, !splits_length. auto. Qed.

(* the bucket of first byte k *)
Definition G (k : nat) : list entry := firstn (N.to_nat (cnt k)) (skipn (N.to_nat (Fp k)) tbl).
Definition Cg (k : nat) : list N := firstn (N.to_nat (cnt k)) (skipn (N.to_nat (Fp k)) (codes tbl)).
Definition bucket_of (k : nat) : bucket :=
  mkB (flat_map e_hash (G k)) (flat_map be32 (Cg k)) (flat_map (fun e => be32 (e_crc e)) (G k)).

Lemma bucket_some k : (k < 256)%nat -> cnt k <> 0 ->
  exists r, fmap_at m k = Some r /\ r < N.of_nat (List.length (m_bk m)) /\ nthN (m_bk m) r emptyB = bucket_of k.
Proof.
  intros Hk Hc.
  destruct (bucket_of_count (counts tbl) tbl 0 k (cnt k) (counts_nth k Hk) Hc) as (r & R1 & R2 & R3).
  destruct (bucket_of_count (counts tbl) (codes tbl) 0 k (cnt k) (counts_nth k Hk) Hc) as (r' & R1' & R2' & R3').
  rewrite R1 in R1'. assert (Er : r' = r) by (inversion R1'; lia). subst r'.
  rewrite N.add_0_l in R1. rewrite counts_prefix in R2, R2' by exact Hk.
  assert (Hl : List.length (splits (nz_sizes (counts tbl)) tbl) = List.length (splits (nz_sizes (counts tbl)) (codes tbl)))
    by now rewrite !splits_length.
  assert (Hr : (N.to_nat r < List.length (splits (nz_sizes (counts tbl)) tbl))%nat) by (rewrite splits_length; lia).
  exists r. split; [exact R1|]. split.
  - unfold m, spec_index, sizes. cbn [m_bk]. rewrite (zip_map_length _ _ _ _ _ Hl), splits_length. exact R3.
  - unfold m, spec_index, sizes, nthN. cbn [m_bk]. rewrite (zip_map_nth _ _ _ _ _ _ Hl Hr).
    rewrite R2, R2'. reflexivity.
Qed.

Lemma bucket_none k : (k < 256)%nat -> cnt k = 0 -> fmap_at m k = None.
Proof.
  intros Hk Hc. unfold fmap_at, m, spec_index. cbn [m_fmap].
  apply fmap_of_counts_zero. rewrite counts_nth by exact Hk. now rewrite Hc.
Qed.

(* positions inside the bucket are global positions shifted by Fp k *)
Lemma G_nth k i : i < cnt k -> nth (N.to_nat i) (G k) d0 = nth (N.to_nat (Fp k + i)) tbl d0.
Proof. intros Hi. unfold G. rewrite nth_firstn_skipn by lia. f_equal. lia. Qed.

Lemma Cg_nth k i : i < cnt k -> nth (N.to_nat i) (Cg k) 0 = nth (N.to_nat (Fp k + i)) (codes tbl) 0.
Proof. intros Hi. unfold Cg. rewrite nth_firstn_skipn by lia. f_equal. lia. Qed.

Lemma G_len k : N.of_nat (List.length (G k)) = cnt k.
Proof.
  unfold G. rewrite firstn_length, skipn_length.
  pose proof (F_mono k). pose proof (F_le k). unfold cnt, n in *. lia.
Qed.

Lemma Cg_len k : N.of_nat (List.length (Cg k)) = cnt k.
Proof.
  unfold Cg. rewrite firstn_length, skipn_length. unfold codes. rewrite off32_codes_length.
  pose proof (F_mono k). pose proof (F_le k). unfold cnt, n in *. lia.
Qed.

Lemma G_in k e : In e (G k) -> In e tbl.
Proof.
  unfold G. intros He.
  rewrite <- (firstn_skipn (N.to_nat (Fp k)) tbl). apply in_or_app. right.
  rewrite <- (firstn_skipn (N.to_nat (cnt k)) (skipn (N.to_nat (Fp k)) tbl)). apply in_or_app. now left.
Qed.

Lemma pos_lt k i : i < cnt k -> Fp k + i < n.
Proof. intros Hi. pose proof (F_le k). unfold cnt in Hi. lia. Qed.

Lemma name_at_ok k i : i < cnt k ->
  name_at hs (bucket_of k) i = e_hash (nth (N.to_nat (Fp k + i)) tbl d0).
Proof.
  intros Hi. unfold name_at, bucket_of. cbn [b_names].
  rewrite (flat_map_ext_in' e_hash (hash_rec hs) (G k))
    by (intros e He; symmetry; apply (hash_rec_in hs H tbl pack WF Hpack); exact (G_in k e He)).
  pose proof (record_at (hash_rec hs) (N.of_nat hs) (G k) [] [] i d0) as R.
  cbn [app] in R. rewrite app_nil_r in R. change (blen []) with 0 in R. rewrite N.add_0_l in R.
  rewrite R by (try apply (hash_rec_len hs H tbl pack WF Hpack); rewrite G_len; exact Hi).
  rewrite G_nth by exact Hi.
  apply (hash_rec_in hs H tbl pack WF Hpack). apply nth_In. pose proof (pos_lt k i Hi). unfold n in *. lia.
Qed.

Lemma crc_at_ok k i : i < cnt k ->
  mem_get_crc (bucket_of k) i = e_crc (nth (N.to_nat (Fp k + i)) tbl d0).
Proof.
  intros Hi. unfold mem_get_crc, bucket_of. cbn [b_crc32].
  pose proof (record_at (fun e => be32 (e_crc e)) 4 (G k) [] [] i d0) as R.
  cbn [app] in R. rewrite app_nil_r in R. change (blen []) with 0 in R. rewrite N.add_0_l in R.
  replace (4 * i) with (i * 4) by lia.
  rewrite R by (try (intros; apply blen_be32); rewrite G_len; exact Hi).
  rewrite G_nth by exact Hi. apply get32_be32'. apply (wf_crc _ _ WF).
  apply nth_In. pose proof (pos_lt k i Hi). unfold n in *. lia.
Qed.

Lemma offset_at_ok k i : i < cnt k ->
  mem_get_offset m (bucket_of k) i = Ok (e_off (nth (N.to_nat (Fp k + i)) tbl d0)).
Proof.
  intros Hi. pose proof (pos_lt k i Hi) as Hp.
  unfold mem_get_offset, bucket_of. cbn [b_off32]. change O64MASK with P31.
  pose proof (record_at be32 4 (Cg k) [] [] i 0) as R.
  cbn [app] in R. rewrite app_nil_r in R. change (blen []) with 0 in R. rewrite N.add_0_l in R.
  replace (4 * i) with (i * 4) by lia.
  rewrite R by (try apply blen_be32; rewrite Cg_len; exact Hi).
  rewrite Cg_nth by exact Hi. unfold codes.
  pose proof (CodeLt (Fp k + i) Hp) as Hc.
  rewrite get32_be32' by exact Hc. rewrite land_mask31 by exact Hc.
  destruct (is_big (nth (N.to_nat (Fp k + i)) tbl d0)) eqn:Eb.
  - destruct (CodeBig (Fp k + i) Hp Eb) as (j & Ej & Hj & Hj31 & Ev). rewrite Ej.
    replace (j + 2147483648 <? P31) with false by (unfold P31; lia).
    replace (P31 =? 0) with false by reflexivity.
    rewrite ldiff_mask31 by (unfold P31 in *; lia).
    replace ((j + 2147483648) mod P31) with j by (unfold P31; lia).
    unfold m, spec_index. cbn [m_off64]. rewrite BO64.
    replace ((n_big tbl * 8 <? 8) || (n_big tbl * 8 - 8 <? 8 * j)) with false by lia.
    unfold S_O64.
    pose proof (record_at be64 8 (big_offsets tbl) [] [] j 0) as R64.
    cbn [app] in R64. rewrite app_nil_r in R64. change (blen []) with 0 in R64. rewrite N.add_0_l in R64.
    replace (8 * j) with (j * 8) by lia.
    rewrite R64 by (try apply blen_be64; rewrite big_offsets_length; exact Hj).
    rewrite <- (app_nil_r (be64 _)). rewrite get64_be64; [now rewrite Ev|].
    rewrite Ev. apply (wf_off _ _ WF). apply nth_In. unfold n in Hp. lia.
  - destruct (CodeSmall (Fp k + i) Hp Eb) as [Ec Hs]. rewrite Ec.
    replace (e_off (nth (N.to_nat (Fp k + i)) tbl d0) <? P31) with true by (unfold P31; lia). reflexivity.
Qed.

Lemma entry_at_ok k i : i < cnt k ->
  mem_entry_at hs m (bucket_of k) i = Ok (nth (N.to_nat (Fp k + i)) tbl d0).
Proof.
  intros Hi. unfold mem_entry_at. rewrite offset_at_ok, name_at_ok, crc_at_ok by exact Hi.
  now destruct (nth (N.to_nat (Fp k + i)) tbl d0).
Qed.

Lemma bucket_n_ok k : bucket_n (bucket_of k) = cnt k.
Proof.
  unfold bucket_n, bucket_of. cbn [b_off32].
  rewrite (blen_flat_map be32 4) by (intros; apply blen_be32). rewrite Cg_len. lia.
Qed.

(* ---- findHashIndex ---- *)

Let BucketRange := fun rev Hrev => bucket_range hs H tbl pack rev WF Hpack Hrev.
Let LookupNth := fun rev Hrev => lookup_nth hs H tbl pack rev WF Hpack Hrev.
Let LookupNone := fun rev Hrev => lookup_none hs H tbl pack rev WF Hpack Hrev.

(* the lemmas of C10Lazy about the table carry an (unused) rev-header hypothesis: discharge it once *)
Definition rev0 : bytes := ([82; 73; 68; 88] ++ be32 1 ++ [0; 0; 0; 1]) ++ [].
Lemma rev0_ok : exists hf t, rev0 = ([82; 73; 68; 88] ++ be32 1 ++ hf) ++ t /\ List.length hf = 4%nat.
Proof. exists [0; 0; 0; 1], []. split; reflexivity. Qed.

Lemma pos_sorted i j : i < j -> j < n ->
  bytes_cmp (e_hash (nth (N.to_nat i) tbl d0)) (e_hash (nth (N.to_nat j) tbl d0)) = Lt.
Proof. intros Hij Hj. apply (sorted_nth_lt tbl (wf_sorted _ _ WF)); unfold n in *; lia. Qed.

Lemma mem_find_spec h : wf_hash hs h ->
  (exists k ib r, (k < 256)%nat /\ ib < cnt k /\ e_hash (nth (N.to_nat (Fp k + ib)) tbl d0) = h /\
                  mem_find hs m h = (Found ib, r) /\ nthN (m_bk m) r emptyB = bucket_of k) \/
  ((forall e, In e tbl -> e_hash e <> h) /\ fst (mem_find hs m h) = NotFound).
Proof.
  intros Hh. pose proof (first_byte_lt hs H tbl pack rev0 WF Hpack rev0_ok h Hh) as Hf.
  set (k := first_byte h) in *.
  assert (Hout : forall i, i < n -> e_hash (nth (N.to_nat i) tbl d0) = h -> Fp k <= i < F tbl k).
  { intros i Hi E. apply (BucketRange rev0 rev0_ok i k Hi Hf).
    unfold first_of. rewrite E. unfold k, first_byte. destruct Hh as [_ Hb].
    destruct h as [|b r]; cbn; [reflexivity|]. specialize (Hb b (or_introl eq_refl)). lia. }
  assert (Hnone : (forall i, Fp k <= i -> i < F tbl k -> e_hash (nth (N.to_nat i) tbl d0) <> h) ->
                  forall e, In e tbl -> e_hash e <> h).
  { intros Hno e He E. destruct (In_nth tbl e d0 He) as (j & Hj & Ej).
    assert (Hjn : N.of_nat j < n) by (unfold n; lia).
    specialize (Hout (N.of_nat j) Hjn). rewrite Nat2N.id, Ej in Hout. specialize (Hout E).
    apply (Hno (N.of_nat j)); try lia. now rewrite Nat2N.id, Ej. }
  unfold mem_find. fold k.
  destruct (N.eq_dec (cnt k) 0) as [Hc|Hc].
  - right. rewrite (bucket_none k Hf Hc). split; [|reflexivity]. apply Hnone. intros i Hi Hj. unfold cnt in Hc. lia.
  - destruct (bucket_some k Hf Hc) as (r & R1 & R2 & R3). rewrite R1.
    replace (N.of_nat (List.length (m_bk m)) <=? r) with false by lia.
    rewrite R3, bucket_n_ok. replace (cnt k =? 0) with false by lia.
    set (probe := fun mid => Some (bytes_cmp h (name_at hs (bucket_of k) mid))).
    assert (Pm : mono probe 0 (cnt k)).
    { intros i j Hi Hij Hj. unfold probe. rewrite !name_at_ok by lia.
      destruct (N.eq_dec i j) as [<-|Hne]; [split; auto|].
      assert (Hs := pos_sorted (Fp k + i) (Fp k + j) ltac:(lia) (pos_lt k j Hj)).
      split; intros E; injection E as E1; f_equal.
      - eapply bytes_cmp_trans; [exact E1|exact Hs].
      - apply bytes_cmp_lt_gt. apply bytes_cmp_lt_gt in E1. eapply bytes_cmp_trans; [exact Hs|exact E1]. }
    assert (Pt : total probe 0 (cnt k)) by (intros i Hi Hj; discriminate).
    pose proof (bs_do_fuel probe (cnt k) ltac:(lia) Pm Pt) as Sp.
    destruct (bs_do (bs_fuel 0 (cnt k)) probe 0 (cnt k)) as [ib| | |] eqn:Eb; cbn in Sp; try contradiction.
    + left. destruct Sp as [Hr Hp]. unfold probe in Hp. rewrite name_at_ok in Hp by lia.
      exists k, ib, r. split; [exact Hf|]. split; [lia|]. split; [|split; [reflexivity|exact R3]].
      injection Hp as Hc'. symmetry. now apply bytes_cmp_eq.
    + right. split; [|reflexivity]. apply Hnone. intros i Hi Hj E.
      apply (Sp (i - Fp k)); [lia|unfold cnt; lia|].
      unfold probe. rewrite name_at_ok by (unfold cnt; lia).
      replace (Fp k + (i - Fp k)) with i by lia. now rewrite E, bytes_cmp_refl.
Qed.

Theorem mem_contains_map h : wf_hash hs h ->
  mem_contains hs m h = Ok (match lookup tbl h with Some _ => true | None => false end).
Proof.
  intros Hh. unfold mem_contains.
  destruct (mem_find_spec h Hh) as [(k & ib & r & Hk & Hi & E & -> & Hb)|[Hn Hnf]].
  - rewrite <- E, (LookupNth rev0 rev0_ok) by now apply pos_lt. reflexivity.
  - rewrite (LookupNone rev0 rev0_ok h Hn). destruct (mem_find hs m h) as [s r]. cbn in Hnf. now subst s.
Qed.

Theorem mem_find_offset_map st h : wf_hash hs h ->
  fst (mem_find_offset hs m st h) =
    match lookup tbl h with Some e => Ok (to_i64 (e_off e)) | None => Err ENotFound end.
Proof.
  intros Hh. unfold mem_find_offset.
  destruct (mem_find_spec h Hh) as [(k & ib & r & Hk & Hi & E & -> & Hb)|[Hn Hnf]].
  - rewrite Hb, offset_at_ok by exact Hi. cbn [fst].
    rewrite <- E, (LookupNth rev0 rev0_ok) by now apply pos_lt. reflexivity.
  - rewrite (LookupNone rev0 rev0_ok h Hn). destruct (mem_find hs m h) as [s r]. cbn in Hnf. now subst s.
Qed.

Theorem mem_find_crc_map h : wf_hash hs h ->
  mem_find_crc hs m h =
    match lookup tbl h with Some e => Ok (e_crc e) | None => Err ENotFound end.
Proof.
  intros Hh. unfold mem_find_crc.
  destruct (mem_find_spec h Hh) as [(k & ib & r & Hk & Hi & E & -> & Hb)|[Hn Hnf]].
  - rewrite Hb, crc_at_ok by exact Hi.
    rewrite <- E, (LookupNth rev0 rev0_ok) by now apply pos_lt. reflexivity.
  - rewrite (LookupNone rev0 rev0_ok h Hn). destruct (mem_find hs m h) as [s r]. cbn in Hnf. now subst s.
Qed.

(* ---- Entries ---- *)

Lemma mem_bucket_entries_ok k : forall c s,
  s + N.of_nat c <= cnt k ->
  mem_bucket_entries hs m (bucket_of k) s c = (firstn c (skipn (N.to_nat (Fp k + s)) tbl), None).
Proof.
  induction c as [|c IH]; intros s Hs; cbn [mem_bucket_entries]; [now rewrite firstn_O|].
  rewrite entry_at_ok by lia. rewrite IH by lia.
  assert (Hl : (N.to_nat (Fp k + s) < List.length tbl)%nat).
  { pose proof (pos_lt k s ltac:(lia)). unfold n in *. lia. }
  rewrite (skipn_nth_cons tbl (N.to_nat (Fp k + s)) d0 Hl). cbn [firstn].
  replace (N.to_nat (Fp k + (s + 1))) with (S (N.to_nat (Fp k + s))) by lia. reflexivity.
Qed.

Lemma fan_at_ok k : (k < 256)%nat -> fan_at m k = F tbl k.
Proof. intros Hk. unfold fan_at, m, spec_index. cbn [m_fanout]. now apply FanNth. Qed.

Lemma mem_entries_from_ok : forall j k, (k + j = 256)%nat ->
  mem_entries_from hs m (seq k j) (Fp k) = (skipn (N.to_nat (Fp k)) tbl, None).
Proof.
  induction j as [|j IH]; intros k Hk; cbn [seq mem_entries_from].
  - assert (k = 256%nat) by lia. subst k. unfold Fp. cbn [Nat.eqb Nat.sub].
    unfold F. change (N.of_nat 255) with 255. rewrite CountAll. unfold n. rewrite Nat2N.id. now rewrite skipn_all.
  - assert (Hk' : (k < 256)%nat) by lia. rewrite fan_at_ok by exact Hk'.
    assert (ES : Fp (S k) = F tbl k).
    { unfold Fp. cbn [Nat.eqb]. now rewrite Nat.sub_succ, Nat.sub_0_r. }
    pose proof (F_mono k) as Hm.
    destruct (F tbl k <=? Fp k) eqn:El.
    + assert (F tbl k = Fp k) by lia. rewrite <- H0 at 1. rewrite <- ES. rewrite IH by lia. rewrite ES. now rewrite H0.
    + assert (Hc : cnt k <> 0) by (unfold cnt; lia).
      destruct (bucket_some k Hk' Hc) as (r & R1 & R2 & R3). rewrite R1, R3.
      replace (N.to_nat (F tbl k - Fp k)) with (N.to_nat (cnt k)) by reflexivity.
      rewrite mem_bucket_entries_ok by lia. rewrite N.add_0_r.
      rewrite <- ES. rewrite IH by lia. rewrite ES. f_equal.
      rewrite <- (firstn_skipn (N.to_nat (cnt k)) (skipn (N.to_nat (Fp k)) tbl)) at 2.
      f_equal. rewrite skipn_add. f_equal. unfold cnt. lia.
Qed.

Theorem mem_entries_map : mem_entries hs m = (tbl, None).
Proof.
  unfold mem_entries. change NFANOUT with 256%nat.
  pose proof (mem_entries_from_ok 256 0 eq_refl) as E. unfold Fp in E at 1 2. cbn [Nat.eqb] in E. exact E.
Qed.

Theorem mem_by_offset_map : mem_by_offset hs m = (sort_by_off tbl, None).
Proof. unfold mem_by_offset. now rewrite mem_entries_map. Qed.

Theorem mem_count_map : mem_count m = n.
Proof. unfold mem_count. change (NFANOUT - 1)%nat with 255%nat. rewrite fan_at_ok by lia. unfold F. exact CountAll. Qed.

End Memory.
