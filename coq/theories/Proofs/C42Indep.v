(* Proofs/C42Indep.v — Independents (merge_base.go) computes exactly the
   maximal elements of its input, for EVERY assignment of committer timestamps.

   Inner walk (filterCommitIter limited by the shared [seen], callback removing
   reached candidates): it visits exactly the commits reachable from [from]
   through commits not seen before ([rb]), removes the other candidates among
   them, and adds them to [seen].
   Outer loop: the set seen is always the union of the full histories of the
   candidates walked so far, which makes the limit harmless: a candidate hidden
   behind a seen commit was already removed by an earlier walk. *)
From Coq Require Import List Arith ZArith Bool Lia.
From GoGit Require Import Spec.Dag Model.CommitWalk Model.MergeBase Proofs.Worklist Proofs.C43.
Import ListNotations.

Definition keep (f : node) (visited : list node) (z : node) : bool :=
  negb (mem z visited) || (z =? f).

Lemma mem_cons : forall z c l, mem z (c :: l) = (z =? c) || mem z l.
Proof. reflexivity. Qed.

Lemma keep_cons_ne : forall f c visited z, c <> f ->
  keep f (c :: visited) z = keep f visited z && negb (z =? c).
Proof.
  intros f c visited z Hcf. unfold keep. rewrite mem_cons.
  destruct (z =? c) eqn:Ezc; destruct (mem z visited); destruct (z =? f) eqn:Ezf; simpl; try reflexivity.
  - apply Nat.eqb_eq in Ezc. apply Nat.eqb_eq in Ezf. congruence.
  - apply Nat.eqb_eq in Ezc. apply Nat.eqb_eq in Ezf. congruence.
Qed.

Lemma remove_filter : forall (p : node -> bool) c l,
  remove_node c (filter p l) = filter (fun z => p z && negb (z =? c)) l.
Proof.
  intros p c l. unfold remove_node. induction l as [|z r IH]; [reflexivity|].
  simpl. destruct (p z); simpl.
  - destruct (negb (z =? c)); simpl; now rewrite IH.
  - exact IH.
Qed.

Lemma remove_keep : forall f c visited C0, c <> f ->
  remove_node c (filter (keep f visited) C0) = filter (keep f (c :: visited)) C0.
Proof.
  intros f c visited C0 Hcf. rewrite remove_filter. apply filter_ext.
  intros z. symmetry. now apply keep_cons_ne.
Qed.

Lemma keep_same : forall f c visited C0,
  c = f \/ ~ In c (filter (keep f visited) C0) ->
  filter (keep f (c :: visited)) C0 = filter (keep f visited) C0.
Proof.
  intros f c visited C0 H. apply filter_ext_in. intros z Hz.
  unfold keep. rewrite mem_cons.
  destruct (z =? c) eqn:Ezc; [|reflexivity].
  apply Nat.eqb_eq in Ezc. subst z. simpl.
  destruct H as [H|H].
  - subst c. rewrite Nat.eqb_refl. now rewrite orb_true_r.
  - destruct (negb (mem c visited) || (c =? f)) eqn:E.
    + exfalso. apply H. apply filter_In. split; [exact Hz|]. exact E.
    + apply orb_false_iff in E. destruct E as [_ E]. now rewrite E.
Qed.

Lemma remove_node_In : forall c z l, In z (remove_node c l) <-> In z l /\ z <> c.
Proof.
  intros c z l. unfold remove_node. rewrite filter_In. rewrite negb_true_iff, Nat.eqb_neq. tauto.
Qed.

Section Inner.
  Variable g : dag.
  Hypothesis Hclosed : dag_closed g = true.
  Variable f : node.
  Variable S0 C0 : list node.
  Hypothesis Hf : f < nnodes g.

  Let n := nnodes g.
  Let w := fun c : node => length (parents g c).

  (* reachable from f through commits not seen before the walk (the end point may be seen) *)
  Inductive rb : node -> Prop :=
  | rb_start : rb f
  | rb_step : forall y z, rb y -> ~ In y S0 -> In z (parents g y) -> rb z.

  Lemma rb_reach : forall z, rb z -> reach g f z.
  Proof.
    intros z H. induction H as [|y z Hy IH Hn Hp]; [constructor|].
    eapply reach_trans; [exact IH|]. eapply reach_step; [exact Hp | constructor].
  Qed.

  Record IW (q visited cands others seen : list node) : Prop := mkIW {
    iw_nd : NoDup visited;
    iw_rb : forall x, In x visited -> rb x;
    iw_lt : forall x, In x visited -> x < n;
    iw_seen : forall x, In x seen <-> In x S0 \/ In x visited;
    iw_cands : cands = filter (keep f visited) C0;
    iw_others : forall z, In z others <-> In z cands /\ z <> f;
    iw_q_lt : forall x, In x q -> x < n;
    iw_q : forall x, In x q -> x = f \/ exists y, In y visited /\ ~ In y S0 /\ In x (parents g y);
    iw_closed : forall y p, In y visited -> ~ In y S0 -> In p (parents g y) -> In p visited \/ In p q;
    iw_start : In f visited \/ In f q
  }.

  Definition IWPost (r : iwres) : Prop :=
    match r with
    | IWOk cands' seen' =>
      exists V, cands' = filter (keep f V) C0 /\ (forall x, In x V -> rb x) /\
                (length cands' = 1 \/
                 ((forall x, rb x -> In x V) /\ (forall x, In x seen' <-> In x S0 \/ rb x)))
    | _ => False
    end.

  Lemma rb_complete : forall visited cands others seen,
    IW [] visited cands others seen -> forall x, rb x -> In x visited.
  Proof.
    intros visited cands others seen H x Hr. induction Hr as [|y z Hy IH Hn Hp].
    - destruct (iw_start _ _ _ _ _ H) as [H1|[]]. exact H1.
    - destruct (iw_closed _ _ _ _ _ H y z IH Hn Hp) as [H1|[]]. exact H1.
  Qed.

  Lemma indep_walk_post : forall fuel q visited cands others seen,
    IW q visited cands others seen ->
    length q + budget n w visited < fuel ->
    IWPost (indep_walk g fuel q visited cands others seen).
  Proof.
    induction fuel as [|fu IH]; intros q visited cands others seen HI Hfu; [lia|].
    simpl. destruct q as [|c q'].
    - (* queue empty: the walk is complete *)
      exists visited. split; [apply (iw_cands _ _ _ _ _ HI)|]. split; [apply (iw_rb _ _ _ _ _ HI)|].
      right. split; [now apply (rb_complete visited cands others seen)|].
      intros x. rewrite (iw_seen _ _ _ _ _ HI). split; intros [H|H]; auto.
      + right. now apply (iw_rb _ _ _ _ _ HI).
      + right. now apply (rb_complete visited cands others seen).
    - destruct (mem c visited) eqn:Ev.
      + (* already visited *)
        apply IH; [|simpl in Hfu; lia].
        apply mem_In in Ev. destruct HI as [h1 h2 h3 h4 h5 h6 h7 h8 h9 h10].
        constructor; try assumption.
        * intros x Hx. apply h7. now right.
        * intros x Hx. apply h8. now right.
        * intros y p Hy Hn Hp. destruct (h9 y p Hy Hn Hp) as [H|[H|H]]; auto. subst p. now left.
        * destruct h10 as [H|[H|H]]; auto. subst c. now left.
      + apply mem_false_In in Ev.
        destruct HI as [h1 h2 h3 h4 h5 h6 h7 h8 h9 h10].
        assert (Hclt : c < n) by (apply h7; now left).
        assert (Hcrb : rb c).
        { destruct (h8 c (or_introl eq_refl)) as [H|[y [Hy [Hn Hp]]]]; [subst c; constructor|].
          eapply rb_step; eauto. }
        assert (Hseen : mem c seen = true <-> In c S0).
        { rewrite mem_In, h4. tauto. }
        set (add := if mem c seen then [] else unseen_parents g (c :: visited) c).
        assert (Hadd_lt : forall x : node, In x add -> x < n).
        { intros x Hx. unfold add in Hx. destruct (mem c seen); [contradiction|]. eapply unseen_lt; eauto. }
        rewrite (forallb_present g add Hadd_lt). simpl.
        (* the candidate list after the callback *)
        set (cands' := if mem c others then remove_node c cands else cands).
        set (others' := if mem c others then remove_node c others else others).
        assert (Hc' : cands' = filter (keep f (c :: visited)) C0).
        { unfold cands'. destruct (mem c others) eqn:Eo.
          - apply mem_In in Eo. apply h6 in Eo. destruct Eo as [_ Hcf].
            rewrite h5. now apply remove_keep.
          - apply mem_false_In in Eo. rewrite h5. symmetry. apply keep_same.
            destruct (Nat.eq_dec c f) as [E|E]; [now left|]. right. intros Hin.
            apply Eo. apply h6. rewrite h5. split; assumption. }
        assert (Ho' : forall z, In z others' <-> In z cands' /\ z <> f).
        { intros z. unfold others', cands'. destruct (mem c others).
          - rewrite !remove_node_In, h6. tauto.
          - apply h6. }
        assert (Hrb' : forall x, In x (c :: visited) -> rb x).
        { intros x [Hx|Hx]; [now subst x | now apply h2]. }
        destruct (length cands' =? 1) eqn:El.
        * (* one candidate left: the callback stops the walk *)
          apply Nat.eqb_eq in El.
          exists (c :: visited). split; [exact Hc'|]. split; [exact Hrb'|]. now left.
        * apply IH.
          -- constructor.
             ++ constructor; assumption.
             ++ exact Hrb'.
             ++ intros x [Hx|Hx]; [now subst x | now apply h3].
             ++ intros x. simpl. rewrite h4. tauto.
             ++ exact Hc'.
             ++ exact Ho'.
             ++ intros x Hx. apply in_app_or in Hx. destruct Hx as [Hx|Hx]; [apply h7; now right | now apply Hadd_lt].
             ++ intros x Hx. apply in_app_or in Hx. destruct Hx as [Hx|Hx].
                ** destruct (h8 x (or_intror Hx)) as [H|[y [Hy [Hn Hp]]]]; [now left|].
                   right. exists y. split; [now right | split; assumption].
                ** unfold add in Hx. destruct (mem c seen) eqn:Es; [contradiction|].
                   right. exists c. split; [now left|]. split.
                   --- intros Hin. apply Hseen in Hin. congruence.
                   --- unfold unseen_parents in Hx. apply filter_In in Hx. tauto.
             ++ intros y p [Hy|Hy] Hn Hp.
                ** subst y. destruct (in_dec Nat.eq_dec p (c :: visited)) as [Hpv|Hpv]; [now left|].
                   right. apply in_or_app. right. unfold add.
                   destruct (mem c seen) eqn:Es; [exfalso; apply Hn; now apply Hseen|].
                   unfold unseen_parents. apply filter_In. split; [exact Hp|].
                   apply negb_true_iff. now apply mem_false_In.
                ** destruct (h9 y p Hy Hn Hp) as [H|[H|H]].
                   --- left. now right.
                   --- subst p. left. now left.
                   --- right. apply in_or_app. now left.
             ++ destruct h10 as [H|[H|H]].
                ** left. now right.
                ** subst c. left. now left.
                ** right. apply in_or_app. now left.
          -- rewrite app_length.
             assert (Hal : length add <= w c).
             { unfold add, w. destruct (mem c seen); [simpl; lia|]. unfold unseen_parents.
               apply filter_length_le'. }
             pose proof (budget_cons n w c visited Hclt Ev) as Hb. simpl in Hfu. lia.
  Qed.
End Inner.

(* ------------------------------------------------------------ list helpers *)
Lemma filter_true : forall (l : list node), filter (fun _ => true) l = l.
Proof. induction l as [|x r IH]; simpl; [reflexivity | now rewrite IH]. Qed.

Lemma filter_filter : forall (p q : node -> bool) l,
  filter q (filter p l) = filter (fun z => p z && q z) l.
Proof.
  intros p q l. induction l as [|x r IH]; [reflexivity|]. simpl.
  destruct (p x); simpl; [destruct (q x); now rewrite IH | exact IH].
Qed.

Lemma keep_nil : forall f (l : list node), filter (keep f []) l = l.
Proof. intros f l. unfold keep. simpl. apply filter_true. Qed.

Lemma index_of_app : forall (x : node) A B, ~ In x A -> index_of x (A ++ x :: B) = Some (length A).
Proof.
  intros x A B. induction A as [|a r IH]; intros Hn; simpl.
  - now rewrite Nat.eqb_refl.
  - destruct (a =? x) eqn:E.
    + apply Nat.eqb_eq in E. subst. exfalso. apply Hn. now left.
    + rewrite IH; [reflexivity|]. intros H. apply Hn. now right.
Qed.

Lemma nth_split_nodup : forall (l : list node) pos, pos < length l ->
  l = firstn pos l ++ nth pos l 0 :: skipn (S pos) l.
Proof.
  induction l as [|a r IH]; intros pos H; [simpl in H; lia|].
  destruct pos as [|p]; [reflexivity|]. simpl. f_equal. apply IH. simpl in H. lia.
Qed.

Lemma filter_app_cons : forall (q : node -> bool) A x B, q x = true ->
  filter q (A ++ x :: B) = filter q A ++ x :: filter q B.
Proof. intros q A x B H. rewrite filter_app. simpl. now rewrite H. Qed.

Lemma filter_len : forall (q : node -> bool) l, length (filter q l) <= length l.
Proof. intros. apply filter_length_le'. Qed.

Section Outer.
  Variable g : dag.
  Hypothesis Hok : dag_ok g = true.
  Hypothesis Hclosed : dag_closed g = true.
  Variable K : list node.
  Hypothesis K_nd : NoDup K.
  Hypothesis K_lt : forall x, In x K -> x < nnodes g.

  Let n := nnodes g.

  (* another candidate lies above z *)
  Definition dom (z : node) : Prop := exists y, In y K /\ y <> z /\ reach g y z.
  Definition domb (z : node) : bool := existsb (fun y => negb (y =? z) && is_anc g z y) K.

  Lemma domb_spec : forall z, domb z = true <-> dom z.
  Proof.
    intros z. unfold domb, dom. rewrite existsb_exists. split.
    - intros [y [Hy H]]. apply andb_true_iff in H. destruct H as [H1 H2].
      exists y. split; [exact Hy|]. split.
      + apply negb_true_iff in H1. now apply Nat.eqb_neq in H1.
      + now apply (is_anc_spec g z y Hok).
    - intros [y [Hy [Hne Hr]]]. exists y. split; [exact Hy|]. apply andb_true_iff. split.
      + apply negb_true_iff. now apply Nat.eqb_neq.
      + now apply (is_anc_spec g z y Hok).
  Qed.

  Lemma reach_lt : forall a b, reach g a b -> a <> b -> b < a.
  Proof.
    intros a b H Hne. pose proof (reach_le g a b Hok Hclosed H). lia.
  Qed.

  (* every dominated commit has a dominator that is itself not dominated *)
  Lemma max_dom : forall k y x, n - y <= k -> In y K -> y <> x -> reach g y x ->
    exists y', In y' K /\ y' <> x /\ reach g y' x /\ ~ dom y'.
  Proof.
    induction k as [|k IH]; intros y x Hk Hy Hne Hr.
    - pose proof (K_lt y Hy). unfold n in Hk. lia.
    - destruct (domb y) eqn:E.
      + apply domb_spec in E. destruct E as [y2 [Hy2 [Hne2 Hr2]]].
        pose proof (reach_lt y2 y Hr2 Hne2) as Hlt.
        apply (IH y2 x).
        * pose proof (K_lt y2 Hy2). unfold n in *. lia.
        * exact Hy2.
        * intros Eq. subst y2. apply Hne. eapply reach_antisym; eauto.
        * eapply reach_trans; eauto.
      + exists y. repeat split; auto. intros Hd. apply domb_spec in Hd. congruence.
  Qed.

  Record OI (pos : nat) (cands seen Wd : list node) : Prop := mkOI {
    o_sub : exists P, cands = filter P K;
    o_W : forall x, In x Wd -> In x K;
    o_first : forall x, In x (firstn pos cands) -> In x Wd;
    o_seen : forall x, In x seen <-> exists f, In f Wd /\ reach g f x;
    o_walked : forall f z, In f Wd -> In z K -> z <> f -> reach g f z -> ~ In z cands;
    o_removed : forall z, In z K -> ~ In z cands -> dom z
  }.

  Definition final (l : list node) : Prop := NoDup l /\ forall x, In x l <-> In x K /\ ~ dom x.

  Lemma sub_nodup : forall cands, (exists P, cands = filter P K) -> NoDup cands /\ forall x, In x cands -> In x K.
  Proof.
    intros cands [P E]. subst. split; [now apply NoDup_filter|]. intros x Hx. apply filter_In in Hx. tauto.
  Qed.

  (* all candidates walked: the survivors are the non-dominated ones *)
  Lemma all_walked_final : forall cands seen Wd,
    OI (length cands) cands seen Wd -> final cands.
  Proof.
    intros cands seen Wd H. destruct H as [h1 h2 h3 h4 h5 h6].
    destruct (sub_nodup cands h1) as [Hnd Hsub]. split; [exact Hnd|].
    rewrite firstn_all in h3.
    intros x. split.
    - intros Hx. split; [now apply Hsub|]. intros [y [Hy [Hne Hr]]].
      destruct (max_dom (n - y) y x (le_n _) Hy Hne Hr) as [y' [Hy' [Hne' [Hr' Hnd']]]].
      assert (Hin : In y' cands).
      { destruct (in_dec Nat.eq_dec y' cands) as [H|H]; [exact H|]. exfalso. apply Hnd'. now apply h6. }
      apply (h5 y' x (h3 _ Hin) (Hsub _ Hx)); auto.
    - intros [Hx Hnd']. destruct (in_dec Nat.eq_dec x cands) as [H|H]; [exact H|].
      exfalso. apply Hnd'. now apply h6.
  Qed.

  (* one candidate left and every other one dominated *)
  Lemma single_final : forall c, In c K -> (forall z, In z K -> z <> c -> dom z) -> final [c].
  Proof.
    intros c Hc Hall. split; [constructor; [intros [] | constructor]|].
    assert (Hnc : ~ dom c).
    { intros [y [Hy [Hne Hr]]].
      destruct (max_dom (n - y) y c (le_n _) Hy Hne Hr) as [y' [Hy' [Hne' [_ Hnd']]]].
      apply Hnd'. now apply Hall. }
    intros x. split.
    - intros [Hx|[]]. subst x. split; assumption.
    - intros [Hx Hnd']. destruct (Nat.eq_dec x c) as [E|E]; [now left|].
      exfalso. apply Hnd'. now apply Hall.
  Qed.

  Lemma seen_closed : forall pos cands seen Wd, OI pos cands seen Wd ->
    forall x y, In x seen -> reach g x y -> In y seen.
  Proof.
    intros pos cands seen Wd H x y Hx Hr. apply (o_seen _ _ _ _ H) in Hx.
    destruct Hx as [f [Hf Hfx]]. apply (o_seen _ _ _ _ H). exists f. split; [exact Hf|].
    eapply reach_trans; eauto.
  Qed.

  (* a commit reachable from f is reached by the limited walk, or lies strictly below a seen commit *)
  Lemma reach_rb_or_below : forall f S0 c x, reach g c x -> rb g f S0 c ->
    rb g f S0 x \/ exists p, In p S0 /\ p <> x /\ reach g p x.
  Proof.
    intros f S0 c x H. induction H as [c | c p a Hp Hr IH]; intros Hc; [now left|].
    destruct (in_dec Nat.eq_dec c S0) as [Hin|Hin].
    - right. exists c. split; [exact Hin|]. split.
      + intros E. subst a.
        pose proof (dag_ok_closed_parent g c p Hok Hclosed Hp).
        pose proof (reach_le g p c Hok Hclosed Hr). lia.
      + eapply reach_step; eauto.
    - apply IH. eapply rb_step; eauto.
  Qed.

  Lemma outer_post : forall fuel pos cands seen Wd,
    OI pos cands seen Wd -> pos < length cands -> length cands - pos < fuel ->
    exists l, indep_outer g fuel pos cands seen = MOk l /\ final l.
  Proof.
    induction fuel as [|fu IH]; intros pos cands seen Wd HO Hpos Hfu; [lia|].
    cbn [indep_outer].
    remember (nth pos cands 0) as from eqn:Efrom.
    destruct (sub_nodup cands (o_sub _ _ _ _ HO)) as [Hnd Hsub].
    assert (Hfc : In from cands) by (rewrite Efrom; apply nth_In; exact Hpos).
    assert (HfK : In from K) by now apply Hsub.
    assert (Hflt : from < nnodes g) by now apply K_lt.
    pose proof (nth_split_nodup cands pos Hpos) as Hsplit. rewrite <- Efrom in Hsplit.
    remember (firstn pos cands) as A eqn:EA. remember (skipn (S pos) cands) as Bs eqn:EB.
    assert (HfA : ~ In from A).
    { pose proof Hnd as Hnd2. rewrite Hsplit in Hnd2. apply NoDup_remove_2 in Hnd2.
      intros H. apply Hnd2. apply in_or_app. now left. }
    (* the inner walk *)
    assert (HIW : IW g from seen cands [from] [] cands (remove_node from cands) seen).
    { constructor.
      - constructor.
      - intros x [].
      - intros x [].
      - intros x. simpl. tauto.
      - symmetry. apply keep_nil.
      - intros z. apply remove_node_In.
      - intros x [Hx|[]]. now subst.
      - intros x [Hx|[]]. now left.
      - intros y p [].
      - right. now left. }
    pose proof (indep_walk_post g Hclosed from seen cands Hflt (walk_fuel g) [from] [] cands
                  (remove_node from cands) seen HIW) as HP.
    assert (Hfuel : length [from] + budget (nnodes g) (fun c : node => length (parents g c)) [] < walk_fuel g).
    { rewrite (budget_nil g). unfold walk_fuel. simpl. lia. }
    specialize (HP Hfuel).
    destruct (indep_walk g (walk_fuel g) [from] [] cands (remove_node from cands) seen) as [cands' seen'| |];
      try contradiction.
    destruct HP as [V [Hc' [HV Hcase]]].
    set (q := keep from V) in *.
    assert (Hqf : q from = true) by (unfold q, keep; now rewrite Nat.eqb_refl, orb_true_r).
    assert (Hc'2 : cands' = filter q A ++ from :: filter q Bs).
    { rewrite Hc'. rewrite Hsplit at 1. now apply filter_app_cons. }
    assert (HfA' : ~ In from (filter q A)) by (intros H; apply filter_In in H; tauto).
    assert (Hidx : index_of from cands' = Some (length (filter q A))).
    { rewrite Hc'2. now apply index_of_app. }
    rewrite Hidx.
    (* facts shared by both outcomes *)
    assert (Hsub' : exists P, cands' = filter P K).
    { destruct (o_sub _ _ _ _ HO) as [P E]. exists (fun z => P z && q z). rewrite Hc', E. apply filter_filter. }
    assert (Hrem : forall z, In z K -> ~ In z cands' -> dom z).
    { intros z Hz Hn. destruct (in_dec Nat.eq_dec z cands) as [Hzc|Hzc].
      - (* removed by this walk *)
        assert (Hq : q z = false).
        { destruct (q z) eqn:E; [|reflexivity]. exfalso. apply Hn. rewrite Hc'. apply filter_In. now split. }
        unfold q, keep in Hq. apply orb_false_iff in Hq. destruct Hq as [Hq1 Hq2].
        apply negb_false_iff in Hq1. apply mem_In in Hq1. apply Nat.eqb_neq in Hq2.
        exists from. split; [exact HfK|]. split; [congruence|]. apply (rb_reach g from seen). now apply HV.
      - now apply (o_removed _ _ _ _ HO). }
    assert (Hlen' : length cands' = length (filter q A) + S (length (filter q Bs))).
    { rewrite Hc'2, app_length. reflexivity. }
    destruct Hcase as [Hone | [Hall Hseen']].
    - (* a single candidate is left *)
      assert (E1 : length cands' <=? S (length (filter q A)) = true) by (apply Nat.leb_le; lia).
      rewrite E1. exists cands'. split; [reflexivity|].
      assert (Ecs : cands' = [from]).
      { rewrite Hc'2 in *. destruct (filter q A); destruct (filter q Bs); simpl in *; try lia. reflexivity. }
      rewrite Ecs. apply single_final; [exact HfK|].
      intros z Hz Hne. apply Hrem; [exact Hz|]. rewrite Ecs. intros [H|[]]. congruence.
    - (* the walk is complete: from joins the walked set *)
      assert (HO' : OI (S (length (filter q A))) cands' seen' (from :: Wd)).
      { constructor.
        - exact Hsub'.
        - intros x [Hx|Hx]; [now subst | now apply (o_W _ _ _ _ HO)].
        - intros x Hx. rewrite Hc'2 in Hx.
          replace (S (length (filter q A))) with (length (filter q A ++ [from])) in Hx
            by (rewrite app_length; simpl; lia).
          replace (filter q A ++ from :: filter q Bs) with ((filter q A ++ [from]) ++ filter q Bs) in Hx
            by (rewrite <- app_assoc; reflexivity).
          rewrite firstn_app, firstn_all, Nat.sub_diag in Hx. simpl in Hx. rewrite app_nil_r in Hx.
          apply in_app_or in Hx. destruct Hx as [Hx|[Hx|[]]].
          + right. apply (o_first _ _ _ _ HO). rewrite <- EA. apply filter_In in Hx. tauto.
          + now left.
        - intros x. rewrite Hseen'. rewrite (o_seen _ _ _ _ HO). split.
          + intros [[f [Hf Hr]] | Hr].
            * exists f. split; [now right | exact Hr].
            * exists from. split; [now left | now apply (rb_reach g from seen)].
          + intros [f [[Hf|Hf] Hr]].
            * subst f.
              destruct (reach_rb_or_below from seen from x Hr (rb_start g from seen)) as [H|[p [Hp [Hne Hpx]]]];
                [now right|].
              left. apply (o_seen _ _ _ _ HO) in Hp. destruct Hp as [f2 [Hf2 Hr2]].
              exists f2. split; [exact Hf2|]. eapply reach_trans; eauto.
            * left. now exists f.
        - intros f z [Hf|Hf] Hz Hne Hr Hin.
          + subst f.
            destruct (reach_rb_or_below from seen from z Hr (rb_start g from seen)) as [H|[p [Hp [Hnep Hpz]]]].
            * (* visited by this walk, hence removed *)
              rewrite Hc' in Hin. apply filter_In in Hin. destruct Hin as [_ Hq].
              unfold q, keep in Hq. apply orb_true_iff in Hq. destruct Hq as [Hq|Hq].
              -- apply negb_true_iff in Hq. apply mem_false_In in Hq. apply Hq. now apply Hall.
              -- apply Nat.eqb_eq in Hq. congruence.
            * (* strictly below a seen commit: an earlier walk removed it *)
              apply (o_seen _ _ _ _ HO) in Hp. destruct Hp as [f2 [Hf2 Hr2]].
              assert (Hz2 : z <> f2).
              { intros E. subst f2. apply Hnep. symmetry. eapply reach_antisym; eauto. }
              apply (o_walked _ _ _ _ HO f2 z Hf2 Hz Hz2); [eapply reach_trans; eauto|].
              rewrite Hc' in Hin. apply filter_In in Hin. tauto.
          + apply (o_walked _ _ _ _ HO f z Hf Hz Hne Hr).
            rewrite Hc' in Hin. apply filter_In in Hin. tauto.
        - exact Hrem. }
      destruct (length cands' <=? S (length (filter q A))) eqn:E1.
      + apply Nat.leb_le in E1. exists cands'. split; [reflexivity|].
        apply (all_walked_final cands' seen' (from :: Wd)).
        assert (Eq : length cands' = S (length (filter q A))) by lia.
        rewrite Eq. exact HO'.
      + apply Nat.leb_gt in E1.
        apply (IH _ _ _ _ HO'); [exact E1|].
        pose proof (filter_len q Bs) as HB.
        assert (HlB : length cands = pos + S (length Bs)).
        { rewrite Hsplit at 1. rewrite app_length. rewrite EA. rewrite firstn_length_le by lia. reflexivity. }
        lia.
  Qed.
End Outer.
