(* Proofs/C07.v — the pack encoder writes every requested node exactly once,
   bases before their deltas, for EVERY base-pointer function (cyclic or not). *)
From Coq Require Import List NArith Arith Lia Bool.
From Coq Require Import ZifyBool ZifyNat ZifyN.
From GoGit Require Import Base.Out Model.Delta Model.PackEnc.
Import ListNotations.

Definition e_node (e : nat * option nat * N) : nat := fst (fst e).
Definition e_base (e : nat * option nat * N) : option nat := snd (fst e).
Definition e_off (e : nat * option nat * N) : N := snd e.

(* newest entry first: every delta's base is the node of an OLDER entry *)
Inductive bases_before : list (nat * option nat * N) -> Prop :=
| bb_nil : bases_before []
| bb_cons e l : bases_before l -> (forall b, e_base e = Some b -> In b (map e_node l)) -> bases_before (e :: l).

Section Encoder.
Variable n : nat.                       (* the object list is 0 .. n-1 *)
Variable base0 : nat -> option nat.     (* ObjectToPack.Base as handed to the encoder *)
Variable esize : nat -> N.              (* bytes occupied by the entry of a node *)
Hypothesis esize_pos : forall o, (0 < esize o)%N.
Hypothesis closed : forall k b, base0 k = Some b -> b < n.

(* ---------------------------------------------------------------- the invariant *)
Record Inv (s : state) : Prop := {
  inv_w1 : forall k off, st_of s k = Written off -> exists b, In (k, b, off) (emitted s);
  inv_w2 : forall k b off, In (k, b, off) (emitted s) -> st_of s k = Written off;
  inv_nodup : NoDup (map e_node (emitted s));
  inv_base : forall k b off, In (k, Some b, off) (emitted s) ->
             base0 k = Some b /\ exists ob, st_of s b = Written ob /\ (ob < off)%N;
  inv_off : forall k b off, In (k, b, off) (emitted s) -> (12 <= off < next_off s)%N;
  inv_next : (12 <= next_off s)%N;
  inv_sub : forall k, base_of s k = base0 k \/ base_of s k = None;
  inv_range : forall k b off, In (k, b, off) (emitted s) -> k < n;
  inv_order : bases_before (emitted s);
  inv_touch : forall k, st_of s k <> Untouched -> k < n
}.

(* s' extends s: nothing written is ever changed *)
Definition ext (s s' : state) : Prop :=
  (exists new, emitted s' = new ++ emitted s) /\
  (forall k off, st_of s k = Written off -> st_of s' k = Written off) /\
  (forall k, st_of s k <> Untouched -> st_of s' k <> Untouched) /\
  (forall k, base_of s' k = base_of s k \/ base_of s' k = None).

Lemma ext_refl s : ext s s.
Proof. repeat split; auto. exists []. reflexivity. Qed.

Lemma ext_trans a b c : ext a b -> ext b c -> ext a c.
Proof.
  intros (Ha1 & Ha2 & Ha3 & Ha4) (Hb1 & Hb2 & Hb3 & Hb4). repeat split; auto.
  - destruct Ha1 as [x Hx], Hb1 as [y Hy]. exists (y ++ x). rewrite Hy, Hx, app_assoc. reflexivity.
  - intros k. destruct (Hb4 k) as [E|E]; [rewrite E; apply Ha4|right; exact E].
Qed.

Lemma upd_same {A} (f : nat -> A) k v : upd f k v k = v.
Proof. unfold upd. rewrite Nat.eqb_refl. reflexivity. Qed.

Lemma upd_other {A} (f : nat -> A) k v x : x <> k -> upd f k v x = f x.
Proof. intros H. unfold upd. apply Nat.eqb_neq in H. rewrite H. reflexivity. Qed.

Lemma not_written_not_emitted s o : Inv s -> is_written s o = false ->
  forall b off, ~ In (o, b, off) (emitted s).
Proof.
  intros I H b off Hin. apply (inv_w2 s I) in Hin. unfold is_written in H. rewrite Hin in H. discriminate.
Qed.

Lemma inv_back s o : Inv s -> Inv (back_to_original s o).
Proof.
  intros I. constructor; cbn; try (apply I).
  intros k. unfold upd. destruct (Nat.eqb k o); [right; reflexivity|apply (inv_sub s I)].
Qed.

Lemma ext_back s o : ext s (back_to_original s o).
Proof.
  repeat split; cbn; auto. exists []. reflexivity.
  intros k. unfold upd. destruct (Nat.eqb k o); auto.
Qed.

Lemma inv_mark s o : Inv s -> is_written s o = false -> o < n -> Inv (mark_want s o).
Proof.
  intros I H Ho. pose proof (not_written_not_emitted s o I H) as Hne.
  constructor; cbn; try (apply I).
  - intros k off Hk. unfold upd in Hk. destruct (Nat.eqb k o); [discriminate|]. apply (inv_w1 s I). exact Hk.
  - intros k b off Hin. unfold upd. destruct (Nat.eqb k o) eqn:E.
    + apply Nat.eqb_eq in E. subst k. exfalso. eapply Hne; eauto.
    + apply (inv_w2 s I) in Hin. exact Hin.
  - intros k b off Hin. destruct (inv_base s I k b off Hin) as (Hb & ob & Hob & Hlt).
    split; [assumption|]. exists ob. split; [|assumption].
    unfold upd. destruct (Nat.eqb b o) eqn:E; [|assumption].
    apply Nat.eqb_eq in E. subst b. unfold is_written in H. rewrite Hob in H. discriminate.
  - intros k Hk. unfold upd in Hk. destruct (Nat.eqb k o) eqn:E.
    + apply Nat.eqb_eq in E. subst k. assumption.
    + apply (inv_touch s I). exact Hk.
Qed.

Lemma ext_mark s o : is_written s o = false -> ext s (mark_want s o).
Proof.
  intros H. repeat split; cbn; auto.
  - exists []. reflexivity.
  - intros k off Hk. unfold upd. destruct (Nat.eqb k o) eqn:E; [|assumption].
    apply Nat.eqb_eq in E. subst k. unfold is_written in H. rewrite Hk in H. discriminate.
  - intros k Hk. unfold upd. destruct (Nat.eqb k o); [discriminate|assumption].
Qed.

Lemma inv_write s o : Inv s -> is_written s o = false -> o < n ->
  (forall b, base_of s o = Some b -> is_written s b = true) ->
  Inv (write_entry esize s o).
Proof.
  intros I H Ho Hb. pose proof (not_written_not_emitted s o I H) as Hne.
  pose proof (esize_pos o) as Hpos. pose proof (inv_next s I) as Hnx.
  constructor; cbn.
  - intros k off Hk. unfold upd in Hk. destruct (Nat.eqb k o) eqn:E.
    + apply Nat.eqb_eq in E. subst k. inversion Hk; subst. eexists. left. reflexivity.
    + destruct (inv_w1 s I k off Hk) as [b Hin]. exists b. right. exact Hin.
  - intros k b off [Hin|Hin].
    + inversion Hin; subst. apply upd_same.
    + unfold upd. destruct (Nat.eqb k o) eqn:E.
      * apply Nat.eqb_eq in E. subst k. exfalso. eapply Hne; eauto.
      * apply (inv_w2 s I) in Hin. exact Hin.
  - constructor; [|apply (inv_nodup s I)].
    intros Hin. apply in_map_iff in Hin. destruct Hin as ([[k b] off] & Hk & Hin).
    unfold e_node in Hk. cbn in Hk. subst k. eapply Hne; eauto.
  - intros k b off [Hin|Hin].
    + inversion Hin; subst. clear Hin.
      destruct (inv_sub s I k) as [E|E]; [|congruence]. split; [congruence|].
      specialize (Hb b H2). unfold is_written in Hb. destruct (st_of s b) as [| |ob] eqn:Eb; try discriminate.
      exists ob. split.
      * unfold upd. destruct (Nat.eqb b k) eqn:E2; [|assumption].
        apply Nat.eqb_eq in E2. subst b. unfold is_written in H. rewrite Eb in H. discriminate.
      * destruct (inv_w1 s I b ob Eb) as [bb Hbb]. apply (inv_off s I) in Hbb. lia.
    + destruct (inv_base s I k b off Hin) as (Hb0 & ob & Hob & Hlt).
      split; [assumption|]. exists ob. split; [|assumption].
      unfold upd. destruct (Nat.eqb b o) eqn:E; [|assumption].
      apply Nat.eqb_eq in E. subst b. unfold is_written in H. rewrite Hob in H. discriminate.
  - intros k b off [Hin|Hin].
    + inversion Hin; subst. lia.
    + apply (inv_off s I) in Hin. lia.
  - lia.
  - apply (inv_sub s I).
  - intros k b off [Hin|Hin]; [inversion Hin; subst; assumption|eapply (inv_range s I); eauto].
  - constructor; [apply (inv_order s I)|].
    intros b Hbb. unfold e_base in Hbb. cbn in Hbb. specialize (Hb b Hbb).
    unfold is_written in Hb. destruct (st_of s b) as [| |ob] eqn:Eb; try discriminate.
    destruct (inv_w1 s I b ob Eb) as [bb Hin]. apply in_map_iff. exists (b, bb, ob). split; [reflexivity|assumption].
  - intros k Hk. unfold upd in Hk. destruct (Nat.eqb k o) eqn:E.
    + apply Nat.eqb_eq in E. subst k. assumption.
    + apply (inv_touch s I). exact Hk.
Qed.

Lemma ext_write s o : is_written s o = false -> ext s (write_entry esize s o).
Proof.
  intros H. repeat split; cbn; auto.
  - exists [(o, base_of s o, next_off s)]. reflexivity.
  - intros k off Hk. unfold upd. destruct (Nat.eqb k o) eqn:E; [|assumption].
    apply Nat.eqb_eq in E. subst k. unfold is_written in H. rewrite Hk in H. discriminate.
  - intros k Hk. unfold upd. destruct (Nat.eqb k o); [discriminate|assumption].
Qed.

Lemma written_ext s s' k : ext s s' -> is_written s k = true -> is_written s' k = true.
Proof.
  intros (_ & E & _) H. unfold is_written in *. destruct (st_of s k) eqn:Ek; try discriminate.
  rewrite (E _ _ Ek). reflexivity.
Qed.

Lemma base_closed s k b : Inv s -> base_of s k = Some b -> b < n.
Proof. intros I H. destruct (inv_sub s I k) as [E|E]; [rewrite E in H; eauto|congruence]. Qed.

(* ---------------------------------------------------------------- Encoder.entry *)
Lemma entry_spec : forall fuel s o s',
  Inv s -> o < n -> entry fuel esize s o = Some s' ->
  Inv s' /\ ext s s' /\ is_written s' o = true.
Proof.
  induction fuel as [|f IH]; intros s o s' I Ho H; [discriminate|].
  cbn [entry] in H.
  set (s1 := if is_want s o then back_to_original s o else s) in *.
  assert (I1 : Inv s1) by (unfold s1; destruct (is_want s o); [apply inv_back|]; assumption).
  assert (E1 : ext s s1) by (unfold s1; destruct (is_want s o); [apply ext_back|apply ext_refl]).
  destruct (is_written s1 o) eqn:Hw1.
  { inversion H; subst. split; [exact I1|]. split; [exact E1|exact Hw1]. }
  set (s2 := mark_want s1 o) in *.
  assert (I2 : Inv s2) by (apply inv_mark; assumption).
  assert (E2 : ext s1 s2) by (apply ext_mark; assumption).
  assert (R : exists s3,
    (match base_of s2 o with
     | Some b => if is_written s2 b then Some s2 else entry f esize s2 b
     | None => Some s2 end) = Some s3 /\ Inv s3 /\ ext s2 s3 /\
    (forall b, base_of s3 o = Some b -> is_written s3 b = true)).
  { destruct (base_of s2 o) as [b|] eqn:Eb.
    - destruct (is_written s2 b) eqn:Hwb.
      + exists s2. split; [reflexivity|]. split; [exact I2|]. split; [apply ext_refl|].
        intros b' Hb'. congruence.
      + destruct (entry f esize s2 b) as [s3|] eqn:He; [|discriminate].
        assert (Hbn : b < n) by (eapply base_closed; eauto).
        destruct (IH s2 b s3 I2 Hbn He) as (I3 & E3 & W3).
        exists s3. split; [reflexivity|]. split; [exact I3|]. split; [exact E3|].
        intros b' Hb'. destruct E3 as (_ & _ & _ & Eb3). destruct (Eb3 o) as [Q|Q]; [|congruence].
        rewrite Q, Eb in Hb'. inversion Hb'; subst. assumption.
    - exists s2. split; [reflexivity|]. split; [exact I2|]. split; [apply ext_refl|].
      intros b' Hb'. congruence. }
  destruct R as (s3 & HR & I3 & E3 & Hb3). rewrite HR in H.
  assert (Ho3 : ext s s3) by (eapply ext_trans; [exact E1|]; eapply ext_trans; eassumption).
  destruct (is_written s3 o) eqn:Hw3.
  - inversion H; subst. split; [exact I3|]. split; [exact Ho3|exact Hw3].
  - inversion H; subst. split; [|split].
    + apply inv_write; assumption.
    + eapply ext_trans; [exact Ho3|]. apply ext_write. assumption.
    + unfold is_written, write_entry. cbn. rewrite upd_same. reflexivity.
Qed.

Lemma encode_loop_spec fuel : forall objs s s',
  Inv s -> (forall o, In o objs -> o < n) -> encode_loop fuel esize s objs = Some s' ->
  Inv s' /\ ext s s' /\ (forall o, In o objs -> is_written s' o = true).
Proof.
  induction objs as [|o rest IH]; intros s s' I Hr H; cbn [encode_loop] in H.
  - inversion H; subst. split; [exact I|]. split; [apply ext_refl|]. intros o [].
  - destruct (entry fuel esize s o) as [s1|] eqn:He; [|discriminate].
    destruct (entry_spec fuel s o s1 I (Hr o (or_introl eq_refl)) He) as (I1 & E1 & W1).
    destruct (IH s1 s' I1 (fun x Hx => Hr x (or_intror Hx)) H) as (I' & E' & W').
    split; [exact I'|]. split.
    + eapply ext_trans; eassumption.
    + intros x [Hx|Hx]; [subst x; eapply written_ext; eassumption|apply W'; assumption].
Qed.

Lemma seq_lt o : In o (seq 0 n) -> o < n.
Proof. intros H. apply in_seq in H. lia. Qed.

Lemma inv_init : Inv (init_state base0).
Proof.
  constructor; cbn.
  - intros; discriminate.
  - intros; contradiction.
  - constructor.
  - intros; contradiction.
  - intros; contradiction.
  - unfold pack_header_len. lia.
  - intros; left; reflexivity.
  - intros; contradiction.
  - constructor.
  - intros k H; congruence.
Qed.

(* ---------------------------------------------------------------- the theorems about encode *)
Lemma nodup_incl_length (l : list nat) : NoDup l -> (forall k, In k l -> k < n) -> (forall k, k < n -> In k l) ->
  List.length l = n.
Proof.
  intros Hnd Hr Hall.
  assert (A : List.length l <= List.length (seq 0 n)).
  { apply NoDup_incl_length; [assumption|]. intros k Hk. apply in_seq. specialize (Hr k Hk). lia. }
  assert (B : List.length (seq 0 n) <= List.length l).
  { apply NoDup_incl_length; [apply seq_NoDup|]. intros k Hk. apply in_seq in Hk. apply Hall. lia. }
  rewrite seq_length in *. lia.
Qed.

Lemma encode_spec es :
  encode n base0 esize = Some es ->
  NoDup (map e_node es) /\
  (forall k, k < n <-> In k (map e_node es)) /\
  List.length es = n /\
  (forall k b off, In (k, Some b, off) es ->
     base0 k = Some b /\ exists bb ob, In (b, bb, ob) es /\ (ob < off)%N) /\
  (forall k b off, In (k, b, off) es -> (12 <= off)%N) /\
  bases_before (rev es).
Proof.
  unfold encode. destruct (encode_loop (n + 2) esize (init_state base0) (seq 0 n)) as [s|] eqn:H; [|discriminate].
  intros E. inversion E; subst es. clear E.
  destruct (encode_loop_spec _ _ _ _ inv_init seq_lt H) as (I & _ & W).
  assert (Hnd : NoDup (map e_node (rev (emitted s)))).
  { rewrite map_rev. apply NoDup_rev. apply (inv_nodup s I). }
  assert (Hall : forall k, k < n <-> In k (map e_node (rev (emitted s)))).
  { intros k. split.
    - intros Hk. specialize (W k (proj2 (in_seq _ _ _) (conj (Nat.le_0_l _) Hk))).
      unfold is_written in W. destruct (st_of s k) as [| |off] eqn:Ek; try discriminate.
      destruct (inv_w1 s I k off Ek) as [b Hin].
      apply in_map_iff. exists (k, b, off). split; [reflexivity|]. apply in_rev. rewrite rev_involutive. exact Hin.
    - intros Hin. apply in_map_iff in Hin. destruct Hin as ([[k' b] off] & Hk & Hin).
      unfold e_node in Hk. cbn in Hk. subst k'. apply in_rev in Hin. eapply (inv_range s I); eauto. }
  repeat split; auto; try (apply Hall; assumption).
  - rewrite <- (map_length e_node). apply nodup_incl_length; auto; intros k; apply Hall.
  - apply in_rev in H0. apply (inv_base s I) in H0. tauto.
  - apply in_rev in H0. destruct (inv_base s I k b off H0) as (_ & ob & Hob & Hlt).
    destruct (inv_w1 s I b ob Hob) as [bb Hbb]. exists bb, ob. split; [|assumption].
    apply in_rev. rewrite rev_involutive. exact Hbb.
  - intros k b off Hin. apply in_rev in Hin. apply (inv_off s I) in Hin. lia.
  - rewrite rev_involutive. apply (inv_order s I).
Qed.

(* ---------------------------------------------------------------- fuel *)
Definition untouched (s : state) (k : nat) : bool :=
  match st_of s k with Untouched => true | _ => false end.
Definition count_u (s : state) : nat := List.length (filter (untouched s) (seq 0 n)).

Lemma filter_length_le {A} (f g : A -> bool) l :
  (forall x, In x l -> f x = true -> g x = true) -> List.length (filter f l) <= List.length (filter g l).
Proof.
  induction l as [|x l IH]; intros H; [reflexivity|]. cbn.
  assert (IH' := IH (fun y Hy => H y (or_intror Hy))).
  destruct (f x) eqn:Ef.
  - rewrite (H x (or_introl eq_refl) Ef). cbn. lia.
  - destruct (g x); cbn; lia.
Qed.

Lemma filter_length_lt {A} (f g : A -> bool) l o :
  (forall x, In x l -> f x = true -> g x = true) -> In o l -> f o = false -> g o = true ->
  List.length (filter f l) < List.length (filter g l).
Proof.
  induction l as [|x l IH]; intros H Hin Hf Hg; [contradiction|]. cbn.
  pose proof (filter_length_le f g l (fun y Hy => H y (or_intror Hy))) as Hle.
  destruct Hin as [->|Hin].
  - rewrite Hf, Hg. cbn. lia.
  - specialize (IH (fun y Hy => H y (or_intror Hy)) Hin Hf Hg).
    destruct (f x) eqn:Ef.
    + rewrite (H x (or_introl eq_refl) Ef). cbn. lia.
    + destruct (g x); cbn; lia.
Qed.

Lemma filter_len_all {A} (f : A -> bool) l : List.length (filter f l) <= List.length l.
Proof. induction l as [|a l IH]; cbn; [lia|]. destruct (f a); cbn; lia. Qed.

Lemma count_ext s s' : ext s s' -> count_u s' <= count_u s.
Proof.
  intros (_ & _ & E & _). unfold count_u. apply filter_length_le.
  intros k _ H. unfold untouched in *. destruct (st_of s k) eqn:Ek; try reflexivity;
    exfalso; apply (E k); try congruence; destruct (st_of s' k); try discriminate; reflexivity.
Qed.

Lemma entry_fuel : forall fuel s o,
  Inv s -> o < n -> count_u s + 2 <= fuel -> entry fuel esize s o <> None.
Proof.
  induction fuel as [|f IH]; intros s o I Ho Hf; [lia|].
  cbn [entry].
  set (s1 := if is_want s o then back_to_original s o else s).
  assert (I1 : Inv s1) by (unfold s1; destruct (is_want s o); [apply inv_back|]; assumption).
  assert (E1 : ext s s1) by (unfold s1; destruct (is_want s o); [apply ext_back|apply ext_refl]).
  destruct (is_written s1 o) eqn:Hw1; [discriminate|].
  set (s2 := mark_want s1 o).
  assert (I2 : Inv s2) by (apply inv_mark; assumption).
  destruct (base_of s2 o) as [b|] eqn:Eb.
  2:{ destruct (is_written s2 o); discriminate. }
  destruct (is_written s2 b) eqn:Hwb.
  { destruct (is_written s2 o); discriminate. }
  (* the recursive call: o was untouched, so one untouched node fewer *)
  assert (Hun : is_want s o = false).
  { destruct (is_want s o) eqn:Hwant; [|reflexivity].
    unfold s2, s1 in Eb. try rewrite Hwant in Eb. cbn in Eb. rewrite upd_same in Eb. discriminate. }
  assert (Huo : untouched s o = true).
  { unfold s1 in Hw1. rewrite Hun in Hw1. unfold is_written in Hw1. unfold is_want in Hun. unfold untouched.
    destruct (st_of s o); try discriminate; reflexivity. }
  assert (Hcnt : count_u s2 < count_u s).
  { unfold count_u. apply filter_length_lt with (o := o).
    - intros k _ Hk. unfold s2, s1 in Hk. rewrite Hun in Hk. unfold untouched in *. cbn in Hk.
      unfold upd in Hk. destruct (Nat.eqb k o); [discriminate|assumption].
    - apply in_seq. lia.
    - unfold s2, untouched. cbn. rewrite upd_same. reflexivity.
    - assumption. }
  assert (Hbn : b < n) by (eapply base_closed; eauto).
  specialize (IH s2 b I2 Hbn ltac:(lia)).
  destruct (entry f esize s2 b) as [s3|]; [|congruence].
  destruct (is_written s3 o); discriminate.
Qed.

Lemma encode_loop_fuel fuel : forall objs s,
  Inv s -> (forall o, In o objs -> o < n) -> n + 2 <= fuel -> encode_loop fuel esize s objs <> None.
Proof.
  induction objs as [|o rest IH]; intros s I Hr Hf; cbn [encode_loop]; [discriminate|].
  assert (Hc : count_u s <= n).
  { unfold count_u. etransitivity; [apply filter_len_all|]. rewrite seq_length. lia. }
  pose proof (entry_fuel fuel s o I (Hr o (or_introl eq_refl)) ltac:(lia)) as He.
  destruct (entry fuel esize s o) as [s1|] eqn:E; [|congruence].
  destruct (entry_spec fuel s o s1 I (Hr o (or_introl eq_refl)) E) as (I1 & _ & _).
  apply IH; auto. intros x Hx. apply Hr. right. exact Hx.
Qed.

Lemma encode_fuel : encode n base0 esize <> None.
Proof.
  unfold encode.
  pose proof (encode_loop_fuel (n + 2) (seq 0 n) (init_state base0) inv_init
                seq_lt (Nat.le_refl _)) as H.
  destruct (encode_loop (n + 2) esize (init_state base0) (seq 0 n)); [discriminate|congruence].
Qed.

(* ---------------------------------------------------------------- resolving the pack gives the originals back *)
Variable orig : nat -> bytes.          (* the object behind each node *)
Variable delta : nat -> bytes.         (* ObjectToPack.Object of a deltified node *)
Hypothesis deltas_ok : forall k b, base0 k = Some b -> patch_delta (orig b) (delta k) = Ok (orig k).

(* what the encoder puts into an entry *)
Definition payload (e : nat * option nat * N) : bytes :=
  match e_base e with None => orig (e_node e) | Some _ => delta (e_node e) end.

Fixpoint lookup (acc : list (nat * bytes)) (k : nat) : option bytes :=
  match acc with
  | [] => None
  | (k', c) :: r => if Nat.eqb k' k then Some c else lookup r k
  end.

(* what a reader (git index-pack, go-git's parser) reconstructs going through the file: a whole
   object is its payload, a delta is applied to the ALREADY reconstructed object of its base entry.
   [l] is newest first, so the recursion reaches the beginning of the file first.  Bases are looked up
   by node; offsets (OFS_DELTA) identify nodes one to one by encode_spec. *)
Fixpoint resolved (l : list (nat * option nat * N)) : option (list (nat * bytes)) :=
  match l with
  | [] => Some []
  | e :: older =>
    match resolved older with
    | None => None
    | Some acc =>
      match e_base e with
      | None => Some ((e_node e, payload e) :: acc)
      | Some b =>
        match lookup acc b with
        | None => None
        | Some cb => match patch_delta cb (payload e) with
                     | Ok c => Some ((e_node e, c) :: acc)
                     | Err _ => None
                     end
        end
      end
    end
  end.

Lemma lookup_orig l b : In b (map e_node l) ->
  lookup (map (fun e => (e_node e, orig (e_node e))) l) b = Some (orig b).
Proof.
  induction l as [|e l IH]; intros H; [contradiction|]. cbn [map lookup].
  destruct (Nat.eqb (e_node e) b) eqn:E.
  - apply Nat.eqb_eq in E. rewrite E. reflexivity.
  - destruct H as [H|H]; [apply Nat.eqb_neq in E; congruence|]. apply IH. exact H.
Qed.

Lemma resolved_spec l :
  bases_before l ->
  (forall e b, In e l -> e_base e = Some b -> base0 (e_node e) = Some b) ->
  resolved l = Some (map (fun e => (e_node e, orig (e_node e))) l).
Proof.
  induction 1 as [|e l Hl IH Hb]; intros Hbase; [reflexivity|].
  cbn [resolved map]. rewrite IH by (intros e' b' Hin; apply Hbase; right; exact Hin).
  unfold payload. destruct (e_base e) as [b|] eqn:Eb; [|reflexivity].
  rewrite (lookup_orig l b (Hb b eq_refl)).
  rewrite (deltas_ok (e_node e) b (Hbase e b (or_introl eq_refl) Eb)). reflexivity.
Qed.

Lemma encode_resolves es :
  encode n base0 esize = Some es ->
  resolved (rev es) = Some (map (fun e => (e_node e, orig (e_node e))) (rev es)).
Proof.
  intros H. destruct (encode_spec es H) as (_ & _ & _ & Hb & _ & Hord).
  apply resolved_spec; [assumption|].
  intros [[k b'] off] b Hin Eb. unfold e_base, e_node in *. cbn in *. subst b'.
  apply in_rev in Hin. try rewrite rev_involutive in Hin. apply (Hb k b off Hin).
Qed.

End Encoder.
