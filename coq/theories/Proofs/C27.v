(* Proofs/C27.v — Worktree.status: the fold of the two change lists is a
   per-path function, and that function is git's XY classification under an
   explicit per-path guard. *)
From Coq Require Import List NArith Arith Lia Bool ZifyBool ZifyN.
From GoGit Require Import Base.Out Model.Status Spec.GitStatus.
Import ListNotations.
Local Open Scope N_scope.

(* ------------------------------------------------------------ byte strings *)

Lemma bytes_eqb_eq a : forall b, bytes_eqb a b = true <-> a = b.
Proof.
  induction a as [|x a IH]; intros [|y b]; cbn [bytes_eqb]; split; intros H; try reflexivity; try discriminate.
  - apply andb_true_iff in H as [H1 H2]. apply N.eqb_eq in H1. apply IH in H2. now subst.
  - inversion H; subst. rewrite N.eqb_refl. cbn. now apply IH.
Qed.

Lemma bytes_eqb_refl a : bytes_eqb a a = true.
Proof. now apply bytes_eqb_eq. Qed.

Lemma bytes_eqb_neq a b : a <> b -> bytes_eqb a b = false.
Proof. intros H. destruct (bytes_eqb a b) eqn:E; [|reflexivity]. apply bytes_eqb_eq in E. contradiction. Qed.

Lemma bytes_eqb_sym a b : bytes_eqb a b = bytes_eqb b a.
Proof.
  destruct (bytes_eqb a b) eqn:E.
  - apply bytes_eqb_eq in E. subst. symmetry. apply bytes_eqb_refl.
  - destruct (bytes_eqb b a) eqn:E2; [|reflexivity]. apply bytes_eqb_eq in E2. subst.
    rewrite bytes_eqb_refl in E. discriminate.
Qed.

(* ------------------------------------------------------------ the Status map *)

Lemma sget_sset m p v : forall q,
  sget (sset m p v) q = if bytes_eqb p q then Some v else sget m q.
Proof.
  induction m as [|[r w] m IH]; intros q.
  - cbn [sset sget]. reflexivity.
  - cbn [sset]. destruct (bytes_eqb r p) eqn:E.
    + apply bytes_eqb_eq in E. subst r. cbn [sget]. destruct (bytes_eqb p q); reflexivity.
    + cbn [sget]. destruct (bytes_eqb r q) eqn:E2.
      * apply bytes_eqb_eq in E2. subst r. rewrite bytes_eqb_sym, E. reflexivity.
      * apply IH.
Qed.

Fixpoint nodup_b (ps : list path) : bool :=
  match ps with [] => true | p :: r => negb (mem_path p r) && nodup_b r end.

Lemma mem_dedup p l : mem_path p (dedup l) = mem_path p l.
Proof.
  induction l as [|q l IH]; [reflexivity|]. cbn [dedup mem_path].
  destruct (mem_path q l) eqn:E.
  - rewrite IH. destruct (bytes_eqb q p) eqn:E2; [|reflexivity].
    apply bytes_eqb_eq in E2. subst. now rewrite E.
  - cbn [mem_path]. now rewrite IH.
Qed.

Lemma dedup_nodup l : nodup_b (dedup l) = true.
Proof.
  induction l as [|q l IH]; [reflexivity|]. cbn [dedup].
  destruct (mem_path q l) eqn:E; [exact IH|]. cbn [nodup_b]. now rewrite mem_dedup, E, IH.
Qed.

Definition stg (a : action) : code := match a with Del => CDel | Ins => CAdd | Mod => CMod end.

(* the loop over the left changes *)
Lemma fold_left_apply f ps : forall m p,
  nodup_b ps = true ->
  sget (fold_left left_apply (changes f ps) m) p =
  if mem_path p ps then match f p with Some a => Some (stg a, CUnmod) | None => sget m p end
  else sget m p.
Proof.
  induction ps as [|q ps IH]; intros m p Hn; [reflexivity|].
  cbn [nodup_b] in Hn. apply andb_true_iff in Hn as [Hq Hn]. apply negb_true_iff in Hq.
  unfold changes. cbn [flat_map]. fold (changes f ps). rewrite fold_left_app. cbn [mem_path].
  destruct (f q) as [a|] eqn:Fq.
  - cbn [fold_left]. rewrite IH by assumption.
    unfold left_apply. destruct (sfile m q) as [st0 w0].
    destruct (bytes_eqb q p) eqn:E.
    + apply bytes_eqb_eq in E. subst q. cbn [orb]. rewrite Hq, Fq.
      rewrite sget_sset, bytes_eqb_refl. destruct a; reflexivity.
    + cbn [orb]. rewrite sget_sset, E. reflexivity.
  - cbn [fold_left]. rewrite IH by assumption.
    destruct (bytes_eqb q p) eqn:E; [|reflexivity].
    apply bytes_eqb_eq in E. subst q. cbn [orb]. rewrite Hq, Fq. reflexivity.
Qed.

(* what one right change makes of the entry found (or created) for its path *)
Definition rapply (v : code * code) (a : action) : code * code :=
  let st := if code_eqb (fst v) CUntracked then CUnmod else fst v in
  match a with Del => (st, CDel) | Ins => (CUntracked, CUntracked) | Mod => (st, CMod) end.

Lemma fold_right_apply g ps : forall m p,
  nodup_b ps = true ->
  sget (fold_left right_apply (changes g ps) m) p =
  if mem_path p ps then match g p with Some a => Some (rapply (sfile m p) a) | None => sget m p end
  else sget m p.
Proof.
  induction ps as [|q ps IH]; intros m p Hn; [reflexivity|].
  cbn [nodup_b] in Hn. apply andb_true_iff in Hn as [Hq Hn]. apply negb_true_iff in Hq.
  unfold changes. cbn [flat_map]. fold (changes g ps). rewrite fold_left_app. cbn [mem_path].
  destruct (g q) as [a|] eqn:Gq.
  - cbn [fold_left]. rewrite IH by assumption.
    destruct (bytes_eqb q p) eqn:E.
    + apply bytes_eqb_eq in E. subst q. cbn [orb]. rewrite Hq, Gq.
      unfold right_apply, rapply. destruct (sfile m p) as [st0 w0]. cbn [fst].
      destruct a; rewrite sget_sset, bytes_eqb_refl; reflexivity.
    + cbn [orb].
      assert (Hs : forall q', bytes_eqb q q' = false -> sget (right_apply m (q, a)) q' = sget m q').
      { intros q' E'. unfold right_apply. destruct (sfile m q) as [st0 w0].
        destruct a; rewrite sget_sset, E'; reflexivity. }
      unfold sfile. rewrite (Hs p E). reflexivity.
  - cbn [fold_left]. rewrite IH by assumption.
    destruct (bytes_eqb q p) eqn:E; [|reflexivity].
    apply bytes_eqb_eq in E. subst q. cbn [orb]. rewrite Hq, Gq. reflexivity.
Qed.

(* the per-path result of Worktree.status *)
Definition g_class (l r : option action) : option (code * code) :=
  match l, r with
  | None, None => None
  | None, Some a => Some (rapply (CUntracked, CUntracked) a)
  | Some a, None => Some (stg a, CUnmod)
  | Some a, Some b => Some (rapply (stg a, CUnmod) b)
  end.

(* a path outside the three maps has no change *)
Lemma find_t_mem l p : mem_path p (map te_path l) = false -> find_t l p = None.
Proof.
  induction l as [|e l IH]; intros H; [reflexivity|]. cbn [map mem_path] in H.
  apply orb_false_iff in H as [H1 H2]. cbn [find_t]. rewrite H1. now apply IH.
Qed.
Lemma find_i_mem l p : mem_path p (map ie_path l) = false -> find_i l p = None.
Proof.
  induction l as [|e l IH]; intros H; [reflexivity|]. cbn [map mem_path] in H.
  apply orb_false_iff in H as [H1 H2]. cbn [find_i]. rewrite H1. now apply IH.
Qed.
Lemma find_w_mem l p : mem_path p (map wf_path l) = false -> find_w l p = None.
Proof.
  induction l as [|e l IH]; intros H; [reflexivity|]. cbn [map mem_path] in H.
  apply orb_false_iff in H as [H1 H2]. cbn [find_w]. rewrite H1. now apply IH.
Qed.
Lemma mem_path_app p a b : mem_path p (a ++ b) = mem_path p a || mem_path p b.
Proof. induction a as [|q a IH]; [reflexivity|]. cbn [app mem_path]. now rewrite IH, orb_assoc. Qed.

Lemma outside_paths s p :
  mem_path p (all_paths s) = false -> left_change s p = None /\ right_change s p = None.
Proof.
  unfold all_paths. rewrite mem_dedup, !mem_path_app. intros H.
  apply orb_false_iff in H as [H1 H]. apply orb_false_iff in H as [H2 H3].
  unfold left_change, right_change.
  rewrite (find_t_mem _ _ H1), (find_i_mem _ _ H2), (find_w_mem _ _ H3). split; reflexivity.
Qed.

Lemma status_map_get s p :
  sget (status_map s) p = g_class (left_change s p) (right_change s p).
Proof.
  unfold status_map. cbv zeta.
  rewrite fold_right_apply by apply dedup_nodup.
  unfold sfile. rewrite fold_left_apply by apply dedup_nodup. cbn [sget].
  destruct (mem_path p (all_paths s)) eqn:M.
  - destruct (left_change s p) as [a|], (right_change s p) as [b|]; reflexivity.
  - destruct (outside_paths s p M) as [-> ->]. reflexivity.
Qed.

Definition list_of (p : path) (v : option (code * code)) : list (path * code * code) :=
  match v with
  | Some (x, y) => if code_eqb x CUnmod && code_eqb y CUnmod then [] else [(p, x, y)]
  | None => []
  end.

Lemma status_pointwise s ps :
  status s ps = flat_map (fun p => list_of p (g_class (left_change s p) (right_change s p))) ps.
Proof.
  unfold status, listing. apply flat_map_ext. intros p. rewrite status_map_get. reflexivity.
Qed.

(* ------------------------------------------------------------ against git *)

Definition is_some {A} (o : option A) : bool := match o with Some _ => true | None => false end.

(* the per-path guard: none of the recorded deviations applies at p *)
Definition ok_path (s : state) (p : path) : bool :=
  let h := find_t (st_head s) p in
  let i := find_i (st_index s) p in
  let w := find_w (st_wt s) p in
  (* ids of the repository's format *)
  match h with Some a => h_fmt (te_hash a) =? st_fmt s | None => true end &&
  match i with Some e => (h_fmt (ie_hash e) =? st_fmt s) && negb (ie_ita e) | None => true end &&
  (* no type change *)
  match h, i with Some a, Some e => Bool.eqb (is_link (te_mode a)) (is_link (ie_mode e)) | _, _ => true end &&
  match i, w with Some e, Some f => Bool.eqb (is_link (ie_mode e)) (is_link (wf_mode f)) | _, _ => true end &&
  (* untracked files: .git/info/exclude changes nothing; no staged deletion of a file still present *)
  match i, w with
  | None, Some f => Bool.eqb (wf_ignored f) (wf_ignored_git f) && (negb (is_some h) || wf_ignored f)
  | _, _ => true
  end &&
  (* tracked files present in the worktree *)
  match i, w with
  | Some e, Some f =>
    ((st_fmt s =? 0) || metadata_matches s e f) &&
    (st_filemode s || negb (fmode_eqb (wf_mode f) MExec)) &&
    (negb (metadata_matches s e f) || (h_cid (ie_hash e) =? wf_cid f))
  | _, _ => true
  end.

Lemma fmode_eqb_eq a b : fmode_eqb a b = true <-> a = b.
Proof. destruct a, b; cbn; split; intros H; try reflexivity; discriminate. Qed.

Ltac split_guard G :=
  repeat (let H := fresh "G" in apply andb_true_iff in G as [G H]);
  repeat match goal with
         | H : negb _ = true |- _ => apply negb_true_iff in H
         | H : true = true |- _ => clear H
         | H : _ && _ = true |- _ => let H' := fresh "G" in apply andb_true_iff in H as [H H']
         end.

Ltac use_false :=
  repeat match goal with
         | H : ?x = false |- context [?x] => rewrite H
         | H : ?x = true |- context [?x] => rewrite H
         end.

Ltac crunch :=
  cbn in *; try discriminate;
  repeat match goal with
         | |- context [?x =? ?y] => let E := fresh "E" in destruct (x =? y) eqn:E
         end;
  cbn; try reflexivity; try discriminate; try (exfalso; lia).

Lemma find_w_path l p f : find_w l p = Some f -> wf_path f = p.
Proof.
  induction l as [|x l IH]; [discriminate|]. cbn [find_w].
  destruct (bytes_eqb (wf_path x) p) eqn:E; [|exact IH].
  intros H. inversion H; subst. now apply bytes_eqb_eq.
Qed.

Lemma per_path s p :
  ok_path s p = true ->
  list_of p (g_class (left_change s p) (right_change s p)) = git_records s p.
Proof.
  unfold ok_path, left_change, right_change, git_records, git_x, git_y, git_untracked, find_i_visible, wnode_hash, wt_visible.
  cbv zeta.
  destruct (find_t (st_head s) p) as [a|] eqn:Eh;
  destruct (find_i (st_index s) p) as [e|] eqn:Ei;
  destruct (find_w (st_wt s) p) as [f|] eqn:Ew; cbn [option_map is_some change1].
  all: try (rewrite (find_w_path _ _ _ Ew), Ei).
  all: intros G; split_guard G.
  (* 1. head, index, worktree *)
  - unfold tnode_hash, inode_hash, nhash_eqb, hash_eqb. cbn [fst snd]. use_false.
    destruct (te_mode a), (ie_mode e), (wf_mode f); cbn in *; try discriminate;
      destruct (st_filemode s), (metadata_matches s e f); crunch.
  (* 2. head, index, no file *)
  - unfold tnode_hash, inode_hash, nhash_eqb, hash_eqb. cbn [fst snd]. use_false.
    destruct (te_mode a), (ie_mode e); crunch.
  (* 3. head, no index entry, file *)
  - destruct (wf_ignored f), (wf_ignored_git f); crunch.
  (* 4. head only *)
  - reflexivity.
  (* 5. index and file *)
  - unfold inode_hash, nhash_eqb, hash_eqb. cbn [fst snd]. use_false.
    destruct (ie_mode e), (wf_mode f); cbn in *; try discriminate;
      destruct (st_filemode s), (metadata_matches s e f); crunch.
  (* 6. index only *)
  - use_false. reflexivity.
  (* 7. file only *)
  - destruct (wf_ignored f), (wf_ignored_git f); crunch.
  (* 8. nothing *)
  - reflexivity.
Qed.

Lemma status_eq_git s ps :
  forallb (ok_path s) ps = true -> status s ps = git_status s ps.
Proof.
  intros H. rewrite status_pointwise. unfold git_status.
  induction ps as [|p ps IH]; [reflexivity|].
  cbn [forallb] in H. apply andb_true_iff in H as [Hp H].
  cbn [flat_map]. rewrite (per_path s p Hp), IH by assumption. reflexivity.
Qed.

(* ------------------------------------------------------------ the shortcut over time *)

Definition tl_inv (s : tl_state) : Prop :=
  tl_idxtime s <= tl_clock s /\ snd (tl_file s) <= tl_clock s /\
  match tl_entry s with
  | None => True
  | Some e => tl_file s = e \/ tl_idxtime s <= snd (tl_file s)
  end.

Lemma tl_inv_step s e :
  tl_inv s -> (match e with TTouchIndex => False | _ => True end) -> tl_inv (tl_step s e).
Proof.
  intros (H1 & H2 & H3) He. destruct e; cbn [tl_step]; unfold tl_inv; cbn [tl_clock tl_file tl_entry tl_idxtime snd].
  - repeat split; try lia. exact H3.
  - repeat split; try lia. destruct (tl_entry s); [right; lia|exact I].
  - repeat split; try lia. now left.
  - contradiction.
Qed.

Lemma tl_inv_run h : forall s, tl_inv s -> tl_no_touch h = true -> tl_inv (tl_run s h).
Proof.
  induction h as [|e h IH]; intros s Hi Hn; [exact Hi|].
  cbn [tl_no_touch forallb] in Hn. apply andb_true_iff in Hn as [He Hn].
  cbn [tl_run fold_left]. apply IH; [|exact Hn]. apply tl_inv_step; [exact Hi|].
  destruct e; try exact I. discriminate.
Qed.

Definition tl_init (c sz : N) : tl_state := mkTL 0 (c, sz, 0) None 0.

Lemma tl_shortcut_sound c sz h :
  tl_no_touch h = true ->
  tl_matches (tl_run (tl_init c sz) h) = true -> tl_same_content (tl_run (tl_init c sz) h) = true.
Proof.
  intros Hn Hm.
  assert (Hi : tl_inv (tl_run (tl_init c sz) h)).
  { apply tl_inv_run; [|exact Hn]. unfold tl_inv, tl_init; cbn. repeat split; lia. }
  destruct Hi as (_ & _ & H3). unfold tl_matches in Hm. unfold tl_same_content.
  destruct (tl_entry _) as [[[ec esz] emt]|]; [|discriminate].
  destruct (tl_file _) as [[fc fsz] fmt] eqn:EF. cbn [snd] in H3.
  destruct H3 as [H3|H3].
  - inversion H3; subst. apply N.eqb_refl.
  - exfalso. lia.
Qed.
