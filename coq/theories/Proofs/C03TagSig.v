(* Proofs/C03TagSig.v — tags: the signature go-git's Tag.Decode leaves in
   Tag.Signature (parseSignedBytes over the MESSAGE buffer) is the signature
   git's parse_signature extracts (parse_signed_buffer over the WHOLE object)
   whenever no header line starts a signature block (Spec/SigGuards.
   tag_marker_guard); a freshly decoded tag takes the raw-source path; hence
   go-git and git hand the same (payload, signature) pair to a verifier. *)
From Coq Require Import List NArith ZArith Bool Lia.
From GoGit Require Import Base.Out Model.ObjLines Model.Ident Model.Commit Model.Tag Model.SigPayload
     Spec.GitSig Spec.ObjWf Spec.SigGuards Proofs.ObjLinesFacts Proofs.C03Commit Proofs.C03Tag.
Import ListNotations.
Local Open Scope N_scope.

(* ---- valid line lists (what split_lines produces) ---- *)
Fixpoint abl (ls : list bytes) : bool :=       (* every line but the last ends with LF *)
  match ls with
  | [] => true
  | [_] => true
  | l :: r => ends_nl l && abl r
  end.

Lemma abl_cons l r : abl (l :: r) = true -> abl r = true /\ (r <> [] -> ends_nl l = true).
Proof.
  destruct r as [|l2 r]; [intros _; split; [reflexivity|intros H; contradiction]|].
  change (abl (l :: l2 :: r)) with (ends_nl l && abl (l2 :: r)). intros H. apply andb_true_iff in H as [H1 H2].
  split; [exact H2|intros _; exact H1].
Qed.

Lemma ends_nl_cons' c l : l <> [] -> ends_nl (c :: l) = ends_nl l.
Proof. destruct l; [contradiction|reflexivity]. Qed.

Lemma split_lines_abl' b : abl (split_lines b) = true.
Proof.
  induction b as [|c r IH]; [reflexivity|]. cbn [split_lines].
  pose proof (split_lines_ok r) as Hok.
  destruct (c =? LF) eqn:E.
  - destruct (split_lines r) as [|l ls]; [reflexivity|].
    change (abl ([c] :: l :: ls)) with (ends_nl [c] && abl (l :: ls)).
    rewrite IH. cbn. now rewrite E.
  - destruct (split_lines r) as [|l ls]; [reflexivity|].
    destruct ls as [|l2 ls]; [reflexivity|].
    change (abl ((c :: l) :: l2 :: ls)) with (ends_nl (c :: l) && abl (l2 :: ls)).
    change (abl (l :: l2 :: ls)) with (ends_nl l && abl (l2 :: ls)) in IH.
    inversion Hok as [|? ? [Hne _] _]; subst. now rewrite (ends_nl_cons' _ _ Hne).
Qed.

(* a valid line list is the splitting of its own concatenation *)
Lemma split_lines_concat_valid ls : Forall line_ok ls -> abl ls = true -> split_lines (List.concat ls) = ls.
Proof.
  induction ls as [|l r IH]; intros Hok Ha; [reflexivity|].
  inversion Hok as [|x0 y0 Hl Hr]. subst x0 y0.
  destruct (abl_cons _ _ Ha) as [Har Hen].
  destruct Hl as [Hne [p [Hp [-> | ->]]]].
  - cbn [List.concat]. rewrite <- app_assoc. cbn [app]. rewrite (split_lines_line _ _ Hp), (IH Hr Har). reflexivity.
  - destruct r as [|l2 r'].
    + cbn [List.concat]. rewrite app_nil_r. now apply split_lines_last.
    + specialize (Hen ltac:(discriminate)). rewrite (ends_nl_no_lf _ Hp) in Hen. discriminate.
Qed.

(* ---- header / body of an object given as lines ---- *)
Fixpoint body_lines (ls : list bytes) : list bytes :=
  match ls with
  | [] => []
  | l :: r => if first_is LF l then r else body_lines r
  end.

(* bytes up to and including the blank line *)
Fixpoint hdr_len (ls : list bytes) : nat :=
  match ls with
  | [] => 0
  | l :: r => if first_is LF l then List.length l else (List.length l + hdr_len r)%nat
  end.

Lemma body_lines_valid ls : Forall line_ok ls -> abl ls = true ->
  Forall line_ok (body_lines ls) /\ abl (body_lines ls) = true.
Proof.
  induction ls as [|l r IH]; intros Hok Ha; [split; [constructor|reflexivity]|].
  inversion Hok as [|x0 y0 Hl Hr]. subst x0 y0. destruct (abl_cons _ _ Ha) as [Har _].
  cbn [body_lines]. destruct (first_is LF l); [now split|now apply IH].
Qed.

Lemma skipn_add {A} (a b : nat) : forall l : list A, skipn (a + b) l = skipn b (skipn a l).
Proof.
  induction a as [|a IH]; intros l; [reflexivity|]. destruct l as [|x l]; [now rewrite !skipn_nil|]. cbn [Nat.add skipn]. apply IH.
Qed.

Lemma skipn_len_app {A} (x y : list A) : skipn (List.length x) (x ++ y) = y.
Proof. induction x as [|a x IH]; [reflexivity|]. exact IH. Qed.

Lemma skipn_hdr ls : skipn (hdr_len ls) (List.concat ls) = List.concat (body_lines ls).
Proof.
  induction ls as [|l r IH]; [reflexivity|]. cbn [hdr_len body_lines List.concat].
  destruct (first_is LF l); [apply skipn_len_app|].
  now rewrite skipn_add, skipn_len_app.
Qed.

(* ---- parseSignedBytes: only the body matters when no header line is a block start ---- *)
Lemma lf_not_sig_start l : first_is LF l = true -> is_sig_start l = false.
Proof. intros H. apply first_is_true in H as [r ->]. reflexivity. Qed.

Lemma psb_shift' p ls : forall q m,
  psb (p + q) (option_map (Nat.add p) m) ls = option_map (Nat.add p) (psb q m ls).
Proof.
  induction ls as [|l r IH]; intros q m; [reflexivity|]. cbn [psb].
  rewrite <- Nat.add_assoc, <- IH. f_equal. now destruct (is_sig_start l).
Qed.

Lemma psb_from' p ls : psb p None ls = option_map (Nat.add p) (psb 0 None ls).
Proof. pose proof (psb_shift' p ls 0 None) as H. cbn [option_map] in H. now rewrite Nat.add_0_r in H. Qed.

Lemma psb_header ls : forall pos,
  forallb (fun l => negb (is_sig_start l)) (header_of ls) = true ->
  psb pos None ls = psb (pos + hdr_len ls) None (body_lines ls).
Proof.
  induction ls as [|l r IH]; intros pos Hg.
  - cbn [psb hdr_len body_lines]. reflexivity.
  - cbn [psb hdr_len body_lines header_of] in *. destruct (first_is LF l) eqn:Elf.
    + now rewrite (lf_not_sig_start _ Elf).
    + cbn [forallb] in Hg. apply andb_true_iff in Hg as [H1 H2]. apply negb_true_iff in H1. rewrite H1.
      rewrite (IH _ H2). now rewrite Nat.add_assoc.
Qed.

(* ---- the tag scanner: Tag.Message ++ Tag.Signature is the body ---- *)
Lemma tstep_blank' st t l : st <> TMessage -> is_blank l = true -> tstep st t l = (t, TMessage).
Proof.
  intros Hst Hb.
  assert (Hsp : first_is SPC l = false).
  { destruct l as [|x [|y l]]; try discriminate. cbn in Hb. apply N.eqb_eq in Hb. now subst. }
  destruct st; cbn [tstep]; try contradiction; unfold on_theaders; try rewrite Hsp; now rewrite Hb.
Qed.

Lemma on_theaders_hdr t l t' st' : is_blank l = false -> on_theaders t l = (t', st') ->
  st' <> TMessage /\ t_msg t' = t_msg t /\ t_sig t' = t_sig t.
Proof.
  intros Hb. unfold on_theaders. rewrite Hb. destruct (split_header l) as [key data].
  destruct (beqb key k_gpgsig256); intros H; inversion H; subst; repeat split; try reflexivity; discriminate.
Qed.

Lemma tstep_hdr st t l t' st' : st <> TMessage -> is_blank l = false -> tstep st t l = (t', st') ->
  st' <> TMessage /\ t_msg t' = t_msg t /\ t_sig t' = t_sig t.
Proof.
  intros Hst Hb. destruct st; cbn [tstep]; try contradiction.
  - rewrite Hb. destruct (split_header l) as [key data] eqn:Es. destruct (beqb key k_tagger).
    + intros H; inversion H; subst. repeat split; try reflexivity; discriminate.
    + now apply on_theaders_hdr.
  - now apply on_theaders_hdr.
  - destruct (first_is SPC l).
    + intros H; inversion H; subst. repeat split; try reflexivity; discriminate.
    + now apply on_theaders_hdr.
Qed.

Lemma trun_message' ls : abl ls = true -> forall t,
  trun TMessage t ls = set_tmsg t (t_msg t ++ List.concat ls).
Proof.
  induction ls as [|l r IH]; intros Ha t.
  - cbn [trun List.concat]. rewrite app_nil_r. now destruct t.
  - cbn [trun tstep List.concat]. destruct r as [|l2 r].
    + cbn [List.concat trun]. rewrite app_nil_r. now destruct (ends_nl l).
    + destruct (abl_cons _ _ Ha) as [H2 H1]. rewrite (H1 ltac:(discriminate)), (IH H2).
      destruct t as [a b c d e f g]. unfold set_tmsg.
      cbn [t_target t_type t_name t_tagger t_sig256 t_msg t_sig]. now rewrite <- app_assoc.
Qed.

Lemma trun_body : forall ls st t0, st <> TMessage -> Forall line_ok ls -> abl ls = true ->
  t_msg (trun st t0 ls) = t_msg t0 ++ List.concat (body_lines ls) /\ t_sig (trun st t0 ls) = t_sig t0.
Proof.
  induction ls as [|l r IH]; intros st t0 Hst Hok Ha.
  - cbn [trun body_lines List.concat]. now rewrite app_nil_r.
  - inversion Hok as [|x0 y0 Hl Hr]. subst x0 y0. destruct (abl_cons _ _ Ha) as [Har Hen].
    cbn [trun body_lines]. rewrite (first_is_lf_blank _ Hl).
    destruct (is_blank l) eqn:Hb.
    + rewrite (tstep_blank' _ _ _ Hst Hb).
      assert (Een : ends_nl l = true) by (destruct l as [|x [|y l']]; try discriminate; exact Hb).
      rewrite Een, (trun_message' _ Har). destruct t0; split; reflexivity.
    + destruct (tstep st t0 l) as [t' st'] eqn:Es.
      destruct (tstep_hdr _ _ _ _ _ Hst Hb Es) as [Hst' [Hm Hs]].
      destruct (ends_nl l) eqn:Een.
      * destruct (IH st' t' Hst' Hr Har) as [I1 I2]. now rewrite I1, I2, Hm, Hs.
      * destruct r as [|l2 r']; [|specialize (Hen ltac:(discriminate)); discriminate].
        cbn [body_lines List.concat]. now rewrite app_nil_r.
Qed.

Lemma need_header_inv key ls stop k t : need_header key ls stop k = Ok t ->
  exists l r d, ls = l :: r /\ is_blank l = false /\
    ((ends_nl l = true /\ k d r = Ok t) \/ (ends_nl l = false /\ stop d = Ok t)).
Proof.
  unfold need_header. destruct ls as [|l r]; [discriminate|]. destruct (is_blank l) eqn:Hb; [discriminate|].
  destruct (split_header l) as [kk data]. destruct (negb (beqb kk key)); [discriminate|].
  intros H. exists l, r, data. split; [reflexivity|]. split; [exact Hb|].
  destruct (ends_nl l); [left|right]; now split.
Qed.

Lemma split_tag_sig_init h ty nm : split_tag_sig (tag_init h ty nm) = tag_init h ty nm.
Proof. reflexivity. Qed.

(* the decoded tag is the scanner's result split at the last block start of its message buffer *)
Lemma decode_tag_body ls t : Forall line_ok ls -> abl ls = true -> decode_tag_lines ls = Ok t ->
  exists t0, t = split_tag_sig t0 /\ t_msg t0 = List.concat (body_lines ls) /\ t_sig t0 = [].
Proof.
  intros Hok Ha Hd. unfold decode_tag_lines in Hd.
  assert (Step : forall l r, Forall line_ok (l :: r) -> abl (l :: r) = true -> is_blank l = false ->
            Forall line_ok r /\ abl r = true /\ body_lines (l :: r) = body_lines r /\ (ends_nl l = false -> r = [])).
  { intros l r Hk Hb Hbl. inversion Hk as [|x0 y0 Hl Hr]. subst x0 y0. destruct (abl_cons _ _ Hb) as [Hbr Hen].
    repeat split; try assumption.
    - cbn [body_lines]. now rewrite (first_is_lf_blank _ Hl), Hbl.
    - intros E. destruct r as [|l2 r']; [reflexivity|]. specialize (Hen ltac:(discriminate)). congruence. }
  assert (Stop : forall h ty nm, exists t0, tag_init h ty nm = split_tag_sig t0 /\ t_msg t0 = [] /\ t_sig t0 = []).
  { intros h ty nm. exists (tag_init h ty nm). now rewrite split_tag_sig_init. }
  apply need_header_inv in Hd as [l1 [r1 [d1 [-> [B1 Hd]]]]].
  destruct (Step _ _ Hok Ha B1) as [Hok1 [Ha1 [E1 Z1]]]. rewrite E1.
  destruct Hd as [[N1 Hd]|[N1 Hd]].
  2:{ rewrite (Z1 N1). destruct (parse_oid d1); [|discriminate]. inversion Hd. apply Stop. }
  destruct (parse_oid d1) as [h|]; [|discriminate].
  apply need_header_inv in Hd as [l2 [r2 [d2 [-> [B2 Hd]]]]].
  destruct (Step _ _ Hok1 Ha1 B2) as [Hok2 [Ha2 [E2 Z2]]]. rewrite E2.
  destruct Hd as [[N2 Hd]|[N2 Hd]].
  2:{ rewrite (Z2 N2). destruct (valid_type d2); [|discriminate]. inversion Hd. apply Stop. }
  destruct (negb (valid_type d2)); [discriminate|].
  apply need_header_inv in Hd as [l3 [r3 [d3 [-> [B3 Hd]]]]].
  destruct (Step _ _ Hok2 Ha2 B3) as [Hok3 [Ha3 [E3 Z3]]]. rewrite E3.
  destruct Hd as [[N3 Hd]|[N3 Hd]].
  2:{ rewrite (Z3 N3). inversion Hd. apply Stop. }
  inversion Hd. eexists. split; [reflexivity|].
  destruct (trun_body r3 TTagger (tag_init h d2 d3) ltac:(discriminate) Hok3 Ha3) as [M S]. split; [exact M|exact S].
Qed.

(* ---- Tag.Signature is git's signature ---- *)
Theorem tag_sig_eq : forall raw t,
  decode_tag raw = Ok t -> tag_marker_guard raw = true ->
  t_sig t = match parse_signed_bytes raw with Some m => skipn m raw | None => [] end.
Proof.
  intros raw t Hd Hg. unfold decode_tag in Hd. unfold tag_marker_guard in Hg.
  pose proof (split_lines_ok raw) as Hok. pose proof (split_lines_abl' raw) as Ha.
  pose proof (concat_split_lines raw) as Hc.
  unfold parse_signed_bytes at 1.
  set (ls := split_lines raw) in *.
  destruct (decode_tag_body _ _ Hok Ha Hd) as [t0 [-> [Hm Hs]]].
  destruct (body_lines_valid _ Hok Ha) as [Bok Ba].
  rewrite (psb_header _ 0 Hg), psb_from'. cbn [Nat.add].
  unfold split_tag_sig, parse_signed_bytes. rewrite Hm, (split_lines_concat_valid _ Bok Ba).
  destruct (psb 0 None (body_lines ls)) as [m'|]; cbn [option_map t_sig].
  - rewrite <- Hc, skipn_add, skipn_hdr. reflexivity.
  - exact Hs.
Qed.

(* ---- a freshly decoded tag takes the raw-source path ---- *)
Lemma tag_fields_eqb_refl t : tag_fields_eqb t t = true.
Proof. unfold tag_fields_eqb. now rewrite !beqb_refl, ident_eqb_refl. Qed.

Theorem tag_matches_source_fresh : forall raw t,
  decode_tag raw = Ok t -> tag_matches_source raw true t = true.
Proof. intros raw t H. unfold tag_matches_source. rewrite H. cbn [andb]. apply tag_fields_eqb_refl. Qed.

Theorem tag_payload_fresh : forall raw t,
  decode_tag raw = Ok t -> tag_payload raw true t = strip_tag raw.
Proof. intros raw t H. unfold tag_payload. now rewrite (tag_matches_source_fresh _ _ H). Qed.

(* ---- same (payload, signature) pair as git ---- *)
Theorem tag_pair_eq : forall raw t m,
  decode_tag raw = Ok t -> parse_signed_bytes raw = Some m ->
  tag_sig_guard raw = true -> tag_marker_guard raw = true ->
  git_tag_payload raw = Some (Some (tag_payload raw true t, t_sig t)).
Proof.
  intros raw t m Hd Hm Hg Hk. rewrite (tag_payload_fresh _ _ Hd), (tag_sig_eq _ _ Hd Hk), Hm.
  unfold tag_sig_guard in Hg. rewrite Hm in Hg.
  unfold git_tag_payload, strip_tag. now rewrite Hm, (strip_eq_remove_signature _ Hg).
Qed.

Theorem tag_nosig : forall raw t,
  decode_tag raw = Ok t -> parse_signed_bytes raw = None -> tag_marker_guard raw = true ->
  git_tag_payload raw = None /\ t_sig t = [].
Proof.
  intros raw t Hd Hm Hk. split; [unfold git_tag_payload; now rewrite Hm|].
  now rewrite (tag_sig_eq _ _ Hd Hk), Hm.
Qed.
