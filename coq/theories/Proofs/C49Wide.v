(* Proofs/C49Wide.v — ignore files whose lines are all in a fragment of
   coherent patterns give the same verdict in go-git and in git, for every
   path none of whose ancestor directories is re-included by a negation.
   Generic in the per-line fragment (Section), instantiated in C49Frag.v. *)
From Coq Require Import List NArith Bool Lia PeanoNat.
From GoGit Require Import Base.Out Model.Gitignore Spec.Glob Spec.GitIgnore
     Proofs.C49Total Proofs.C49Wild Proofs.C49Git Proofs.C49Trim Proofs.C49Names Proofs.C49Walk
     Proofs.C49Lines.
Import ListNotations.
Local Open Scope N_scope.

Definition is_comment (l : bytes) : bool := match l with c :: _ => c =? cHASH | [] => false end.

(* ------------------------------------------------------------------ *)
(* the root ignore file is in go-git's scope twice                     *)

Lemma mres_rev_app u v path d :
  mres_rev (u ++ v) path d = match mres_rev u path d with NoMatch => mres_rev v path d | r => r end.
Proof.
  induction u as [|p u IH]; cbn [app mres_rev]; [reflexivity|].
  destruct (pat_match p path d); [exact IH|reflexivity|reflexivity].
Qed.

Lemma decision_dup a f b path d : decision (a ++ f ++ f ++ b) path d = decision (a ++ f ++ b) path d.
Proof.
  unfold decision. rewrite !rev_app_distr. rewrite <- !app_assoc.
  rewrite !(mres_rev_app (rev b)). destruct (mres_rev (rev b) path d); try reflexivity.
  rewrite !(mres_rev_app (rev f)). destruct (mres_rev (rev f) path d); reflexivity.
Qed.

Lemma gw_dup fs a f path isdir : forall rest pre b,
  gw fs (a ++ f ++ f ++ b) pre rest path isdir = gw fs (a ++ f ++ b) pre rest path isdir.
Proof.
  induction rest as [|e rest IH]; intros pre b; [reflexivity|].
  destruct rest as [|e2 r].
  - cbn [gw]. rewrite !matcher_decision. rewrite <- !app_assoc. now rewrite decision_dup.
  - change (gw fs ?ps pre (e :: e2 :: r) path isdir)
      with (if matcher_match (ps ++ go_file fs pre) (pre ++ [e]) true then true
            else gw fs (ps ++ go_file fs pre) (pre ++ [e]) (e2 :: r) path isdir).
    rewrite !matcher_decision. rewrite <- !app_assoc. rewrite decision_dup.
    destruct (decision _ _ _); try reflexivity; apply IH.
Qed.

Lemma gw_root_dup fs a path isdir rest :
  gw fs (a ++ go_file fs []) [] rest path isdir = gw fs a [] rest path isdir.
Proof.
  set (F := go_file fs []).
  assert (Hd : forall pa d, decision ((a ++ F) ++ F) pa d = decision (a ++ F) pa d).
  { intros pa d. pose proof (decision_dup a F [] pa d) as H. rewrite !app_nil_r in H.
    rewrite <- app_assoc. exact H. }
  destruct rest as [|e [|e2 r]]; [reflexivity| |].
  - cbn [gw]. fold F. rewrite !matcher_decision. now rewrite Hd.
  - change (gw fs ?ps [] (e :: e2 :: r) path isdir)
      with (if matcher_match (ps ++ F) ([] ++ [e]) true then true
            else gw fs (ps ++ F) ([] ++ [e]) (e2 :: r) path isdir).
    rewrite !matcher_decision, Hd.
    pose proof (gw_dup fs a F path isdir (e2 :: r) ([] ++ [e]) []) as H.
    rewrite !app_nil_r in H. rewrite <- app_assoc. rewrite H.
    reflexivity.
Qed.

(* ------------------------------------------------------------------ *)
Section Fragment.

Variable okline : bytes -> bool.
Hypothesis okline_coh : forall l dir, nospace l -> okline l = true -> l <> [] -> is_comment l = false ->
  coh (parse_pattern l dir) (gparse l dir) /\ p_dom (parse_pattern l dir) = dir.

(* no CR, no byte order mark; every line is empty, a comment (anything but CR
   after the "#"), or a line of the fragment without any blank (nothing to trim) *)
Definition content_okw (c : bytes) : bool :=
  forallb (fun b => negb (b =? cCR)) c &&
  negb (match c with b :: _ => b =? 239 | [] => false end) &&
  forallb (fun l => is_nil l || is_comment l || (forallb (fun b => negb (is_space b)) l && okline l)) (split_lf c []).

Definition wide_casew (excl : option bytes) (fs : files) : bool :=
  match excl with Some c => content_okw c | None => true end &&
  forallb (fun f => content_okw (snd f)) fs.

Lemma content_linesw c : content_okw c = true ->
  strip_bom_first (split_lf c []) = split_lf c [] /\
  scan_lines c [] = split_lf c [] /\ skip_bom c = c /\
  forall l, In l (split_lf c []) -> is_nil l = true \/ is_comment l = true \/ (nospace l /\ okline l = true).
Proof.
  unfold content_okw. rewrite !andb_true_iff. intros [[Hsp Hbom] Hnl].
  rewrite forallb_forall in Hsp. rewrite forallb_forall in Hnl.
  assert (Hcr : forall x, In x c -> (x =? cCR) = false).
  { intros x Hx. specialize (Hsp _ Hx). now apply negb_true_iff in Hsp. }
  split; [apply strip_bom_first_id; now apply negb_true_iff in Hbom|].
  split; [apply scan_eq_split; [assumption|intros x []]|].
  split.
  { unfold skip_bom. destruct c as [|b [|b2 [|b3 r3]]]; try reflexivity.
    apply negb_true_iff in Hbom. now rewrite Hbom. }
  intros l Hl. specialize (Hnl _ Hl). rewrite !orb_true_iff in Hnl.
  destruct Hnl as [[H|H]|H]; [now left|right; now left|]. right. right.
  apply andb_true_iff in H. destruct H as [H1 H2]. split; [|exact H2].
  rewrite forallb_forall in H1. intros x Hx. specialize (H1 _ Hx). now apply negb_true_iff in H1.
Qed.

Lemma file_cohw c dir : content_okw c = true ->
  Forall2 (fun p g => coh p g /\ p_dom p = dir) (read_ignore c dir) (gread c dir).
Proof.
  intros Hc. destruct (content_linesw _ Hc) as (E0 & E1 & E2 & Hl).
  unfold read_ignore, gread. rewrite E1, E0, E2. clear E0 E1 E2.
  revert Hl. generalize (split_lf c []). intros L.
  induction L as [|l ls IH]; intros Hl; [constructor|].
  assert (Hl0 := Hl l (or_introl eq_refl)).
  assert (IH' := IH (fun l0 H => Hl l0 (or_intror H))).
  cbn [filter map flat_map].
  destruct l as [|c0 r0] eqn:El.
  - cbn. exact IH'.
  - destruct (c0 =? cHASH) eqn:Eh.
    + (* a comment: dropped by both readers whatever it holds *)
      unfold keep_line, gline. rewrite Eh. cbn [negb andb app]. exact IH'.
    + destruct Hl0 as [H|[H|[Hns Hok]]]; [discriminate|cbn in H; congruence|].
      rewrite keep_line_name by (assumption || discriminate).
      rewrite gline_name by (assumption || discriminate).
      rewrite Eh. cbn [negb map app].
      constructor; [|exact IH'].
      apply okline_coh; try assumption; try discriminate.
Qed.

Lemma wide_casew_ok excl fs : wide_casew excl fs = true ->
  (forall dir c, file_at fs dir = Some c -> content_okw c = true) /\
  (forall c, excl = Some c -> content_okw c = true).
Proof.
  unfold wide_casew. rewrite andb_true_iff. intros [He Hf]. split.
  - intros dir c H. rewrite forallb_forall in Hf.
    induction fs as [|[d0 c0] r IH]; [discriminate|]. cbn [file_at] in H.
    destruct (path_eqb d0 dir).
    + inversion H; subst. exact (Hf (d0, c) (or_introl eq_refl)).
    + apply IH; [|exact H]. intros x Hx. apply Hf. now right.
  - intros c ->. exact He.
Qed.

Theorem wide_eq_gitw excl fs path isdir :
  wide_casew excl fs = true -> path_ok path = true ->
  no_reincluded_ancestor excl fs path = true ->
  ignored excl fs path isdir = git_ignored excl fs path isdir.
Proof.
  intros Hn Hok Hanc. destruct (wide_casew_ok _ _ Hn) as [Hfok Hex].
  unfold ignored, git_ignored.
  destruct path as [|e0 rest0] eqn:Ep.
  { cbn [walk]. unfold scope_match. cbn [sc_excluded sc_pats]. rewrite matcher_nil.
    rewrite gwalk_unfold. reflexivity. }
  rewrite <- Ep in *.
  rewrite go_phase; [|rewrite Ep; discriminate|reflexivity|apply matcher_nil].
  cbn [sc_pats].
  set (ge := match excl with Some c => gread c [] | None => [] end).
  assert (Hroot : root_patterns excl fs = excl_pats excl ++ go_file fs []) by reflexivity.
  rewrite Hroot.
  (* the root file is read again on entering the root directory *)
  rewrite gw_root_dup.
  apply wide_walk; try assumption.
  - intros pre. unfold go_file, git_file. destruct (file_at fs pre) as [c|] eqn:E; [|constructor].
    apply file_cohw. eapply Hfok; eassumption.
  - reflexivity.
  - unfold excl_pats, ge. destruct excl as [c|]; [|constructor].
    pose proof (file_cohw c [] (Hex _ eq_refl)) as HF.
    induction HF as [|p g l1 l2 [Hc Hd] _ IHf]; constructor; [|exact IHf].
    split; [exact Hc|]. split.
    + exists []. now rewrite Hd.
    + intros k Hk. cbn in Hk. lia.
Qed.

End Fragment.
