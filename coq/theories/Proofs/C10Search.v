(* Proofs/C10Search.v — the four binary searches of the index readers
   (Model/Idx.v: bs_while, bs_do, lower_bound, bs_closed) against a monotone
   probe: they never run out of the fuel the model gives them, they never
   probe outside [lo,hi), and they find the position iff one exists. *)
From Coq Require Import List NArith ZArith Bool Lia ZifyBool ZifyNat ZifyN.
From GoGit Require Import Base.Out Model.PackBytes Model.Idx.
Import ListNotations.
Local Open Scope N_scope.

Ltac Zify.zify_post_hook ::= Z.div_mod_to_equations.

(* the probe compares the target with element i of a sorted sequence:
   once the target is below an element it is below all later ones, and
   once above an element it is above all earlier ones *)
Definition mono (probe : N -> option comparison) (lo hi : N) : Prop :=
  forall i j, lo <= i -> i <= j -> j < hi ->
    (probe i = Some Lt -> probe j = Some Lt) /\ (probe j = Some Gt -> probe i = Some Gt).

Definition total (probe : N -> option comparison) (lo hi : N) : Prop :=
  forall i, lo <= i -> i < hi -> probe i <> None.

Lemma mono_sub probe lo hi lo' hi' :
  mono probe lo hi -> lo <= lo' -> hi' <= hi -> mono probe lo' hi'.
Proof. intros M H1 H2 i j Hi Hij Hj. apply M; lia. Qed.

Lemma total_sub probe lo hi lo' hi' :
  total probe lo hi -> lo <= lo' -> hi' <= hi -> total probe lo' hi'.
Proof. intros T H1 H2 i Hi Hj. apply T; lia. Qed.

Lemma pow2_succ f : 2 ^ N.of_nat (S f) = 2 * 2 ^ N.of_nat f.
Proof. rewrite Nat2N.inj_succ, N.pow_succ_r'. reflexivity. Qed.

Lemma size_bound n : n < 2 ^ N.of_nat (N.to_nat (N.size n)).
Proof. rewrite N2Nat.id. apply N.size_gt. Qed.

(* ---------------------------------------------------------------- bs_while *)

Definition search_spec (probe : N -> option comparison) (lo hi : N) (r : sres) : Prop :=
  match r with
  | Found i => lo <= i < hi /\ probe i = Some Eq
  | NotFound => forall i, lo <= i -> i < hi -> probe i <> Some Eq
  | SErr => False
  | OutOfFuel => False
  end.

Lemma bs_while_spec probe : forall f lo hi,
  hi - lo < 2 ^ N.of_nat f -> mono probe lo hi -> total probe lo hi ->
  search_spec probe lo hi (bs_while (S f) probe lo hi).
Proof.
  induction f as [|f IH]; intros lo hi Hw M T.
  - cbn [bs_while]. change (2 ^ N.of_nat 0) with 1 in Hw.
    destruct (lo <? hi) eqn:E; [lia|]. cbn. intros; lia.
  - rewrite pow2_succ in Hw.
    change (bs_while (S (S f)) probe lo hi) with
      (if lo <? hi then
         let mid := (lo + hi) / 2 in
         match probe mid with
         | None => SErr
         | Some Lt => bs_while (S f) probe lo mid
         | Some Gt => bs_while (S f) probe (mid + 1) hi
         | Some Eq => Found mid
         end
       else NotFound).
    destruct (lo <? hi) eqn:E; [|cbn; intros; lia].
    cbv zeta. set (mid := (lo + hi) / 2).
    assert (Hm : lo <= mid < hi) by (unfold mid; lia).
    destruct (probe mid) as [[| |]|] eqn:P.
    + cbn. split; [lia|assumption].
    + assert (S1 : search_spec probe lo mid (bs_while (S f) probe lo mid)).
      { apply IH; [unfold mid; lia|eapply mono_sub; eauto; lia|eapply total_sub; eauto; lia]. }
      destruct (bs_while (S f) probe lo mid); cbn in *; try assumption.
      * destruct S1 as [? ?]. split; [lia|assumption].
      * intros i Hi Hj. destruct (N.lt_ge_cases i mid) as [L|G]; [now apply S1|].
        destruct (M mid i) as [ML _]; try lia. rewrite (ML P). discriminate.
    + assert (S1 : search_spec probe (mid + 1) hi (bs_while (S f) probe (mid + 1) hi)).
      { apply IH; [unfold mid; lia|eapply mono_sub; eauto; lia|eapply total_sub; eauto; lia]. }
      destruct (bs_while (S f) probe (mid + 1) hi); cbn in *; try assumption.
      * destruct S1 as [? ?]. split; [lia|assumption].
      * intros i Hi Hj. destruct (N.lt_ge_cases mid i) as [L|G]; [apply S1; lia|].
        destruct (M i mid) as [_ MG]; try lia. rewrite (MG P). discriminate.
    + exfalso. apply (T mid); [lia|lia|assumption].
Qed.

Lemma bs_while_fuel probe lo hi :
  mono probe lo hi -> total probe lo hi ->
  search_spec probe lo hi (bs_while (bs_fuel lo hi) probe lo hi).
Proof. intros. unfold bs_fuel. apply bs_while_spec; auto. apply size_bound. Qed.

(* ------------------------------------------------------------------- bs_do *)

Lemma bs_do_spec probe : forall f lo hi,
  lo < hi -> hi - lo < 2 ^ N.of_nat (S f) -> mono probe lo hi -> total probe lo hi ->
  search_spec probe lo hi (bs_do (S f) probe lo hi).
Proof.
  induction f as [|f IH]; intros lo hi Hlt Hw M T.
  - change (2 ^ N.of_nat 1) with 2 in Hw. assert (hi = lo + 1) by lia. subst hi.
    cbn [bs_do]. replace ((lo + (lo + 1)) / 2) with lo by lia.
    destruct (probe lo) as [[| |]|] eqn:P.
    + cbn. split; [lia|assumption].
    + replace (lo <? lo) with false by lia. cbn. intros i Hi Hj. assert (i = lo) by lia. subst. rewrite P. discriminate.
    + replace (lo + 1 <? lo + 1) with false by lia. cbn. intros i Hi Hj. assert (i = lo) by lia. subst. rewrite P. discriminate.
    + exfalso. apply (T lo); [lia|lia|assumption].
  - rewrite pow2_succ in Hw.
    change (bs_do (S (S f)) probe lo hi) with
      (let mid := (lo + hi) / 2 in
       match probe mid with
       | None => SErr
       | Some Lt => if lo <? mid then bs_do (S f) probe lo mid else NotFound
       | Some Eq => Found mid
       | Some Gt => if mid + 1 <? hi then bs_do (S f) probe (mid + 1) hi else NotFound
       end).
    cbv zeta. set (mid := (lo + hi) / 2).
    assert (Hm : lo <= mid < hi) by (unfold mid; lia).
    destruct (probe mid) as [[| |]|] eqn:P.
    + cbn. split; [lia|assumption].
    + destruct (lo <? mid) eqn:E.
      * assert (S1 : search_spec probe lo mid (bs_do (S f) probe lo mid)).
        { apply IH; [lia|unfold mid; lia|eapply mono_sub; eauto; lia|eapply total_sub; eauto; lia]. }
        destruct (bs_do (S f) probe lo mid); cbn in *; try assumption.
        -- destruct S1 as [? ?]. split; [lia|assumption].
        -- intros i Hi Hj. destruct (N.lt_ge_cases i mid) as [L|G]; [now apply S1|].
           destruct (M mid i) as [ML _]; try lia. rewrite (ML P). discriminate.
      * cbn. intros i Hi Hj. destruct (M mid i) as [ML _]; try lia. rewrite (ML P). discriminate.
    + destruct (mid + 1 <? hi) eqn:E.
      * assert (S1 : search_spec probe (mid + 1) hi (bs_do (S f) probe (mid + 1) hi)).
        { apply IH; [lia|unfold mid; lia|eapply mono_sub; eauto; lia|eapply total_sub; eauto; lia]. }
        destruct (bs_do (S f) probe (mid + 1) hi); cbn in *; try assumption.
        -- destruct S1 as [? ?]. split; [lia|assumption].
        -- intros i Hi Hj. destruct (N.lt_ge_cases mid i) as [L|G]; [apply S1; lia|].
           destruct (M i mid) as [_ MG]; try lia. rewrite (MG P). discriminate.
      * cbn. intros i Hi Hj. destruct (M i mid) as [_ MG]; try lia. rewrite (MG P). discriminate.
    + exfalso. apply (T mid); [lia|lia|assumption].
Qed.

Lemma bs_do_fuel probe hi :
  0 < hi -> mono probe 0 hi -> total probe 0 hi ->
  search_spec probe 0 hi (bs_do (bs_fuel 0 hi) probe 0 hi).
Proof.
  intros Hp M T. unfold bs_fuel. replace (hi - 0) with hi by lia.
  assert (B := size_bound hi).
  destruct (N.to_nat (N.size hi)) as [|f] eqn:E.
  - exfalso. change (2 ^ N.of_nat 0) with 1 in B. lia.
  - apply bs_do_spec; auto. rewrite !pow2_succ in *. remember (2 ^ N.of_nat f) as p. lia.
Qed.

(* ------------------------------------------------------------- lower_bound *)

(* [below] is monotone: true up to a cut, false from it on *)
Definition bmono (below : N -> option bool) (lo hi : N) : Prop :=
  forall i j, lo <= i -> i <= j -> j < hi -> below j = Some true -> below i = Some true.
Definition btotal (below : N -> option bool) (lo hi : N) : Prop :=
  forall i, lo <= i -> i < hi -> below i <> None.

Definition lb_spec (below : N -> option bool) (lo hi : N) (r : sres) : Prop :=
  match r with
  | Found k => lo <= k <= hi /\ (forall i, lo <= i -> i < k -> below i = Some true)
               /\ (forall i, k <= i -> i < hi -> below i = Some false)
  | _ => False
  end.

Lemma lower_bound_spec below : forall f lo hi,
  lo <= hi -> hi - lo < 2 ^ N.of_nat f -> bmono below lo hi -> btotal below lo hi ->
  lb_spec below lo hi (lower_bound (S f) below lo hi).
Proof.
  induction f as [|f IH]; intros lo hi Hle Hw M T.
  - cbn [lower_bound]. change (2 ^ N.of_nat 0) with 1 in Hw.
    destruct (lo <? hi) eqn:E; [lia|]. cbn. repeat split; try lia; intros; lia.
  - rewrite pow2_succ in Hw.
    change (lower_bound (S (S f)) below lo hi) with
      (if lo <? hi then
         let mid := (lo + hi) / 2 in
         match below mid with
         | None => SErr
         | Some true => lower_bound (S f) below (mid + 1) hi
         | Some false => lower_bound (S f) below lo mid
         end
       else Found lo).
    destruct (lo <? hi) eqn:E; [|cbn; repeat split; try lia; intros; lia].
    cbv zeta. set (mid := (lo + hi) / 2).
    assert (Hm : lo <= mid < hi) by (unfold mid; lia).
    destruct (below mid) as [[|]|] eqn:P.
    + assert (S1 : lb_spec below (mid + 1) hi (lower_bound (S f) below (mid + 1) hi)).
      { apply IH; [lia|unfold mid; lia| |].
        - intros i j Hi Hij Hj. apply M; lia.
        - intros i Hi Hj. apply T; lia. }
      destruct (lower_bound (S f) below (mid + 1) hi); cbn in *; try assumption.
      destruct S1 as (R & A & B). repeat split; try lia.
      * intros j Hj1 Hj2. destruct (N.le_gt_cases j mid) as [L|G]; [apply (M j mid); try lia; assumption|apply A; lia].
      * assumption.
    + assert (S1 : lb_spec below lo mid (lower_bound (S f) below lo mid)).
      { apply IH; [lia|unfold mid; lia| |].
        - intros i j Hi Hij Hj. apply M; lia.
        - intros i Hi Hj. apply T; lia. }
      destruct (lower_bound (S f) below lo mid); cbn in *; try assumption.
      destruct S1 as (R & A & B). repeat split; try lia.
      * assumption.
      * intros j Hj1 Hj2. destruct (N.lt_ge_cases j mid) as [L|G]; [apply B; lia|].
        destruct (below j) as [[|]|] eqn:Pj; [|reflexivity|exfalso; apply (T j); try lia; assumption].
        assert (below mid = Some true) by (apply (M mid j); try lia; assumption). congruence.
    + exfalso. apply (T mid); [lia|lia|assumption].
Qed.

Lemma lower_bound_fuel below lo hi :
  lo <= hi -> bmono below lo hi -> btotal below lo hi ->
  lb_spec below lo hi (lower_bound (bs_fuel lo hi) below lo hi).
Proof. intros. unfold bs_fuel. apply lower_bound_spec; auto. apply size_bound. Qed.
