(* Proofs/C44_rename.v — rename detection conserves changes, for every score oracle:
   the From sides and the To sides of the result are permutations of those of the input, and every
   reported change is an input change or joins the From of an input deletion with the To of an
   input insertion. *)
From Coq Require Import List NArith Bool Arith Lia Permutation.
From GoGit Require Import Base.Out Model.DiffTree.
Import ListNotations.

(* ---------- froms / tos *)
Lemma froms_app a b : froms (a ++ b) = froms a ++ froms b.
Proof. apply flat_map_app. Qed.
Lemma tos_app a b : tos (a ++ b) = tos a ++ tos b.
Proof. apply flat_map_app. Qed.

Lemma perm_flat_map {A B} (f : A -> list B) l l' : Permutation l l' -> Permutation (flat_map f l) (flat_map f l').
Proof.
  induction 1; cbn; auto.
  - now apply Permutation_app_head.
  - rewrite !app_assoc. apply Permutation_app_tail. apply Permutation_app_comm.
  - etransitivity; eauto.
Qed.
Lemma froms_perm l l' : Permutation l l' -> Permutation (froms l) (froms l').
Proof. apply perm_flat_map. Qed.
Lemma tos_perm l l' : Permutation l l' -> Permutation (tos l) (tos l').
Proof. apply perm_flat_map. Qed.

Lemma froms_cons c l : froms (c :: l) = (match fst c with Some e => [e] | None => [] end) ++ froms l.
Proof. reflexivity. Qed.
Lemma tos_cons c l : tos (c :: l) = (match snd c with Some e => [e] | None => [] end) ++ tos l.
Proof. reflexivity. Qed.
Lemma froms_ins l : Forall (fun c => is_ins c = true) l -> froms l = [].
Proof.
  induction 1 as [|c l Hc _ IH]; [reflexivity|]. rewrite froms_cons, IH.
  destruct c as [[f|] [t|]]; cbn in *; try discriminate; reflexivity.
Qed.
Lemma tos_del l : Forall (fun c => is_del c = true) l -> tos l = [].
Proof.
  induction 1 as [|c l Hc _ IH]; [reflexivity|]. rewrite tos_cons, IH.
  destruct c as [[f|] [t|]]; cbn in *; try discriminate; reflexivity.
Qed.

Definition mk (p : chg * chg) : chg := (fst (fst p), snd (snd p)).   (* p = (deletion, insertion) *)

Lemma froms_mk ps : froms (map mk ps) = froms (map fst ps).
Proof. induction ps as [|[d a] ps IH]; [reflexivity|]. cbn [map]. now rewrite !froms_cons, IH. Qed.
Lemma tos_mk ps : tos (map mk ps) = tos (map snd ps).
Proof. induction ps as [|[d a] ps IH]; [reflexivity|]. cbn [map]. now rewrite !tos_cons, IH. Qed.

(* permutations of concatenations of the same atoms: normalise, peel equal heads, rotate otherwise *)
Ltac perm_cons :=
  repeat match goal with
         | |- context [?x :: ?l] => lazymatch l with [] => fail | _ => change (x :: l) with ([x] ++ l) end
         end.
Ltac perm_norm := perm_cons; repeat rewrite <- app_assoc; repeat rewrite app_nil_r; repeat rewrite app_nil_l.
Ltac perm_go n :=
  perm_norm;
  first [ reflexivity
        | apply Permutation_app_head; perm_go 12
        | lazymatch n with
          | S ?m => (etransitivity; [|apply Permutation_app_comm]); perm_go m
          end ].
Ltac perm := perm_go 12.

Lemma perm_rot {A} (x y z : list A) : Permutation ((x ++ y) ++ z) (y ++ z ++ x).
Proof. rewrite <- app_assoc. etransitivity; [apply Permutation_app_comm|]. now rewrite <- app_assoc. Qed.

(* ---------- list surgery *)
Lemma remove_nth_perm {A} (l : list A) i x : nth_error l i = Some x -> Permutation l (x :: remove_nth i l).
Proof.
  revert i; induction l as [|y l IH]; intros [|i] H; cbn in *; try discriminate.
  - inversion H; subst. reflexivity.
  - etransitivity; [apply perm_skip, IH, H|]. apply perm_swap.
Qed.

Lemma compact_map_some {A} (l : list A) : compact (map Some l) = l.
Proof. induction l; cbn; congruence. Qed.

Lemma set_none_perm {A} (l : list (option A)) i x :
  nth_opt i l = Some x -> Permutation (compact l) (x :: compact (set_none i l)).
Proof.
  unfold nth_opt. revert i; induction l as [|y l IH]; intros [|i] H; cbn in *; try discriminate.
  - destruct y; inversion H; subst. reflexivity.
  - specialize (IH i H). destruct y; cbn; [|exact IH].
    etransitivity; [apply perm_skip, IH|]. apply perm_swap.
Qed.

(* ---------- the claim loop takes disjoint (deletion, insertion) pairs *)
Lemma claim_spec pairs : forall dels adds acc acc' dels' adds',
  claim pairs dels adds acc = (acc', dels', adds') ->
  exists ps, acc' = acc ++ map mk ps /\
             Permutation (compact dels) (map fst ps ++ compact dels') /\
             Permutation (compact adds) (map snd ps ++ compact adds').
Proof.
  induction pairs as [|[di ai] r IH]; intros dels adds acc acc' dels' adds' H; cbn in H.
  - inversion H; subst. exists []. cbn. rewrite app_nil_r. auto.
  - destruct (nth_opt di dels) as [d|] eqn:Hd; [destruct (nth_opt ai adds) as [a|] eqn:Ha|].
    + destruct (IH _ _ _ _ _ _ H) as (ps & -> & Hpd & Hpa).
      exists ((d, a) :: ps). split; [rewrite <- app_assoc; reflexivity|]. cbn. split.
      * etransitivity; [apply set_none_perm, Hd|]. now apply perm_skip.
      * etransitivity; [apply set_none_perm, Ha|]. now apply perm_skip.
    + eauto.
    + eauto.
Qed.

(* ---------- groups *)
Lemma group_add_perm h c g : Permutation (flat_map snd (group_add h c g)) (c :: flat_map snd g).
Proof.
  induction g as [|[h' cs] r IH]; cbn; [reflexivity|].
  destruct (bytes_eqb h h'); cbn.
  - rewrite <- app_assoc. cbn. symmetry. apply Permutation_middle.
  - etransitivity; [apply Permutation_app_head, IH|]. symmetry. apply Permutation_middle.
Qed.

Lemma group_by_hash_perm cs : Permutation (flat_map snd (group_by_hash cs)) cs.
Proof.
  unfold group_by_hash.
  assert (H : forall g, Permutation (flat_map snd (fold_left (fun g c => group_add (ch_hash c) c g) cs g))
                                    (flat_map snd g ++ cs)).
  { induction cs as [|c cs IH]; intros g; cbn; [now rewrite app_nil_r|].
    etransitivity; [apply IH|]. etransitivity; [apply Permutation_app_tail, group_add_perm|].
    cbn. apply Permutation_middle. }
  specialize (H []). cbn in H. exact H.
Qed.

Lemma g_get_set h g : exists rest,
  Permutation (flat_map snd g) (g_get h g ++ rest) /\
  forall v, Permutation (flat_map snd (g_set h v g)) (v ++ rest).
Proof.
  induction g as [|[h' cs] r (rest & H1 & H2)]; cbn.
  - exists []. split; [reflexivity|]. intros v. cbn. now rewrite !app_nil_r.
  - destruct (bytes_eqb h h'); cbn.
    + exists (flat_map snd r). split; [reflexivity|]. intros v. reflexivity.
    + exists (cs ++ rest). split.
      * etransitivity; [apply Permutation_app_head, H1|]. rewrite !app_assoc. apply Permutation_app_tail, Permutation_app_comm.
      * intros v. etransitivity; [apply Permutation_app_head, H2|]. rewrite !app_assoc. apply Permutation_app_tail, Permutation_app_comm.
Qed.

Lemma partition_single (ga : groups) :
  Permutation (flat_map snd ga)
              (flat_map (fun g => if is_single (snd g) then snd g else []) ga
               ++ flat_map snd (filter (fun g => negb (is_single (snd g))) ga)).
Proof.
  induction ga as [|[h cs] r IH]; cbn; [reflexivity|].
  destruct (is_single cs) eqn:Hs; cbn.
  - rewrite <- app_assoc. now apply Permutation_app_head.
  - etransitivity; [apply Permutation_app_head, IH|]. apply Permutation_app_swap_app.
Qed.

(* ---------- the invariant, relative to the input lists A0 (insertions), D0 (deletions), M0 (rest) *)
Section conservation.
  Variables A0 D0 M0 : list chg.

  Definition Inv (L D M : list chg) : Prop :=
    Forall (fun c => is_ins c = true) L /\ Forall (fun c => is_del c = true) D /\
    Permutation (froms D0 ++ froms M0) (froms D ++ froms M) /\
    Permutation (tos A0 ++ tos M0) (tos L ++ tos M) /\
    incl L A0 /\ incl D D0 /\
    (forall c, In c M -> In c M0 \/ exists d a, In d D0 /\ In a A0 /\ c = (fst d, snd a)).

  Lemma Inv_perm L D M L' D' :
    Permutation L L' -> Permutation D D' -> Inv L D M -> Inv L' D' M.
  Proof.
    intros HL HD (I1 & I2 & I3 & I4 & I5 & I6 & I7). repeat split.
    - eapply Permutation_Forall; eauto.
    - eapply Permutation_Forall; eauto.
    - etransitivity; [exact I3|]. apply Permutation_app_tail, froms_perm, HD.
    - etransitivity; [exact I4|]. apply Permutation_app_tail, tos_perm, HL.
    - intros x Hx. apply I5. eapply Permutation_in; [symmetry; exact HL|exact Hx].
    - intros x Hx. apply I6. eapply Permutation_in; [symmetry; exact HD|exact Hx].
    - exact I7.
  Qed.

  (* taking the pairs ps out of L and D *)
  Lemma Inv_pairs ps L D M L1 D1 :
    Permutation L (map snd ps ++ L1) -> Permutation D (map fst ps ++ D1) ->
    Inv L D M -> Inv L1 D1 (M ++ map mk ps).
  Proof.
    intros HL HD HI. apply (Inv_perm _ _ _ _ _ HL HD) in HI.
    destruct HI as (I1 & I2 & I3 & I4 & I5 & I6 & I7).
    apply Forall_app in I1 as [I1a I1b]. apply Forall_app in I2 as [I2a I2b].
    repeat split; auto.
    - etransitivity; [exact I3|]. rewrite !froms_app, froms_mk. apply perm_rot.
    - etransitivity; [exact I4|]. rewrite !tos_app, tos_mk. apply perm_rot.
    - intros x Hx. apply I5. apply in_app_iff. now right.
    - intros x Hx. apply I6. apply in_app_iff. now right.
    - intros c Hc. apply in_app_iff in Hc as [Hc|Hc]; [auto|].
      apply in_map_iff in Hc as ([d a] & <- & Hp). right. exists d, a. repeat split.
      + apply I6. apply in_app_iff. left. apply in_map_iff. exists (d, a). auto.
      + apply I5. apply in_app_iff. left. apply in_map_iff. exists (d, a). auto.
  Qed.

  Lemma Inv_pair d a L D M L1 D1 :
    Permutation L (a :: L1) -> Permutation D (d :: D1) ->
    Inv L D M -> Inv L1 D1 (M ++ [(fst d, snd a)]).
  Proof. intros HL HD. apply (Inv_pairs [(d, a)]); assumption. Qed.

  (* ---------- one unique addition *)
  Lemma exact_unique_inv c st P :
    Inv (c :: P ++ st.(x_left)) (flat_map snd st.(x_dels)) st.(x_mod) ->
    let st' := exact_unique c st in
    Inv (P ++ st'.(x_left)) (flat_map snd st'.(x_dels)) st'.(x_mod).
  Proof.
    intros HI.
    assert (Hmove : Inv (P ++ (x_left st ++ [c])) (flat_map snd (x_dels st)) (x_mod st)).
    { eapply Inv_perm; [|reflexivity|exact HI]. perm. }
    destruct (g_get_set (ch_hash c) st.(x_dels)) as (rest & Hg & Hset).
    unfold exact_unique. cbv zeta.
    destruct (g_get (ch_hash c) (x_dels st)) as [|d [|d2 ds]] eqn:Hds; cbn [x_left x_dels x_mod]; [exact Hmove| |].
    - destruct (same_mode c d); cbn [x_left x_dels x_mod]; [|exact Hmove].
      eapply Inv_pair; cycle 2; [exact HI|reflexivity|].
      etransitivity; [exact Hg|]. cbn. apply perm_skip. symmetry. apply (Hset []).
    - destruct (best_match c (d :: d2 :: ds)) as [i|]; [|exact Hmove].
      destruct (nth_error (d :: d2 :: ds) i) as [dm|] eqn:Hn; [|exact Hmove].
      destruct (same_mode c dm); cbn [x_left x_dels x_mod]; [|exact Hmove].
      eapply Inv_pair; cycle 2; [exact HI|reflexivity|].
      etransitivity; [exact Hg|]. etransitivity; [apply Permutation_app_tail, (remove_nth_perm _ _ _ Hn)|].
      cbn. apply perm_skip. symmetry. apply Hset.
  Qed.

  (* ---------- one group of several additions with the same id *)
  Lemma exact_multi_inv limit added st P :
    Inv (added ++ P ++ st.(x_left)) (flat_map snd st.(x_dels)) st.(x_mod) ->
    let st' := exact_multi limit added st in
    Inv (P ++ st'.(x_left)) (flat_map snd st'.(x_dels)) st'.(x_mod).
  Proof.
    intros HI.
    assert (Hmove : Inv (P ++ (x_left st ++ added)) (flat_map snd (x_dels st)) (x_mod st)).
    { eapply Inv_perm; [|reflexivity|exact HI]. perm. }
    unfold exact_multi. destruct added as [|a0 ar] eqn:Hadd; [exact HI|]. rewrite <- Hadd in *. cbv zeta.
    replace (ch_hash a0) with (ch_hash a0) by reflexivity.
    destruct (g_get_set (ch_hash a0) st.(x_dels)) as (rest & Hg & Hset).
    destruct (g_get (ch_hash a0) (x_dels st)) as [|d [|d2 ds]] eqn:Hds; cbn [x_left x_dels x_mod]; [exact Hmove| |].
    - destruct (best_match d added) as [i|]; [|exact Hmove].
      destruct (nth_error added i) as [a|] eqn:Hn; [|exact Hmove].
      destruct (same_mode d a); cbn [x_left x_dels x_mod]; [|exact Hmove].
      eapply Inv_pair; cycle 2; [exact HI| |].
      + etransitivity; [apply Permutation_app_tail, (remove_nth_perm _ _ _ Hn)|]. perm.
      + etransitivity; [exact Hg|]. cbn. apply perm_skip. symmetry. apply (Hset []).
    - destruct (claim (exact_matrix limit added (d :: d2 :: ds)) (map Some (d :: d2 :: ds)) (map Some added) [])
        as [[ren ds'] as'] eqn:Hc.
      cbn [x_left x_dels x_mod].
      destruct (claim_spec _ _ _ _ _ _ _ Hc) as (ps & -> & Hpd & Hpa). cbn [app].
      rewrite !compact_map_some in Hpd, Hpa.
      eapply (Inv_pairs ps); cycle 2; [exact HI| |].
      + etransitivity; [apply Permutation_app_tail, Hpa|]. perm.
      + etransitivity; [exact Hg|]. etransitivity; [apply Permutation_app_tail, Hpd|].
        rewrite <- app_assoc. apply Permutation_app_head. symmetry. apply Hset.
  Qed.

  Lemma fold_unique_inv uniq : forall st P,
    Inv (uniq ++ P ++ st.(x_left)) (flat_map snd st.(x_dels)) st.(x_mod) ->
    let st' := fold_left (fun st c => exact_unique c st) uniq st in
    Inv (P ++ st'.(x_left)) (flat_map snd st'.(x_dels)) st'.(x_mod).
  Proof.
    induction uniq as [|c r IH]; intros st P HI; [exact HI|].
    cbn [fold_left]. apply IH. rewrite app_assoc. apply exact_unique_inv.
    rewrite <- app_assoc. exact HI.
  Qed.

  Lemma fold_multi_inv limit (multi : groups) : forall st,
    Inv (flat_map snd multi ++ st.(x_left)) (flat_map snd st.(x_dels)) st.(x_mod) ->
    let st' := fold_left (fun st g => exact_multi limit (snd g) st) multi st in
    Inv st'.(x_left) (flat_map snd st'.(x_dels)) st'.(x_mod).
  Proof.
    induction multi as [|[h cs] r IH]; intros st HI; [exact HI|].
    cbn [fold_left snd]. apply IH. apply exact_multi_inv. cbn [flat_map snd] in HI.
    rewrite <- app_assoc in HI. exact HI.
  Qed.

  Lemma detect_exact_inv limit a1 d1 m1 :
    Inv A0 D0 M0 ->
    detect_exact limit A0 D0 M0 = (a1, d1, m1) -> Inv a1 d1 m1.
  Proof.
    intros HI H. unfold detect_exact in H. cbv zeta in H. inversion H; subst; clear H.
    set (ga := group_by_hash A0).
    set (st0 := {| x_dels := group_by_hash D0; x_left := []; x_mod := M0 |}).
    apply (fold_multi_inv limit). rewrite <- (app_nil_l (flat_map snd _ ++ _)).
    rewrite app_nil_l.
    pose proof (fold_unique_inv (flat_map (fun g => if is_single (snd g) then snd g else []) ga) st0
                  (flat_map snd (filter (fun g => negb (is_single (snd g))) ga))) as HU.
    cbv zeta in HU. apply HU. cbn [x_left x_dels x_mod st0]. rewrite app_nil_r.
    eapply Inv_perm; [| |exact HI].
    - etransitivity; [symmetry; apply (group_by_hash_perm A0)|]. apply partition_single.
    - symmetry. apply group_by_hash_perm.
  Qed.

  Lemma detect_content_inv matrix a1 d1 m1 a2 d2 m2 :
    Inv a1 d1 m1 -> detect_content matrix a1 d1 m1 = (a2, d2, m2) -> Inv a2 d2 m2.
  Proof.
    intros HI H. unfold detect_content in H.
    destruct (claim matrix (map Some d1) (map Some a1) []) as [[ren ds'] as'] eqn:Hc.
    inversion H; subst; clear H.
    destruct (claim_spec _ _ _ _ _ _ _ Hc) as (ps & -> & Hpd & Hpa). cbn [app].
    rewrite !compact_map_some in Hpd, Hpa. eapply (Inv_pairs ps); eauto.
  Qed.
End conservation.

(* the modifications already recorded are kept *)
Ltac break_matches :=
  repeat match goal with
         | |- context [match ?x with _ => _ end] => destruct x
         end.
Lemma exact_unique_mod c st : incl (x_mod st) (x_mod (exact_unique c st)).
Proof. unfold exact_unique. cbv zeta. break_matches; cbn [x_mod]; auto using incl_refl, incl_appl. Qed.
Lemma exact_multi_mod limit added st : incl (x_mod st) (x_mod (exact_multi limit added st)).
Proof. unfold exact_multi. cbv zeta. break_matches; cbn [x_mod]; auto using incl_refl, incl_appl. Qed.

(* ---------- the three-way split of the input *)
Lemma split_three (cs : list chg) :
  Permutation cs (filter is_ins cs ++ filter is_del cs ++ filter is_mod cs).
Proof.
  induction cs as [|c cs IH]; [reflexivity|]. cbn [filter]. unfold is_mod at 1.
  destruct c as [[f|] [t|]]; cbn.
  - etransitivity; [apply perm_skip, IH|]. rewrite app_assoc. etransitivity; [apply Permutation_middle|].
    now rewrite <- app_assoc.
  - etransitivity; [apply perm_skip, IH|]. apply Permutation_middle.
  - now apply perm_skip.
  - etransitivity; [apply perm_skip, IH|]. rewrite app_assoc. etransitivity; [apply Permutation_middle|].
    now rewrite <- app_assoc.
Qed.

Lemma filter_forall {A} (f : A -> bool) l : Forall (fun c => f c = true) (filter f l).
Proof. apply Forall_forall. intros x Hx. now apply filter_In in Hx. Qed.

Lemma Inv_init cs :
  Inv (filter is_ins cs) (filter is_del cs) (filter is_mod cs) (filter is_ins cs) (filter is_del cs) (filter is_mod cs).
Proof.
  repeat split; auto using filter_forall, incl_refl.
Qed.

(* ---------- the theorem *)
Theorem renames_conserve limit only_exact oracle cs :
  let out := detect_renames limit only_exact oracle cs in
  Permutation (froms out) (froms cs) /\
  Permutation (tos out) (tos cs) /\
  (forall c, In c out ->
     In c cs \/ exists d a, In d cs /\ is_del d = true /\ In a cs /\ is_ins a = true /\ c = (fst d, snd a)) /\
  (forall c, In c cs -> is_mod c = true -> In c out).
Proof.
  cbv zeta.
  set (A0 := filter is_ins cs). set (D0 := filter is_del cs). set (M0 := filter is_mod cs).
  assert (Hfin : forall a2 d2 m2, Inv A0 D0 M0 a2 d2 m2 -> incl M0 m2 ->
    Permutation (froms (a2 ++ d2 ++ m2)) (froms cs) /\
    Permutation (tos (a2 ++ d2 ++ m2)) (tos cs) /\
    (forall c, In c (a2 ++ d2 ++ m2) ->
       In c cs \/ exists d a, In d cs /\ is_del d = true /\ In a cs /\ is_ins a = true /\ c = (fst d, snd a)) /\
    (forall c, In c cs -> is_mod c = true -> In c (a2 ++ d2 ++ m2))).
  { intros a2 d2 m2 (I1 & I2 & I3 & I4 & I5 & I6 & I7) Hm.
    pose proof (split_three cs) as Hsp. fold A0 D0 M0 in Hsp.
    repeat split.
    - rewrite !froms_app, (froms_ins _ I1). cbn. symmetry. etransitivity; [apply froms_perm, Hsp|].
      rewrite !froms_app, (froms_ins A0 (filter_forall _ _)). exact I3.
    - rewrite !tos_app, (tos_del _ I2). cbn. symmetry. etransitivity; [apply tos_perm, Hsp|].
      rewrite !tos_app, (tos_del D0 (filter_forall _ _)). cbn. exact I4.
    - intros c Hc. apply in_app_iff in Hc as [Hc|Hc]; [|apply in_app_iff in Hc as [Hc|Hc]].
      + left. apply I5 in Hc. now apply filter_In in Hc.
      + left. apply I6 in Hc. now apply filter_In in Hc.
      + destruct (I7 c Hc) as [H|(d & a & Hd & Ha & ->)].
        * left. now apply filter_In in H.
        * right. apply filter_In in Hd as [Hd1 Hd2]. apply filter_In in Ha as [Ha1 Ha2]. exists d, a. auto.
    - intros c Hc Hmod. apply in_app_iff. right. apply in_app_iff. right. apply Hm. apply filter_In. auto. }
  unfold detect_renames. fold A0 D0 M0.
  pose proof (Inv_init cs) as H0. fold A0 D0 M0 in H0.
  destruct A0 as [|a0 ar] eqn:HA; [apply Hfin; [exact H0|apply incl_refl]|].
  destruct D0 as [|d0 dr] eqn:HD; [apply Hfin; [exact H0|apply incl_refl]|].
  rewrite <- HA, <- HD in *.
  destruct (detect_exact limit A0 D0 M0) as [[a1 d1] m1] eqn:He.
  pose proof (detect_exact_inv A0 D0 M0 limit a1 d1 m1 H0 He) as H1.
  assert (Hm1 : incl M0 m1).
  { unfold detect_exact in He. cbv zeta in He. inversion He; subst. clear.
    assert (Hu : forall u st, incl M0 (x_mod st) -> incl M0 (x_mod (fold_left (fun st c => exact_unique c st) u st))).
    { induction u as [|c u IH]; intros st Hs; [exact Hs|]. cbn [fold_left]. apply IH.
      eapply incl_tran; [exact Hs|apply exact_unique_mod]. }
    assert (Hmu : forall limit (mu : groups) st, incl M0 (x_mod st) -> incl M0 (x_mod (fold_left (fun st (g : bytes * list chg) => exact_multi limit (snd g) st) mu st))).
    { intros limit0. induction mu as [|g mu IH]; intros st Hs; [exact Hs|]. cbn [fold_left]. apply IH.
      eapply incl_tran; [exact Hs|apply exact_multi_mod]. }
    apply Hmu. apply Hu. cbn. apply incl_refl. }
  destruct only_exact; [apply Hfin; assumption|].
  destruct (Nat.ltb 0 limit && Nat.ltb limit (Nat.max (length a1) (length d1))); [apply Hfin; assumption|].
  destruct (detect_content (oracle a1 d1) a1 d1 m1) as [[a2 d2] m2] eqn:Hc.
  apply Hfin.
  - eapply detect_content_inv; eauto.
  - unfold detect_content in Hc. destruct (claim _ _ _ _) as [[ren ds'] as']. inversion Hc; subst.
    eapply incl_tran; [exact Hm1|apply incl_appl, incl_refl].
Qed.
