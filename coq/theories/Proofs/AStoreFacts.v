(* Proofs/AStoreFacts.v — facts about the finite maps of Spec/AStore.v:
   lookup laws of set / del / union / diff, preservation of the canonical
   form, extensionality of canonical maps. *)
From Coq Require Import List NArith Bool Lia Permutation Sorting.Sorted.
From GoGit Require Import Base.Out Spec.AStore.
Import ListNotations.
Local Open Scope N_scope.

Section Facts.
  Context {V : Type}.
  Implicit Types m : fmap V.

  (* ---------------------------------------------------------------- lookup laws *)
  Lemma fm_get_set k k' v m :
    fm_get k (fm_set k' v m) = if k =? k' then Some v else fm_get k m.
  Proof.
    induction m as [|[k1 v1] r IH]; cbn [fm_set fm_get].
    - destruct (k =? k'); reflexivity.
    - destruct (k' <? k1) eqn:Elt; [|destruct (k' =? k1) eqn:Eeq]; cbn [fm_get].
      + destruct (k =? k'); reflexivity.
      + apply N.eqb_eq in Eeq; subst k1. destruct (k =? k'); reflexivity.
      + rewrite IH. destruct (k =? k1) eqn:E1; [|reflexivity].
        apply N.eqb_eq in E1; subst k1.
        destruct (k =? k') eqn:E2; [|reflexivity].
        apply N.eqb_eq in E2; subst k'. rewrite N.eqb_refl in Eeq; discriminate.
  Qed.

  Lemma fm_get_del k k' m :
    fm_get k (fm_del k' m) = if k =? k' then None else fm_get k m.
  Proof.
    unfold fm_del. induction m as [|[k1 v1] r IH]; cbn [filter fm_get fst].
    - destruct (k =? k'); reflexivity.
    - destruct (k1 =? k') eqn:E1; cbn [negb].
      + rewrite IH. apply N.eqb_eq in E1; subst k1.
        destruct (k =? k'); reflexivity.
      + cbn [fm_get]. rewrite IH. destruct (k =? k1) eqn:E2; [|reflexivity].
        apply N.eqb_eq in E2; subst k1. rewrite E1. reflexivity.
  Qed.

  Lemma fm_get_union k (b t : fmap V) :
    fm_get k (fm_union b t) = match fm_get k t with Some v => Some v | None => fm_get k b end.
  Proof.
    unfold fm_union. induction t as [|[k1 v1] r IH]; cbn [fold_right fm_get fst snd]; [reflexivity|].
    rewrite fm_get_set. destruct (k =? k1); [reflexivity|exact IH].
  Qed.

  Lemma fm_get_diff k (b : fmap V) ds :
    fm_get k (fm_diff b ds) = if nmem k ds then None else fm_get k b.
  Proof.
    unfold fm_diff, nmem. induction ds as [|d r IH]; cbn [fold_right existsb]; [reflexivity|].
    rewrite fm_get_del. destruct (k =? d); [reflexivity|exact IH].
  Qed.

  Lemma fm_has_set k k' v m : fm_has k (fm_set k' v m) = (k =? k') || fm_has k m.
  Proof. unfold fm_has. rewrite fm_get_set. destruct (k =? k'); reflexivity. Qed.

  (* ---------------------------------------------------------------- canonical form *)
  Definition fm_lt (p q : N * V) : Prop := fst p < fst q.
  Definition fm_ok m : Prop := StronglySorted fm_lt m.

  Lemma fm_ok_nil : fm_ok [].
  Proof. constructor. Qed.

  Lemma fm_ok_inv p m : fm_ok (p :: m) -> fm_ok m /\ Forall (fm_lt p) m.
  Proof. intro H. inversion H; subst. split; assumption. Qed.

  Lemma fm_get_lt k p m : Forall (fm_lt p) m -> k <= fst p -> fm_get k m = None.
  Proof.
    induction m as [|[k1 v1] r IH]; intros HF Hle; [reflexivity|].
    inversion HF as [|? ? H1 H2]; subst. unfold fm_lt in H1; cbn [fst] in H1.
    cbn [fm_get]. destruct (k =? k1) eqn:E.
    - apply N.eqb_eq in E. lia.
    - apply IH; assumption.
  Qed.

  Lemma fm_ok_okb m : fm_okb m = true <-> fm_ok m.
  Proof.
    induction m as [|[k v] r IH]; [split; [constructor|reflexivity]|].
    destruct r as [|[k' v'] r'].
    - split; [intros _; repeat constructor|reflexivity].
    - change (fm_okb ((k, v) :: (k', v') :: r')) with ((k <? k') && fm_okb ((k', v') :: r')).
      rewrite andb_true_iff, IH, N.ltb_lt. split.
      + intros [Hlt Hok]. constructor; [exact Hok|].
        constructor; [exact Hlt|].
        apply fm_ok_inv in Hok as [_ HF].
        eapply Forall_impl; [|exact HF]. intros [a b] Hab. unfold fm_lt in *. cbn [fst] in *. lia.
      + intro H. apply fm_ok_inv in H as [Hok HF]. split; [|exact Hok].
        inversion HF; subst. assumption.
  Qed.

  Lemma Forall_lt_set p k v m :
    fst p < k -> Forall (fm_lt p) m -> Forall (fm_lt p) (fm_set k v m).
  Proof.
    intros Hk. induction m as [|[k1 v1] r IH]; intro HF; cbn [fm_set].
    - constructor; [exact Hk|constructor].
    - inversion HF as [|? ? H1 H2]; subst.
      destruct (k <? k1); [|destruct (k =? k1)].
      + constructor; [exact Hk|exact HF].
      + constructor; [exact Hk|exact H2].
      + constructor; [exact H1|apply IH; exact H2].
  Qed.

  Lemma fm_ok_set k v m : fm_ok m -> fm_ok (fm_set k v m).
  Proof.
    induction m as [|[k1 v1] r IH]; intro H; cbn [fm_set].
    - repeat constructor.
    - apply fm_ok_inv in H as [Hok HF].
      destruct (k <? k1) eqn:Elt; [|destruct (k =? k1) eqn:Eeq].
      + apply N.ltb_lt in Elt. constructor; [constructor; assumption|].
        constructor; [exact Elt|].
        eapply Forall_impl; [|exact HF]. intros [a b] Hab. unfold fm_lt in *. cbn [fst] in *. lia.
      + apply N.eqb_eq in Eeq; subst k1. constructor; assumption.
      + apply N.ltb_ge in Elt. apply N.eqb_neq in Eeq.
        constructor; [apply IH; exact Hok|].
        apply Forall_lt_set; [cbn [fst]; lia|exact HF].
  Qed.

  Lemma fm_ok_del k m : fm_ok m -> fm_ok (fm_del k m).
  Proof.
    unfold fm_del. induction m as [|p r IH]; intro H; cbn [filter]; [constructor|].
    apply fm_ok_inv in H as [Hok HF].
    destruct (negb (fst p =? k)); [|apply IH; exact Hok].
    constructor; [apply IH; exact Hok|].
    apply Forall_forall. intros q Hq. apply filter_In in Hq as [Hq _].
    rewrite Forall_forall in HF. apply HF; exact Hq.
  Qed.

  Lemma fm_ok_union (b t : fmap V) : fm_ok b -> fm_ok (fm_union b t).
  Proof.
    intro H. unfold fm_union. induction t as [|p r IH]; cbn [fold_right]; [exact H|].
    apply fm_ok_set; exact IH.
  Qed.

  Lemma fm_ok_diff (b : fmap V) ds : fm_ok b -> fm_ok (fm_diff b ds).
  Proof.
    intro H. unfold fm_diff. induction ds as [|d r IH]; cbn [fold_right]; [exact H|].
    apply fm_ok_del; exact IH.
  Qed.

  (* canonical maps are determined by their lookup function *)
  Lemma fm_ext m1 m2 :
    fm_ok m1 -> fm_ok m2 -> (forall k, fm_get k m1 = fm_get k m2) -> m1 = m2.
  Proof.
    revert m2. induction m1 as [|[k1 v1] r1 IH]; intros m2 H1 H2 Hext.
    - destruct m2 as [|[k2 v2] r2]; [reflexivity|].
      specialize (Hext k2). cbn [fm_get] in Hext. rewrite N.eqb_refl in Hext. discriminate.
    - destruct m2 as [|[k2 v2] r2].
      + specialize (Hext k1). cbn [fm_get] in Hext. rewrite N.eqb_refl in Hext. discriminate.
      + apply fm_ok_inv in H1 as [Hok1 HF1]. apply fm_ok_inv in H2 as [Hok2 HF2].
        assert (Hk : k1 = k2).
        { destruct (N.lt_trichotomy k1 k2) as [Hlt|[Heq|Hgt]]; [|exact Heq|].
          - pose proof (Hext k1) as E. cbn [fm_get] in E. rewrite N.eqb_refl in E.
            destruct (k1 =? k2) eqn:E12; [apply N.eqb_eq in E12; lia|].
            rewrite (fm_get_lt k1 (k2, v2) r2) in E by (try exact HF2; cbn [fst]; lia). discriminate.
          - pose proof (Hext k2) as E. cbn [fm_get] in E. rewrite N.eqb_refl in E.
            destruct (k2 =? k1) eqn:E21; [apply N.eqb_eq in E21; lia|].
            rewrite (fm_get_lt k2 (k1, v1) r1) in E by (try exact HF1; cbn [fst]; lia). discriminate. }
        subst k2.
        assert (Hv : v1 = v2).
        { pose proof (Hext k1) as E. cbn [fm_get] in E. rewrite N.eqb_refl in E. congruence. }
        subst v2. f_equal. apply IH; try assumption.
        intro k. pose proof (Hext k) as E. cbn [fm_get] in E.
        destruct (k =? k1) eqn:Ek; [|exact E].
        apply N.eqb_eq in Ek; subst k.
        rewrite (fm_get_lt k1 (k1, v1) r1), (fm_get_lt k1 (k1, v1) r2); try assumption; cbn [fst]; try lia.
        reflexivity.
  Qed.

  (* ---------------------------------------------------------------- membership / listings *)
  Lemma fm_get_In k v m : fm_ok m -> (fm_get k m = Some v <-> In (k, v) m).
  Proof.
    induction m as [|[k1 v1] r IH]; intro H; cbn [fm_get In]; [split; [discriminate|tauto]|].
    apply fm_ok_inv in H as [Hok HF]. destruct (k =? k1) eqn:E.
    - apply N.eqb_eq in E; subst k1. split.
      + intro H1; left; congruence.
      + intros [H1|H1]; [congruence|].
        rewrite Forall_forall in HF. apply HF in H1. unfold fm_lt in H1; cbn [fst] in H1. lia.
    - rewrite (IH Hok). apply N.eqb_neq in E. split; [tauto|].
      intros [H1|H1]; [congruence|exact H1].
  Qed.

  Lemma fm_ok_NoDup m : fm_ok m -> NoDup m.
  Proof.
    induction m as [|p r IH]; intro H; [constructor|].
    apply fm_ok_inv in H as [Hok HF]. constructor; [|apply IH; exact Hok].
    intro Hin. rewrite Forall_forall in HF. apply HF in Hin. unfold fm_lt in Hin. lia.
  Qed.

  (* inserting a fresh key is a permutation of consing it *)
  Lemma fm_set_fresh_perm k v m :
    fm_get k m = None -> Permutation (fm_set k v m) ((k, v) :: m).
  Proof.
    induction m as [|[k1 v1] r IH]; intro Hn; cbn [fm_set]; [reflexivity|].
    cbn [fm_get] in Hn. destruct (k =? k1) eqn:E; [discriminate|].
    destruct (k <? k1); [reflexivity|].
    rewrite (IH Hn). apply perm_swap.
  Qed.

  Lemma fm_del_absent k m : fm_get k m = None -> fm_del k m = m.
  Proof.
    unfold fm_del. induction m as [|[k1 v1] r IH]; intro Hn; cbn [filter fst]; [reflexivity|].
    cbn [fm_get] in Hn. destruct (k =? k1) eqn:E; [discriminate|].
    rewrite N.eqb_sym, E. cbn [negb]. f_equal. apply IH; exact Hn.
  Qed.
End Facts.

Lemma nmem_nadd k n l : nmem k (nadd n l) = (k =? n) || nmem k l.
Proof.
  unfold nadd. destruct (nmem n l) eqn:E.
  - destruct (k =? n) eqn:E1; [|reflexivity]. apply N.eqb_eq in E1; subst. rewrite E. reflexivity.
  - reflexivity.
Qed.

Lemma nmem_nrem k n l : nmem k (nrem n l) = negb (k =? n) && nmem k l.
Proof.
  unfold nrem, nmem. induction l as [|x r IH]; cbn [filter existsb].
  - rewrite andb_false_r. reflexivity.
  - destruct (x =? n) eqn:E; cbn [negb existsb].
    + rewrite IH. apply N.eqb_eq in E; subst x.
      destruct (k =? n); reflexivity.
    + rewrite IH. destruct (k =? x) eqn:E1; [|reflexivity].
      apply N.eqb_eq in E1; subst x. rewrite E. reflexivity.
Qed.

Lemma nmem_In k l : nmem k l = true <-> In k l.
Proof.
  unfold nmem. rewrite existsb_exists. split.
  - intros [x [Hx E]]. apply N.eqb_eq in E; subst. exact Hx.
  - intro H. exists k. split; [exact H|apply N.eqb_refl].
Qed.

Lemma NoDup_nadd n l : NoDup l -> NoDup (nadd n l).
Proof.
  intro H. unfold nadd. destruct (nmem n l) eqn:E; [exact H|].
  constructor; [|exact H]. intro Hin. apply nmem_In in Hin. congruence.
Qed.

Lemma NoDup_nrem n l : NoDup l -> NoDup (nrem n l).
Proof. intro H. unfold nrem. apply NoDup_filter. exact H. Qed.
