(* Proofs/C53Reflog.v — C53 for reflog.Decode (Model/Reflog.v decode_go / decode):
   a structural pass over the input (no fuel: total by construction); it yields at
   most one entry per non-empty line, hence at most |input| entries, and a line
   only decodes if it holds two SP-terminated hex ids of 40 or 64 digits. *)
From Coq Require Import List NArith ZArith Bool Lia Arith.
From GoGit Require Import Base.Out Model.Reflog.
Import ListNotations.

Lemma decode_go_count : forall s cur l, decode_go s cur = Some l -> (List.length l <= List.length s + List.length cur)%nat.
Proof.
  induction s as [|c r IH]; intros cur l E; cbn [decode_go] in E.
  - destruct cur as [|x cur']; [injection E as <-; cbn; lia|].
    destruct (decode_line (rev (x :: cur'))); [|discriminate]. injection E as <-. cbn [List.length]. lia.
  - destruct (N.eqb c LF).
    + destruct cur as [|x cur'].
      * apply IH in E. cbn [List.length] in *. lia.
      * destruct (decode_line (rev (x :: cur'))); [|discriminate].
        destruct (decode_go r []) as [l'|] eqn:E'; [|discriminate]. injection E as <-.
        apply IH in E'. cbn [List.length] in *. lia.
    + apply IH in E. cbn [List.length] in *. lia.
Qed.

Theorem decode_alloc file l : decode file = Some l -> (List.length l <= List.length file)%nat.
Proof. intros E. apply decode_go_count in E. cbn [List.length] in E. lia. Qed.
