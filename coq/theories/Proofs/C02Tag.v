(* Proofs/C02Tag.v — decode_tag (encode_tag t true) = Ok t for every
   well-formed tag struct (Spec/ObjWf.wf_tag). *)
From Coq Require Import List NArith ZArith Bool Lia ZifyBool ZifyNat ZifyN.
From GoGit Require Import Base.Out Model.ObjLines Model.Ident Model.Commit Model.Tag Spec.ObjWf
     Proofs.ObjLinesFacts Proofs.C02Dec Proofs.C02Ident Proofs.C03Commit Proofs.C03CommitSig Proofs.C02Lines Proofs.C02Commit.
Import ListNotations.
Local Open Scope N_scope.

(* ---- parseSignedBytes over concatenations ---- *)
Definition total (ls : list bytes) : nat := List.length (List.concat ls).

Lemma psb_app a : forall b pos m, psb pos m (a ++ b) = psb (pos + total a) (psb pos m a) b.
Proof.
  induction a as [|l a IH]; intros b pos m.
  - cbn [app psb total List.concat List.length]. now rewrite Nat.add_0_r.
  - cbn [app psb]. rewrite IH. unfold total. cbn [List.concat]. rewrite app_length. now rewrite Nat.add_assoc.
Qed.

Lemma psb_shift p ls : forall q m,
  psb (p + q) (option_map (Nat.add p) m) ls = option_map (Nat.add p) (psb q m ls).
Proof.
  induction ls as [|l r IH]; intros q m; [reflexivity|]. cbn [psb].
  rewrite <- Nat.add_assoc, <- IH. f_equal. now destruct (is_sig_start l).
Qed.

Lemma psb_from p ls : psb p None ls = option_map (Nat.add p) (psb 0 None ls).
Proof. pose proof (psb_shift p ls 0 None) as H. cbn [option_map] in H. now rewrite Nat.add_0_r in H. Qed.

(* a buffer that ends with LF splits into complete lines *)
Lemma split_lines_complete p : Forall cline (split_lines (p ++ [LF])).
Proof.
  induction p as [|c p IH]; cbn [app split_lines].
  - replace (LF =? LF) with true by reflexivity. constructor; [|constructor]. exists []. now split.
  - destruct (c =? LF) eqn:E.
    + apply N.eqb_eq in E. subst c. constructor; [|exact IH]. exists []. now split.
    + destruct (split_lines (p ++ [LF])) as [|l ls] eqn:S.
      * apply (f_equal (@List.concat N)) in S. rewrite concat_split_lines in S. destruct p; discriminate S.
      * inversion IH as [|? ? [q [Hq ->]] Hls]; subst. constructor; [|exact Hls].
        exists (c :: q). split; [|reflexivity]. now rewrite no_lf_cons, E, Hq.
Qed.

Lemma last_is_snoc c b : b <> [] -> last_is c b = true -> exists p, b = p ++ [c].
Proof.
  intros Hne H. unfold last_is in H. destruct (rev b) as [|x r] eqn:E.
  - apply (f_equal (@rev N)) in E. rewrite rev_involutive in E. now subst.
  - cbn in H. apply N.eqb_eq in H. subst x. exists (rev r).
    apply (f_equal (@rev N)) in E. rewrite rev_involutive in E. cbn in E. exact E.
Qed.

Lemma split_lines_app_complete m s : (m = [] \/ last_is LF m = true) ->
  split_lines (m ++ s) = split_lines m ++ split_lines s.
Proof.
  intros [->|H]; [reflexivity|]. destruct m as [|x m]; [reflexivity|].
  destruct (last_is_snoc LF (x :: m) ltac:(discriminate) H) as [p Hp]. rewrite Hp.
  rewrite <- (concat_split_lines (p ++ [LF])) at 1. apply split_lines_clines, split_lines_complete.
Qed.

Lemma psb_msg_sig m s : parse_signed_bytes m = None -> (m = [] \/ last_is LF m = true) ->
  parse_signed_bytes s = Some O -> parse_signed_bytes (m ++ s) = Some (List.length m).
Proof.
  unfold parse_signed_bytes. intros Hm Hl Hs. rewrite (split_lines_app_complete _ _ Hl), psb_app, Hm.
  unfold total. rewrite concat_split_lines. cbn [Nat.add]. rewrite psb_from, Hs. cbn [option_map]. now rewrite Nat.add_0_r.
Qed.

(* ---- the encoder's output as header lines ---- *)
Definition object_line (h : bytes) : bytes := k_object ++ SPC :: hex_encode h ++ [LF].
Definition kv_line (K v : bytes) : bytes := K ++ SPC :: v ++ [LF].
Definition tagger_lines (i : ident) : list bytes := if ident_is_zero i then [] else [ident_line k_tagger i].
Definition thdr_lines (t : tag) : list bytes :=
  object_line (t_target t) :: kv_line k_type (t_type t) :: kv_line k_tag (t_name t) ::
  tagger_lines (t_tagger t) ++ sig_lines k_gpgsig256 (t_sig256 t) ++ [[LF]].

Lemma sig256_piece s :
  match s with [] => [] | n :: l => k_gpgsig256 ++ [SPC] ++ indent_nl (trim_suffix_lf (n :: l)) ++ [LF] end
  = List.concat (sig_lines k_gpgsig256 s).
Proof.
  unfold sig_lines. destruct s as [|y s]; [reflexivity|]. rewrite <- val_lines_concat. norm_app. reflexivity.
Qed.

Lemma encode_tag_lines t : encode_tag t true = List.concat (thdr_lines t) ++ (t_msg t ++ t_sig t).
Proof.
  unfold encode_tag. rewrite sig256_piece.
  unfold thdr_lines, object_line, kv_line, tagger_lines, ident_line. cbn [List.concat]. rewrite !concat_app.
  destruct (ident_is_zero (t_tagger t)); cbn [List.concat]; norm_app; reflexivity.
Qed.

Lemma valid_type_no_lf ty : valid_type ty = true -> no_lf ty = true.
Proof.
  unfold valid_type. intros H. apply existsb_exists in H as [x [Hin Hb]]. apply beqb_eq in Hb. subst x.
  cbn in Hin. repeat (destruct Hin as [<-|Hin]; [reflexivity|]). contradiction.
Qed.

Record wf_tag_facts (t : tag) : Prop := {
  wt_target : oid_ok (t_target t) = true;
  wt_type : valid_type (t_type t) = true;
  wt_name : no_lf (t_name t) = true;
  wt_tagger : (ident_is_zero (t_tagger t) = true /\ t_tagger t = ident_zero) \/
              (ident_is_zero (t_tagger t) = false /\ wf_ident (t_tagger t) = true);
  wt_sig256 : wf_sigval (t_sig256 t) = true;
  wt_msg : parse_signed_bytes (t_msg t) = None;
  wt_join : t_sig t = [] \/ ((t_msg t = [] \/ last_is LF (t_msg t) = true) /\ parse_signed_bytes (t_sig t) = Some O) }.

Lemma wf_ident_not_zero i : wf_ident i = true -> ident_is_zero i = false.
Proof.
  unfold wf_ident, ident_is_zero. intros H. apply andb_true_iff in H as [H _]. apply andb_true_iff in H as [_ H].
  destruct (id_name i); [|reflexivity]. destruct (id_email i); [|reflexivity]. unfold zero_ts. lia.
Qed.

Lemma wf_tag_parts t : wf_tag t = true -> wf_tag_facts t.
Proof.
  unfold wf_tag. intros H.
  apply andb_true_iff in H as [H H8]. apply andb_true_iff in H as [H H7]. apply andb_true_iff in H as [H H6].
  apply andb_true_iff in H as [H H5]. apply andb_true_iff in H as [H H4]. apply andb_true_iff in H as [H H3].
  apply andb_true_iff in H as [H1 H2]. apply negb_true_iff in H3.
  constructor; try assumption.
  - now apply no_lf_of_has.
  - apply orb_true_iff in H4 as [H4|H4].
    + left. apply andb_true_iff in H4 as [Hz Htz]. split; [exact Hz|].
      destruct (t_tagger t) as [nm em ts tz]. unfold ident_is_zero in Hz. cbn [id_name id_email id_ts id_tz] in *.
      destruct nm; [|discriminate]. destruct em; [|discriminate]. unfold ident_zero. f_equal; lia.
    + right. split; [now apply wf_ident_not_zero|exact H4].
  - destruct (parse_signed_bytes (t_msg t)); [discriminate|reflexivity].
  - destruct (t_sig t) as [|y s] eqn:Es; [now left|right]. split.
    + destruct (t_msg t); [now left|now right].
    + destruct (parse_signed_bytes (y :: s)) as [[|n]|]; try discriminate. reflexivity.
Qed.

Lemma thdr_lines_cline t : wf_tag t = true -> Forall cline (thdr_lines t).
Proof.
  intros Hwf. destruct (wf_tag_parts _ Hwf) as [Ht Hty Hn Htg Hs _ _].
  unfold thdr_lines. constructor; [|constructor; [|constructor]].
  - apply kline_cline; [reflexivity|]. now apply oid_plain.
  - apply kline_cline; [reflexivity|]. now apply valid_type_no_lf.
  - now apply kline_cline.
  - rewrite !Forall_app. repeat split.
    + unfold tagger_lines. destruct Htg as [[-> _]|[-> Hw]]; constructor; [|constructor].
      apply kline_cline; [reflexivity|now apply encode_ident_no_lf].
    + now apply sig_lines_cline.
    + constructor; [|constructor]. exists []. now split.
Qed.

(* ---- running the tag scanner ---- *)
Lemma need_header_ok key v rest stop k : key <> [] -> no_lf key = true -> has_byte SPC key = false -> no_lf v = true ->
  need_header key (kv_line key v :: rest) stop k = k v rest.
Proof.
  intros H1 H2 H3 Hv. unfold need_header, kv_line.
  rewrite (is_blank_kline key _ H1), (split_header_kv key v H2 H3 Hv), beqb_refl. cbn [negb].
  replace (ends_nl (key ++ SPC :: v ++ [LF])) with true; [reflexivity|].
  symmetry. apply cline_ends. now apply kline_cline.
Qed.

Definition thdrlike (st : tstate) : Prop := match st with TTagger | THeaders | TPgp256 => True | TMessage => False end.

Lemma trun_step st t l rest t' st' : ends_nl l = true -> tstep st t l = (t', st') -> trun st t (l :: rest) = trun st' t' rest.
Proof. intros He Hs. cbn [trun]. now rewrite Hs, He. Qed.

Lemma tstep_blank st t : thdrlike st -> tstep st t [LF] = (t, TMessage).
Proof. destruct st; try contradiction; reflexivity. Qed.

Lemma tstep_sig256 st t s1 : thdrlike st -> no_lf s1 = true ->
  tstep st t (k_gpgsig256 ++ SPC :: s1 ++ [LF]) = (set_tsig256 t (t_sig256 t ++ s1 ++ [LF]), TPgp256).
Proof.
  intros Hh Hs.
  assert (E : on_theaders t (k_gpgsig256 ++ SPC :: s1 ++ [LF]) = (set_tsig256 t (t_sig256 t ++ s1 ++ [LF]), TPgp256)).
  { unfold on_theaders. rewrite (is_blank_kline k_gpgsig256); [|discriminate].
    rewrite (split_header_kv k_gpgsig256 _ eq_refl eq_refl Hs). reflexivity. }
  destruct st; try contradiction; cbn [tstep].
  - rewrite (is_blank_kline k_gpgsig256); [|discriminate].
    rewrite (split_header_kv k_gpgsig256 _ eq_refl eq_refl Hs).
    replace (beqb k_gpgsig256 k_tagger) with false by reflexivity. exact E.
  - exact E.
  - replace (first_is SPC (k_gpgsig256 ++ SPC :: s1 ++ [LF])) with false by reflexivity. exact E.
Qed.

Lemma trun_pgp256_conts ss : Forall (fun s => no_lf s = true) ss -> forall t rest,
  trun TPgp256 t (map (fun s => SPC :: s ++ [LF]) ss ++ rest) =
  trun TPgp256 (set_tsig256 t (t_sig256 t ++ List.concat (map (fun s => s ++ [LF]) ss))) rest.
Proof.
  induction 1 as [|s ss Hs _ IH]; intros t rest.
  - cbn [map List.concat app]. rewrite app_nil_r. now destruct t.
  - cbn [map app List.concat].
    rewrite (trun_step TPgp256 t (SPC :: s ++ [LF]) _ (set_tsig256 t (t_sig256 t ++ s ++ [LF])) TPgp256).
    + rewrite IH. destruct t as [a b c d e f g]. unfold set_tsig256.
      cbn [t_target t_type t_name t_tagger t_sig256 t_msg t_sig]. now rewrite <- app_assoc.
    + apply cline_ends. change (SPC :: s ++ [LF]) with ((SPC :: s) ++ [LF]). apply cline_mk. now rewrite no_lf_cons, Hs.
    + reflexivity.
Qed.

Lemma trun_sig256 st t s rest : thdrlike st -> wf_sigval s = true ->
  exists st' t', trun st t (sig_lines k_gpgsig256 s ++ rest) = trun st' t' rest /\ thdrlike st' /\
                 t' = set_tsig256 t (t_sig256 t ++ s).
Proof.
  intros Hh Hwf. unfold sig_lines. destruct s as [|y s].
  - exists st, t. split; [reflexivity|split; [exact Hh|]]. rewrite app_nil_r. now destruct t.
  - set (w := trim_suffix_lf (y :: s)). destruct (segs_no_lf w) as [N1 N2].
    exists TPgp256, (set_tsig256 t (t_sig256 t ++ y :: s)). split; [|split; [exact I|reflexivity]].
    unfold val_lines. cbn [app].
    rewrite (trun_step st t _ _ _ _ (cline_ends _ (kline_cline k_gpgsig256 _ eq_refl N1)) (tstep_sig256 st t _ Hh N1)).
    rewrite (trun_pgp256_conts _ N2). f_equal. destruct t as [a b c d e f g]. unfold set_tsig256.
    cbn [t_target t_type t_name t_tagger t_sig256 t_msg t_sig]. f_equal.
    rewrite <- !app_assoc. f_equal. rewrite val_lines_acc.
    unfold w. apply trim_suffix_lf_snoc; [discriminate|exact Hwf].
Qed.

Lemma trun_message ls : all_but_last_nl ls = true -> forall t,
  trun TMessage t ls = set_tmsg t (t_msg t ++ List.concat ls).
Proof.
  induction ls as [|l r IH]; intros Habl t.
  - cbn [trun List.concat]. rewrite app_nil_r. now destruct t.
  - cbn [trun tstep List.concat]. destruct r as [|l2 r].
    + cbn [List.concat trun]. rewrite app_nil_r. now destruct (ends_nl l).
    + change (all_but_last_nl (l :: l2 :: r)) with (ends_nl l && all_but_last_nl (l2 :: r)) in Habl.
      apply andb_true_iff in Habl as [H1 H2]. rewrite H1, (IH H2). destruct t as [a b c d e f g]. unfold set_tmsg.
      cbn [t_target t_type t_name t_tagger t_sig256 t_msg t_sig]. now rewrite <- app_assoc.
Qed.

Theorem tag_dec_enc : forall t, wf_tag t = true -> decode_tag (encode_tag t true) = Ok t.
Proof.
  intros t Hwf. destruct (wf_tag_parts _ Hwf) as [Ht Hty Hn Htg Hs Hm Hj].
  unfold decode_tag. rewrite encode_tag_lines, (split_lines_clines _ (thdr_lines_cline _ Hwf)).
  unfold thdr_lines, decode_tag_lines, object_line.
  destruct (oid_plain _ Ht) as [P1 P2].
  change (k_object ++ SPC :: hex_encode (t_target t) ++ [LF]) with (kv_line k_object (hex_encode (t_target t))).
  cbn [app].
  rewrite (need_header_ok k_object _ _ _ _ ltac:(discriminate) eq_refl eq_refl P1), (parse_oid_hex _ Ht).
  rewrite (need_header_ok k_type _ _ _ _ ltac:(discriminate) eq_refl eq_refl (valid_type_no_lf _ Hty)), Hty. cbn [negb].
  rewrite (need_header_ok k_tag _ _ _ _ ltac:(discriminate) eq_refl eq_refl Hn).
  f_equal.
  set (T0 := tag_init (t_target t) (t_type t) (t_name t)).
  (* tagger *)
  assert (exists st1 t1, trun TTagger T0 ((tagger_lines (t_tagger t) ++ sig_lines k_gpgsig256 (t_sig256 t) ++ [[LF]]) ++ split_lines (t_msg t ++ t_sig t))
                         = trun st1 t1 (sig_lines k_gpgsig256 (t_sig256 t) ++ [LF] :: split_lines (t_msg t ++ t_sig t))
                         /\ thdrlike st1 /\ t1 = set_ttagger T0 (t_tagger t)) as [st1 [t1 [E1 [H1 F1]]]].
  { unfold tagger_lines. destruct Htg as [[-> Hz]|[-> Hw]].
    - exists TTagger, T0. split; [|split; [exact I|]].
      + cbn [app]. now rewrite <- app_assoc.
      + rewrite Hz. reflexivity.
    - exists THeaders, (set_ttagger T0 (t_tagger t)). split; [|split; [exact I|reflexivity]].
      destruct (ident_line_facts k_tagger (t_tagger t) ltac:(discriminate) eq_refl eq_refl Hw) as [Ea [Eb Es]].
      cbn [app]. rewrite <- app_assoc. apply trun_step; [exact Ea|].
      cbn [tstep]. rewrite Eb, Es. replace (beqb k_tagger k_tagger) with true by reflexivity.
      now rewrite (ident_dec_enc _ Hw). }
  rewrite E1.
  destruct (trun_sig256 st1 t1 (t_sig256 t) ([LF] :: split_lines (t_msg t ++ t_sig t)) H1 Hs) as [st2 [t2 [E2 [H2 F2]]]].
  rewrite E2, (trun_step st2 t2 [LF] _ t2 TMessage eq_refl (tstep_blank _ _ H2)).
  rewrite (trun_message _ (split_lines_abl _)), concat_split_lines.
  subst t2 t1. unfold T0, split_tag_sig.
  destruct t as [tg ty nm tgr s256 msg sg].
  cbn [t_target t_type t_name t_tagger t_sig256 t_msg t_sig tag_init set_ttagger set_tsig256 set_tmsg app] in *.
  destruct Hj as [->|[Hl Hp]].
  - rewrite app_nil_r, Hm. reflexivity.
  - rewrite (psb_msg_sig _ _ Hm Hl Hp), firstn_app_exact, skipn_app_exact. reflexivity.
Qed.
