(* Proofs/C28.v — index operations against git's, on the flattened state. *)
From Coq Require Import List NArith Arith Lia Bool ZifyBool ZifyN.
From GoGit Require Import Base.Out Model.Status Model.IndexOps Spec.GitStatus Spec.GitIndexOps Proofs.C27.
Import ListNotations.
Local Open Scope N_scope.

(* ------------------------------------------------------------ BuildTree, top-level entries *)

Definition has_slash (p : path) : bool := existsb (fun c => c =? SLASH) p.
Definition flat_entry (e : ientry) : bool :=
  negb (has_slash (ie_path e)) && negb (bytes_eqb (ie_path e) []).
Definition nonzero (e : ientry) : bool := negb (h_cid (ie_hash e) =? zero_cid).
Definition proj (e : ientry) : path * fmode * hash := (ie_path e, ie_mode e, ie_hash e).

Lemma split_noslash p : forall cur, has_slash p = false -> split_slash p cur = [cur ++ p].
Proof.
  induction p as [|c r IH]; intros cur H; [cbn; now rewrite app_nil_r|].
  cbn [has_slash existsb] in H. apply orb_false_iff in H as [Hc H].
  cbn [split_slash]. rewrite Hc. rewrite IH by exact H. rewrite <- app_assoc. reflexivity.
Qed.

(* the root tree after the entries so far, other sub-trees untouched: only the root exists *)
Lemma commit_flat es e :
  flat_entry e = true ->
  commit_entry [([], es)] e = [([], if nonzero e then es ++ [(ie_path e, Some (ie_mode e, ie_hash e))] else es)].
Proof.
  intros H. unfold flat_entry in H. apply andb_true_iff in H as [H1 H2].
  apply negb_true_iff in H1, H2. unfold commit_entry, nonzero.
  destruct (h_cid (ie_hash e) =? zero_cid); [reflexivity|]. cbn [negb].
  rewrite split_noslash by exact H1. cbn [app walk_parts fold_left do_build].
  assert (J : join [] (ie_path e) = ie_path e) by (unfold join; destruct (ie_path e); reflexivity).
  rewrite J. cbn [trees_get]. rewrite bytes_eqb_sym, H2. rewrite bytes_eqb_refl. cbn [trees_append].
  rewrite bytes_eqb_refl. reflexivity.
Qed.

Lemma build_flat i : forall es,
  forallb flat_entry i = true ->
  fold_left commit_entry i [([], es)] =
  [([], es ++ map (fun e => (ie_path e, Some (ie_mode e, ie_hash e))) (filter nonzero i))].
Proof.
  induction i as [|e i IH]; intros es H; [cbn; now rewrite app_nil_r|].
  cbn [forallb] in H. apply andb_true_iff in H as [He H].
  cbn [fold_left]. rewrite commit_flat by exact He. rewrite IH by exact H.
  cbn [filter]. destruct (nonzero e); [|reflexivity]. cbn [map]. rewrite <- app_assoc. reflexivity.
Qed.

Lemma tree_files_root es :
  tree_files [([], map (fun e => (ie_path e, Some (ie_mode e, ie_hash e))) es)] = map proj es.
Proof.
  unfold tree_files. cbn [flat_map]. rewrite app_nil_r.
  induction es as [|e es IH]; [reflexivity|]. cbn [map flat_map app] in *.
  assert (J : join [] (ie_path e) = ie_path e) by (unfold join; destruct (ie_path e); reflexivity).
  rewrite J. f_equal. exact IH.
Qed.

Lemma write_tree_flat s :
  forallb flat_entry (st_index s) = true ->
  g_commit_files s = map proj (filter nonzero (st_index s)).
Proof.
  intros H. unfold g_commit_files, build_trees. rewrite build_flat by exact H. cbn [app]. apply tree_files_root.
Qed.

Lemma write_tree_flat_git s :
  forallb flat_entry (st_index s) = true ->
  forallb (fun e => nonzero e && negb (ie_ita e)) (st_index s) = true ->
  g_commit_files s = s_tree_files s.
Proof.
  intros H G. rewrite write_tree_flat by exact H. unfold s_tree_files.
  induction (st_index s) as [|e i IH]; [reflexivity|].
  cbn [forallb] in *. apply andb_true_iff in H as [_ H]. apply andb_true_iff in G as [Ge G].
  apply andb_true_iff in Ge as [G1 G2]. cbn [filter]. rewrite G1, G2. cbn [map]. f_equal. now apply IH.
Qed.

(* ------------------------------------------------------------ rm, mv *)

Lemma rm_file_eq s p :
  is_some (find_i (st_index s) p) = true ->
  is_dir_wt s p && negb (has_file s p) = false ->
  existsb (fun f => under (wf_path f) p) (st_wt s) = false ->
  g_rm s p = s_rm s p.
Proof.
  intros H1 H2 H3. unfold g_rm, s_rm. rewrite H2, H3. destruct (find_i (st_index s) p); [reflexivity|discriminate].
Qed.

(* the file is as staged and the destination directory exists *)
Definition mv_guard (s : state) (from to : path) : bool :=
  match find_w (st_wt s) from, find_i (st_index s) from with
  | Some f, Some e =>
    fmode_eqb (wf_mode f) (ie_mode e) && (wf_size f mod 2 ^ 32 =? ie_size e) && (wf_mtime f =? ie_mtime e) &&
    negb (ie_ita e) && forallb (fun d => is_dir_wt s d) (dir_prefixes to [])
  | _, _ => true
  end.

Lemma mv_eq s from to : mv_guard s from to = true -> g_mv s from to = s_mv s from to.
Proof.
  unfold mv_guard, g_mv, s_mv.
  destruct (find_w (st_wt s) from) as [f|]; [|reflexivity].
  destruct (find_i (st_index s) from) as [e|]; [|destruct (has_file s to || is_dir_wt s to); reflexivity].
  intros G.
  apply andb_true_iff in G as [G G5]. apply andb_true_iff in G as [G G4].
  apply andb_true_iff in G as [G G3]. apply andb_true_iff in G as [G1 G2].
  destruct (has_file s to || is_dir_wt s to); [reflexivity|].
  rewrite G5. cbn [negb].
  apply fmode_eqb_eq in G1. apply N.eqb_eq in G2. apply N.eqb_eq in G3. apply negb_true_iff in G4.
  rewrite G1, G2, G3, G4. reflexivity.
Qed.

(* ------------------------------------------------------------ clean -d *)

Lemma g_class_untracked l r :
  match g_class l r with Some (_, w) => code_eqb w CUntracked | None => false end =
  match r with Some Ins => true | _ => false end.
Proof. destruct l as [[]|], r as [[]|]; reflexivity. Qed.

Lemma clean_cond s q :
  code_eqb (snd (sfile (status_map s) q)) CUntracked && is_some (sget (status_map s) q) =
  match right_change s q with Some Ins => true | _ => false end.
Proof.
  unfold sfile. rewrite status_map_get. rewrite <- (g_class_untracked (left_change s q)).
  destruct (g_class (left_change s q) (right_change s q)) as [[x w]|]; cbn; [now rewrite andb_true_r|reflexivity].
Qed.

Definition clean_guard (s : state) : bool :=
  forallb (fun f => Bool.eqb (wf_ignored f) (wf_ignored_git f)) (st_wt s) &&
  forallb (fun f => negb (existsb (fun e => under (ie_path e) (wf_path f)) (st_index s))) (st_wt s).

Lemma find_w_in l q f : find_w l q = Some f -> In f l.
Proof.
  induction l as [|x l IH]; [discriminate|]. cbn [find_w].
  destruct (bytes_eqb (wf_path x) q); intros H; [inversion H; now left|right; now apply IH].
Qed.

Lemma right_ins s q :
  forallb (fun f => Bool.eqb (wf_ignored f) (wf_ignored_git f)) (st_wt s) = true ->
  match right_change s q with Some Ins => true | _ => false end = git_untracked s q.
Proof.
  intros G. unfold right_change, git_untracked, wt_visible.
  destruct (find_w (st_wt s) q) as [f|] eqn:Ew.
  - rewrite (find_w_path _ _ _ Ew).
    assert (Hf : wf_ignored f = wf_ignored_git f).
    { rewrite forallb_forall in G. apply eqb_prop. apply G. eapply find_w_in; eassumption. }
    destruct (find_i (st_index s) q) as [e|]; cbn [option_map change1].
    + destruct (nhash_eqb _ _); reflexivity.
    + rewrite <- Hf. destruct (wf_ignored f); reflexivity.
  - destruct (find_i (st_index s) q); reflexivity.
Qed.

Lemma clean_d_eq s : clean_guard s = true -> g_clean s true = s_clean s true.
Proof.
  unfold clean_guard. intros G. apply andb_true_iff in G as [G1 G2].
  unfold g_clean, s_clean. cbv zeta. f_equal. f_equal. f_equal.
  rewrite forallb_forall in G2.
  apply filter_ext_in. intros q Hq. apply in_map_iff in Hq as [f [<- Hf]].
  rewrite clean_cond, (right_ins s _ G1), (G2 f Hf). cbn [orb]. rewrite !andb_true_r. reflexivity.
Qed.
