(* Proofs/C36Refspec.v — refspecs map names there and back: for a valid
   refspec s and a name n it matches, the reversed refspec matches Dst(n) and
   maps it back to n.  pruneRemotes (fetch) and deleteReferences with prune
   (push) rely on this; it holds for forced refspecs only since Reverse keeps
   the '+' in front. *)
From Coq Require Import List NArith Bool Lia Arith.
From GoGit Require Import Base.Out Model.RefSpec.
Import ListNotations.
Local Open Scope N_scope.

Lemma beq_bytes_refl : forall a, beq_bytes a a = true.
Proof. induction a as [|x a IH]; cbn; [reflexivity | now rewrite N.eqb_refl, IH]. Qed.

Lemma beq_bytes_true : forall a b, beq_bytes a b = true -> a = b.
Proof.
  induction a as [|x a IH]; destruct b as [|y b]; cbn; intros H; try discriminate; [reflexivity|].
  apply andb_true_iff in H. destruct H as [A B]. apply N.eqb_eq in A. subst. f_equal. now apply IH.
Qed.

Lemma count_app : forall c a b, count_byte c (a ++ b) = (count_byte c a + count_byte c b)%nat.
Proof. induction a as [|x a IH]; intros b; cbn [count_byte app]; [reflexivity | rewrite IH; lia]. Qed.

(* cut_at: the text splits at the first occurrence *)
Lemma cut_at_spec : forall c s a b f, cut_at c s = (a, b, f) ->
  count_byte c a = O /\ (if f then s = a ++ c :: b else s = a /\ b = []).
Proof.
  induction s as [|x s IH]; intros a b f H; cbn [cut_at] in H.
  - inversion H; subst. cbn. auto.
  - destruct (x =? c) eqn:E.
    + inversion H; subst. apply N.eqb_eq in E. subst. cbn. auto.
    + destruct (cut_at c s) as [[a0 b0] f0] eqn:C. inversion H; subst.
      destruct (IH _ _ _ eq_refl) as [A B]. cbn [count_byte]. rewrite E. split; [exact A|].
      destruct f; [now rewrite B | destruct B; subst; auto].
Qed.

Lemma cut_at_found : forall c s, count_byte c s <> O -> exists a b, cut_at c s = (a, b, true).
Proof.
  induction s as [|x s IH]; intros H; cbn [count_byte] in H; [contradiction|]. cbn [cut_at].
  destruct (x =? c) eqn:E; [eauto|]. cbn in H. destruct (IH H) as (a & b & C). rewrite C. eauto.
Qed.

Lemma cut_at_app : forall c a b, count_byte c a = O -> cut_at c (a ++ c :: b) = (a, b, true).
Proof.
  induction a as [|x a IH]; intros b H; cbn [app cut_at].
  - now rewrite N.eqb_refl.
  - cbn [count_byte] in H. destruct (x =? c) eqn:E; [cbn in H; discriminate|]. cbn in H. now rewrite IH.
Qed.

Lemma cut_at_none : forall c s, count_byte c s = O -> cut_at c s = (s, [], false).
Proof.
  induction s as [|x s IH]; intros H; cbn [cut_at]; [reflexivity|]. cbn [count_byte] in H.
  destruct (x =? c) eqn:E; [cbn in H; discriminate|]. cbn in H. now rewrite IH.
Qed.

Lemma has_prefix_app : forall p r, has_prefix p (p ++ r) = true.
Proof. induction p as [|x p IH]; intros r; cbn; [reflexivity | now rewrite N.eqb_refl, IH]. Qed.

Lemma has_prefix_split : forall p s, has_prefix p s = true -> exists r, s = p ++ r.
Proof.
  induction p as [|x p IH]; intros s H; [exists s; reflexivity|]. destruct s as [|y s]; cbn in H; [discriminate|].
  apply andb_true_iff in H. destruct H as [A B]. apply N.eqb_eq in A. subst. destruct (IH _ B) as (r & ->). now exists r.
Qed.

Lemma has_suffix_app : forall p r, has_suffix p (r ++ p) = true.
Proof. intros. unfold has_suffix. rewrite rev_app_distr. apply has_prefix_app. Qed.

Lemma has_suffix_split : forall p s, has_suffix p s = true -> exists r, s = r ++ p.
Proof.
  intros p s H. unfold has_suffix in H. destruct (has_prefix_split _ _ H) as (r & E).
  exists (rev r). rewrite <- (rev_involutive s), E, rev_app_distr, rev_involutive. reflexivity.
Qed.

(* a name matched by pre*suf is pre ++ m ++ suf *)
Lemma glob_split : forall pre suf n : bytes,
  (List.length pre + List.length suf <= List.length n)%nat -> has_prefix pre n = true -> has_suffix suf n = true ->
  exists m, n = pre ++ m ++ suf.
Proof.
  intros pre suf n L P S. destruct (has_prefix_split _ _ P) as (r & ->).
  destruct (has_suffix_split _ _ S) as (q & E).
  rewrite app_length in L.
  assert (Hs : has_suffix suf r = true).
  { (* suf is a suffix of pre ++ r and fits inside r *)
    assert (Lr : (List.length suf <= List.length r)%nat) by lia.
    assert (r = skipn (List.length pre) (q ++ suf)) by (rewrite <- E, skipn_app, Nat.sub_diag, skipn_all; reflexivity).
    assert (Lq : (List.length pre <= List.length q)%nat).
    { apply (f_equal (@List.length _)) in E. rewrite !app_length in E. lia. }
    rewrite H. rewrite skipn_app. replace (List.length pre - List.length q)%nat with O by lia. cbn [skipn].
    apply has_suffix_app. }
  destruct (has_suffix_split _ _ Hs) as (m & ->). now exists m.
Qed.

Lemma middle : forall pre m suf : bytes,
  firstn (List.length (pre ++ m ++ suf) - List.length pre - List.length suf) (skipn (List.length pre) (pre ++ m ++ suf)) = m.
Proof.
  intros. rewrite skipn_app, Nat.sub_diag, skipn_all. cbn [app skipn]. rewrite !app_length.
  replace (List.length pre + (List.length m + List.length suf) - List.length pre - List.length suf)%nat with (List.length m) by lia.
  rewrite firstn_app, Nat.sub_diag, firstn_all. cbn [firstn]. now rewrite app_nil_r.
Qed.

(* the destination must not begin with '+': "a:+b" reversed would read as the
   forced refspec "+b:a" *)
Definition dst_plain (s : bytes) : bool :=
  match rs_dstraw s with c :: _ => negb (c =? PLUS) | [] => true end.

Section RoundTrip.
  Variable s : bytes.
  Hypothesis Hv : rs_valid s = true.
  Hypothesis Hp : dst_plain s = true.

  Let pfx : bytes := if rs_force s then [PLUS] else [].
  Let body := if rs_force s then tl s else s.
  Let src := fst (fst (cut_at COLON body)).
  Let dst := snd (fst (cut_at COLON body)).

  Lemma pfx_counts : count_byte COLON pfx = O /\ count_byte STAR pfx = O.
  Proof. unfold pfx. destruct (rs_force s); split; reflexivity. Qed.

  Lemma valid_shape :
    s = pfx ++ body /\ body = src ++ COLON :: dst /\ count_byte COLON src = O /\ count_byte COLON dst = O /\
    count_byte STAR src = count_byte STAR dst /\ (count_byte STAR src < 2)%nat /\
    rs_src s = src /\ rs_dstraw s = dst.
  Proof.
    unfold rs_valid in Hv. apply andb_true_iff in Hv. destruct Hv as [H1 H3]. apply andb_true_iff in H1. destruct H1 as [H1 H2].
    apply Nat.eqb_eq in H1. apply andb_true_iff in H3. destruct H3 as [H3 H4]. apply Nat.eqb_eq in H3. apply Nat.ltb_lt in H4.
    destruct pfx_counts as [Pc Ps].
    assert (Hs : s = pfx ++ body).
    { unfold pfx, body, rs_force. destruct s as [|c r]; [reflexivity|]. destruct (c =? PLUS) eqn:E; [apply N.eqb_eq in E; now subst | reflexivity]. }
    assert (Cb : count_byte COLON body = 1%nat) by (rewrite Hs, count_app, Pc in H1; exact H1).
    destruct (cut_at_found COLON body ltac:(lia)) as (a & b & C).
    destruct (cut_at_spec _ _ _ _ _ C) as [Ca Cs]. cbn in Cs.
    assert (Esrc : src = a) by (unfold src; now rewrite C). assert (Edst : dst = b) by (unfold dst; now rewrite C).
    assert (Cd : count_byte COLON b = O).
    { rewrite Cs, count_app in Cb. cbn [count_byte] in Cb. rewrite N.eqb_refl in Cb. lia. }
    assert (Cw : cut_at COLON s = (pfx ++ a, b, true)).
    { rewrite Hs at 1. rewrite Cs, app_assoc. apply cut_at_app. now rewrite count_app, Pc, Ca. }
    unfold rs_dstraw in H3, H4 |- *. rewrite Cw in H3, H4 |- *. cbn [fst snd] in *.
    rewrite count_app, Ps in H3, H4. cbn in H3, H4.
    rewrite Esrc, Edst. repeat split; auto.
  Qed.

  Lemma reverse_shape : rs_reverse s = pfx ++ dst ++ COLON :: src.
  Proof. unfold rs_reverse. fold body pfx. unfold src, dst. destruct (cut_at COLON body) as [[a b] f]. reflexivity. Qed.

  Lemma reverse_parts :
    rs_src (rs_reverse s) = dst /\ rs_dstraw (rs_reverse s) = src /\ rs_wild (rs_reverse s) = rs_wild s.
  Proof.
    destruct valid_shape as (Hs & Hb & Cs & Cd & St & Lt & Es & Ed).
    destruct pfx_counts as [Pc Ps]. rewrite reverse_shape.
    assert (F : rs_force (pfx ++ dst ++ COLON :: src) = rs_force s).
    { unfold pfx. destruct (rs_force s) eqn:E; [reflexivity|]. cbn [app].
      unfold dst_plain in Hp. rewrite Ed in Hp. destruct dst as [|c r]; [reflexivity|]. cbn. now apply negb_true_iff in Hp. }
    split; [|split].
    - unfold rs_src. rewrite F. fold pfx.
      replace (if rs_force s then tl (pfx ++ dst ++ COLON :: src) else pfx ++ dst ++ COLON :: src) with (dst ++ COLON :: src)
        by (unfold pfx; destruct (rs_force s); reflexivity).
      now rewrite cut_at_app.
    - unfold rs_dstraw. rewrite app_assoc, cut_at_app; [reflexivity | now rewrite count_app, Pc, Cd].
    - assert (E : count_byte STAR (pfx ++ dst ++ COLON :: src) = count_byte STAR s).
      { transitivity (count_byte STAR (pfx ++ src ++ COLON :: dst)).
        - rewrite !count_app. cbn [count_byte]. replace (COLON =? STAR) with false by reflexivity. lia.
        - rewrite <- Hb, <- Hs. reflexivity. }
      unfold rs_wild. now rewrite E.
  Qed.

  (* the round trip *)
  Lemma roundtrip : forall n, rs_match s n = true ->
    rs_match (rs_reverse s) (rs_dst s n) = true /\ rs_dst (rs_reverse s) (rs_dst s n) = n.
  Proof.
    intros n M. destruct valid_shape as (Hs & Hb & Cs & Cd & St & Lt & Es & Ed).
    destruct reverse_parts as (Rs & Rd & Rw).
    unfold rs_match, rs_dst in *. rewrite Rw, Rs, Rd, Es, Ed in *.
    destruct (rs_wild s) eqn:W.
    - (* one '*' on each side *)
      assert (Ws : count_byte STAR src = 1%nat).
      { unfold rs_wild in W. apply negb_true_iff, Nat.eqb_neq in W. rewrite Hs, Hb, !count_app in W.
        destruct pfx_counts as [_ Ps]. rewrite Ps in W. cbn [count_byte] in W. replace (COLON =? STAR) with false in W by reflexivity. lia. }
      destruct (cut_at_found STAR src ltac:(lia)) as (pre & suf & C1).
      destruct (cut_at_found STAR dst ltac:(lia)) as (b4 & af & C2).
      rewrite C1, C2 in *.
      apply andb_true_iff in M. destruct M as [M M3]. apply andb_true_iff in M. destruct M as [M1 M2].
      apply Nat.leb_le in M1. destruct (glob_split _ _ _ M1 M2 M3) as (m & ->).
      rewrite middle. split.
      + rewrite !app_length. rewrite has_prefix_app. rewrite app_assoc, has_suffix_app.
        rewrite !andb_true_r. apply Nat.leb_le. lia.
      + rewrite middle. reflexivity.
    - (* no wildcard *)
      apply beq_bytes_true in M. subst n. split; [apply beq_bytes_refl | reflexivity].
  Qed.
End RoundTrip.
