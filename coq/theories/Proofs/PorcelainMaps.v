(* Proofs/PorcelainMaps.v — lemmas about the association-list maps of
   Model/Porcelain.v and the folds the porcelain model is made of. *)
From Coq Require Import List NArith ZArith Bool Lia.
From GoGit Require Import Base.Out Model.Porcelain.
Import ListNotations.
Local Open Scope N_scope.
Arguments beqb : simpl never.

Lemma bcmp_eq : forall a b, bcmp a b = Eq <-> a = b.
Proof.
  induction a as [|x a IH]; destruct b as [|y b]; cbn; split; intro H; try reflexivity; try discriminate.
  - destruct (N.compare x y) eqn:E; try discriminate.
    apply N.compare_eq in E. apply IH in H. now subst.
  - inversion H; subst. rewrite N.compare_refl. now apply IH.
Qed.

Lemma beqb_true : forall a b, beqb a b = true <-> a = b.
Proof.
  intros a b. unfold beqb. split.
  - destruct (bcmp a b) eqn:E; try discriminate. intros _. now apply bcmp_eq.
  - intros ->. now rewrite (proj2 (bcmp_eq b b) eq_refl).
Qed.

Lemma beqb_refl : forall a, beqb a a = true.
Proof. intro a. now apply beqb_true. Qed.

Lemma beqb_false : forall a b, beqb a b = false <-> a <> b.
Proof.
  intros a b. split.
  - intros H E. apply beqb_true in E. congruence.
  - intro H. destruct (beqb a b) eqn:E; [apply beqb_true in E; contradiction | reflexivity].
Qed.

Lemma beqb_sym : forall a b, beqb a b = beqb b a.
Proof.
  intros a b. destruct (beqb a b) eqn:E.
  - apply beqb_true in E. subst. now rewrite beqb_refl.
  - symmetry. apply beqb_false. apply beqb_false in E. congruence.
Qed.

Section Maps.
Context {A : Type}.
Implicit Types (m : amap A) (p q : bytes).

Lemma lookup_insert_eq : forall m p (v : A), lookup p (insert p v m) = Some v.
Proof.
  induction m as [|[q w] r IH]; intros p v; cbn.
  - now rewrite beqb_refl.
  - destruct (bcmp p q) eqn:E; cbn.
    + now rewrite beqb_refl.
    + now rewrite beqb_refl.
    + assert (beqb p q = false) as -> by (unfold beqb; now rewrite E). apply IH.
Qed.

Lemma lookup_insert_neq : forall m p q (v : A), p <> q -> lookup p (insert q v m) = lookup p m.
Proof.
  induction m as [|[k w] r IH]; intros p q v Hne; cbn.
  - apply beqb_false in Hne. now rewrite Hne.
  - destruct (bcmp q k) eqn:E; cbn.
    + apply bcmp_eq in E. subst k. apply beqb_false in Hne. now rewrite Hne.
    + apply beqb_false in Hne. now rewrite Hne.
    + destruct (beqb p k); [reflexivity | now apply IH].
Qed.

Lemma lookup_remove_eq : forall m p, lookup p (remove p m) = None.
Proof.
  induction m as [|[k w] r IH]; intros p; cbn; [reflexivity|].
  destruct (beqb p k) eqn:E; cbn; [apply IH|]. rewrite E. apply IH.
Qed.

Lemma lookup_remove_neq : forall m p q, p <> q -> lookup p (remove q m) = lookup p m.
Proof.
  induction m as [|[k w] r IH]; intros p q Hne; cbn; [reflexivity|].
  destruct (beqb q k) eqn:E; cbn.
  - apply beqb_true in E. subst k. rewrite (proj2 (beqb_false p q) Hne). now apply IH.
  - destruct (beqb p k); [reflexivity | now apply IH].
Qed.

Lemma lookup_some_in_keys : forall m p (v : A), lookup p m = Some v -> In p (keys m).
Proof.
  induction m as [|[k w] r IH]; intros p v; cbn; [discriminate|].
  destruct (beqb p k) eqn:E.
  - apply beqb_true in E. now left.
  - intro H. right. eapply IH; eauto.
Qed.

Lemma lookup_none_not_in_keys : forall m p, lookup p m = None -> ~ In p (keys m).
Proof.
  induction m as [|[k w] r IH]; intros p; cbn; [tauto|].
  destruct (beqb p k) eqn:E; [discriminate|].
  intros H [H1|H1]; [subst; now rewrite beqb_refl in E | now apply (IH p H)].
Qed.

Lemma in_keys_lookup : forall m p, In p (keys m) -> exists v, lookup p m = Some v.
Proof.
  intros m p H. destruct (lookup p m) eqn:E; [eauto|].
  now apply lookup_none_not_in_keys in E.
Qed.
End Maps.

(* boolean membership in a list of paths *)
Definition mem (p : bytes) (l : list bytes) : bool := existsb (beqb p) l.

Lemma mem_in : forall p l, mem p l = true <-> In p l.
Proof.
  intros p l. unfold mem. rewrite existsb_exists. split.
  - intros (x & Hx & E). apply beqb_true in E. now subst.
  - intro H. exists p. split; [assumption | apply beqb_refl].
Qed.

Lemma mem_false : forall p l, mem p l = false <-> ~ In p l.
Proof.
  intros p l. rewrite <- mem_in. destruct (mem p l); split; intro H; congruence.
Qed.

Lemma in_union_keys : forall a b p, In p (union_keys a b) <-> In p a \/ In p b.
Proof.
  induction a as [|x a IH]; intros b p; cbn; [tauto|].
  destruct (existsb (beqb x) b) eqn:E.
  - rewrite IH. split; [tauto|]. intros [[H|H]|H]; try tauto.
    subst x. right. now apply (proj1 (mem_in p b)).
  - cbn. rewrite IH. tauto.
Qed.

(* equality tests on entries reflect equality *)
Lemma kind_eqb_true : forall a b, kind_eqb a b = true <-> a = b.
Proof. destruct a, b; cbn; split; intro; congruence. Qed.

Lemma fent_eqb_true : forall a b, fent_eqb a b = true <-> a = b.
Proof.
  intros [k1 c1] [k2 c2]. unfold fent_eqb. cbn. rewrite andb_true_iff, kind_eqb_true, beqb_true.
  split; [intros [-> ->]; reflexivity | intro H; inversion H; tauto].
Qed.

Lemma ofent_eqb_true : forall a b, ofent_eqb a b = true <-> a = b.
Proof.
  intros [a|] [b|]; cbn; try (split; intro; congruence).
  rewrite fent_eqb_true. split; intro H; [now subst | now inversion H].
Qed.

Lemma differs_false : forall a b p, differs a b p = false <-> lookup p a = lookup p b.
Proof.
  intros a b p. unfold differs. rewrite negb_false_iff. apply ofent_eqb_true.
Qed.

Lemma differs_true : forall a b p, differs a b p = true <-> lookup p a <> lookup p b.
Proof.
  intros a b p. rewrite <- differs_false. destruct (differs a b p); split; intro H; congruence.
Qed.

Lemma in_changed_paths : forall a b p, In p (changed_paths a b) <-> lookup p a <> lookup p b.
Proof.
  intros a b p. unfold changed_paths. rewrite filter_In, in_union_keys, differs_true.
  split; [tauto|]. intro H. split; [|assumption].
  destruct (lookup p a) eqn:Ea.
  - left. eapply lookup_some_in_keys; eauto.
  - destruct (lookup p b) eqn:Eb; [|congruence]. right. eapply lookup_some_in_keys; eauto.
Qed.

(* a fold whose step sets the value at its own path and leaves the others *)
Lemma fold_pointwise {A} (g : bytes -> option A) (f : amap A -> bytes -> amap A) :
  (forall acc q, lookup q (f acc q) = g q) ->
  (forall acc q p, p <> q -> lookup p (f acc q) = lookup p acc) ->
  forall l acc p, lookup p (fold_left f l acc) = if mem p l then g p else lookup p acc.
Proof.
  intros Heq Hne. induction l as [|q l IH]; intros acc p; cbn [fold_left]; [reflexivity|].
  rewrite IH. change (mem p (q :: l)) with (beqb p q || mem p l). destruct (mem p l) eqn:El.
  - now rewrite orb_true_r.
  - rewrite orb_false_r. destruct (beqb p q) eqn:E.
    + apply beqb_true in E. subst. apply Heq.
    + apply beqb_false in E. now apply Hne.
Qed.

(* resetIndex leaves exactly the tree in the index *)
Lemma reset_index_lookup : forall t ix p, lookup p (fst (reset_index t ix)) = lookup p t.
Proof.
  intros t ix p. unfold reset_index. cbn [fst].
  rewrite (fold_pointwise (fun q => lookup q t) (reset_index_step t)).
  - destruct (mem p (changed_paths ix t)) eqn:E; [reflexivity|].
    apply mem_false in E. rewrite in_changed_paths in E.
    destruct (lookup p ix) eqn:E1, (lookup p t) eqn:E2; try reflexivity;
      try (exfalso; apply E; congruence).
    destruct (ofent_eqb (Some f) (Some f0)) eqn:E3.
    + now apply ofent_eqb_true in E3.
    + exfalso. apply E. intro H. rewrite H in E3. cbn in E3.
      now rewrite (proj2 (fent_eqb_true f0 f0) eq_refl) in E3.
  - intros acc q. unfold reset_index_step. destruct (lookup q t) eqn:E.
    + apply lookup_insert_eq.
    + apply lookup_remove_eq.
  - intros acc q p0 Hne. unfold reset_index_step. destruct (lookup q t).
    + rewrite lookup_insert_neq by assumption. now apply lookup_remove_neq.
    + now apply lookup_remove_neq.
Qed.

Lemma reset_index_removed : forall t ix, snd (reset_index t ix) = changed_paths ix t.
Proof. reflexivity. Qed.

(* the checkoutChange fold, when the index already equals the tree pointwise *)
Definition agree (a b : fmap) : Prop := forall p, lookup p a = lookup p b.

Lemma checkout_fold : forall t l ix w,
  agree ix t ->
  exists ix' w',
    fold_left (checkout_change t) l (None, (ix, w)) = (None, (ix', w')) /\
    agree ix' t /\
    forall p, lookup p w' = if mem p l then lookup p t else lookup p w.
Proof.
  intros t. induction l as [|q l IH]; intros ix w Hag; cbn [fold_left].
  - exists ix, w. repeat split; auto.
  - unfold checkout_change at 2. destruct (lookup q ix) eqn:Eq.
    + rewrite Hag in Eq. rewrite Eq.
      assert (Hag' : agree (insert q f (remove q ix)) t).
      { intro p. destruct (beqb p q) eqn:E.
        - apply beqb_true in E. subst. now rewrite lookup_insert_eq.
        - apply beqb_false in E. rewrite lookup_insert_neq, lookup_remove_neq by assumption. apply Hag. }
      destruct (IH _ (insert q f (remove q w)) Hag') as (ix' & w' & H1 & H2 & H3).
      exists ix', w'. repeat split; auto.
      intro p. rewrite H3. change (mem p (q :: l)) with (beqb p q || mem p l).
      destruct (mem p l); [now rewrite orb_true_r|]. rewrite orb_false_r.
      destruct (beqb p q) eqn:E.
      * apply beqb_true in E. subst. now rewrite lookup_insert_eq.
      * apply beqb_false in E. now rewrite lookup_insert_neq, lookup_remove_neq by assumption.
    + destruct (IH ix (remove q w) Hag) as (ix' & w' & H1 & H2 & H3).
      exists ix', w'. repeat split; auto.
      intro p. rewrite H3. change (mem p (q :: l)) with (beqb p q || mem p l).
      destruct (mem p l); [now rewrite orb_true_r|]. rewrite orb_false_r.
      destruct (beqb p q) eqn:E.
      * apply beqb_true in E. subst. rewrite lookup_remove_eq. rewrite Hag in Eq. congruence.
      * apply beqb_false in E. now rewrite lookup_remove_neq by assumption.
Qed.

(* plain removal fold *)
Lemma remove_fold : forall l (w : fmap) p,
  lookup p (fold_left (fun acc q => remove q acc) l w) = if mem p l then None else lookup p w.
Proof.
  intros l w p.
  apply (fold_pointwise (fun _ => None) (fun acc q => remove q acc)).
  - intros. apply lookup_remove_eq.
  - intros. now apply lookup_remove_neq.
Qed.
