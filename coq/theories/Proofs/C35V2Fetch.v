(* Proofs/C35V2Fetch.v — protocol v2: the fetch arguments and the command
   request (command=, capabilities, delim-pkt, arguments, flush-pkt) round-trip. *)
From Coq Require Import List Arith NArith ZArith Bool Lia String.
From GoGit Require Import Base.Out Base.GoInt Gen.C34 Model.PktLine Model.C35Utf8 Model.Packp Model.PackpV2
  Proofs.C34Pkt Proofs.C35Base Proofs.C35Utf8 Proofs.C35U Proofs.C35Msgs Proofs.C35Caps Proofs.C35Dec Proofs.C35Ul
  Proofs.C35V2Base Proofs.C35V2Caps.
Import ListNotations.

(* ---------- parseFullHash (h.String()) = h ---------- *)
Lemma pfh_str h : hash_ok h = true -> parse_full_hash (hash_str h) = Some h.
Proof.
  intros H. unfold parse_full_hash. rewrite (hash_str_length h H), (from_hex_str h H).
  unfold hash_hexsize, hash_size. destruct (h256 h); reflexivity.
Qed.

(* ---------- one argument line ---------- *)
Lemma fa_step L rest a a' : C35Utf8.clean_u L = true -> L <> [] -> fetchargs_line L a = Some a' ->
  fetchargs_decode (rdp (PData (L ++ [NL])) :: rest) a = fetchargs_decode rest a'.
Proof.
  intros Hc Hne Hl. rewrite rdp_line. cbn [fetchargs_decode rd_err rd_len rd_payload].
  rewrite !len_data_nz by lia. cbn [orb]. rewrite (C35Utf8.trim_u_clean L Hc).
  destruct L as [|c t]; [contradiction|]. now rewrite Hl.
Qed.

(* what the switch of FetchArgs.Decode does with each kind of line *)
Lemma fl_want x a : fetchargs_line (B "want " ++ x) a =
  match parse_full_hash x with Some h => Some (fa_set_wants a (fa_wants a ++ [h])) | None => None end.
Proof. reflexivity. Qed.
Lemma fl_have x a : fetchargs_line (B "have " ++ x) a =
  match parse_full_hash x with Some h => Some (fa_set_haves a (fa_haves a ++ [h])) | None => None end.
Proof. reflexivity. Qed.
Lemma fl_shallow x a : fetchargs_line (B "shallow " ++ x) a =
  match parse_full_hash x with Some h => Some (fa_set_shallows a (fa_shallows a ++ [h])) | None => None end.
Proof. reflexivity. Qed.
Lemma fl_deepen x a : fetchargs_line (B "deepen " ++ x) a =
  match parse_int x with Some n => Some (fa_set_deepen a n) | None => None end.
Proof. reflexivity. Qed.
Lemma fl_since x a : fetchargs_line (B "deepen-since " ++ x) a =
  match parse_int x with Some t => Some (fa_set_since a (since_of t)) | None => None end.
Proof. reflexivity. Qed.
Lemma fl_not x a : fetchargs_line (B "deepen-not " ++ x) a = Some (fa_set_not a (fa_not a ++ [x])).
Proof. reflexivity. Qed.
Lemma fl_filter x a : fetchargs_line (B "filter " ++ x) a = Some (fa_set_filter a x).
Proof. reflexivity. Qed.

(* ---------- lines "<kw> <hex>" and "<kw> <word>" are clean ---------- *)
Lemma clean_kw_hash (kw : string) c t h : B kw = c :: t -> C35Utf8.asciins c = true -> hash_ok h = true ->
  C35Utf8.clean_u (B kw ++ hash_str h) = true /\ B kw ++ hash_str h <> [].
Proof.
  intros E Hc Hh. rewrite E. split; [|discriminate]. cbn [app].
  apply (clean_u_prefix_hex c t (hash_str h) Hc (hash_str_ne h Hh) (hash_str_asciins h Hh)).
Qed.

Definition word_ok (w : bytes) : bool := match w with [] => false | _ => forallb tokc w end.

Lemma word_asciins w : word_ok w = true -> w <> [] /\ forallb C35Utf8.asciins w = true.
Proof.
  unfold word_ok. destruct w as [|c w]; [discriminate|]. intros H. split; [discriminate|].
  rewrite forallb_forall in *. intros x Hx. now apply tokc_asciins, H.
Qed.

Lemma clean_kw_word (kw : string) c t w : B kw = c :: t -> C35Utf8.asciins c = true -> word_ok w = true ->
  C35Utf8.clean_u (B kw ++ w) = true /\ B kw ++ w <> [].
Proof.
  intros E Hc Hw. destruct (word_asciins w Hw) as [Hne Ha]. rewrite E. split; [|discriminate]. cbn [app].
  apply (clean_u_prefix_hex c t w Hc Hne Ha).
Qed.

Lemma dec_asciins z : forallb C35Utf8.asciins (dec_bytes z) = true.
Proof.
  destruct (dec_bytes_chars z) as [H _]. rewrite forallb_forall in *. intros c Hc. specialize (H c Hc).
  apply orb_prop in H. destruct H as [H|H].
  - unfold is_digit in H. apply andb_prop in H. destruct H as [H1 H2]. apply N.leb_le in H1, H2.
    unfold C35Utf8.asciins, C35Utf8.ascii, is_space.
    destruct (N.ltb_spec c 128); [|lia].
    destruct (N.eqb_spec c 9); [lia|]. destruct (N.eqb_spec c 10); [lia|]. destruct (N.eqb_spec c 11); [lia|].
    destruct (N.eqb_spec c 12); [lia|]. destruct (N.eqb_spec c 13); [lia|]. destruct (N.eqb_spec c 32); [lia|]. reflexivity.
  - apply N.eqb_eq in H. subst c. reflexivity.
Qed.

Lemma clean_kw_dec (kw : string) c t z : B kw = c :: t -> C35Utf8.asciins c = true ->
  C35Utf8.clean_u (B kw ++ dec_bytes z) = true /\ B kw ++ dec_bytes z <> [].
Proof.
  intros E Hc. rewrite E. split; [|discriminate]. cbn [app].
  destruct (dec_bytes_chars z) as [_ Hne]. apply (clean_u_prefix_hex c t (dec_bytes z) Hc Hne (dec_asciins z)).
Qed.

(* ---------- the lists of lines ---------- *)
Lemma fa_hash_lines (kw : string) c t (upd : fetchargs -> hash -> fetchargs) :
  B kw = c :: t -> C35Utf8.asciins c = true ->
  (forall h a, hash_ok h = true -> fetchargs_line (B kw ++ hash_str h) a = Some (upd a h)) ->
  forall hs rest a, Forall (fun h => hash_ok h = true) hs ->
  fetchargs_decode (map rdp (map (fun h => PData (B kw ++ hash_str h ++ [NL])) hs) ++ rest) a
  = fetchargs_decode rest (fold_left upd hs a).
Proof.
  intros E Hc Hl. induction hs as [|h hs IH]; intros rest a H; [reflexivity|].
  inversion H; subst. cbn [map app fold_left].
  change (B kw ++ hash_str h ++ [NL]) with (B kw ++ (hash_str h ++ [NL])). rewrite app_assoc.
  destruct (clean_kw_hash kw c t h E Hc H2) as [Hcl Hne].
  rewrite (fa_step _ _ a (upd a h) Hcl Hne (Hl h a H2)). now apply IH.
Qed.

Lemma fold_wants hs a : fold_left (fun a h => fa_set_wants a (fa_wants a ++ [h])) hs a = fa_set_wants a (fa_wants a ++ hs).
Proof.
  revert a. induction hs as [|h hs IH]; intros a; [destruct a; cbn; now rewrite app_nil_r|].
  cbn [fold_left]. rewrite IH. destruct a. unfold fa_set_wants. cbn. now rewrite <- app_assoc.
Qed.
Lemma fold_haves hs a : fold_left (fun a h => fa_set_haves a (fa_haves a ++ [h])) hs a = fa_set_haves a (fa_haves a ++ hs).
Proof.
  revert a. induction hs as [|h hs IH]; intros a; [destruct a; cbn; now rewrite app_nil_r|].
  cbn [fold_left]. rewrite IH. destruct a. unfold fa_set_haves. cbn. now rewrite <- app_assoc.
Qed.
Lemma fold_shallows hs a : fold_left (fun a h => fa_set_shallows a (fa_shallows a ++ [h])) hs a = fa_set_shallows a (fa_shallows a ++ hs).
Proof.
  revert a. induction hs as [|h hs IH]; intros a; [destruct a; cbn; now rewrite app_nil_r|].
  cbn [fold_left]. rewrite IH. destruct a. unfold fa_set_shallows. cbn. now rewrite <- app_assoc.
Qed.

Lemma fa_not_lines : forall ns rest a, forallb word_ok ns = true ->
  fetchargs_decode (map rdp (map (fun r => PData (B "deepen-not " ++ r ++ [NL])) ns) ++ rest) a
  = fetchargs_decode rest (fa_set_not a (fa_not a ++ ns)).
Proof.
  induction ns as [|n ns IH]; intros rest a H.
  - cbn [map app]. rewrite app_nil_r. destruct a; reflexivity.
  - cbn [forallb] in H. apply andb_prop in H. destruct H as [H1 H2]. cbn [map app].
    change (B "deepen-not " ++ n ++ [NL]) with (B "deepen-not " ++ (n ++ [NL])). rewrite app_assoc.
    destruct (clean_kw_word "deepen-not " 100%N (skipn 1 (B "deepen-not ")) n eq_refl eq_refl H1) as [Hcl Hne].
    rewrite (fa_step _ _ a _ Hcl Hne (fl_not n a)). rewrite (IH rest _ H2).
    destruct a. unfold fa_set_not. cbn. now rewrite <- app_assoc.
Qed.

(* the flags *)
Lemma fa_flag (b : bool) (name : string) (upd : fetchargs -> fetchargs) rest a :
  (forall a0, fetchargs_decode (rdp (PData (B name ++ [NL])) :: rest) a0 = fetchargs_decode rest (upd a0)) ->
  fetchargs_decode (map rdp (flag_line b name) ++ rest) a = fetchargs_decode rest (if b then upd a else a).
Proof. intros H. destruct b; [apply H|reflexivity]. Qed.

Lemma fa_done_step rest a : fetchargs_decode (rdp (PData (B "done" ++ [NL])) :: rest) a = fetchargs_decode rest (fa_set_done a).
Proof. reflexivity. Qed.
Lemma fa_thin_step rest a : fetchargs_decode (rdp (PData (B "thin-pack" ++ [NL])) :: rest) a = fetchargs_decode rest (fa_set_thin a).
Proof. reflexivity. Qed.
Lemma fa_noprogress_step rest a : fetchargs_decode (rdp (PData (B "no-progress" ++ [NL])) :: rest) a = fetchargs_decode rest (fa_set_noprogress a).
Proof. reflexivity. Qed.
Lemma fa_includetag_step rest a : fetchargs_decode (rdp (PData (B "include-tag" ++ [NL])) :: rest) a = fetchargs_decode rest (fa_set_includetag a).
Proof. reflexivity. Qed.
Lemma fa_ofsdelta_step rest a : fetchargs_decode (rdp (PData (B "ofs-delta" ++ [NL])) :: rest) a = fetchargs_decode rest (fa_set_ofsdelta a).
Proof. reflexivity. Qed.
Lemma fa_deepenrel_step rest a : fetchargs_decode (rdp (PData (B "deepen-relative" ++ [NL])) :: rest) a = fetchargs_decode rest (fa_set_deepenrel a).
Proof. reflexivity. Qed.
Lemma fa_waitdone_step rest a : fetchargs_decode (rdp (PData (B "wait-for-done" ++ [NL])) :: rest) a = fetchargs_decode rest (fa_set_waitdone a).
Proof. reflexivity. Qed.

(* an optional line seen as one update of the record *)
Lemma push_done (b : bool) x : (if b then fa_set_done x else x) =
  mkfetchargs (fa_wants x) (fa_haves x) (fa_done x || b) (fa_thin x) (fa_noprogress x) (fa_includetag x) (fa_ofsdelta x) (fa_shallows x)
              (fa_deepen x) (fa_deepenrel x) (fa_since x) (fa_not x) (fa_filter x) (fa_waitdone x).
Proof. destruct b, x; cbn; rewrite ?orb_true_r, ?orb_false_r; reflexivity. Qed.
Lemma push_thin (b : bool) x : (if b then fa_set_thin x else x) =
  mkfetchargs (fa_wants x) (fa_haves x) (fa_done x) (fa_thin x || b) (fa_noprogress x) (fa_includetag x) (fa_ofsdelta x) (fa_shallows x)
              (fa_deepen x) (fa_deepenrel x) (fa_since x) (fa_not x) (fa_filter x) (fa_waitdone x).
Proof. destruct b, x; cbn; rewrite ?orb_true_r, ?orb_false_r; reflexivity. Qed.
Lemma push_noprogress (b : bool) x : (if b then fa_set_noprogress x else x) =
  mkfetchargs (fa_wants x) (fa_haves x) (fa_done x) (fa_thin x) (fa_noprogress x || b) (fa_includetag x) (fa_ofsdelta x) (fa_shallows x)
              (fa_deepen x) (fa_deepenrel x) (fa_since x) (fa_not x) (fa_filter x) (fa_waitdone x).
Proof. destruct b, x; cbn; rewrite ?orb_true_r, ?orb_false_r; reflexivity. Qed.
Lemma push_includetag (b : bool) x : (if b then fa_set_includetag x else x) =
  mkfetchargs (fa_wants x) (fa_haves x) (fa_done x) (fa_thin x) (fa_noprogress x) (fa_includetag x || b) (fa_ofsdelta x) (fa_shallows x)
              (fa_deepen x) (fa_deepenrel x) (fa_since x) (fa_not x) (fa_filter x) (fa_waitdone x).
Proof. destruct b, x; cbn; rewrite ?orb_true_r, ?orb_false_r; reflexivity. Qed.
Lemma push_ofsdelta (b : bool) x : (if b then fa_set_ofsdelta x else x) =
  mkfetchargs (fa_wants x) (fa_haves x) (fa_done x) (fa_thin x) (fa_noprogress x) (fa_includetag x) (fa_ofsdelta x || b) (fa_shallows x)
              (fa_deepen x) (fa_deepenrel x) (fa_since x) (fa_not x) (fa_filter x) (fa_waitdone x).
Proof. destruct b, x; cbn; rewrite ?orb_true_r, ?orb_false_r; reflexivity. Qed.
Lemma push_deepenrel (b : bool) x : (if b then fa_set_deepenrel x else x) =
  mkfetchargs (fa_wants x) (fa_haves x) (fa_done x) (fa_thin x) (fa_noprogress x) (fa_includetag x) (fa_ofsdelta x) (fa_shallows x)
              (fa_deepen x) (fa_deepenrel x || b) (fa_since x) (fa_not x) (fa_filter x) (fa_waitdone x).
Proof. destruct b, x; cbn; rewrite ?orb_true_r, ?orb_false_r; reflexivity. Qed.
Lemma push_waitdone (b : bool) x : (if b then fa_set_waitdone x else x) =
  mkfetchargs (fa_wants x) (fa_haves x) (fa_done x) (fa_thin x) (fa_noprogress x) (fa_includetag x) (fa_ofsdelta x) (fa_shallows x)
              (fa_deepen x) (fa_deepenrel x) (fa_since x) (fa_not x) (fa_filter x) (fa_waitdone x || b).
Proof. destruct b, x; cbn; rewrite ?orb_true_r, ?orb_false_r; reflexivity. Qed.
Lemma push_deepen (b : bool) d x : (if b then fa_set_deepen x d else x) =
  mkfetchargs (fa_wants x) (fa_haves x) (fa_done x) (fa_thin x) (fa_noprogress x) (fa_includetag x) (fa_ofsdelta x) (fa_shallows x)
              (if b then d else fa_deepen x) (fa_deepenrel x) (fa_since x) (fa_not x) (fa_filter x) (fa_waitdone x).
Proof. destruct b, x; reflexivity. Qed.
Lemma push_since (si : option Z) x : match si with Some t => fa_set_since x (Some t) | None => x end =
  mkfetchargs (fa_wants x) (fa_haves x) (fa_done x) (fa_thin x) (fa_noprogress x) (fa_includetag x) (fa_ofsdelta x) (fa_shallows x)
              (fa_deepen x) (fa_deepenrel x) (match si with Some t => Some t | None => fa_since x end) (fa_not x) (fa_filter x) (fa_waitdone x).
Proof. destruct si, x; reflexivity. Qed.
Lemma push_filter (fl : bytes) x : match fl with [] => x | n :: l => fa_set_filter x (n :: l) end =
  mkfetchargs (fa_wants x) (fa_haves x) (fa_done x) (fa_thin x) (fa_noprogress x) (fa_includetag x) (fa_ofsdelta x) (fa_shallows x)
              (fa_deepen x) (fa_deepenrel x) (fa_since x) (fa_not x) (match fl with [] => fa_filter x | n :: l => n :: l end) (fa_waitdone x).
Proof. destruct fl, x; reflexivity. Qed.

(* ---------- the guard and the canonical form ---------- *)
Definition fetchargs_ok (a : fetchargs) : bool :=
  negb (Nat.eqb (List.length (fa_wants a)) 0) &&
  forallb hash_ok (fa_wants a) && forallb hash_ok (fa_haves a) && forallb hash_ok (fa_shallows a) &&
  (0 <=? fa_deepen a)%Z && int64_ok (fa_deepen a) &&
  match fa_since a with Some t => since_ok t | None => true end &&
  forallb word_ok (fa_not a) && match fa_filter a with [] => true | f => word_ok f end.

Definition fetchargs_canon (a : fetchargs) : fetchargs :=
  mkfetchargs (sort_hashes (fa_wants a)) (sort_hashes (fa_haves a)) (fa_done a) (fa_thin a) (fa_noprogress a)
              (fa_includetag a) (fa_ofsdelta a) (sort_hashes (fa_shallows a)) (fa_deepen a) (fa_deepenrel a)
              (fa_since a) (fa_not a) (fa_filter a) (fa_waitdone a).

Lemma sort_hashes_ok hs : forallb hash_ok hs = true -> Forall (fun h => hash_ok h = true) (sort_hashes hs).
Proof. intros H. apply sort_by_Forall. now apply forallb_Forall. Qed.

Lemma sort_hashes_ne hs : hs <> [] -> sort_hashes hs <> [].
Proof.
  intros H E. apply (f_equal (@List.length hash)) in E. unfold sort_hashes in E. rewrite sort_by_length in E.
  destruct hs; [contradiction|discriminate].
Qed.

Theorem fetchargs_roundtrip a ps tail : fetchargs_ok a = true -> fetchargs_encode a = Some ps ->
  forallb no_errline ps = true /\
  fetchargs_decode (map rdp (ps ++ [PFlush]) ++ tail) fetchargs_zero = inl (fetchargs_canon a, tail).
Proof.
  unfold fetchargs_ok. intros H He.
  repeat (apply andb_prop in H; let X := fresh "G" in destruct H as [H X]).
  rename G into Hfil, G0 into Hnot, G1 into Hsi, G2 into Hi, G3 into H0, G4 into Hsh, G5 into Hhv, G6 into Hw.
  apply Z.leb_le in H0. apply negb_true_iff in H. apply Nat.eqb_neq in H.
  unfold fetchargs_encode in He. destruct (fa_wants a) as [|w0 ws] eqn:Ew; [contradiction|]. rewrite <- Ew in *.
  apply (f_equal (fun o => match o with Some x => x | None => [] end)) in He. cbv beta iota in He. subst ps.
  set (D := if (fa_deepen a >? 0)%Z then [PData (B "deepen " ++ dec_bytes (fa_deepen a) ++ [NL])] else []).
  set (SI := match fa_since a with Some t => [PData (B "deepen-since " ++ dec_bytes t ++ [NL])] | None => [] end).
  set (FI := match fa_filter a with [] => [] | n :: l => [PData (B "filter " ++ (n :: l) ++ [NL])] end).
  split.
  - rewrite !forallb_app. repeat (apply andb_true_intro; split);
      try (apply forallb_forall; intros p Hp; apply in_map_iff in Hp; destruct Hp as (x & <- & _); reflexivity);
      try (unfold flag_line; match goal with |- context [if ?b then _ else _] => destruct b end; reflexivity).
    + unfold D. destruct (fa_deepen a >? 0)%Z; reflexivity.
    + unfold SI. destruct (fa_since a); reflexivity.
    + unfold FI. destruct (fa_filter a); reflexivity.
  - rewrite <- !app_assoc. rewrite !map_app, <- !app_assoc.
    (* wants, haves *)
    rewrite (fa_hash_lines "want " 119%N (skipn 1 (B "want ")) (fun a h => fa_set_wants a (fa_wants a ++ [h])) eq_refl eq_refl)
      by (try (intros h a0 Hh; rewrite fl_want, (pfh_str h Hh); reflexivity); now apply sort_hashes_ok).
    rewrite fold_wants. unfold fa_set_wants at 1, fetchargs_zero. cbn [fa_wants fa_haves fa_done fa_thin fa_noprogress fa_includetag fa_ofsdelta fa_shallows fa_deepen fa_deepenrel fa_since fa_not fa_filter fa_waitdone app orb].
    rewrite (fa_hash_lines "have " 104%N (skipn 1 (B "have ")) (fun a h => fa_set_haves a (fa_haves a ++ [h])) eq_refl eq_refl)
      by (try (intros h a0 Hh; rewrite fl_have, (pfh_str h Hh); reflexivity); now apply sort_hashes_ok).
    rewrite fold_haves. unfold fa_set_haves at 1. cbn [fa_wants fa_haves fa_done fa_thin fa_noprogress fa_includetag fa_ofsdelta fa_shallows fa_deepen fa_deepenrel fa_since fa_not fa_filter fa_waitdone app orb].
    (* five flags *)
    rewrite (fa_flag (fa_done a) "done" fa_set_done) by (intros; apply fa_done_step). rewrite (push_done (fa_done a)). cbn [fa_wants fa_haves fa_done fa_thin fa_noprogress fa_includetag fa_ofsdelta fa_shallows fa_deepen fa_deepenrel fa_since fa_not fa_filter fa_waitdone app orb].
    rewrite (fa_flag (fa_thin a) "thin-pack" fa_set_thin) by (intros; apply fa_thin_step). rewrite (push_thin (fa_thin a)). cbn [fa_wants fa_haves fa_done fa_thin fa_noprogress fa_includetag fa_ofsdelta fa_shallows fa_deepen fa_deepenrel fa_since fa_not fa_filter fa_waitdone app orb].
    rewrite (fa_flag (fa_noprogress a) "no-progress" fa_set_noprogress) by (intros; apply fa_noprogress_step). rewrite (push_noprogress (fa_noprogress a)). cbn [fa_wants fa_haves fa_done fa_thin fa_noprogress fa_includetag fa_ofsdelta fa_shallows fa_deepen fa_deepenrel fa_since fa_not fa_filter fa_waitdone app orb].
    rewrite (fa_flag (fa_includetag a) "include-tag" fa_set_includetag) by (intros; apply fa_includetag_step). rewrite (push_includetag (fa_includetag a)). cbn [fa_wants fa_haves fa_done fa_thin fa_noprogress fa_includetag fa_ofsdelta fa_shallows fa_deepen fa_deepenrel fa_since fa_not fa_filter fa_waitdone app orb].
    rewrite (fa_flag (fa_ofsdelta a) "ofs-delta" fa_set_ofsdelta) by (intros; apply fa_ofsdelta_step). rewrite (push_ofsdelta (fa_ofsdelta a)). cbn [fa_wants fa_haves fa_done fa_thin fa_noprogress fa_includetag fa_ofsdelta fa_shallows fa_deepen fa_deepenrel fa_since fa_not fa_filter fa_waitdone app orb].
    (* shallows *)
    rewrite (fa_hash_lines "shallow " 115%N (skipn 1 (B "shallow ")) (fun a h => fa_set_shallows a (fa_shallows a ++ [h])) eq_refl eq_refl)
      by (try (intros h a0 Hh; rewrite fl_shallow, (pfh_str h Hh); reflexivity); now apply sort_hashes_ok).
    rewrite fold_shallows. unfold fa_set_shallows at 1. cbn [fa_wants fa_haves fa_done fa_thin fa_noprogress fa_includetag fa_ofsdelta fa_shallows fa_deepen fa_deepenrel fa_since fa_not fa_filter fa_waitdone app orb].
    (* deepen *)
    assert (forall rest a0, fetchargs_decode (map rdp D ++ rest) a0
                            = fetchargs_decode rest (if (fa_deepen a >? 0)%Z then fa_set_deepen a0 (fa_deepen a) else a0)) as KD.
    { intros rest a0. unfold D. destruct (fa_deepen a >? 0)%Z; [|reflexivity]. cbn [map app].
      change (B "deepen " ++ dec_bytes (fa_deepen a) ++ [NL]) with (B "deepen " ++ (dec_bytes (fa_deepen a) ++ [NL])). rewrite app_assoc.
      destruct (clean_kw_dec "deepen " 100%N (skipn 1 (B "deepen ")) (fa_deepen a) eq_refl eq_refl) as [Hcl Hne].
      apply (fa_step _ _ a0 _ Hcl Hne). rewrite fl_deepen, parse_int_dec; [reflexivity|].
      unfold int64_ok in Hi. apply andb_prop in Hi. destruct Hi as [A B']. apply Z.leb_le in A. apply Z.ltb_lt in B'. lia. }
    rewrite KD. rewrite (push_deepen (fa_deepen a >? 0)%Z (fa_deepen a)). cbn [fa_wants fa_haves fa_done fa_thin fa_noprogress fa_includetag fa_ofsdelta fa_shallows fa_deepen fa_deepenrel fa_since fa_not fa_filter fa_waitdone app orb].
    rewrite (fa_flag (fa_deepenrel a) "deepen-relative" fa_set_deepenrel) by (intros; apply fa_deepenrel_step). rewrite (push_deepenrel (fa_deepenrel a)). cbn [fa_wants fa_haves fa_done fa_thin fa_noprogress fa_includetag fa_ofsdelta fa_shallows fa_deepen fa_deepenrel fa_since fa_not fa_filter fa_waitdone app orb].
    (* deepen-since *)
    assert (forall rest a0, fetchargs_decode (map rdp SI ++ rest) a0
                            = fetchargs_decode rest (match fa_since a with Some t => fa_set_since a0 (Some t) | None => a0 end)) as KS.
    { intros rest a0. unfold SI. destruct (fa_since a) as [t|]; [|reflexivity]. cbn [map app].
      pose proof Hsi as Hso.
      change (B "deepen-since " ++ dec_bytes t ++ [NL]) with (B "deepen-since " ++ (dec_bytes t ++ [NL])). rewrite app_assoc.
      destruct (clean_kw_dec "deepen-since " 100%N (skipn 1 (B "deepen-since ")) t eq_refl eq_refl) as [Hcl Hne].
      apply (fa_step _ _ a0 _ Hcl Hne). rewrite fl_since, parse_int_dec, (since_of_ok t Hso); [reflexivity|].
      unfold since_ok, int64_ok in Hso. apply andb_prop in Hso. destruct Hso as [Hso _].
      apply andb_prop in Hso. destruct Hso as [A B']. apply Z.leb_le in A. apply Z.ltb_lt in B'. lia. }
    rewrite KS. rewrite (push_since (fa_since a)). cbn [fa_wants fa_haves fa_done fa_thin fa_noprogress fa_includetag fa_ofsdelta fa_shallows fa_deepen fa_deepenrel fa_since fa_not fa_filter fa_waitdone app orb].
    rewrite (fa_not_lines (fa_not a) _ _ Hnot). unfold fa_set_not at 1. cbn [fa_wants fa_haves fa_done fa_thin fa_noprogress fa_includetag fa_ofsdelta fa_shallows fa_deepen fa_deepenrel fa_since fa_not fa_filter fa_waitdone app orb].
    (* filter *)
    assert (forall rest a0, fetchargs_decode (map rdp FI ++ rest) a0
                            = fetchargs_decode rest (match fa_filter a with [] => a0 | n :: l => fa_set_filter a0 (n :: l) end)) as KF.
    { intros rest a0. unfold FI. destruct (fa_filter a) as [|n l] eqn:Ef; [reflexivity|]. cbn [map app].
      change (B "filter " ++ n :: l ++ [NL]) with ((B "filter " ++ n :: l) ++ [NL]).
      destruct (clean_kw_word "filter " 102%N (skipn 1 (B "filter ")) (n :: l) eq_refl eq_refl Hfil) as [Hcl Hne].
      apply (fa_step _ _ a0 _ Hcl Hne). apply fl_filter. }
    rewrite KF. rewrite (push_filter (fa_filter a)). cbn [fa_wants fa_haves fa_done fa_thin fa_noprogress fa_includetag fa_ofsdelta fa_shallows fa_deepen fa_deepenrel fa_since fa_not fa_filter fa_waitdone app orb].
    rewrite (fa_flag (fa_waitdone a) "wait-for-done" fa_set_waitdone) by (intros; apply fa_waitdone_step). rewrite (push_waitdone (fa_waitdone a)). cbn [fa_wants fa_haves fa_done fa_thin fa_noprogress fa_includetag fa_ofsdelta fa_shallows fa_deepen fa_deepenrel fa_since fa_not fa_filter fa_waitdone app orb].
    (* the flush, and the record *)
    cbn [map app fetchargs_decode rdp item_of fst snd rd_err rd_len Z.eqb orb].
    unfold fetchargs_canon. f_equal. f_equal.
    destruct a as [wants haves dn th np it od shs dp dr si nt fl wd]. cbn [fa_wants fa_haves fa_done fa_thin fa_noprogress fa_includetag fa_ofsdelta
      fa_shallows fa_deepen fa_deepenrel fa_since fa_not fa_filter fa_waitdone] in *.
    assert (dp = 0 \/ 0 < dp)%Z as [-> | Hp] by lia.
    + destruct si, fl; reflexivity.
    + replace (dp >? 0)%Z with true by (symmetry; apply Z.gtb_lt; lia). destruct si, fl; reflexivity.
Qed.

(* ================= CommandRequest ================= *)
Definition cargs_ok (a : cargs) : bool :=
  match a with CANone => true | CALs x => lsargs_ok x | CAFetch x => fetchargs_ok x end.
Definition cargs_canon (a : cargs) : cargs :=
  match a with CANone => CANone | CALs x => CALs x | CAFetch x => CAFetch (fetchargs_canon x) end.
(* the Args decoder the caller installs for a request of that kind *)
Definition cargs_zero (a : cargs) : cargs :=
  match a with CANone => CANone | CALs _ => CALs lsargs_zero | CAFetch _ => CAFetch fetchargs_zero end.

Definition cmdreq_ok (c : cmdreq) : bool :=
  negb (Nat.eqb (List.length (cr_command c)) 0) && caps2_ok (cr_caps c) && cargs_ok (cr_args c).
Definition cmdreq_canon (c : cmdreq) : cmdreq := mkcmdreq (cr_command c) (cr_caps c) (cargs_canon (cr_args c)).

Lemma cmdreq_head cmd rest kind : cmd <> [] ->
  cmdreq_decode kind (rdp (PData (B "command=" ++ cmd ++ [NL])) :: rest) =
  match caps2_decode rest [] with
  | inr e => inr e
  | inl (len, l, r1) =>
    if negb (len =? 1)%Z then inr V2Other
    else match kind with
    | CANone =>
      let (d2, r2) := rl_next r1 in
      match rd_err d2 with
      | Some e => inr (V2Pkt e)
      | None => if (rd_len d2 =? 0)%Z then inl (mkcmdreq cmd l CANone, r2) else inr V2Other
      end
    | CALs a0 => match lsargs_decode r1 a0 with inl (a, r2) => inl (mkcmdreq cmd l (CALs a), r2) | inr e => inr e end
    | CAFetch a0 => match fetchargs_decode r1 a0 with inl (a, r2) => inl (mkcmdreq cmd l (CAFetch a), r2) | inr e => inr e end
    end
  end.
Proof.
  intros Hne. change (B "command=" ++ cmd ++ [NL]) with (B "command=" ++ (cmd ++ [NL])). rewrite app_assoc.
  unfold cmdreq_decode. cbn [rl_next]. rewrite rdp_line. cbn [rd_err rd_len rd_payload].
  rewrite len_data_nz by lia. rewrite trim_eol_app, has_prefix_app. cbn [negb].
  now rewrite (skipn_app_exact (B "command=") cmd 8 eq_refl).
Qed.

Lemma caps2_delim rest l : caps2_decode (rdp PDelim :: rest) l = inl (1%Z, l, rest).
Proof. reflexivity. Qed.
Lemma caps2_flush rest l : caps2_decode (rdp PFlush :: rest) l = inl (0%Z, l, rest).
Proof. reflexivity. Qed.

Theorem cmdreq_roundtrip c ps tail : cmdreq_ok c = true -> cmdreq_encode c = Some ps ->
  forallb no_errline ps = true /\
  cmdreq_decode (cargs_zero (cr_args c)) (map rdp ps ++ tail) = inl (cmdreq_canon c, tail).
Proof.
  unfold cmdreq_ok. intros H He. apply andb_prop in H. destruct H as [H Ha]. apply andb_prop in H. destruct H as [Hc Hcaps].
  apply negb_true_iff in Hc. apply Nat.eqb_neq in Hc.
  destruct c as [cmd caps args]. cbn [cr_command cr_caps cr_args] in *.
  assert (cmd <> []) as Hne by (destruct cmd; [cbn in Hc; contradiction|discriminate]).
  unfold cmdreq_encode in He. cbn [cr_command cr_caps cr_args] in He. destruct cmd as [|c0 cmd']; [contradiction|].
  assert (forallb no_errline (caps2_encode caps) = true) as Hcn.
  { unfold caps2_ok in Hcaps. apply andb_prop in Hcaps. now apply caps2_noerr. }
  destruct args as [|la|fa]; cbn [cargs_encode cargs_ok] in *.
  - apply (f_equal (fun o => match o with Some x => x | None => [] end)) in He. cbv beta iota in He. subst ps. split.
    + cbn [forallb]. rewrite !forallb_app, Hcn. reflexivity.
    + cbn [map app cargs_zero]. rewrite (cmdreq_head (c0 :: cmd') _ CANone Hne).
      rewrite !map_app, <- !app_assoc. rewrite (caps2_all caps _ Hcaps). cbn [map app]. rewrite caps2_delim. reflexivity.
  - destruct (lsargs_encode la) as [al|] eqn:El; [|discriminate].
    apply (f_equal (fun o => match o with Some x => x | None => [] end)) in He. cbv beta iota in He. subst ps.
    destruct (lsargs_roundtrip la al tail Ha El) as [Hn Hd]. split.
    + cbn [forallb]. rewrite !forallb_app, Hcn, Hn. reflexivity.
    + cbn [map app cargs_zero]. rewrite (cmdreq_head (c0 :: cmd') _ _ Hne).
      rewrite !map_app, <- !app_assoc. rewrite (caps2_all caps _ Hcaps). cbn [map app]. rewrite caps2_delim. cbn [Z.eqb Pos.eqb negb].
      rewrite Hd. reflexivity.
  - destruct (fetchargs_encode fa) as [al|] eqn:El; [|discriminate].
    apply (f_equal (fun o => match o with Some x => x | None => [] end)) in He. cbv beta iota in He. subst ps.
    destruct (fetchargs_roundtrip fa al tail Ha El) as [Hn Hd]. split.
    + cbn [forallb]. rewrite !forallb_app, Hcn, Hn. reflexivity.
    + cbn [map app cargs_zero]. rewrite (cmdreq_head (c0 :: cmd') _ _ Hne).
      rewrite !map_app, <- !app_assoc. rewrite (caps2_all caps _ Hcaps). cbn [map app]. rewrite caps2_delim. cbn [Z.eqb Pos.eqb negb].
      rewrite Hd. reflexivity.
Qed.
