(* Proofs/C48.v — git's config reader (Spec/GitConfig.v) reads every
   well-formed configuration go-git's encoder (Model/ConfigEnc.v) writes back
   to the values that were written. *)
From Coq Require Import List NArith ZArith Arith Lia ZifyBool ZifyNat ZifyN Bool.
From GoGit Require Import Base.Out Model.ConfigEnc Spec.GitConfig.
Import ListNotations.
Local Open Scope N_scope.

(* ---------- the guard and the expected reading ---------- *)
Definition is_nil {A} (l : list A) : bool := match l with [] => true | _ => false end.
Definition nz (s : bytes) : bool := forallb (fun c => negb (c =? 0)) s.
(* section name: non-empty, ASCII alphanumerics and '-' (a '.' would be read
   by git as the deprecated [section.subsection] form) *)
Definition wf_sec (n : bytes) : bool := negb (is_nil n) && forallb iskeychar n.
(* key: a letter, then alphanumerics and '-' *)
Definition wf_key (k : bytes) : bool :=
  match k with c :: r => g_isalpha c && forallb iskeychar r | [] => false end.
(* value: any bytes but NUL *)
Definition wf_val (v : bytes) : bool := nz v.
(* subsection name: any bytes but NUL and LF *)
Definition wf_subname (s : bytes) : bool := forallb (fun c => negb (c =? 0) && negb (c =? LF)) s.
Definition wf_opt (o : copt) : bool := wf_key (fst o) && wf_val (snd o).
Definition wf_sub (s : csub) : bool := wf_subname (fst s) && forallb wf_opt (snd s).
(* a section without options and subsections emits nothing: its name is free *)
Definition wf_csec (s : csec) : bool :=
  let '(n, os, subs) := s in
  ((is_nil os && is_nil subs) || wf_sec n) && forallb wf_opt os && forallb wf_sub subs.
Definition wf (c : cfg) : bool := forallb wf_csec c.

Definition canon_opts (b : gbase) (os : list copt) : list gentry :=
  map (fun o => (b, lower (fst o), Some (snd o))) os.
Definition canon_sub (sec : bytes) (s : csub) : list gentry :=
  canon_opts (Some (lower sec, Some (fst s))) (snd s).
Definition canon_sec (s : csec) : list gentry :=
  let '(n, os, subs) := s in
  canon_opts (Some (lower n, None)) os ++ flat_map (canon_sub n) subs.
(* section and key names lower-cased, subsection and value verbatim, in the
   order the encoder emits them *)
Definition canon (c : cfg) : list gentry := flat_map canon_sec c.

(* ---------- character facts ---------- *)
Lemma keychar_facts c : iskeychar c = true ->
  (c =? RBR) = false /\ g_isspace c = false /\ (c =? 0) = false /\ (c =? LF) = false /\ (c =? CR) = false.
Proof.
  unfold iskeychar, g_isalnum, g_isalpha, g_isupper, g_islower, g_isdigit, g_isspace,
    RBR, DASH, SPC, TAB, LF, CR. lia.
Qed.

Lemma alpha_facts c : g_isalpha c = true ->
  iskeychar c = true /\ (c =? HASH) = false /\ (c =? SEMI) = false /\ (c =? LBR) = false.
Proof.
  unfold iskeychar, g_isalnum, g_isalpha, g_isupper, g_islower, g_isdigit, HASH, SEMI, LBR, DASH. lia.
Qed.

Lemma nontrigger_facts c : trigger c = false ->
  (c =? LF) = false /\ (c =? CR) = false /\ (c =? TAB) = false /\ (c =? SEMI) = false /\
  (c =? HASH) = false /\ (c =? BSL) = false /\ (c =? DQ) = false.
Proof. unfold trigger, LF, CR, TAB, SEMI, HASH, BSL, DQ. lia. Qed.

(* ---------- the state machine over chunks ---------- *)
Definition Top (b : gbase) (acc : list gentry) : gstate := GS b acc (MTop false).

Lemma run_app a b st : run (a ++ b) st = run b (run a st).
Proof. apply fold_left_app. Qed.

Lemma run_cons c s st : run (c :: s) st = run s (step st c).
Proof. reflexivity. Qed.

Lemma run_secname n : forall b acc name0,
  forallb iskeychar n = true ->
  run n (GS b acc (MSec name0)) = GS b acc (MSec (name0 ++ lower n)).
Proof.
  induction n as [|c n IH]; intros b acc name0 H.
  - cbn. now rewrite app_nil_r.
  - cbn [forallb] in H. apply andb_true_iff in H as [Hc Hn].
    destruct (keychar_facts c Hc) as (H1 & H2 & _).
    rewrite run_cons. unfold step; cbn [g_mode]. rewrite H1, H2, Hc. unfold setm; cbn [orb g_base g_acc].
    rewrite IH by assumption. cbn [lower map]. now rewrite <- app_assoc.
Qed.

Lemma lower_nil_iff n : lower n = [] -> n = [].
Proof. destruct n; [reflexivity|discriminate]. Qed.

(* "[name]\n" *)
Lemma run_header n b acc : wf_sec n = true ->
  run (91 :: n ++ [93; 10]) (Top b acc) = Top (Some (lower n, None)) acc.
Proof.
  intros H. apply andb_true_iff in H as [Hne Hn].
  rewrite run_cons. change (step (Top b acc) 91) with (GS b acc (MSec [])).
  rewrite run_app, run_secname by assumption. cbn [app].
  destruct n as [|c n]; [discriminate|]. reflexivity.
Qed.

Lemma run_keyname k : forall b acc key0,
  forallb iskeychar k = true ->
  run k (GS b acc (MKey key0)) = GS b acc (MKey (key0 ++ lower k)).
Proof.
  induction k as [|c k IH]; intros b acc key0 H.
  - cbn. now rewrite app_nil_r.
  - cbn [forallb] in H. apply andb_true_iff in H as [Hc Hk].
    rewrite run_cons. unfold step; cbn [g_mode]. rewrite Hc. unfold setm; cbn [g_base g_acc].
    rewrite IH by assumption. cbn [lower map]. now rewrite <- app_assoc.
Qed.

(* "\tkey = " *)
Lemma run_key k b acc : wf_key k = true ->
  run (9 :: k ++ [32; 61; 32]) (Top b acc) = GS b acc (MVal (lower k) false false 0 []).
Proof.
  intros H. destruct k as [|c k]; [discriminate|]. cbn [wf_key] in H.
  apply andb_true_iff in H as [Hc Hk].
  destruct (alpha_facts c Hc) as (Hkc & H1 & H2 & H3).
  destruct (keychar_facts c Hkc) as (_ & H5 & _ & H6 & _).
  rewrite run_cons. change (step (Top b acc) 9) with (Top b acc).
  cbn [app]. rewrite run_cons. unfold step at 1, Top; cbn [g_mode].
  rewrite H6, H5, H1, H2, H3, Hc. unfold setm; cbn [orb g_base g_acc].
  rewrite run_app, run_keyname by assumption. cbn [app lower map]. reflexivity.
Qed.

(* the body of a quoted value *)
Lemma run_esc_value c b acc k v :
  run (esc_value c) (GS b acc (MVal k true false 0 v)) = GS b acc (MVal k true false 0 (v ++ [c])).
Proof.
  unfold esc_value.
  destruct (c =? 34) eqn:E1; [apply N.eqb_eq in E1; subst c; cbn; now rewrite app_nil_r|].
  destruct (c =? 92) eqn:E2; [apply N.eqb_eq in E2; subst c; cbn; now rewrite app_nil_r|].
  destruct (c =? 10) eqn:E3; [apply N.eqb_eq in E3; subst c; cbn; now rewrite app_nil_r|].
  destruct (c =? 9) eqn:E4; [apply N.eqb_eq in E4; subst c; cbn; now rewrite app_nil_r|].
  destruct (c =? 8) eqn:E5; [apply N.eqb_eq in E5; subst c; cbn; now rewrite app_nil_r|].
  rewrite run_cons. unfold step; cbn [g_mode]. unfold LF, BSL, DQ. rewrite E3, E2, E1.
  cbn [negb andb repeat]. rewrite andb_false_r. unfold setm; cbn [g_base g_acc]. rewrite app_nil_r. reflexivity.
Qed.

Lemma run_quoted_body w : forall b acc k v,
  run (flat_map esc_value w) (GS b acc (MVal k true false 0 v)) = GS b acc (MVal k true false 0 (v ++ w)).
Proof.
  induction w as [|c w IH]; intros b acc k v.
  - cbn. now rewrite app_nil_r.
  - cbn [flat_map]. rewrite run_app, run_esc_value, IH, <- app_assoc. reflexivity.
Qed.

(* "\"...\"\n" *)
Lemma run_quoted v b acc k :
  run (34 :: flat_map esc_value v ++ [34; 10]) (GS b acc (MVal k false false 0 [])) =
  Top b ((b, k, Some v) :: acc).
Proof.
  rewrite run_cons. change (step (GS b acc (MVal k false false 0 [])) 34) with (GS b acc (MVal k true false 0 [])).
  rewrite run_app, run_quoted_body. cbn. now rewrite app_nil_r.
Qed.

(* an unquoted value: every blank run is kept as that many spaces *)
Lemma run_raw_body w : forall b acc k v sp,
  existsb trigger w = false ->
  (v = [] -> sp = 0%nat /\ has_prefix_sp w = false) ->
  exists v' sp',
    run w (GS b acc (MVal k false false sp v)) = GS b acc (MVal k false false sp' v') /\
    v' ++ repeat SPC sp' = v ++ repeat SPC sp ++ w.
Proof.
  induction w as [|c w IH]; intros b acc k v sp Ht Hv.
  - exists v, sp. cbn. now rewrite app_nil_r.
  - cbn [existsb] in Ht. apply orb_false_iff in Ht as [Hc Hw].
    destruct (nontrigger_facts c Hc) as (H1 & H2 & H3 & H4 & H5 & H6 & H7).
    rewrite run_cons. unfold step; cbn [g_mode]. rewrite H1. unfold g_isspace. rewrite H3, H1, H2, H4, H5, H6, H7.
    cbn [negb andb orb].
    destruct (c =? SPC) eqn:Es.
    + apply N.eqb_eq in Es. subst c. cbn [orb andb].
      destruct v as [|v0 v].
      * destruct (Hv eq_refl) as [_ Hp]. cbn in Hp. discriminate.
      * unfold setm; cbn [g_base g_acc].
        destruct (IH b acc k (v0 :: v) (S sp) Hw) as (v' & sp' & R & Eq); [discriminate|].
        exists v', sp'. split; [exact R|]. rewrite Eq. cbn [repeat].
        rewrite (@repeat_cons _ sp SPC). rewrite <- !app_assoc. reflexivity.
    + unfold setm; cbn [orb andb g_base g_acc].
      destruct (IH b acc k ((v ++ repeat SPC sp) ++ [c]) 0%nat Hw) as (v' & sp' & R & Eq).
      { intros E. destruct (v ++ repeat SPC sp); discriminate. }
      exists v', sp'. split; [exact R|]. rewrite Eq. cbn [repeat app]. rewrite <- !app_assoc. reflexivity.
Qed.

Lemma has_suffix_sp_last w c : has_suffix_sp (w ++ [c]) = (c =? 32).
Proof.
  induction w as [|d w IH]; [reflexivity|].
  cbn [app]. destruct (w ++ [c]) eqn:E; [destruct w; discriminate|].
  change (has_suffix_sp (d :: n :: l)) with (has_suffix_sp (n :: l)). exact IH.
Qed.

Lemma run_raw v b acc k : needs_quote v = false ->
  run (v ++ [10]) (GS b acc (MVal k false false 0 [])) = Top b ((b, k, Some v) :: acc).
Proof.
  unfold needs_quote. intros H. apply orb_false_iff in H as [H Hs]. apply orb_false_iff in H as [Ht Hp].
  destruct v as [|c0 v0]; [reflexivity|].
  destruct (@exists_last _ (c0 :: v0)) as (w & c & E); [discriminate|].
  rewrite E in *. clear E c0 v0.
  rewrite has_suffix_sp_last in Hs.
  rewrite existsb_app in Ht. apply orb_false_iff in Ht as [Hw Hc]. cbn in Hc. rewrite orb_false_r in Hc.
  rewrite <- app_assoc, run_app.
  destruct (run_raw_body w b acc k [] 0%nat Hw) as (v' & sp' & R & Eq).
  { intros _. split; [reflexivity|]. destruct w; [reflexivity|exact Hp]. }
  rewrite R. cbn [repeat app] in Eq.
  destruct (nontrigger_facts c Hc) as (H1 & H2 & H3 & H4 & H5 & H6 & H7).
  cbn [app]. rewrite run_cons. unfold step at 1; cbn [g_mode]. rewrite H1. unfold g_isspace.
  rewrite H3, H1, H2, H4, H5, H6, H7. change SPC with 32. rewrite Hs.
  unfold setm; cbn [negb andb orb g_base g_acc]. change 32 with SPC. rewrite Eq. reflexivity.
Qed.

Ltac norm_app := repeat (progress (cbn [app]; rewrite <- ?app_assoc)).

(* one option line *)
Lemma run_opt o b acc : wf_opt o = true ->
  run (enc_opt o) (Top b acc) = Top b ((b, lower (fst o), Some (snd o)) :: acc).
Proof.
  destruct o as [k v]. unfold wf_opt, enc_opt. cbn [fst snd]. intros H.
  apply andb_true_iff in H as [Hk _].
  change (9 :: k ++ [32; 61; 32] ++ enc_value v ++ [10]) with ((9 :: k) ++ [32; 61; 32] ++ enc_value v ++ [10]).
  rewrite app_assoc, run_app. cbn [app]. rewrite run_key by assumption.
  unfold enc_value. destruct (needs_quote v) eqn:Q.
  - cbn [app]. rewrite <- app_assoc. cbn [app]. apply run_quoted.
  - apply run_raw. exact Q.
Qed.

Lemma run_opts os : forall b acc, forallb wf_opt os = true ->
  run (enc_opts os) (Top b acc) = Top b (rev (canon_opts b os) ++ acc).
Proof.
  induction os as [|o os IH]; intros b acc H; [reflexivity|].
  cbn [forallb] in H. apply andb_true_iff in H as [Ho Hos].
  unfold enc_opts. cbn [flat_map]. rewrite run_app, run_opt by assumption.
  fold (enc_opts os). rewrite IH by assumption.
  cbn [canon_opts map rev]. rewrite <- app_assoc. reflexivity.
Qed.

(* the body of a quoted subsection name *)
Lemma run_esc_sub c b acc n s : (c =? LF) = false ->
  run (esc_sub c) (GS b acc (MExtQ n s)) = GS b acc (MExtQ n (s ++ [c])).
Proof.
  intros Hlf. unfold esc_sub.
  destruct (c =? 34) eqn:E1; [apply N.eqb_eq in E1; subst c; reflexivity|].
  destruct (c =? 92) eqn:E2; [apply N.eqb_eq in E2; subst c; reflexivity|].
  rewrite run_cons. unfold step; cbn [g_mode]. unfold BSL, DQ. rewrite Hlf, E1, E2. reflexivity.
Qed.

Lemma run_sub_body w : forall b acc n s,
  forallb (fun c => negb (c =? 0) && negb (c =? LF)) w = true ->
  run (flat_map esc_sub w) (GS b acc (MExtQ n s)) = GS b acc (MExtQ n (s ++ w)).
Proof.
  induction w as [|c w IH]; intros b acc n s H.
  - cbn. now rewrite app_nil_r.
  - cbn [forallb] in H. apply andb_true_iff in H as [Hc Hw]. apply andb_true_iff in Hc as [_ Hc].
    apply negb_true_iff in Hc.
    cbn [flat_map]. rewrite run_app, run_esc_sub, IH, <- app_assoc by assumption. reflexivity.
Qed.

(* "[sec \"sub\"]\n" *)
Lemma run_subheader sec name b acc : wf_sec sec = true -> wf_subname name = true ->
  run (91 :: sec ++ [32; 34] ++ flat_map esc_sub name ++ [34; 93; 10]) (Top b acc) =
  Top (Some (lower sec, Some name)) acc.
Proof.
  intros Hs Hn. apply andb_true_iff in Hs as [_ Hs].
  rewrite run_cons. change (step (Top b acc) 91) with (GS b acc (MSec [])).
  rewrite run_app, run_secname by assumption. cbn [app].
  rewrite run_cons, run_cons.
  change (step (step (GS b acc (MSec (lower sec))) 32) 34) with (GS b acc (MExtQ (lower sec) [])).
  rewrite run_app, run_sub_body by assumption. reflexivity.
Qed.

Lemma run_sub sec s b acc : wf_sec sec = true -> wf_sub s = true ->
  run (enc_sub sec s) (Top b acc) =
  Top (Some (lower sec, Some (fst s))) (rev (canon_sub sec s) ++ acc).
Proof.
  destruct s as [name os]. unfold wf_sub, enc_sub, canon_sub. cbn [fst snd]. intros Hs H.
  apply andb_true_iff in H as [Hn Hos].
  change (91 :: sec ++ [32; 34] ++ flat_map esc_sub name ++ [34; 93; 10] ++ enc_opts os)
    with ((91 :: sec) ++ [32; 34] ++ flat_map esc_sub name ++ [34; 93; 10] ++ enc_opts os).
  replace ((91 :: sec) ++ [32; 34] ++ flat_map esc_sub name ++ [34; 93; 10] ++ enc_opts os)
    with ((91 :: sec ++ [32; 34] ++ flat_map esc_sub name ++ [34; 93; 10]) ++ enc_opts os)
    by (norm_app; reflexivity).
  rewrite run_app, run_subheader, run_opts by assumption. reflexivity.
Qed.

Lemma run_subs sec subs : forall b acc, wf_sec sec = true -> forallb wf_sub subs = true ->
  exists b', run (flat_map (enc_sub sec) subs) (Top b acc) =
             Top b' (rev (flat_map (canon_sub sec) subs) ++ acc).
Proof.
  induction subs as [|s subs IH]; intros b acc Hs H.
  - exists b. reflexivity.
  - cbn [forallb] in H. apply andb_true_iff in H as [H1 H2].
    cbn [flat_map]. rewrite run_app, run_sub by assumption.
    destruct (IH (Some (lower sec, Some (fst s))) (rev (canon_sub sec s) ++ acc) Hs H2) as [b' E].
    exists b'. rewrite E, rev_app_distr, <- app_assoc. reflexivity.
Qed.

Lemma run_sec s b acc : wf_csec s = true ->
  exists b', run (enc_sec s) (Top b acc) = Top b' (rev (canon_sec s) ++ acc).
Proof.
  destruct s as [[n os] subs]. unfold wf_csec, enc_sec, canon_sec. intros H.
  apply andb_true_iff in H as [H Hsubs]. apply andb_true_iff in H as [Hn Hos].
  destruct os as [|o os].
  - destruct subs as [|s subs]; [exists b; reflexivity|].
    cbn [is_nil andb orb] in Hn. cbn [app canon_opts map].
    apply run_subs; assumption.
  - cbn [is_nil andb orb] in Hn.
    remember (o :: os) as os'.
    replace (91 :: n ++ [93; 10] ++ enc_opts os') with ((91 :: n ++ [93; 10]) ++ enc_opts os')
      by (norm_app; reflexivity).
    rewrite run_app, run_app, run_header, run_opts by assumption.
    destruct (run_subs n subs (Some (lower n, None)) (rev (canon_opts (Some (lower n, None)) os') ++ acc) Hn Hsubs) as [b' E].
    exists b'. rewrite E, rev_app_distr, <- app_assoc. reflexivity.
Qed.

Lemma run_cfg c : forall b acc, wf c = true ->
  exists b', run (encode c) (Top b acc) = Top b' (rev (canon c) ++ acc).
Proof.
  induction c as [|s c IH]; intros b acc H.
  - exists b. reflexivity.
  - unfold wf in H. cbn [forallb] in H. apply andb_true_iff in H as [H1 H2].
    unfold encode, canon. cbn [flat_map]. rewrite run_app.
    destruct (run_sec s b acc H1) as [b1 E1]. rewrite E1.
    destruct (IH b1 (rev (canon_sec s) ++ acc) H2) as [b' E].
    exists b'. unfold encode, canon in E. rewrite E, rev_app_distr, <- app_assoc. reflexivity.
Qed.

(* ---------- the emitted text as a list of lines ---------- *)
Definition unlines (ls : list bytes) : bytes := flat_map (fun b => b ++ [LF]) ls.
Definition opt_line (o : copt) : bytes := 9 :: fst o ++ [32; 61; 32] ++ enc_value (snd o).
Definition hdr_line (n : bytes) : bytes := 91 :: n ++ [93].
Definition subhdr_line (sec name : bytes) : bytes :=
  91 :: sec ++ [32; 34] ++ flat_map esc_sub name ++ [34; 93].
Definition sub_lines (sec : bytes) (s : csub) : list bytes :=
  subhdr_line sec (fst s) :: map opt_line (snd s).
Definition sec_lines (s : csec) : list bytes :=
  let '(n, os, subs) := s in
  (match os with [] => [] | _ => hdr_line n :: map opt_line os end) ++ flat_map (sub_lines n) subs.
Definition lines_of (c : cfg) : list bytes := flat_map sec_lines c.

Lemma unlines_app a b : unlines (a ++ b) = unlines a ++ unlines b.
Proof. apply flat_map_app. Qed.

Lemma enc_opts_lines os : enc_opts os = unlines (map opt_line os).
Proof.
  induction os as [|[k v] os IH]; [reflexivity|].
  unfold enc_opts in *. cbn [flat_map map unlines]. rewrite IH. unfold opt_line, enc_opt, LF.
  cbn [fst snd]. norm_app. reflexivity.
Qed.

Lemma enc_sub_lines sec s : enc_sub sec s = unlines (sub_lines sec s).
Proof.
  destruct s as [name os]. unfold enc_sub, sub_lines, subhdr_line. cbn [fst snd unlines flat_map].
  rewrite enc_opts_lines. unfold unlines, LF. norm_app. reflexivity.
Qed.

Lemma enc_subs_lines sec subs :
  flat_map (enc_sub sec) subs = unlines (flat_map (sub_lines sec) subs).
Proof.
  induction subs as [|s subs IH]; [reflexivity|].
  cbn [flat_map]. rewrite unlines_app, IH, enc_sub_lines. reflexivity.
Qed.

Lemma encode_lines c : encode c = unlines (lines_of c).
Proof.
  induction c as [|[[n os] subs] c IH]; [reflexivity|].
  unfold encode, lines_of in *. cbn [flat_map]. rewrite unlines_app, IH. f_equal.
  unfold enc_sec, sec_lines. rewrite unlines_app, enc_subs_lines. f_equal.
  destruct os as [|o os]; [reflexivity|].
  rewrite enc_opts_lines. unfold hdr_line, LF. cbn [unlines flat_map]. fold (unlines (map opt_line (o :: os))).
  norm_app. reflexivity.
Qed.

(* a line git's get_next_char passes through unchanged: no NUL, no LF, not
   ending in CR, not starting with the first BOM byte *)
Definition okc (c : N) : bool := negb (c =? 0) && negb (c =? LF).
Fixpoint lastcr (p : bool) (s : bytes) : bool :=
  match s with [] => p | c :: r => lastcr (c =? CR) r end.
Definition okline (b : bytes) : bool :=
  forallb okc b && negb (lastcr false b) &&
  match b with c :: _ => negb (c =? 239) | [] => false end.

Lemma lastcr_app a : forall p b, lastcr p (a ++ b) = lastcr (lastcr p a) b.
Proof. induction a as [|c a IH]; intros p b; [reflexivity|]. cbn [app lastcr]. apply IH. Qed.

Lemma lastcr_nocr w : forallb (fun c => negb (c =? CR)) w = true -> lastcr false w = false.
Proof.
  induction w as [|c w IH]; intros H; [reflexivity|].
  cbn [forallb] in H. apply andb_true_iff in H as [Hc Hw]. apply negb_true_iff in Hc.
  cbn [lastcr]. rewrite Hc. auto.
Qed.

Lemma drop_crlf_okline b : forall rest,
  forallb okc b = true -> lastcr false b = false ->
  drop_crlf (b ++ LF :: rest) = b ++ LF :: drop_crlf rest.
Proof.
  (* generalise over "the previous byte was not CR" *)
  assert (G : forall b rest, forallb okc b = true ->
              forall p, lastcr p b = false ->
              drop_crlf (b ++ LF :: rest) = b ++ LF :: drop_crlf rest /\
              (p = false -> True)).
  { clear b. induction b as [|c b IH]; intros rest H p Hl.
    - split; [|trivial]. cbn [app]. destruct rest as [|d rest]; reflexivity.
    - cbn [forallb] in H. apply andb_true_iff in H as [Hc Hb].
      cbn [lastcr] in Hl. destruct (IH rest Hb _ Hl) as [E _]. split; [|trivial].
      cbn [app]. destruct b as [|d b].
      + cbn [app] in *. cbn [lastcr] in Hl. unfold drop_crlf at 1; fold drop_crlf. rewrite Hl.
        cbn [andb]. f_equal. exact E.
      + cbn [app] in *. unfold drop_crlf at 1; fold drop_crlf.
        cbn [forallb] in Hb. apply andb_true_iff in Hb as [Hd _]. unfold okc in Hd.
        apply andb_true_iff in Hd as [_ Hd]. apply negb_true_iff in Hd. rewrite Hd, andb_false_r.
        f_equal. exact E. }
  intros rest H Hl. destruct (G b rest H false Hl) as [E _]. exact E.
Qed.

Lemma unlines_ok ls : forallb okline ls = true ->
  existsb (N.eqb 0) (unlines ls) = false /\ drop_crlf (unlines ls) = unlines ls.
Proof.
  induction ls as [|b ls IH]; intros H; [split; reflexivity|].
  cbn [forallb] in H. apply andb_true_iff in H as [Hb Hls]. destruct (IH Hls) as [Z D].
  unfold okline in Hb. apply andb_true_iff in Hb as [Hb _]. apply andb_true_iff in Hb as [Hc Hl].
  apply negb_true_iff in Hl.
  cbn [unlines flat_map]. fold (unlines ls). split.
  - rewrite !existsb_app, Z. cbn [existsb]. rewrite !orb_false_r.
    clear - Hc. induction b as [|c b IHb]; [reflexivity|].
    cbn [forallb existsb] in *. apply andb_true_iff in Hc as [H1 H2].
    unfold okc in H1. apply andb_true_iff in H1 as [H1 _]. apply negb_true_iff in H1.
    rewrite N.eqb_sym, H1. auto.
  - rewrite <- app_assoc. cbn [app]. rewrite drop_crlf_okline, D by assumption. reflexivity.
Qed.

Lemma unlines_bom ls : forallb okline ls = true -> strip_bom (unlines ls) = Some (unlines ls).
Proof.
  destruct ls as [|b ls]; [reflexivity|]. intros H. cbn [forallb] in H.
  apply andb_true_iff in H as [Hb _]. unfold okline in Hb. apply andb_true_iff in Hb as [_ Hb].
  destruct b as [|c b]; [discriminate|]. apply negb_true_iff in Hb.
  cbn [unlines flat_map app]. unfold strip_bom. rewrite Hb. reflexivity.
Qed.

(* ---------- every emitted line is such a line ---------- *)
Lemma okc_keychars n : forallb iskeychar n = true ->
  forallb okc n = true /\ forallb (fun c => negb (c =? CR)) n = true.
Proof.
  induction n as [|c n IH]; intros H; [split; reflexivity|].
  cbn [forallb] in *. apply andb_true_iff in H as [Hc Hn].
  destruct (keychar_facts c Hc) as (_ & _ & H0 & H1 & H2). destruct (IH Hn) as [A B].
  rewrite A, B. unfold okc. rewrite H0, H1, H2. split; reflexivity.
Qed.

Lemma okc_esc_value v : nz v = true -> forallb okc (flat_map esc_value v) = true.
Proof.
  induction v as [|c v IH]; intros H; [reflexivity|].
  unfold nz in *. cbn [forallb flat_map] in *. apply andb_true_iff in H as [Hc Hv].
  rewrite forallb_app, IH by assumption. rewrite andb_true_r.
  apply negb_true_iff in Hc. unfold esc_value.
  destruct (c =? 34); [reflexivity|]. destruct (c =? 92); [reflexivity|].
  destruct (c =? 10) eqn:E; [reflexivity|]. destruct (c =? 9); [reflexivity|]. destruct (c =? 8); [reflexivity|].
  cbn [forallb]. unfold okc, LF. rewrite Hc, E. reflexivity.
Qed.

Lemma okc_esc_sub v : wf_subname v = true -> forallb okc (flat_map esc_sub v) = true.
Proof.
  induction v as [|c v IH]; intros H; [reflexivity|].
  unfold wf_subname in *. cbn [forallb flat_map] in *. apply andb_true_iff in H as [Hc Hv].
  rewrite forallb_app, IH by assumption. rewrite andb_true_r. unfold esc_sub.
  destruct (c =? 34); [reflexivity|]. destruct (c =? 92); [reflexivity|].
  cbn [forallb]. unfold okc. rewrite Hc. reflexivity.
Qed.

Lemma lastcr_snoc a c p : lastcr p (a ++ [c]) = (c =? CR).
Proof. rewrite lastcr_app. reflexivity. Qed.

Ltac split_okline := unfold okline; apply andb_true_iff; split; [apply andb_true_iff; split|].

Lemma okline_hdr n : wf_sec n = true -> okline (hdr_line n) = true.
Proof.
  intros H. apply andb_true_iff in H as [_ H]. destruct (okc_keychars n H) as [A _].
  unfold hdr_line. split_okline.
  - cbn [forallb]. rewrite forallb_app, A. reflexivity.
  - rewrite app_comm_cons, lastcr_snoc. reflexivity.
  - reflexivity.
Qed.

Lemma okline_subhdr sec name : wf_sec sec = true -> wf_subname name = true ->
  okline (subhdr_line sec name) = true.
Proof.
  intros H Hn. apply andb_true_iff in H as [_ H]. destruct (okc_keychars sec H) as [A _].
  unfold subhdr_line. split_okline.
  - cbn [forallb]. rewrite !forallb_app, A, okc_esc_sub by assumption. reflexivity.
  - replace (91 :: sec ++ [32; 34] ++ flat_map esc_sub name ++ [34; 93])
      with ((91 :: sec ++ [32; 34] ++ flat_map esc_sub name ++ [34]) ++ [93]) by (norm_app; reflexivity).
    rewrite lastcr_snoc. reflexivity.
  - reflexivity.
Qed.

Lemma okline_opt o : wf_opt o = true -> okline (opt_line o) = true.
Proof.
  destruct o as [k v]. unfold wf_opt, opt_line. cbn [fst snd]. intros H.
  apply andb_true_iff in H as [Hk Hv].
  assert (Hkc : forallb iskeychar k = true).
  { destruct k as [|c k]; [discriminate|]. cbn [wf_key] in Hk. apply andb_true_iff in Hk as [Hc Hk].
    cbn [forallb]. destruct (alpha_facts c Hc) as [Hc' _]. rewrite Hc', Hk. reflexivity. }
  destruct (okc_keychars k Hkc) as [A _].
  unfold enc_value. destruct (needs_quote v) eqn:Q.
  - split_okline.
    + cbn [forallb]. rewrite !forallb_app, A. cbn [forallb]. rewrite forallb_app, okc_esc_value by assumption.
      reflexivity.
    + replace (9 :: k ++ [32; 61; 32] ++ 34 :: flat_map esc_value v ++ [34])
        with ((9 :: k ++ [32; 61; 32] ++ 34 :: flat_map esc_value v) ++ [34]) by (norm_app; reflexivity).
      rewrite lastcr_snoc. reflexivity.
    + reflexivity.
  - unfold needs_quote in Q. apply orb_false_iff in Q as [Q _]. apply orb_false_iff in Q as [Q _].
    assert (B : forallb okc v = true /\ forallb (fun c => negb (c =? CR)) v = true).
    { clear - Q Hv. unfold wf_val, nz in Hv. induction v as [|c v IH]; [split; reflexivity|].
      cbn [forallb existsb] in *. apply orb_false_iff in Q as [Qc Qv]. apply andb_true_iff in Hv as [Hc Hv].
      destruct (nontrigger_facts c Qc) as (H1 & H2 & _). destruct (IH Hv Qv) as [B1 B2].
      rewrite B1, B2. unfold okc. rewrite Hc, H1, H2. split; reflexivity. }
    destruct B as [B1 B2]. split_okline.
    + cbn [forallb]. rewrite !forallb_app, A, B1. reflexivity.
    + replace (9 :: k ++ [32; 61; 32] ++ v) with ((9 :: k ++ [32; 61]) ++ [32] ++ v) by (norm_app; reflexivity).
      rewrite lastcr_app, lastcr_app. cbn [lastcr]. change (32 =? CR) with false.
      rewrite lastcr_nocr by assumption. reflexivity.
    + reflexivity.
Qed.

Lemma oklines_opts os : forallb wf_opt os = true -> forallb okline (map opt_line os) = true.
Proof.
  induction os as [|o os IH]; intros H; [reflexivity|].
  cbn [forallb map] in *. apply andb_true_iff in H as [H1 H2]. rewrite okline_opt, IH by assumption. reflexivity.
Qed.

Lemma oklines c : wf c = true -> forallb okline (lines_of c) = true.
Proof.
  induction c as [|[[n os] subs] c IH]; intros H; [reflexivity|].
  unfold wf in H. cbn [forallb] in H. apply andb_true_iff in H as [Hs Hc].
  unfold lines_of. cbn [flat_map]. rewrite forallb_app. fold (lines_of c). rewrite (IH Hc), andb_true_r.
  unfold wf_csec in Hs. apply andb_true_iff in Hs as [Hs Hsubs]. apply andb_true_iff in Hs as [Hn Hos].
  unfold sec_lines. rewrite forallb_app.
  assert (S1 : wf_sec n = true -> forallb okline (flat_map (sub_lines n) subs) = true).
  { intros Hn'. clear - Hn' Hsubs. induction subs as [|s subs IHs]; [reflexivity|].
    cbn [forallb flat_map] in *. apply andb_true_iff in Hsubs as [H1 H2].
    rewrite forallb_app, IHs, andb_true_r by assumption.
    destruct s as [name sos]. unfold wf_sub in H1. cbn [fst snd] in H1. apply andb_true_iff in H1 as [Hname Hsos].
    unfold sub_lines. cbn [fst snd forallb]. rewrite okline_subhdr, oklines_opts by assumption. reflexivity. }
  destruct os as [|o os].
  - destruct subs as [|s subs]; [reflexivity|]. cbn [is_nil andb orb] in Hn. cbn [forallb andb]. auto.
  - cbn [is_nil andb orb] in Hn. cbn [forallb]. rewrite okline_hdr, S1 by assumption.
    change (okline (opt_line o) && forallb okline (map opt_line os)) with (forallb okline (map opt_line (o :: os))).
    rewrite oklines_opts by assumption. reflexivity.
Qed.

(* ---------- the theorem ---------- *)
Theorem git_reads_ours c : wf c = true -> git_config_parse (encode c) = inr (canon c).
Proof.
  intros H. unfold git_config_parse.
  pose proof (oklines c H) as Hl. rewrite encode_lines.
  destruct (unlines_ok _ Hl) as [Z D]. rewrite Z, D, unlines_bom by assumption.
  rewrite <- encode_lines, run_app.
  destruct (run_cfg c None [] H) as [b' E]. unfold ginit. fold (Top None []). rewrite E.
  rewrite app_nil_r. cbn. rewrite rev_involutive. reflexivity.
Qed.
