(* Proofs/C40.v — lexical confinement of FilesystemLoader.load *)
From Coq Require Import List NArith Arith Lia Bool.
From GoGit Require Import Base.Out Model.GoPath Model.Loader Proofs.GoPathFacts.
Import ListNotations.
Local Open Scope N_scope.

(* p is R followed by normal components: no "..", no ".", no empty component *)
Definition under (R p : bytes) : Prop :=
  exists cs, Forall normal cs /\ p = R ++ flat_map (fun c => SL :: c) cs.

Lemma filter_notskip_normal cs : Forall normal cs -> filter (fun c => negb (skip c)) cs = cs.
Proof.
  induction 1 as [|d t Hd Ht IH]; [reflexivity|]. cbn [filter].
  destruct (normal_flags _ Hd) as (F1 & F2 & _). unfold skip at 1. rewrite F1, F2. cbn. now f_equal.
Qed.

Lemma clean_abs_shape p : is_abs p = true -> exists ns, Forall normal ns /\ clean p = SL :: join_sl ns.
Proof.
  intro H. destruct p as [|c p']; [discriminate|]. unfold clean. rewrite H.
  eexists. split; [|reflexivity]. apply reduce_rooted_normal; [constructor|apply split_sl_nosl].
Qed.

Lemma reduce_nil_head b st cs : reduce b st ([] :: cs) = reduce b st cs.
Proof. reflexivity. Qed.

Lemma clean_rooted_id ns : Forall normal ns -> clean (SL :: join_sl ns) = SL :: join_sl ns.
Proof.
  intro H. unfold clean. cbn [is_abs]. rewrite N.eqb_refl. f_equal. f_equal.
  destruct ns as [|c r].
  - reflexivity.
  - replace (SL :: join_sl (c :: r)) with ([] ++ SL :: join_sl (c :: r)) by reflexivity.
    rewrite split_sl_app, split_join; [|congruence|now apply normal_nosl].
    change (split_sl [] ++ c :: r) with ([] :: c :: r).
    rewrite reduce_nil_head. now rewrite reduce_normal.
Qed.

Lemma clean_under_root_shape x : exists cs, Forall normal cs /\ clean_under_root x = join_sl cs.
Proof.
  unfold clean_under_root, join2. cbn [app].
  destruct (clean_abs_shape (SL :: SL :: x) eq_refl) as (ns & Hn & E).
  exists ns. split; [assumption|]. rewrite E. cbn [trim_left_sl]. rewrite N.eqb_refl.
  now apply trim_left_join.
Qed.

Lemma skipn_Forall {A} (P : A -> Prop) n l : Forall P l -> Forall P (skipn n l).
Proof.
  revert l. induction n; intros l H; [assumption|]. destruct l; [constructor|].
  inversion H; subst. now apply IHn.
Qed.

Lemma relative_inside_base_shape R name rel :
  is_abs name = true -> relative_inside_base R name = Some rel ->
  exists cs, Forall normal cs /\ rel = join_sl cs.
Proof.
  intros Ha H. unfold relative_inside_base in H.
  destruct (is_prefix _ _); [|discriminate]. inversion H; subst. clear H.
  destruct (clean_abs_shape name Ha) as (ns & Hn & E). rewrite E.
  rewrite comps_rooted by assumption.
  eexists. split; [|reflexivity]. now apply skipn_Forall.
Qed.

Lemma to_relative_shape R path : exists cs, Forall normal cs /\ to_relative R path = join_sl cs.
Proof.
  unfold to_relative. destruct path as [|c p]; [exists []; split; [constructor|reflexivity]|].
  destruct (is_abs (c :: p)) eqn:Ha; [|apply clean_under_root_shape].
  destruct (relative_inside_base R (c :: p)); apply clean_under_root_shape.
Qed.

Lemma join2_ne a b : a <> [] -> join2 a b = clean (a ++ SL :: b).
Proof. destruct a; [congruence|]. intros _. destruct b; reflexivity. Qed.

Lemma rooted_last rs : rs <> [] -> Forall normal rs ->
  exists pre z, SL :: join_sl rs = pre ++ [z] /\ z <> SL.
Proof.
  intros Hne Hrs.
  destruct (exists_last Hne) as (rs' & l & El). subst rs.
  apply Forall_app in Hrs as [_ Hl]. inversion Hl as [|? ? Hl' _]; subst.
  destruct Hl' as (Hlne & _ & _ & Hns).
  destruct (exists_last Hlne) as (l' & z & Ez). subst l.
  assert (Hz : z <> SL). { intro; subst. apply Hns. apply in_or_app. right. now left. }
  destruct rs' as [|c r].
  - exists (SL :: l'), z. split; [|assumption]. cbn. now rewrite app_nil_r.
  - exists (SL :: join_sl (c :: r) ++ SL :: l'), z. split; [|assumption].
    rewrite join_sl_app by congruence. cbn [flat_map]. rewrite app_nil_r.
    cbn [app]. rewrite <- app_assoc. cbn [app]. reflexivity.
Qed.

Section Root.
  Variable R : bytes.
  Hypothesis HR : good_root R = true.

  Lemma R_ne : R <> [].
  Proof. destruct (good_root_shape R HR) as (rs & _ & _ & E). rewrite E. discriminate. Qed.

  (* cleaning R/<normal components> *)
  Lemma clean_R_join cs : Forall normal cs ->
    clean (R ++ SL :: join_sl cs) = R ++ flat_map (fun x => SL :: x) cs.
  Proof.
    intro H. destruct (good_root_shape R HR) as (rs & Hne & Hrs & E). rewrite E.
    destruct cs as [|c r].
    - change (join_sl []) with (join_sl [[]]).
      rewrite clean_under; try assumption; [reflexivity|congruence|].
      constructor; [now left|constructor].
    - rewrite clean_under; try assumption; [|congruence|].
      + now rewrite filter_notskip_normal.
      + eapply Forall_impl; [|exact H]. intros; now right.
  Qed.

  Lemma clean_R_dot : clean (R ++ SL :: DOT) = R.
  Proof.
    destruct (good_root_shape R HR) as (rs & Hne & Hrs & E). rewrite E.
    change DOT with (join_sl [DOT]).
    rewrite clean_under; try assumption; [cbn; now rewrite app_nil_r|congruence|].
    constructor; [now left|constructor].
  Qed.

  Lemma under_clean_id p : under R p -> clean p = p.
  Proof.
    intros (cs & Hcs & E). destruct (good_root_shape R HR) as (rs & Hne & Hrs & ER).
    subst p. rewrite ER. cbn [app]. rewrite <- join_sl_app by assumption.
    apply clean_rooted_id. apply Forall_app. now split.
  Qed.

  Lemma join2_R cs : Forall normal cs -> join2 R (join_sl cs) = R ++ flat_map (fun x => SL :: x) cs.
  Proof.
    intro H. rewrite (join2_ne _ _ R_ne). now apply clean_R_join.
  Qed.

  Lemma under_of cs : Forall normal cs -> under R (R ++ flat_map (fun x => SL :: x) cs).
  Proof. intro H. exists cs. now split. Qed.

  Lemma chroot_path_under path : under R (chroot_path R path).
  Proof.
    unfold chroot_path.
    assert (G : forall cs, Forall normal cs -> under R (clean (join2 R (join_sl cs)))).
    { intros cs H. rewrite join2_R by assumption. rewrite under_clean_id; now apply under_of. }
    destruct (is_abs path) eqn:Ha.
    - destruct (relative_inside_base R path) as [rel|] eqn:Er.
      + destruct (relative_inside_base_shape _ _ _ Ha Er) as (cs & Hcs & E). rewrite E. now apply G.
      + destruct (clean_under_root_shape path) as (cs & Hcs & E). rewrite E. now apply G.
    - destruct (clean_under_root_shape path) as (cs & Hcs & E). rewrite E. now apply G.
  Qed.

  Lemma R_last : exists pre z, R = pre ++ [z] /\ z <> SL.
  Proof.
    destruct (good_root_shape R HR) as (rs & Hne & Hrs & E). rewrite E. now apply rooted_last.
  Qed.

  Lemma os_join_path_R n : os_join_path R n = R ++ SL :: n.
  Proof.
    destruct R_last as (pre & z & E & Hz). unfold os_join_path. rewrite E at 1.
    rewrite rev_app_distr. cbn [rev app]. apply N.eqb_neq in Hz. now rewrite Hz.
  Qed.

  Lemma chroot_bound_under fs path root : chroot_bound fs R path = Ok root -> under R root.
  Proof.
    unfold chroot_bound. intro H.
    destruct (lookup fs (comps R)) as [[|c]|].
    - destruct (to_relative_shape R path) as (cs & Hcs & E). rewrite E in H.
      destruct (walk fs (comps R) (comps (join_sl cs))).
      + inversion H; subst. clear H. rewrite os_join_path_R.
        destruct cs as [|c r].
        * cbn [join_sl is_nil]. rewrite clean_R_dot. exists []. split; [constructor|cbn; now rewrite app_nil_r].
        * assert (Hn : is_nil (join_sl (c :: r)) = false).
          { inversion Hcs as [|? ? Hc _]; subst. destruct Hc as (Hne & _). destruct c; [congruence|reflexivity]. }
          rewrite Hn. rewrite clean_R_join by assumption. now apply under_of.
      + inversion H; subst. apply chroot_path_under.
      + discriminate.
    - discriminate.
    - inversion H; subst. apply chroot_path_under.
  Qed.

  Lemma trim_left_not_abs s : is_abs (trim_left_sl s) = false.
  Proof.
    induction s as [|c r IH]; [reflexivity|]. cbn [trim_left_sl].
    destruct (c =? SL) eqn:E; [exact IH|]. cbn [is_abs]. exact E.
  Qed.

  Lemma reduce_app_normal b rs : forall st X, Forall normal rs ->
    reduce b st (rs ++ X) = reduce b (rev rs ++ st) X.
  Proof.
    induction rs as [|c r IH]; intros st X H; [reflexivity|].
    inversion H as [|? ? Hc Hr]; subst. cbn [app reduce].
    destruct (normal_flags _ Hc) as (F1 & F2 & F3). rewrite F1, F2, F3. cbn [orb].
    rewrite IH by assumption. cbn [rev]. now rewrite <- app_assoc.
  Qed.

  Lemma chroot_helper_under path root : chroot_helper R path = Ok root -> under R root.
  Proof.
    unfold chroot_helper. destruct (is_cross_boundaries path) eqn:Hx; [discriminate|].
    intro H. inversion H; subst. clear H.
    destruct (good_root_shape R HR) as (rs & Hne & Hrs & E).
    rewrite (join2_ne _ _ R_ne).
    set (U := reduce false [] (split_sl (trim_left_sl path))).
    assert (HU : forall U', U <> DOTDOT :: U').
    { intros U' EU. unfold is_cross_boundaries in Hx. apply orb_false_iff in Hx as [Hx1 Hx2].
      unfold clean in Hx1, Hx2. rewrite trim_left_not_abs in Hx1, Hx2.
      destruct (trim_left_sl path) as [|c t] eqn:Et.
      - subst U. cbn in EU. discriminate.
      - fold U in Hx1, Hx2. rewrite EU in Hx1, Hx2. destruct U' as [|u U''].
        + cbn in Hx1. discriminate.
        + cbn in Hx2. discriminate. }
    destruct (reduce_rel_rooted (split_sl (trim_left_sl path)) [] (rev rs)
                (Forall_nil _) (split_sl_nosl _) HU) as [E1 E2].
    fold U in E1, E2. cbn [app] in E1. rewrite rev_involutive in E1.
    assert (EC : clean (R ++ SL :: path) = SL :: join_sl (rs ++ U)).
    { unfold clean. rewrite E. cbn [app is_abs]. rewrite N.eqb_refl. f_equal. f_equal.
      replace (SL :: join_sl rs ++ SL :: path) with ([] ++ SL :: (join_sl rs ++ SL :: path)) by reflexivity.
      rewrite split_sl_app, split_sl_app, split_join; [|assumption|now apply normal_nosl].
      cbn [split_sl app reduce is_nil orb]. rewrite reduce_app_normal by assumption.
      rewrite app_nil_r, reduce_trim_left. exact E1. }
    rewrite EC. exists U. split; [assumption|].
    rewrite join_sl_app by assumption. rewrite E. reflexivity.
  Qed.

  Lemma chroot_under k fs path root : chroot k fs R path = Ok root -> under R root.
  Proof. destruct k; [apply chroot_bound_under|apply chroot_helper_under]. Qed.

  Lemma normal_DOTGIT : normal DOTGIT.
  Proof. repeat split; try discriminate. intros H. cbn in H. repeat destruct H as [H|H]; try discriminate; assumption. Qed.
  Lemma normal_CONFIG : normal CONFIG.
  Proof. repeat split; try discriminate. intros H. cbn in H. repeat destruct H as [H|H]; try discriminate; assumption. Qed.

  Lemma under_child root name : under R root -> normal name -> under R (join2 root name).
  Proof.
    intros (cs & Hcs & E) Hn. destruct (good_root_shape R HR) as (rs & Hne & Hrs & ER).
    assert (Er : root = SL :: join_sl (rs ++ cs)).
    { subst root. rewrite ER. cbn [app]. now rewrite <- join_sl_app. }
    exists (cs ++ [name]). split; [apply Forall_app; split; [assumption|now constructor]|].
    rewrite join2_ne by (rewrite Er; discriminate).
    rewrite Er. rewrite <- (app_nil_r name) at 1. change (name ++ []) with (join_sl [name]).
    rewrite clean_under.
    - rewrite filter_notskip_normal by now constructor.
      rewrite ER. cbn [app]. rewrite join_sl_app by assumption. rewrite flat_map_app.
      cbn [app]. now rewrite <- app_assoc.
    - destruct rs; [congruence|discriminate].
    - apply Forall_app. now split.
    - discriminate.
    - constructor; [now right|constructor].
  Qed.

  (* ---------- the loader ---------- *)

  Lemma load_confined fuel : forall k fs strict path tried root,
    fst (load fuel k fs R strict path tried) = Ok root -> under R root.
  Proof.
    induction fuel as [|fuel IH]; intros k fs strict path tried root H; [discriminate|].
    cbn [load] in H.
    destruct (chroot k fs R path) as [r0|e] eqn:Ec; [|discriminate].
    apply chroot_under in Ec.
    assert (Hag : forall p t, fst (let '(r, l) := load fuel k fs R strict p true in (r, t ++ l)) = Ok root -> under R root).
    { intros p t Hp. destruct (load fuel k fs R strict p true) as [r l] eqn:El.
      cbn in Hp. apply (IH k fs strict p true). now rewrite El. }
    assert (Hbare : forall t, fst (match lstat k fs r0 CONFIG with
        | Some (NFile _) => (Ok r0, t ++ [join2 r0 CONFIG])
        | _ => if negb strict && negb tried
               then let '(r, l) := load fuel k fs R strict (path ++ DOTGIT) true in (r, (t ++ [join2 r0 CONFIG]) ++ l)
               else (Err ENotFound, t ++ [join2 r0 CONFIG]) end) = Ok root -> under R root).
    { intros t Hb. destruct (lstat k fs r0 CONFIG) as [[|c]|].
      - destruct (negb strict && negb tried); [now apply Hag in Hb|discriminate].
      - cbn in Hb. inversion Hb; subst. assumption.
      - destruct (negb strict && negb tried); [now apply Hag in Hb|discriminate]. }
    destruct (negb tried && negb strict).
    - destruct (lstat k fs r0 DOTGIT) as [[|c]|].
      + now apply Hag in H.
      + destruct (parse_gitfile c); [now apply Hag in H|discriminate].
      + now apply Hbare in H.
    - now apply Hbare in H.
  Qed.

  Lemma load_footprint fuel : forall k fs strict path tried p,
    In p (snd (load fuel k fs R strict path tried)) -> under R p.
  Proof.
    induction fuel as [|fuel IH]; intros k fs strict path tried p H; [destruct H|].
    cbn [load] in H.
    destruct (chroot k fs R path) as [r0|e] eqn:Ec; [|destruct H].
    apply chroot_under in Ec.
    pose proof (under_child r0 DOTGIT Ec normal_DOTGIT) as Hg.
    pose proof (under_child r0 CONFIG Ec normal_CONFIG) as Hc.
    assert (Hag : forall q t, (forall x, In x t -> under R x) ->
              In p (snd (let '(r, l) := load fuel k fs R strict q true in (r, t ++ l))) -> under R p).
    { intros q t Ht Hp. destruct (load fuel k fs R strict q true) as [r l] eqn:El.
      cbn in Hp. apply in_app_or in Hp as [Hp|Hp]; [now apply Ht|].
      apply (IH k fs strict q true). now rewrite El. }
    assert (Hbare : forall t, (forall x, In x t -> under R x) -> In p (snd (match lstat k fs r0 CONFIG with
        | Some (NFile _) => (Ok r0, t ++ [join2 r0 CONFIG])
        | _ => if negb strict && negb tried
               then let '(r, l) := load fuel k fs R strict (path ++ DOTGIT) true in (r, (t ++ [join2 r0 CONFIG]) ++ l)
               else (Err ENotFound, t ++ [join2 r0 CONFIG]) end)) -> under R p).
    { intros t Ht Hb.
      assert (Ht' : forall x, In x (t ++ [join2 r0 CONFIG]) -> under R x).
      { intros x Hx. apply in_app_or in Hx as [Hx|[Hx|[]]]; [now apply Ht|now subst]. }
      destruct (lstat k fs r0 CONFIG) as [[|c]|].
      - destruct (negb strict && negb tried); [now apply (Hag _ _ Ht') in Hb|now apply Ht'].
      - now apply Ht'.
      - destruct (negb strict && negb tried); [now apply (Hag _ _ Ht') in Hb|now apply Ht']. }
    assert (Htg : forall x, In x [join2 r0 DOTGIT] -> under R x) by (intros x [Hx|[]]; now subst).
    destruct (negb tried && negb strict).
    - destruct (lstat k fs r0 DOTGIT) as [[|c]|].
      + now apply (Hag _ _ Htg) in H.
      + destruct (parse_gitfile c); [now apply (Hag _ _ Htg) in H|now apply Htg].
      + now apply (Hbare _ Htg) in H.
    - apply (Hbare []) in H; [assumption|intros x []].
  Qed.
End Root.

(* the result never depends on fuel beyond 2, and fuel never runs out *)
Lemma chroot_err k fs R path e : chroot k fs R path = Err e -> e = EChroot.
Proof.
  destruct k; cbn [chroot].
  - unfold chroot_bound. destruct (lookup fs (comps R)) as [[|c]|]; try congruence.
    destruct (walk _ _ _); congruence.
  - unfold chroot_helper. destruct (is_cross_boundaries path); congruence.
Qed.

Lemma load_tried_no_fuel n k fs R strict path :
  fst (load (S n) k fs R strict path true) <> Err EFuel.
Proof.
  cbn [load]. destruct (chroot k fs R path) eqn:Ec; [|apply chroot_err in Ec; subst; cbn; discriminate].
  cbn [negb andb]. rewrite andb_false_r.
  destruct (lstat k fs a CONFIG) as [[|c]|]; cbn; discriminate.
Qed.

Lemma load_no_fuel n k fs R strict path tried :
  fst (load (S (S n)) k fs R strict path tried) <> Err EFuel.
Proof.
  destruct tried; [apply load_tried_no_fuel|].
  remember (S n) as m. cbn [load]. destruct (chroot k fs R path) eqn:Ec; [|apply chroot_err in Ec; subst; cbn; discriminate].
  assert (Hag : forall p t, fst (let '(r, l) := load m k fs R strict p true in (r, t ++ l)) <> Err EFuel).
  { intros p t. pose proof (load_tried_no_fuel n k fs R strict p) as Hp. rewrite <- Heqm in Hp.
    destruct (load m k fs R strict p true). exact Hp. }
  assert (Hbare : forall t, fst (match lstat k fs a CONFIG with
        | Some (NFile _) => (Ok a, t ++ [join2 a CONFIG])
        | _ => if negb strict && negb false
               then let '(r, l) := load m k fs R strict (path ++ DOTGIT) true in (r, (t ++ [join2 a CONFIG]) ++ l)
               else (Err ENotFound, t ++ [join2 a CONFIG]) end) <> Err EFuel).
  { intro t. destruct (lstat k fs a CONFIG) as [[|c]|]; try (cbn; discriminate);
      (destruct (negb strict && negb false); [apply Hag|cbn; discriminate]). }
  destruct (negb false && negb strict).
  - destruct (lstat k fs a DOTGIT) as [[|c]|]; [apply Hag| |apply Hbare].
    destruct (parse_gitfile c); [apply Hag|cbn; discriminate].
  - apply Hbare.
Qed.

(* what is served has a regular file "config" *)
Lemma load_serves fuel : forall k fs R strict path tried root,
  fst (load fuel k fs R strict path tried) = Ok root ->
  exists c, lstat k fs root CONFIG = Some (NFile c).
Proof.
  induction fuel as [|fuel IH]; intros k fs R strict path tried root H; [discriminate|].
  cbn [load] in H.
  destruct (chroot k fs R path) as [r0|e]; [|discriminate].
  assert (Hag : forall p t, fst (let '(r, l) := load fuel k fs R strict p true in (r, t ++ l)) = Ok root ->
                            exists c, lstat k fs root CONFIG = Some (NFile c)).
  { intros p t Hp. destruct (load fuel k fs R strict p true) as [r l] eqn:El.
    cbn in Hp. apply (IH k fs R strict p true). now rewrite El. }
  assert (Hbare : forall t, fst (match lstat k fs r0 CONFIG with
        | Some (NFile _) => (Ok r0, t ++ [join2 r0 CONFIG])
        | _ => if negb strict && negb tried
               then let '(r, l) := load fuel k fs R strict (path ++ DOTGIT) true in (r, (t ++ [join2 r0 CONFIG]) ++ l)
               else (Err ENotFound, t ++ [join2 r0 CONFIG]) end) = Ok root ->
               exists c, lstat k fs root CONFIG = Some (NFile c)).
  { intros t Hb. destruct (lstat k fs r0 CONFIG) as [[|c]|] eqn:El.
    - destruct (negb strict && negb tried); [now apply Hag in Hb|discriminate].
    - cbn in Hb. inversion Hb; subst. eauto.
    - destruct (negb strict && negb tried); [now apply Hag in Hb|discriminate]. }
  destruct (negb tried && negb strict).
  - destruct (lstat k fs r0 DOTGIT) as [[|c]|].
    + now apply Hag in H.
    + destruct (parse_gitfile c); [now apply Hag in H|discriminate].
    + now apply Hbare in H.
  - now apply Hbare in H.
Qed.
