(* Proofs/C36V2.v — serveFetchV2's selection for an already-shallow client
   covers the wanted history down to the boundary it announces: the NEW one
   when a deepen was requested (an empty new boundary means the whole history),
   the client's old one otherwise. *)
From Coq Require Import List NArith Bool.
From GoGit Require Import Model.RevList Model.FetchProto Spec.ObjReach Proofs.C37Trees Proofs.C37.
Import ListNotations.
Local Open Scope N_scope.

Lemma diff_list_In : forall a b x, In x a -> In x (diff_list a b) \/ In x b.
Proof.
  intros a b x H. destruct (mem x b) eqn:M; [right; now apply mem_In|].
  left. unfold diff_list. apply filter_In. split; [exact H | now rewrite M].
Qed.

Lemma no_haves_reach : forall st sh o, ~ reach_set st sh [] o.
Proof. intros st sh o (r & [] & _). Qed.

Lemma v2_shallow_client_covers : forall fuel st wants haves c0 cs depth out,
  wf_store st = true ->
  serve_fetch_v2 fuel st wants haves (c0 :: cs) depth = Ok out ->
  exists have_new newb,
    (* the boundary announced to the client (shallow-info is sent exactly when a deepen was computed) *)
    (vo_shallow out = None <-> have_new = false) /\
    (forall shl un, vo_shallow out = Some (shl, un) -> shl = newb) /\
    (* everything the wants reach down to that boundary is in the pack or held by the client *)
    forall o, reach_set st (v2_boundary (c0 :: cs) have_new newb) wants o ->
              In o (vo_objs out) \/ reach_set st (c0 :: cs) haves o.
Proof.
  intros fuel st wants haves c0 cs depth out Hwf H. unfold serve_fetch_v2 in H.
  match type of H with match ?x with _ => _ end = _ => destruct x as [[have_new newb]|] eqn:D end; [|discriminate].
  destruct (objects st (v2_boundary (c0 :: cs) have_new newb) wants []) as [nv|] eqn:NV; [|discriminate].
  destruct (objects st (c0 :: cs) haves []) as [cv|] eqn:CV; [|discriminate].
  inversion H; subst out. clear H. cbn [vo_objs vo_shallow]. exists have_new, newb. split; [|split].
  - destruct have_new; split; intro X; congruence.
  - intros shl un X. destruct have_new; [inversion X; reflexivity | discriminate].
  - intros o Ho.
    assert (Hin : In o nv) by (eapply complete; eauto using no_haves_reach).
    destruct (diff_list_In nv cv o Hin) as [A|A]; [now left|]. right.
    eapply only_wanted; eauto.
Qed.

Lemma v2_plain_client_covers : forall fuel st wants haves depth out,
  wf_store st = true ->
  serve_fetch_v2 fuel st wants haves [] depth = Ok out ->
  exists boundary,
    (forall shl un, vo_shallow out = Some (shl, un) -> shl = boundary /\ un = []) /\
    (vo_shallow out = None -> boundary = []) /\
    forall o, reach_set st boundary wants o -> ~ reach_set st boundary haves o -> In o (vo_objs out).
Proof.
  intros fuel st wants haves depth out Hwf H. unfold serve_fetch_v2 in H.
  match type of H with match ?x with _ => _ end = _ => destruct x as [[have_new newb]|] eqn:D end; [|discriminate].
  set (graft := have_new && negb (Nat.eqb (List.length newb) 0)) in *.
  destruct (objects st (if graft then newb else []) wants haves) as [objs|] eqn:O; [|discriminate].
  inversion H; subst out. clear H. cbn [vo_objs vo_shallow]. exists (if graft then newb else []).
  split; [|split].
  - intros shl un X. destruct graft; [inversion X; auto | discriminate].
  - intro X. destruct graft; [discriminate | reflexivity].
  - intros o Ho Hn. eapply complete; eauto.
Qed.
