(* Proofs/C03CommitSig.v — commits: the signature go-git's scanner accumulates
   in Commit.Signature is the signature buffer of git's
   parse_buffer_signed_by_header, for every object whose gpgsig-prefixed
   header lines are signature headers and whose header lines are LF-terminated. *)
From Coq Require Import List NArith ZArith Bool Lia.
From GoGit Require Import Base.Out Model.ObjLines Model.Ident Model.Commit Model.Tag Model.SigPayload
     Spec.GitSig Spec.ObjWf Spec.SigGuards Proofs.ObjLinesFacts Proofs.C03Commit.
Import ListNotations.
Local Open Scope N_scope.

(* ---- cut_at / trim_right / split_header ---- *)
Lemma cut_at_spec c b k v f :
  cut_at c b = (k, v, f) -> b = k ++ (if f then c :: v else []) /\ forallb (fun x => negb (x =? c)) k = true.
Proof.
  revert k v f; induction b as [|x b IH]; intros k v f H; cbn in H.
  - inversion H; subst. now split.
  - destruct (x =? c) eqn:E.
    + inversion H; subst. apply N.eqb_eq in E. subst. now split.
    + destruct (cut_at c b) as [[k0 v0] f0] eqn:Ec. inversion H; subst.
      destruct (IH _ _ _ eq_refl) as [-> Hk]. split; [reflexivity|]. cbn. now rewrite E, Hk.
Qed.

Lemma trim_right_app_lf p : no_lf p = true -> trim_right LF (p ++ [LF]) = p.
Proof.
  induction p as [|c p IH]; intros H; [reflexivity|]. rewrite no_lf_cons in H.
  apply andb_true_iff in H as [H1 H2]. apply negb_true_iff in H1.
  change (trim_right LF ((c :: p) ++ [LF])) with
    (match trim_right LF (p ++ [LF]) with [] => if c =? LF then [] else [c] | t => c :: t end).
  rewrite (IH H2), H1. now destruct p.
Qed.

Lemma line_lf_form l : line_ok l -> ends_nl l = true -> exists p, no_lf p = true /\ l = p ++ [LF].
Proof.
  intros [Hne [p [Hp [-> | ->]]]] He; [now exists p|]. now rewrite (ends_nl_no_lf _ Hp) in He.
Qed.

Lemma split_header_line p : no_lf p = true ->
  split_header (p ++ [LF]) = (let '(k, v, _) := cut_at SPC p in (k, v)).
Proof. intros H. unfold split_header. now rewrite (trim_right_app_lf _ H). Qed.

(* a line whose key is K starts with K *)
Lemma key_prefix l k : line_ok l -> ends_nl l = true -> fst (split_header l) = k -> starts_with k l = true.
Proof.
  intros Hl He Hk. destruct (line_lf_form _ Hl He) as [p [Hp ->]].
  rewrite (split_header_line _ Hp) in Hk. destruct (cut_at SPC p) as [[k0 v0] f0] eqn:Ec. cbn in Hk. subst k0.
  destruct (cut_at_spec _ _ _ _ _ Ec) as [-> _]. rewrite <- app_assoc. apply starts_with_app.
Qed.

Lemma key_gpgsig7 l : line_ok l -> ends_nl l = true -> starts_with (k_gpgsig ++ [SPC]) l = true ->
  split_header l = (k_gpgsig, removelast (skipn 7 l)) /\ snd (split_header l) ++ [LF] = skipn 7 l.
Proof.
  intros Hl He H7. destruct (line_lf_form _ Hl He) as [p [Hp ->]].
  apply starts_with_spec in H7 as [r Hr].
  assert (exists v, p = (k_gpgsig ++ [SPC]) ++ v) as [v ->].
  { destruct (exists_last (l := r)) as [v [x Hv]].
    - intros ->. rewrite app_nil_r in Hr. apply app_inj_tail in Hr as [_ Hx]. discriminate Hx.
    - subst r. rewrite app_assoc in Hr. apply app_inj_tail in Hr as [-> _]. now exists v. }
  rewrite (split_header_line _ Hp).
  change (cut_at SPC ((k_gpgsig ++ [SPC]) ++ v)) with (k_gpgsig, v, true).
  change (skipn 7 (((k_gpgsig ++ [SPC]) ++ v) ++ [LF])) with (v ++ [LF]).
  cbn [fst snd]. split; [|reflexivity]. now rewrite removelast_last.
Qed.

Lemma key_gpgsig256 l : line_ok l -> ends_nl l = true -> starts_with (k_gpgsig256 ++ [SPC]) l = true ->
  fst (split_header l) = k_gpgsig256.
Proof.
  intros Hl He H7. destruct (line_lf_form _ Hl He) as [p [Hp ->]].
  apply starts_with_spec in H7 as [r Hr].
  assert (exists v, p = (k_gpgsig256 ++ [SPC]) ++ v) as [v ->].
  { destruct (exists_last (l := r)) as [v [x Hv]].
    - intros ->. rewrite app_nil_r in Hr. apply app_inj_tail in Hr as [_ Hx]. discriminate Hx.
    - subst r. rewrite app_assoc in Hr. apply app_inj_tail in Hr as [-> _]. now exists v. }
  rewrite (split_header_line _ Hp).
  change (cut_at SPC ((k_gpgsig256 ++ [SPC]) ++ v)) with (k_gpgsig256, v, true). reflexivity.
Qed.

(* a line starting with a blank has the empty key *)
Lemma key_of_sp l : first_is SPC l = true -> fst (split_header l) = [].
Proof.
  intros H. apply first_is_true in H as [r ->]. unfold split_header.
  assert (exists t, trim_right LF (SPC :: r) = SPC :: t) as [t ->].
  { change (trim_right LF (SPC :: r)) with
      (match trim_right LF r with [] => if SPC =? LF then [] else [SPC] | t => SPC :: t end).
    destruct (trim_right LF r); [now exists []|eexists; reflexivity]. }
  reflexivity.
Qed.

(* ---- how one scanner step changes Commit.Signature ---- *)
Definition is_pgp (st : cstate) : bool := match st with SPgp => true | _ => false end.

Lemma on_headers_sig c se l c' se' st' :
  is_blank l = false -> on_headers c se l = (c', se', st') ->
  if beqb (fst (split_header l)) k_gpgsig
  then c_sig c' = c_sig c ++ snd (split_header l) ++ [LF] /\ st' = SPgp
  else c_sig c' = c_sig c /\ is_pgp st' = false /\ st' <> SMessage.
Proof.
  intros Hb. unfold on_headers. rewrite Hb.
  destruct (split_header l) as [key data]. cbn [fst snd].
  destruct (beqb key k_gpgsig) eqn:Eg.
  - apply beqb_eq in Eg. subst key.
    replace (beqb k_gpgsig k_tree || beqb k_gpgsig k_parent || beqb k_gpgsig k_author || beqb k_gpgsig k_committer)
      with false by reflexivity.
    replace (beqb k_gpgsig k_encoding) with false by reflexivity.
    replace (beqb k_gpgsig k_gpgsig) with true by reflexivity.
    intros H; inversion H; subst. split; reflexivity.
  - destruct (beqb key k_tree || beqb key k_parent || beqb key k_author || beqb key k_committer).
    + intros H; inversion H; subst. repeat split; try reflexivity; discriminate.
    + destruct (beqb key k_encoding).
      * intros H; inversion H; subst. destruct se; repeat split; try reflexivity; discriminate.
      * destruct (beqb key k_gpgsig256).
        -- intros H; inversion H; subst. repeat split; try reflexivity; discriminate.
        -- destruct (parse_extra_header l) as [[k v] multi].
           destruct multi; intros H; inversion H; subst; repeat split; try reflexivity; discriminate.
Qed.

Lemma on_committer_sig c se l c' se' st' :
  is_blank l = false -> on_committer c se l = (c', se', st') ->
  if beqb (fst (split_header l)) k_gpgsig
  then c_sig c' = c_sig c ++ snd (split_header l) ++ [LF] /\ st' = SPgp
  else c_sig c' = c_sig c /\ is_pgp st' = false /\ st' <> SMessage.
Proof.
  intros Hb. unfold on_committer. rewrite Hb.
  destruct (split_header l) as [key data] eqn:Es.
  destruct (beqb key k_committer) eqn:Ek.
  - apply beqb_eq in Ek. subst key. cbn [fst snd].
    replace (beqb k_committer k_gpgsig) with false by reflexivity.
    intros H; inversion H; subst. repeat split; try reflexivity; discriminate.
  - intros H. pose proof (on_headers_sig _ _ _ _ _ _ Hb H) as P. now rewrite Es in P.
Qed.

Lemma on_author_sig c se l c' se' st' :
  is_blank l = false -> on_author c se l = (c', se', st') ->
  if beqb (fst (split_header l)) k_gpgsig
  then c_sig c' = c_sig c ++ snd (split_header l) ++ [LF] /\ st' = SPgp
  else c_sig c' = c_sig c /\ is_pgp st' = false /\ st' <> SMessage.
Proof.
  intros Hb. unfold on_author. rewrite Hb.
  destruct (split_header l) as [key data] eqn:Es.
  destruct (beqb key k_author) eqn:Ek.
  - apply beqb_eq in Ek. subst key. cbn [fst snd].
    replace (beqb k_author k_gpgsig) with false by reflexivity.
    intros H; inversion H; subst. repeat split; try reflexivity; discriminate.
  - intros H. pose proof (on_committer_sig _ _ _ _ _ _ Hb H) as P. now rewrite Es in P.
Qed.

(* a header state on a line that is neither blank nor a continuation *)
Lemma cstep_sig_plain st c se l c' se' st' :
  st <> SMessage -> is_blank l = false -> first_is SPC l = false ->
  cstep st c se false l = Ok (c', se', st') ->
  if beqb (fst (split_header l)) k_gpgsig
  then c_sig c' = c_sig c ++ snd (split_header l) ++ [LF] /\ st' = SPgp
  else c_sig c' = c_sig c /\ is_pgp st' = false /\ st' <> SMessage.
Proof.
  intros Hst Hb Hsp. destruct st; cbn [cstep]; try rewrite Hsp; try rewrite Hb.
  - (* SParents *)
    destruct (split_header l) as [key data] eqn:Es.
    destruct (beqb key k_parent) eqn:Ek.
    + apply beqb_eq in Ek. subst key. cbn [fst snd].
      replace (beqb k_parent k_gpgsig) with false by reflexivity.
      destruct (parse_oid data); intros H; inversion H; subst. repeat split; try reflexivity; discriminate.
    + intros H. inversion H as [H']. pose proof (on_author_sig _ _ _ _ _ _ Hb H') as P. now rewrite Es in P.
  - intros H. inversion H as [H']. exact (on_author_sig _ _ _ _ _ _ Hb H').
  - intros H. inversion H as [H']. exact (on_committer_sig _ _ _ _ _ _ Hb H').
  - intros H. inversion H as [H']. exact (on_headers_sig _ _ _ _ _ _ Hb H').
  - intros H. inversion H as [H']. exact (on_headers_sig _ _ _ _ _ _ Hb H').
  - intros H. inversion H as [H']. exact (on_headers_sig _ _ _ _ _ _ Hb H').
  - intros H. inversion H as [H']. exact (on_headers_sig _ _ _ _ _ _ Hb H').
  - contradiction.
Qed.

(* a header state on a continuation-looking line *)
Lemma cstep_sig_cont st c se l c' se' st' :
  st <> SMessage -> first_is SPC l = true ->
  cstep st c se false l = Ok (c', se', st') ->
  st' <> SMessage /\
  if is_pgp st then c_sig c' = c_sig c ++ tl l /\ st' = SPgp
  else c_sig c' = c_sig c /\ is_pgp st' = false.
Proof.
  intros Hst Hsp.
  assert (Hb : is_blank l = false) by now apply sp_not_blank.
  assert (Hk : beqb (fst (split_header l)) k_gpgsig = false) by now rewrite (key_of_sp _ Hsp).
  destruct st; cbn [cstep is_pgp]; try rewrite Hsp.
  - rewrite Hb. destruct (split_header l) as [key data] eqn:Es.
    assert (key = []) by (pose proof (key_of_sp _ Hsp) as P; now rewrite Es in P). subst key.
    replace (beqb [] k_parent) with false by reflexivity.
    intros H. inversion H as [H']. pose proof (on_author_sig _ _ _ _ _ _ Hb H') as P.
    rewrite Es in P. cbn [fst snd] in P. replace (beqb [] k_gpgsig) with false in P by reflexivity. tauto.
  - intros H. inversion H as [H']. pose proof (on_author_sig _ _ _ _ _ _ Hb H') as P. rewrite Hk in P. tauto.
  - intros H. inversion H as [H']. pose proof (on_committer_sig _ _ _ _ _ _ Hb H') as P. rewrite Hk in P. tauto.
  - intros H. inversion H as [H']. pose proof (on_headers_sig _ _ _ _ _ _ Hb H') as P. rewrite Hk in P. tauto.
  - intros H. inversion H; subst. repeat split; try reflexivity; discriminate.
  - intros H. inversion H; subst. repeat split; try reflexivity; discriminate.
  - intros H. inversion H; subst. repeat split; try reflexivity; discriminate.
  - contradiction.
Qed.

(* a header state on the blank line *)
Lemma cstep_sig_blank st c se l c' se' st' :
  st <> SMessage -> is_blank l = true ->
  cstep st c se false l = Ok (c', se', st') -> st' = SMessage /\ c_sig c' = c_sig c.
Proof.
  intros Hst Hb.
  assert (Hsp : first_is SPC l = false).
  { destruct l as [|x [|y l]]; try discriminate. cbn in Hb. apply N.eqb_eq in Hb. now subst. }
  destruct st; cbn [cstep]; try rewrite Hsp; try rewrite Hb;
    unfold on_author, on_committer, on_headers; try rewrite Hb;
    try (intros H; inversion H; subst; split; reflexivity).
Qed.

Lemma crun_message_sig ls c0 se c : crun SMessage c0 se ls = Ok c -> c_sig c = c_sig c0.
Proof.
  revert c0 se; induction ls as [|l r IH]; intros c0 se; cbn [crun cfinish].
  - intros H; now inversion H.
  - cbn [cstep]. destruct (negb (ends_nl l)).
    + intros H; now inversion H.
    + intros H. now rewrite (IH _ _ H).
Qed.

(* the signature part of pbsh does not depend on other_signature *)
Fixpoint pbsh_sig (h : bytes) (i : bool) (ls : list bytes) : bytes :=
  match ls with
  | [] => []
  | l :: r =>
    if i && first_is SPC l then tl l ++ pbsh_sig h true r
    else if starts_with (h ++ [SPC]) l then skipn (List.length h + 1) l ++ pbsh_sig h true r
    else if first_is LF l then [] else pbsh_sig h false r
  end.

Lemma pbsh_sig_eq h : forall ls i o, snd (fst (pbsh h i o ls)) = pbsh_sig h i ls.
Proof.
  induction ls as [|l r IH]; intros i o; [reflexivity|]. cbn [pbsh pbsh_sig].
  destruct (i && first_is SPC l).
  - specialize (IH true o). destruct (pbsh h true o r) as [[p s] f]. cbn in *. now rewrite IH.
  - destruct (starts_with (h ++ [SPC]) l).
    + specialize (IH true false). destruct (pbsh h true false r) as [[p s] f]. cbn in *. now rewrite IH.
    + cbv zeta. destruct (first_is LF l); [reflexivity|].
      match goal with |- context [pbsh h false ?a r] =>
        specialize (IH false a); destruct (pbsh h false a r) as [[p s] f] end.
      cbn in *. exact IH.
Qed.

Lemma crun_sig : forall ls st c0 se c,
  st <> SMessage -> Forall line_ok ls -> foreign_gpgsig_free ls = true ->
  forallb ends_nl (header_of ls) = true ->
  crun st c0 se ls = Ok c ->
  c_sig c = c_sig c0 ++ pbsh_sig k_gpgsig (is_pgp st) ls.
Proof.
  induction ls as [|l r IH]; intros st c0 se c Hst Hok Hg He.
  - cbn [crun pbsh_sig]. intros H. inversion H; subst. rewrite app_nil_r. destruct st; reflexivity.
  - inversion Hok as [|? ? Hl Hr]; subst. cbn [crun pbsh_sig].
    destruct (first_is LF l) eqn:Elf.
    + (* the blank line: the scanner enters the message, pbsh dumps the remainder *)
      assert (Hb : is_blank l = true) by now rewrite <- (first_is_lf_blank _ Hl).
      assert (Een : ends_nl l = true) by (destruct l as [|x [|y l]]; try discriminate; exact Hb).
      rewrite Een. cbn [negb].
      destruct (cstep st c0 se false l) as [[[c1 se1] st1]|e] eqn:Es; [|discriminate].
      destruct (cstep_sig_blank _ _ _ _ _ _ _ Hst Hb Es) as [-> Hc1].
      intros H. rewrite (crun_message_sig _ _ _ _ H), Hc1.
      assert (Hsp : first_is SPC l = false) by (destruct l as [|x l']; [reflexivity|]; cbn in *; apply N.eqb_eq in Elf; now subst).
      rewrite Hsp, andb_false_r, (lf_not_gpgsig7 _ Elf). now rewrite app_nil_r.
    + cbn [header_of] in He. rewrite Elf in He. cbn [forallb] in He. apply andb_true_iff in He as [Een Her].
      destruct (guard_tail _ _ Elf Hg) as [Hgl Hgr].
      assert (Hb : is_blank l = false) by now rewrite <- (first_is_lf_blank _ Hl).
      rewrite Een. cbn [negb].
      destruct (cstep st c0 se false l) as [[[c1 se1] st1]|e] eqn:Es; [|discriminate].
      intros H.
      destruct (first_is SPC l) eqn:Esp.
      * (* continuation-looking line *)
        destruct (cstep_sig_cont _ _ _ _ _ _ _ Hst Esp Es) as [Hst1 P].
        rewrite (IH _ _ _ _ Hst1 Hr Hgr Her H).
        rewrite andb_true_r, (sp_not_gpgsig7 _ Esp).
        destruct (is_pgp st).
        -- destruct P as [-> ->]. cbn [is_pgp]. now rewrite app_assoc.
        -- destruct P as [-> P1]. now rewrite P1.
      * pose proof (cstep_sig_plain _ _ _ _ _ _ _ Hst Hb Esp Es) as P.
        rewrite andb_false_r.
        destruct (starts_with (k_gpgsig ++ [SPC]) l) eqn:E7.
        -- destruct (key_gpgsig7 _ Hl Een E7) as [Hk Hd]. rewrite Hk in P. cbn [fst snd] in P.
           replace (beqb k_gpgsig k_gpgsig) with true in P by reflexivity. destruct P as [P1 ->].
           rewrite Hk in Hd. cbn [snd] in Hd. rewrite Hd in P1.
           assert (Hne : SPgp <> SMessage) by discriminate.
           rewrite (IH _ _ _ _ Hne Hr Hgr Her H), P1. cbn [is_pgp].
           replace (List.length k_gpgsig + 1)%nat with 7%nat by reflexivity.
           now rewrite <- app_assoc.
        -- assert (Hkey : beqb (fst (split_header l)) k_gpgsig = false).
           { apply beqb_neq. intros Hk. pose proof (key_prefix _ _ Hl Een Hk) as Hpre.
             rewrite Hpre in Hgl. cbn [negb orb] in Hgl.
             unfold is_sig_header in Hgl. rewrite E7 in Hgl. cbn [orb] in Hgl.
             pose proof (key_gpgsig256 _ Hl Een Hgl) as K. rewrite Hk in K. discriminate K. }
           rewrite Hkey in P. destruct P as [P1 [P2 P3]].
           now rewrite (IH _ _ _ _ P3 Hr Hgr Her H), P1, P2.
Qed.

Theorem sig_eq_pbsh : forall raw c,
  decode_commit raw = Ok c -> commit_sig_guard raw = true -> hdr_terminated raw = true ->
  c_sig c = snd (fst (git_commit_payload raw)).
Proof.
  intros raw c Hd Hg He. unfold decode_commit, commit_sig_guard, hdr_terminated, git_commit_payload in *.
  rewrite pbsh_sig_eq.
  pose proof (split_lines_ok raw) as Hok.
  destruct (split_lines raw) as [|l r]; [discriminate|].
  inversion Hok as [|? ? Hl Hr]; subst.
  cbn [decode_commit_lines] in Hd.
  destruct (is_blank l) eqn:Hb; [discriminate|].
  destruct (split_header l) as [key data] eqn:Es.
  destruct (beqb key k_tree) eqn:Ek; [|discriminate]. cbn [negb] in Hd.
  destruct (parse_oid data) as [h|]; [|discriminate].
  assert (Elf : first_is LF l = false) by now rewrite (first_is_lf_blank _ Hl).
  cbn [header_of] in He. rewrite Elf in He. cbn [forallb] in He. apply andb_true_iff in He as [Een Her].
  destruct (guard_tail _ _ Elf Hg) as [_ Hgr].
  rewrite Een in Hd.
  apply beqb_eq in Ek. subst key.
  assert (Hpre : starts_with k_tree l = true) by (apply (key_prefix _ _ Hl Een); now rewrite Es).
  apply starts_with_spec in Hpre as [x ->].
  assert (Hne : SParents <> SMessage) by discriminate.
  rewrite (crun_sig _ _ _ _ _ Hne Hr Hgr Her Hd).
  reflexivity.
Qed.
