(* Proofs/C12Eoie.v — read_eoie_extension (S) accepts the EOIE extension do_write_index (S) emits in a
   SHA-1 repository, and returns the offset of the first extension; in a SHA-256 repository the same
   reader rejects it (it insists on 4 + 20 bytes). *)
From Coq Require Import List NArith ZArith Arith Lia ZifyBool ZifyNat ZifyN Bool.
From GoGit Require Import Base.Out Model.IndexFile Spec.GitIndex Proofs.C12.
Import ListNotations.
Local Open Scope N_scope.

Definition ext_ok (x : bytes * bytes) : bool :=
  (List.length (fst x) =? 4)%nat && (N.of_nat (List.length (snd x)) <? 4294967296).

Lemma eoie_walk_exts : forall exts acc fuel,
  forallb ext_ok exts = true -> (List.length exts <= fuel)%nat ->
  g_eoie_walk fuel (flat_map g_ext_bytes exts) acc = Some (acc ++ flat_map g_ext_header exts).
Proof.
  induction exts as [|x exts IH]; intros acc fuel Hw Hf.
  - cbn [flat_map]. destruct fuel; cbn [g_eoie_walk]; now rewrite app_nil_r.
  - cbn [forallb] in Hw. apply andb_true_iff in Hw as [Hx Hw].
    unfold ext_ok in Hx. apply andb_true_iff in Hx as [Hs Hd]. apply Nat.eqb_eq in Hs. apply N.ltb_lt in Hd.
    destruct fuel as [|fuel]; [cbn in Hf; lia|].
    cbn [flat_map]. destruct x as [sig data]. cbn [fst snd] in *.
    unfold g_ext_bytes at 1. unfold g_ext_header at 1. cbn [fst snd]. rewrite <- !app_assoc.
    assert (Hne : exists c r, sig ++ u32 (N.of_nat (List.length data)) ++ data ++ flat_map g_ext_bytes exts = c :: r).
    { destruct sig as [|c s]; [discriminate|]. eexists. eexists. reflexivity. }
    destruct Hne as (c & r & Hne).
    cbn [g_eoie_walk]. rewrite Hne. rewrite <- Hne. clear c r Hne.
    replace (sig ++ u32 (N.of_nat (List.length data)) ++ data ++ flat_map g_ext_bytes exts)
      with ((sig ++ u32 (N.of_nat (List.length data))) ++ data ++ flat_map g_ext_bytes exts)
      by (rewrite <- app_assoc; reflexivity).
    rewrite (take_app_n 8) by (rewrite app_length, u32_length; lia).
    rewrite skipn_app, Hs, Nat.sub_diag. rewrite skipn_all2 by lia. cbn [skipn app].
    rewrite <- (app_nil_r (u32 (N.of_nat (List.length data)))) at 1. rewrite get_u32_u32 by exact Hd.
    replace (N.of_nat (List.length (data ++ flat_map g_ext_bytes exts)) <? N.of_nat (List.length data)) with false
      by (symmetry; apply N.ltb_ge; rewrite app_length; lia).
    rewrite Nat2N.id. rewrite skipn_app, Nat.sub_diag, skipn_all. cbn [skipn app].
    rewrite IH by (try exact Hw; cbn [List.length] in Hf; lia).
    cbn [flat_map]. unfold g_ext_header. cbn [fst snd]. rewrite <- !app_assoc. reflexivity.
Qed.

Lemma exts_length_le : forall exts : list (bytes * bytes), (List.length exts <= List.length (flat_map g_ext_bytes exts))%nat.
Proof.
  induction exts as [|x exts IH]; cbn [flat_map List.length]; [lia|].
  rewrite app_length. unfold g_ext_bytes at 1. unfold g_ext_header. rewrite !app_length, u32_length. lia.
Qed.

Section Eoie.
Variable H : bytes -> bytes.
Hypothesis H_len : forall x, List.length (H x) = 20%nat.

Lemma read_eoie_shape P exts hash T off :
  forallb ext_ok exts = true -> exts <> [] -> List.length hash = 20%nat -> List.length T = 20%nat ->
  off = N.of_nat (List.length P) -> 12 <= off -> off < 4294967296 -> hash = H (flat_map g_ext_header exts) ->
  g_read_eoie 20 H (P ++ flat_map g_ext_bytes exts ++ (gEOIE ++ u32 24 ++ u32 off ++ hash) ++ T) = off.
Proof.
  intros Hw Hne Hhash HT HP Hoff12 Hoff Hh.
  remember (flat_map g_ext_bytes exts) as X eqn:EX.
  remember (gEOIE ++ u32 24 ++ u32 off ++ hash) as E eqn:EE.
  assert (HE : List.length E = 32%nat) by (subst E; rewrite !app_length, !u32_length, Hhash; reflexivity).
  assert (HX : (1 <= List.length X)%nat).
  { subst X. pose proof (exts_length_le exts). destruct exts; [congruence|]. cbn [List.length] in *. lia. }
  remember (P ++ X ++ E ++ T) as file eqn:Efile.
  assert (Hn : List.length file = (List.length P + List.length X + 32 + 20)%nat).
  { subst file. rewrite !app_length. lia. }
  unfold g_read_eoie. rewrite Hn.
  replace (List.length P + List.length X + 32 + 20 <? 12 + 32 + 20)%nat with false by (symmetry; apply Nat.ltb_ge; lia).
  replace (List.length P + List.length X + 32 + 20 - 32 - 20)%nat with (List.length P + List.length X)%nat by lia.
  assert (Hskip : skipn (List.length P + List.length X) file = E ++ T).
  { subst file. replace (P ++ X ++ E ++ T) with ((P ++ X) ++ E ++ T) by (repeat rewrite <- app_assoc; reflexivity).
    rewrite skipn_app. rewrite app_length, Nat.sub_diag. rewrite skipn_all2 by (rewrite app_length; lia). reflexivity. }
  rewrite Hskip. rewrite EE. repeat rewrite <- app_assoc.
  rewrite (take_app_n 4) by reflexivity. change (bytes_eqb gEOIE gEOIE) with true. cbn [negb].
  rewrite get_u32_u32 by lia. cbn [N.eqb Pos.eqb negb].
  rewrite get_u32_u32 by exact Hoff.
  replace (off <? 12) with false by (symmetry; apply N.ltb_ge; exact Hoff12).
  replace (N.of_nat (List.length P + List.length X) <=? off) with false by (symmetry; apply N.leb_gt; lia).
  cbn [orb]. rewrite HP, Nat2N.id.
  assert (Hregion : firstn (List.length P + List.length X - List.length P) (skipn (List.length P) file) = X).
  { subst file. rewrite skipn_app, Nat.sub_diag, skipn_all. cbn [skipn app].
    replace (List.length P + List.length X - List.length P)%nat with (List.length X) by lia.
    rewrite firstn_app, Nat.sub_diag, firstn_all, firstn_O, app_nil_r. reflexivity. }
  rewrite Hregion. rewrite EX.
  rewrite eoie_walk_exts; [|exact Hw|pose proof (exts_length_le exts); rewrite <- EX in *; lia].
  cbn [app]. rewrite <- Hh.
  rewrite firstn_app, Hhash, Nat.sub_diag, firstn_O, app_nil_r. rewrite <- Hhash at 1. rewrite firstn_all.
  rewrite bytes_eqb_refl. reflexivity.
Qed.

Theorem eoie_accepts_own skip_w g :
  forallb ext_ok (g_ext_list g) = true -> g_ext_list g <> [] ->
  git_eoie_offset 20 g < 4294967296 ->
  g_read_eoie 20 H (git_encode 20 H true skip_w g) = git_eoie_offset 20 g.
Proof.
  intros Hw Hne Hoff.
  assert (Hhash : List.length (git_eoie_hash H g) = 20%nat) by apply H_len.
  assert (Hoff12 : 12 <= git_eoie_offset 20 g).
  { unfold git_eoie_offset, git_encode_entries, gDIRC. rewrite !app_length, !u32_length. cbn [List.length]. lia. }
  unfold git_encode.
  match goal with |- g_read_eoie _ _ (?body ++ ?T) = _ =>
    assert (HT : List.length T = 20%nat) by (destruct skip_w; [apply zeros_length|apply H_len]);
    replace (body ++ T) with (git_encode_entries 20 g ++ flat_map g_ext_bytes (g_ext_list g) ++
                              (gEOIE ++ u32 24 ++ u32 (git_eoie_offset 20 g) ++ git_eoie_hash H g) ++ T)
  end.
  - apply read_eoie_shape; try assumption; reflexivity.
  - unfold g_ext_bytes, g_ext_header. cbn [fst snd].
    rewrite app_length, u32_length, Hhash. change (N.of_nat (4 + 20)) with 24.
    repeat rewrite <- app_assoc. reflexivity.
Qed.

End Eoie.

(* SHA-256: the extension git writes is 4 + 32 bytes long, the reader looks for one of 4 + 20 *)
Lemma eoie_sha256_example :
  let Hf := fun _ : bytes => repeat 7 32 in
  let g := mkGI 2 [] None None (Some [1; 2; 3]) None false in
  g_read_eoie 32 Hf (git_encode 32 Hf true false g) = 0 /\
  g_read_eoie 20 (fun _ => repeat 7 20) (git_encode 20 (fun _ => repeat 7 20) true false g) = 12.
Proof. vm_compute. split; reflexivity. Qed.
