(* Proofs/C46.v — soundness and totality of the blame attribution function of Model/Blame.v
   for every history (DAG, parents first) and every consistent line-diff oracle. *)
From Coq Require Import List NArith Bool Arith Lia.
From GoGit Require Import Base.Out Model.Blame.
Import ListNotations.

(* ---------- decidable equalities *)
Lemma line_eqb_eq a b : line_eqb a b = true <-> a = b.
Proof.
  revert b; induction a as [|x a IH]; intros [|y b]; cbn; split; intros H; try congruence; try discriminate.
  - apply andb_true_iff in H as [H1 H2]. apply N.eqb_eq in H1. apply IH in H2. congruence.
  - inversion H; subst. apply andb_true_iff; split; [apply N.eqb_refl | now apply IH].
Qed.

Lemma lines_eqb_eq a b : lines_eqb a b = true <-> a = b.
Proof.
  revert b; induction a as [|x a IH]; intros [|y b]; cbn; split; intros H; try congruence; try discriminate.
  - apply andb_true_iff in H as [H1 H2]. apply line_eqb_eq in H1. apply IH in H2. congruence.
  - inversion H; subst. apply andb_true_iff; split; [now apply line_eqb_eq | now apply IH].
Qed.

(* ---------- list facts *)
Lemma nth_error_skipn {A} (l : list A) n k : nth_error (skipn n l) k = nth_error l (n + k).
Proof.
  revert l; induction n as [|n IH]; intros l; cbn; [reflexivity|].
  destruct l; cbn; [now destruct k | apply IH].
Qed.

Lemma nth_error_firstn {A} (l : list A) n k : k < n -> nth_error (firstn n l) k = nth_error l k.
Proof.
  revert l k; induction n as [|n IH]; intros l k Hk; [lia|].
  destruct l; cbn; [now destruct k|]. destruct k; cbn; [reflexivity|]. apply IH; lia.
Qed.

Lemma combine_seq_nth {A} (l : list A) s c x :
  nth_error l c = Some x -> In (s + c, x) (combine (seq s (length l)) l).
Proof.
  revert s c; induction l as [|y l IH]; intros s c H; [now destruct c|].
  destruct c; cbn in *.
  - inversion H; subst. left. f_equal. lia.
  - right. replace (s + S c) with (S s + c) by lia. now apply IH.
Qed.

(* ---------- the hunk walk *)
Lemma map_line_sound s : forall fp fc prev cur i j,
  shape_ok s fp fc = true -> cur <= i -> map_line s prev cur i = Some j ->
  exists i' j', i = cur + i' /\ j = prev + j' /\ i' < length fc /\ nth_error fp j' = nth_error fc i'.
Proof.
  induction s as [|[o n] s IH]; intros fp fc prev cur i j Hok Hle Hm; cbn [map_line] in Hm; [discriminate|].
  destruct o; cbn [shape_ok] in Hok.
  - (* Equal *)
    repeat (apply andb_true_iff in Hok as [Hok ?]).
    apply Nat.leb_le in Hok. apply Nat.leb_le in H1. apply lines_eqb_eq in H0.
    destruct (Nat.ltb i (cur + n)) eqn:Hlt.
    + apply Nat.ltb_lt in Hlt. injection Hm as <-.
      exists (i - cur), (i - cur). repeat split; try lia.
      rewrite <- (nth_error_firstn fp n) by lia. rewrite <- (nth_error_firstn fc n) by lia. now rewrite H0.
    + apply Nat.ltb_ge in Hlt.
      destruct (IH _ _ _ _ _ _ H Hlt Hm) as (i' & j' & Hi & Hj & Hlen & Hnth).
      exists (n + i'), (n + j'). rewrite skipn_length in Hlen.
      repeat split; try lia. rewrite !nth_error_skipn in Hnth. exact Hnth.
  - (* Add *)
    apply andb_true_iff in Hok as [Hn Hok]. apply Nat.leb_le in Hn.
    destruct (Nat.ltb i (cur + n)) eqn:Hlt; [discriminate|]. apply Nat.ltb_ge in Hlt.
    destruct (IH _ _ _ _ _ _ Hok Hlt Hm) as (i' & j' & Hi & Hj & Hlen & Hnth).
    exists (n + i'), j'. rewrite skipn_length in Hlen.
    repeat split; try lia. rewrite nth_error_skipn in Hnth. exact Hnth.
  - (* Delete *)
    apply andb_true_iff in Hok as [Hn Hok]. apply Nat.leb_le in Hn.
    destruct (IH _ _ _ _ _ _ Hok Hle Hm) as (i' & j' & Hi & Hj & Hlen & Hnth).
    exists i', (n + j'). repeat split; try lia. rewrite nth_error_skipn in Hnth. exact Hnth.
Qed.

(* ---------- reading the boolean guards *)
Lemma dag_ok_parent h c k p :
  dag_ok h = true -> get_commit h c = Some k -> In p k.(c_parents) -> p < c.
Proof.
  unfold dag_ok, get_commit. intros Hd Hc Hp.
  rewrite forallb_forall in Hd. specialize (Hd (0 + c, k) (combine_seq_nth h 0 c k Hc)). cbn in Hd.
  rewrite forallb_forall in Hd. apply Nat.ltb_lt. now apply Hd.
Qed.

Lemma oracle_ok_edge h dt c k fc p fp :
  oracle_ok h dt = true -> get_commit h c = Some k -> k.(c_file) = Some fc ->
  In p k.(c_parents) -> file_of h p = Some fp ->
  lines_eqb fp fc = true \/ shape_ok (get_shape dt p c) fp fc = true.
Proof.
  unfold oracle_ok, get_commit. intros Ho Hc Hf Hp Hfp.
  rewrite forallb_forall in Ho. specialize (Ho (0 + c, k) (combine_seq_nth h 0 c k Hc)). cbn in Ho.
  rewrite Hf in Ho. rewrite forallb_forall in Ho. specialize (Ho p Hp). rewrite Hfp in Ho.
  now apply orb_true_iff in Ho.
Qed.

(* a parent that takes the line holds the same line at the returned index *)
Lemma to_parent_sound h dt c k fc i p j :
  oracle_ok h dt = true -> get_commit h c = Some k -> k.(c_file) = Some fc -> In p k.(c_parents) ->
  i < length fc ->
  to_parent h dt c fc i p = Some j ->
  exists fp, file_of h p = Some fp /\ j < length fp /\ nth_error fp j = nth_error fc i.
Proof.
  intros Ho Hc Hf Hp Hi Ht. unfold to_parent in Ht.
  destruct (file_of h p) as [fp|] eqn:Hfp; [|discriminate].
  exists fp. split; [reflexivity|].
  destruct (lines_eqb fp fc) eqn:He.
  - apply lines_eqb_eq in He. inversion Ht; subst. auto.
  - destruct (oracle_ok_edge h dt c k fc p fp Ho Hc Hf Hp Hfp) as [H|H]; [congruence|].
    destruct (map_line_sound _ _ _ _ _ _ _ H (Nat.le_0_l i) Ht) as (i' & j' & Hi' & Hj' & Hl & Hn).
    cbn in Hi', Hj'. subst i' j'. split; [|exact Hn].
    apply nth_error_Some. rewrite Hn. apply nth_error_Some. exact Hi.
Qed.

Lemma first_taker_some h dt c fc i ps p j :
  first_taker h dt c fc i ps = Some (p, j) -> In p ps /\ to_parent h dt c fc i p = Some j.
Proof.
  induction ps as [|q ps IH]; cbn; [discriminate|].
  destruct (to_parent h dt c fc i q) eqn:Hq.
  - intros H; inversion H; subst. auto.
  - intros H. destruct (IH H). auto.
Qed.

Lemma first_taker_none h dt c fc i ps :
  first_taker h dt c fc i ps = None <-> forall p, In p ps -> to_parent h dt c fc i p = None.
Proof.
  induction ps as [|q ps IH]; cbn.
  - split; [intros _ p [] | reflexivity].
  - destruct (to_parent h dt c fc i q) eqn:Hq.
    + split; [discriminate|]. intros H. specialize (H q (or_introl eq_refl)). congruence.
    + rewrite IH. split.
      * intros H p [<-|Hp]; auto.
      * intros H p Hp. apply H. now right.
Qed.

Lemma identical_parent_some h fc ps p :
  identical_parent h fc ps = Some p -> In p ps /\ exists fp, file_of h p = Some fp /\ lines_eqb fp fc = true.
Proof.
  induction ps as [|q ps IH]; cbn; [discriminate|].
  destruct (file_of h q) as [fq|] eqn:Hq.
  - destruct (lines_eqb fq fc) eqn:He.
    + intros H; inversion H; subst. split; [now left|]. eauto.
    + intros H. destruct (IH H) as [Hi Hx]. auto.
  - intros H. destruct (IH H) as [Hi Hx]. auto.
Qed.

Lemma taker_some h dt c fc i ps p j :
  taker h dt c fc i ps = Some (p, j) -> In p ps /\ to_parent h dt c fc i p = Some j.
Proof.
  unfold taker. destruct (identical_parent h fc ps) as [q|] eqn:Hq.
  - intros H; inversion H; subst. destruct (identical_parent_some _ _ _ _ Hq) as (Hi & fp & Hf & He).
    split; [exact Hi|]. unfold to_parent. now rewrite Hf, He.
  - apply first_taker_some.
Qed.

Lemma taker_none h dt c fc i ps :
  taker h dt c fc i ps = None -> forall p, In p ps -> to_parent h dt c fc i p = None.
Proof.
  unfold taker. destruct (identical_parent h fc ps); [discriminate|]. apply first_taker_none.
Qed.

Lemma file_of_commit h c fc : file_of h c = Some fc -> exists k, get_commit h c = Some k /\ k.(c_file) = Some fc.
Proof. unfold file_of. destruct (get_commit h c) as [k|]; [|discriminate]. intros H. now exists k. Qed.

(* ---------- totality: every line of every version is attributed *)
Lemma blame_pos_total h dt :
  dag_ok h = true -> oracle_ok h dt = true ->
  forall fuel c i fc, c < fuel -> file_of h c = Some fc -> i < length fc ->
  exists k j, blame_pos fuel h dt c i = Some (k, j).
Proof.
  intros Hd Ho. induction fuel as [|f IH]; intros c i fc Hc Hf Hi; [lia|].
  destruct (file_of_commit _ _ _ Hf) as (k & Hk & Hkf).
  cbn [blame_pos]. rewrite Hk, Hkf. apply Nat.ltb_lt in Hi as Hi'. rewrite Hi'.
  destruct (taker h dt c fc i (c_parents k)) as [[p j]|] eqn:Hft.
  - apply taker_some in Hft as [Hp Ht].
    destruct (to_parent_sound _ _ _ _ _ _ _ _ Ho Hk Hkf Hp Hi Ht) as (fp & Hfp & Hj & _).
    pose proof (dag_ok_parent _ _ _ _ Hd Hk Hp). apply (IH p j fp); auto; lia.
  - eauto.
Qed.

(* ---------- soundness: the attributed commit's version holds that line at the returned index,
   the attributed commit is an ancestor-or-self, and none of its parents takes the line *)
Lemma blame_pos_sound h dt :
  dag_ok h = true -> oracle_ok h dt = true ->
  forall fuel c i fc k j, file_of h c = Some fc ->
  blame_pos fuel h dt c i = Some (k, j) ->
  k <= c /\
  exists kc fk, get_commit h k = Some kc /\ kc.(c_file) = Some fk /\ j < length fk /\
    nth_error fk j = nth_error fc i /\
    taker h dt k fk j kc.(c_parents) = None.
Proof.
  intros Hd Ho. induction fuel as [|f IH]; intros c i fc k j Hf Hb; [discriminate|].
  destruct (file_of_commit _ _ _ Hf) as (kc & Hk & Hkf).
  cbn [blame_pos] in Hb. rewrite Hk, Hkf in Hb.
  destruct (Nat.ltb i (length fc)) eqn:Hi; [|discriminate]. apply Nat.ltb_lt in Hi.
  destruct (taker h dt c fc i (c_parents kc)) as [[p j']|] eqn:Hft.
  - apply taker_some in Hft as [Hp Ht].
    destruct (to_parent_sound _ _ _ _ _ _ _ _ Ho Hk Hkf Hp Hi Ht) as (fp & Hfp & Hj & Hn).
    pose proof (dag_ok_parent _ _ _ _ Hd Hk Hp).
    destruct (IH _ _ _ _ _ Hfp Hb) as (Hle & kc' & fk & H1 & H2 & H3 & H4 & H5).
    split; [lia|]. exists kc', fk. repeat split; auto. congruence.
  - inversion Hb; subst. split; [lia|]. exists kc, fc. repeat split; auto.
Qed.

(* ---------- the result list *)
Lemma blame_length h dt head fc : file_of h head = Some fc -> length (blame h dt head) = length fc.
Proof. intros H. unfold blame. rewrite H. now rewrite map_length, seq_length. Qed.

Lemma blame_nth h dt head fc i :
  file_of h head = Some fc -> i < length fc ->
  nth_error (blame h dt head) i = Some (option_map fst (blame_pos (S head) h dt head i)).
Proof.
  intros H Hi. unfold blame. rewrite H.
  rewrite nth_error_map. rewrite (nth_error_nth' _ 0) by now rewrite seq_length.
  cbn [option_map]. now rewrite seq_nth.
Qed.
