(* Proofs/Worklist.v — the one invariant proof shared by every commit walker.

   A walker is a loop "pop a candidate from a container; skip it if seen;
   otherwise emit it, mark it seen, push (some of) its successors".  For ANY
   container discipline (stack of frames, stack, FIFO, binary heap) that keeps
   its contents as a set and pushes at least the unseen successors, the emitted
   sequence has no duplicates and is exactly the set reachable from the start
   through nodes outside the ignore list; every emitted node other than the
   start was discovered through an earlier emitted node.  Fuel
   1 + |contents| + (push budget of the nodes not yet emitted) suffices. *)
From Coq Require Import List Arith Bool Lia.
From GoGit Require Import Spec.Dag Model.CommitWalk.
Import ListNotations.

Lemma NoDup_app_cons_end : forall (l : list node) c, NoDup l -> ~ In c l -> NoDup (l ++ [c]).
Proof.
  intros l c H Hc.
  assert (H0 : NoDup (c :: rev l)).
  { constructor; [rewrite <- in_rev; exact Hc | apply NoDup_rev; exact H]. }
  apply NoDup_rev in H0. simpl in H0. rewrite rev_involutive in H0. exact H0.
Qed.

Section Worklist.
  Variable succ : node -> list node.
  Variable n : nat.
  Variable w : node -> nat.
  Hypothesis succ_lt : forall c p, c < n -> In p (succ c) -> p < n.

  Variable B : Type.
  Variable contents : B -> list node.
  Variable pop : B -> option (node * B).
  Variable push : node -> list node -> B -> B.
  Variable pushed : node -> list node -> list node.
  Hypothesis pop_none : forall b, pop b = None -> contents b = [].
  Hypothesis pop_in : forall b c b', pop b = Some (c, b') ->
    forall x, In x (contents b) <-> x = c \/ In x (contents b').
  Hypothesis pop_len : forall b c b', pop b = Some (c, b') ->
    length (contents b) = S (length (contents b')).
  Hypothesis push_in : forall c seen b x,
    In x (contents (push c seen b)) <-> In x (pushed c seen) \/ In x (contents b).
  Hypothesis push_len : forall c seen b,
    length (contents (push c seen b)) = length (pushed c seen) + length (contents b).
  Hypothesis pushed_sub : forall c seen x, In x (pushed c seen) -> In x (succ c).
  Hypothesis pushed_all : forall c seen p, In p (succ c) -> ~ In p seen -> In p (pushed c seen).
  Hypothesis pushed_w : forall c seen, length (pushed c seen) <= w c.

  Variable stop : node -> bool.
  Variable I : list node.     (* ignored nodes: never emitted, never walked through *)
  Variable s : node.          (* start *)

  Fixpoint gloop (fuel : nat) (b : B) (seen acc : list node) : wres :=
    match fuel with
    | O => (rev acc, WFuel)
    | S f =>
      match pop b with
      | None => (rev acc, WEof)
      | Some (c, b') =>
        if mem c seen then gloop f b' seen acc
        else if stop c then (rev (c :: acc), WStop)
        else gloop f (push c (c :: seen) b') (c :: seen) (c :: acc)
      end
    end.

  (* reachable from s through nodes outside I *)
  Inductive ra : node -> Prop :=
  | ra_start : ~ In s I -> ra s
  | ra_step : forall y x, ra y -> In x (succ y) -> ~ In x I -> ra x.

  Lemma ra_notin : forall x, ra x -> ~ In x I.
  Proof. intros x H. destruct H; assumption. Qed.

  (* [l] in emission order: every element but the start has a successor-parent before it *)
  Definition discovered (l : list node) : Prop :=
    forall l1 x l2, l = l1 ++ x :: l2 -> x = s \/ exists y, In y l1 /\ In x (succ y).

  (* the same on the accumulator (newest first) *)
  Definition disc_acc (acc : list node) : Prop :=
    forall a1 x a2, acc = a1 ++ x :: a2 -> x = s \/ exists y, In y a2 /\ In x (succ y).

  Lemma disc_acc_rev : forall acc, disc_acc acc -> discovered (rev acc).
  Proof.
    intros acc H l1 x l2 E.
    assert (E' : acc = rev l2 ++ x :: rev l1).
    { rewrite <- (rev_involutive acc). rewrite E. rewrite rev_app_distr. simpl.
      rewrite <- app_assoc. reflexivity. }
    destruct (H _ _ _ E') as [Hs | [y [Hy Hp]]]; [now left|].
    right. exists y. split; [|exact Hp]. now apply in_rev.
  Qed.

  Fixpoint budget_on (L : list node) (acc : list node) : nat :=
    match L with
    | [] => 0
    | x :: r => (if mem x acc then 0 else w x) + budget_on r acc
    end.
  Definition budget (acc : list node) : nat := budget_on (seq 0 n) acc.

  Lemma budget_on_cons : forall L c acc, NoDup L -> ~ In c acc ->
    budget_on L (c :: acc) + (if mem c L then w c else 0) = budget_on L acc.
  Proof.
    induction L as [|x r IH]; intros c acc Hnd Hc; simpl; [reflexivity|].
    inversion Hnd as [|? ? Hx Hr]; subst.
    specialize (IH c acc Hr Hc).
    destruct (Nat.eqb c x) eqn:Ecx.
    - apply Nat.eqb_eq in Ecx. subst x.
      rewrite Nat.eqb_refl. simpl.
      assert (Hm : mem c acc = false) by (apply mem_false_In; exact Hc).
      rewrite Hm.
      assert (Hmr : mem c r = false) by (apply mem_false_In; exact Hx).
      rewrite Hmr in IH. lia.
    - assert (Exc : Nat.eqb x c = false) by (rewrite Nat.eqb_sym; exact Ecx).
      rewrite Exc. simpl. destruct (mem x acc); lia.
  Qed.

  Lemma budget_cons : forall (c : node) (acc : list node), c < n -> ~ In c acc -> budget (c :: acc) + w c = budget acc.
  Proof.
    intros c acc Hlt Hc. unfold budget.
    pose proof (budget_on_cons (seq 0 n) c acc (seq_NoDup n 0) Hc) as H.
    assert (Hm : mem c (seq 0 n) = true) by (apply mem_In; apply in_seq; lia).
    rewrite Hm in H. exact H.
  Qed.

  Record Inv (b : B) (seen acc : list node) : Prop := mkInv {
    i_nodup : NoDup acc;
    i_seen : forall x, In x seen <-> In x acc \/ In x I;
    i_ra : forall x, In x acc -> ra x;
    i_lt_acc : forall x, In x acc -> x < n;
    i_lt_cont : forall x, In x (contents b) -> x < n;
    i_cont : forall x, In x (contents b) -> x = s \/ exists y, In y acc /\ In x (succ y);
    i_closed : forall y p, In y acc -> In p (succ y) -> ~ In p I -> In p acc \/ In p (contents b);
    i_start : ~ In s I -> In s acc \/ In s (contents b);
    i_stop : forall x, In x acc -> stop x = false;
    i_disc : disc_acc acc
  }.

  Definition Post (r : wres) : Prop :=
    let '(l, e) := r in
    (e = WEof /\ NoDup l /\ (forall x, In x l <-> ra x) /\ (forall x, In x l -> stop x = false) /\ discovered l)
    \/ (e = WStop /\ exists l' c, l = l' ++ [c] /\ stop c = true /\ ra c /\ NoDup l /\
        (forall x, In x l -> ra x) /\ (forall x, In x l' -> stop x = false) /\ discovered l).

  Lemma complete_at_end : forall b seen acc, Inv b seen acc -> contents b = [] ->
    forall x, ra x -> In x acc.
  Proof.
    intros b seen acc HI He x Hr. induction Hr as [Hs | y x Hy IH Hp Hx].
    - destruct (i_start _ _ _ HI Hs) as [H|H]; [exact H|]. rewrite He in H. contradiction.
    - destruct (i_closed _ _ _ HI y x IH Hp Hx) as [H|H]; [exact H|]. rewrite He in H. contradiction.
  Qed.

  Lemma gloop_post : forall fuel b seen acc,
    Inv b seen acc -> length (contents b) + budget acc < fuel -> Post (gloop fuel b seen acc).
  Proof.
    induction fuel as [|f IH]; intros b seen acc HI Hf; [lia|].
    simpl. destruct (pop b) as [[c b']|] eqn:Ep.
    - pose proof (pop_in _ _ _ Ep) as Hin. pose proof (pop_len _ _ _ Ep) as Hlen.
      destruct (mem c seen) eqn:Ems.
      + (* already seen: drop it *)
        apply IH; [|lia].
        apply mem_In in Ems.
        destruct HI as [h1 h2 h3 h4 h5 h6 h7 h8 h9 h10].
        constructor; try assumption.
        * intros x Hx. apply h5. apply Hin. now right.
        * intros x Hx. apply h6. apply Hin. now right.
        * intros y p Hy Hp Hn. destruct (h7 y p Hy Hp Hn) as [H|H]; [now left|].
          apply Hin in H. destruct H as [H|H]; [|now right].
          subst p. apply h2 in Ems. destruct Ems as [H|H]; [now left | contradiction].
        * intros Hs. destruct (h8 Hs) as [H|H]; [now left|].
          apply Hin in H. destruct H as [H|H]; [|now right].
          subst c. apply h2 in Ems. destruct Ems as [H|H]; [now left | contradiction].
      + apply mem_false_In in Ems.
        destruct HI as [h1 h2 h3 h4 h5 h6 h7 h8 h9 h10].
        assert (HcI : ~ In c I) by (intros H; apply Ems; apply h2; now right).
        assert (Hcacc : ~ In c acc) by (intros H; apply Ems; apply h2; now left).
        assert (Hcin : In c (contents b)) by (apply Hin; now left).
        assert (Hclt : c < n) by (apply h5; exact Hcin).
        assert (Hcra : ra c).
        { destruct (h6 c Hcin) as [H|[y [Hy Hp]]].
          - subst c. now apply ra_start.
          - eapply ra_step; eauto. }
        assert (Hdisc : disc_acc (c :: acc)).
        { intros a1 x a2 E. destruct a1 as [|a a1]; simpl in E.
          - injection E as E1 E2. subst x a2.
            destruct (h6 c Hcin) as [H|[y [Hy Hp]]]; [now left|]. right. now exists y.
          - injection E as E1 E2. subst a. now apply h10 in E2. }
        destruct (stop c) eqn:Est.
        * (* the callback stops here *)
          unfold Post. right. split; [reflexivity|].
          exists (rev acc), c. simpl. repeat split.
          -- exact Est.
          -- exact Hcra.
          -- apply NoDup_rev in h1. apply NoDup_app_cons_end; [exact h1|]. now rewrite <- in_rev.
          -- intros x Hx. apply in_app_or in Hx. destruct Hx as [Hx|[Hx|[]]].
             ++ apply h3. now apply in_rev.
             ++ now subst x.
          -- intros x Hx. apply h9. now apply in_rev.
          -- change (rev acc ++ [c]) with (rev (c :: acc)). now apply disc_acc_rev.
        * apply IH.
          -- constructor.
             ++ constructor; assumption.
             ++ intros x. simpl. rewrite h2. tauto.
             ++ intros x [Hx|Hx]; [now subst x | now apply h3].
             ++ intros x [Hx|Hx]; [now subst x | now apply h4].
             ++ intros x Hx. apply push_in in Hx. destruct Hx as [Hx|Hx].
                ** apply pushed_sub in Hx. eapply succ_lt; eauto.
                ** apply h5. apply Hin. now right.
             ++ intros x Hx. apply push_in in Hx. destruct Hx as [Hx|Hx].
                ** right. exists c. split; [now left|]. eapply pushed_sub; eauto.
                ** destruct (h6 x) as [H|[y [Hy Hp]]]; [apply Hin; now right | now left |].
                   right. exists y. split; [now right | exact Hp].
             ++ intros y p [Hy|Hy] Hp Hn.
                ** subst y. destruct (in_dec Nat.eq_dec p (c :: seen)) as [Hps|Hps].
                   --- destruct Hps as [Hps|Hps]; [left; now left|].
                       apply h2 in Hps. destruct Hps as [Hps|Hps]; [left; now right | contradiction].
                   --- right. apply push_in. left. now apply pushed_all.
                ** destruct (h7 y p Hy Hp Hn) as [H|H]; [left; now right|].
                   apply Hin in H. destruct H as [H|H]; [left; now left|].
                   right. apply push_in. now right.
             ++ intros Hs. destruct (h8 Hs) as [H|H]; [left; now right|].
                apply Hin in H. destruct H as [H|H]; [left; now left|].
                right. apply push_in. now right.
             ++ intros x [Hx|Hx]; [now subst x | now apply h9].
             ++ exact Hdisc.
          -- rewrite push_len. pose proof (pushed_w c (c :: seen)).
             pose proof (budget_cons c acc Hclt Hcacc) as Hb. lia.
    - (* container empty *)
      unfold Post. left. split; [reflexivity|].
      pose proof (pop_none _ Ep) as He.
      pose proof (complete_at_end _ _ _ HI He) as Hcomp.
      destruct HI as [h1 h2 h3 h4 h5 h6 h7 h8 h9 h10].
      split; [now apply NoDup_rev|].
      split.
      { intros x. split.
        - intros Hx. apply h3. now apply in_rev.
        - intros Hx. apply in_rev. rewrite rev_involutive. now apply Hcomp. }
      split.
      { intros x Hx. apply h9. now apply in_rev. }
      now apply disc_acc_rev.
  Qed.
End Worklist.

(* ---- stopping the loop early yields a prefix of the unstopped emission ---- *)
Fixpoint cut_at (stop : node -> bool) (l : list node) : list node :=
  match l with
  | [] => []
  | c :: r => if stop c then [c] else c :: cut_at stop r
  end.

Lemma gloop_stop_prefix : forall (B : Type) pop push stop fuel (b : B) seen acc,
  exists suf,
    fst (gloop B pop push nostop fuel b seen acc) = rev acc ++ suf /\
    fst (gloop B pop push stop fuel b seen acc) = rev acc ++ cut_at stop suf.
Proof.
  intros B pop push stop. induction fuel as [|f IH]; intros b seen acc.
  - exists []. simpl. now rewrite app_nil_r.
  - simpl. destruct (pop b) as [[c b']|].
    + destruct (mem c seen); [apply IH|].
      change (nostop c) with false. cbv iota.
      destruct (IH (push c (c :: seen) b') (c :: seen) (c :: acc)) as [suf [H1 H2]].
      exists (c :: suf). split.
      * rewrite H1. simpl. now rewrite <- app_assoc.
      * destruct (stop c) eqn:Es.
        -- simpl. now rewrite Es.
        -- rewrite H2. simpl. rewrite Es. now rewrite <- app_assoc.
    + exists []. simpl. now rewrite app_nil_r.
Qed.

Lemma post_nostop : forall succ I s r, Post succ nostop I s r ->
  exists l, r = (l, WEof) /\ NoDup l /\ (forall x, In x l <-> ra succ I s x) /\ discovered succ s l.
Proof.
  intros succ I s [l e] H. unfold Post in H. destruct H as [[He [H1 [H2 [_ H4]]]] | [He [l' [c [_ [Hs _]]]]]].
  - subst e. exists l. repeat split; auto; apply H2.
  - discriminate.
Qed.
