(* Proofs/C10Splits.v — consecutive chunks of a table (the per-fanout-bucket
   arrays of MemoryIndex): sequential reads of the chunks, the chunk of the
   k-th first byte, counts derived from a non-decreasing fanout. *)
From Coq Require Import List NArith ZArith Bool Lia ZifyBool ZifyNat ZifyN.
From GoGit Require Import Base.Out Model.PackBytes Model.Idx Proofs.C10Bytes.
Import ListNotations.
Local Open Scope N_scope.

Fixpoint splits {A} (sizes : list nat) (l : list A) : list (list A) :=
  match sizes with
  | [] => []
  | s :: r => firstn s l :: splits r (skipn s l)
  end.

Fixpoint nsum (l : list nat) : nat := match l with [] => 0%nat | x :: r => (x + nsum r)%nat end.

Lemma splits_length {A} sizes (l : list A) : List.length (splits sizes l) = List.length sizes.
Proof. revert l. induction sizes as [|s r IH]; intros l; cbn; [reflexivity|]. now rewrite IH. Qed.

Lemma splits_incl {A} : forall sizes (l : list A) g x, In g (splits sizes l) -> In x g -> In x l.
Proof.
  induction sizes as [|s r IH]; intros l g x Hg Hx; cbn [splits] in Hg; [contradiction|].
  destruct Hg as [<-|Hg].
  - rewrite <- (firstn_skipn s l). apply in_or_app. now left.
  - rewrite <- (firstn_skipn s l). apply in_or_app. right. eapply IH; eauto.
Qed.

Lemma flat_map_ext_in' {A} (f f' : A -> bytes) (g : list A) :
  (forall x, In x g -> f x = f' x) -> flat_map f g = flat_map f' g.
Proof.
  induction g as [|x g IH]; intros E; [reflexivity|]. cbn [flat_map].
  rewrite E by now left. f_equal. apply IH. intros; apply E; now right.
Qed.

Lemma flat_map_firstn_skipn {A} (f : A -> bytes) (l : list A) s :
  flat_map f l = flat_map f (firstn s l) ++ flat_map f (skipn s l).
Proof. rewrite <- flat_map_app. now rewrite firstn_skipn. Qed.

(* consecutive io.ReadFull of the chunks of a table of fixed-width records *)
Lemma read_seq_splits {A} (f : A -> bytes) k : forall sizes (l : list A) rest,
  (forall x, blen (f x) = k) -> nsum sizes = List.length l ->
  read_seq (map (fun s => N.of_nat s * k) sizes) (flat_map f l ++ rest)
  = Some (map (flat_map f) (splits sizes l), rest).
Proof.
  induction sizes as [|s r IH]; intros l rest Hk Hs; cbn [map read_seq splits].
  - destruct l; [reflexivity|discriminate].
  - cbn [nsum] in Hs.
    rewrite (flat_map_firstn_skipn f l s), <- app_assoc.
    rewrite take_app_n.
    + rewrite IH; [reflexivity|assumption|]. rewrite skipn_length. lia.
    + rewrite (blen_flat_map f k) by (intros; apply Hk). rewrite firstn_length. lia.
Qed.

(* per-bucket counts of a non-decreasing fanout: they sum up to its last entry *)
Fixpoint nondecN (prev : N) (l : list N) : Prop :=
  match l with [] => True | x :: r => prev <= x /\ nondecN x r end.

Lemma last_cons_indep {A} (x : A) r d d' : last (x :: r) d = last (x :: r) d'.
Proof. revert x. induction r as [|y r IH]; intros x; [reflexivity|]. cbn [last] in *. apply IH. Qed.

Lemma nondecN_last : forall r f, nondecN f r -> f <= last r f.
Proof.
  induction r as [|x r IH]; intros f Hn; cbn [last]; [lia|].
  destruct Hn as [H1 H2]. specialize (IH x H2).
  destruct r as [|y r]; [lia|]. rewrite (last_cons_indep y r f x). lia.
Qed.

Lemma bucket_counts_sum : forall fo prev,
  nondecN prev fo -> fold_right N.add 0 (bucket_counts fo prev) = last fo prev - prev.
Proof.
  induction fo as [|f r IH]; intros prev Hn; cbn [bucket_counts fold_right].
  - cbn. lia.
  - destruct Hn as [Hp Hn]. rewrite (IH f Hn). pose proof (nondecN_last r f Hn).
    destruct r as [|y r]; [cbn [last]; lia|].
    change (last (f :: y :: r) prev) with (last (y :: r) prev).
    rewrite (last_cons_indep y r prev f). lia.
Qed.

Lemma skipn_add {A} : forall b a (l : list A), skipn a (skipn b l) = skipn (b + a) l.
Proof.
  induction b as [|b IH]; intros a l; [reflexivity|].
  destruct l as [|x l]; cbn [skipn plus]; [now destruct a|]. apply IH.
Qed.

(* the bucket of the k-th count: FanoutMapping and the chunk *)
Definition nz_sizes (cs : list N) : list nat := map N.to_nat (filter (fun c => negb (c =? 0)) cs).

Lemma nz_sizes_sum cs : N.of_nat (nsum (nz_sizes cs)) = fold_right N.add 0 cs.
Proof.
  unfold nz_sizes. induction cs as [|c r IH]; cbn [filter map nsum fold_right]; [reflexivity|].
  destruct (c =? 0) eqn:E; cbn [negb map nsum]; lia.
Qed.

Lemma bucket_of_count {A} : forall cs (l : list A) next k ck,
  nth_error cs k = Some ck -> ck <> 0 ->
  exists r, nth k (fmap_of_counts cs next) None = Some (next + r) /\
            nth (N.to_nat r) (splits (nz_sizes cs) l) []
            = firstn (N.to_nat ck) (skipn (N.to_nat (fold_right N.add 0 (firstn k cs))) l) /\
            r < N.of_nat (List.length (nz_sizes cs)).
Proof.
  induction cs as [|c cs IH]; intros l next k ck Hk Hne; [destruct k; discriminate|].
  unfold nz_sizes in *. destruct k as [|k]; cbn [nth_error] in Hk.
  - inversion Hk; subst c. cbn [fmap_of_counts filter].
    replace (ck =? 0) with false by lia. cbn [negb nth map splits firstn fold_right].
    exists 0. rewrite N.add_0_r. cbn [N.to_nat nth skipn List.length]. repeat split; lia.
  - cbn [fmap_of_counts filter firstn fold_right]. destruct (c =? 0) eqn:Ec.
    + cbn [negb nth]. destruct (IH l next k ck Hk Hne) as (r & R1 & R2 & R3).
      exists r. apply N.eqb_eq in Ec. subst c. rewrite N.add_0_l. auto.
    + cbn [negb nth map splits List.length].
      destruct (IH (skipn (N.to_nat c) l) (next + 1) k ck Hk Hne) as (r & R1 & R2 & R3).
      exists (r + 1). repeat split.
      * rewrite R1. f_equal. lia.
      * replace (N.to_nat (r + 1)) with (S (N.to_nat r)) by lia. cbn [nth]. rewrite R2.
        rewrite skipn_add. do 2 f_equal. lia.
      * lia.
Qed.

Lemma fmap_of_counts_zero : forall cs next k,
  nth_error cs k = Some 0 -> nth k (fmap_of_counts cs next) None = None.
Proof.
  induction cs as [|c cs IH]; intros next k Hk; [destruct k; discriminate|].
  destruct k as [|k]; cbn [nth_error] in Hk; cbn [fmap_of_counts].
  - inversion Hk; subst. reflexivity.
  - destruct (c =? 0); cbn [nth]; now apply IH.
Qed.

Lemma zip_buckets_nth : forall (ns cs os : list bytes) i,
  List.length ns = List.length cs -> List.length ns = List.length os -> (i < List.length ns)%nat ->
  nth i (zip_buckets ns cs os) emptyB = mkB (nth i ns []) (nth i os []) (nth i cs []).
Proof.
  induction ns as [|x ns IH]; intros cs os i H1 H2 Hi; cbn in Hi; [lia|].
  destruct cs as [|c cs]; [discriminate|]. destruct os as [|o os]; [discriminate|].
  destruct i as [|i]; cbn [zip_buckets nth]; [reflexivity|].
  apply IH; cbn in *; lia.
Qed.

Lemma zip_buckets_length : forall (ns cs os : list bytes),
  List.length ns = List.length cs -> List.length ns = List.length os ->
  List.length (zip_buckets ns cs os) = List.length ns.
Proof.
  induction ns as [|x ns IH]; intros cs os H1 H2; [reflexivity|].
  destruct cs as [|c cs]; [discriminate|]. destruct os as [|o os]; [discriminate|].
  cbn [zip_buckets List.length]. f_equal. apply IH; cbn in *; lia.
Qed.
