(* Proofs/C28IdFlat.v — for an index of top-level entries the id of the tree BuildTree writes is
   the id git write-tree computes (the nested case is exercised, not proved). *)
From Coq Require Import List NArith ZArith Bool Arith Lia.
From GoGit Require Import Base.Out Model.Status Model.IndexOps Gen.C04.
From GoGit Require Import Proofs.C27 Proofs.C28.
From GoGit Require Model.TreeObj Model.WriteTree Spec.GitWriteTree Proofs.C28Order.
Import ListNotations.
Local Open Scope N_scope.

Notation lexcmp := C28Order.lexcmp.

Lemma bytes_ltb_lexcmp a : forall b, bytes_ltb a b = match lexcmp a b with Lt => true | _ => false end.
Proof.
  induction a as [|x a IH]; intros [|y b]; cbn [bytes_ltb C28Order.lexcmp]; try reflexivity.
  destruct (x =? y) eqn:E.
  - apply N.eqb_eq in E. subst y. rewrite N.ltb_irrefl. cbn [orb]. apply IH.
  - destruct (x <? y); reflexivity.
Qed.

Lemma lexcmp_eq a : forall b, lexcmp a b = Eq -> a = b.
Proof.
  induction a as [|x a IH]; intros [|y b] H; cbn [C28Order.lexcmp] in H; try discriminate; [reflexivity|].
  destruct (x =? y) eqn:E; [|destruct (x <? y); discriminate].
  apply N.eqb_eq in E. subst y. f_equal. now apply IH.
Qed.

(* for different strings: a < b exactly when not a > b *)
Lemma ltb_negb_bgt a b : a <> b -> bytes_ltb a b = negb (TreeObj.bgt a b).
Proof.
  intros N. rewrite bytes_ltb_lexcmp, C28Order.bgt_lexcmp.
  destruct (lexcmp a b) eqn:E; try reflexivity. apply lexcmp_eq in E. contradiction.
Qed.

Definition rawi (tbl : list bytes) (e : ientry) : TreeObj.tentry :=
  TreeObj.mkT (WriteTree.tmode (ie_mode e)) (ie_path e) (WriteTree.blob_id tbl (ie_hash e)).

Lemma tmode_not_dir m : (WriteTree.tmode m =? fmode_Dir)%Z = false.
Proof. destruct m; reflexivity. Qed.

Lemma sn_rawi tbl e : TreeObj.sort_name (rawi tbl e) = ie_path e.
Proof. unfold TreeObj.sort_name, rawi. cbn [TreeObj.t_mode TreeObj.t_name]. now rewrite tmode_not_dir. Qed.

Lemma insert_agree tbl x l :
  mem_path (ie_path x) (map ie_path l) = false ->
  map (rawi tbl) (insert_by ie_path x l) = TreeObj.insert_entry (rawi tbl x) (map (rawi tbl) l).
Proof.
  induction l as [|y r IH]; intros H; [reflexivity|].
  cbn [map mem_path] in H. apply orb_false_iff in H as [H1 H2].
  cbn [insert_by map TreeObj.insert_entry]. rewrite !sn_rawi.
  assert (Ne : ie_path y <> ie_path x).
  { intros E. rewrite E, bytes_eqb_refl in H1. discriminate. }
  rewrite (ltb_negb_bgt _ _ Ne).
  destruct (TreeObj.bgt (ie_path y) (ie_path x)); cbn [negb map]; [reflexivity|]. now rewrite IH.
Qed.

Fixpoint nodup_e (l : list ientry) : bool :=
  match l with [] => true | e :: r => negb (mem_path (ie_path e) (map ie_path r)) && nodup_e r end.

Lemma mem_insert_by x l q : mem_path q (map ie_path (insert_by ie_path x l)) = bytes_eqb (ie_path x) q || mem_path q (map ie_path l).
Proof.
  induction l as [|y r IH]; [reflexivity|]. cbn [insert_by]. destruct (bytes_ltb (ie_path y) (ie_path x)); cbn [map mem_path].
  - rewrite IH. destruct (bytes_eqb (ie_path y) q), (bytes_eqb (ie_path x) q); reflexivity.
  - reflexivity.
Qed.

Lemma mem_sort_by l q : mem_path q (map ie_path (sort_by ie_path l)) = mem_path q (map ie_path l).
Proof.
  induction l as [|x l IH]; [reflexivity|]. cbn [sort_by fold_right]. fold (sort_by ie_path l).
  rewrite mem_insert_by, IH. reflexivity.
Qed.

Lemma sort_agree tbl l :
  nodup_e l = true -> map (rawi tbl) (sort_by ie_path l) = TreeObj.sort_entries (map (rawi tbl) l).
Proof.
  induction l as [|x l IH]; intros H; [reflexivity|].
  cbn [nodup_e] in H. apply andb_true_iff in H as [H1 H2]. apply negb_true_iff in H1.
  cbn [sort_by fold_right map TreeObj.sort_entries]. fold (sort_by ie_path l). fold (TreeObj.sort_entries (map (rawi tbl) l)).
  rewrite <- (IH H2). apply insert_agree. now rewrite mem_sort_by.
Qed.

(* ------------------------------------------------------------ the two ids *)

Definition flat_id_guard (i : list ientry) : bool :=
  forallb flat_entry i && forallb (fun e => nonzero e && negb (ie_ita e)) i && nodup_e i.

Lemma filter_all {A} (P : A -> bool) l : forallb P l = true -> filter P l = l.
Proof.
  induction l as [|x l IH]; [reflexivity|]. cbn [forallb filter]. intros H. apply andb_true_iff in H as [H1 H2].
  rewrite H1. f_equal. now apply IH.
Qed.

Lemma raw_entry_rawi tbl e : WriteTree.raw_entry tbl (ie_path e, Some (ie_mode e, ie_hash e)) = rawi tbl e.
Proof. reflexivity. Qed.

Lemma map_opt_files (l : list TreeObj.tentry) (f : TreeObj.tentry -> option TreeObj.tentry) :
  (forall te, In te l -> f te = Some te) -> WriteTree.map_opt f l = Some l.
Proof.
  induction l as [|x l IH]; intros H; [reflexivity|]. cbn [WriteTree.map_opt].
  rewrite (H x (or_introl eq_refl)), IH; [reflexivity|]. intros te Hte. apply H. now right.
Qed.

Lemma in_insert_entry e l x : In x (TreeObj.insert_entry e l) -> x = e \/ In x l.
Proof.
  induction l as [|y r IH]; cbn [TreeObj.insert_entry]; [intros [H|[]]; auto|].
  destruct (TreeObj.bgt _ _); cbn [In]; intros H.
  - destruct H as [H|[H|H]]; auto.
  - destruct H as [H|H]; auto. destruct (IH H); auto.
Qed.

Lemma in_sort_entries l x : In x (TreeObj.sort_entries l) -> In x l.
Proof.
  induction l as [|e l IH]; [intros []|]. cbn [TreeObj.sort_entries fold_right]. fold (TreeObj.sort_entries l).
  intros H. apply in_insert_entry in H as [->|H]; [now left|right; now apply IH].
Qed.

Lemma s_walk_flat tbl sub (l : list ientry) : forall k, (List.length l < k)%nat ->
  forallb flat_entry l = true ->
  GitWriteTree.walk_with sub k
    (map (fun e => (split_slash (ie_path e) [], WriteTree.tmode (ie_mode e), WriteTree.blob_id tbl (ie_hash e))) l)
  = Some (map (rawi tbl) l).
Proof.
  induction l as [|e l IH]; intros k Hk Hf.
  - destruct k; reflexivity.
  - destruct k as [|k]; [cbn in Hk; lia|]. cbn [forallb] in Hf. apply andb_true_iff in Hf as [He Hf].
    cbn [map]. unfold flat_entry in He. apply andb_true_iff in He as [He1 He2]. apply negb_true_iff in He1.
    cbn [GitWriteTree.walk_with]. rewrite (split_noslash _ [] He1). cbn [app].
    rewrite (IH k); [reflexivity|cbn in Hk; lia|exact Hf].
Qed.

Lemma forallb_sort_by (P : ientry -> bool) l : forallb P (sort_by ie_path l) = forallb P l.
Proof.
  induction l as [|x l IH]; [reflexivity|]. cbn [sort_by fold_right forallb]. fold (sort_by ie_path l).
  rewrite <- IH. generalize (sort_by ie_path l). intros s. induction s as [|y r IHr]; [reflexivity|].
  cbn [insert_by]. destruct (bytes_ltb (ie_path y) (ie_path x)); cbn [forallb]; [|reflexivity].
  rewrite IHr. destruct (P x), (P y); reflexivity.
Qed.

Lemma length_sort_by l : List.length (sort_by ie_path l) = List.length l.
Proof.
  induction l as [|x l IH]; [reflexivity|]. cbn [sort_by fold_right List.length]. fold (sort_by ie_path l). rewrite <- IH.
  generalize (sort_by ie_path l). intros s. induction s as [|y r IHr]; [reflexivity|].
  cbn [insert_by]. destruct (bytes_ltb _ _); cbn [List.length]; [now rewrite IHr|reflexivity].
Qed.

Lemma write_tree_id_flat tbl i gid :
  flat_id_guard i = true -> WriteTree.g_write_tree tbl i = Some gid -> GitWriteTree.s_write_tree tbl i = Some gid.
Proof.
  unfold flat_id_guard. intros G H. apply andb_true_iff in G as [G G3]. apply andb_true_iff in G as [G1 G2].
  assert (Gnz : forallb nonzero i = true).
  { apply forallb_forall. intros e He. rewrite forallb_forall in G2. specialize (G2 e He). now apply andb_true_iff in G2 as [G2 _]. }
  assert (Gita : forallb (fun e => negb (ie_ita e)) i = true).
  { apply forallb_forall. intros e He. rewrite forallb_forall in G2. specialize (G2 e He). now apply andb_true_iff in G2 as [_ G2]. }
  (* go-git's side *)
  unfold WriteTree.g_write_tree, build_trees in H. rewrite (build_flat i [] G1) in H. cbn [app] in H.
  rewrite (filter_all _ _ Gnz) in H. cbn [WriteTree.g_tree_id trees_get] in H. rewrite bytes_eqb_refl in H.
  rewrite map_map in H.
  assert (E1 : map (fun x => WriteTree.raw_entry tbl (ie_path x, Some (ie_mode x, ie_hash x))) i = map (rawi tbl) i) by reflexivity.
  rewrite E1 in H.
  rewrite map_opt_files in H.
  2:{ intros te Hte. apply in_sort_entries in Hte. apply in_map_iff in Hte as (e & <- & _).
      unfold rawi. cbn [TreeObj.t_mode]. now rewrite tmode_not_dir. }
  unfold TreeObj.encode in H. destruct (TreeObj.v_invalid _); [discriminate|]. cbn [option_map] in H.
  (* git's side *)
  unfold GitWriteTree.s_write_tree, GitWriteTree.git_entries. rewrite (filter_all _ _ Gita).
  cbn [GitWriteTree.s_tree].
  rewrite (s_walk_flat tbl _ (sort_by ie_path i)); [|rewrite map_length, length_sort_by; lia|now rewrite forallb_sort_by].
  rewrite (sort_agree tbl i G3). exact H.
Qed.
