(* Proofs/C12Digits.v — printf("%d") / ("%o") as git's cache-tree and resolve-undo writers use them
   (Spec/GitIndex.g_print_nat, g_print_int) are read back by strconv.Atoi / ParseInt as modelled in
   Model/IndexFile.parse_int, and contain none of the delimiters NUL, space, newline. *)
From Coq Require Import List NArith ZArith Arith Lia ZifyBool ZifyNat ZifyN Bool.
From GoGit Require Import Base.Out Model.IndexFile Spec.GitIndex.
Import ListNotations.
Local Open Scope N_scope.

Ltac Zify.zify_post_hook ::= Z.div_mod_to_equations.

Definition is_dig (base c : N) : bool := (48 <=? c) && (c <? 48 + base).

Lemma digits_val_step base c r acc : is_dig base c = true ->
  digits_val base (c :: r) acc = digits_val base r (acc * base + (c - 48)).
Proof. unfold is_dig. intros E. cbn [digits_val]. now rewrite E. Qed.

(* reading the printed digits back: the value accumulates *)
Lemma digits_of_val base : 2 <= base -> forall f n acc,
  n < base ^ N.of_nat f ->
  digits_val base (g_digits_of f base n acc) 0 = digits_val base acc n.
Proof.
  intros Hb. induction f as [|f IH]; intros n acc Hn.
  - cbn in Hn. assert (n = 0) by lia. subst. reflexivity.
  - cbn [g_digits_of].
    assert (Hd : is_dig base (48 + n mod base) = true).
    { unfold is_dig. pose proof (N.mod_upper_bound n base). apply andb_true_iff. split; [apply N.leb_le|apply N.ltb_lt]; lia. }
    destruct (n / base =? 0) eqn:E.
    + apply N.eqb_eq in E. rewrite digits_val_step by exact Hd. f_equal.
      pose proof (N.div_mod n base). pose proof (N.mod_upper_bound n base). nia.
    + rewrite IH.
      * rewrite digits_val_step by exact Hd. f_equal.
        pose proof (N.div_mod n base). pose proof (N.mod_upper_bound n base). nia.
      * rewrite Nat2N.inj_succ, N.pow_succ_r' in Hn. apply N.div_lt_upper_bound; lia.
Qed.

Lemma digits_of_all base : base <= 10 -> 1 <= base -> forall f n acc,
  forallb (is_dig 10) acc = true -> forallb (is_dig 10) (g_digits_of f base n acc) = true.
Proof.
  intros Hb Hb1. induction f as [|f IH]; intros n acc Ha; cbn [g_digits_of]; [exact Ha|].
  assert (Hd : forallb (is_dig 10) ((48 + n mod base) :: acc) = true).
  { cbn [forallb]. rewrite Ha, andb_true_r. unfold is_dig. pose proof (N.mod_upper_bound n base).
    apply andb_true_iff. split; [apply N.leb_le|apply N.ltb_lt]; lia. }
  destruct (n / base =? 0); [exact Hd|]. now apply IH.
Qed.

Lemma digits_of_nonempty : forall f base n acc, exists c r, g_digits_of (S f) base n acc = c :: r.
Proof.
  induction f as [|f IH]; intros base n acc.
  - cbn [g_digits_of]. destruct (n / base =? 0); eexists; eexists; reflexivity.
  - change (g_digits_of (S (S f)) base n acc)
      with (let acc' := (48 + n mod base) :: acc in if n / base =? 0 then acc' else g_digits_of (S f) base (n / base) acc').
    cbv zeta. destruct (n / base =? 0); [eexists; eexists; reflexivity|apply IH].
Qed.

Lemma pow_64_ge base : 2 <= base -> 18446744073709551616 <= base ^ N.of_nat 64.
Proof.
  intros Hb. change 18446744073709551616 with (2 ^ N.of_nat 64). apply N.pow_le_mono_l. exact Hb.
Qed.

Lemma print_nat_digits base n : 1 <= base <= 10 -> forallb (is_dig 10) (g_print_nat base n) = true.
Proof. intros [H1 H2]. unfold g_print_nat. apply digits_of_all; [assumption|assumption|reflexivity]. Qed.

(* a string that starts with a digit has no sign *)
Lemma parse_int_digit base c r : is_dig 10 c = true ->
  parse_int base (c :: r) =
  match digits_val base (c :: r) 0 with
  | None => None
  | Some v => if v <? 9223372036854775808 then Some (Z.of_N v) else None
  end.
Proof.
  unfold is_dig. intros Hc. apply andb_true_iff in Hc as [Hc1 Hc2]. apply N.leb_le in Hc1. apply N.ltb_lt in Hc2.
  assert (Hcases : c = 48 \/ c = 49 \/ c = 50 \/ c = 51 \/ c = 52 \/ c = 53 \/ c = 54 \/ c = 55 \/ c = 56 \/ c = 57) by lia.
  unfold parse_int. repeat (destruct Hcases as [-> | Hcases]; [reflexivity|]). subst c. reflexivity.
Qed.

Lemma parse_int_minus base r :
  parse_int base (45 :: r) =
  match r with
  | [] => None
  | _ => match digits_val base r 0 with
         | None => None
         | Some v => if v <=? 9223372036854775808 then Some (- Z.of_N v)%Z else None
         end
  end.
Proof. reflexivity. Qed.

(* strconv.ParseInt(s, base, 64) of a printed unsigned number below 2^63 *)
Lemma parse_print_nat base n : 2 <= base <= 10 -> n < 9223372036854775808 ->
  parse_int base (g_print_nat base n) = Some (Z.of_N n).
Proof.
  intros [Hb1 Hb2] Hn.
  assert (Hb0 : 1 <= base <= 10) by lia.
  pose proof (print_nat_digits base n Hb0) as Hd.
  assert (Hpow : n < base ^ N.of_nat 64).
  { apply N.lt_le_trans with 18446744073709551616; [lia|apply pow_64_ge; exact Hb1]. }
  pose proof (digits_of_val base Hb1 64 n [] Hpow) as Hv.
  fold (g_print_nat base n) in Hv. cbn [digits_val] in Hv.
  unfold g_print_nat in *. destruct (digits_of_nonempty 63 base n []) as (c & r & E).
  change (S 63) with 64%nat in E. rewrite E in *.
  cbn [forallb] in Hd. apply andb_true_iff in Hd as [Hc _].
  rewrite parse_int_digit by exact Hc. rewrite Hv.
  replace (n <? 9223372036854775808) with true by (symmetry; apply N.ltb_lt; exact Hn). reflexivity.
Qed.

Lemma print_nat_value base n : 2 <= base <= 10 -> n < 18446744073709551616 ->
  digits_val base (g_print_nat base n) 0 = Some n /\ g_print_nat base n <> [].
Proof.
  intros [Hb1 Hb2] Hn.
  assert (Hpow : n < base ^ N.of_nat 64).
  { apply N.lt_le_trans with 18446744073709551616; [lia|apply pow_64_ge; exact Hb1]. }
  split.
  - unfold g_print_nat. rewrite (digits_of_val base Hb1 64 n [] Hpow). reflexivity.
  - unfold g_print_nat. destruct (digits_of_nonempty 63 base n []) as (c & r & E).
    change (S 63) with 64%nat in E. rewrite E. discriminate.
Qed.

(* strconv.Atoi of printf("%d") for an int *)
Lemma parse_print_int z : (- 9223372036854775808 < z < 9223372036854775808)%Z ->
  parse_int 10 (g_print_int z) = Some z.
Proof.
  intros Hz. unfold g_print_int. destruct (z <? 0)%Z eqn:E.
  - apply Z.ltb_lt in E.
    assert (Hb : 2 <= 10 <= 10) by lia.
    assert (Hn : Z.to_N (- z) < 18446744073709551616) by lia.
    destruct (print_nat_value 10 (Z.to_N (- z)) Hb Hn) as [Hv Hne].
    rewrite parse_int_minus.
    destruct (g_print_nat 10 (Z.to_N (- z))) as [|c r]; [congruence|].
    rewrite Hv.
    replace (Z.to_N (- z) <=? 9223372036854775808) with true by (symmetry; apply N.leb_le; lia).
    f_equal. lia.
  - apply Z.ltb_ge in E. rewrite parse_print_nat by lia. f_equal. lia.
Qed.

(* none of the delimiters occurs in a printed number *)
Lemma print_nat_no base n d : 1 <= base <= 10 -> (d <? 48) = true ->
  forallb (fun c => negb (c =? d)) (g_print_nat base n) = true.
Proof.
  intros Hb Hd. pose proof (print_nat_digits base n Hb) as Hall.
  induction (g_print_nat base n) as [|c r IH]; [reflexivity|].
  cbn [forallb] in *. apply andb_true_iff in Hall as [Hc Hr]. rewrite IH by exact Hr. rewrite andb_true_r.
  unfold is_dig in Hc. apply andb_true_iff in Hc as [Hc1 _]. apply N.leb_le in Hc1. apply N.ltb_lt in Hd.
  apply negb_true_iff. apply N.eqb_neq. lia.
Qed.

Lemma print_int_no z d : (d <? 45) = true -> forallb (fun c => negb (c =? d)) (g_print_int z) = true.
Proof.
  intros Hd. assert (Hd' : (d <? 48) = true) by (apply N.ltb_lt; apply N.ltb_lt in Hd; lia).
  unfold g_print_int. destruct (z <? 0)%Z.
  - cbn [forallb]. rewrite print_nat_no by (try lia; exact Hd'). rewrite andb_true_r.
    apply negb_true_iff. apply N.eqb_neq. apply N.ltb_lt in Hd. lia.
  - apply print_nat_no; [lia|exact Hd'].
Qed.

(* binary.ReadUntil stops at the first delimiter *)
Lemma read_until_delim d s r : forallb (fun c => negb (c =? d)) s = true -> read_until d (s ++ d :: r) = Some (s, r).
Proof.
  induction s as [|c s IH]; intros Hs; cbn [app read_until].
  - now rewrite N.eqb_refl.
  - cbn [forallb] in Hs. apply andb_true_iff in Hs as [Hc Hr]. apply negb_true_iff in Hc. rewrite Hc, IH by exact Hr. reflexivity.
Qed.
