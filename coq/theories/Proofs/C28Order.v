(* Proofs/C28Order.v — the per-directory order of BuildTree (sort by sortName) is the order
   git's base_name_compare demands. *)
From Coq Require Import List NArith ZArith Bool Arith Lia.
From GoGit Require Import Base.Out Gen.C04.
From GoGit Require Import Model.TreeObj Spec.GitTree Spec.GitWriteTree.
Import ListNotations.
Local Open Scope N_scope.

(* ------------------------------------------------------------ byte-wise lexicographic order *)

Fixpoint lexcmp (a b : bytes) : comparison :=
  match a, b with
  | [], [] => Eq
  | [], _ :: _ => Lt
  | _ :: _, [] => Gt
  | x :: a', y :: b' => if x =? y then lexcmp a' b' else if x <? y then Lt else Gt
  end.

Lemma bgt_lexcmp a : forall b, bgt a b = match lexcmp a b with Gt => true | _ => false end.
Proof.
  induction a as [|x a IH]; intros [|y b]; cbn [bgt lexcmp]; try reflexivity.
  destruct (x =? y) eqn:E; [apply IH|].
  destruct (x <? y) eqn:L, (y <? x) eqn:L2; try reflexivity; exfalso;
    apply N.eqb_neq in E; try apply N.ltb_lt in L; try apply N.ltb_lt in L2; try apply N.ltb_ge in L; try apply N.ltb_ge in L2; lia.
Qed.

Definition ble (a b : bytes) : bool := negb (bgt a b).

Lemma lexcmp_refl a : lexcmp a a = Eq.
Proof. induction a as [|x a IH]; [reflexivity|]. cbn [lexcmp]. now rewrite N.eqb_refl. Qed.

Lemma ble_trans a : forall b c, ble a b = true -> ble b c = true -> ble a c = true.
Proof.
  unfold ble. induction a as [|x a IH]; intros b c H1 H2; [reflexivity|].
  destruct b as [|y b]; [cbn in H1; discriminate|]. destruct c as [|z c].
  - cbn [bgt] in H2. discriminate.
  - cbn [bgt] in *.
    destruct (x =? y) eqn:E1; destruct (y =? z) eqn:E2.
    + apply N.eqb_eq in E1, E2. subst. rewrite N.eqb_refl. eapply IH; eassumption.
    + apply N.eqb_eq in E1. subst y. rewrite E2. exact H2.
    + apply N.eqb_eq in E2. subst z. rewrite E1. exact H1.
    + apply negb_true_iff in H1, H2. apply N.ltb_ge in H1, H2. apply N.eqb_neq in E1, E2.
      assert (x <> z) by lia. assert (E3 : (x =? z) = false) by now apply N.eqb_neq. rewrite E3.
      apply negb_true_iff. apply N.ltb_ge. lia.
Qed.

Lemma bgt_asym a : forall b, bgt a b = true -> bgt b a = false.
Proof.
  induction a as [|x a IH]; intros [|y b] H; cbn [bgt] in *; try discriminate; try reflexivity.
  destruct (x =? y) eqn:E.
  - apply N.eqb_eq in E. subst. rewrite N.eqb_refl. now apply IH.
  - rewrite N.eqb_sym, E. apply N.ltb_lt in H. apply N.ltb_ge. lia.
Qed.

(* ------------------------------------------------------------ insertion sort by sort_name *)

Notation sn := sort_name.

Fixpoint sorted_sn (l : list tentry) : bool :=
  match l with [] => true | x :: r => forallb (fun y => ble (sn x) (sn y)) r && sorted_sn r end.

Lemma forallb_insert (P : tentry -> bool) e l : forallb P (insert_entry e l) = P e && forallb P l.
Proof.
  induction l as [|x r IH]; [reflexivity|]. cbn [insert_entry].
  destruct (bgt (sn x) (sn e)); cbn [forallb]; [reflexivity|]. rewrite IH.
  destruct (P x), (P e); reflexivity.
Qed.

Lemma insert_sorted e l : sorted_sn l = true -> sorted_sn (insert_entry e l) = true.
Proof.
  induction l as [|x r IH]; intros H; [reflexivity|].
  cbn [sorted_sn] in H. apply andb_true_iff in H as [H1 H2]. cbn [insert_entry].
  destruct (bgt (sn x) (sn e)) eqn:G.
  - cbn [sorted_sn forallb]. rewrite H1, H2, !andb_true_r.
    assert (Hex : ble (sn e) (sn x) = true) by (unfold ble; now rewrite (bgt_asym _ _ G)).
    rewrite Hex. cbn [andb]. apply forallb_forall. intros y Hy. rewrite forallb_forall in H1.
    eapply ble_trans; [exact Hex|now apply H1].
  - cbn [sorted_sn]. rewrite (IH H2), andb_true_r. rewrite forallb_insert, H1, andb_true_r.
    unfold ble. now rewrite G.
Qed.

Lemma sort_sorted es : sorted_sn (sort_entries es) = true.
Proof. induction es as [|e es IH]; [reflexivity|]. cbn [sort_entries fold_right]. now apply insert_sorted. Qed.

Lemma forallb_sort (P : tentry -> bool) es : forallb P (sort_entries es) = forallb P es.
Proof.
  induction es as [|e es IH]; [reflexivity|]. cbn [sort_entries fold_right forallb].
  fold (sort_entries es). now rewrite forallb_insert, IH.
Qed.

(* ------------------------------------------------------------ base_name_compare is the order of the sort names *)

(* a name git can store: no NUL, no '/' *)
Definition plain (n : bytes) : bool := forallb (fun c => negb (c =? 0) && negb (c =? 47)) n.
(* the mode is a directory for git exactly when it is filemode.Dir *)
Definition mode_plain (m : Z) : bool := Bool.eqb (is_dir_mode m) (m =? fmode_Dir)%Z.
Definition entry_plain (e : tentry) : bool := plain (t_name e) && mode_plain (t_mode e).

Definition suffix_of (m : Z) : bytes := if (m =? fmode_Dir)%Z then [47] else [].

Lemma cmp_names_cons x a y b :
  cmp_names (x :: a) (y :: b) = if x =? y then cmp_names a b else (if x <? y then Lt else Gt, x, y).
Proof. reflexivity. Qed.

Lemma bnc_lex n1 : forall n2 m1 m2,
  plain n1 = true -> plain n2 = true -> mode_plain m1 = true -> mode_plain m2 = true ->
  base_name_compare n1 m1 n2 m2 = lexcmp (n1 ++ suffix_of m1) (n2 ++ suffix_of m2).
Proof.
  unfold mode_plain, suffix_of.
  induction n1 as [|x a IH]; intros n2 m1 m2 P1 P2 M1 M2; apply eqb_prop in M1, M2.
  - destruct n2 as [|y b]; unfold base_name_compare; cbn [cmp_names app].
    + rewrite M1, M2. cbn [N.eqb andb]. destruct (m1 =? fmode_Dir)%Z, (m2 =? fmode_Dir)%Z; reflexivity.
    + cbn [plain forallb] in P2. apply andb_true_iff in P2 as [Py _]. apply andb_true_iff in Py as [Py0 Py47].
      apply negb_true_iff in Py0, Py47. rewrite Py0, M1. cbn [N.eqb andb].
      destruct (m1 =? fmode_Dir)%Z; cbn [lexcmp].
      * rewrite N.eqb_sym, Py47. destruct (N.compare_spec 47 y) as [E|L|L].
        { subst y. discriminate. }
        { apply N.ltb_lt in L. now rewrite L. }
        { assert (L2 : (47 <? y) = false) by (apply N.ltb_ge; lia). now rewrite L2. }
      * apply N.eqb_neq in Py0. destruct (N.compare_spec 0 y) as [E|L|L]; try reflexivity; exfalso; lia.
  - destruct n2 as [|y b].
    + unfold base_name_compare. cbn [cmp_names app].
      cbn [plain forallb] in P1. apply andb_true_iff in P1 as [Px _]. apply andb_true_iff in Px as [Px0 Px47].
      apply negb_true_iff in Px0, Px47. rewrite Px0, M2. cbn [N.eqb andb].
      destruct (m2 =? fmode_Dir)%Z; cbn [lexcmp].
      * rewrite Px47. destruct (N.compare_spec x 47) as [E|L|L].
        { subst x. discriminate. }
        { apply N.ltb_lt in L. now rewrite L. }
        { assert (L2 : (x <? 47) = false) by (apply N.ltb_ge; lia). now rewrite L2. }
      * apply N.eqb_neq in Px0. destruct (N.compare_spec x 0) as [E|L|L]; try reflexivity; exfalso; lia.
    + cbn [plain forallb] in P1, P2. apply andb_true_iff in P1 as [_ P1]. apply andb_true_iff in P2 as [_ P2].
      unfold base_name_compare. rewrite cmp_names_cons. cbn [app lexcmp].
      destruct (x =? y) eqn:E.
      * specialize (IH b m1 m2 P1 P2). unfold base_name_compare, mode_plain in IH. rewrite M1, M2 in IH.
        rewrite !eqb_reflx in IH. specialize (IH eq_refl eq_refl). rewrite M1, M2. exact IH.
      * destruct (x <? y); reflexivity.
Qed.

(* the order git requires between consecutive (hence all) entries *)
Fixpoint ordered_git (l : list tentry) : bool :=
  match l with
  | [] => true
  | x :: r =>
    forallb (fun y => match base_name_compare (t_name x) (t_mode x) (t_name y) (t_mode y) with Gt => false | _ => true end) r &&
    ordered_git r
  end.

Lemma sn_suffix e : sn e = t_name e ++ suffix_of (t_mode e).
Proof. unfold sort_name, suffix_of. destruct (t_mode e =? fmode_Dir)%Z; [reflexivity|now rewrite app_nil_r]. Qed.

Lemma sorted_ordered l : forallb entry_plain l = true -> sorted_sn l = true -> ordered_git l = true.
Proof.
  induction l as [|x r IH]; intros P S; [reflexivity|].
  cbn [forallb] in P. apply andb_true_iff in P as [Px P]. cbn [sorted_sn] in S. apply andb_true_iff in S as [S1 S2].
  cbn [ordered_git]. rewrite (IH P S2), andb_true_r.
  apply forallb_forall. intros y Hy. rewrite forallb_forall in S1, P. specialize (S1 y Hy). specialize (P y Hy).
  unfold entry_plain in Px, P. apply andb_true_iff in Px as [Px1 Px2]. apply andb_true_iff in P as [Py1 Py2].
  rewrite (bnc_lex _ _ _ _ Px1 Py1 Px2 Py2), <- !sn_suffix.
  unfold ble in S1. apply negb_true_iff in S1. rewrite bgt_lexcmp in S1.
  destruct (lexcmp (sn x) (sn y)); [reflexivity|reflexivity|discriminate].
Qed.

Lemma sort_ordered es : forallb entry_plain es = true -> ordered_git (sort_entries es) = true.
Proof.
  intros P. apply sorted_ordered; [now rewrite forallb_sort|apply sort_sorted].
Qed.
