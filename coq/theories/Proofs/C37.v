(* Proofs/C37.v — assembly: what revlist.Objects returns is closed under the
   child relation up to what the haves reach, contains the wants, lies inside
   the wants' history, and has no duplicates. *)
From Coq Require Import List NArith ZArith Bool Lia Wf_nat.
From GoGit Require Import Model.RevList Spec.ObjReach Proofs.C37Queue Proofs.C37Trees Proofs.C37Seed
     Proofs.C37Full Proofs.C37Paint.
Import ListNotations.
Local Open Scope N_scope.

Section Main.
  Variable st : store.
  Variable sh : list oid.
  Variables wants haves : list oid.
  Hypothesis Hwf : wf_store st = true.

  Notation Had := (Had st sh haves).
  Notation I1 := (I1 st sh haves).
  Notation I2 := (I2 st sh haves).
  Notation Wanted := (Wanted st sh wants).
  Notation cok := (cok st).

  Definition Good (R : list oid) (o : oid) : Prop := In o R \/ Had o.
  Definition Closed (R : list oid) : Prop := forall o c, In o R -> child st sh o c -> Good R c.

  Lemma closed_reach : forall R, Closed R -> forall a b, reach st sh a b -> Good R a -> Good R b.
  Proof.
    intros R HC a b Hr. induction Hr as [a|a b c Hc Hr IH]; intros Ha; [exact Ha|].
    apply IH. destruct Ha as [Ha|Ha]; [eapply HC; eauto|].
    right. eapply Had_closed; [exact Ha | now apply reach_child].
  Qed.

  Lemma fold_insert_In : forall l q x, In x (fold_left insert_sorted l q) <-> In x l \/ In x q.
  Proof.
    induction l as [|c l IH]; intros q x; cbn [fold_left].
    - split; [intro; now right | intros [[]|]; assumption].
    - rewrite IH, insert_sorted_In. split.
      + intros [A|[A|A]]; [left; now right | left; left; now symmetry | now right].
      + intros [[A|A]|A]; [right; left; now symmetry | now left | right; now right].
  Qed.

  Lemma check_missing_spec : forall miss hp, check_missing miss hp = true ->
    forall x c, In (x, c) miss -> In c hp.
  Proof.
    induction miss as [|[x0 c0] r IH]; intros hp H x c Hin; cbn [check_missing] in H; [destruct Hin|].
    destruct (mem c0 hp) eqn:M; [|discriminate].
    destruct Hin as [E|Hin]; [inversion E; subst; now apply mem_In | eapply IH; eauto].
  Qed.

  Lemma wf_parent_lt : forall c t ps tm p, get_commit st c = Some (t, ps, tm) -> In p ps -> p < c.
  Proof.
    intros c t ps tm p G Hp. apply get_commit_get in G. pose proof (wf_get _ _ _ Hwf G) as W.
    cbn in W. apply andb_true_iff in W. destruct W as [_ W]. rewrite forallb_forall in W.
    apply W in Hp. now apply N.ltb_lt in Hp.
  Qed.

  Record result_ok (R : list oid) : Prop := {
    ro_closed : Closed R;
    ro_wants : forall w, In w wants -> Good R w;
    ro_wanted : forall x, In x R -> Wanted x;
    ro_nodup : NoDup R }.

  Lemma objects_ok : forall R, objects st sh wants haves = Ok R -> result_ok R.
  Proof.
    intros R H. unfold objects in H.
    destruct (seed_haves (S (List.length haves + List.length st)) st haves [] [] []) as [[hq seen]|] eqn:SH; [|discriminate].
    destruct (seed_wants (S (List.length wants + List.length st)) st wants [] [] (seen, [])) as [[[wseen wq] s0]|] eqn:SW; [|discriminate].
    destruct (walk st sh wseen wq hq s0) as [s'|] eqn:WK; [|discriminate]. inversion H; subst R. clear H.
    (* seeding *)
    destruct (seed_haves_spec st sh haves _ _ _ _ _ _ _ SH) as [Hseen Hhq].
    { intros h Hh. exists h. split; [exact Hh | constructor]. }
    { intros x []. }
    { intros c []. }
    assert (Inv0 : winv st sh wants haves wants [] [] (seen, [])).
    { constructor; cbn; try (intros; contradiction).
      - intros x Hx. right. now apply Hseen.
      - intros t es e [].
      - intros x [].
      - constructor.
      - intros w Hw. exists w. split; [exact Hw | constructor]. }
    destruct (seed_wants_spec st sh wants haves Hwf _ _ _ _ _ _ _ _ SW Inv0) as (W0 & Hwants & _ & _).
    destruct W0 as [i1 i2 rs nd nc wq_ok wseen_ok res_ok _ tag_ok].
    assert (Tag0 : forall g tg, In g (snd s0) -> get st g = Some (Tag tg) -> Hd st sh haves s0 wseen tg).
    { intros g tg Hg G. destruct (tag_ok g tg Hg G) as [[]|]; assumption. }
    unfold walk in WK. destruct hq as [|hc hq'].
    - (* ---------------- no have commit: walkFull ---------------- *)
      assert (F0 : finv st sh wants haves (Hd st sh haves s0 wseen) wseen wq s0).
      { constructor; [exact i1 | exact i2 | exact rs | exact nd | exact wq_ok | | exact res_ok | exact Tag0 |].
        - intros x Hx. left. now apply wseen_ok.
        - intros x t ps tm Hx G. rewrite (nc x Hx) in G. discriminate. }
      destruct (walk_full_spec st sh wants haves Hwf _ _ _ _ _ _ WK F0) as (ws' & F & M & Wi).
      destruct F as [j1 j2 _ jnd _ jseen jres jtag jcom].
      assert (SeenGood : forall x, In x ws' -> Good (snd s') x).
      { intros x Hx. destruct (jseen x Hx) as [(c & [] & _)|Hs]. destruct (j1 x Hs); [now left | now right]. }
      assert (HdGood : forall x, Hd st sh haves s0 wseen x -> Good (snd s') x).
      { intros x [Hx|[Hx|Hx]]; [now right | left; now apply (proj2 M) | apply SeenGood, Wi, Hx]. }
      constructor.
      + intros o c Ho Hc. inversion Hc; subst.
        * destruct (jcom o c ps tm Ho (proj2 (get_commit_get _ _ _ _ _) H)) as [A _].
          destruct (j1 c A); [now left | now right].
        * destruct (jcom o t ps tm Ho (proj2 (get_commit_get _ _ _ _ _) H)) as [_ [B|B]]; [congruence|].
          apply SeenGood, B, H1.
        * destruct (j2 o es e Ho (fun X => X) (proj2 (get_tree_get _ _ _) H) H0 H1); [now left | now right].
        * apply HdGood. eapply jtag; eauto.
      + intros w Hw. apply HdGood, Hwants, Hw.
      + exact jres.
      + exact jnd.
    - (* ---------------- the painted walk ---------------- *)
      remember (hc :: hq') as hq eqn:Ehq.
      set (q1 := fold_left insert_sorted wq []) in *.
      set (q2 := fold_left insert_sorted hq q1) in *.
      set (p0 := mkP (map c_id wq) (map c_id hq) q2 []) in *.
      destruct (paint_loop (paint_fuel st (List.length q2)) st sh p0 []) as [[p' newc]|] eqn:PL; [|discriminate].
      destruct (check_missing (p_miss p') (p_h p')) eqn:CM; [|discriminate].
      assert (P0 : pinv st sh wants haves None p0 []).
      { constructor; cbn.
        - intros c Hc. unfold q2, q1 in Hc. apply fold_insert_In in Hc. destruct Hc as [Hc|Hc]; [now apply Hhq|].
          apply fold_insert_In in Hc. destruct Hc as [Hc|[]]. now apply wq_ok.
        - intros c [].
        - intros x Hx. apply in_map_iff in Hx. destruct Hx as (c & <- & Hc). now apply wq_ok.
        - intros x Hx. apply in_map_iff in Hx. destruct Hx as (c & <- & Hc). now apply Hhq.
        - intros x t ps tm Hx _ G. right. left. apply in_map_iff in Hx. destruct Hx as (c & E & Hc).
          exists c. split; [|exact E]. unfold q2, q1. apply fold_insert_In. right. apply fold_insert_In. now left.
        - intros x Hx G. apply in_map_iff in Hx. destruct Hx as (c & <- & Hc).
          destruct (wq_ok c Hc) as (K & _). unfold C37Seed.cok in K. congruence. }
      destruct (paint_loop_spec st sh wants haves _ _ _ _ _ PL P0) as (PI & Settled & Winit).
      pose proof (check_missing_spec _ _ CM) as Miss.
      assert (NewcOk : forall c, In c newc -> cok c) by (intros c Hc; apply (pi_newc _ _ _ _ _ _ _ PI c Hc)).
      destruct (phase2_spec st sh haves Hwf _ _ _ _ WK NewcOk i1 rs nd) as (M & J1 & [JR JN] & Proc & Prov).
      set (R := snd s') in *.
      assert (WpGood : forall x, In x (p_w p') -> Good R x).
      { intros x Hx. destruct (get_commit st x) as [[[t ps] tm]|] eqn:G.
        - destruct (Settled x t ps tm Hx G) as [A|[(c & Hc & E) _]]; [right; now apply (pi_h _ _ _ _ _ _ _ PI)|].
          destruct (mem x (p_h p')) eqn:MH; [right; apply (pi_h _ _ _ _ _ _ _ PI); now apply mem_In|].
          subst x. destruct (Proc c Hc (proj1 (mem_false _ _) MH)) as [A _].
          destruct (J1 _ A); [now left | now right].
        - destruct (pi_M _ _ _ _ _ _ _ PI x Hx G) as (c & A & B). right.
          eapply Had_closed; [apply (pi_h _ _ _ _ _ _ _ PI), (Miss x c A) | now apply reach_child]. }
      (* every object below the tree of a processed commit is selected or held *)
      assert (GoodTree : forall n c, c_id c = n -> In c newc -> ~ In (c_id c) (p_h p') ->
                forall o, reach st sh (c_tree c) o -> Good R o).
      { intro n. induction n as [n IHn] using (well_founded_induction N.lt_wf_0).
        intros c En Hc Hnh o Ho. destruct (Proc c Hc Hnh) as [_ Cov].
        destruct (Cov o Ho) as [A|[A|(S & p & tp & pps & tm & Hp & Gp & Hr)]]; [now left | now right|].
        destruct (pi_newc _ _ _ _ _ _ _ PI c Hc) as [Kc Wc].
        destruct (Settled (c_id c) _ _ _ Wc Kc) as [A|[_ [A|A]]]; [contradiction | congruence|].
        assert (Wp : In p (p_w p')) by now apply A.
        destruct (Settled p tp pps tm Wp Gp) as [B|[(c' & Hc' & E') _]].
        - right. apply (Had_closed st sh haves p o); [apply (pi_h _ _ _ _ _ _ _ PI), B|].
          econstructor; [eapply ch_tree; apply get_commit_get; exact Gp | exact Hr].
        - destruct (mem p (p_h p')) eqn:MH.
          + right. apply mem_In in MH. apply (Had_closed st sh haves p o); [apply (pi_h _ _ _ _ _ _ _ PI), MH|].
            econstructor; [eapply ch_tree; apply get_commit_get; exact Gp | exact Hr].
          + pose proof (NewcOk c' Hc') as Kc'. unfold C37Seed.cok in Kc'. rewrite E' in Kc'. rewrite Gp in Kc'.
            inversion Kc'; subst tp.
            assert (Lt : p < n) by (subst n; eapply wf_parent_lt; eauto).
            apply (IHn p Lt c' E' Hc'); [rewrite E'; now apply mem_false | exact Hr]. }
      assert (HdGood : forall x, Hd st sh haves s0 wseen x -> Good R x).
      { intros x [Hx|[Hx|Hx]]; [now right | left; now apply (proj2 M)|].
        destruct (wseen_ok x Hx) as (c & Hc & <-). apply WpGood, Winit. cbn. apply in_map_iff. eauto. }
      constructor.
      + intros o c Ho Hc. destruct (Prov o Ho) as [Ho0|(cm & Hcm & Hnh & [->|Hr])].
        * (* selected while seeding *)
          inversion Hc; subst.
          -- exfalso. pose proof (nc o Ho0) as X. unfold get_commit in X. rewrite H in X. discriminate.
          -- exfalso. pose proof (nc o Ho0) as X. unfold get_commit in X. rewrite H in X. discriminate.
          -- destruct (i2 o es e Ho0 (fun X => X) (proj2 (get_tree_get _ _ _) H) H0 H1); [left; now apply (proj2 M) | now right].
          -- apply HdGood. eapply Tag0; eauto.
        * (* a processed commit *)
          pose proof (NewcOk cm Hcm) as K. unfold C37Seed.cok in K. apply get_commit_get in K.
          inversion Hc; subst; rewrite K in H; inversion H; subst.
          -- eapply GoodTree; eauto. constructor.
          -- destruct (pi_newc _ _ _ _ _ _ _ PI cm Hcm) as [Kc Wc].
             destruct (Settled (c_id cm) _ _ _ Wc Kc) as [A|[_ [A|A]]]; [contradiction | congruence|].
             apply WpGood, A, H1.
        * (* below the tree of a processed commit *)
          eapply GoodTree; eauto. eapply reach_trans; [exact Hr | now apply reach_child].
      + intros w Hw. apply HdGood, Hwants, Hw.
      + intros x Hx. destruct (Prov x Hx) as [Hx0|(cm & Hcm & Hnh & Hx')]; [now apply res_ok|].
        destruct (pi_newc _ _ _ _ _ _ _ PI cm Hcm) as [Kc Wc].
        pose proof (pi_w _ _ _ _ _ _ _ PI _ Wc) as Wcm.
        destruct Hx' as [->|Hr]; [exact Wcm|].
        eapply Wanted_closed; [exact Wcm|]. econstructor; [eapply ch_tree; apply get_commit_get; exact Kc | exact Hr].
      + exact JN.
  Qed.

  (* ---------------- the theorems ---------------- *)
  Lemma complete : forall R, objects st sh wants haves = Ok R ->
    forall o, reach_set st sh wants o -> ~ reach_set st sh haves o -> In o R.
  Proof.
    intros R H o (w & Hw & Hr) Hn. destruct (objects_ok R H) as [C W _ _].
    destruct (closed_reach R C w o Hr (W w Hw)) as [A|A]; [exact A | contradiction].
  Qed.

  (* what is not selected and reachable from the wants is reachable from the haves *)
  Lemma covers : forall R, objects st sh wants haves = Ok R ->
    forall o, reach_set st sh wants o -> In o R \/ reach_set st sh haves o.
  Proof.
    intros R H o (w & Hw & Hr). destruct (objects_ok R H) as [C W _ _].
    exact (closed_reach R C w o Hr (W w Hw)).
  Qed.

  Lemma only_wanted : forall R, objects st sh wants haves = Ok R ->
    forall o, In o R -> reach_set st sh wants o.
  Proof. intros R H o Ho. now apply (ro_wanted R (objects_ok R H)). Qed.

  Lemma nodup : forall R, objects st sh wants haves = Ok R -> NoDup R.
  Proof. intros R H. apply (ro_nodup R (objects_ok R H)). Qed.
End Main.
