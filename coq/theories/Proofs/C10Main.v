(* Proofs/C10Main.v — from the objects handed to idxfile.Writer to the table
   of the C10 theorems: the boolean domain guard, the table (Add + sort), and
   the assembled statements about the written index and LazyIndex. *)
From Coq Require Import List NArith ZArith Bool Lia ZifyBool ZifyNat ZifyN Sorting.Sorted Sorting.Permutation.
From GoGit Require Import Base.Out Base.GoInt Model.PackBytes Model.Idx Spec.IdxFormat
  Proofs.C10Search Proofs.C10Order Proofs.C10Bytes Proofs.C10Table Proofs.C10Layout Proofs.C10Create Proofs.C10Lazy.
Import ListNotations.
Local Open Scope N_scope.

(* the table the writer builds: Writer.Add (first occurrence of each non-zero id) then sort by id *)
Definition table (es : list entry) : list entry := sort_entries (writer_add es [] []).

(* domain of the theorems, decidable: ids of the format's size made of bytes, 64-bit offsets,
   32-bit CRCs, fewer than 2^31 objects *)
Definition entry_okb (hs : nat) (e : entry) : bool :=
  Nat.eqb (List.length (e_hash e)) hs && forallb (fun b => b <? 256) (e_hash e)
  && (e_off e <? 18446744073709551616) && (e_crc e <? 4294967296).
Definition wf_entries (hs : nat) (es : list entry) : bool :=
  forallb (entry_okb hs) es && (N.of_nat (List.length es) <? 2147483648) && Nat.ltb 0 hs.

Lemma writer_add_length : forall es seen acc,
  (List.length (writer_add es seen acc) <= List.length es + List.length acc)%nat.
Proof.
  induction es as [|e es IH]; intros seen acc; cbn [writer_add List.length].
  - rewrite rev_length. lia.
  - destruct (is_zero_hash (e_hash e) || mem_hash (e_hash e) seen).
    + specialize (IH seen acc). lia.
    + specialize (IH (e_hash e :: seen) (e :: acc)). cbn [List.length] in IH. lia.
Qed.

Lemma table_in es e : In e (table es) -> In e es.
Proof.
  intros He. unfold table in He.
  apply (Permutation_in _ (Permutation_sym (sort_perm _))) in He.
  destruct (writer_add_spec es [] []) as [_ B]; [constructor|intros x []|].
  destruct (B e He) as [[]|(Hi & _)]. exact Hi.
Qed.

Lemma table_length es : (List.length (table es) <= List.length es)%nat.
Proof.
  unfold table. rewrite <- (Permutation_length (sort_perm _)).
  pose proof (writer_add_length es [] []). cbn in *. lia.
Qed.

Lemma wf_entries_tbl hs es : wf_entries hs es = true -> wf_tbl hs (table es).
Proof.
  unfold wf_entries. intros W. apply andb_true_iff in W. destruct W as [W Wh].
  apply andb_true_iff in W. destruct W as [Wall Wn]. rewrite forallb_forall in Wall.
  assert (Hall : forall e, In e (table es) -> entry_okb hs e = true) by (intros e He; apply Wall, table_in, He).
  constructor.
  - unfold table. apply sort_sorted, writer_add_distinct.
  - intros e He. specialize (Hall e He). unfold entry_okb in Hall.
    repeat (apply andb_true_iff in Hall; destruct Hall as [Hall ?]). now apply Nat.eqb_eq.
  - intros e b He Hb. specialize (Hall e He). unfold entry_okb in Hall.
    repeat (apply andb_true_iff in Hall; destruct Hall as [Hall ?]).
    match goal with K : forallb _ (e_hash e) = true |- _ => rewrite forallb_forall in K; specialize (K b Hb) end. lia.
  - intros e He. specialize (Hall e He). unfold entry_okb in Hall.
    repeat (apply andb_true_iff in Hall; destruct Hall as [Hall ?]). lia.
  - intros e He. specialize (Hall e He). unfold entry_okb in Hall.
    repeat (apply andb_true_iff in Hall; destruct Hall as [Hall ?]). lia.
  - pose proof (table_length es). lia.
  - apply Nat.ltb_lt in Wh. exact Wh.
Qed.

(* the table is a map: it holds the first occurrence of every non-zero id given to the writer *)
Lemma table_lookup_in es h e : lookup (table es) h = Some e -> In e es /\ e_hash e = h.
Proof.
  unfold lookup. intros Hf. apply find_some in Hf. destruct Hf as [Hi He].
  split; [now apply table_in|now apply bytes_eqb_eq].
Qed.

Section Main.
Variable hs : nat.
Variable Hsz : nat -> bytes -> bytes.

(* C08/C10: what Writer + Encode write is git's idx v2 layout of the table *)
Theorem written_idx_is_git_layout es pack :
  wf_entries hs es = true ->
  exists m, create_index hs (writer_add es [] []) pack = Ok m /\
            encode hs Hsz m = Ok (idx_file (Hsz hs) (table es) pack).
Proof.
  intros W. apply (create_encode_layout hs Hsz (writer_add es [] []) (table es) pack); [reflexivity|].
  now apply wf_entries_tbl.
Qed.

End Main.
