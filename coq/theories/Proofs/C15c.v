(* Proofs/C15c.v — the reference store refines the map: abstraction function,
   invariant, and one lemma per operation. *)
From Coq Require Import List Arith NArith ZArith Bool String Lia ZifyBool ZifyNat ZifyN.
From GoGit Require Import Base.Out Model.RefStrings Model.RefName Model.RefGuard Model.RefStore Spec.RefMap Gen.C14
  Proofs.C13 Proofs.C15a Proofs.C15b.
Import ListNotations.
Local Open Scope N_scope.

(* ---------------------------------------------------------------- abstraction *)
Definition parse_c (c : bytes) : refval := ref_from_strings (trim_space c).

Definition loose_val (s : store) (n : bytes) : option refval :=
  match lookup n (files (fs s)) with
  | Some (c0 :: c') => Some (parse_c (c0 :: c'))
  | _ => None
  end.

Definition packed_lines (s : store) : list bytes :=
  match packed s with Some b => scan_lines b | None => [] end.

Definition packed_val (s : store) (n : bytes) : option refval :=
  match find_packed n (packed_lines s) with Ok r => r | Er _ => None end.

(* abs s = loose, else the first occurrence in packed-refs *)
Definition abs (s : store) : rmap :=
  fun n => match loose_val s n with Some v => Some v | None => packed_val s n end.

(* ---------------------------------------------------------------- invariant *)
Definition name_clean (n : bytes) : bool := forallb (fun c => negb ((c <=? 32) || (c =? 127))) n.

Definition file_okb (e : bytes * bytes) : bool :=
  if listed (fst e) then negb (beqb (snd e) []) && val_okb (parse_c (snd e)) && name_clean (fst e) else true.

Definition line_okb (l : bytes) : bool :=
  match process_line l with
  | None => false
  | Some None => true
  | Some (Some (n, v)) => under refsDir n && name_clean n && val_okb v
  end.

Definition packed_okb (p : option bytes) : bool :=
  match p with None => true | Some b => negb (mem 13 b) && forallb line_okb (scan_lines b) end.

Definition wfb (s : store) : bool :=
  nodup_keys (files (fs s)) && forallb file_okb (files (fs s))
  && negb (is_file (fs s) refsDir) && negb (is_dir (fs s) HEADp)
  && packed_okb (packed s).

(* names and values the API is called with *)
Definition name_okb (n : bytes) : bool := valid_reference_name n && name_clean n && listed n.
Definition op_okb (o : op) : bool :=
  match o with
  | OSet n v _ => name_okb n && val_okb v
  | ORef n | ORm n => name_okb n
  | ORefs | OPack => true
  end.

Lemma wfb_parts s : wfb s = true ->
  nodup_keys (files (fs s)) = true /\ forallb file_okb (files (fs s)) = true /\
  is_file (fs s) refsDir = false /\ is_dir (fs s) HEADp = false /\ packed_okb (packed s) = true.
Proof.
  unfold wfb. intros H. repeat (apply andb_true_iff in H as [H ?]).
  repeat split; try assumption; now apply negb_true_iff.
Qed.

Lemma line_ok_parses l : line_okb l = true -> parses l = true.
Proof. unfold line_okb, parses. destruct (process_line l) as [[[n v]|]|]; auto. Qed.

Lemma packed_ok_parse s : packed_okb (packed s) = true -> all_parse (packed_lines s) = true.
Proof.
  unfold packed_okb, packed_lines. destruct (packed s) as [b|]; [|reflexivity].
  intros H. apply andb_true_iff in H as [_ H]. unfold all_parse.
  apply forallb_forall. intros l Hl. apply line_ok_parses. eapply forallb_forall in H; eauto.
Qed.

Lemma packed_ref_val s n : packed_okb (packed s) = true ->
  packed_ref s n = match packed_val s n with Some v => Ok v | None => Er ENotFound end.
Proof.
  intros H. pose proof (packed_ok_parse s H) as Hp.
  unfold packed_ref, packed_val, packed_lines in *. destruct (packed s) as [b|]; [|reflexivity].
  destruct (find_packed_total n _ Hp) as [r ->]. now destruct r.
Qed.

(* ---------------------------------------------------------------- Ref *)
Lemma read_ref_file_loose s n :
  match read_ref_file (fs s) n with RVal v => loose_val s n = Some v | _ => loose_val s n = None end.
Proof.
  unfold read_ref_file, stat, loose_val. destruct (lookup n (files (fs s))) as [c|].
  - destruct c as [|c0 c']; reflexivity.
  - destruct (is_dir (fs s) n); [reflexivity|]. destruct (file_above (fs s) n); reflexivity.
Qed.

Lemma get_ref_spec s n : wfb s = true -> valid_reference_name n = true ->
  get_ref s n = spec_get (abs s) n.
Proof.
  intros Hw Hv. destruct (wfb_parts s Hw) as [_ [_ [_ [_ Hp]]]].
  unfold get_ref, spec_get, abs. rewrite Hv. cbn [negb].
  pose proof (read_ref_file_loose s n) as H.
  destruct (read_ref_file (fs s) n); rewrite H; try reflexivity; now rewrite packed_ref_val.
Qed.

(* ---------------------------------------------------------------- names *)
Lemma valid_not_refs n : valid_reference_name n = true -> beqb refsDir n = false.
Proof.
  intros H. destruct (beqb refsDir n) eqn:E; [|reflexivity]. apply beqb_eq in E. subst n.
  vm_compute in H. discriminate.
Qed.

Lemma add_dirs_in ds : forall have q, existsb (beqb q) (add_dirs ds have) = existsb (beqb q) have || existsb (beqb q) ds.
Proof.
  induction ds as [|d r IH]; intros have q; cbn [add_dirs existsb]; [now rewrite orb_false_r|].
  destruct (existsb (beqb d) have) eqn:E.
  - rewrite IH. destruct (beqb q d) eqn:Eq; [|reflexivity].
    apply beqb_eq in Eq. subst d. rewrite E. reflexivity.
  - rewrite IH, existsb_app. cbn [existsb]. rewrite orb_false_r.
    destruct (existsb (beqb q) have), (beqb q d), (existsb (beqb q) r); reflexivity.
Qed.

(* no ancestor of a valid name is "HEAD" *)
Lemma parents_from_in s : forall pre q,
  In q (parents_from pre s) -> exists s1 s2, s = s1 ++ 47 :: s2 /\ q = rev pre ++ s1.
Proof.
  induction s as [|c r IH]; intros pre q H; [contradiction|].
  cbn [parents_from] in H. destruct (c =? 47) eqn:E.
  - apply N.eqb_eq in E. subst c. destruct H as [<-|H].
    + exists [], r. split; [reflexivity|now rewrite app_nil_r].
    + destruct (IH _ _ H) as [s1 [s2 [-> ->]]]. exists (47 :: s1), s2. split; [reflexivity|].
      cbn [rev]. now rewrite <- app_assoc.
  - destruct (IH _ _ H) as [s1 [s2 [-> ->]]]. exists (c :: s1), s2. split; [reflexivity|].
    cbn [rev]. now rewrite <- app_assoc.
Qed.

Lemma valid_parent_not_head n : valid_reference_name n = true -> existsb (beqb HEADp) (parents n) = false.
Proof.
  intros H. destruct (existsb (beqb HEADp) (parents n)) eqn:E; [|reflexivity].
  apply existsb_exists in E as [q [Hq Eq]]. apply beqb_eq in Eq. subst q.
  destruct (parents_from_in _ _ _ Hq) as [s1 [s2 [En Eh]]]. cbn [rev app] in Eh. subst s1.
  subst n. vm_compute in H. (* "HEAD/…" is neither below refs/ nor all-caps *)
  unfold valid_reference_name, is_safe in H. discriminate.
Qed.

(* ---------------------------------------------------------------- writes to the file list *)
Lemma set_file_twice p c d l : set_file p c (set_file p d l) = set_file p c l.
Proof.
  induction l as [|[q e] l IH]; cbn; [now rewrite beqb_refl|].
  destruct (beqb p q) eqn:E; cbn; [now rewrite beqb_refl|now rewrite E, IH].
Qed.

Lemma forallb_set (f : bytes * bytes -> bool) p c l :
  forallb f l = true -> f (p, c) = true -> forallb f (set_file p c l) = true.
Proof.
  intros Hl Hf. induction l as [|[q e] l IH]; cbn; [now rewrite Hf|].
  cbn in Hl. apply andb_true_iff in Hl as [He Hl].
  destruct (beqb p q); cbn; [now rewrite Hf, Hl|now rewrite He, IH].
Qed.

Lemma forallb_filter' {A} (f g : A -> bool) l : forallb f l = true -> forallb f (filter g l) = true.
Proof.
  intros H. apply forallb_forall. intros x Hx. apply filter_In in Hx as [Hx _].
  eapply forallb_forall in H; eauto.
Qed.

Definition abs_eq (m1 m2 : rmap) : Prop := forall x, m1 x = m2 x.

(* a written file reads back as the value *)
Lemma parse_written v : val_okb v = true ->
  exists c0 c', ref_content v = c0 :: c' /\ parse_c (c0 :: c') = v.
Proof.
  intros H. pose proof (read_written v H) as R. unfold read_ref_content in R.
  destruct (ref_content v) as [|c0 c'] eqn:E; [discriminate|].
  exists c0, c'. split; [reflexivity|]. injection R as R. exact R.
Qed.

Lemma loose_val_files s1 s2 n : lookup n (files (fs s1)) = lookup n (files (fs s2)) -> loose_val s1 n = loose_val s2 n.
Proof. unfold loose_val. now intros ->. Qed.

Lemma abs_same_packed s1 s2 x :
  packed s1 = packed s2 -> loose_val s1 x = loose_val s2 x -> abs s1 x = abs s2 x.
Proof. intros Hp Hl. unfold abs, packed_val, packed_lines. now rewrite Hl, Hp. Qed.

Lemma file_ok_written n v : val_okb v = true -> name_clean n = true -> file_okb (n, ref_content v) = true.
Proof.
  intros Hv Hn. unfold file_okb. cbn [fst snd]. destruct (listed n); [|reflexivity].
  destruct (parse_written v Hv) as [c0 [c' [E P]]]. rewrite E, P, Hv, Hn. reflexivity.
Qed.

(* the state after OpenFile(O_CREATE) + Write, whatever open did to the file *)
Lemma write_after_open f n trunc f1 c :
  open_create f n trunc = Some f1 ->
  files (write_file f1 n c) = set_file n c (files f) /\
  dirs (write_file f1 n c) = add_dirs (parents n) (dirs f).
Proof.
  unfold open_create. destruct (file_above f n); [discriminate|]. destruct (is_dir f n); [discriminate|].
  destruct (lookup n (files f)) as [c1|] eqn:EL; intros H; injection H as <-; cbn [write_file files dirs].
  - destruct trunc; [now rewrite set_file_twice|auto].
  - now rewrite set_file_twice.
Qed.

Lemma wfb_write s n v f1 trunc :
  wfb s = true -> name_okb n = true -> val_okb v = true ->
  open_create (fs s) n trunc = Some f1 ->
  wfb {| fs := write_file f1 n (ref_content v); packed := packed s |} = true.
Proof.
  intros Hw Hn Hv Ho. destruct (wfb_parts s Hw) as [Hnd [Hf [Hr [Hh Hp]]]].
  unfold name_okb in Hn. apply andb_true_iff in Hn as [Hn Hl]. apply andb_true_iff in Hn as [Hval Hc].
  destruct (write_after_open _ _ _ _ (ref_content v) Ho) as [Ef Ed].
  unfold wfb. cbn [fs packed]. rewrite Ef, Hp.
  rewrite nodup_set by assumption. rewrite forallb_set; [|assumption|now apply file_ok_written].
  unfold is_file, is_dir. rewrite Ef, Ed.
  rewrite lookup_set_other by now apply valid_not_refs.
  unfold is_file in Hr. rewrite Hr. rewrite add_dirs_in. unfold is_dir in Hh. rewrite Hh.
  now rewrite valid_parent_not_head.
Qed.

(* ---------------------------------------------------------------- SetRef without old value *)
Lemma set_ref_plain s n v : wfb s = true -> name_okb n = true -> val_okb v = true ->
  let (s', r) := set_ref s n v None in
  (r = Er EFs /\ s' = s) \/
  (r = Ok tt /\ wfb s' = true /\ abs_eq (abs s') (m_set (abs s) n v)).
Proof.
  intros Hw Hn Hv. unfold set_ref.
  assert (Hval : valid_reference_name n = true).
  { unfold name_okb in Hn. apply andb_true_iff in Hn as [Hn _]. now apply andb_true_iff in Hn as [Hn _]. }
  rewrite Hval. cbn [negb].
  destruct (open_create (fs s) n true) as [f1|] eqn:Ho; [|now left].
  right. split; [reflexivity|]. split; [now apply (wfb_write s n v f1 true)|].
  destruct (write_after_open _ _ _ _ (ref_content v) Ho) as [Ef _].
  intros x. unfold m_set. destruct (beqb x n) eqn:E.
  - apply beqb_eq in E. subst x. unfold abs, loose_val. cbn [fs]. rewrite Ef, lookup_set_same.
    destruct (parse_written v Hv) as [c0 [c' [Ec P]]]. now rewrite Ec, P.
  - apply abs_same_packed; [reflexivity|]. apply loose_val_files. cbn [fs]. rewrite Ef.
    now apply lookup_set_other.
Qed.

(* ---------------------------------------------------------------- CheckAndSetReference *)
Lemma open_keep f n f1 : open_create f n false = Some f1 ->
  files f1 = (match lookup n (files f) with Some _ => files f | None => set_file n [] (files f) end) /\
  dirs f1 = add_dirs (parents n) (dirs f).
Proof.
  unfold open_create. destruct (file_above f n); [discriminate|]. destruct (is_dir f n); [discriminate|].
  destruct (lookup n (files f)); intros H; injection H as <-; auto.
Qed.

Lemma file_ok_lookup s n c : forallb file_okb (files (fs s)) = true -> listed n = true ->
  lookup n (files (fs s)) = Some c -> exists c0 c', c = c0 :: c'.
Proof.
  intros Hf Hl Hk. apply in_lookup in Hk. eapply forallb_forall in Hf; eauto.
  unfold file_okb in Hf. cbn [fst snd] in Hf. rewrite Hl in Hf.
  destruct c as [|c0 c']; [discriminate|]. now exists c0, c'.
Qed.

Lemma set_ref_cas s n v o : wfb s = true -> name_okb n = true -> val_okb v = true ->
  let (s', r) := set_ref s n v (Some o) in
  (r = Er EFs /\ s' = s) \/
  (r = snd (spec_set (abs s) n v (Some o)) /\
   abs_eq (abs s') (fst (spec_set (abs s) n v (Some o))) /\
   (is_file (fs s) n = true \/ r = Ok tt -> wfb s' = true)).
Proof.
  intros Hw Hn Hv. pose proof Hn as Hn'. unfold name_okb in Hn'.
  apply andb_true_iff in Hn' as [Hn' Hl]. apply andb_true_iff in Hn' as [Hval Hc].
  destruct (wfb_parts s Hw) as [Hnd [Hf [Hr [Hh Hp]]]].
  unfold set_ref. rewrite Hval. cbn [negb].
  destruct (open_create (fs s) n false) as [f1|] eqn:Ho; [|now left].
  destruct (open_keep _ _ _ Ho) as [Ef Ed].
  set (s1 := {| fs := f1; packed := packed s |}).
  (* the value the check reads is the map's *)
  assert (Hr1 : (match (match lookup n (files f1) with Some c => c | None => [] end) with
                 | [] => packed_ref s1 n
                 | _ => Ok (ref_from_strings (trim_space (match lookup n (files f1) with Some c => c | None => [] end)))
                 end) = spec_get (abs s) n).
  { unfold spec_get, abs, loose_val. destruct (lookup n (files (fs s))) as [c|] eqn:EL.
    - destruct (file_ok_lookup s n c Hf Hl EL) as [c0 [c' ->]]. rewrite Ef, EL. reflexivity.
    - rewrite Ef, lookup_set_same. unfold s1. rewrite packed_ref_val by assumption.
      unfold packed_val, packed_lines. cbn [packed]. reflexivity. }
  (* the state after a failed check has the same abstraction *)
  assert (Habs1 : abs_eq (abs s1) (abs s)).
  { intros x. apply abs_same_packed; [reflexivity|]. unfold loose_val, s1. cbn [fs]. rewrite Ef.
    destruct (lookup n (files (fs s))) as [c|] eqn:EL; [reflexivity|].
    destruct (beqb x n) eqn:E.
    - apply beqb_eq in E. subst x. now rewrite lookup_set_same, EL.
    - now rewrite lookup_set_other. }
  assert (Hw1 : is_file (fs s) n = true -> wfb s1 = true).
  { unfold is_file. destruct (lookup n (files (fs s))) eqn:EL; [|discriminate]. intros _.
    unfold wfb, s1, is_file, is_dir. cbn [fs packed]. rewrite Ef, Ed, Hnd, Hf, Hp.
    unfold is_file in Hr. rewrite Hr. rewrite add_dirs_in. unfold is_dir in Hh. rewrite Hh.
    now rewrite valid_parent_not_head. }
  fold s1. rewrite Hr1. unfold spec_get, spec_set.
  destruct (abs s n) as [cv|] eqn:EA.
  - destruct (hash_eqb (hash_of cv) (hash_of o)).
    + right. cbn [fst snd]. split; [reflexivity|]. split.
      * destruct (write_after_open _ _ _ _ (ref_content v) Ho) as [Ef2 _].
        intros x. unfold m_set. destruct (beqb x n) eqn:E.
        -- apply beqb_eq in E. subst x. unfold abs, loose_val. cbn [fs]. rewrite Ef2, lookup_set_same.
           destruct (parse_written v Hv) as [c0 [c' [Ec P]]]. now rewrite Ec, P.
        -- apply abs_same_packed; [reflexivity|]. apply loose_val_files. cbn [fs]. rewrite Ef2.
           now apply lookup_set_other.
      * intros _. now apply (wfb_write s n v f1 false).
    + right. cbn [fst snd]. split; [reflexivity|]. split; [exact Habs1|].
      intros [H|H]; [auto|discriminate].
  - right. cbn [fst snd]. split; [reflexivity|]. split; [exact Habs1|].
    intros [H|H]; [auto|discriminate].
Qed.

(* ---------------------------------------------------------------- lines of a CR-free file *)
Lemma split_in_nosep sep s : forall l, In l (split_on sep s) -> mem sep l = false.
Proof.
  induction s as [|c r IH]; intros l H.
  - destruct H as [<-|[]]. reflexivity.
  - cbn [split_on] in H. destruct (c =? sep) eqn:E.
    + destruct H as [<-|H]; [reflexivity|auto].
    + pose proof (split_nonempty sep r) as Hne. destruct (split_on sep r) as [|f fs] eqn:ES; [contradiction|].
      destruct H as [<-|H].
      * cbn [mem existsb]. rewrite N.eqb_sym, E. cbn [orb]. apply IH. now left.
      * apply IH. now right.
Qed.

Lemma split_in_sub sep s c : mem c s = false -> forall l, In l (split_on sep s) -> mem c l = false.
Proof.
  induction s as [|x r IH]; intros Hc l H.
  - destruct H as [<-|[]]. reflexivity.
  - cbn [mem existsb] in Hc. apply orb_false_iff in Hc as [Hx Hc].
    change (existsb (N.eqb c) r) with (mem c r) in Hc.
    cbn [split_on] in H. destruct (x =? sep) eqn:E.
    + destruct H as [<-|H]; [reflexivity|auto].
    + pose proof (split_nonempty sep r) as Hne. destruct (split_on sep r) as [|f fs] eqn:ES; [contradiction|].
      destruct H as [<-|H].
      * cbn [mem existsb]. rewrite Hx. cbn [orb]. apply IH; [assumption|now left].
      * apply IH; [assumption|now right].
Qed.

Lemma scan_lines_clean b : mem 13 b = false -> forallb line_clean (scan_lines b) = true.
Proof.
  intros H. apply forallb_forall. intros l Hl. unfold scan_lines in Hl.
  apply in_map_iff in Hl as [l0 [<- Hl0]].
  assert (Hin : In l0 (split_on 10 b)).
  { destruct (rev (split_on 10 b)) as [|[|x y] r] eqn:E; try assumption.
    apply in_rev. rewrite E. right. now apply in_rev in Hl0. }
  pose proof (split_in_nosep 10 b l0 Hin) as H10. pose proof (split_in_sub 10 b 13 H l0 Hin) as H13.
  rewrite strip_cr_id by assumption. unfold line_clean. now rewrite H10, H13.
Qed.

Lemma mem_unlines c ls : (c =? 10) = false -> forallb (fun l => negb (mem c l)) ls = true -> mem c (unlines ls) = false.
Proof.
  intros Hc. induction ls as [|l r IH]; intros H; [reflexivity|].
  cbn [forallb] in H. apply andb_true_iff in H as [Hl H]. apply negb_true_iff in Hl.
  unfold unlines. cbn [flat_map]. unfold mem. rewrite !existsb_app. fold (mem c l). rewrite Hl.
  cbn [existsb]. rewrite Hc. cbn [orb]. apply IH. assumption.
Qed.

Lemma packed_ok_unlines ls : forallb line_clean ls = true -> forallb line_okb ls = true ->
  packed_okb (Some (unlines ls)) = true.
Proof.
  intros Hc Ho. unfold packed_okb. rewrite scan_unlines, Ho by assumption.
  rewrite mem_unlines; [reflexivity|reflexivity|].
  apply forallb_forall. intros l Hl. eapply forallb_forall in Hc; eauto. unfold line_clean in Hc.
  now apply andb_true_iff in Hc as [_ Hc].
Qed.

Lemma forallb_incl {A} (f : A -> bool) l1 l2 : incl l1 l2 -> forallb f l2 = true -> forallb f l1 = true.
Proof. intros Hi H. apply forallb_forall. intros x Hx. eapply forallb_forall in H; eauto. Qed.

(* ---------------------------------------------------------------- RemoveRef *)
(* packed-refs is rewritten first, then the loose path is removed; when the
   operating system refuses the second step (the path is a non-empty directory,
   or lies below a regular file) the packed entry is gone all the same and no
   loose file of that name can exist: the name is removed from the map whether
   the call answers nil or an error *)
Lemma remove_ref_spec s n : wfb s = true -> name_okb n = true ->
  let (s', r) := remove_ref s n in
  (r = Er EFs \/ r = Ok tt) /\ wfb s' = true /\ abs_eq (abs s') (m_del (abs s) n).
Proof.
  intros Hw Hn. pose proof Hn as Hn'. unfold name_okb in Hn'.
  apply andb_true_iff in Hn' as [Hn' Hl]. apply andb_true_iff in Hn' as [Hval Hc].
  destruct (wfb_parts s Hw) as [Hnd [Hf [Hr [Hh Hp]]]].
  unfold remove_ref. rewrite Hval. cbn [negb].
  (* step 1: packed-refs without the name *)
  set (ap := match packed s with
             | None => Ok None
             | Some b => match drop_lines n (scan_lines b) false with
                         | Er e => Er e
                         | Ok (kept, true) => Ok (Some (unlines kept))
                         | Ok (_, false) => Ok (Some b)
                         end
             end).
  assert (Hap : exists p1, ap = Ok p1 /\ packed_okb p1 = true /\
            forall f x, packed_val {| fs := f; packed := p1 |} x = if beqb x n then None else packed_val s x).
  { unfold ap. pose proof (packed_ok_parse s Hp) as Hpa. unfold packed_val, packed_lines in *.
    destruct (packed s) as [b|] eqn:EP.
    - assert (Hcr : mem 13 b = false).
      { cbn in Hp. apply andb_true_iff in Hp as [Hp' _]. now apply negb_true_iff. }
      assert (Hlo : forallb line_okb (scan_lines b) = true).
      { cbn in Hp. now apply andb_true_iff in Hp as [_ Hp']. }
      destruct (drop_lines_spec n _ Hpa false) as [kept [found [-> [Hpk [Hi [Hfk Hnf]]]]]].
      destruct found.
      + eexists. split; [reflexivity|]. split.
        * apply packed_ok_unlines; eapply forallb_incl; eauto. now apply scan_lines_clean.
        * intros f x. cbn [packed].
          rewrite scan_unlines by (eapply forallb_incl; eauto; now apply scan_lines_clean).
          rewrite Hfk. destruct (beqb x n); reflexivity.
      + eexists. split; [reflexivity|]. split; [exact Hp|].
        intros f x. cbn [packed]. destruct (beqb x n) eqn:E; [|reflexivity].
        apply beqb_eq in E. subst x. destruct (Hnf eq_refl) as [Ek|Hn0].
        * specialize (Hfk n). rewrite beqb_refl, Ek in Hfk. now rewrite Hfk.
        * now rewrite Hn0.
    - exists None. split; [reflexivity|]. split; [reflexivity|].
      intros f x. cbn [packed]. destruct (beqb x n); reflexivity. }
  destruct Hap as [p1 [-> [Hp1 Hpv]]].
  (* step 2: every outcome leaves a file list without n and the invariant intact *)
  assert (Hfin : forall f1 r, (r = Er EFs \/ r = Ok tt) ->
            lookup n (files f1) = None ->
            (forall x, beqb x n = false -> lookup x (files f1) = lookup x (files (fs s))) ->
            nodup_keys (files f1) = true -> forallb file_okb (files f1) = true ->
            is_file f1 refsDir = false -> is_dir f1 HEADp = false ->
            (r = Er EFs \/ r = Ok tt) /\ wfb {| fs := f1; packed := p1 |} = true /\
            abs_eq (abs {| fs := f1; packed := p1 |}) (m_del (abs s) n)).
  { intros f1 r Hrr Hk1 Hk2 Hnd1 Hf1 Hr1 Hh1. split; [assumption|]. split.
    - unfold wfb. cbn [fs packed]. now rewrite Hnd1, Hf1, Hr1, Hh1, Hp1.
    - intros x. unfold abs, m_del. rewrite Hpv. unfold loose_val. cbn [fs].
      destruct (beqb x n) eqn:E.
      + apply beqb_eq in E. subst x. now rewrite Hk1.
      + now rewrite Hk2. }
  unfold stat. destruct (lookup n (files (fs s))) as [c|] eqn:EL.
  - apply Hfin; cbn [files dirs]; auto.
    + apply lookup_del_same.
    + intros x Hx. now apply lookup_del_other.
    + now apply nodup_filter.
    + now apply forallb_filter'.
    + unfold is_file. cbn [files]. rewrite lookup_del_other; [exact Hr|]. now apply valid_not_refs.
  - destruct (is_dir (fs s) n).
    + destruct (dir_nonempty (fs s) n).
      * apply Hfin; auto.
      * apply Hfin; cbn [files dirs]; auto.
        unfold is_dir. cbn [dirs]. apply existsb_filter. exact Hh.
    + destruct (file_above (fs s) n); apply Hfin; auto.
Qed.

(* ---------------------------------------------------------------- the loose walk *)
Definition loose_list (l : list (bytes * bytes)) : list (bytes * refval) :=
  map (fun e => (fst e, parse_c (snd e))) (filter (fun e => under refsDir (fst e)) l).

Lemma under_listed p : under refsDir p = true -> listed p = true.
Proof. unfold listed. intros ->. apply orb_true_r. Qed.

Lemma walk_files_ok l : forallb file_okb l = true -> walk_files l = Ok (loose_list l).
Proof.
  induction l as [|[p c] l IH]; intros H; [reflexivity|].
  cbn [forallb] in H. apply andb_true_iff in H as [He H]. cbn [walk_files].
  unfold loose_list. cbn [filter fst]. destruct (under refsDir p) eqn:EU.
  - unfold file_okb in He. cbn [fst snd] in He. rewrite (under_listed p EU) in He.
    destruct c as [|c0 c']; [discriminate|]. cbn [read_ref_content]. rewrite IH by assumption.
    reflexivity.
  - auto.
Qed.

Lemma existsb_beqb_in (n : bytes) l : existsb (beqb n) l = true <-> In n l.
Proof.
  split.
  - intros H. apply existsb_exists in H as [x [Hx E]]. apply beqb_eq in E. now subst.
  - intros H. apply existsb_exists. exists n. split; [assumption|apply beqb_refl].
Qed.

Lemma loose_list_in l n v : nodup_keys l = true ->
  (In (n, v) (loose_list l) <-> under refsDir n = true /\ exists c, lookup n l = Some c /\ v = parse_c c).
Proof.
  intros Hnd. unfold loose_list. rewrite in_map_iff. split.
  - intros [[p c] [E Hin]]. cbn [fst snd] in E. injection E as E1 E2. subst p v.
    apply filter_In in Hin as [Hin Hu]. cbn [fst] in Hu. split; [assumption|].
    exists c. split; [now apply lookup_in|reflexivity].
  - intros [Hu [c [Hk ->]]]. exists (n, c). split; [reflexivity|].
    apply filter_In. split; [now apply in_lookup|assumption].
Qed.

Lemma loose_names_in l n : nodup_keys l = true ->
  (In n (map fst (loose_list l)) <-> under refsDir n = true /\ exists c, lookup n l = Some c).
Proof.
  intros Hnd. rewrite in_map_iff. split.
  - intros [[m v] [E Hin]]. cbn in E. subst m. apply (loose_list_in l n v Hnd) in Hin as [Hu [c [Hk _]]].
    split; [assumption|now exists c].
  - intros [Hu [c Hk]]. exists (n, parse_c c). split; [reflexivity|].
    apply loose_list_in; [assumption|]. split; [assumption|]. now exists c.
Qed.

(* a packed entry is always a hash reference with a listed name *)
Lemma find_packed_line n v lines : find_packed n lines = Ok (Some v) ->
  exists l, In l lines /\ process_line l = Some (Some (n, v)).
Proof.
  induction lines as [|l r IH]; [discriminate|]. cbn [find_packed].
  destruct (process_line l) as [[[m w]|]|] eqn:EP; [| |discriminate].
  - destruct (beqb m n) eqn:E.
    + apply beqb_eq in E. subst m. intros H. injection H as ->. exists l. split; [now left|assumption].
    + intros H. destruct (IH H) as [l' [Hin Hp]]. exists l'. split; [now right|assumption].
  - intros H. destruct (IH H) as [l' [Hin Hp]]. exists l'. split; [now right|assumption].
Qed.

Lemma packed_entry_ok s n v : packed_okb (packed s) = true -> packed_val s n = Some v ->
  under refsDir n = true /\ name_clean n = true /\ val_okb v = true.
Proof.
  intros Hp Hv. unfold packed_val in Hv.
  destruct (find_packed n (packed_lines s)) as [[w|]|] eqn:EF; try discriminate. injection Hv as ->.
  destruct (find_packed_line _ _ _ EF) as [l [Hin Hl]].
  unfold packed_okb, packed_lines in *. destruct (packed s) as [b|]; [|contradiction].
  apply andb_true_iff in Hp as [_ Hp]. eapply forallb_forall in Hp; eauto.
  unfold line_okb in Hp. rewrite Hl in Hp. apply andb_true_iff in Hp as [Hp H3].
  now apply andb_true_iff in Hp as [H1 H2].
Qed.

(* ---------------------------------------------------------------- Refs *)
Lemma head_not_under : under refsDir HEADp = false.
Proof. reflexivity. Qed.

Lemma under_not_head n : under refsDir n = true -> beqb n HEADp = false.
Proof.
  intros H. destruct (beqb n HEADp) eqn:E; [|reflexivity]. apply beqb_eq in E. subst n. discriminate.
Qed.

Lemma list_refs_spec s : wfb s = true ->
  exists l, list_refs s = Ok l /\
    forall n v, In (n, v) l <-> (listed n = true /\ abs s n = Some v).
Proof.
  intros Hw. destruct (wfb_parts s Hw) as [Hnd [Hf [Hr [Hh Hp]]]].
  pose proof (packed_ok_parse s Hp) as Hap.
  unfold list_refs.
  (* HEAD *)
  assert (Hhd : exists hd, (match read_ref_file (fs s) HEADp with
                            | RVal v => Ok [(HEADp, v)] | RNoEnt => Ok [] | RErr e => Er e end) = Ok hd /\
                forall n v, In (n, v) hd <-> (n = HEADp /\ loose_val s HEADp = Some v)).
  { unfold read_ref_file, stat, loose_val. destruct (lookup HEADp (files (fs s))) as [c|] eqn:EL.
    - destruct (file_ok_lookup s HEADp c Hf eq_refl EL) as [c0 [c' ->]]. cbn [read_ref_content].
      eexists. split; [reflexivity|]. intros n v. cbn [In]. split.
      + intros [E|[]]. injection E as <- <-. auto.
      + intros [-> E]. injection E as <-. now left.
    - rewrite Hh. change (file_above (fs s) HEADp) with false. cbv iota.
      exists []. split; [reflexivity|]. intros n v. split; [contradiction|intros [_ E]; discriminate]. }
  destruct Hhd as [hd [-> Hhd]].
  unfold walk_refs. rewrite Hr, walk_files_ok by assumption.
  set (loose := loose_list (files (fs s))).
  assert (Hpk : exists pk, (match packed s with
                            | None => Ok []
                            | Some b => packed_all (scan_lines b) (map fst loose) [] end) = Ok pk /\
                forall n v, In (n, v) pk <-> (~ In n (map fst loose) /\ packed_val s n = Some v)).
  { unfold packed_val, packed_lines in *. destruct (packed s) as [b|].
    - rewrite packed_all_first by assumption. cbn [rev app]. eexists. split; [reflexivity|].
      intros n v. rewrite first_occ_in by assumption. split.
      + intros [Hs Hfd]. rewrite Hfd. split; [|reflexivity]. intros Hin. apply existsb_beqb_in in Hin. congruence.
      + intros [Hs Hfd]. split.
        * destruct (existsb (beqb n) (map fst loose)) eqn:E; [|reflexivity]. apply existsb_beqb_in in E. contradiction.
        * destruct (find_packed_total n _ Hap) as [r Er]. rewrite Er in *. now rewrite Hfd.
    - exists []. split; [reflexivity|]. intros n v. split; [contradiction|intros [_ E]; discriminate]. }
  destruct Hpk as [pk [-> Hpk]].
  eexists. split; [reflexivity|]. intros n v. rewrite !in_app_iff, Hhd, Hpk.
  unfold loose. rewrite (loose_list_in _ n v Hnd), (loose_names_in _ n Hnd).
  unfold abs, listed. split.
  - intros [[-> Hl]|[[Hu [c [Hk ->]]]|[Hnl Hpv]]].
    + rewrite beqb_refl, Hl. auto.
    + rewrite Hu, orb_true_r. split; [reflexivity|]. unfold loose_val. rewrite Hk.
      destruct (file_ok_lookup s n c Hf (under_listed n Hu) Hk) as [c0 [c' ->]]. reflexivity.
    + destruct (packed_entry_ok s n v Hp Hpv) as [Hu _]. rewrite Hu, orb_true_r. split; [reflexivity|].
      assert (Hlv : loose_val s n = None).
      { unfold loose_val. destruct (lookup n (files (fs s))) as [c|] eqn:EL; [|reflexivity].
        exfalso. apply Hnl. split; [assumption|now exists c]. }
      now rewrite Hlv.
  - intros [Hl Ha]. destruct (loose_val s n) as [w|] eqn:ELV.
    + injection Ha as ->. unfold loose_val in ELV.
      destruct (lookup n (files (fs s))) as [[|c0 c']|] eqn:EL; try discriminate. injection ELV as <-.
      apply orb_true_iff in Hl as [Hl|Hl].
      * apply beqb_eq in Hl. subst n. left. split; [reflexivity|]. unfold loose_val. now rewrite EL.
      * right. left. split; [assumption|]. now exists (c0 :: c').
    + right. right. split; [|assumption]. intros [Hu [c Hk]].
      destruct (file_ok_lookup s n c Hf (under_listed n Hu) Hk) as [c0 [c' ->]].
      unfold loose_val in ELV. rewrite Hk in ELV. discriminate.
Qed.

(* ---------------------------------------------------------------- PackRefs *)
Lemma has_prefix_mem p s c : has_prefix p s = true -> mem c p = true -> mem c s = true.
Proof.
  revert s. induction p as [|x p IH]; intros s H Hc; [discriminate|].
  destruct s as [|y s]; [discriminate|]. cbn [has_prefix] in H. apply andb_true_iff in H as [Hx H].
  apply N.eqb_eq in Hx. subst y. cbn [mem existsb] in *. apply orb_true_iff in Hc as [Hc|Hc].
  - now rewrite Hc.
  - fold (mem c p) in Hc. fold (mem c s). rewrite (IH s H Hc). apply orb_true_r.
Qed.

Lemma process_line_hash l n v : process_line l = Some (Some (n, v)) -> exists h f, v = VHash h f.
Proof.
  unfold process_line. destruct l as [|c l']; [discriminate|].
  destruct ((c =? 35) || (c =? 94)); [discriminate|].
  destruct (split_on 32 (c :: l')) as [|w0 [|w1 [|w2 r]]] eqn:ES; try discriminate.
  intros H. injection H as <- <-.
  assert (H0 : mem 32 w0 = false) by (apply (split_in_nosep 32 (c :: l')); rewrite ES; now left).
  unfold ref_from_strings. destruct (has_prefix symrefPrefix w0) eqn:EP.
  - assert (mem 32 w0 = true); [|congruence]. apply (has_prefix_mem symrefPrefix); [assumption|reflexivity].
  - unfold new_hash. destruct (decode_hex w0); eauto.
Qed.

Lemma assoc_first_occ lines x : all_parse lines = true -> forall seen,
  existsb (beqb x) seen = false ->
  assoc_h x (first_occ lines seen) = match find_packed x lines with Ok r => r | Er _ => None end.
Proof.
  induction lines as [|l r IH]; intros H seen Hs; [reflexivity|].
  cbn in H. apply andb_true_iff in H as [Hl H]. unfold parses in Hl. cbn [first_occ find_packed].
  destruct (process_line l) as [[[m w]|]|] eqn:EP; [|auto|discriminate].
  destruct (process_line_hash _ _ _ EP) as [h [f ->]].
  destruct (beqb m x) eqn:Emx.
  - apply beqb_eq in Emx. subst m. rewrite Hs. cbn [assoc_h is_hash_ref snd andb]. now rewrite beqb_refl.
  - destruct (existsb (beqb m) seen) eqn:Es; [auto|].
    cbn [assoc_h is_hash_ref snd andb]. rewrite Emx. apply IH; [assumption|].
    cbn [existsb]. now rewrite beqb_sym, Emx, Hs.
Qed.

Definition is_hash (v : refval) : bool := match v with VHash _ _ => true | VSym _ => false end.

Lemma assoc_loose_none x l : existsb (fun e => beqb x (fst e)) l = false -> assoc_h x (loose_list l) = None.
Proof.
  induction l as [|[q d] l IH]; intros H; [reflexivity|]. cbn [existsb fst] in H.
  apply orb_false_iff in H as [Hq H]. unfold loose_list. cbn [filter fst].
  destruct (under refsDir q); [|now apply IH]. cbn [map assoc_h fst snd].
  rewrite (beqb_sym q x), Hq, andb_false_r. now apply IH.
Qed.

Lemma assoc_loose x l : nodup_keys l = true ->
  assoc_h x (loose_list l) =
  match lookup x l with
  | Some c => if under refsDir x && is_hash (parse_c c) then Some (parse_c c) else None
  | None => None
  end.
Proof.
  induction l as [|[q d] l IH]; intros Hn; [reflexivity|].
  cbn in Hn. apply andb_true_iff in Hn as [Hq Hn]. apply negb_true_iff in Hq.
  cbn [lookup]. destruct (beqb x q) eqn:E.
  - apply beqb_eq in E. subst q. unfold loose_list. cbn [filter fst].
    destruct (under refsDir x) eqn:EU.
    + cbn [map assoc_h fst snd andb]. rewrite beqb_refl, andb_true_r.
      unfold is_hash_ref, is_hash. cbn [snd]. destruct (parse_c d); [reflexivity|].
      now apply assoc_loose_none.
    + cbn [andb]. now apply assoc_loose_none.
  - unfold loose_list. cbn [filter fst]. destruct (under refsDir q).
    + cbn [map assoc_h fst snd]. rewrite (beqb_sym q x), E, andb_false_r. now apply IH.
    + now apply IH.
Qed.

Lemma name_clean_no c n : name_clean n = true -> (c <=? 32) = true -> mem c n = false.
Proof.
  intros H Hc. apply (mem_forallb_false (fun c => negb ((c <=? 32) || (c =? 127)))); [assumption|].
  now rewrite Hc.
Qed.

(* a loose or packed entry of a well-formed store can be written to packed-refs *)
Definition entry_okb (e : bytes * refval) : bool :=
  under refsDir (fst e) && name_clean (fst e) && val_okb (snd e).

Lemma entry_renderable e : entry_okb e = true -> renderable e = true.
Proof.
  destruct e as [n v]. unfold entry_okb, renderable. cbn [fst snd]. intros H.
  apply andb_true_iff in H as [H Hv]. apply andb_true_iff in H as [_ Hc].
  destruct v as [h f|t]; [|reflexivity]. cbn [val_okb] in Hv. rewrite Hv.
  rewrite (name_clean_no 32 n Hc) by reflexivity. reflexivity.
Qed.

Lemma rendered_lines_ok L : forallb entry_okb L = true ->
  forallb line_clean (flat_map packed_line L) = true /\ forallb line_okb (flat_map packed_line L) = true.
Proof.
  induction L as [|[n v] L IH]; intros H; [split; reflexivity|].
  cbn [forallb] in H. apply andb_true_iff in H as [He H]. destruct (IH H) as [IH1 IH2].
  cbn [flat_map]. rewrite !forallb_app, IH1, IH2, !andb_true_r.
  unfold entry_okb in He. cbn [fst snd] in He. apply andb_true_iff in He as [He Hv].
  apply andb_true_iff in He as [Hu Hc]. unfold packed_line. cbn [fst snd].
  destruct v as [h f|t]; [|split; reflexivity]. cbn [val_okb] in Hv. cbn [forallb]. rewrite !andb_true_r.
  pose proof (hash_string_hexchars h f Hv) as Hx. split.
  - unfold line_clean. unfold mem. rewrite !existsb_app. cbn [existsb].
    fold (mem 10 (hash_string h f)) (mem 10 n) (mem 13 (hash_string h f)) (mem 13 n).
    rewrite (mem_forallb_false hexchar 10 _ Hx) by reflexivity.
    rewrite (mem_forallb_false hexchar 13 _ Hx) by reflexivity.
    rewrite (name_clean_no 10 n Hc), (name_clean_no 13 n Hc) by reflexivity. reflexivity.
  - unfold line_okb. rewrite process_line_render; [|assumption|now apply (name_clean_no 32 n Hc)].
    rewrite Hu, Hc. exact Hv.
Qed.

Lemma loose_entries_ok l : forallb file_okb l = true -> forallb entry_okb (loose_list l) = true.
Proof.
  intros H. apply forallb_forall. intros [n v] Hin. unfold loose_list in Hin.
  apply in_map_iff in Hin as [[p c] [E Hin]]. cbn [fst snd] in E. injection E as E1 E2. subst n v.
  apply filter_In in Hin as [Hin Hu]. cbn [fst] in Hu.
  eapply forallb_forall in H; eauto. unfold file_okb in H. cbn [fst snd] in H.
  rewrite (under_listed p Hu) in H. apply andb_true_iff in H as [H Hc]. apply andb_true_iff in H as [_ Hv].
  unfold entry_okb. cbn [fst snd]. now rewrite Hu, Hc, Hv.
Qed.

Lemma first_occ_entries_ok lines : forallb line_okb lines = true -> forall seen,
  forallb entry_okb (first_occ lines seen) = true.
Proof.
  induction lines as [|l r IH]; intros H seen; [reflexivity|].
  cbn [forallb] in H. apply andb_true_iff in H as [Hl H]. cbn [first_occ].
  unfold line_okb in Hl. destruct (process_line l) as [[[m w]|]|]; [|auto|discriminate].
  destruct (existsb (beqb m) seen); [auto|]. cbn [forallb]. rewrite IH by assumption.
  unfold entry_okb. cbn [fst snd]. now rewrite Hl.
Qed.

Lemma pack_refs_spec s : wfb s = true ->
  let (s', r) := pack_refs s in r = Ok tt /\ wfb s' = true /\ abs_eq (abs s') (abs s).
Proof.
  intros Hw. destruct (wfb_parts s Hw) as [Hnd [Hf [Hr [Hh Hp]]]].
  unfold pack_refs, walk_refs. rewrite Hr, walk_files_ok by assumption.
  set (b := match packed s with Some b => b | None => [] end).
  set (loose := loose_list (files (fs s))).
  (* the lines of the old file *)
  assert (Hlines : scan_lines b = packed_lines s /\ forallb line_okb (scan_lines b) = true /\ mem 13 b = false).
  { unfold b, packed_lines, packed_okb in *. destruct (packed s) as [b0|].
    - apply andb_true_iff in Hp as [H13 Hlo]. apply negb_true_iff in H13. auto.
    - repeat split; reflexivity. }
  destruct Hlines as [Elines [Hlo H13]].
  assert (Hap : all_parse (scan_lines b) = true).
  { unfold all_parse. apply forallb_forall. intros l Hl. apply line_ok_parses. eapply forallb_forall in Hlo; eauto. }
  assert (Hs0 : wfb {| fs := fs s; packed := Some b |} = true /\
                abs_eq (abs {| fs := fs s; packed := Some b |}) (abs s)).
  { split.
    - unfold wfb. cbn [fs packed]. rewrite Hnd, Hf, Hr, Hh. cbn [negb andb]. unfold packed_okb. now rewrite H13, Hlo.
    - intros x. unfold abs, loose_val, packed_val, packed_lines. cbn [fs packed]. now rewrite Elines. }
  destruct loose as [|e0 L0] eqn:EL.
  { split; [reflexivity|]. exact Hs0. }
  rewrite <- EL. clear e0 L0 EL.
  rewrite packed_all_first by assumption. cbn [rev app].
  set (pk := first_occ (scan_lines b) (map fst loose)).
  set (L := loose ++ pk).
  set (gone := map fst (filter is_hash_ref loose)).
  assert (HL : forallb entry_okb L = true).
  { unfold L. rewrite forallb_app. unfold loose, pk.
    now rewrite loose_entries_ok, first_occ_entries_ok. }
  destruct (rendered_lines_ok L HL) as [Hcl Hok].
  assert (Hren : forallb renderable L = true).
  { apply forallb_forall. intros e He. apply entry_renderable. eapply forallb_forall in HL; eauto. }
  set (files' := filter (fun e => negb (existsb (beqb (fst e)) gone)) (files (fs s))).
  assert (Hk' : forall x, lookup x files' = if existsb (beqb x) gone then None else lookup x (files (fs s))).
  { intros x. unfold files'. rewrite (lookup_filter (fun p => negb (existsb (beqb p) gone))).
    now destruct (existsb (beqb x) gone). }
  assert (Hgone : forall x c, lookup x (files (fs s)) = Some c ->
            existsb (beqb x) gone = under refsDir x && is_hash (parse_c c)).
  { intros x c Hk. destruct (under refsDir x && is_hash (parse_c c)) eqn:E.
    - apply existsb_beqb_in. unfold gone. apply in_map_iff. exists (x, parse_c c). split; [reflexivity|].
      apply andb_true_iff in E as [Eu Eh]. apply filter_In. split.
      + apply loose_list_in; [assumption|]. split; [assumption|]. now exists c.
      + unfold is_hash_ref. cbn [snd]. now destruct (parse_c c).
    - destruct (existsb (beqb x) gone) eqn:Eg; [|reflexivity]. apply existsb_beqb_in in Eg.
      unfold gone in Eg. apply in_map_iff in Eg as [[x' v] [Ex Hin]]. cbn in Ex. subst x'.
      apply filter_In in Hin as [Hin Hh']. apply (loose_list_in _ x v Hnd) in Hin as [Hu [c' [Hk2 ->]]].
      rewrite Hk in Hk2. injection Hk2 as <-. rewrite Hu in E. cbn [andb] in E.
      unfold is_hash_ref in Hh'. cbn [snd] in Hh'. unfold is_hash in E. destruct (parse_c c); discriminate. }
  assert (Hgone0 : forall x, lookup x (files (fs s)) = None -> existsb (beqb x) gone = false).
  { intros x Hk. destruct (existsb (beqb x) gone) eqn:Eg; [|reflexivity]. apply existsb_beqb_in in Eg.
    unfold gone in Eg. apply in_map_iff in Eg as [[x' v] [Ex Hin]]. cbn in Ex. subst x'.
    apply filter_In in Hin as [Hin _]. apply (loose_list_in _ x v Hnd) in Hin as [_ [c' [Hk2 _]]]. congruence. }
  split; [reflexivity|]. split.
  - unfold wfb. cbn [fs packed files dirs]. fold files'.
    unfold files'. rewrite nodup_filter, forallb_filter' by assumption. fold files'.
    unfold is_file, is_dir. cbn [files dirs]. rewrite Hk'. unfold is_file in Hr.
    replace (if existsb (beqb refsDir) gone then None else lookup refsDir (files (fs s))) with (@None bytes)
      by (destruct (existsb (beqb refsDir) gone); [reflexivity|]; destruct (lookup refsDir (files (fs s))); [discriminate|reflexivity]).
    unfold is_dir in Hh. rewrite Hh. cbn [negb andb]. now apply packed_ok_unlines.
  - intros x. unfold abs.
    assert (Epv : packed_val {| fs := {| files := files'; dirs := dirs (fs s) |};
                               packed := Some (unlines (flat_map packed_line L)) |} x = assoc_h x L).
    { unfold packed_val, packed_lines. cbn [packed]. rewrite scan_unlines by assumption.
      now rewrite find_render. }
    rewrite Epv. unfold loose_val at 1. cbn [fs files]. rewrite Hk'.
    unfold L. rewrite assoc_h_app. unfold loose at 1. rewrite assoc_loose by assumption.
    unfold loose_val. destruct (lookup x (files (fs s))) as [c|] eqn:Ek.
    + rewrite (Hgone x c Ek).
      destruct (under refsDir x) eqn:Eu.
      * destruct (file_ok_lookup s x c Hf (under_listed x Eu) Ek) as [c0 [c' ->]].
        cbn [andb]. destruct (is_hash (parse_c (c0 :: c'))); reflexivity.
      * cbn [andb]. destruct c as [|c0 c']; [|reflexivity].
        (* an empty file outside refs/: both sides fall through to packed-refs, whose names are below refs/ *)
        unfold pk. rewrite assoc_first_occ; [| assumption |].
        -- unfold packed_val. now rewrite Elines.
        -- destruct (existsb (beqb x) (map fst loose)) eqn:E; [|reflexivity].
           apply existsb_beqb_in in E. apply (loose_names_in _ x Hnd) in E as [Hu _]. congruence.
    + rewrite (Hgone0 x Ek). unfold pk. rewrite assoc_first_occ; [| assumption |].
      * unfold packed_val. now rewrite Elines.
      * destruct (existsb (beqb x) (map fst loose)) eqn:E; [|reflexivity].
        apply existsb_beqb_in in E. apply (loose_names_in _ x Hnd) in E as [_ [c Hk]]. congruence.
Qed.
