(* Proofs/C15c.v — the reference store refines the map: abstraction function,
   invariant, and one lemma per operation. *)
From Coq Require Import List Arith NArith ZArith Bool String Lia ZifyBool ZifyNat ZifyN.
From GoGit Require Import Base.Out Model.RefStrings Model.RefName Model.RefGuard Model.RefStore Spec.RefMap Gen.C14
  Proofs.C13 Proofs.C15a Proofs.C15b.
Import ListNotations.
Local Open Scope N_scope.

(* ---------------------------------------------------------------- abstraction *)
Definition parse_c (c : bytes) : refval := ref_from_strings (trim_space c).

Definition loose_val (s : store) (n : bytes) : option refval :=
  match lookup n (files (fs s)) with
  | Some (c0 :: c') => Some (parse_c (c0 :: c'))
  | _ => None
  end.

Definition packed_lines (s : store) : list bytes :=
  match packed s with Some b => scan_lines b | None => [] end.

Definition packed_val (s : store) (n : bytes) : option refval :=
  match find_packed n (packed_lines s) with Ok r => r | Er _ => None end.

(* abs s = loose, else the first occurrence in packed-refs *)
Definition abs (s : store) : rmap :=
  fun n => match loose_val s n with Some v => Some v | None => packed_val s n end.

(* ---------------------------------------------------------------- invariant *)
Definition name_clean (n : bytes) : bool := forallb (fun c => negb ((c <=? 32) || (c =? 127))) n.

Definition file_okb (e : bytes * bytes) : bool :=
  if listed (fst e) then negb (beqb (snd e) []) && val_okb (parse_c (snd e)) && name_clean (fst e) else true.

Definition line_okb (l : bytes) : bool :=
  match process_line l with
  | None => false
  | Some None => true
  | Some (Some (n, v)) => under refsDir n && name_clean n && val_okb v
  end.

Definition packed_okb (p : option bytes) : bool :=
  match p with None => true | Some b => negb (mem 13 b) && forallb line_okb (scan_lines b) end.

Definition wfb (s : store) : bool :=
  nodup_keys (files (fs s)) && forallb file_okb (files (fs s))
  && negb (is_file (fs s) refsDir) && negb (is_dir (fs s) HEADp)
  && packed_okb (packed s).

(* names and values the API is called with *)
Definition name_okb (n : bytes) : bool := valid_reference_name n && name_clean n && listed n.
Definition op_okb (o : op) : bool :=
  match o with
  | OSet n v _ => name_okb n && val_okb v
  | ORef n | ORm n => name_okb n
  | ORefs | OPack => true
  end.

Lemma wfb_parts s : wfb s = true ->
  nodup_keys (files (fs s)) = true /\ forallb file_okb (files (fs s)) = true /\
  is_file (fs s) refsDir = false /\ is_dir (fs s) HEADp = false /\ packed_okb (packed s) = true.
Proof.
  unfold wfb. intros H. repeat (apply andb_true_iff in H as [H ?]).
  repeat split; try assumption; now apply negb_true_iff.
Qed.

Lemma line_ok_parses l : line_okb l = true -> parses l = true.
Proof. unfold line_okb, parses. destruct (process_line l) as [[[n v]|]|]; auto. Qed.

Lemma packed_ok_parse s : packed_okb (packed s) = true -> all_parse (packed_lines s) = true.
Proof.
  unfold packed_okb, packed_lines. destruct (packed s) as [b|]; [|reflexivity].
  intros H. apply andb_true_iff in H as [_ H]. unfold all_parse.
  apply forallb_forall. intros l Hl. apply line_ok_parses. eapply forallb_forall in H; eauto.
Qed.

Lemma packed_ref_val s n : packed_okb (packed s) = true ->
  packed_ref s n = match packed_val s n with Some v => Ok v | None => Er ENotFound end.
Proof.
  intros H. pose proof (packed_ok_parse s H) as Hp.
  unfold packed_ref, packed_val, packed_lines in *. destruct (packed s) as [b|]; [|reflexivity].
  destruct (find_packed_total n _ Hp) as [r ->]. now destruct r.
Qed.

(* ---------------------------------------------------------------- Ref *)
Lemma read_ref_file_loose s n :
  match read_ref_file (fs s) n with RVal v => loose_val s n = Some v | _ => loose_val s n = None end.
Proof.
  unfold read_ref_file, stat, loose_val. destruct (lookup n (files (fs s))) as [c|].
  - destruct c as [|c0 c']; reflexivity.
  - destruct (is_dir (fs s) n); [reflexivity|]. destruct (file_above (fs s) n); reflexivity.
Qed.

Lemma get_ref_spec s n : wfb s = true -> valid_reference_name n = true ->
  get_ref s n = spec_get (abs s) n.
Proof.
  intros Hw Hv. destruct (wfb_parts s Hw) as [_ [_ [_ [_ Hp]]]].
  unfold get_ref, spec_get, abs. rewrite Hv. cbn [negb].
  pose proof (read_ref_file_loose s n) as H.
  destruct (read_ref_file (fs s) n); rewrite H; try reflexivity; now rewrite packed_ref_val.
Qed.

(* ---------------------------------------------------------------- names *)
Lemma valid_not_refs n : valid_reference_name n = true -> beqb refsDir n = false.
Proof.
  intros H. destruct (beqb refsDir n) eqn:E; [|reflexivity]. apply beqb_eq in E. subst n.
  vm_compute in H. discriminate.
Qed.

Lemma add_dirs_in ds : forall have q, existsb (beqb q) (add_dirs ds have) = existsb (beqb q) have || existsb (beqb q) ds.
Proof.
  induction ds as [|d r IH]; intros have q; cbn [add_dirs existsb]; [now rewrite orb_false_r|].
  destruct (existsb (beqb d) have) eqn:E.
  - rewrite IH. destruct (beqb q d) eqn:Eq; [|reflexivity].
    apply beqb_eq in Eq. subst d. rewrite E. reflexivity.
  - rewrite IH, existsb_app. cbn [existsb]. rewrite orb_false_r.
    destruct (existsb (beqb q) have), (beqb q d), (existsb (beqb q) r); reflexivity.
Qed.

(* no ancestor of a valid name is "HEAD" *)
Lemma parents_from_in s : forall pre q,
  In q (parents_from pre s) -> exists s1 s2, s = s1 ++ 47 :: s2 /\ q = rev pre ++ s1.
Proof.
  induction s as [|c r IH]; intros pre q H; [contradiction|].
  cbn [parents_from] in H. destruct (c =? 47) eqn:E.
  - apply N.eqb_eq in E. subst c. destruct H as [<-|H].
    + exists [], r. split; [reflexivity|now rewrite app_nil_r].
    + destruct (IH _ _ H) as [s1 [s2 [-> ->]]]. exists (47 :: s1), s2. split; [reflexivity|].
      cbn [rev]. now rewrite <- app_assoc.
  - destruct (IH _ _ H) as [s1 [s2 [-> ->]]]. exists (c :: s1), s2. split; [reflexivity|].
    cbn [rev]. now rewrite <- app_assoc.
Qed.

Lemma valid_parent_not_head n : valid_reference_name n = true -> existsb (beqb HEADp) (parents n) = false.
Proof.
  intros H. destruct (existsb (beqb HEADp) (parents n)) eqn:E; [|reflexivity].
  apply existsb_exists in E as [q [Hq Eq]]. apply beqb_eq in Eq. subst q.
  destruct (parents_from_in _ _ _ Hq) as [s1 [s2 [En Eh]]]. cbn [rev app] in Eh. subst s1.
  subst n. vm_compute in H. (* "HEAD/…" is neither below refs/ nor all-caps *)
  unfold valid_reference_name, is_safe in H. discriminate.
Qed.

(* ---------------------------------------------------------------- writes to the file list *)
Lemma set_file_twice p c d l : set_file p c (set_file p d l) = set_file p c l.
Proof.
  induction l as [|[q e] l IH]; cbn; [now rewrite beqb_refl|].
  destruct (beqb p q) eqn:E; cbn; [now rewrite beqb_refl|now rewrite E, IH].
Qed.

Lemma forallb_set (f : bytes * bytes -> bool) p c l :
  forallb f l = true -> f (p, c) = true -> forallb f (set_file p c l) = true.
Proof.
  intros Hl Hf. induction l as [|[q e] l IH]; cbn; [now rewrite Hf|].
  cbn in Hl. apply andb_true_iff in Hl as [He Hl].
  destruct (beqb p q); cbn; [now rewrite Hf, Hl|now rewrite He, IH].
Qed.

Lemma forallb_filter' {A} (f g : A -> bool) l : forallb f l = true -> forallb f (filter g l) = true.
Proof.
  intros H. apply forallb_forall. intros x Hx. apply filter_In in Hx as [Hx _].
  eapply forallb_forall in H; eauto.
Qed.

Definition abs_eq (m1 m2 : rmap) : Prop := forall x, m1 x = m2 x.

(* a written file reads back as the value *)
Lemma parse_written v : val_okb v = true ->
  exists c0 c', ref_content v = c0 :: c' /\ parse_c (c0 :: c') = v.
Proof.
  intros H. pose proof (read_written v H) as R. unfold read_ref_content in R.
  destruct (ref_content v) as [|c0 c'] eqn:E; [discriminate|].
  exists c0, c'. split; [reflexivity|]. injection R as R. exact R.
Qed.

Lemma loose_val_files s1 s2 n : lookup n (files (fs s1)) = lookup n (files (fs s2)) -> loose_val s1 n = loose_val s2 n.
Proof. unfold loose_val. now intros ->. Qed.

Lemma abs_same_packed s1 s2 x :
  packed s1 = packed s2 -> loose_val s1 x = loose_val s2 x -> abs s1 x = abs s2 x.
Proof. intros Hp Hl. unfold abs, packed_val, packed_lines. now rewrite Hl, Hp. Qed.

Lemma file_ok_written n v : val_okb v = true -> name_clean n = true -> file_okb (n, ref_content v) = true.
Proof.
  intros Hv Hn. unfold file_okb. cbn [fst snd]. destruct (listed n); [|reflexivity].
  destruct (parse_written v Hv) as [c0 [c' [E P]]]. rewrite E, P, Hv, Hn. reflexivity.
Qed.

(* the state after OpenFile(O_CREATE) + Write, whatever open did to the file *)
Lemma write_after_open f n trunc f1 c :
  open_create f n trunc = Some f1 ->
  files (write_file f1 n c) = set_file n c (files f) /\
  dirs (write_file f1 n c) = add_dirs (parents n) (dirs f).
Proof.
  unfold open_create. destruct (file_above f n); [discriminate|]. destruct (is_dir f n); [discriminate|].
  destruct (lookup n (files f)) as [c1|] eqn:EL; intros H; injection H as <-; cbn [write_file files dirs].
  - destruct trunc; [now rewrite set_file_twice|auto].
  - now rewrite set_file_twice.
Qed.

Lemma wfb_write s n v f1 trunc :
  wfb s = true -> name_okb n = true -> val_okb v = true ->
  open_create (fs s) n trunc = Some f1 ->
  wfb {| fs := write_file f1 n (ref_content v); packed := packed s |} = true.
Proof.
  intros Hw Hn Hv Ho. destruct (wfb_parts s Hw) as [Hnd [Hf [Hr [Hh Hp]]]].
  unfold name_okb in Hn. apply andb_true_iff in Hn as [Hn Hl]. apply andb_true_iff in Hn as [Hval Hc].
  destruct (write_after_open _ _ _ _ (ref_content v) Ho) as [Ef Ed].
  unfold wfb. cbn [fs packed]. rewrite Ef, Hp.
  rewrite nodup_set by assumption. rewrite forallb_set; [|assumption|now apply file_ok_written].
  unfold is_file, is_dir. rewrite Ef, Ed.
  rewrite lookup_set_other by now apply valid_not_refs.
  unfold is_file in Hr. rewrite Hr. rewrite add_dirs_in. unfold is_dir in Hh. rewrite Hh.
  now rewrite valid_parent_not_head.
Qed.

(* ---------------------------------------------------------------- SetRef without old value *)
Lemma set_ref_plain s n v : wfb s = true -> name_okb n = true -> val_okb v = true ->
  let (s', r) := set_ref s n v None in
  (r = Er EFs /\ s' = s) \/
  (r = Ok tt /\ wfb s' = true /\ abs_eq (abs s') (m_set (abs s) n v)).
Proof.
  intros Hw Hn Hv. unfold set_ref.
  assert (Hval : valid_reference_name n = true).
  { unfold name_okb in Hn. apply andb_true_iff in Hn as [Hn _]. now apply andb_true_iff in Hn as [Hn _]. }
  rewrite Hval. cbn [negb].
  destruct (open_create (fs s) n true) as [f1|] eqn:Ho; [|now left].
  right. split; [reflexivity|]. split; [now apply (wfb_write s n v f1 true)|].
  destruct (write_after_open _ _ _ _ (ref_content v) Ho) as [Ef _].
  intros x. unfold m_set. destruct (beqb x n) eqn:E.
  - apply beqb_eq in E. subst x. unfold abs, loose_val. cbn [fs]. rewrite Ef, lookup_set_same.
    destruct (parse_written v Hv) as [c0 [c' [Ec P]]]. now rewrite Ec, P.
  - apply abs_same_packed; [reflexivity|]. apply loose_val_files. cbn [fs]. rewrite Ef.
    now apply lookup_set_other.
Qed.

(* ---------------------------------------------------------------- CheckAndSetReference *)
Lemma open_keep f n f1 : open_create f n false = Some f1 ->
  files f1 = (match lookup n (files f) with Some _ => files f | None => set_file n [] (files f) end) /\
  dirs f1 = add_dirs (parents n) (dirs f).
Proof.
  unfold open_create. destruct (file_above f n); [discriminate|]. destruct (is_dir f n); [discriminate|].
  destruct (lookup n (files f)); intros H; injection H as <-; auto.
Qed.

Lemma file_ok_lookup s n c : forallb file_okb (files (fs s)) = true -> listed n = true ->
  lookup n (files (fs s)) = Some c -> exists c0 c', c = c0 :: c'.
Proof.
  intros Hf Hl Hk. apply in_lookup in Hk. eapply forallb_forall in Hf; eauto.
  unfold file_okb in Hf. cbn [fst snd] in Hf. rewrite Hl in Hf.
  destruct c as [|c0 c']; [discriminate|]. now exists c0, c'.
Qed.

Lemma wfb_dirs s f1 : wfb s = true -> files f1 = files (fs s) ->
  (forall q, existsb (beqb q) (dirs f1) = existsb (beqb q) (dirs (fs s)) || false
             \/ existsb (beqb HEADp) (dirs f1) = false) ->
  existsb (beqb HEADp) (dirs f1) = false ->
  wfb {| fs := f1; packed := packed s |} = true.
Proof.
  intros Hw Ef _ Hh. destruct (wfb_parts s Hw) as [Hnd [Hf [Hr [_ Hp]]]].
  unfold wfb, is_file, is_dir. cbn [fs packed]. rewrite Ef, Hnd, Hf, Hp, Hh.
  unfold is_file in Hr. now rewrite Hr.
Qed.

Lemma set_ref_cas s n v o : wfb s = true -> name_okb n = true -> val_okb v = true ->
  let (s', r) := set_ref s n v (Some o) in
  (r = Er EFs /\ s' = s) \/
  (r = snd (spec_set (abs s) n v (Some o)) /\
   abs_eq (abs s') (fst (spec_set (abs s) n v (Some o))) /\
   (is_file (fs s) n = true \/ r = Ok tt -> wfb s' = true)).
Proof.
  intros Hw Hn Hv. pose proof Hn as Hn'. unfold name_okb in Hn'.
  apply andb_true_iff in Hn' as [Hn' Hl]. apply andb_true_iff in Hn' as [Hval Hc].
  destruct (wfb_parts s Hw) as [Hnd [Hf [Hr [Hh Hp]]]].
  unfold set_ref. rewrite Hval. cbn [negb].
  destruct (open_create (fs s) n false) as [f1|] eqn:Ho; [|now left].
  destruct (open_keep _ _ _ Ho) as [Ef Ed].
  set (s1 := {| fs := f1; packed := packed s |}).
  (* the value the check reads is the map's *)
  assert (Hr1 : (match (match lookup n (files f1) with Some c => c | None => [] end) with
                 | [] => packed_ref s1 n
                 | _ => Ok (ref_from_strings (trim_space (match lookup n (files f1) with Some c => c | None => [] end)))
                 end) = spec_get (abs s) n).
  { unfold spec_get, abs, loose_val. destruct (lookup n (files (fs s))) as [c|] eqn:EL.
    - destruct (file_ok_lookup s n c Hf Hl EL) as [c0 [c' ->]]. rewrite Ef, EL. reflexivity.
    - rewrite Ef, lookup_set_same. unfold s1. rewrite packed_ref_val by assumption.
      unfold packed_val, packed_lines. cbn [packed]. reflexivity. }
  (* the state after a failed check has the same abstraction *)
  assert (Habs1 : abs_eq (abs s1) (abs s)).
  { intros x. apply abs_same_packed; [reflexivity|]. unfold loose_val, s1. cbn [fs]. rewrite Ef.
    destruct (lookup n (files (fs s))) as [c|] eqn:EL; [reflexivity|].
    destruct (beqb x n) eqn:E.
    - apply beqb_eq in E. subst x. now rewrite lookup_set_same, EL.
    - now rewrite lookup_set_other. }
  assert (Hw1 : is_file (fs s) n = true -> wfb s1 = true).
  { unfold is_file. destruct (lookup n (files (fs s))) eqn:EL; [|discriminate]. intros _.
    unfold wfb, s1, is_file, is_dir. cbn [fs packed]. rewrite Ef, Ed, Hnd, Hf, Hp.
    unfold is_file in Hr. rewrite Hr. rewrite add_dirs_in. unfold is_dir in Hh. rewrite Hh.
    now rewrite valid_parent_not_head. }
  fold s1. rewrite Hr1. unfold spec_get, spec_set.
  destruct (abs s n) as [cv|] eqn:EA.
  - destruct (hash_eqb (hash_of cv) (hash_of o)).
    + right. cbn [fst snd]. split; [reflexivity|]. split.
      * destruct (write_after_open _ _ _ _ (ref_content v) Ho) as [Ef2 _].
        intros x. unfold m_set. destruct (beqb x n) eqn:E.
        -- apply beqb_eq in E. subst x. unfold abs, loose_val. cbn [fs]. rewrite Ef2, lookup_set_same.
           destruct (parse_written v Hv) as [c0 [c' [Ec P]]]. now rewrite Ec, P.
        -- apply abs_same_packed; [reflexivity|]. apply loose_val_files. cbn [fs]. rewrite Ef2.
           now apply lookup_set_other.
      * intros _. now apply (wfb_write s n v f1 false).
    + right. cbn [fst snd]. split; [reflexivity|]. split; [exact Habs1|].
      intros [H|H]; [auto|discriminate].
  - right. cbn [fst snd]. split; [reflexivity|]. split; [exact Habs1|].
    intros [H|H]; [auto|discriminate].
Qed.

(* ---------------------------------------------------------------- lines of a CR-free file *)
Lemma split_in_nosep sep s : forall l, In l (split_on sep s) -> mem sep l = false.
Proof.
  induction s as [|c r IH]; intros l H.
  - destruct H as [<-|[]]. reflexivity.
  - cbn [split_on] in H. destruct (c =? sep) eqn:E.
    + destruct H as [<-|H]; [reflexivity|auto].
    + pose proof (split_nonempty sep r) as Hne. destruct (split_on sep r) as [|f fs] eqn:ES; [contradiction|].
      destruct H as [<-|H].
      * cbn [mem existsb]. rewrite N.eqb_sym, E. cbn [orb]. apply IH. now left.
      * apply IH. now right.
Qed.

Lemma split_in_sub sep s c : mem c s = false -> forall l, In l (split_on sep s) -> mem c l = false.
Proof.
  induction s as [|x r IH]; intros Hc l H.
  - destruct H as [<-|[]]. reflexivity.
  - cbn [mem existsb] in Hc. apply orb_false_iff in Hc as [Hx Hc].
    change (existsb (N.eqb c) r) with (mem c r) in Hc.
    cbn [split_on] in H. destruct (x =? sep) eqn:E.
    + destruct H as [<-|H]; [reflexivity|auto].
    + pose proof (split_nonempty sep r) as Hne. destruct (split_on sep r) as [|f fs] eqn:ES; [contradiction|].
      destruct H as [<-|H].
      * cbn [mem existsb]. rewrite Hx. cbn [orb]. apply IH; [assumption|now left].
      * apply IH; [assumption|now right].
Qed.

Lemma scan_lines_clean b : mem 13 b = false -> forallb line_clean (scan_lines b) = true.
Proof.
  intros H. apply forallb_forall. intros l Hl. unfold scan_lines in Hl.
  apply in_map_iff in Hl as [l0 [<- Hl0]].
  assert (Hin : In l0 (split_on 10 b)).
  { destruct (rev (split_on 10 b)) as [|[|x y] r] eqn:E; try assumption.
    apply in_rev. rewrite E. right. now apply in_rev in Hl0. }
  pose proof (split_in_nosep 10 b l0 Hin) as H10. pose proof (split_in_sub 10 b 13 H l0 Hin) as H13.
  rewrite strip_cr_id by assumption. unfold line_clean. now rewrite H10, H13.
Qed.

Lemma mem_unlines c ls : (c =? 10) = false -> forallb (fun l => negb (mem c l)) ls = true -> mem c (unlines ls) = false.
Proof.
  intros Hc. induction ls as [|l r IH]; intros H; [reflexivity|].
  cbn [forallb] in H. apply andb_true_iff in H as [Hl H]. apply negb_true_iff in Hl.
  unfold unlines. cbn [flat_map]. unfold mem. rewrite !existsb_app. fold (mem c l). rewrite Hl.
  cbn [existsb]. rewrite Hc. cbn [orb]. apply IH. assumption.
Qed.

Lemma packed_ok_unlines ls : forallb line_clean ls = true -> forallb line_okb ls = true ->
  packed_okb (Some (unlines ls)) = true.
Proof.
  intros Hc Ho. unfold packed_okb. rewrite scan_unlines, Ho by assumption.
  rewrite mem_unlines; [reflexivity|reflexivity|].
  apply forallb_forall. intros l Hl. eapply forallb_forall in Hc; eauto. unfold line_clean in Hc.
  now apply andb_true_iff in Hc as [_ Hc].
Qed.

Lemma forallb_incl {A} (f : A -> bool) l1 l2 : incl l1 l2 -> forallb f l2 = true -> forallb f l1 = true.
Proof. intros Hi H. apply forallb_forall. intros x Hx. eapply forallb_forall in H; eauto. Qed.

(* ---------------------------------------------------------------- RemoveRef *)
Lemma remove_ref_spec s n : wfb s = true -> name_okb n = true ->
  let (s', r) := remove_ref s n in
  (r = Er EFs /\ s' = s) \/
  (r = Ok tt /\ wfb s' = true /\ abs_eq (abs s') (m_del (abs s) n)).
Proof.
  intros Hw Hn. pose proof Hn as Hn'. unfold name_okb in Hn'.
  apply andb_true_iff in Hn' as [Hn' Hl]. apply andb_true_iff in Hn' as [Hval Hc].
  destruct (wfb_parts s Hw) as [Hnd [Hf [Hr [Hh Hp]]]].
  unfold remove_ref. rewrite Hval. cbn [negb].
  (* the loose part: a file list f1 without n, same invariant *)
  set (al := match stat (fs s) n with
             | SFile _ => Ok {| files := del_file n (files (fs s)); dirs := dirs (fs s) |}
             | SDir => if dir_nonempty (fs s) n then Er EFs
                       else Ok {| files := files (fs s); dirs := filter (fun d => negb (beqb n d)) (dirs (fs s)) |}
             | SNoEnt => Ok (fs s)
             | SNotDir => Er EFs
             end).
  assert (Hal : al = Er EFs \/ exists f1, al = Ok f1 /\
            lookup n (files f1) = None /\
            (forall x, beqb x n = false -> lookup x (files f1) = lookup x (files (fs s))) /\
            nodup_keys (files f1) = true /\ forallb file_okb (files f1) = true /\
            is_file f1 refsDir = false /\ is_dir f1 HEADp = false).
  { unfold al, stat. destruct (lookup n (files (fs s))) as [c|] eqn:EL.
    - right. eexists. split; [reflexivity|]. cbn [files dirs]. repeat split.
      + apply lookup_del_same.
      + intros x Hx. now apply lookup_del_other.
      + now apply nodup_filter.
      + now apply forallb_filter'.
      + unfold is_file. cbn [files]. rewrite lookup_del_other; [exact Hr|].
        rewrite beqb_sym. rewrite beqb_sym. now apply valid_not_refs.
      + exact Hh.
    - destruct (is_dir (fs s) n).
      + destruct (dir_nonempty (fs s) n); [now left|]. right. eexists. split; [reflexivity|].
        cbn [files dirs]. repeat split; auto.
        unfold is_dir. cbn [dirs]. apply existsb_filter. exact Hh.
      + destruct (file_above (fs s) n); [now left|]. right. exists (fs s). repeat split; auto. }
  destruct Hal as [->|[f1 [-> [Hk1 [Hk2 [Hnd1 [Hf1 [Hr1 Hh1]]]]]]]]; [now left|].
  assert (Hloose : forall p x, loose_val {| fs := f1; packed := p |} x = if beqb x n then None else loose_val s x).
  { intros p x. unfold loose_val. cbn [fs]. destruct (beqb x n) eqn:E.
    - apply beqb_eq in E. subst x. now rewrite Hk1.
    - now rewrite Hk2. }
  pose proof (packed_ok_parse s Hp) as Hap. unfold packed_lines in Hap.
  destruct (packed s) as [b|] eqn:EP.
  - assert (Hcr : mem 13 b = false).
    { cbn in Hp. apply andb_true_iff in Hp as [Hp' _]. now apply negb_true_iff. }
    assert (Hlo : forallb line_okb (scan_lines b) = true).
    { cbn in Hp. now apply andb_true_iff in Hp as [_ Hp']. }
    destruct (drop_lines_spec n _ Hap false) as [kept [found [-> [Hpk [Hi [Hfk Hnf]]]]]].
    destruct found.
    + right. split; [reflexivity|]. split.
      * unfold wfb. cbn [fs packed]. rewrite Hnd1, Hf1, Hr1, Hh1. cbn [negb andb].
        apply packed_ok_unlines; eapply forallb_incl; eauto. now apply scan_lines_clean.
      * intros x. unfold abs, m_del. rewrite Hloose. unfold packed_val, packed_lines. cbn [packed].
        rewrite scan_unlines by (eapply forallb_incl; eauto; now apply scan_lines_clean).
        rewrite Hfk, ?EP. destruct (beqb x n); reflexivity.
    + right. split; [reflexivity|]. split.
      * unfold wfb. cbn [fs packed]. rewrite Hnd1, Hf1, Hr1, Hh1. cbn [negb andb]. exact Hp.
      * intros x. unfold abs, m_del. rewrite Hloose. unfold packed_val, packed_lines. cbn [packed]. rewrite ?EP.
        destruct (beqb x n) eqn:E; [|reflexivity]. apply beqb_eq in E. subst x.
        destruct (Hnf eq_refl) as [Ek|Hn0].
        -- specialize (Hfk n). rewrite beqb_refl, Ek in Hfk. now rewrite Hfk.
        -- now rewrite Hn0.
  - right. split; [reflexivity|]. split.
    + unfold wfb. cbn [fs packed]. now rewrite Hnd1, Hf1, Hr1, Hh1.
    + intros x. unfold abs, m_del. rewrite Hloose. unfold packed_val, packed_lines. cbn [packed]. rewrite ?EP.
      destruct (beqb x n); reflexivity.
Qed.
