(* Proofs/C52.v — reflog line codec: round trip, git reads go-git's lines,
   go-git reads git's lines, message normalisation = copy_reflog_msg. *)
From Coq Require Import List NArith ZArith Bool Lia ZifyBool ZifyNat ZifyN.
From GoGit Require Import Base.Out Model.Reflog Spec.ReflogGit Proofs.C52Lists.
Import ListNotations.
Local Open Scope N_scope.

Ltac norm := repeat (rewrite <- app_assoc || (progress (cbn [app]))).

(* ================================================================ messages *)
(* a lazy single-pass machine both sides are compared with: a separating SP is
   emitted only when the next word starts *)
Fixpoint lazy_go (s : bytes) (inword emitted : bool) : bytes :=
  match s with
  | [] => []
  | c :: r =>
    if is_gitspace c then lazy_go r false emitted
    else (if inword then [c] else if emitted then [SP; c] else [c]) ++ lazy_go r true true
  end.

Lemma fields_lazy_flat s :
  (forall cur, cur <> [] ->
     flat_map (fun y => SP :: y) (fields_go gitspace_len s O cur) = SP :: rev cur ++ lazy_go s true true) /\
  flat_map (fun y => SP :: y) (fields_go gitspace_len s O []) = lazy_go s false true.
Proof.
  induction s as [|c r [IH1 IH2]].
  - split; [|reflexivity]. intros cur Hc. cbn [fields_go lazy_go]. destruct cur; [easy|].
    cbn [flush flat_map]. now rewrite !app_nil_r.
  - split.
    + intros cur Hc. cbn [fields_go lazy_go gitspace_len]. destruct (is_gitspace c) eqn:E.
      * destruct cur as [|x cur']; [easy|]. cbn [flush flat_map]. rewrite IH2. now norm.
      * rewrite IH1 by easy. cbn [rev]. now norm.
    + cbn [fields_go lazy_go gitspace_len]. destruct (is_gitspace c) eqn:E.
      * cbn [flush]. apply IH2.
      * rewrite IH1 by easy. reflexivity.
Qed.

Lemma fields_lazy_join s :
  (forall cur, cur <> [] -> join_sp (fields_go gitspace_len s O cur) = rev cur ++ lazy_go s true true) /\
  join_sp (fields_go gitspace_len s O []) = lazy_go s false false.
Proof.
  induction s as [|c r [IH1 IH2]].
  - split; [|reflexivity]. intros cur Hc. cbn [fields_go lazy_go]. destruct cur; [easy|].
    cbn [flush join_sp flat_map]. reflexivity.
  - split.
    + intros cur Hc. cbn [fields_go lazy_go gitspace_len]. destruct (is_gitspace c) eqn:E.
      * destruct cur as [|x cur']; [easy|]. cbn [flush join_sp].
        now rewrite (proj2 (fields_lazy_flat r)).
      * rewrite IH1 by easy. cbn [rev]. now norm.
    + cbn [fields_go lazy_go gitspace_len]. destruct (is_gitspace c) eqn:E.
      * cbn [flush]. apply IH2.
      * rewrite IH1 by easy. reflexivity.
Qed.

Lemma normalize_lazy m : normalize m = lazy_go m false false.
Proof. apply (proj2 (fields_lazy_join m)). Qed.

Lemma git_isspace_eq c : git_isspace c = is_gitspace c.
Proof. reflexivity. Qed.

Definition ends_ns (x : bytes) : bool :=
  match rev x with d :: _ => negb (is_gitspace d) | [] => false end.

Lemma ends_ns_snoc x c : ends_ns (x ++ [c]) = negb (is_gitspace c).
Proof. unfold ends_ns. now rewrite rev_app_distr. Qed.

Lemma rtrim_ends x : ends_ns x = true -> rtrim x = x.
Proof.
  unfold ends_ns, rtrim. destruct (rev x) as [|d t] eqn:E; [easy|]. intros H.
  cbn [drop_spaces]. rewrite git_isspace_eq. destruct (is_gitspace d); [easy|].
  now rewrite <- E, rev_involutive.
Qed.

Lemma rtrim_snoc_sp x c : is_gitspace c = true -> rtrim (x ++ [c]) = rtrim x.
Proof.
  intros H. unfold rtrim. rewrite rev_app_distr. cbn [rev app drop_spaces].
  now rewrite git_isspace_eq, H.
Qed.

Lemma copy_lazy s :
  rtrim (copy_msg_go s true) = lazy_go s false false /\
  (forall x, ends_ns x = true -> rtrim (x ++ copy_msg_go s false) = x ++ lazy_go s true true) /\
  (forall x, ends_ns x = true -> rtrim (x ++ SP :: copy_msg_go s true) = x ++ lazy_go s false true).
Proof.
  induction s as [|c r (IH0 & IH1 & IH2)].
  - repeat split.
    + intros x Hx. cbn [copy_msg_go lazy_go]. rewrite !app_nil_r. now apply rtrim_ends.
    + intros x Hx. cbn [copy_msg_go lazy_go]. rewrite app_nil_r.
      change (x ++ [SP]) with (x ++ [SP]). rewrite rtrim_snoc_sp by reflexivity. now apply rtrim_ends.
  - cbn [copy_msg_go lazy_go]. rewrite git_isspace_eq. destruct (is_gitspace c) eqn:E.
    + repeat split.
      * apply IH0.
      * intros x Hx. now apply IH2.
      * intros x Hx. now apply IH2.
    + repeat split.
      * specialize (IH1 [c]). cbn [app] in IH1. apply IH1. unfold ends_ns. cbn. now rewrite E.
      * intros x Hx. specialize (IH1 (x ++ [c])). rewrite ends_ns_snoc, E in IH1.
        specialize (IH1 eq_refl). revert IH1. now norm.
      * intros x Hx. specialize (IH1 (x ++ [SP; c])).
        replace (x ++ [SP; c]) with ((x ++ [SP]) ++ [c]) in IH1 by now norm.
        rewrite ends_ns_snoc, E in IH1. specialize (IH1 eq_refl). revert IH1. now norm.
Qed.

Lemma normalize_is_copy_reflog_msg m : normalize m = git_copy_reflog_msg m.
Proof. rewrite normalize_lazy. unfold git_copy_reflog_msg. symmetry. apply copy_lazy. Qed.

(* normalised messages contain no LF (nor any other git space but SP) *)
Lemma lazy_lacks c s iw em : is_gitspace c = true -> (c =? SP) = false -> lacks c (lazy_go s iw em) = true.
Proof.
  intros Hc Hsp. revert iw em. induction s as [|x r IH]; intros iw em; cbn [lazy_go]; [reflexivity|].
  destruct (is_gitspace x) eqn:E; [apply IH|].
  rewrite lacks_app, IH, andb_true_r.
  assert (Hx : (x =? c) = false).
  { destruct (x =? c) eqn:F; [|easy]. apply N.eqb_eq in F. subst. congruence. }
  assert (Hs : (SP =? c) = false) by (rewrite N.eqb_sym; exact Hsp).
  destruct iw; [|destruct em]; cbn [lacks forallb]; rewrite ?Hx, ?Hs; reflexivity.
Qed.

Lemma normalize_lacks_LF m : lacks LF (normalize m) = true.
Proof. rewrite normalize_lazy. now apply lazy_lacks. Qed.

(* ================================================================ well-formedness *)
Definition hash_ok (h : bytes) : bool :=
  bytes_ok h && (Nat.eqb (List.length h) 20 || Nat.eqb (List.length h) 32).
Definition hash20 (h : bytes) : bool := bytes_ok h && Nat.eqb (List.length h) 20.
Definition ident_clean (s : bytes) : bool := lacks LT s && lacks GT s && lacks LF s.
Definition name_trim (n : bytes) : bool :=
  match n with [] => true | c :: _ => negb (is_gitspace c) end &&
  match rev n with [] => true | d :: _ => negb (is_gitspace d) end.
Definition zone_ok (off : Z) : bool := (Z.abs off <? 360000)%Z && (off mod 60 =? 0)%Z.

(* entries go-git can write and read back *)
Definition wf (e : entry) : bool :=
  hash_ok (e_old e) && hash_ok (e_new e) &&
  ident_clean (e_name e) && name_trim (e_name e) && ident_clean (e_email e) &&
  (- 2 ^ 63 <=? e_secs e)%Z && (e_secs e <? 2 ^ 63)%Z && zone_ok (e_off e).
(* ... that git can also list: SHA-1 ids, a positive time *)
Definition wf_git (e : entry) : bool :=
  wf e && hash20 (e_old e) && hash20 (e_new e) && (0 <? e_secs e)%Z.
(* entries as git writes them (fmt_ident output, "%+05d" zone) *)
Definition wf_gitent (g : gitent) : bool :=
  hash20 (g_old g) && hash20 (g_new g) &&
  ident_clean (g_name g) && name_trim (g_name g) && ident_clean (g_email g) &&
  (0 <? g_time g) && (g_time g <? 2 ^ 63) && (Z.abs (g_tz g) <? 10000)%Z && lacks LF (g_msg g).

Definition normalise (e : entry) : entry :=
  mkEntry (e_old e) (e_new e) (e_name e) (e_email e) (e_secs e) (e_off e) (normalize (e_msg e)).

(* ================================================================ line shape *)
Definition tabmsg (m : bytes) : bytes := match m with [] => [] | _ => TAB :: m end.
Definition sigtxt (name email ts tz : bytes) : bytes :=
  name ++ SP :: LT :: email ++ GT :: SP :: ts ++ SP :: tz.
Definition linetxt (old new name email ts tz msg : bytes) : bytes :=
  hex_enc old ++ SP :: hex_enc new ++ SP :: sigtxt name email ts tz ++ tabmsg msg.

Lemma encode_shape e :
  encode e = linetxt (e_old e) (e_new e) (e_name e) (e_email e) (dec_Z (e_secs e)) (zone_text (e_off e))
                     (normalize (e_msg e)) ++ [LF].
Proof.
  unfold encode, linetxt, sigtxt, tabmsg.
  destruct (normalize (e_msg e)); rewrite ?app_nil_r; norm; rewrite ?app_nil_r; norm; reflexivity.
Qed.

Lemma git_write_shape g :
  git_write g = linetxt (g_old g) (g_new g) (g_name g) (g_email g) (dec_N (g_time g)) (tz_text (g_tz g)) (g_msg g) ++ [LF].
Proof.
  unfold git_write, linetxt, sigtxt, tabmsg.
  destruct (g_msg g); rewrite ?app_nil_r; norm; rewrite ?app_nil_r; norm; reflexivity.
Qed.

(* bytes of the time / zone texts *)
Definition plain (c : N) : bool := is_digit c || (c =? PLUS) || (c =? MINUS).

Lemma plain_props c : plain c = true ->
  (forall r, uspace_len (c :: r) = O) /\ (c =? SP) = false /\ (c =? TAB) = false /\ (c =? LF) = false
  /\ (c =? LT) = false /\ (c =? GT) = false.
Proof.
  unfold plain, is_digit, PLUS, MINUS, SP, TAB, LF, LT, GT. intros H. split; [|repeat split; lia].
  intros r. unfold uspace_len, is_ascii_space.
  assert (E1 : ((c =? 9) || (c =? 10) || (c =? 11) || (c =? 12) || (c =? 13) || (c =? 32)) = false) by lia.
  rewrite E1.
  assert (E2 : (c =? 194) = false) by lia. assert (E3 : (c =? 225) = false) by lia.
  assert (E4 : (c =? 226) = false) by lia. assert (E5 : (c =? 227) = false) by lia.
  now rewrite E2, E3, E4, E5.
Qed.

Lemma plain_lacks c s : plain c = false -> forallb plain s = true -> lacks c s = true.
Proof.
  intros Hc. apply forallb_impl. intros x Hx.
  destruct (x =? c) eqn:E; [|easy]. apply N.eqb_eq in E. subst. congruence.
Qed.

Lemma digits_plain s : all_digits s = true -> forallb plain s = true.
Proof. apply forallb_impl. intros x Hx. unfold plain. now rewrite Hx. Qed.

Lemma fields_plain w r cur :
  forallb plain w = true ->
  fields_go uspace_len (w ++ r) O cur = fields_go uspace_len r O (rev w ++ cur).
Proof.
  revert cur; induction w as [|c w IH]; intros cur H; [reflexivity|].
  cbn [forallb] in H. apply andb_true_iff in H as [Hc Hw].
  cbn [app fields_go]. rewrite (proj1 (plain_props c Hc)). rewrite IH by easy.
  cbn [rev]. now norm.
Qed.

Lemma fields_two a b :
  forallb plain a = true -> forallb plain b = true -> a <> [] -> b <> [] ->
  fields uspace_len (a ++ SP :: b) = [a; b].
Proof.
  intros Ha Hb Na Nb. unfold fields. rewrite fields_plain by easy. rewrite app_nil_r.
  cbn [fields_go]. change (uspace_len (SP :: b)) with 1%nat. cbv iota.
  assert (Ra : rev a <> []).
  { intros E. apply Na. apply (f_equal (@rev N)) in E. now rewrite rev_involutive in E. }
  destruct (rev a) as [|x t] eqn:E; [easy|]. cbn [flush]. rewrite <- E, rev_involutive.
  f_equal. rewrite <- (app_nil_r b) at 1. rewrite fields_plain by easy. rewrite app_nil_r.
  cbn [fields_go].
  assert (Rb : rev b <> []).
  { intros F. apply Nb. apply (f_equal (@rev N)) in F. now rewrite rev_involutive in F. }
  destruct (rev b) as [|y u] eqn:F; [easy|]. cbn [flush]. now rewrite <- F, rev_involutive.
Qed.

Lemma name_trim_spec n : name_trim n = true -> trim (n ++ [SP]) = n /\ rtrim (n ++ [SP]) = n.
Proof.
  unfold name_trim. intros H. apply andb_true_iff in H as [H1 H2].
  destruct n as [|c n'].
  - split; vm_compute; reflexivity.
  - split.
    + unfold trim. cbn [app trim_left]. destruct (is_gitspace c); [discriminate|].
      change (c :: n' ++ [SP]) with ((c :: n') ++ [SP]). rewrite rev_app_distr.
      cbn [rev app trim_left]. change (is_gitspace SP) with true. cbv iota.
      destruct (rev n' ++ [c]) as [|d t] eqn:E.
      { now apply app_eq_nil in E as [_ E]. }
      cbn [rev] in H2. rewrite E in H2. cbn [trim_left]. destruct (is_gitspace d); [discriminate|].
      rewrite <- E. change (rev n' ++ [c]) with (rev (c :: n')). now rewrite rev_involutive.
    + rewrite rtrim_snoc_sp by reflexivity. apply rtrim_ends. unfold ends_ns.
      destruct (rev (c :: n')) as [|d t] eqn:E; [|exact H2].
      cbn [rev] in E. now apply app_eq_nil in E as [_ E].
Qed.

Lemma hash_parse h : hash_ok h = true -> parse_hash (hex_enc h) = Some h.
Proof.
  unfold hash_ok, parse_hash. intros H. apply andb_true_iff in H as [Hb Hl].
  rewrite hex_enc_length.
  assert (E : (Nat.eqb (2 * List.length h) 40 || Nat.eqb (2 * List.length h) 64) = true) by lia.
  rewrite E. now apply hex_dec_enc.
Qed.

Lemma hex_lacks c h : is_lowhex c = false -> bytes_ok h = true -> lacks c (hex_enc h) = true.
Proof. intros Hc Hh. apply lowhex_lacks; [easy|]. now apply hex_enc_lowhex. Qed.

Lemma nat_L1 a b : Nat.ltb (a + S (S b)) (a + 1) = false.
Proof. apply Nat.ltb_ge. lia. Qed.
Lemma nat_L2 (ts r : bytes) : ts <> [] -> Nat.leb (S (List.length (ts ++ r))) 1 = false.
Proof. intros H. destruct ts; [easy|]. reflexivity. Qed.
Lemma nat_L3 a b : (a + S (S b) - (a + 1) - 1 = b + 0)%nat.
Proof. lia. Qed.

(* ---------------------------------------------------------------- go-git reads a line of this shape *)
Lemma decode_shape old new name email ts tz msg secs off :
  hash_ok old = true -> hash_ok new = true ->
  ident_clean name = true -> name_trim name = true -> ident_clean email = true ->
  forallb plain ts = true -> forallb plain tz = true -> ts <> [] -> tz <> [] ->
  parse_int64 ts = Some secs -> decode_tz tz = Some off ->
  decode_line (linetxt old new name email ts tz msg) = Some (mkEntry old new name email secs off msg).
Proof.
  intros Ho Hn Hname Htrim Hemail Pts Ptz Nts Ntz Hsecs Hoff.
  pose proof Ho as Ho'. pose proof Hn as Hn'.
  unfold hash_ok in Ho', Hn'. apply andb_true_iff in Ho' as [Hob _]. apply andb_true_iff in Hn' as [Hnb _].
  unfold ident_clean in Hname, Hemail.
  apply andb_true_iff in Hname as [Hname HnLF]. apply andb_true_iff in Hname as [HnLT HnGT].
  apply andb_true_iff in Hemail as [Hemail HeLF]. apply andb_true_iff in Hemail as [HeLT HeGT].
  unfold decode_line, linetxt.
  rewrite (cut_app SP) by (apply hex_lacks; easy). rewrite hash_parse by easy.
  rewrite (cut_app SP) by (apply hex_lacks; easy). rewrite hash_parse by easy.
  assert (LTts : forall c, plain c = false -> lacks c (SP :: ts ++ SP :: tz) = (negb (SP =? c))).
  { intros c Hc. rewrite lacks_cons, lacks_app, lacks_cons.
    rewrite (plain_lacks c ts), (plain_lacks c tz) by easy. now destruct (SP =? c). }
  (* the signature / message split *)
  assert (SPLIT : split_msg (sigtxt name email ts tz ++ tabmsg msg) = (sigtxt name email ts tz, msg)).
  { unfold split_msg.
    replace (sigtxt name email ts tz ++ tabmsg msg)
      with ((name ++ SP :: LT :: email) ++ GT :: (SP :: ts ++ SP :: tz) ++ tabmsg msg)
      by (unfold sigtxt; now norm).
    rewrite (cut_app GT).
    2:{ rewrite lacks_app, HnGT. cbn [lacks forallb]. fold (lacks GT email). now rewrite HeGT. }
    destruct msg as [|m0 msg'].
    - cbn [tabmsg]. rewrite !app_nil_r. rewrite cut_none by (rewrite LTts; reflexivity).
      f_equal. unfold sigtxt. now norm.
    - cbn [tabmsg]. rewrite (cut_app TAB) by (rewrite LTts; reflexivity).
      f_equal. unfold sigtxt. now norm. }
  rewrite SPLIT. cbn [fst snd]. unfold decode_sig.
  replace (sigtxt name email ts tz) with ((name ++ [SP]) ++ LT :: email ++ GT :: SP :: ts ++ SP :: tz) at 1
    by (unfold sigtxt; now norm).
  rewrite cut_last_app.
  2:{ rewrite lacks_app, HeLT. cbn [andb]. rewrite lacks_cons. change (GT =? LT) with false. cbn [negb andb].
      apply LTts. reflexivity. }
  replace (sigtxt name email ts tz) with ((name ++ SP :: LT :: email) ++ GT :: SP :: ts ++ SP :: tz)
    by (unfold sigtxt; now norm).
  rewrite cut_last_app by (apply LTts; reflexivity).
  rewrite !app_length; cbn [List.length].
  rewrite nat_L1, (nat_L2 ts (SP :: tz) Nts).
  cbn [skipn]. unfold decode_timestamp. rewrite fields_two by easy. rewrite Hsecs, Hoff.
  rewrite (proj1 (name_trim_spec name Htrim)).
  rewrite nat_L3.
  rewrite firstn_app_2. cbn [firstn]. now rewrite app_nil_r.
Qed.

(* ---------------------------------------------------------------- two / four digit texts *)
Definition dig2 (n : N) : bytes := [48 + n / 10; 48 + n mod 10].
Definition dig4 (v : N) : bytes := dig2 (v / 100) ++ dig2 (v mod 100).
Definition below100 (P : N -> bool) : bool := forallb P (map N.of_nat (seq 0 100)).

Lemma pad2_dig2 n : n < 100 -> pad2 n = dig2 n.
Proof.
  intros H. apply bytes_eqb_eq.
  apply (forall_below (fun n => bytes_eqb (pad2 n) (dig2 n)) 100); [vm_compute; reflexivity|exact H].
Qed.

Lemma atoi2_dig2 n : n < 100 -> atoi2 (48 + n / 10) (48 + n mod 10) = Some (Z.of_N n).
Proof.
  intros H.
  pose (P := fun n => match atoi2 (48 + n / 10) (48 + n mod 10) with Some z => (z =? Z.of_N n)%Z | None => false end).
  assert (K : P n = true) by (apply (forall_below P 100); [vm_compute; reflexivity|exact H]).
  unfold P in K. destruct (atoi2 _ _); [|discriminate]. f_equal. lia.
Qed.

Lemma dig2_digits n : n < 100 -> all_digits (dig2 n) = true /\ digits_val (dig2 n) 0 = Some n.
Proof.
  intros H.
  pose (P := fun n => all_digits (dig2 n) && match digits_val (dig2 n) 0 with Some v => v =? n | None => false end).
  assert (K : P n = true) by (apply (forall_below P 100); [vm_compute; reflexivity|exact H]).
  unfold P in K. apply andb_true_iff in K as [K1 K2]. split; [easy|].
  destruct (digits_val _ _); [|discriminate]. f_equal. lia.
Qed.

Lemma tz_pad_dig4 h m : h < 100 -> m < 100 ->
  (let d := dec_N (h * 100 + m) in repeat 48 (4 - List.length d) ++ d) = dig2 h ++ dig2 m.
Proof.
  intros Hh Hm. apply bytes_eqb_eq.
  pose (P := fun h => below100 (fun m => bytes_eqb (let d := dec_N (h * 100 + m) in repeat 48 (4 - List.length d) ++ d)
                                              (dig2 h ++ dig2 m))).
  assert (K : P h = true) by (apply (forall_below P 100); [vm_compute; reflexivity|exact Hh]).
  unfold P, below100 in K. now apply (forall_below _ 100 K m).
Qed.

Lemma dig4_split v : v < 10000 -> v / 100 < 100 /\ v mod 100 < 100 /\ v = v / 100 * 100 + v mod 100.
Proof.
  intros H. repeat split.
  - apply N.div_lt_upper_bound; lia.
  - apply N.mod_lt; lia.
  - pose proof (N.div_mod v 100). lia.
Qed.

Lemma dig4_digits v : v < 10000 -> all_digits (dig4 v) = true /\ digits_val (dig4 v) 0 = Some v.
Proof.
  intros H. destruct (dig4_split v H) as (A & B & C).
  destruct (dig2_digits _ A) as [A1 A2]. destruct (dig2_digits _ B) as [B1 B2].
  unfold dig4. split.
  - unfold all_digits in *. now rewrite forallb_app, A1, B1.
  - rewrite digits_val_app, A2.
    (* digits_val is linear in the accumulator on two digits *)
    unfold dig2 in *. cbn [digits_val] in *.
    destruct (is_digit (48 + v mod 100 / 10)); [|discriminate].
    destruct (is_digit (48 + v mod 100 mod 10)); [|discriminate].
    injection B2 as B2. f_equal. lia.
Qed.

Lemma decode_tz_dig4 sg v :
  (sg =? PLUS) || (sg =? MINUS) = true -> v < 10000 ->
  decode_tz (sg :: dig4 v) =
  Some (let o := (Z.of_N (v / 100) * 3600 + Z.of_N (v mod 100) * 60)%Z in if sg =? MINUS then (- o)%Z else o).
Proof.
  intros Hs Hv. destruct (dig4_split v Hv) as (A & B & _).
  unfold dig4, dig2. cbn [app decode_tz]. rewrite Hs.
  now rewrite (atoi2_dig2 _ A), (atoi2_dig2 _ B).
Qed.

Lemma dig4_plain sg v :
  (sg =? PLUS) || (sg =? MINUS) = true -> v < 10000 -> forallb plain (sg :: dig4 v) = true.
Proof.
  intros Hs Hv. cbn [forallb]. rewrite (digits_plain _ (proj1 (dig4_digits v Hv))).
  unfold plain. rewrite <- orb_assoc, Hs. now rewrite orb_true_r.
Qed.

Lemma hm_divmod h m : m < 100 -> (h * 100 + m) / 100 = h /\ (h * 100 + m) mod 100 = m.
Proof.
  intros H. split; symmetry.
  - apply (N.div_unique _ 100 h m); lia.
  - apply (N.mod_unique _ 100 h m); lia.
Qed.

(* go-git's zone text is sign + dig4 of the +hhmm number *)
Lemma zone_split off : zone_ok off = true ->
  let a := Z.to_N (Z.abs off) in
  a / 3600 < 100 /\ a mod 3600 / 60 < 60 /\ a = a / 3600 * 3600 + a mod 3600 / 60 * 60.
Proof.
  unfold zone_ok. intros H. cbv zeta. set (a := Z.to_N (Z.abs off)). apply andb_true_iff in H as [H1 H2].
  assert (Ha : a < 360000) by lia.
  assert (Hm : a mod 60 = 0).
  { subst a. destruct (Z.abs_spec off) as [[? ->]|[? ->]].
    - rewrite <- (Z2N.id off) in H2 by lia. zify. lia.
    - assert (E : (off mod 60 = 0)%Z) by lia.
      apply Z.mod_divide in E; [|lia]. destruct E as [k E]. subst off.
      replace (- (k * 60))%Z with ((- k) * 60)%Z by lia.
      rewrite Z2N.inj_mul by lia. change (Z.to_N 60) with 60. apply N.mod_mul. lia. }
  pose proof (N.div_mod a 3600 ltac:(lia)). pose proof (N.mod_lt a 3600 ltac:(lia)).
  pose proof (N.div_mod (a mod 3600) 60 ltac:(lia)). pose proof (N.mod_lt (a mod 3600) 60 ltac:(lia)).
  assert (Hmm : a mod 3600 mod 60 = a mod 60).
  { replace 3600 with (60 * 60) by reflexivity. rewrite N.mod_mul_r by lia.
    rewrite N.mul_comm, N.mod_add by lia. apply N.mod_mod. lia. }
  repeat split.
  - apply N.div_lt_upper_bound; lia.
  - apply N.div_lt_upper_bound; lia.
  - lia.
Qed.

Lemma zone_text_dig4 off : zone_ok off = true ->
  let a := Z.to_N (Z.abs off) in
  zone_text off = (if (off <? 0)%Z then MINUS else PLUS) :: dig4 (a / 3600 * 100 + a mod 3600 / 60).
Proof.
  intros H. cbv zeta. destruct (zone_split off H) as (A & B & C). set (a := Z.to_N (Z.abs off)) in *.
  unfold zone_text. fold a. rewrite pad2_dig2 by easy. rewrite pad2_dig2 by lia.
  unfold dig4. f_equal.
  destruct (hm_divmod (a / 3600) (a mod 3600 / 60) ltac:(lia)) as [E1 E2].
  now rewrite E1, E2.
Qed.

Lemma tz_text_dig4 tz : (Z.abs tz <? 10000)%Z = true ->
  tz_text tz = (if (tz <? 0)%Z then MINUS else PLUS) :: dig4 (Z.to_N (Z.abs tz)).
Proof.
  intros H. unfold tz_text. f_equal.
  set (v := Z.to_N (Z.abs tz)).
  assert (Hv : v < 10000) by lia.
  destruct (dig4_split _ Hv) as (A & B & C).
  pose proof (tz_pad_dig4 _ _ A B) as P. rewrite <- C in P. exact P.
Qed.

(* ================================================================ go-git round trip *)
Lemma wf_parts e : wf e = true ->
  hash_ok (e_old e) = true /\ hash_ok (e_new e) = true /\ ident_clean (e_name e) = true /\
  name_trim (e_name e) = true /\ ident_clean (e_email e) = true /\
  (- 2 ^ 63 <= e_secs e < 2 ^ 63)%Z /\ zone_ok (e_off e) = true.
Proof.
  unfold wf. rewrite !andb_true_iff. intros [[[[[[[? ?] ?] ?] ?] ?] ?] ?]. repeat split; try easy; lia.
Qed.

Lemma secs_text z : (- 2 ^ 63 <= z < 2 ^ 63)%Z ->
  forallb plain (dec_Z z) = true /\ dec_Z z <> [] /\ parse_int64 (dec_Z z) = Some z.
Proof.
  intros Hz. split; [|split; [|now apply parse_int64_dec]].
  - destruct z as [|p|p]; cbn [dec_Z].
    + reflexivity.
    + apply digits_plain, dec_N_spec.
    + cbn [forallb]. change (plain MINUS) with true. cbn [andb]. apply digits_plain, dec_N_spec.
  - destruct z as [|p|p]; cbn [dec_Z].
    + vm_compute. discriminate.
    + apply dec_N_spec.
    + discriminate.
Qed.

Lemma zone_text_facts off : zone_ok off = true ->
  forallb plain (zone_text off) = true /\ zone_text off <> [] /\ decode_tz (zone_text off) = Some off.
Proof.
  intros H. pose proof (zone_text_dig4 off H) as ZT. cbv zeta in ZT.
  destruct (zone_split off H) as (A & B & C). cbv zeta in A, B, C.
  set (a := Z.to_N (Z.abs off)) in *.
  assert (Hv : a / 3600 * 100 + a mod 3600 / 60 < 10000) by lia.
  assert (Hsg : ((if (off <? 0)%Z then MINUS else PLUS) =? PLUS) || ((if (off <? 0)%Z then MINUS else PLUS) =? MINUS) = true)
    by (destruct (off <? 0)%Z; reflexivity).
  rewrite ZT. split; [now apply dig4_plain|split; [easy|]].
  rewrite decode_tz_dig4 by easy. f_equal.
  destruct (hm_divmod (a / 3600) (a mod 3600 / 60) ltac:(lia)) as [E1 E2].
  rewrite E1, E2.
  assert (Ha : Z.of_N a = Z.abs off) by (subst a; lia). clearbody a. cbv zeta.
  destruct (off <? 0)%Z eqn:S; [change (MINUS =? MINUS) with true|change (PLUS =? MINUS) with false]; cbv iota; lia.
Qed.

Lemma wf_line e : wf e = true ->
  decode_line (linetxt (e_old e) (e_new e) (e_name e) (e_email e) (dec_Z (e_secs e)) (zone_text (e_off e))
                       (normalize (e_msg e))) = Some (normalise e).
Proof.
  intros H. destruct (wf_parts e H) as (P1 & P2 & P3 & P4 & P5 & P6 & P7).
  destruct (secs_text _ P6) as (S1 & S2 & S3). destruct (zone_text_facts _ P7) as (Z1 & Z2 & Z3).
  unfold normalise. now apply decode_shape.
Qed.

(* ---- file level: Decode splits at LF *)
Lemma decode_go_line l r cur :
  lacks LF l = true ->
  decode_go (l ++ LF :: r) cur =
  match rev l ++ cur with
  | [] => decode_go r []
  | c =>
    match decode_line (rev c) with
    | Some e => match decode_go r [] with Some k => Some (e :: k) | None => None end
    | None => None
    end
  end.
Proof.
  revert cur; induction l as [|x l IH]; intros cur H.
  - cbn [app decode_go]. change (LF =? LF) with true. cbv iota. destruct cur; reflexivity.
  - rewrite lacks_cons in H. apply andb_true_iff in H as [Hx Hl].
    cbn [app decode_go]. destruct (x =? LF); [discriminate|].
    rewrite IH by easy. cbn [rev]. now norm.
Qed.

Lemma linetxt_lacks_LF old new name email ts tz msg :
  bytes_ok old = true -> bytes_ok new = true -> lacks LF name = true -> lacks LF email = true ->
  forallb plain ts = true -> forallb plain tz = true -> lacks LF msg = true ->
  lacks LF (linetxt old new name email ts tz msg) = true /\ linetxt old new name email ts tz msg <> [].
Proof.
  intros. split.
  - unfold linetxt, sigtxt, tabmsg.
    repeat (rewrite ?lacks_app, ?lacks_cons).
    rewrite (hex_lacks LF old), (hex_lacks LF new), (plain_lacks LF ts), (plain_lacks LF tz) by easy.
    rewrite H1, H2. change (SP =? LF) with false. change (LT =? LF) with false. change (GT =? LF) with false.
    cbn [negb andb]. destruct msg; [reflexivity|]. rewrite lacks_cons. change (TAB =? LF) with false. exact H5.
  - unfold linetxt. destruct (hex_enc old); [|easy]. cbn [app]. easy.
Qed.

Lemma decode_file_step l r e :
  lacks LF l = true -> l <> [] -> decode_line l = Some e ->
  decode ((l ++ [LF]) ++ r) = match decode r with Some k => Some (e :: k) | None => None end.
Proof.
  intros Hl Nl Hd. unfold decode. norm. rewrite decode_go_line by easy. rewrite app_nil_r.
  assert (Rl : rev l <> []).
  { intros E. apply Nl. apply (f_equal (@rev N)) in E. now rewrite rev_involutive in E. }
  destruct (rev l) eqn:E; [easy|]. rewrite <- E, rev_involutive, Hd. reflexivity.
Qed.

Lemma hash_ok_bytes h : hash_ok h = true -> bytes_ok h = true.
Proof. unfold hash_ok. now intros [? _]%andb_true_iff. Qed.
Lemma ident_clean_LF s : ident_clean s = true -> lacks LF s = true.
Proof. unfold ident_clean. now intros [_ ?]%andb_true_iff. Qed.

Lemma wf_line_LF e : wf e = true ->
  lacks LF (linetxt (e_old e) (e_new e) (e_name e) (e_email e) (dec_Z (e_secs e)) (zone_text (e_off e))
                    (normalize (e_msg e))) = true /\
  linetxt (e_old e) (e_new e) (e_name e) (e_email e) (dec_Z (e_secs e)) (zone_text (e_off e))
          (normalize (e_msg e)) <> [].
Proof.
  intros H. destruct (wf_parts e H) as (P1 & P2 & P3 & P4 & P5 & P6 & P7).
  destruct (secs_text _ P6) as (S1 & S2 & S3). destruct (zone_text_facts _ P7) as (Z1 & Z2 & Z3).
  apply linetxt_lacks_LF; auto using hash_ok_bytes, ident_clean_LF, normalize_lacks_LF.
Qed.

Lemma roundtrip_file es :
  forallb wf es = true -> decode (concat (map encode es)) = Some (map normalise es).
Proof.
  induction es as [|e es IH]; intros H; [reflexivity|].
  cbn [forallb] in H. apply andb_true_iff in H as [He Hes].
  cbn [map concat]. rewrite encode_shape.
  destruct (wf_line_LF e He) as [L1 L2].
  rewrite (decode_file_step _ _ (normalise e)); [|easy|easy|now apply wf_line].
  now rewrite IH.
Qed.

Lemma roundtrip_one e : wf e = true -> decode (encode e) = Some [normalise e].
Proof.
  intros H. pose proof (roundtrip_file [e]) as R. cbn [forallb map concat] in R.
  rewrite app_nil_r, H in R. now apply R.
Qed.

(* ================================================================ git reads a line of this shape *)
Lemma take_digits_app d r acc v :
  digits_val d acc = Some v -> match r with c :: _ => is_digit c = false | [] => True end ->
  take_digits (d ++ r) acc = (v, r).
Proof.
  revert acc; induction d as [|c d IH]; intros acc Hd Hr.
  - cbn in Hd. injection Hd as <-. cbn [app]. destruct r as [|c r]; [reflexivity|].
    cbn [take_digits]. now rewrite Hr.
  - cbn [digits_val] in Hd. cbn [app take_digits]. destruct (is_digit c); [|discriminate]. now apply IH.
Qed.

Lemma firstn_skipn_hex h x : List.length h = 20%nat ->
  firstn 40 (hex_enc h ++ x) = hex_enc h /\ skipn 40 (hex_enc h ++ x) = x.
Proof.
  intros H. assert (L : List.length (hex_enc h) = 40%nat) by (rewrite hex_enc_length; lia).
  split.
  - rewrite <- L at 1. replace (List.length (hex_enc h)) with (List.length (hex_enc h) + 0)%nat by lia.
    rewrite firstn_app_2. cbn [firstn]. apply app_nil_r.
  - rewrite <- L. replace (List.length (hex_enc h)) with (List.length (hex_enc h) + 0)%nat at 1 by lia.
    rewrite skipn_app. rewrite skipn_all2 by lia. cbn [app].
    replace (List.length (hex_enc h) + 0 - List.length (hex_enc h))%nat with O by lia. reflexivity.
Qed.

Lemma parse_oid_hex_enc h x : hash20 h = true -> parse_oid_hex 40 (hex_enc h ++ x) = Some (h, x).
Proof.
  unfold hash20, parse_oid_hex. intros H. apply andb_true_iff in H as [Hb Hl].
  apply Nat.eqb_eq in Hl. destruct (firstn_skipn_hex h x Hl) as [-> ->].
  rewrite app_length, hex_enc_length, Hl.
  assert (E : Nat.ltb (2 * 20 + List.length x) 40 = false) by lia. rewrite E.
  now rewrite hex_dec_enc.
Qed.

Lemma git_parse_shape old new name email n sg v msg :
  hash20 old = true -> hash20 new = true ->
  ident_clean name = true -> name_trim name = true -> ident_clean email = true ->
  0 < n -> n < 2 ^ 64 -> (sg =? PLUS) || (sg =? MINUS) = true -> v < 10000 ->
  git_parse_line 40 (linetxt old new name email (dec_N n) (sg :: dig4 v) msg ++ [LF])
  = Some (mkGitent old new name email n (if sg =? MINUS then (- Z.of_N v)%Z else Z.of_N v) msg).
Proof.
  intros Ho Hn Hname Htrim Hemail Hn0 Hn64 Hsg Hv.
  unfold ident_clean in Hname, Hemail.
  apply andb_true_iff in Hname as [Hname HnLF]. apply andb_true_iff in Hname as [HnLT HnGT].
  apply andb_true_iff in Hemail as [Hemail HeLF]. apply andb_true_iff in Hemail as [HeLT HeGT].
  destruct (dec_N_spec n) as (D1 & D2 & D3).
  destruct (dig4_digits v Hv) as (V1 & V2).
  unfold git_parse_line. rewrite rev_app_distr. cbn [rev app]. change (LF =? LF) with true. cbn [negb].
  unfold linetxt. norm.
  rewrite parse_oid_hex_enc by easy. change (SP =? SP) with true. cbn [negb].
  rewrite parse_oid_hex_enc by easy. change (SP =? SP) with true. cbn [negb].
  unfold sigtxt. norm.
  replace (name ++ SP :: LT :: email ++ GT :: SP :: dec_N n ++ SP :: sg :: dig4 v ++ tabmsg msg ++ [LF])
    with ((name ++ SP :: LT :: email) ++ GT :: SP :: dec_N n ++ SP :: sg :: dig4 v ++ tabmsg msg ++ [LF]) by now norm.
  rewrite (cut_app GT).
  2:{ rewrite lacks_app, HnGT. cbn [lacks forallb]. fold (lacks GT email). now rewrite HeGT. }
  change (SP =? SP) with true. cbn [negb].
  (* strtoumax *)
  assert (TS : strtoumax10 (dec_N n ++ SP :: sg :: dig4 v ++ tabmsg msg ++ [LF])
               = (n, SP :: sg :: dig4 v ++ tabmsg msg ++ [LF])).
  { unfold strtoumax10. destruct (dec_N n) as [|c d] eqn:E; [easy|].
    cbn [all_digits forallb] in D1. apply andb_true_iff in D1 as [Dc Dd].
    destruct (digit_props c Dc) as (P1 & P2 & P3 & P4 & P5 & P6 & P7 & P8 & P9 & P10).
    cbn [app skip_c_spaces].
    assert (CS : c_isspace c = false) by (unfold c_isspace; unfold is_digit in Dc; lia).
    rewrite CS, P9, P8, Dc.
    change (c :: d ++ SP :: sg :: dig4 v ++ tabmsg msg ++ [LF]) with ((c :: d) ++ SP :: sg :: dig4 v ++ tabmsg msg ++ [LF]).
    rewrite (take_digits_app _ _ 0 n D2) by reflexivity.
    assert (E64 : (2 ^ 64 <=? n) = false) by lia. now rewrite E64. }
  rewrite TS. assert (E0 : (n =? 0) = false) by lia. rewrite E0.
  unfold dig4 at 1. unfold dig2. cbn [app].
  change (SP =? SP) with true. rewrite Hsg. cbn [andb].
  destruct (dig4_split v Hv) as (A & B & _).
  assert (G : forall k, k < 100 -> is_digit (48 + k / 10) = true /\ is_digit (48 + k mod 10) = true).
  { intros k Hk. assert (k / 10 < 10) by (apply N.div_lt_upper_bound; lia).
    assert (k mod 10 < 10) by (apply N.mod_lt; lia). unfold is_digit. lia. }
  destruct (G _ A) as [-> ->]. destruct (G _ B) as [-> ->]. cbn [andb].
  (* zone number *)
  assert (TZ : strtol_int (sg :: 48 + v / 100 / 10 :: 48 + v / 100 mod 10 :: 48 + v mod 100 / 10 :: 48 + v mod 100 mod 10 :: tabmsg msg ++ [LF])
               = (if sg =? MINUS then (- Z.of_N v)%Z else Z.of_N v)).
  { unfold strtol_int.
    change (48 + v / 100 / 10 :: 48 + v / 100 mod 10 :: 48 + v mod 100 / 10 :: 48 + v mod 100 mod 10 :: tabmsg msg ++ [LF])
      with (dig4 v ++ tabmsg msg ++ [LF]).
    rewrite (take_digits_app _ _ 0 v V2) by (destruct msg; reflexivity).
    destruct (sg =? MINUS).
    - rewrite Z.max_l by lia. rewrite Z.mod_small by lia. lia.
    - rewrite Z.min_l by lia. rewrite Z.mod_small by lia. lia. }
  rewrite TZ.
  (* identity *)
  assert (ID : git_ident ((name ++ SP :: LT :: email) ++ [GT]) = (name, email)).
  { unfold git_ident.
    replace ((name ++ SP :: LT :: email) ++ [GT]) with ((name ++ [SP]) ++ LT :: email ++ [GT]) by now norm.
    rewrite (cut_app LT) by (rewrite lacks_app, HnLT; reflexivity).
    rewrite (cut_app GT) by easy. now rewrite (proj2 (name_trim_spec name Htrim)). }
  rewrite ID. f_equal. f_equal.
  destruct msg as [|m0 msg']; cbn [tabmsg app].
  - reflexivity.
  - change (TAB =? TAB) with true. cbv iota.
    change (m0 :: msg' ++ [LF]) with ((m0 :: msg') ++ [LF]). apply removelast_last.
Qed.

(* ---- file level for git: pieces ending in LF *)
Lemma git_read_go_line l r cur :
  lacks LF l = true ->
  git_read_go 40 (l ++ LF :: r) cur =
  match git_parse_line 40 (rev cur ++ l ++ [LF]) with
  | Some g => g :: git_read_go 40 r []
  | None => git_read_go 40 r []
  end.
Proof.
  revert cur; induction l as [|x l IH]; intros cur H.
  - cbn [app git_read_go]. change (LF =? LF) with true. cbv iota. cbn [rev]. reflexivity.
  - rewrite lacks_cons in H. apply andb_true_iff in H as [Hx Hl].
    cbn [app git_read_go]. destruct (x =? LF); [discriminate|].
    rewrite IH by easy. cbn [rev]. now norm.
Qed.

Lemma git_read_step l r g :
  lacks LF l = true -> git_parse_line 40 (l ++ [LF]) = Some g ->
  git_read 40 ((l ++ [LF]) ++ r) = g :: git_read 40 r.
Proof.
  intros Hl Hg. unfold git_read. norm. rewrite git_read_go_line by easy. cbn [rev app]. now rewrite Hg.
Qed.

(* ================================================================ git reads ours *)
Lemma wf_git_parts e : wf_git e = true ->
  wf e = true /\ hash20 (e_old e) = true /\ hash20 (e_new e) = true /\ (0 < e_secs e)%Z.
Proof.
  unfold wf_git. rewrite !andb_true_iff. intros [[[? ?] ?] ?]. repeat split; try easy; lia.
Qed.

Lemma tz_of_off_val off :
  tz_of_off off =
  (let v := Z.of_N (Z.to_N (Z.abs off) / 3600 * 100 + Z.to_N (Z.abs off) mod 3600 / 60) in
   if (off <? 0)%Z then (- v)%Z else v).
Proof.
  unfold tz_of_off. cbv zeta.
  rewrite N2Z.inj_add, N2Z.inj_mul, !N2Z.inj_div, N2Z.inj_mod, Z2N.id by lia. reflexivity.
Qed.

Lemma sign_pick (b : bool) : ((if b then MINUS else PLUS) =? MINUS) = b.
Proof. now destruct b. Qed.
Lemma sign_ok (b : bool) : ((if b then MINUS else PLUS) =? PLUS) || ((if b then MINUS else PLUS) =? MINUS) = true.
Proof. now destruct b. Qed.

Lemma git_reads_line e : wf_git e = true ->
  git_parse_line 40 (encode e) = Some (git_view (normalise e)).
Proof.
  intros W. destruct (wf_git_parts e W) as (W1 & G1 & G2 & G3).
  destruct (wf_parts e W1) as (P1 & P2 & P3 & P4 & P5 & P6 & P7).
  rewrite encode_shape.
  pose proof (zone_text_dig4 (e_off e) P7) as ZT. cbv zeta in ZT. rewrite ZT.
  destruct (zone_split (e_off e) P7) as (A & B & C). cbv zeta in A, B, C.
  assert (DS : dec_Z (e_secs e) = dec_N (Z.to_N (e_secs e))) by (destruct (e_secs e); try lia; reflexivity).
  rewrite DS. rewrite git_parse_shape; try easy; try lia.
  2:{ apply sign_ok. }
  unfold git_view, normalise. cbn [e_old e_new e_name e_email e_secs e_off e_msg]. f_equal. f_equal.
  rewrite sign_pick, tz_of_off_val. reflexivity.
Qed.

Lemma git_reads_file es :
  forallb wf_git es = true ->
  git_read 40 (concat (map encode es)) = map (fun e => git_view (normalise e)) es.
Proof.
  induction es as [|e es IH]; intros H; [reflexivity|].
  cbn [forallb] in H. apply andb_true_iff in H as [He Hes].
  cbn [map concat].
  pose proof (git_reads_line e He) as G. rewrite encode_shape in G |- *.
  destruct (wf_git_parts e He) as (W & _).
  rewrite (git_read_step _ _ _ (proj1 (wf_line_LF e W)) G). now rewrite IH.
Qed.

(* go-git's line is byte for byte the line git's writer produces for the same fields *)
Lemma encode_is_git_write e : wf_git e = true -> encode e = git_write (git_view (normalise e)).
Proof.
  intros W. destruct (wf_git_parts e W) as (W1 & G1 & G2 & G3).
  destruct (wf_parts e W1) as (P1 & P2 & P3 & P4 & P5 & P6 & P7).
  rewrite encode_shape, git_write_shape. unfold git_view, normalise.
  cbn [g_old g_new g_name g_email g_time g_tz g_msg e_old e_new e_name e_email e_secs e_off e_msg].
  assert (DS : dec_Z (e_secs e) = dec_N (Z.to_N (e_secs e))) by (destruct (e_secs e); try lia; reflexivity).
  rewrite DS. f_equal. f_equal.
  pose proof (zone_text_dig4 (e_off e) P7) as ZT. cbv zeta in ZT. rewrite ZT.
  destruct (zone_split (e_off e) P7) as (A & B & C). cbv zeta in A, B, C.
  pose proof (tz_of_off_val (e_off e)) as TV. cbv zeta in TV.
  clear ZT DS P1 P2 P3 P4 P5 P6 G1 G2 G3 W W1.
  set (a := Z.to_N (Z.abs (e_off e))) in *.
  assert (Ha : Z.of_N a = Z.abs (e_off e)) by (subst a; lia).
  clearbody a.
  set (h := a / 3600) in *. set (m := a mod 3600 / 60) in *. clearbody h m.
  set (v := h * 100 + m) in *.
  assert (Hv : v < 10000) by (subst v; lia).
  assert (V0 : v = 0 -> a = 0) by (subst v; lia).
  clearbody v.
  assert (AB : Z.to_N (Z.abs (tz_of_off (e_off e))) = v) by (rewrite TV; destruct (e_off e <? 0)%Z; lia).
  assert (SG : (tz_of_off (e_off e) <? 0)%Z = (e_off e <? 0)%Z).
  { rewrite TV. destruct (e_off e <? 0)%Z eqn:S; [|lia].
    destruct (N.eq_dec v 0) as [E|E]; [|lia]. specialize (V0 E). lia. }
  rewrite tz_text_dig4 by lia. now rewrite AB, SG.
Qed.

(* ================================================================ we read git's *)
Lemma wf_gitent_parts g : wf_gitent g = true ->
  hash20 (g_old g) = true /\ hash20 (g_new g) = true /\ ident_clean (g_name g) = true /\
  name_trim (g_name g) = true /\ ident_clean (g_email g) = true /\
  0 < g_time g < 2 ^ 63 /\ (Z.abs (g_tz g) < 10000)%Z /\ lacks LF (g_msg g) = true.
Proof.
  unfold wf_gitent. rewrite !andb_true_iff. intros [[[[[[[[? ?] ?] ?] ?] ?] ?] ?] ?]. repeat split; try easy; lia.
Qed.

Lemma hash20_ok h : hash20 h = true -> hash_ok h = true.
Proof. unfold hash20, hash_ok. intros K. apply andb_true_iff in K as [-> ->]. reflexivity. Qed.

Lemma go_reads_git_line g : wf_gitent g = true ->
  decode_line (linetxt (g_old g) (g_new g) (g_name g) (g_email g) (dec_N (g_time g)) (tz_text (g_tz g)) (g_msg g))
  = Some (go_view g).
Proof.
  intros W. destruct (wf_gitent_parts g W) as (P1 & P2 & P3 & P4 & P5 & P6 & P7 & P8).
  rewrite tz_text_dig4 by lia.
  set (v := Z.to_N (Z.abs (g_tz g))). assert (Hv : v < 10000) by (subst v; lia).
  destruct (secs_text (Z.of_N (g_time g)) ltac:(lia)) as (S1 & S2 & S3).
  assert (DS : dec_Z (Z.of_N (g_time g)) = dec_N (g_time g)) by (destruct (g_time g); reflexivity).
  rewrite DS in S1, S2, S3.
  unfold go_view. apply decode_shape; auto using hash20_ok, dig4_plain, sign_ok.
  - discriminate.
  - rewrite decode_tz_dig4 by auto using sign_ok. f_equal. rewrite sign_pick. unfold off_of_tz.
    assert (E1 : (Z.abs (g_tz g) / 100 = Z.of_N (v / 100))%Z)
      by (subst v; rewrite N2Z.inj_div, Z2N.id by lia; reflexivity).
    assert (E2 : (Z.abs (g_tz g) mod 100 = Z.of_N (v mod 100))%Z)
      by (subst v; rewrite N2Z.inj_mod, Z2N.id by lia; reflexivity).
    rewrite E1, E2. reflexivity.
Qed.

Lemma git_reads_git_line g : wf_gitent g = true -> git_parse_line 40 (git_write g) = Some g.
Proof.
  intros W. destruct (wf_gitent_parts g W) as (P1 & P2 & P3 & P4 & P5 & P6 & P7 & P8).
  rewrite git_write_shape, tz_text_dig4 by lia.
  rewrite git_parse_shape; try easy; try lia.
  2:{ apply sign_ok. }
  rewrite sign_pick. destruct g as [o n nm em t tz m]. cbn [g_old g_new g_name g_email g_time g_tz g_msg] in *.
  f_equal. f_equal. destruct (tz <? 0)%Z eqn:S; lia.
Qed.

Lemma gitent_line_LF g : wf_gitent g = true ->
  lacks LF (linetxt (g_old g) (g_new g) (g_name g) (g_email g) (dec_N (g_time g)) (tz_text (g_tz g)) (g_msg g)) = true /\
  linetxt (g_old g) (g_new g) (g_name g) (g_email g) (dec_N (g_time g)) (tz_text (g_tz g)) (g_msg g) <> [].
Proof.
  intros W. destruct (wf_gitent_parts g W) as (P1 & P2 & P3 & P4 & P5 & P6 & P7 & P8).
  rewrite tz_text_dig4 by lia.
  apply linetxt_lacks_LF; auto using hash_ok_bytes, hash20_ok, ident_clean_LF.
  - apply digits_plain, dec_N_spec.
  - apply dig4_plain; [apply sign_ok|lia].
Qed.

Lemma go_reads_git_file gs :
  forallb wf_gitent gs = true ->
  decode (concat (map git_write gs)) = Some (map go_view gs) /\
  git_read 40 (concat (map git_write gs)) = gs.
Proof.
  induction gs as [|g gs IH]; intros H; [split; reflexivity|].
  cbn [forallb] in H. apply andb_true_iff in H as [Hg Hgs]. destruct (IH Hgs) as [IH1 IH2].
  cbn [map concat]. destruct (gitent_line_LF g Hg) as [L1 L2].
  pose proof (git_reads_git_line g Hg) as G.
  rewrite git_write_shape in G |- *. split.
  - rewrite (decode_file_step _ _ (go_view g)); [|easy|easy|now apply go_reads_git_line]. now rewrite IH1.
  - rewrite (git_read_step _ _ _ L1 G). now rewrite IH2.
Qed.
