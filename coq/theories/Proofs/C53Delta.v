(* Proofs/C53Delta.v — C53 for the three delta appliers of Model/Delta.v
   (patchDelta, ReaderFromDelta, patchDeltaWriter) and the LEB128 headers:
     total   no applier answers [Err EFuel], for ALL source / delta strings
             (bytes are unbounded [N]: no "byte < 256" guard at all);
     no_oob  a checked variant of the buffer applier that FAILS whenever a
             copy-from-source range src[off:off+sz] or a literal delta[:n]
             leaves its buffer is equal to the model on every delta whose
             elements are bytes (this is where the width of the operands
             matters: off < 2^32, sz < 2^24 make off+sz exact in uint64);
     alloc   a successful application yields exactly the declared target
             size, and that size is at most 2^24 per delta byte.
   The C06 development proves the appliers equal to git's patch_delta under
   [bytes_ok]; the fuel lemmas there carry that guard, these do not. *)
From Coq Require Import List NArith Arith Lia Bool.
From Coq Require Import ZifyBool ZifyNat ZifyN.
From GoGit Require Import Base.Out Model.Delta Spec.GitDelta Proofs.C06Apply.
Import ListNotations.
Local Open Scope N_scope.

(* ---------------------------------------------------------------- consumption, no guard *)
Lemma dec_params_len tbl cmd : forall d acc v r,
  dec_params tbl cmd d acc = Some (v, r) -> (List.length r <= List.length d)%nat.
Proof.
  induction tbl as [|[m s] t IH]; intros d acc v r H; cbn [dec_params] in H.
  - injection H as _ <-. lia.
  - destruct (N.land cmd m =? 0); [eapply IH; eassumption|].
    destruct d as [|b d']; [discriminate|]. apply IH in H. cbn [List.length]. lia.
Qed.

Lemma dec_offset_len cmd d off r : dec_offset cmd d = Some (off, r) -> (List.length r <= List.length d)%nat.
Proof. apply dec_params_len. Qed.

Lemma dec_size_len cmd d sz r : dec_size cmd d = Some (sz, r) -> (List.length r <= List.length d)%nat.
Proof.
  unfold dec_size. destruct (dec_params sizes_tbl cmd d 0) as [[s0 r0]|] eqn:E; [|discriminate].
  intros [= _ <-]. eapply dec_params_len; eassumption.
Qed.

Lemma drop_len n b : (List.length (drop n b) <= List.length b)%nat.
Proof. rewrite drop_skipn, skipn_length. lia. Qed.

Lemma prefix_res_fuel p r : r <> Err EFuel -> prefix_res p r <> Err EFuel.
Proof. destruct r; cbn [prefix_res]; congruence. Qed.

(* ---------------------------------------------------------------- the command loops *)
Lemma pd_loop_total src srcsz : forall f d rem,
  (List.length d < f)%nat -> pd_loop f src srcsz d rem <> Err EFuel.
Proof.
  induction f as [|f IH]; intros d rem Hf; [lia|].
  cbn [pd_loop]. destruct (rem =? 0); [destruct (is_nil d); discriminate|].
  destruct d as [|cmd r]; [discriminate|]. cbn [List.length] in Hf.
  destruct (is_copy_src cmd).
  - destruct (dec_offset cmd r) as [[off r1]|] eqn:Ho; [|discriminate]. apply dec_offset_len in Ho.
    destruct (dec_size cmd r1) as [[sz r2]|] eqn:Hs; [|discriminate]. apply dec_size_len in Hs.
    destruct (invalid_size sz rem || invalid_offset_size off sz srcsz); [discriminate|].
    apply prefix_res_fuel, IH. lia.
  - destruct (is_copy_delta cmd); [|discriminate].
    destruct (invalid_size cmd rem); [discriminate|]. destruct (len r <? cmd); [discriminate|].
    apply prefix_res_fuel, IH. pose proof (drop_len cmd r). lia.
Qed.

Lemma rfd_loop_total src srcsz : forall f rd pos d rem,
  (List.length d < f)%nat -> rfd_loop f src srcsz rd pos d rem <> Err EFuel.
Proof.
  induction f as [|f IH]; intros rd pos d rem Hf; [lia|].
  cbn [rfd_loop]. destruct (rem =? 0); [destruct (is_nil d); discriminate|].
  destruct d as [|cmd r]; [discriminate|]. cbn [List.length] in Hf.
  destruct (is_copy_src cmd).
  - destruct (dec_offset cmd r) as [[off r1]|] eqn:Ho; [|discriminate]. apply dec_offset_len in Ho.
    destruct (dec_size cmd r1) as [[sz r2]|] eqn:Hs; [|discriminate]. apply dec_size_len in Hs.
    destruct (invalid_size sz rem || invalid_offset_size off sz srcsz); [discriminate|]. cbv zeta.
    apply prefix_res_fuel, IH. lia.
  - destruct (is_copy_delta cmd); [|discriminate].
    destruct (invalid_size cmd rem); [discriminate|]. destruct (len r <? cmd); [discriminate|].
    apply prefix_res_fuel, IH. pose proof (drop_len cmd r). lia.
Qed.

Lemma pdw_loop_total sect srcsz : forall f d rem,
  (List.length d < f)%nat -> pdw_loop f sect srcsz d rem <> Err EFuel.
Proof.
  induction f as [|f IH]; intros d rem Hf; [lia|].
  cbn [pdw_loop]. destruct (rem =? 0); [destruct (is_nil d); discriminate|].
  destruct d as [|cmd r]; [discriminate|]. cbn [List.length] in Hf.
  destruct (is_copy_src cmd).
  - destruct (dec_offset cmd r) as [[off r1]|] eqn:Ho; [|discriminate]. apply dec_offset_len in Ho.
    destruct (dec_size cmd r1) as [[sz r2]|] eqn:Hs; [|discriminate]. apply dec_size_len in Hs.
    destruct (invalid_size sz rem || invalid_offset_size off sz srcsz); [discriminate|].
    apply prefix_res_fuel, IH. lia.
  - destruct (is_copy_delta cmd); [|discriminate].
    destruct (invalid_size cmd rem); [discriminate|]. destruct (len r <? cmd); [discriminate|].
    apply prefix_res_fuel, IH. pose proof (drop_len cmd r). lia.
Qed.

(* ---------------------------------------------------------------- LEB128 headers: structural *)
Lemma leb_buf_go_nf : forall inp k acc, leb_buf_go inp k acc <> Err EFuel.
Proof.
  induction inp as [|c t IH]; intros k acc; cbn [leb_buf_go]; [discriminate|].
  destruct (Nat.ltb 8 k); [discriminate|]. destruct (_ || _); [discriminate|apply IH].
Qed.

Lemma leb_rd_go_nf : forall inp k acc, leb_rd_go inp k acc <> Err EFuel.
Proof.
  induction inp as [|c t IH]; intros k acc; cbn [leb_rd_go]; destruct (Nat.ltb 8 k); try discriminate.
  destruct (_ =? 0); [discriminate|apply IH].
Qed.

Lemma eof_invalid_nf {A} (r : res A) : r <> Err EFuel -> eof_invalid r <> Err EFuel.
Proof. destruct r as [a|[]]; cbn [eof_invalid]; congruence. Qed.

(* a varint takes at most 9 bytes (10 from a reader: the tenth is the overflow) *)
Lemma leb_buf_go_len : forall inp k acc v r,
  leb_buf_go inp k acc = Ok (v, r) -> (List.length r <= List.length inp)%nat /\ (List.length inp <= List.length r + (9 - k))%nat.
Proof.
  induction inp as [|c t IH]; intros k acc v r H; cbn [leb_buf_go] in H.
  - injection H as _ <-. cbn. lia.
  - destruct (Nat.ltb_spec 8 k); [discriminate|].
    destruct (_ || _).
    + injection H as _ <-. cbn [List.length]. lia.
    + apply IH in H. cbn [List.length]. lia.
Qed.

(* ---------------------------------------------------------------- entry points *)
Theorem patch_delta_total src d : patch_delta src d <> Err EFuel.
Proof.
  unfold patch_delta. pose proof (leb_buf_go_nf d 0 0) as A. unfold leb_buf.
  destruct (leb_buf_go d 0 0) as [[s d1]|e]; [|congruence].
  destruct (negb _); [discriminate|].
  pose proof (leb_buf_go_nf d1 0 0) as B. destruct (leb_buf_go d1 0 0) as [[t d2]|e]; [|congruence].
  apply pd_loop_total. lia.
Qed.

Theorem patch_delta_wrapper_total src d : patch_delta_wrapper src d <> Err EFuel.
Proof. unfold patch_delta_wrapper. destruct (_ || _); [discriminate|apply patch_delta_total]. Qed.

Theorem reader_from_delta_total src d : reader_from_delta src d <> Err EFuel.
Proof.
  unfold reader_from_delta. pose proof (eof_invalid_nf _ (leb_rd_go_nf d 0 0)) as A. unfold leb_rd.
  destruct (eof_invalid (leb_rd_go d 0 0)) as [[s d1]|e]; [|congruence].
  destruct (negb _); [discriminate|].
  pose proof (eof_invalid_nf _ (leb_rd_go_nf d1 0 0)) as B.
  destruct (eof_invalid (leb_rd_go d1 0 0)) as [[t d2]|e]; [|congruence].
  apply rfd_loop_total. lia.
Qed.

Theorem patch_delta_writer_total bb src d : patch_delta_writer bb src d <> Err EFuel.
Proof.
  unfold patch_delta_writer. pose proof (eof_invalid_nf _ (leb_rd_go_nf d 0 0)) as A. unfold leb_rd.
  destruct (eof_invalid (leb_rd_go d 0 0)) as [[s d1]|e]; [|congruence].
  destruct (_ && _); [discriminate|].
  pose proof (eof_invalid_nf _ (leb_rd_go_nf d1 0 0)) as B.
  destruct (eof_invalid (leb_rd_go d1 0 0)) as [[t d2]|e]; [|congruence].
  apply pdw_loop_total. lia.
Qed.

(* ---------------------------------------------------------------- index safety *)
(* the guard of a copy-from-source command puts the range inside a base of the declared size *)
Lemma copy_in_range cmd d off d1 sz d2 rem srcsz :
  bytes_ok d = true -> dec_offset cmd d = Some (off, d1) -> dec_size cmd d1 = Some (sz, d2) ->
  invalid_size sz rem || invalid_offset_size off sz srcsz = false ->
  off + sz <= srcsz /\ sz <= rem /\ 1 <= sz.
Proof.
  intros Hok Ho Hs Hc.
  destruct (dec_offset_bound _ _ _ _ Hok Ho) as (Hoff & Hok1 & _).
  destruct (dec_size_bound _ _ _ _ Hok1 Hs) as (H1 & H2 & _ & _).
  apply orb_false_iff in Hc as [Hc1 Hc2]. unfold invalid_size in Hc1. apply N.ltb_ge in Hc1.
  unfold invalid_offset_size, sum_overflows in Hc2. apply orb_false_iff in Hc2 as [_ Hc2]. apply N.ltb_ge in Hc2.
  assert (Hlt : off + sz < 2 ^ 64).
  { apply N.lt_trans with (2 ^ 32 + 2 ^ 24); [lia|]. vm_compute. reflexivity. }
  rewrite (N.mod_small _ _ Hlt) in Hc2. repeat split; assumption.
Qed.

(* the buffer applier with Go's slice expressions made partial: [None] = a
   slice bound out of range, i.e. a run-time panic in patchDelta *)
Definition slice_chk (b : bytes) (off sz : N) : option bytes :=
  if len b <? off + sz then None else Some (slice b off sz).
Definition take_chk (n : N) (b : bytes) : option bytes :=
  if len b <? n then None else Some (take n b).

Fixpoint pd_loop_chk (fuel : nat) (src : bytes) (srcsz : N) (delta : bytes) (rem : N) : option (res bytes) :=
  if rem =? 0 then Some (if is_nil delta then Ok [] else Err EInvalid)
  else match fuel with
  | O => Some (Err EFuel)
  | S f =>
    match delta with
    | [] => Some (Err EInvalid)
    | cmd :: d =>
      if is_copy_src cmd then
        match dec_offset cmd d with
        | None => Some (Err EInvalid)
        | Some (off, d1) =>
          match dec_size cmd d1 with
          | None => Some (Err EInvalid)
          | Some (sz, d2) =>
            if invalid_size sz rem || invalid_offset_size off sz srcsz then Some (Err EInvalid)
            else match slice_chk src off sz with
                 | None => None
                 | Some p => option_map (prefix_res p) (pd_loop_chk f src srcsz d2 (rem - sz))
                 end
          end
        end
      else if is_copy_delta cmd then
        if invalid_size cmd rem then Some (Err EInvalid)
        else if len d <? cmd then Some (Err EInvalid)
        else match take_chk cmd d with
             | None => None
             | Some p => option_map (prefix_res p) (pd_loop_chk f src srcsz (drop cmd d) (rem - cmd))
             end
      else Some (Err ECmd)
    end
  end.

Lemma pd_loop_chk_eq src : forall f d rem,
  bytes_ok d = true -> pd_loop_chk f src (len src) d rem = Some (pd_loop f src (len src) d rem).
Proof.
  induction f as [|f IH]; intros d rem Hok; cbn [pd_loop_chk pd_loop].
  - destruct (rem =? 0); reflexivity.
  - destruct (rem =? 0); [reflexivity|]. destruct d as [|cmd r]; [reflexivity|].
    cbn [bytes_ok forallb] in Hok. apply andb_true_iff in Hok as [_ Hr].
    destruct (is_copy_src cmd).
    + destruct (dec_offset cmd r) as [[off r1]|] eqn:Ho; [|reflexivity].
      destruct (dec_size cmd r1) as [[sz r2]|] eqn:Hs; [|reflexivity].
      destruct (invalid_size sz rem || invalid_offset_size off sz (len src)) eqn:Hc; [reflexivity|].
      destruct (copy_in_range _ _ _ _ _ _ _ _ Hr Ho Hs Hc) as (Hin & _ & _).
      destruct (dec_offset_bound _ _ _ _ Hr Ho) as (_ & Hr1 & _).
      destruct (dec_size_bound _ _ _ _ Hr1 Hs) as (_ & _ & Hr2 & _).
      unfold slice_chk. destruct (N.ltb_spec (len src) (off + sz)); [lia|].
      rewrite IH by assumption. reflexivity.
    + destruct (is_copy_delta cmd); [|reflexivity].
      destruct (invalid_size cmd rem); [reflexivity|].
      destruct (len r <? cmd) eqn:Hl; [reflexivity|]. unfold take_chk. rewrite Hl.
      rewrite IH by (apply bytes_ok_drop; assumption). reflexivity.
Qed.

Definition patch_delta_chk (src delta : bytes) : option (res bytes) :=
  match leb_buf delta with
  | Err e => Some (Err e)
  | Ok (srcsz, d1) =>
    if negb (srcsz =? len src) then Some (Err EInvalid)
    else match leb_buf d1 with
         | Err e => Some (Err e)
         | Ok (tgtsz, d2) => pd_loop_chk (S (List.length d2)) src srcsz d2 tgtsz
         end
  end.

(* no slice expression of patchDelta is out of range, whatever the delta says *)
Theorem patch_delta_no_oob src d : bytes_ok d = true -> patch_delta_chk src d = Some (patch_delta src d).
Proof.
  intros Hok. unfold patch_delta_chk, patch_delta.
  destruct (leb_buf d) as [[s d1]|e] eqn:H1; [|reflexivity].
  destruct (negb (s =? len src)) eqn:E; [reflexivity|].
  apply negb_false_iff, N.eqb_eq in E. subst s.
  destruct (leb_buf_go_props d 0 0 _ d1 Hok H1) as (Hok1 & _).
  destruct (leb_buf d1) as [[t d2]|e] eqn:H2; [|reflexivity].
  destruct (leb_buf_go_props d1 0 0 _ d2 Hok1 H2) as (Hok2 & _).
  apply pd_loop_chk_eq. exact Hok2.
Qed.

(* ---------------------------------------------------------------- output size *)
(* what a command sequence can produce: < 2^24 bytes per command, a command takes >= 1 byte *)
Lemma pd_loop_out_bound src srcsz : forall f d rem out,
  bytes_ok d = true -> pd_loop f src srcsz d rem = Ok out -> rem <= 16777216 * len d.
Proof.
  induction f as [|f IH]; intros d rem out Hok H; cbn [pd_loop] in H.
  - destruct (N.eqb_spec rem 0); [lia|discriminate].
  - destruct (N.eqb_spec rem 0); [lia|]. destruct d as [|cmd r]; [discriminate|].
    cbn [bytes_ok forallb] in Hok. apply andb_true_iff in Hok as [Hc Hr].
    assert (Hlen : len (cmd :: r) = 1 + len r) by (unfold len; cbn [List.length]; lia). rewrite Hlen.
    destruct (is_copy_src cmd).
    + destruct (dec_offset cmd r) as [[off r1]|] eqn:Ho; [|discriminate].
      destruct (dec_offset_bound _ _ _ _ Hr Ho) as (_ & Hr1 & L1).
      destruct (dec_size cmd r1) as [[sz r2]|] eqn:Hs; [|discriminate].
      destruct (dec_size_bound _ _ _ _ Hr1 Hs) as (_ & Hsz & Hr2 & L2).
      destruct (invalid_size sz rem || invalid_offset_size off sz srcsz); [discriminate|].
      destruct (pd_loop f src srcsz r2 (rem - sz)) as [o|] eqn:Hrec; [|discriminate].
      apply IH in Hrec; [|assumption]. change (2 ^ 24) with 16777216 in Hsz. unfold len in *. lia.
    + destruct (is_copy_delta cmd) eqn:Hd; [|discriminate].
      destruct (invalid_size cmd rem); [discriminate|]. destruct (len r <? cmd) eqn:Hl; [discriminate|].
      destruct (pd_loop f src srcsz (drop cmd r) (rem - cmd)) as [o|] eqn:Hrec; [|discriminate].
      apply IH in Hrec; [|apply bytes_ok_drop; assumption]. apply N.ltb_ge in Hl.
      rewrite len_drop in Hrec. apply N.ltb_lt in Hc. lia.
Qed.

Theorem patch_delta_alloc src d out :
  bytes_ok d = true -> patch_delta src d = Ok out ->
  target_size d = Some (len out) /\ len out <= 16777216 * len d.
Proof.
  intros Hok H. split; [exact (no_partial_success src d out Hok H)|].
  unfold patch_delta in H.
  destruct (leb_buf d) as [[s d1]|] eqn:H1; [|discriminate].
  destruct (negb (s =? len src)) eqn:E; [discriminate|].
  apply negb_false_iff, N.eqb_eq in E. subst s.
  destruct (leb_buf_go_props d 0 0 _ d1 Hok H1) as (Hok1 & L1 & _).
  destruct (leb_buf d1) as [[t d2]|] eqn:H2; [|discriminate].
  destruct (leb_buf_go_props d1 0 0 _ d2 Hok1 H2) as (Hok2 & L2 & _).
  pose proof (pd_loop_len _ _ _ _ _ Hok2 H) as Hlen.
  pose proof (pd_loop_out_bound _ _ _ _ _ _ Hok2 H) as Hb. unfold len in *. lia.
Qed.

(* ---------------------------------------------------------------- re-exported by Properties/C53.v *)
Theorem c53_delta_total : forall bb src d,
  patch_delta src d <> Err EFuel /\ patch_delta_wrapper src d <> Err EFuel /\
  reader_from_delta src d <> Err EFuel /\ patch_delta_writer bb src d <> Err EFuel.
Proof.
  intros. repeat split;
    [apply patch_delta_total|apply patch_delta_wrapper_total|apply reader_from_delta_total|apply patch_delta_writer_total].
Qed.
