(* Proofs/C53Index.v — C53 for the index (DIRC) decoder of Model/IndexFile.v:
   for EVERY byte string, version, hash size and checksum function
     total   Decode never answers [Err EFuel]: the entry loop is driven by the
             32-bit count of the header, but every entry consumes at least
             42+hs input bytes, every extension at least 8, every TREE / REUC
             record at least one, and the offset varint one byte per round;
     no_oob  index v4: the "strip N bytes of the previous name" varint is
             accepted only for N <= |previous name| (N = |prev| allowed,
             N = |prev|+1 rejected), so prev[:len-N] is in range; a fixed part
             carries an object id of exactly hs bytes;
     alloc   #entries * (42+hs) <= |input| whatever the declared count;
             #TREE records and #REUC records <= size of the extension. *)
From Coq Require Import List NArith ZArith Bool Lia Arith ZifyBool ZifyNat ZifyN.
From GoGit Require Import Base.Out Model.IndexFile.
Import ListNotations.

(* ---------------------------------------------------------------- leaf readers consume what they return *)
Lemma take_len n b a r : take n b = Some (a, r) -> List.length b = (n + List.length r)%nat /\ List.length a = n.
Proof.
  unfold take. destruct (Nat.leb_spec n (List.length b)); [|discriminate].
  intros [= <- <-]. rewrite firstn_length, skipn_length. lia.
Qed.

Lemma get_u32_len b v r : get_u32 b = Some (v, r) -> List.length b = (4 + List.length r)%nat.
Proof. destruct b as [|x [|y [|z [|w t]]]]; cbn [get_u32]; try discriminate. intros [= _ <-]. reflexivity. Qed.

Lemma get_u16_len b v r : get_u16 b = Some (v, r) -> List.length b = (2 + List.length r)%nat.
Proof. destruct b as [|x [|y t]]; cbn [get_u16]; try discriminate. intros [= _ <-]. reflexivity. Qed.

Lemma read_until_len d : forall b v r, read_until d b = Some (v, r) -> List.length b = (List.length v + 1 + List.length r)%nat.
Proof.
  induction b as [|c t IH]; intros v r H; cbn [read_until] in H; [discriminate|].
  destruct (N.eqb c d).
  - injection H as <- <-. cbn [List.length]. lia.
  - destruct (read_until d t) as [[v' r']|] eqn:E; [|discriminate]. injection H as <- <-.
    specialize (IH _ _ eq_refl). cbn [List.length]. lia.
Qed.

(* ---------------------------------------------------------------- the offset varint *)
Lemma read_varint_loop_props : forall fuel v c b, (List.length b <= fuel)%nat ->
  read_varint_loop fuel v c b <> Err EFuel /\
  (forall n r, read_varint_loop fuel v c b = Ok (n, r) -> (List.length r <= List.length b)%nat).
Proof.
  induction fuel as [|f IH]; intros v c b Hf.
  - destruct b as [|c' t]; [|cbn [List.length] in Hf; lia].
    cbn [read_varint_loop]. destruct (N.ltb c 128); [split; [discriminate|intros n r [= _ <-]; lia]|].
    destruct (N.leb varint_limit v); split; try discriminate.
  - cbn [read_varint_loop]. destruct (N.ltb c 128); [split; [discriminate|intros n r [= _ <-]; lia]|].
    destruct (N.leb varint_limit v); [split; discriminate|].
    destruct b as [|c' t]; [split; discriminate|]. cbn [List.length] in Hf.
    destruct (IH ((v + 1) * 128 + c' mod 128)%N c' t ltac:(lia)) as [A B]. split; [exact A|].
    intros n r H. apply B in H. cbn [List.length]. lia.
Qed.

Lemma read_varint_props b :
  read_varint b <> Err EFuel /\ (forall n r, read_varint b = Ok (n, r) -> (List.length r < List.length b)%nat).
Proof.
  unfold read_varint. destruct b as [|c t]; [split; discriminate|].
  destruct (read_varint_loop_props (List.length t) (c mod 128)%N c t (le_n _)) as [A B]. split; [exact A|].
  intros n r H. apply B in H. cbn [List.length]. lia.
Qed.

(* ---------------------------------------------------------------- one entry *)
Lemma read_name23_props flags rd b :
  read_name23 flags rd b <> Err EFuel /\ (forall nm r, read_name23 flags rd b = Ok (nm, r) -> (List.length r <= List.length b)%nat).
Proof.
  unfold read_name23. cbv zeta.
  destruct (N.eqb (flags mod 4096) nameMask).
  - destruct (read_until 0 b) as [[name b']|] eqn:E; [|split; discriminate]. apply read_until_len in E.
    destruct (take _ b') as [[p b'']|] eqn:T; [|split; discriminate]. apply take_len in T.
    split; [discriminate|]. intros nm r [= _ <-]. lia.
  - destruct (take (N.to_nat (flags mod 4096)) b) as [[name b']|] eqn:E; [|split; discriminate]. apply take_len in E.
    destruct (take _ b') as [[p b'']|] eqn:T; [|split; discriminate]. apply take_len in T.
    split; [discriminate|]. intros nm r [= _ <-]. lia.
Qed.

Lemma read_name4_props last b :
  read_name4 last b <> Err EFuel /\ (forall nm r, read_name4 last b = Ok (nm, r) -> (List.length r < List.length b)%nat).
Proof.
  unfold read_name4. destruct (read_varint_props b) as [A B].
  destruct (read_varint b) as [[l b1]|e]; [|split; [congruence|discriminate]].
  specialize (B _ _ eq_refl).
  destruct (match last with Some ln => _ | None => _ end) as [base|e] eqn:Eb.
  - destruct (read_until 0 b1) as [[suffix b']|] eqn:E; [|split; discriminate]. apply read_until_len in E.
    split; [discriminate|]. intros nm r [= _ <-]. lia.
  - split; [|discriminate]. destruct last as [ln|].
    + destruct (N.ltb _ l); [injection Eb as <-; discriminate|discriminate].
    + destruct (N.ltb 0 l); [injection Eb as <-; discriminate|discriminate].
Qed.

(* index v4: the strip length is checked against the previous name before it is used *)
Lemma read_name4_strip_rejected ln b l b1 :
  read_varint b = Ok (l, b1) -> (N.of_nat (List.length ln) < l)%N -> read_name4 (Some ln) b = Err EMalformed.
Proof.
  intros R Hl. unfold read_name4. rewrite R. destruct (N.ltb_spec (N.of_nat (List.length ln)) l); [reflexivity|lia].
Qed.

Lemma read_name4_strip_in_range ln b nm r :
  read_name4 (Some ln) b = Ok (nm, r) ->
  exists l b1 suffix, read_varint b = Ok (l, b1) /\ (N.to_nat l <= List.length ln)%nat /\
    nm = firstn (List.length ln - N.to_nat l) ln ++ suffix.
Proof.
  unfold read_name4. destruct (read_varint b) as [[l b1]|e]; [|discriminate].
  destruct (N.ltb_spec (N.of_nat (List.length ln)) l); [discriminate|].
  destruct (read_until 0 b1) as [[suffix b']|]; [|discriminate]. intros [= <- <-].
  exists l, b1, suffix. repeat split; lia.
Qed.

Section Codec.
Variable hs : nat.
Variable H : bytes -> bytes.

Lemma read_fixed_len b f r : read_fixed hs b = Some (f, r) ->
  List.length b = (42 + hs + List.length r)%nat /\ List.length (f_hash f) = hs.
Proof.
  unfold read_fixed.
  repeat (match goal with |- context [get_u32 ?x] => destruct (get_u32 x) as [[? ?]|] eqn:?; [|discriminate] end).
  destruct (take hs _) as [[hash b11]|] eqn:T; [|discriminate].
  destruct (get_u16 b11) as [[flags b12]|] eqn:G; [|discriminate].
  intros [= <- <-]. cbn [f_hash].
  repeat (match goal with E : get_u32 _ = Some _ |- _ => apply get_u32_len in E end).
  apply take_len in T. apply get_u16_len in G. lia.
Qed.

Lemma read_entry_props ver last b :
  read_entry hs ver last b <> Err EFuel /\
  (forall e r, read_entry hs ver last b = Ok (e, r) ->
     (42 + hs + List.length r <= List.length b)%nat /\ List.length (e_hash e) = hs).
Proof.
  unfold read_entry. destruct (read_fixed hs b) as [[f b1]|] eqn:F; [|split; discriminate].
  apply read_fixed_len in F. destruct F as [F Fh]. cbv zeta.
  destruct (N.testbit (f_flags f) 14) eqn:Ext.
  - destruct (get_u16 b1) as [[x b']|] eqn:G; [|split; discriminate]. apply get_u16_len in G. cbv beta iota.
    destruct ((ver =? 2) || (ver =? 3))%N.
    + destruct (read_name23_props (f_flags f) (42 + hs + 2) b') as [A B].
      destruct (read_name23 _ _ b') as [[nm r']|e]; [|split; [congruence|discriminate]].
      split; [discriminate|]. intros e r [= <- <-]. specialize (B _ _ eq_refl). cbn [e_hash]. split; [lia|exact Fh].
    + destruct (ver =? 4)%N; [|split; discriminate].
      destruct (read_name4_props last b') as [A B].
      destruct (read_name4 last b') as [[nm r']|e]; [|split; [congruence|discriminate]].
      split; [discriminate|]. intros e r [= <- <-]. specialize (B _ _ eq_refl). cbn [e_hash]. split; [lia|exact Fh].
  - cbv beta iota.
    destruct ((ver =? 2) || (ver =? 3))%N.
    + destruct (read_name23_props (f_flags f) (42 + hs + 0) b1) as [A B].
      destruct (read_name23 _ _ b1) as [[nm r']|e]; [|split; [congruence|discriminate]].
      split; [discriminate|]. intros e r [= <- <-]. specialize (B _ _ eq_refl). cbn [e_hash]. split; [lia|exact Fh].
    + destruct (ver =? 4)%N; [|split; discriminate].
      destruct (read_name4_props last b1) as [A B].
      destruct (read_name4 last b1) as [[nm r']|e]; [|split; [congruence|discriminate]].
      split; [discriminate|]. intros e r [= <- <-]. specialize (B _ _ eq_refl). cbn [e_hash]. split; [lia|exact Fh].
Qed.

(* ---------------------------------------------------------------- the entry loop *)
Lemma read_entries_props ver : forall fuel count last b acc, (List.length b < fuel)%nat ->
  read_entries hs fuel ver count last b acc <> Err EFuel /\
  (forall es r, read_entries hs fuel ver count last b acc = Ok (es, r) ->
     (List.length es * (42 + hs) + List.length r <= List.length acc * (42 + hs) + List.length b)%nat).
Proof.
  induction fuel as [|f IH]; intros count last b acc Hf; [lia|].
  cbn [read_entries]. destruct (N.eqb count 0).
  - split; [discriminate|]. intros es r [= <- <-]. rewrite rev_length. lia.
  - destruct (read_entry_props ver last b) as [A B].
    destruct (read_entry hs ver last b) as [[e b']|x]; [|split; [congruence|discriminate]].
    destruct (B _ _ eq_refl) as [L _].
    destruct (IH (count - 1)%N (Some (e_name e)) b' (e :: acc) ltac:(lia)) as [A' B']. split; [exact A'|].
    intros es r E. apply B' in E. cbn [List.length] in E. lia.
Qed.

(* ---------------------------------------------------------------- TREE and REUC records *)
Lemma read_tree_ext_props : forall fuel b acc, (List.length b < fuel)%nat ->
  read_tree_ext hs fuel b acc <> Err EFuel /\
  (forall l, read_tree_ext hs fuel b acc = Ok l -> (List.length l <= List.length acc + List.length b)%nat).
Proof.
  induction fuel as [|f IH]; intros b acc Hf; [lia|]. cbn [read_tree_ext].
  destruct (read_until 0 b) as [[path b1]|] eqn:E1; [|split; [discriminate|intros l [= <-]; rewrite rev_length; lia]].
  apply read_until_len in E1.
  destruct (read_until 32 b1) as [[cnt b2]|] eqn:E2; [|split; [discriminate|intros l [= <-]; rewrite rev_length; lia]].
  apply read_until_len in E2.
  destruct (parse_int 10 cnt) as [i|]; [|split; discriminate].
  destruct (read_until 10 b2) as [[tr b3]|] eqn:E3; [|split; [discriminate|intros l [= <-]; rewrite rev_length; lia]].
  apply read_until_len in E3.
  destruct (parse_int 10 tr) as [t|]; [|split; discriminate].
  destruct (Z.ltb i 0).
  - destruct (IH b3 acc ltac:(lia)) as [A B]. split; [exact A|]. intros l E. apply B in E. lia.
  - destruct b3 as [|x b3']; [split; [discriminate|intros l [= <-]; rewrite rev_length; lia]|].
    destruct (take hs (x :: b3')) as [[h b4]|] eqn:T; [|split; discriminate]. apply take_len in T.
    destruct (IH b4 (mkTE path i t h :: acc) ltac:(lia)) as [A B]. split; [exact A|].
    intros l E. apply B in E. cbn [List.length] in *. lia.
Qed.

Lemma read_reuc_stage_len b p r : read_reuc_stage b = Some (Ok (p, r)) -> (List.length r < List.length b)%nat.
Proof.
  unfold read_reuc_stage. destruct (read_until 0 b) as [[a b']|] eqn:E; [|discriminate]. apply read_until_len in E.
  destruct (parse_int 8 a); [|discriminate]. intros [= _ <-]. lia.
Qed.

Lemma read_reuc_stage_nf b x : read_reuc_stage b = Some (Err x) -> x <> EFuel.
Proof.
  unfold read_reuc_stage. destruct (read_until 0 b) as [[a b']|]; [|discriminate].
  destruct (parse_int 8 a); [discriminate|]. intros [= <-]. discriminate.
Qed.

Lemma read_reuc_hashes_props : forall present b acc,
  (forall x, read_reuc_hashes hs present b acc = Some (Err x) -> x <> EFuel) /\
  (forall st r, read_reuc_hashes hs present b acc = Some (Ok (st, r)) -> (List.length r <= List.length b)%nat).
Proof.
  induction present as [|s rest IH]; intros b acc; cbn [read_reuc_hashes].
  - split; [discriminate|]. intros st r [= _ <-]. lia.
  - destruct b as [|c t]; [split; discriminate|].
    destruct (take hs (c :: t)) as [[h b']|] eqn:T; [|split; [intros x [= <-]; discriminate|discriminate]].
    apply take_len in T. destruct (IH b' ((s, h) :: acc)) as [A B]. split; [exact A|].
    intros st r E. apply B in E. lia.
Qed.

Lemma read_reuc_ext_props : forall fuel b acc, (List.length b < fuel)%nat ->
  read_reuc_ext hs fuel b acc <> Err EFuel /\
  (forall l, read_reuc_ext hs fuel b acc = Ok l -> (List.length l <= List.length acc + List.length b)%nat).
Proof.
  induction fuel as [|f IH]; intros b acc Hf; [lia|]. cbn [read_reuc_ext].
  assert (Stop : read_reuc_ext hs (S f) [] acc = Ok (rev acc)) by reflexivity.
  destruct (read_until 0 b) as [[path b0]|] eqn:E0; [|split; [discriminate|intros l [= <-]; rewrite rev_length; lia]].
  apply read_until_len in E0.
  destruct (read_reuc_stage b0) as [[[p1 b1]|x]|] eqn:S1;
    [|split; [apply read_reuc_stage_nf in S1; congruence|discriminate]|split; [discriminate|intros l [= <-]; rewrite rev_length; lia]].
  apply read_reuc_stage_len in S1.
  destruct (read_reuc_stage b1) as [[[p2 b2]|x]|] eqn:S2;
    [|split; [apply read_reuc_stage_nf in S2; congruence|discriminate]|split; [discriminate|intros l [= <-]; rewrite rev_length; lia]].
  apply read_reuc_stage_len in S2.
  destruct (read_reuc_stage b2) as [[[p3 b3]|x]|] eqn:S3;
    [|split; [apply read_reuc_stage_nf in S3; congruence|discriminate]|split; [discriminate|intros l [= <-]; rewrite rev_length; lia]].
  apply read_reuc_stage_len in S3. cbv zeta.
  match goal with |- context [read_reuc_hashes hs ?pr b3 []] => destruct (read_reuc_hashes_props pr b3 []) as [HA HB];
    destruct (read_reuc_hashes hs pr b3 []) as [[[st b4]|x]|] end.
  - specialize (HB _ _ eq_refl). destruct (IH b4 (mkRE path st :: acc) ltac:(lia)) as [A B]. split; [exact A|].
    intros l E. apply B in E. cbn [List.length] in *. lia.
  - split; [specialize (HA _ eq_refl); congruence|discriminate].
  - split; [discriminate|intros l [= <-]; rewrite rev_length; lia].
Qed.

(* ---------------------------------------------------------------- extensions and the whole file *)
Lemma read_extensions_total skip all : forall fuel b idx, (List.length b < fuel)%nat ->
  read_extensions hs H fuel skip all b idx <> Err EFuel.
Proof.
  induction fuel as [|f IH]; intros b idx Hf; [lia|]. cbn [read_extensions].
  destruct (Nat.ltb (List.length b) (8 + hs)).
  - destruct (take hs b) as [[h r]|]; [|discriminate]. destruct (_ || _); [discriminate|].
    destruct (bytes_eqb _ _); discriminate.
  - destruct (take 4 b) as [[sig b1]|] eqn:T; [|discriminate]. apply take_len in T.
    destruct (get_u32 b1) as [[len b2]|] eqn:G; [|discriminate]. apply get_u32_len in G. cbv zeta.
    set (n := N.to_nat (N.min len (N.of_nat (List.length b2)))).
    assert (Hr : (List.length (skipn n b2) < f)%nat) by (rewrite skipn_length; lia).
    destruct (bytes_eqb sig TREE).
    { destruct (read_tree_ext_props (S (List.length (firstn n b2))) (firstn n b2) [] (Nat.lt_succ_diag_r _)) as [A _].
      destruct (read_tree_ext hs _ (firstn n b2) []); [apply IH; exact Hr|congruence]. }
    destruct (bytes_eqb sig REUC).
    { destruct (read_reuc_ext_props (S (List.length (firstn n b2))) (firstn n b2) [] (Nat.lt_succ_diag_r _)) as [A _].
      destruct (read_reuc_ext hs _ (firstn n b2) []); [apply IH; exact Hr|congruence]. }
    destruct (bytes_eqb sig EOIE).
    { destruct (get_u32 (firstn n b2)) as [[off d1]|]; [|discriminate].
      destruct (take hs d1) as [[h d2]|]; [|discriminate]. apply IH. exact Hr. }
    destruct sig as [|c s]; [discriminate|]. destruct (_ && _); [apply IH; exact Hr|discriminate].
Qed.

Theorem decode_total skip b : decode hs H skip b <> Err EFuel.
Proof.
  unfold decode. destruct (take 4 b) as [[sig b1]|]; [|discriminate].
  destruct (negb _); [discriminate|]. destruct (get_u32 b1) as [[ver b2]|]; [|discriminate].
  destruct (_ || _); [discriminate|]. destruct (get_u32 b2) as [[count b3]|]; [|discriminate].
  destruct (read_entries_props ver (S (List.length b3)) count None b3 [] (Nat.lt_succ_diag_r _)) as [A _].
  destruct (read_entries hs _ ver count None b3 []) as [[es b4]|x]; [|congruence].
  apply read_extensions_total. lia.
Qed.

(* whatever the 32-bit count of the header says, the entries fit the input *)
Theorem decode_entries_bound ver count b3 es b4 :
  read_entries hs (S (List.length b3)) ver count None b3 [] = Ok (es, b4) ->
  (List.length es * (42 + hs) + List.length b4 <= List.length b3)%nat /\ Forall (fun e => List.length (e_hash e) = hs) es.
Proof.
  intros E. destruct (read_entries_props ver (S (List.length b3)) count None b3 [] (Nat.lt_succ_diag_r _)) as [_ B].
  split; [apply B in E; cbn [List.length] in E; lia|].
  clear B. revert E. generalize (S (List.length b3)) (@None bytes) b3 count.
  assert (G : forall f last b c acc, Forall (fun e => List.length (e_hash e) = hs) acc ->
            read_entries hs f ver c last b acc = Ok (es, b4) -> Forall (fun e => List.length (e_hash e) = hs) es).
  { induction f as [|f IH]; intros last b0 c acc Ha E; cbn [read_entries] in E.
    - destruct (N.eqb c 0); [|discriminate]. injection E as <- _. apply Forall_rev. exact Ha.
    - destruct (N.eqb c 0); [injection E as <- _; apply Forall_rev; exact Ha|].
      destruct (read_entry_props ver last b0) as [_ B].
      destruct (read_entry hs ver last b0) as [[e b']|]; [|discriminate].
      destruct (B _ _ eq_refl) as [_ Hh]. eapply IH; [|exact E]. constructor; assumption. }
  intros f last b0 c E. eapply G; [constructor|exact E].
Qed.

End Codec.
