(* Proofs/C23refs.v — reference accounting of LazyIndex iterators and readers on
   one SharedFile is exact, for every interleaving (Model/IdxRefs.v). *)
From Coq Require Import List NArith Bool Lia PeanoNat.
From GoGit Require Import Model.IdxRefs.
Import ListNotations.

Definition iholds (t : ithread) : nat :=
  match t with
  | RdHold _ | ItSearch _ _ | ItHold _ _ | ItEnd => 1
  | _ => 0
  end.
Definition iholders (ts : list ithread) : nat := fold_right (fun t n => iholds t + n) 0 ts.

(* ItStale exists only in the variant *)
Definition regular (t : ithread) : bool := match t with ItStale => false | _ => true end.

Definition sinv (s : ishared) : Prop :=
  (0 < refs s -> fopen s = true) /\ bad s = false /\ n_ignored s = 0 /\ n_acq s = n_rel s + refs s.

Lemma acquire_ok : forall s, sinv s -> sinv (acquire s) /\ refs (acquire s) = S (refs s).
Proof. intros [r fo la na nr ni b] (I1 & I2 & I3 & I4). cbn in *. unfold sinv. cbn. repeat split; auto; lia. Qed.

Lemma release_ok : forall s, 1 <= refs s -> sinv s -> sinv (release s) /\ S (refs (release s)) = refs s.
Proof.
  intros [r fo la na nr ni b] H (I1 & I2 & I3 & I4). cbn in *. unfold release. cbn.
  destruct r as [|[|r]]; [lia | |].
  - destruct la; unfold sinv; cbn; repeat split; auto; try lia; try (intros; lia).
  - unfold sinv; cbn; repeat split; auto; try lia; try (intros _; apply I1; lia).
Qed.

Lemma read_ok : forall s, 1 <= refs s -> sinv s -> read s = s.
Proof. intros s H (I1 & _). unfold read. rewrite I1; [reflexivity | lia]. Qed.

Lemma evict_ok : forall s, sinv s -> sinv (evict s) /\ refs (evict s) = refs s.
Proof.
  intros [r fo la na nr ni b] (I1 & I2 & I3 & I4). cbn in *. unfold evict. cbn.
  destruct r; unfold sinv; cbn; repeat split; auto; try lia; try (intros; lia).
Qed.

Ltac fin3 := split; [assumption|]; split; [cbn in *; lia | reflexivity].

Lemma istep_ok : forall s t a s' t',
  regular t = true -> iholds t <= refs s -> sinv s -> istep true s t a = (s', t') ->
  sinv s' /\ refs s' + iholds t = refs s + iholds t' /\ regular t' = true.
Proof.
  intros s t a s' t' R H I E.
  destruct t as [n|n| |m tl|m tl|m tl| | | |e|n]; cbn [istep iholds regular] in *; try discriminate.
  - (* RdStart *) inversion E; subst. destruct (acquire_ok s I) as [A B]. cbn. fin3.
  - (* RdHold *) destruct n as [|n]; [|destruct a].
    + inversion E; subst. destruct (release_ok s H I) as [A B]. cbn. fin3.
    + inversion E; subst. rewrite (read_ok s H I). cbn. fin3.
    + inversion E; subst. destruct (release_ok s H I) as [A B]. cbn. fin3.
  - (* RdDone *) inversion E; subst. fin3.
  - (* ItStart *) inversion E; subst. destruct (acquire_ok s I) as [A B]. cbn. fin3.
  - (* ItSearch *) destruct a; [|inversion E; subst; fin3].
    rewrite (read_ok s H I) in E.
    destruct m as [|m]; [destruct tl|]; inversion E; subst; cbn; try (fin3; fail).
    destruct (release_ok s H I) as [A B]. fin3.
  - (* ItHold *) destruct a.
    + destruct m as [|m].
      * destruct tl; inversion E; subst; cbn; try (fin3; fail).
        rewrite (read_ok s H I). destruct (release_ok s H I) as [A B]. fin3.
      * inversion E; subst. rewrite (read_ok s H I). cbn. fin3.
    + assert (E' : (release s, ItClosed 1) = (s', t')) by (destruct m; [destruct tl|]; exact E).
      inversion E'; subst. destruct (release_ok s H I) as [A B]. cbn. fin3.
  - (* ItEnd *) inversion E; subst. destruct (release_ok s H I) as [A B]. cbn. fin3.
  - (* ItNil *) inversion E; subst. cbn. fin3.
  - (* ItClosed *) destruct e; inversion E; subst; cbn; fin3.
  - (* Evictor *) destruct n; inversion E; subst; cbn; [fin3|].
    destruct (evict_ok s I) as [A B]. fin3.
Qed.

Lemma iholders_iupd : forall ts i t t', nth_error ts i = Some t ->
  iholders (iupd ts i t') + iholds t = iholders ts + iholds t'.
Proof.
  induction ts as [|y r IH]; intros i t t' H; destruct i; cbn in *; try discriminate.
  - inversion H; subst. lia.
  - specialize (IH _ _ t' H). unfold iholders in *. lia.
Qed.

Lemma iholds_le : forall ts i t, nth_error ts i = Some t -> iholds t <= iholders ts.
Proof.
  induction ts as [|y r IH]; intros i t H; destruct i; cbn in *; try discriminate.
  - inversion H; subst. lia.
  - specialize (IH _ _ H). unfold iholders in *. lia.
Qed.

Lemma forallb_iupd : forall (f : ithread -> bool) ts i x, forallb f ts = true -> f x = true -> forallb f (iupd ts i x) = true.
Proof.
  induction ts as [|y r IH]; intros i x F X; cbn in *; [reflexivity|].
  apply andb_true_iff in F. destruct F as [F1 F2]. destruct i; cbn; rewrite ?X, ?F1, ?F2; auto.
  rewrite IH; auto.
Qed.

Definition ginv (st : istate) : Prop :=
  sinv (ish st) /\ refs (ish st) = iholders (ithreads st) /\ forallb regular (ithreads st) = true.

Lemma isched_step_inv : forall st ia, ginv st -> ginv (isched_step true st ia).
Proof.
  intros [s ts] [i a] (I & R & F). unfold isched_step. cbn [ish ithreads fst snd] in *.
  destruct (nth_error ts i) as [t|] eqn:N; [|unfold ginv; cbn; auto].
  destruct (istep true s t a) as [s' t'] eqn:E.
  assert (Rt : regular t = true).
  { rewrite forallb_forall in F. apply F. eapply nth_error_In; eauto. }
  assert (H : iholds t <= refs s) by (rewrite R; eapply iholds_le; eauto).
  destruct (istep_ok _ _ _ _ _ Rt H I E) as (I' & C & R').
  pose proof (iholders_iupd _ _ _ t' N). cbn.
  unfold ginv; cbn [ish ithreads]. unfold iholders in *. split; [assumption|]. split; [lia|]. now apply forallb_iupd.
Qed.

Lemma irun_inv : forall sched st, ginv st -> ginv (irun true st sched).
Proof.
  induction sched as [|ia r IH]; intros st G; cbn; [assumption|].
  apply IH. now apply isched_step_inv.
Qed.

(* threads at the start of their programs *)
Definition istarting (t : ithread) : bool :=
  match t with RdStart _ | ItStart _ _ | Evictor _ => true | _ => false end.

Lemma ginv_init : forall ts, forallb istarting ts = true -> ginv (iinit ts).
Proof.
  intros ts H. unfold ginv, iinit, sinv. cbn.
  assert (A : iholders ts = 0 /\ forallb regular ts = true).
  { induction ts as [|t r IH]; cbn in *; [auto|].
    apply andb_true_iff in H. destruct H as [H1 H2]. destruct (IH H2) as [A B].
    destruct t; cbn in *; try discriminate; rewrite ?B; unfold iholders in *; auto. }
  destruct A as [A B]. repeat split; auto; try lia.
Qed.

(* the theorems *)
Theorem refs_exact : forall ts sched, forallb istarting ts = true ->
  let st := irun true (iinit ts) sched in
  refs (ish st) = iholders (ithreads st) /\
  n_acq (ish st) = n_rel (ish st) + refs (ish st) /\
  n_ignored (ish st) = 0 /\
  bad (ish st) = false /\
  (0 < refs (ish st) -> fopen (ish st) = true).
Proof.
  intros ts sched H st. destruct (irun_inv sched _ (ginv_init ts H)) as ((I1 & I2 & I3 & I4) & R & _).
  fold st in I1, I2, I3, I4, R. repeat split; auto.
Qed.
